#!/bin/sh
# run every seeded change against the check of the property it was written for; write seeded/RESULTS.tsv
cd "$(dirname "$0")/.."
out=seeded/RESULTS.tsv
echo "seed	property	exit	verdict	oracles" > $out
for d in seeded/C*/; do
  id=$(basename $d); prop=${id%-*}
  [ -f "$d/patch.diff" ] || continue
  res=$(tools/try_mutant.sh $d/patch.diff $prop 2>&1)
  rc=$(echo "$res" | grep -o 'exit=[0-9]*' | tail -1)
  if echo "$res" | grep -q "patch does not apply"; then verdict="patch-does-not-apply"; 
  elif echo "$res" | grep "VIOLATION" | grep -qv "no-failing-input-found"; then verdict="caught:failing-input";
  elif echo "$res" | grep -q "VIOLATION"; then verdict="caught:obligation-only";
  else verdict="MISSED"; fi
  orc=$(for r in $(echo "$res" | grep -o 'replay=[^ ]*' | cut -d= -f2); do python3 -c "import json,sys;print(json.load(open('$r')).get('oracle','obligation'))" 2>/dev/null; done | sort -u | tr '\n' ',' )
  echo "$id	$prop	$rc	$verdict	$orc" >> $out
  echo "$id $verdict $orc"
done
