#!/usr/bin/env python3
"""Regenerate MANIFEST.json from props.py + manifest_meta.py (claimed levels, notes, not_applicable)."""
import json, os, sys
ROOT = os.path.dirname(os.path.dirname(os.path.abspath(__file__)))
sys.path.insert(0, ROOT)
from props import PROPS
from manifest_meta import META, NOT_APPLICABLE, HOOK_COMMITS

BASELINE_OFF = ("for m in . internal/backcompat internal/backcompat/newservice internal/backcompat/newservicedefs "
                "internal/backcompat/oldservice internal/backcompat/oldservicedefs internal/backcompat/servicedefs "
                "internal/grpccompat internal/integration internal/twirpcompat; do "
                "(cd /repo/$m && go test -mod=mod -json -vet=off -count=1 -timeout 25m ./...); done")

checks = []
for pid in sorted(PROPS):
    m = META[pid]
    checks.append(dict(
        property_id=pid,
        quick_cmd=f"./check.py {pid} --tier quick",
        thorough_cmd=f"./check.py {pid} --tier thorough",
        evidence_file=f"/verif/evidence/{pid}.json",
        replay_cmd_template=f"./check.py {pid} --replay {{path}}",
        engine="lean4-model+correspondence",
        level_claimed=dict(category="proof", text=m["text"], design_ref=m["design_ref"]),
        level_note=m["note"],
        technique=m["technique"],
    ))
manifest = dict(
    version=1,
    setup_cmd="./setup.sh",
    hooks=dict(guard="verif", enable="go build -tags verif (harness module with `replace storj.io/drpc => /repo`)",
               baseline_off_cmd=BASELINE_OFF, source_commits=HOOK_COMMITS, add_only=True),
    engines=[dict(name="lean4-model+correspondence", path="/verif/check.py",
                  serves_properties=sorted(PROPS),
                  kind_free_text="Lean 4 theorems about an executable model (lean/Drpc), tied to /repo on every run by regenerated "
                                 "facts (tools/extract -> Drpc/Generated, checked against Drpc/Tie) and by differential "
                                 "correspondence of the compiled model driver with the real Go code (harness/), plus direct "
                                 "property oracles on the implementation as the failing-input search")],
    checks=checks,
    not_applicable=[dict(property_id=k, reason=v) for k, v in sorted(NOT_APPLICABLE.items()) if k not in PROPS],
    notes="See DESIGN.md. Every check regenerates the tie from /repo's working tree and rebuilds the harness with -tags verif.",
)
json.dump(manifest, open(os.path.join(ROOT, "MANIFEST.json"), "w"), indent=1)
print("MANIFEST.json:", len(checks), "checks,", len(manifest["not_applicable"]), "not_applicable")
