#!/bin/sh
# tools/par_matrix.sh [workers] [seed-id-prefix…] : run every seeded change against the check of the property it was
# written for, in parallel, each worker on its own scratch worktree of /repo (under /tmp) and its own copy of /verif
# (so that Generated/ and the build directories do not collide).  Same verdicts as tools/seed_matrix.sh, which
# applies the change to /repo itself.  Writes seeded/RESULTS.tsv.  Everything under /tmp is removed at the end.
cd "$(dirname "$0")/.."
W="${1:-8}"; shift 2>/dev/null
sel="$*"
top=/tmp/parmatrix; rm -rf $top; mkdir -p $top
ls -d seeded/C*/ | while read d; do id=$(basename $d); [ -f "$d/patch.diff" ] || continue
  if [ -n "$sel" ]; then ok=0; for s in $sel; do case $id in $s*) ok=1;; esac; done; [ $ok = 1 ] || continue; fi
  echo $id; done > $top/all.txt
n=$(wc -l < $top/all.txt)
worker() {
  k=$1; vw=$top/v$k; wt=$top/wt$k
  rsync -a --exclude .git --exclude replays --exclude 'build/*.lock' ./ $vw/ >/dev/null
  git -C /repo worktree add -q --detach $wt HEAD
  sed -i "s#=> /repo#=> $wt#" $vw/harness/go.mod
  i=0
  while read id; do i=$((i+1)); [ $(( (i-1) % W )) -eq $k ] || continue
    prop=${id%-*}
    if ! git -C $wt apply "$PWD/seeded/$id/patch.diff" 2>/dev/null; then echo "$id	$prop		patch-does-not-apply	" >> $top/res$k.tsv; continue; fi
    res=$(cd $vw && VERIF_REPO=$wt VERIF_REPO_LOCKED=1 VERIF_SCRATCH_EVIDENCE=1 ./check.py $prop --tier quick 2>&1); rc=$?
    git -C $wt checkout -q -- . ; git -C $wt clean -fdq
    if echo "$res" | grep "VIOLATION" | grep -qv "no-failing-input-found"; then verdict="caught:failing-input"
    elif echo "$res" | grep -q "VIOLATION"; then verdict="caught:obligation-only"
    else verdict="MISSED"; fi
    orc=$(for r in $(echo "$res" | grep -o 'replay=[^ ]*' | cut -d= -f2); do python3 -c "import json,sys;print(json.load(open('$vw/$r' if not '$r'.startswith('/') else '$r')).get('oracle','obligation'))" 2>/dev/null; done | sort -u | tr '\n' ',')
    echo "$id	$prop	exit=$rc	$verdict	$orc" >> $top/res$k.tsv
    echo "$id $verdict $orc"
  done < $top/all.txt
  git -C /repo worktree remove --force $wt
}
k=0; while [ $k -lt $W ]; do worker $k & k=$((k+1)); done; wait
echo "seed	property	exit	verdict	oracles" > seeded/RESULTS.tsv
cat $top/res*.tsv | sort >> seeded/RESULTS.tsv
rm -rf $top
echo "DONE $n seeds"; grep -c MISSED seeded/RESULTS.tsv
