#!/bin/sh
# tools/try_mutant.sh <patch.diff> <Cnn> [tier] : apply a seeded change to /repo, run the check, undo.
# Holds build/repo.lock exclusively so that concurrently running checks never see the changed tree.
patch="$(realpath "$1")"; prop="$2"; tier="${3:-quick}"
cd "$(dirname "$0")/.."
mkdir -p build
exec 9>build/repo.lock
flock -x 9
git -C /repo apply "$patch" || { echo "patch does not apply"; exit 3; }
VERIF_REPO_LOCKED=1 VERIF_SCRATCH_EVIDENCE=1 ./check.py "$prop" --tier "$tier"; rc=$?
git -C /repo checkout -- .
echo "exit=$rc"
