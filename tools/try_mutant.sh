#!/bin/sh
# tools/try_mutant.sh <patch.diff> <Cnn> [tier] : apply a seeded change to /repo, run the check, undo.
patch="$1"; prop="$2"; tier="${3:-quick}"
git -C /repo apply "$patch" || { echo "patch does not apply"; exit 3; }
./check.py "$prop" --tier "$tier"; rc=$?
git -C /repo checkout -- . 
echo "exit=$rc"
