#!/usr/bin/env python3
"""Render seeded/RESULTS.tsv (+ one-line descriptions from seeded/<id>/meta.json / notes) into DESIGN.md
between the markers <!-- seed-table:begin --> and <!-- seed-table:end -->."""
import os, re, json, sys
ROOT = os.path.dirname(os.path.dirname(os.path.abspath(__file__)))
rows = [l.rstrip("\n").split("\t") for l in open(os.path.join(ROOT, "seeded/RESULTS.tsv"))][1:]
def what(sid):
    d = os.path.join(ROOT, "seeded", sid)
    if not os.path.isdir(d):
        d = os.path.join(ROOT, "seeded", "obsolete", sid)
    files = set()
    for l in open(os.path.join(d, "patch.diff")):
        m = re.match(r"\+\+\+ b/(.*)", l)
        if m: files.add(m.group(1))
    return ", ".join(sorted(files))
out = ["| seed | files changed | verdict of `check.py <property>` (quick) | oracles that fail |", "|---|---|---|---|"]
for r in sorted(rows):
    r += [""] * (5 - len(r))
    v = {"caught:failing-input": "failing input", "caught:obligation-only": "obligation only (tie / correspondence)", "MISSED": "MISSED"}.get(r[3], r[3])
    if not os.path.isdir(os.path.join(ROOT, "seeded", r[0])):
        v += " — obsolete, see seeded/obsolete/README.md"
    out.append(f"| {r[0]} | {what(r[0])} | {v} | {r[4].rstrip(',').replace(',', ', ')} |")
p = os.path.join(ROOT, "DESIGN.md"); s = open(p).read()
b, e = "<!-- seed-table:begin -->", "<!-- seed-table:end -->"
assert b in s and e in s, "markers missing in DESIGN.md"
s = s[:s.index(b) + len(b)] + "\n" + "\n".join(out) + "\n" + s[s.index(e):]
open(p, "w").write(s)
print(len(rows), "rows")
