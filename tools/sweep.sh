#!/bin/sh
# tools/sweep.sh "<seeds>" [tier] [props…] : run checks on the current tree for several VERIF_SEED values
# (evidence goes to build/evidence-scratch); prints one line per run and every VIOLATION line.
cd "$(dirname "$0")/.."
seeds="$1"; tier="${2:-quick}"; shift 2 2>/dev/null
props="$*"
[ -n "$props" ] || props=$(python3 -c "import json;print(' '.join(c['property_id'] for c in json.load(open('MANIFEST.json'))['checks']))")
for s in $seeds; do for p in $props; do
  out=$(VERIF_SEED=$s VERIF_SCRATCH_EVIDENCE=1 ./check.py $p --tier $tier 2>&1); rc=$?
  echo "$out" | grep "VIOLATION"
  echo "seed=$s rc=$rc $(echo "$out" | grep -v '^KNOWN-FINDING' | tail -1)"
done; done
