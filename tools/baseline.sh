#!/bin/sh
# Run the pinned test suite (guard OFF) on /repo (or $1) and summarise.
R="${1:-/repo}"
fail=0
for m in . internal/backcompat internal/backcompat/newservice internal/backcompat/newservicedefs internal/backcompat/oldservice internal/backcompat/oldservicedefs internal/backcompat/servicedefs internal/grpccompat internal/integration internal/twirpcompat; do
  out=$(cd "$R/$m" && go test -mod=mod -vet=off -count=1 -timeout 25m ./... 2>&1); rc=$?
  echo "$out" | grep -E "^(FAIL|---|panic|ok )" | grep -v "no test files" | sed "s#^#[$m] #"
  [ $rc -ne 0 ] && fail=1
done
echo "BASELINE_FAIL=$fail"
