#!/bin/sh
# Freeze the facts extracted from the CURRENT /repo tree as the reviewed expectations
# (lean/Drpc/Tie/Expected.lean).  Run by hand after reviewing a change to /repo against the
# model (e.g. after a fix: commit); never run by the checks.
set -e
cd "$(dirname "$0")/.."
export GOFLAGS=-mod=mod GOPROXY=off GOSUMDB=off GOTOOLCHAIN=local
mkdir -p build
# never freeze a tree that has a seeded change applied: take the repo lock and insist on a clean tree
if [ -z "$VERIF_REPO_LOCKED" ]; then exec 9>build/repo.lock; flock -x 9; fi
if [ -n "$(git -C /repo status --porcelain --untracked-files=no)" ]; then echo "mk_expected: /repo has uncommitted changes" >&2; exit 1; fi
(cd tools/extract && go1.26.8 build -o ../../build/extract .)
build/extract /repo | sed -e 's/^namespace Drpc.Generated/namespace Drpc.Expected/' \
  -e 's/^end Drpc.Generated/end Drpc.Expected/' \
  -e 's#^/- GENERATED.*#/- Reviewed expectations: a frozen copy of tools/extract output for the tree the model was written against (tools/mk_expected.sh). -/#' \
  > lean/Drpc/Tie/Expected.lean
