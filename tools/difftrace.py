#!/usr/bin/env python3
"""difftrace.py req go lean [n]: show, for mismatching scenario lines, the actions up to the first differing observation"""
import sys
req=open(sys.argv[1]).read().split("\n"); go=open(sys.argv[2]).read().split("\n"); le=open(sys.argv[3]).read().split("\n")
n=int(sys.argv[4]) if len(sys.argv)>4 else 5
shown=0
for r,g,l in zip(req,go,le):
    if g==l or not r: continue
    acts=r.split("ops=")[1].split(";") if "ops=" in r else []
    go_o=g.split("] ["); le_o=l.split("] [")
    k=0
    while k<min(len(go_o),len(le_o)) and go_o[k].strip("[]")==le_o[k].strip("[]"): k+=1
    print("CFG", r.split(" ops=")[0])
    for i in range(min(k+1,len(acts))):
        print("  ", acts[i], " => ", go_o[i].strip("[]") if i<len(go_o) else "?")
    print("   MODEL:", le_o[k].strip("[]") if k<len(le_o) else l[:200])
    shown+=1
    if shown>=n: break
