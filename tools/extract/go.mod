module extract

go 1.23
