// extract: reads storj/drpc's Go sources with go/ast and prints Lean definitions of the facts the
// model depends on (constants, tables, per-function literal/operator fingerprints, the documented
// state graph).  Deliberately shallow: values, not control flow.  Fails loudly (exit 1) when an
// expected declaration is missing.
package main

import (
	"fmt"
	"go/ast"
	"go/constant"
	"go/parser"
	"go/token"
	"os"
	"path/filepath"
	"regexp"
	"sort"
	"strconv"
	"strings"
)

var repo string
var fset = token.NewFileSet()
var files = map[string]*ast.File{}
var failed bool

func fail(format string, a ...interface{}) {
	fmt.Fprintf(os.Stderr, "extract: "+format+"\n", a...)
	failed = true
}

func file(rel string) *ast.File {
	if f, ok := files[rel]; ok {
		return f
	}
	f, err := parser.ParseFile(fset, filepath.Join(repo, rel), nil, 0)
	if err != nil {
		fail("cannot parse %s: %v", rel, err)
		f = &ast.File{}
	}
	files[rel] = f
	return f
}

// ---- constant evaluation over one file's const declarations ----

func constDecls(f *ast.File) map[string]ast.Expr {
	m := map[string]ast.Expr{}
	for _, d := range f.Decls {
		gd, ok := d.(*ast.GenDecl)
		if !ok || (gd.Tok != token.CONST && gd.Tok != token.VAR) {
			continue
		}
		for _, s := range gd.Specs {
			vs := s.(*ast.ValueSpec)
			for i, n := range vs.Names {
				if i < len(vs.Values) {
					m[n.Name] = vs.Values[i]
				}
			}
		}
	}
	return m
}

func eval(e ast.Expr, env map[string]ast.Expr) (constant.Value, bool) {
	switch v := e.(type) {
	case *ast.BasicLit:
		c := constant.MakeFromLiteral(v.Value, v.Kind, 0)
		return c, c.Kind() != constant.Unknown
	case *ast.ParenExpr:
		return eval(v.X, env)
	case *ast.Ident:
		if d, ok := env[v.Name]; ok {
			return eval(d, env)
		}
		return nil, false
	case *ast.BinaryExpr:
		x, ok1 := eval(v.X, env)
		y, ok2 := eval(v.Y, env)
		if !ok1 || !ok2 {
			return nil, false
		}
		if v.Op == token.SHL || v.Op == token.SHR {
			s, _ := constant.Uint64Val(y)
			return constant.Shift(x, v.Op, uint(s)), true
		}
		return constant.BinaryOp(x, v.Op, y), true
	case *ast.CallExpr: // conversions like Kind(1), time.Duration(…)
		if len(v.Args) == 1 {
			return eval(v.Args[0], env)
		}
	}
	return nil, false
}

func constInt(rel, name string) string {
	f := file(rel)
	env := constDecls(f)
	d, ok := env[name]
	if !ok {
		fail("%s: constant %s not found", rel, name)
		return "0"
	}
	c, ok := eval(d, env)
	if !ok {
		fail("%s: constant %s not evaluable", rel, name)
		return "0"
	}
	return c.ExactString()
}

// ---- function lookup & fingerprints ----

func funcDecl(rel, name string) *ast.FuncDecl {
	for _, d := range file(rel).Decls {
		fd, ok := d.(*ast.FuncDecl)
		if !ok {
			continue
		}
		n := fd.Name.Name
		if fd.Recv != nil && len(fd.Recv.List) == 1 {
			t := fd.Recv.List[0].Type
			if st, ok := t.(*ast.StarExpr); ok {
				t = st.X
			}
			if ix, ok := t.(*ast.IndexListExpr); ok {
				t = ix.X
			}
			if ix, ok := t.(*ast.IndexExpr); ok {
				t = ix.X
			}
			if id, ok := t.(*ast.Ident); ok {
				n = id.Name + "." + n
			}
		}
		if n == name {
			return fd
		}
	}
	fail("%s: function %s not found", rel, name)
	return nil
}

// fingerprint: literals (normalised), operators, and selector/call names in source order.
func fingerprint(rel, name string) []string {
	fd := funcDecl(rel, name)
	if fd == nil || fd.Body == nil {
		return nil
	}
	env := constDecls(file(rel))
	var out []string
	ast.Inspect(fd.Body, func(n ast.Node) bool {
		switch v := n.(type) {
		case *ast.BasicLit:
			if v.Kind == token.INT || v.Kind == token.CHAR {
				c := constant.MakeFromLiteral(v.Value, v.Kind, 0)
				out = append(out, c.ExactString())
			} else if v.Kind == token.STRING {
				s, _ := strconv.Unquote(v.Value)
				out = append(out, "s:"+s)
			}
		case *ast.BinaryExpr:
			out = append(out, v.Op.String())
		case *ast.UnaryExpr:
			out = append(out, "u"+v.Op.String())
		case *ast.AssignStmt:
			if v.Tok != token.ASSIGN && v.Tok != token.DEFINE {
				out = append(out, v.Tok.String())
			} else {
				// plain assignments: which variable / field is written, in source order
				for _, l := range v.Lhs {
					out = append(out, "="+exprName(l))
				}
			}
		case *ast.IncDecStmt:
			out = append(out, v.Tok.String())
		case *ast.Ident:
			if d, ok := env[v.Name]; ok {
				if c, ok := eval(d, env); ok && (c.Kind() == constant.Int) {
					out = append(out, v.Name+"="+c.ExactString())
				}
			}
			// every identifier use, in source order: which variable, field, argument is read where
			out = append(out, "id:"+v.Name)
		case *ast.CallExpr:
			out = append(out, "call:"+exprName(v.Fun))
		case *ast.ReturnStmt:
			out = append(out, "return")
		case *ast.BranchStmt:
			out = append(out, v.Tok.String())
		case *ast.IfStmt:
			out = append(out, "if")
		case *ast.ForStmt, *ast.RangeStmt:
			out = append(out, "for")
		case *ast.SwitchStmt, *ast.TypeSwitchStmt:
			out = append(out, "switch")
		case *ast.CaseClause:
			if v.List == nil {
				out = append(out, "default")
			} else {
				out = append(out, "case")
			}
		case *ast.DeferStmt:
			out = append(out, "defer")
		case *ast.GoStmt:
			out = append(out, "go")
		case *ast.SelectStmt:
			out = append(out, "select")
		case *ast.SendStmt:
			out = append(out, "send")
		case *ast.SliceExpr:
			out = append(out, "slice")
		case *ast.IndexExpr:
			out = append(out, "index")
		}
		return true
	})
	return out
}

func exprName(e ast.Expr) string {
	switch v := e.(type) {
	case *ast.Ident:
		return v.Name
	case *ast.SelectorExpr:
		return exprName(v.X) + "." + v.Sel.Name
	case *ast.ParenExpr:
		return exprName(v.X)
	case *ast.StarExpr:
		return "*" + exprName(v.X)
	case *ast.IndexExpr:
		return exprName(v.X)
	case *ast.CallExpr:
		return exprName(v.Fun) + "()"
	case *ast.FuncLit:
		return "func"
	case *ast.ArrayType:
		return "[]" + exprName(v.Elt)
	case *ast.InterfaceType:
		return "interface"
	case *ast.IndexListExpr:
		return exprName(v.X)
	}
	return "?"
}

func leanStr(s string) string {
	var b strings.Builder
	b.WriteByte('"')
	for _, r := range s {
		switch {
		case r == '"':
			b.WriteString("\\\"")
		case r == '\\':
			b.WriteString("\\\\")
		case r == '\n':
			b.WriteString("\\n")
		case r == '\r':
			b.WriteString("\\r")
		case r == '\t':
			b.WriteString("\\t")
		case r < 32 || r == 127:
			fmt.Fprintf(&b, "\\x%02x", r)
		default:
			b.WriteRune(r)
		}
	}
	b.WriteByte('"')
	return b.String()
}

func leanList(xs []string) string {
	q := make([]string, len(xs))
	for i, x := range xs {
		q[i] = leanStr(x)
	}
	// break long lists over lines
	var b strings.Builder
	b.WriteString("[")
	col := 0
	for i, s := range q {
		if i > 0 {
			b.WriteString(", ")
		}
		if col > 90 {
			b.WriteString("\n    ")
			col = 0
		}
		b.WriteString(s)
		col += len(s) + 2
	}
	b.WriteString("]")
	return b.String()
}

// ---- tables ----

// map[string]int composite literal bound to a package-level var
func stringIntTable(rel, name string) [][2]string {
	env := constDecls(file(rel))
	d, ok := env[name]
	if !ok {
		fail("%s: var %s not found", rel, name)
		return nil
	}
	cl, ok := d.(*ast.CompositeLit)
	if !ok {
		fail("%s: var %s is not a composite literal", rel, name)
		return nil
	}
	var out [][2]string
	for _, el := range cl.Elts {
		kv, ok := el.(*ast.KeyValueExpr)
		if !ok {
			fail("%s: %s: unexpected element", rel, name)
			continue
		}
		k, ok1 := eval(kv.Key, env)
		v, ok2 := eval(kv.Value, env)
		if !ok1 || !ok2 {
			fail("%s: %s: non-constant entry", rel, name)
			continue
		}
		out = append(out, [2]string{constant.StringVal(k), v.ExactString()})
	}
	return out
}

// defaultProtocols(): map key -> "type ct field=ident,…"
func protocolTable(rel, fn string) [][2]string {
	fd := funcDecl(rel, fn)
	if fd == nil {
		return nil
	}
	var out [][2]string
	ast.Inspect(fd.Body, func(n ast.Node) bool {
		cl, ok := n.(*ast.CompositeLit)
		if !ok {
			return true
		}
		if _, ok := cl.Type.(*ast.MapType); !ok {
			return true
		}
		for _, el := range cl.Elts {
			kv := el.(*ast.KeyValueExpr)
			k, _ := strconv.Unquote(kv.Key.(*ast.BasicLit).Value)
			v := kv.Value.(*ast.CompositeLit)
			desc := exprName(v.Type)
			for _, f := range v.Elts {
				fkv := f.(*ast.KeyValueExpr)
				val := ""
				switch x := fkv.Value.(type) {
				case *ast.BasicLit:
					val, _ = strconv.Unquote(x.Value)
				default:
					val = callString(fkv.Value)
				}
				desc += " " + exprName(fkv.Key) + "=" + val
			}
			out = append(out, [2]string{k, desc})
		}
		return false
	})
	sort.Slice(out, func(i, j int) bool { return out[i][0] < out[j][0] })
	if len(out) == 0 {
		fail("%s: %s: protocol table not found", rel, fn)
	}
	return out
}

func callString(e ast.Expr) string {
	switch v := e.(type) {
	case *ast.CallExpr:
		args := []string{}
		for _, a := range v.Args {
			args = append(args, callString(a))
		}
		return exprName(v.Fun) + "(" + strings.Join(args, ",") + ")"
	default:
		return exprName(e)
	}
}

// strings.NewReplacer("a","b",…) bound to a var
func replacerArgs(rel, name string) []string {
	env := constDecls(file(rel))
	d, ok := env[name]
	if !ok {
		fail("%s: var %s not found", rel, name)
		return nil
	}
	ce, ok := d.(*ast.CallExpr)
	if !ok {
		fail("%s: %s not a call", rel, name)
		return nil
	}
	var out []string
	for _, a := range ce.Args {
		c, ok := eval(a, env)
		if !ok {
			fail("%s: %s: non-constant arg", rel, name)
			continue
		}
		out = append(out, constant.StringVal(c))
	}
	return out
}

// sentinel errors: var x = drpc.Error.New("msg")
func sentinels(rel string, names ...string) [][2]string {
	env := constDecls(file(rel))
	var out [][2]string
	for _, n := range names {
		d, ok := env[n]
		if !ok {
			fail("%s: sentinel %s not found", rel, n)
			continue
		}
		ce, ok := d.(*ast.CallExpr)
		if !ok || len(ce.Args) < 1 {
			fail("%s: sentinel %s has unexpected form", rel, n)
			continue
		}
		c, ok := eval(ce.Args[0], env)
		if !ok {
			fail("%s: sentinel %s message not constant", rel, n)
			continue
		}
		out = append(out, [2]string{n, exprName(ce.Fun) + ":" + constant.StringVal(c)})
	}
	return out
}

var edgeRe = regexp.MustCompile(`^\s*("?[\w-]+"?)\s*->\s*("?[\w-]+"?)\s*\[label="\{([^}]*)\}"`)

func dotEdges(rel string) [][3]string {
	b, err := os.ReadFile(filepath.Join(repo, rel))
	if err != nil {
		fail("cannot read %s", rel)
		return nil
	}
	var out [][3]string
	for _, line := range strings.Split(string(b), "\n") {
		m := edgeRe.FindStringSubmatch(line)
		if m == nil {
			continue
		}
		for _, lab := range strings.Split(m[3], ",") {
			out = append(out, [3]string{strings.Trim(m[1], `"`), strings.TrimSpace(lab), strings.Trim(m[2], `"`)})
		}
	}
	if len(out) == 0 {
		fail("%s: no edges", rel)
	}
	return out
}

func main() {
	if len(os.Args) < 2 {
		fmt.Fprintln(os.Stderr, "usage: extract <repo>")
		os.Exit(2)
	}
	repo = os.Args[1]
	var b strings.Builder
	p := func(format string, a ...interface{}) { fmt.Fprintf(&b, format, a...) }
	p("/- GENERATED by tools/extract from the Go sources of /repo — do not edit. -/\nnamespace Drpc.Generated\n\n")

	// named constants
	p("def maxFrameOverhead : Nat := %s\n", constInt("drpcwire/reader.go", "maxFrameOverhead"))
	p("def httpMaxSize : Nat := %s\n", constInt("drpchttp/encoding.go", "maxSize"))
	p("def statusErrorSet : Nat := %s\n", constInt("drpcsignal/signal.go", "statusErrorSet"))
	p("def statusChannelCreated : Nat := %s\n", constInt("drpcsignal/signal.go", "statusChannelCreated"))
	p("def errUnimplemented : Nat := %s\n", constInt("drpcerr/err.go", "Unimplemented"))
	kinds := []string{"KindInvoke", "KindMessage", "KindError", "KindCancel", "KindClose", "KindCloseSend", "KindInvokeMetadata"}
	p("def kinds : List (String × Nat) := [")
	for i, k := range kinds {
		if i > 0 {
			p(", ")
		}
		p("(%s, %s)", leanStr(k), constInt("drpcwire/packet.go", k))
	}
	p("]\n\n")

	// fingerprints
	fps := [][2]string{
		{"drpcwire/varint.go", "ReadVarint"}, {"drpcwire/varint.go", "AppendVarint"},
		{"drpcwire/packet.go", "ParseFrame"}, {"drpcwire/packet.go", "AppendFrame"}, {"drpcwire/packet.go", "ID.Less"},
		{"drpcwire/split.go", "SplitN"}, {"drpcwire/split.go", "SplitData"},
		{"drpcwire/reader.go", "NewReaderWithOptions"}, {"drpcwire/reader.go", "Reader.read"}, {"drpcwire/reader.go", "Reader.ReadPacketUsing"},
		{"drpcwire/writer.go", "NewWriter"}, {"drpcwire/writer.go", "Writer.WriteFrame"}, {"drpcwire/writer.go", "Writer.Flush"},
		{"drpcwire/writer.go", "Writer.Reset"}, {"drpcwire/writer.go", "Writer.Empty"}, {"drpcwire/writer.go", "Writer.WritePacket"},
		{"drpcwire/error.go", "MarshalError"}, {"drpcwire/error.go", "UnmarshalError"},
		{"drpcerr/err.go", "Code"}, {"drpcerr/err.go", "WithCode"},
		{"drpcmetadata/serialize.go", "varintSize"}, {"drpcmetadata/serialize.go", "encodedStringSize"},
		{"drpcmetadata/serialize.go", "appendEntry"}, {"drpcmetadata/serialize.go", "readEntry"}, {"drpcmetadata/serialize.go", "readKeyValue"},
		{"drpcmetadata/metadata.go", "Encode"}, {"drpcmetadata/metadata.go", "Decode"},
		{"drpcmetadata/metadata.go", "AddPairs"}, {"drpcmetadata/metadata.go", "Add"}, {"drpcmetadata/metadata.go", "Get"},
		{"drpchttp/context.go", "buildContext"}, {"drpchttp/context.go", "unhex"}, {"drpchttp/context.go", "unescape"},
		{"drpchttp/handler.go", "getCode"}, {"drpchttp/handler.go", "wrapper.ServeHTTP"},
		{"drpchttp/encoding.go", "grpcRead"}, {"drpchttp/encoding.go", "twirpRead"}, {"drpchttp/encoding.go", "readExactly"},
		{"drpchttp/encoding.go", "base64Write"},
		{"drpchttp/protocol_grpc_web.go", "grpcWebProtocol.framedWrite"}, {"drpchttp/protocol_grpc_web.go", "grpcWebStream.MsgSend"},
		{"drpchttp/protocol_grpc_web.go", "grpcWebStream.Finish"},
		{"drpchttp/protocol_twirp.go", "twirpStream.MsgSend"}, {"drpchttp/protocol_twirp.go", "twirpStream.MsgRecv"},
		{"drpchttp/protocol_twirp.go", "twirpStream.Finish"}, {"drpchttp/protocol_twirp.go", "setErrorOrEOF"},
		{"drpcsignal/signal.go", "Signal.Signal"}, {"drpcsignal/signal.go", "Signal.signalSlow"}, {"drpcsignal/signal.go", "Signal.Set"},
		{"drpcsignal/signal.go", "Signal.setSlow"}, {"drpcsignal/signal.go", "Signal.Get"}, {"drpcsignal/signal.go", "Signal.IsSet"},
		{"drpcsignal/signal.go", "Signal.Err"}, {"drpcsignal/signal.go", "Signal.Wait"},
		{"drpcsignal/chan.go", "Chan.setFresh"}, {"drpcsignal/chan.go", "Chan.setClosed"},
		{"drpcsignal/chan.go", "Chan.do"}, {"drpcsignal/chan.go", "Chan.doSlow"}, {"drpcsignal/chan.go", "Chan.Close"},
		{"drpcsignal/chan.go", "Chan.Make"}, {"drpcsignal/chan.go", "Chan.Get"}, {"drpcsignal/chan.go", "Chan.Send"},
		{"drpcsignal/chan.go", "Chan.Recv"}, {"drpcsignal/chan.go", "Chan.Full"},
		{"drpcstream/pktbuf.go", "packetBuffer.Close"}, {"drpcstream/pktbuf.go", "packetBuffer.Put"},
		{"drpcstream/pktbuf.go", "packetBuffer.Get"}, {"drpcstream/pktbuf.go", "packetBuffer.Done"},
		{"drpcstream/inspectmu.go", "inspectMutex.Lock"}, {"drpcstream/inspectmu.go", "inspectMutex.TryLock"},
		{"drpcstream/inspectmu.go", "inspectMutex.Unlock"}, {"drpcstream/inspectmu.go", "inspectMutex.Unlocked"},
		{"drpcstream/stream.go", "Stream.HandlePacket"}, {"drpcstream/stream.go", "Stream.checkFinished"},
		{"drpcstream/stream.go", "Stream.checkCancelError"}, {"drpcstream/stream.go", "Stream.newFrameLocked"},
		{"drpcstream/stream.go", "Stream.sendPacketLocked"}, {"drpcstream/stream.go", "Stream.terminateIfBothClosed"},
		{"drpcstream/stream.go", "Stream.terminate"}, {"drpcstream/stream.go", "Stream.RawWrite"},
		{"drpcstream/stream.go", "Stream.rawWriteLocked"}, {"drpcstream/stream.go", "Stream.RawFlush"},
		{"drpcstream/stream.go", "Stream.rawFlushLocked"}, {"drpcstream/stream.go", "Stream.checkRecvFlush"},
		{"drpcstream/stream.go", "Stream.RawRecv"}, {"drpcstream/stream.go", "Stream.MsgSend"}, {"drpcstream/stream.go", "Stream.MsgRecv"},
		{"drpcstream/stream.go", "Stream.SendError"}, {"drpcstream/stream.go", "Stream.SendCancel"}, {"drpcstream/stream.go", "Stream.Close"},
		{"drpcstream/stream.go", "Stream.CloseSend"}, {"drpcstream/stream.go", "Stream.Cancel"}, {"drpcstream/stream.go", "NewWithOptions"},
		{"drpcmanager/manager.go", "NewWithOptions"}, {"drpcmanager/manager.go", "Manager.acquireSemaphore"},
		{"drpcmanager/manager.go", "Manager.waitForPreviousStream"}, {"drpcmanager/manager.go", "Manager.terminate"},
		{"drpcmanager/manager.go", "Manager.manageReader"}, {"drpcmanager/manager.go", "Manager.newStream"},
		{"drpcmanager/manager.go", "Manager.manageStreams"}, {"drpcmanager/manager.go", "Manager.manageStream"},
		{"drpcmanager/manager.go", "Manager.Close"}, {"drpcmanager/manager.go", "Manager.NewClientStream"},
		{"drpcmanager/manager.go", "Manager.NewServerStream"}, {"drpcmanager/manager.go", "Manager.Unblocked"},
		{"drpcmanager/streambuf.go", "streamBuffer.Close"}, {"drpcmanager/streambuf.go", "streamBuffer.Set"},
		{"drpcmanager/streambuf.go", "streamBuffer.Wait"}, {"drpcmanager/streambuf.go", "streamBuffer.Get"},
		{"drpcconn/conn.go", "Conn.Invoke"}, {"drpcconn/conn.go", "Conn.doInvoke"}, {"drpcconn/conn.go", "Conn.NewStream"},
		{"drpcconn/conn.go", "Conn.doNewStream"},
		{"drpcserver/server.go", "Server.ServeOne"}, {"drpcserver/server.go", "Server.Serve"}, {"drpcserver/server.go", "Server.handleRPC"},
		{"drpcmux/handle_rpc.go", "Mux.HandleRPC"}, {"drpcmux/mux.go", "Mux.registerOne"}, {"drpcmux/mux.go", "Mux.Register"},
		{"drpcpool/pool.go", "Pool.Close"}, {"drpcpool/pool.go", "Pool.removeEntry"}, {"drpcpool/pool.go", "Pool.closeEntry"},
		{"drpcpool/pool.go", "Pool.Take"}, {"drpcpool/pool.go", "Pool.Put"},
		{"drpcpool/entry.go", "list.appendEntry"}, {"drpcpool/entry.go", "list.removeEntry"},
		{"drpcpool/conn.go", "poolConn.Close"}, {"drpcpool/conn.go", "poolConn.Invoke"}, {"drpcpool/conn.go", "poolConn.NewStream"},
		{"drpcpool/conn.go", "poolConn.monitorStream"},
		{"drpcmigrate/mux.go", "ListenMux.Route"}, {"drpcmigrate/mux.go", "ListenMux.Run"}, {"drpcmigrate/mux.go", "ListenMux.monitorContext"},
		{"drpcmigrate/mux.go", "ListenMux.monitorBase"}, {"drpcmigrate/mux.go", "ListenMux.monitorListener"},
		{"drpcmigrate/mux.go", "ListenMux.routeConn"},
		{"drpcmigrate/listener.go", "listener.Accept"}, {"drpcmigrate/listener.go", "listener.Close"},
		{"drpcmigrate/prefixconn.go", "newPrefixConn"}, {"drpcmigrate/prefixconn.go", "prefixConn.Read"},
		{"drpcmigrate/header.go", "HeaderConn.Write"},
		// constructors, accessors and small helpers (second session: every library function a property depends on is tied)
		{"drpcstream/stream.go", "New"},
		{"drpcstream/stream.go", "Stream.Context"},
		{"drpcstream/stream.go", "Stream.Finished"},
		{"drpcstream/stream.go", "Stream.ID"},
		{"drpcstream/stream.go", "Stream.IsFinished"},
		{"drpcstream/stream.go", "Stream.IsTerminated"},
		{"drpcstream/stream.go", "Stream.SetManualFlush"},
		{"drpcstream/stream.go", "Stream.Terminated"},
		{"drpcstream/stream.go", "streamCtx.Done"},
		{"drpcstream/stream.go", "streamCtx.Err"},
		{"drpcstream/stream.go", "streamCtx.Value"},
		{"drpcstream/pktbuf.go", "packetBuffer.init"},
		{"drpcmanager/manager.go", "New"},
		{"drpcmanager/manager.go", "Manager.Closed"},
		{"drpcmanager/manager.go", "isConnectionReset"},
		{"drpcmanager/streambuf.go", "streamBuffer.init"},
		{"drpcconn/conn.go", "Conn.Close"},
		{"drpcconn/conn.go", "Conn.Closed"},
		{"drpcconn/conn.go", "Conn.Unblocked"},
		{"drpcconn/conn.go", "New"},
		{"drpcconn/conn.go", "NewWithOptions"},
		{"drpcserver/server.go", "New"},
		{"drpcserver/server.go", "NewWithOptions"},
		{"drpcserver/util.go", "isTemporary"},
		{"drpcctx/tracker.go", "NewTracker"},
		{"drpcctx/tracker.go", "Tracker.Cancel"},
		{"drpcenc/marshal.go", "MarshalAppend"},
		{"drpcwire/reader.go", "NewReader"},
		{"drpcwire/reader.go", "Reader.ReadPacket"},
		{"drpcerr/err.go", "shallowEqual"},
		{"drpcerr/err.go", "codeErr.Error"},
		{"drpcpool/pool.go", "New"},
		{"drpcpool/pool.go", "Pool.Get"},
		{"drpcpool/doc.go", "closed"},
		{"drpcpool/entry.go", "entry.globalList"},
		{"drpcpool/entry.go", "entry.localList"},
		{"drpcpool/conn.go", "poolConn.Closed"},
		{"drpcpool/conn.go", "streamWrapper.Context"},
		{"drpcpool/conn.go", "streamWrapperContext.Done"},
		{"drpcmigrate/dial.go", "DialWithHeader"},
		{"drpcmigrate/dial.go", "HeaderDialer.Dial"},
		{"drpcmigrate/dial.go", "HeaderDialer.DialContext"},
		{"drpcmigrate/header.go", "NewHeaderConn"},
		{"drpcmigrate/listener.go", "newListener"},
		{"drpcmigrate/mux.go", "NewListenMux"},
		{"drpchttp/context.go", "Context"},
		{"drpchttp/encoding.go", "JSONMarshal"},
		{"drpchttp/encoding.go", "JSONUnmarshal"},
		{"drpchttp/encoding.go", "base64Read"},
		{"drpchttp/encoding.go", "normalWrite"},
		{"drpchttp/encoding.go", "protoMarshal"},
		{"drpchttp/encoding.go", "protoUnmarshal"},
		{"drpchttp/handler.go", "NewWithOptions"},
		{"drpchttp/options.go", "WithProtocol"},
		{"drpchttp/options.go", "defaultProtocols"},
		{"drpchttp/protocol_grpc_web.go", "grpcWebProtocol.NewStream"},
		{"drpchttp/protocol_grpc_web.go", "grpcWebStream.Close"},
		{"drpchttp/protocol_grpc_web.go", "grpcWebStream.MsgRecv"},
		{"drpchttp/protocol_twirp.go", "twirpProtocol.NewStream"},
		{"drpcmux/mux.go", "New"},
		{"drpcctx/tracker.go", "Tracker.Run"}, {"drpcctx/tracker.go", "Tracker.track"}, {"drpcctx/tracker.go", "Tracker.Wait"},
		{"cmd/protoc-gen-go-drpc/main.go", "main"}, {"cmd/protoc-gen-go-drpc/main.go", "generateFile"},
		{"cmd/protoc-gen-go-drpc/main.go", "drpc.EncodingName"}, {"cmd/protoc-gen-go-drpc/main.go", "drpc.RPCGoString"},
		{"cmd/protoc-gen-go-drpc/main.go", "drpc.ClientIface"}, {"cmd/protoc-gen-go-drpc/main.go", "drpc.ClientImpl"},
		{"cmd/protoc-gen-go-drpc/main.go", "drpc.ServerIface"}, {"cmd/protoc-gen-go-drpc/main.go", "drpc.ServerUnimpl"},
		{"cmd/protoc-gen-go-drpc/main.go", "drpc.ServerDesc"},
		{"cmd/protoc-gen-go-drpc/main.go", "drpc.ClientStreamIface"}, {"cmd/protoc-gen-go-drpc/main.go", "drpc.ClientStreamImpl"},
		{"cmd/protoc-gen-go-drpc/main.go", "drpc.ServerStreamIface"}, {"cmd/protoc-gen-go-drpc/main.go", "drpc.ServerStreamImpl"},
		{"cmd/protoc-gen-go-drpc/main.go", "drpc.generateEncoding"}, {"cmd/protoc-gen-go-drpc/main.go", "drpc.generateService"},
		{"cmd/protoc-gen-go-drpc/main.go", "drpc.generateClientSignature"}, {"cmd/protoc-gen-go-drpc/main.go", "drpc.generateClientMethod"},
		{"cmd/protoc-gen-go-drpc/main.go", "drpc.generateServerSignature"},
		{"cmd/protoc-gen-go-drpc/main.go", "drpc.generateUnimplementedServerMethod"},
		{"cmd/protoc-gen-go-drpc/main.go", "drpc.generateServerReceiver"}, {"cmd/protoc-gen-go-drpc/main.go", "drpc.generateServerMethod"},
	}
	for _, f := range fps {
		id := strings.NewReplacer(".", "_", "/", "_", "-", "_").Replace(strings.TrimSuffix(f[0], ".go") + "_" + f[1])
		p("def fp_%s : List String :=\n  %s\n", id, leanList(fingerprint(f[0], f[1])))
	}
	p("\n")

	// tables
	p("def twirpStatus : List (String × Nat) := [")
	for i, e := range stringIntTable("drpchttp/protocol_twirp.go", "twirpStatus") {
		if i > 0 {
			p(", ")
		}
		p("(%s, %s)", leanStr(e[0]), e[1])
	}
	p("]\n")
	p("def defaultProtocols : List (String × String) := [")
	for i, e := range protocolTable("drpchttp/options.go", "defaultProtocols") {
		if i > 0 {
			p(",\n  ")
		}
		p("(%s, %s)", leanStr(e[0]), leanStr(e[1]))
	}
	p("]\n")
	p("def nlSpace : List String := %s\n", leanList(replacerArgs("drpchttp/protocol_grpc_web.go", "nlSpace")))
	p("def streamSentinels : List (String × String) := [")
	for i, e := range sentinels("drpcstream/stream.go", "sendClosed", "termError", "termClosed", "termBothClosed") {
		if i > 0 {
			p(", ")
		}
		p("(%s, %s)", leanStr(e[0]), leanStr(e[1]))
	}
	p("]\n")
	p("def stateEdges : List (String × String × String) := [")
	for i, e := range dotEdges("drpcstream/state.dot") {
		if i > 0 {
			p(",\n  ")
		}
		p("(%s, %s, %s)", leanStr(e[0]), leanStr(e[1]), leanStr(e[2]))
	}
	p("]\n")
	p("def drpcHeader : String := %s\n", func() string {
		env := constDecls(file("drpcmigrate/header.go"))
		if d, ok := env["DRPCHeader"]; ok {
			if c, ok := eval(d, env); ok {
				return leanStr(constant.StringVal(c))
			}
		}
		fail("DRPCHeader not found")
		return `""`
	}())
	p("\nend Drpc.Generated\n")
	if failed {
		os.Exit(1)
	}
	fmt.Print(b.String())
}
