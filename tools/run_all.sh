#!/bin/sh
# run every registered check (quick tier by default) on the current tree; summary at the end
cd "$(dirname "$0")/.."
tier="${1:-quick}"
fail=0
for p in $(python3 -c "import json;print(' '.join(c['property_id'] for c in json.load(open('MANIFEST.json'))['checks']))"); do
  out=$(./check.py $p --tier $tier 2>&1); rc=$?
  echo "$out" | grep -v "^KNOWN-FINDING" | tail -2
  [ $rc -ne 0 ] && fail=1
done
echo "ALL_FAIL=$fail"
