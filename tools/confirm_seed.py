#!/usr/bin/env python3
"""confirm_seed.py <agent-out-dir> <seed-id> <property> [patch-override]
Confirm a seeded change independently in a scratch worktree of /repo HEAD:
  demos pass on the clean tree; with the patch: builds, pinned suite passes, demos fail.
On success store it under /verif/seeded/<seed-id>/ (patch.diff, demos, meta.json).  The worktree is removed."""
import sys, os, re, subprocess, json, shutil, glob

out, sid, prop = sys.argv[1], sys.argv[2], sys.argv[3]
patch = sys.argv[4] if len(sys.argv) > 4 else os.path.join(out, "patch.diff")
wt = f"/tmp/confirm/{sid}"
PKGDIR = {"integration": "internal/integration", "main": "cmd/protoc-gen-go-drpc", "grpccompat": "internal/grpccompat",
          "twirpcompat": "internal/twirpcompat", "backcompat": "internal/backcompat"}
env = dict(os.environ, GOFLAGS="-mod=mod")

def sh(cmd, cwd=None, timeout=1500):
    p = subprocess.run(cmd, shell=True, cwd=cwd, env=env, stdout=subprocess.PIPE, stderr=subprocess.STDOUT, text=True, timeout=timeout)
    return p.returncode, p.stdout

os.makedirs("/tmp/confirm", exist_ok=True)
sh(f"git -C /repo worktree remove --force {wt}")
rc, o = sh(f"git -C /repo worktree add --detach {wt} HEAD")
assert rc == 0, o
result = dict(seed=sid, property=prop, base=sh("git -C /repo rev-parse --short HEAD")[1].strip())
try:
    demos = sorted(glob.glob(os.path.join(out, "*_demo_test.go")))
    assert demos, "no demo files"
    placed = []
    for d in demos:
        src = open(d).read()
        pkg = re.search(r"^package (\w+)", src, re.M).group(1)
        pkg = pkg[:-5] if pkg.endswith("_test") else pkg
        pdir = PKGDIR.get(pkg, pkg)
        assert os.path.isdir(os.path.join(wt, pdir)), f"no dir for package {pkg}"
        shutil.copy(d, os.path.join(wt, pdir, os.path.basename(d)))
        placed.append((pdir, os.path.basename(d), sorted(set(re.findall(r"^func (Test\w+)\(", src, re.M)))))
    def run_demos():
        res = []
        for pdir, fn, tests in placed:
            rx = "^(" + "|".join(tests) + ")$"
            rc, o = sh(f"go test -vet=off -count=1 -timeout 120s -run '{rx}' .", cwd=os.path.join(wt, pdir), timeout=400)
            res.append((pdir, fn, rc, o[-600:]))
        return res
    clean = run_demos()
    result["demo_on_clean"] = [(p, f, rc) for p, f, rc, _ in clean]
    assert all(rc == 0 for _, _, rc, _ in clean), f"demo fails on clean tree: {clean}"
    rc, o = sh(f"git -C {wt} apply {patch}")
    assert rc == 0, "patch does not apply to HEAD: " + o
    rc, o = sh(f"/verif/tools/baseline.sh {wt}", timeout=3000)
    # the demo files are part of the packages now; their failure is expected -> ignore lines of demo tests
    fails = [l for l in o.splitlines() if l.startswith("[") and ("FAIL" in l or "--- FAIL" in l)]
    nondemo = [l for l in fails if "--- FAIL" in l and not any(t in l for _, _, ts in placed for t in ts)]
    result["suite_fail_lines"] = fails[:10]
    # re-run the suite without the demo files for a clean verdict
    for pdir, fn, _ in placed:
        os.remove(os.path.join(wt, pdir, fn))
    rc, o = sh(f"/verif/tools/baseline.sh {wt}", timeout=3000)
    ok = "BASELINE_FAIL=0" in o
    if not ok and "TestCancelRepeatedPooled" in o:
        rc, o = sh(f"/verif/tools/baseline.sh {wt}", timeout=3000)
        ok = "BASELINE_FAIL=0" in o
    result["suite_passes_with_patch"] = ok
    assert ok, "pinned suite fails with the patch:\n" + "\n".join(l for l in o.splitlines() if "FAIL" in l)[:1500]
    for d in demos:
        src = open(d).read()
        pkg = re.search(r"^package (\w+)", src, re.M).group(1)
        pkg = pkg[:-5] if pkg.endswith("_test") else pkg
        shutil.copy(d, os.path.join(wt, PKGDIR.get(pkg, pkg), os.path.basename(d)))
    mut = run_demos()
    result["demo_with_patch"] = [(p, f, rc) for p, f, rc, _ in mut]
    assert any(rc != 0 for _, _, rc, _ in mut), "no demo fails with the patch"
    result["demo_failure_excerpt"] = [o for _, _, rc, o in mut if rc != 0][0][-400:]
    dst = f"/verif/seeded/{sid}"
    os.makedirs(dst, exist_ok=True)
    shutil.copy(patch, os.path.join(dst, "patch.diff"))
    for d in demos:
        shutil.copy(d, dst)
    notes = os.path.join(out, "notes.md")
    if os.path.exists(notes):
        shutil.copy(notes, os.path.join(dst, "agent_notes.md"))
    result["ran"] = ["demos on clean worktree of /repo HEAD (pass)", "git apply patch.diff", "tools/baseline.sh (pinned suite, pass)", "demos with patch (fail)"]
    json.dump(result, open(os.path.join(dst, "meta.json"), "w"), indent=1)
    print("CONFIRMED", sid, json.dumps(result["demo_with_patch"]))
except AssertionError as e:
    print("NOT CONFIRMED", sid, str(e)[:1500])
finally:
    sh(f"git -C /repo worktree remove --force {wt}")
