module oldwire

go 1.19

require storj.io/drpc v0.0.17

require (
	github.com/gogo/protobuf v1.3.2 // indirect
	github.com/spacemonkeygo/monkit/v3 v3.0.7 // indirect
	github.com/zeebo/errs v1.2.2 // indirect
)
