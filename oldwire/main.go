// oldwire: the RELEASED storj.io/drpc v0.0.17 (unmodified, from the module cache) behind a line
// protocol, so that the C18 suite can decode/encode with the old code while the new code runs
// in-process in the harness.  One request per line on stdin, one answer per line on stdout.
//
//	read    final=N attached=0|1 chunks=SIZES stream=SPEC   -> P[sid,mid,kind,DATA] … E[class]
//	split   n=N sid= mid= kind= data=SPEC                   -> [kind,done,ctl,sid,mid,DATA] …
//	emit    n=N wsize=N pkts=sid:mid:kind:SPEC;…            -> hex of the bytes the old Writer wrote
//	stream  sid=N split=N wsize=N ops=OP;…                  -> hex of the bytes the old Stream wrote
//	        OP = W<kind>:SPEC (RawWrite) | E:<code>:SPEC (SendError) | C Close | S CloseSend | X Cancel | F RawFlush
//	handle  sid=N pkts=sid:mid:kind:SPEC;…                  -> class,terminated per packet (old Stream.HandlePacket)
//	menc    pairs=kSPEC:vSPEC;…                             -> hex (old drpcmetadata.Encode)
//	mdec    b=SPEC                                          -> sorted khex:vhex;… | err
//
// SPEC = "-" | comma separated tokens, each hex or "<count>x<hexbyte>".  SIZES = "-" | "7x3,12".
// DATA = hex when at most 128 bytes, else "#<len>.<hash>".
package main

import (
	"bufio"
	"bytes"
	"context"
	"encoding/hex"
	"errors"
	"fmt"
	"io"
	"os"
	"sort"
	"strconv"
	"strings"

	"storj.io/drpc"
	"storj.io/drpc/drpcerr"
	"storj.io/drpc/drpcmetadata"
	"storj.io/drpc/drpcstream"
	"storj.io/drpc/drpcwire"
)

func arg(toks []string, key string) (string, bool) {
	p := key + "="
	for _, t := range toks {
		if strings.HasPrefix(t, p) {
			return t[len(p):], true
		}
	}
	return "", false
}

func intArg(toks []string, key string) int {
	s, ok := arg(toks, key)
	if !ok {
		panic("missing " + key)
	}
	n, err := strconv.ParseInt(s, 10, 64)
	if err != nil {
		panic(err)
	}
	return int(n)
}

func u64(s string) uint64 {
	n, err := strconv.ParseUint(s, 10, 64)
	if err != nil {
		panic(err)
	}
	return n
}

func parseSpec(s string) []byte {
	if s == "-" || s == "" {
		return nil
	}
	var out []byte
	for _, tok := range strings.Split(s, ",") {
		if i := strings.IndexByte(tok, 'x'); i >= 0 {
			n, err := strconv.Atoi(tok[:i])
			if err != nil {
				panic(err)
			}
			b, err := hex.DecodeString(tok[i+1:])
			if err != nil || len(b) != 1 {
				panic("bad repeat token " + tok)
			}
			out = append(out, bytes.Repeat(b, n)...)
			continue
		}
		b, err := hex.DecodeString(tok)
		if err != nil {
			panic(err)
		}
		out = append(out, b...)
	}
	return out
}

func parseSizes(s string) []int {
	if s == "-" || s == "" {
		return nil
	}
	var out []int
	for _, tok := range strings.Split(s, ",") {
		if i := strings.IndexByte(tok, 'x'); i >= 0 {
			n, _ := strconv.Atoi(tok[:i])
			k, _ := strconv.Atoi(tok[i+1:])
			for j := 0; j < k; j++ {
				out = append(out, n)
			}
			continue
		}
		n, _ := strconv.Atoi(tok)
		out = append(out, n)
	}
	return out
}

func hexs(b []byte) string {
	if len(b) == 0 {
		return "-"
	}
	return hex.EncodeToString(b)
}

func showData(b []byte) string {
	if len(b) <= 128 {
		return hexs(b)
	}
	h := uint32(7)
	for _, x := range b {
		h = h*31 + uint32(x)
	}
	return fmt.Sprintf("#%d.%d", len(b), h)
}

func b01(b bool) string {
	if b {
		return "1"
	}
	return "0"
}

type tagErr struct{ tag int }

func (e tagErr) Error() string { return "scripted transport error " + strconv.Itoa(e.tag) }

type script struct {
	data     []byte
	sizes    []int
	i        int
	final    error
	attached bool
}

func (s *script) Read(p []byte) (int, error) {
	if len(s.data) == 0 {
		return 0, s.final
	}
	n := 1 << 30
	if s.i < len(s.sizes) {
		n = s.sizes[s.i]
	}
	s.i++
	if n > len(p) {
		n = len(p)
	}
	if n > len(s.data) {
		n = len(s.data)
	}
	if n < 1 {
		n = 1
	}
	copy(p, s.data[:n])
	s.data = s.data[n:]
	if len(s.data) == 0 && s.attached {
		return n, s.final
	}
	return n, nil
}

func errClass(err error) string {
	var te tagErr
	switch {
	case err == nil:
		return "nil"
	case drpc.ProtocolError.Has(err):
		return "protocol"
	case drpc.InternalError.Has(err):
		return "internal"
	case errors.Is(err, bufio.ErrTooLong):
		return "toolong"
	case drpc.Error.Has(err) && strings.Contains(err.Error(), "varint too long"):
		return "varint"
	case errors.Is(err, io.ErrNoProgress):
		return "noprogress"
	case errors.Is(err, io.EOF):
		return "transport:0"
	case errors.As(err, &te):
		return fmt.Sprintf("transport:%d", te.tag)
	}
	return "other:" + strings.ReplaceAll(err.Error(), " ", "_")
}

func cmdRead(toks []string) string {
	final := intArg(toks, "final")
	att, _ := arg(toks, "attached")
	ch, _ := arg(toks, "chunks")
	st, _ := arg(toks, "stream")
	var ferr error = io.EOF
	if final != 0 {
		ferr = tagErr{final}
	}
	sc := &script{data: parseSpec(st), sizes: parseSizes(ch), final: ferr, attached: att == "1"}
	rd := drpcwire.NewReader(sc)
	var sb strings.Builder
	for n := 0; n < 1<<22; n++ {
		pkt, err := rd.ReadPacket()
		if err != nil {
			fmt.Fprintf(&sb, "E[%s]", errClass(err))
			return sb.String()
		}
		fmt.Fprintf(&sb, "P[%d,%d,%d,%s] ", pkt.ID.Stream, pkt.ID.Message, pkt.Kind, showData(pkt.Data))
	}
	return sb.String() + "E[runaway]"
}

func cmdSplit(toks []string) string {
	d, _ := arg(toks, "data")
	sid, _ := arg(toks, "sid")
	mid, _ := arg(toks, "mid")
	pkt := drpcwire.Packet{Data: parseSpec(d), ID: drpcwire.ID{Stream: u64(sid), Message: u64(mid)}, Kind: drpcwire.Kind(intArg(toks, "kind"))}
	var parts []string
	_ = drpcwire.SplitN(context.Background(), pkt, intArg(toks, "n"), func(_ context.Context, fr drpcwire.Frame) error {
		parts = append(parts, fmt.Sprintf("[%d,%s,%s,%d,%d,%s]", fr.Kind, b01(fr.Done), b01(fr.Control), fr.ID.Stream, fr.ID.Message, showData(fr.Data)))
		return nil
	})
	return strings.Join(parts, " ")
}

func parsePkts(s string) []drpcwire.Packet {
	if s == "-" || s == "" {
		return nil
	}
	var out []drpcwire.Packet
	for _, p := range strings.Split(s, ";") {
		f := strings.SplitN(p, ":", 4)
		if len(f) != 4 {
			panic("bad packet " + p)
		}
		k, _ := strconv.Atoi(f[2])
		out = append(out, drpcwire.Packet{Data: parseSpec(f[3]), ID: drpcwire.ID{Stream: u64(f[0]), Message: u64(f[1])}, Kind: drpcwire.Kind(k)})
	}
	return out
}

func cmdEmit(toks []string) string {
	ps, _ := arg(toks, "pkts")
	n := intArg(toks, "n")
	var buf bytes.Buffer
	wr := drpcwire.NewWriter(&buf, intArg(toks, "wsize"))
	ctx := context.Background()
	for _, pkt := range parsePkts(ps) {
		if err := drpcwire.SplitN(ctx, pkt, n, wr.WriteFrame); err != nil {
			return "err"
		}
	}
	if err := wr.Flush(ctx); err != nil {
		return "err"
	}
	return hexs(buf.Bytes())
}

func cmdStream(toks []string) string {
	sid, _ := arg(toks, "sid")
	ops, _ := arg(toks, "ops")
	var buf bytes.Buffer
	wr := drpcwire.NewWriter(&buf, intArg(toks, "wsize"))
	ctx := context.Background()
	st := drpcstream.NewWithOptions(ctx, u64(sid), wr, drpcstream.Options{SplitSize: intArg(toks, "split")})
	if ops != "-" && ops != "" {
		for _, op := range strings.Split(ops, ";") {
			f := strings.Split(op, ":")
			if strings.HasPrefix(f[0], "W") && len(f) == 2 {
				k, err := strconv.Atoi(f[0][1:])
				if err != nil {
					panic("bad op " + op)
				}
				_ = st.RawWrite(ctx, drpcwire.Kind(k), parseSpec(f[1]))
				continue
			}
			switch f[0] {
			case "M":
				_ = st.RawWrite(ctx, drpcwire.KindMessage, parseSpec(f[1]))
			case "I":
				_ = st.RawWrite(ctx, drpcwire.KindInvoke, parseSpec(f[1]))
			case "T":
				_ = st.RawWrite(ctx, drpcwire.KindInvokeMetadata, parseSpec(f[1]))
			case "F":
				_ = st.RawFlush(ctx)
			case "E":
				_ = st.SendError(drpcerr.WithCode(errors.New(string(parseSpec(f[2]))), u64(f[1])))
			case "C":
				_ = st.Close()
			case "S":
				_ = st.CloseSend()
			case "X":
				st.Cancel(context.Canceled)
			default:
				panic("bad op " + op)
			}
		}
	}
	_ = wr.Flush(ctx)
	return hexs(buf.Bytes())
}

// handle: every packet goes to a fresh-per-request old Stream; KindMessage is delivered to a
// concurrently receiving goroutine (HandlePacket parks until the message is taken).
func cmdHandle(toks []string) string {
	sid, _ := arg(toks, "sid")
	ps, _ := arg(toks, "pkts")
	var buf bytes.Buffer
	wr := drpcwire.NewWriter(&buf, 1)
	ctx := context.Background()
	st := drpcstream.New(ctx, u64(sid), wr)
	go func() {
		for {
			if _, err := st.RawRecv(ctx); err != nil {
				return
			}
		}
	}()
	var parts []string
	for _, pkt := range parsePkts(ps) {
		_, err := st.HandlePacket(pkt)
		term := false
		select {
		case <-st.Terminated():
			term = true
		default:
		}
		parts = append(parts, errClass(err)+","+b01(term))
	}
	st.Cancel(context.Canceled)
	return strings.Join(parts, " ")
}

func cmdMenc(toks []string) string {
	ps, _ := arg(toks, "pairs")
	m := map[string]string{}
	if ps != "-" && ps != "" {
		for _, p := range strings.Split(ps, ";") {
			f := strings.SplitN(p, ":", 2)
			m[string(parseSpec(f[0]))] = string(parseSpec(f[1]))
		}
	}
	b, err := drpcmetadata.Encode(nil, m)
	if err != nil {
		return "err"
	}
	return hexs(b)
}

func cmdMdec(toks []string) string {
	b, _ := arg(toks, "b")
	m, err := drpcmetadata.Decode(parseSpec(b))
	if err != nil {
		return "err"
	}
	var keys []string
	for k := range m {
		keys = append(keys, k)
	}
	sort.Strings(keys)
	var parts []string
	for _, k := range keys {
		parts = append(parts, hexs([]byte(k))+":"+hexs([]byte(m[k])))
	}
	if len(parts) == 0 {
		return "-"
	}
	return strings.Join(parts, ";")
}

func dispatch(line string) (res string) {
	defer func() {
		if r := recover(); r != nil {
			res = fmt.Sprintf("panic:%v", r)
			res = strings.ReplaceAll(res, "\n", " ")
		}
	}()
	toks := strings.Fields(line)
	if len(toks) == 0 {
		return "bad-op"
	}
	switch toks[0] {
	case "read":
		return cmdRead(toks[1:])
	case "split":
		return cmdSplit(toks[1:])
	case "emit":
		return cmdEmit(toks[1:])
	case "stream":
		return cmdStream(toks[1:])
	case "handle":
		return cmdHandle(toks[1:])
	case "menc":
		return cmdMenc(toks[1:])
	case "mdec":
		return cmdMdec(toks[1:])
	case "ping":
		return "pong v0.0.17"
	}
	return "bad-op"
}

func main() {
	in := bufio.NewReaderSize(os.Stdin, 1<<20)
	out := bufio.NewWriterSize(os.Stdout, 1<<20)
	for {
		line, err := in.ReadString('\n')
		if len(line) > 0 {
			fmt.Fprintln(out, dispatch(strings.TrimSpace(line)))
			out.Flush()
		}
		if err != nil {
			return
		}
	}
}
