import Drpc.Driver.Wire
import Drpc.Driver.Reader
import Drpc.Driver.Migrate
import Drpc.Driver.Stream
import Drpc.Driver.Manager
import Drpc.Driver.ManagerSys
import Drpc.Driver.Serve
import Drpc.Driver.Pool
import Drpc.Driver.Err
import Drpc.Driver.Gen
import Drpc.Driver.Metadata
import Drpc.Driver.Http
import Drpc.Driver.Compat
import Drpc.Driver.Signal
import Drpc.Driver.Request
/-
  drpcmodel: line-protocol driver.  One request per line `cmd key=value …`, one answer per line.
  Every request is self-contained (no state is kept between lines).
  Core Lean only, so this links as a `lean_exe`.
-/
open Drpc.Driver

def dispatch (line : String) : String :=
  match (line.splitOn " ").filter (· ≠ "") with
  | [] => "bad-op"
  | cmd :: args =>
    let r := (Wire.handle cmd args) <|> (Reader.handle cmd args) <|> (Migrate.handle cmd args) <|> (Stream.handle cmd args) <|> (Manager.handle cmd args) <|> (ManagerSys.handle cmd args) <|> (Serve.handle cmd args) <|> (Pool.handle cmd args) <|> (Err.handle cmd args) <|> (Gen.handle cmd args) <|> (Metadata.handle cmd args) <|> (Http.handle cmd args) <|> (Compat.handle cmd args) <|> (Signal.handle cmd args) <|> (Request.handle cmd args)
    match r with
    | some s => s
    | none => "bad-op"

partial def loop (h : IO.FS.Stream) (out : IO.FS.Stream) : IO Unit := do
  let line ← h.getLine
  if line.isEmpty then return ()
  out.putStrLn (dispatch (line.trimAscii.toString))
  loop h out

def main : IO Unit := do
  let out ← IO.getStdout
  loop (← IO.getStdin) out
  out.flush
