-- Root of the `Drpc` library: model, lemmas, property theorems, tie lemmas.
import Drpc.Props.C08
import Drpc.Tie.C08
import Drpc.Props.C09
import Drpc.Tie.C09
