import Drpc.Wire.Split
/-
  Atomic-step model of drpcstream.Stream (stream.go, pktbuf.go, inspectmu.go) together with the
  drpcwire.Writer it emits on, for an unbounded number of threads.

  One model step = one of: a lock acquisition (enabled only when the lock is free), the store of
  an inspectMutex `held` flag, an atomic signal set / read group, an append to the writer, the
  begin or end of a transport write, a condition wait of the packet buffer.  Steps that only
  touch thread-local data are merged into the preceding shared step (they commute with every
  step of every other thread).  Signals are set-once atomic cells (justified by the C19 model).

  Threads are `Nat`s; a thread runs one API call (`Call`) from `PC.start` to `PC.done r`.
  The environment steps are `Env.release` (a parked transport write completes, ok or error) and
  `Env.unmarshalDone` (a parked `Unmarshal` inside `MsgRecv` returns).
-/
namespace Drpc.Stream

abbrev Tid := Nat

/-- error identities (what the Go code would return; texts are tied by Generated.streamSentinels) -/
inductive Err where
  | eof                      -- io.EOF
  | sendClosed | termError | termClosed | termBothClosed
  | remoteClosed             -- drpc.ClosedError "remote closed the stream"
  | remote (data : Bytes)    -- drpcwire.UnmarshalError(data)
  | canceled                 -- context.Canceled (remote KindCancel)
  | ctx (tag : Nat)          -- the error handed to Cancel / SendCancel (ctx.Err(), manager termination)
  | invokeOnExisting         -- drpc.ProtocolError "invoke on existing stream"
  | unknownKind (k : Byte)   -- drpc.InternalError "unknown packet kind"
  | transport (tag : Nat)    -- error returned by the transport write
  | unmarshal                -- the encoding's Unmarshal failed
deriving Repr, DecidableEq

/-- results of API calls -/
inductive Ret where
  | nil
  | err (e : Err)
  | busy                      -- SendCancel: (true, nil)
  | bool (b : Bool)           -- Cancel's result
  | data (d : Bytes)          -- MsgRecv / RawRecv payload
deriving Repr, DecidableEq

/-- how the encoding's Unmarshal behaves inside this MsgRecv -/
structure RecvMode where
  park : Bool := false    -- parks until released by the environment
  fail : Bool := false    -- returns an error
deriving Repr, DecidableEq

inductive Call where
  | msgSend (d : Bytes) (park : Bool := false)   -- park: the encoding's Marshal parks (holding the write lock)
  | rawWrite (k : Byte) (d : Bytes)
  | rawFlush
  | msgRecv (m : RecvMode)
  | close
  | sendError (payload : Bytes)     -- MarshalError(serr)
  | closeSend
  | sendCancel (tag : Nat)
  | cancel (tag : Nat)
  | handle (kind : Byte) (control : Bool) (sameSid : Bool) (data : Bytes)
deriving Repr, DecidableEq

inductive FlushMode where
  | none | checked | unchecked
deriving Repr, DecidableEq

/-- what a thread does once it owns the write lock -/
structure WSec where
  frames : List Frame         -- frames still to append
  checks : Bool               -- rawWriteLocked (check send/term before each frame) vs sendPacketLocked
  flush : FlushMode           -- rawFlushLocked / wr.Flush / nothing
  recvAfter : Option RecvMode -- some m: this is MsgRecv's inner RawFlush, continue with the receive
  second : Bool := false      -- this is the ManualFlush re-flush (the second RawFlush of checkRecvFlush)
deriving Repr, DecidableEq

/-- continuation of `checkFinished` -/
inductive K where
  | ret (r : Ret)                       -- end of call
  | recv (park : RecvMode)              -- MsgRecv: the once-flush succeeded, go on to the ManualFlush test
  | read (park : RecvMode)              -- MsgRecv: flushing is over, go on to read
  | term (c : Call)                     -- inside terminate(): continue the call `c`
deriving Repr, DecidableEq

inductive PC where
  | start (c : Call)
  | done (r : Ret)
  | once (c : Call)                           -- sync.Once `flush`
  -- plain writer calls
  | lockW (c : Call) (sec : WSec)             -- blocking acquire of s.write
  | heldW (c : Call) (sec : WSec)             -- store write.held := 1
  | marshal (c : Call) (sec : WSec)           -- MsgSend: Marshal (may park), then newFrameLocked + split
  -- calls that take s.mu
  | lockMu (c : Call)                         -- blocking acquire of s.mu
  | chkTerm (c : Call)                        -- under mu: the "already terminated / finished" test
  | lockWmu (c : Call)                        -- terminal call: acquire s.write while holding s.mu
  | heldWmu (c : Call)
  | tryMu (tag : Nat) | tryW (tag : Nat)      -- SendCancel's TryLocks
  | pre (c : Call)                            -- signal sets that precede terminate (send.Set(EOF), cancel.Set, recv.Set …)
  | hPClose (c : Call)                        -- HandlePacket Close/CloseSend: pbuf.Close(io.EOF), waits while held
  | tSet (e : Err) (c : Call)                 -- terminate: send/recv/term.Set e
  | tClose (e : Err) (c : Call)               -- terminate: pbuf.Close(e), waits while held
  | unlockMu (c : Call)                       -- s.mu.Unlock() of a terminal call, then its packet
  -- write section
  | frame (sec : WSec)
  | writing (sec : WSec) (fromFlush : Bool)   -- transport write in flight (parked)
  | flush (sec : WSec)
  | ret (sec : WSec) (r : Ret)                -- result known; next: held := 0
  | unlockW (sec : WSec) (r : Ret)
  -- checkFinished
  | cf1 (k : K) | cf2 (k : K) | cf3 (k : K) | cfEnd (k : K)
  -- receive
  | lockR (park : RecvMode) | heldR (park : RecvMode)
  | get (park : RecvMode)                          -- pbuf.Get: waits while ¬set ∧ err = none
  | unmarshal (d : Bytes) (park : RecvMode)        -- between Get and Done (parks when `park`)
  | pdone (r : Ret)                            -- pbuf.Done
  | relR (r : Ret) | unlockR (r : Ret)
  -- HandlePacket
  | hTerm (c : Call)                           -- read term
  | put1 (d : Bytes) | put2                    -- pbuf.Put: wait for a free slot; wait for consumption
  | hRet (r : Ret)                             -- deferred mu.Unlock
deriving Repr, DecidableEq

structure Opts where
  splitSize : Int := 0
  manualFlush : Bool := false
  wsize : Nat := 4096       -- writer buffer threshold (NewWriter's size; 0 ↦ 4096 is applied by the caller)
  sid : U64 := 1
deriving Repr

/-- ghost record of one `id.Message++`: the message id handed out, the kind and payload of the message,
    the frames it is cut into, and the call that started it -/
structure Started where
  mid : U64
  kind : Byte
  data : Bytes
  frames : List Frame
  call : Call
deriving Repr

structure Sh where
  -- signals
  send : Option Err := none
  recv : Option Err := none
  term : Option Err := none
  fin : Bool := false
  cancel : Option Err := none
  ctxDone : Bool := false
  finTokens : Nat := 0
  -- locks
  mu : Option Tid := none
  w : Option Tid := none
  wHeld : Bool := false
  r : Option Tid := none
  rHeld : Bool := false
  once : Option (Option Tid) := none   -- none: not started; some (some t): running in t; some none: done
  mid : U64 := 0
  -- writer
  wbuf : List Frame := []             -- buffered whole frames
  wFlag : Bool := false               -- Writer.empty != 0, i.e. `!wr.Empty()`
  inflight : Option (Tid × List Frame) := none
  wire : List (List Frame) := []      -- completed transport writes, oldest first
  -- packet buffer
  pset : Bool := false
  pheld : Bool := false
  pdata : Bytes := []
  perr : Option Err := none
  -- ghost fields (proof-only history; never read by `stepPC`/`envStep`, ignored by the driver and the Go tie)
  hist : List Frame := []             -- every frame ever appended to the writer, in order
  midN : Nat := 0                     -- number of `id.Message++` executed so far (unbounded copy of `mid`)
  failed : Bool := false              -- some transport write has returned an error
  putLog : List Bytes := []           -- payloads stored into the packet buffer by `Put`, in order
  getLog : List Bytes := []           -- payloads handed out by `Get`, in order
  started : List Started := []        -- one record per `id.Message++`, in order
  sendRets : List (Tid × U64 × Ret × Bool) := []   -- results of the send sections (MsgSend / RawWrite) at
                                      -- `write.Unlock`: thread, message id, result, "ended with rawFlushLocked"
deriving Repr

structure St where
  sh : Sh := {}
  pc : Tid → PC := fun _ => .done .nil
  opts : Opts := {}

def St.setPc (s : St) (t : Tid) (p : PC) : St := { s with pc := fun u => if u = t then p else s.pc u }
def St.setSh (s : St) (sh : Sh) : St := { s with sh := sh }
def St.upd (s : St) (t : Tid) (sh : Sh) (p : PC) : St := (s.setSh sh).setPc t p

def bufBytes (fs : List Frame) : Nat := (fs.map (fun f => (appendFrame f).length)).sum

/-- `sig.Set(e)`: first one wins -/
def setOnce (o : Option Err) (e : Err) : Option Err := match o with | none => some e | some x => some x

/-- the critical section of `packetBuffer.Close(e)` (after the wait for `held`):
    `if pb.err == nil { data = nil; set = false; err = e }` -/
def pbufClose (sh : Sh) (e : Err) : Sh :=
  { sh with pdata := if sh.perr.isNone then [] else sh.pdata,
            pset := if sh.perr.isNone then false else sh.pset,
            perr := setOnce sh.perr e }

/-- checkCancelError -/
def cancelWrap (sh : Sh) (r : Ret) : Ret := match sh.cancel with | some e => .err e | none => r

def kindInvoke : Byte := 1
def kindMessage : Byte := 2
def kindError : Byte := 3
def kindCancel : Byte := 4
def kindClose : Byte := 5
def kindCloseSend : Byte := 6
def kindInvokeMetadata : Byte := 7

/-- the frames of one rawWriteLocked call -/
def framesOf (o : Opts) (mid : U64) (kind : Byte) (d : Bytes) : List Frame :=
  splitFrames o.sid mid kind false (splitSize o.splitSize) d

def flushSec (recvAfter : Option RecvMode) : WSec :=
  { frames := [], checks := false, flush := .checked, recvAfter := recvAfter }

/-- the single packet of a terminal call (`sendPacketLocked`), built when `s.mu` is released -/
def packetOf (o : Opts) (mid : U64) (c : Call) : Frame :=
  match c with
  | .close => ⟨[], o.sid, mid, kindClose, true, false⟩
  | .sendError p => ⟨p, o.sid, mid, kindError, true, false⟩
  | .closeSend => ⟨[], o.sid, mid, kindCloseSend, true, false⟩
  | .sendCancel _ => ⟨[], o.sid, mid, kindCancel, true, true⟩
  | _ => ⟨[], o.sid, mid, 0, true, false⟩

/-- the error a call terminates the stream with, if it does -/
def termErrOf (c : Call) : Err :=
  match c with
  | .close => .termClosed
  | .sendError _ => .termError
  | .closeSend => .termBothClosed
  | .sendCancel tag => .ctx tag
  | .cancel tag => .ctx tag
  | .handle k _ _ d =>
    if k = kindInvoke then .invokeOnExisting
    else if k = kindError then .remote d
    else if k = kindCancel then .canceled
    else if k = kindClose then .remoteClosed
    else if k = kindCloseSend then .termBothClosed
    else .unknownKind k
  | _ => .eof

/-- what HandlePacket returns for a non-message kind -/
def handleRet (c : Call) : Ret :=
  match c with
  | .handle k ctl _ _ =>
    if k = kindInvoke then .err .invokeOnExisting
    else if k = kindError ∨ k = kindCancel ∨ k = kindClose ∨ k = kindCloseSend then .nil
    else if ctl then .nil else .err (.unknownKind k)
  | _ => .nil

/-- where a call continues after `terminate` returned (or was skipped) -/
def afterTerm (c : Call) : PC :=
  match c with
  | .cancel _ => .hRet (.bool false)
  | .handle .. => .hRet (handleRet c)
  | _ => .unlockMu c

/-- The step of a thread whose program counter is the third argument. -/
def stepPC (s : St) (t : Tid) : PC → Option St
  | .done _ => none
  | .start c =>
    match c with
    | .msgSend _ _ => some (s.setPc t (.once c))
    | .rawWrite _ _ => some (s.setPc t (.lockW c { frames := [], checks := true, flush := .none, recvAfter := none }))
    | .rawFlush => some (s.setPc t (.lockW c (flushSec none)))
    | .msgRecv _ => some (s.setPc t (.once c))
    | .sendCancel tag => some (s.setPc t (.tryMu tag))
    | .handle _ _ sameSid _ =>
      if sameSid then some (s.setPc t (.hTerm c)) else some (s.setPc t (.done .nil))
    | _ => some (s.setPc t (.lockMu c))
  -- sync.Once
  | .once c =>
    match s.sh.once, c with
    | some (some _), _ => none                                    -- someone is running the once: wait
    | some none, .msgSend _ _ =>
      some (s.setPc t (.lockW c { frames := [], checks := true, flush := if s.opts.manualFlush then .none else .checked, recvAfter := none }))
    | none, .msgSend _ _ =>                                       -- flush.Do(func(){})
      some (s.upd t { s.sh with once := some none }
        (.lockW c { frames := [], checks := true, flush := if s.opts.manualFlush then .none else .checked, recvAfter := none }))
    | some none, .msgRecv park => some (s.setPc t (.cfEnd (.recv park)))
    | none, .msgRecv park =>                                      -- flush.Do(func(){ err = s.RawFlush() })
      some (s.upd t { s.sh with once := some (some t) } (.lockW c (flushSec (some park))))
    | _, _ => none
  -- write lock
  | .lockW c sec => if s.sh.w.isSome then none else some (s.upd t { s.sh with w := some t } (.heldW c sec))
  | .heldW c sec =>
    match c with
    | .msgSend _ _ => some (s.upd t { s.sh with wHeld := true } (.marshal c sec))
    | .rawWrite k d =>
      let mid' := s.sh.mid + 1
      some (s.upd t { s.sh with wHeld := true, mid := mid', midN := s.sh.midN + 1,
                                started := s.sh.started ++ [⟨mid', k, d, framesOf s.opts mid' k d, c⟩] }
        (.frame { sec with frames := framesOf s.opts mid' k d }))
    | _ => some (s.upd t { s.sh with wHeld := true } (.flush sec))
  | .marshal c sec =>
    match c with
    | .msgSend d park =>
      if park then none else
      let mid' := s.sh.mid + 1
      some (s.upd t { s.sh with mid := mid', midN := s.sh.midN + 1,
                                started := s.sh.started ++ [⟨mid', kindMessage, d, framesOf s.opts mid' kindMessage d, c⟩] }
        (.frame { sec with frames := framesOf s.opts mid' kindMessage d }))
    | _ => none
  -- s.mu
  | .lockMu c => if s.sh.mu.isSome then none else some (s.upd t { s.sh with mu := some t } (.chkTerm c))
  | .chkTerm c =>
    match c with
    | .cancel _ => if s.sh.fin then some (s.setPc t (.hRet (.bool true))) else some (s.setPc t (.pre c))
    | .handle .. => some (s.setPc t (.pre c))
    | .closeSend =>
      if s.sh.send.isSome || s.sh.term.isSome then some (s.upd t { s.sh with mu := none } (.done .nil))
      else some (s.setPc t (.lockWmu c))
    | .sendCancel _ =>
      if s.sh.term.isSome then
        some (s.upd t { s.sh with mu := none } (.ret { frames := [], checks := false, flush := .none, recvAfter := none } .nil))
      else some (s.setPc t (.pre c))
    | _ =>
      if s.sh.term.isSome then some (s.upd t { s.sh with mu := none } (.done .nil))
      else some (s.setPc t (.lockWmu c))
  | .lockWmu c => if s.sh.w.isSome then none else some (s.upd t { s.sh with w := some t } (.heldWmu c))
  | .heldWmu c => some (s.upd t { s.sh with wHeld := true } (.pre c))
  | .tryMu tag =>
    if s.sh.mu.isSome then some (s.setPc t (.done .busy)) else some (s.upd t { s.sh with mu := some t } (.tryW tag))
  | .tryW tag =>
    if s.sh.w.isSome then some (s.upd t { s.sh with mu := none } (.done .busy))
    else some (s.upd t { s.sh with w := some t, wHeld := true } (.chkTerm (.sendCancel tag)))
  | .pre c =>
    match c with
    | .close => some (s.setPc t (.tSet .termClosed c))
    | .sendError _ => some (s.upd t { s.sh with send := setOnce s.sh.send .eof } (.tSet .termError c))
    | .sendCancel tag => some (s.upd t { s.sh with send := setOnce s.sh.send .eof } (.tSet (.ctx tag) c))
    | .cancel tag =>
      some (s.upd t { s.sh with cancel := setOnce s.sh.cancel (.ctx tag), send := setOnce s.sh.send .eof } (.tSet (.ctx tag) c))
    | .closeSend =>
      let send' := setOnce s.sh.send .sendClosed
      -- terminateIfBothClosed
      if s.sh.recv.isSome then some (s.upd t { s.sh with send := send' } (.tSet .termBothClosed c))
      else some (s.upd t { s.sh with send := send' } (afterTerm c))
    | .handle k ctl _ d =>
      if k = kindInvoke then some (s.setPc t (.tSet .invokeOnExisting c))
      else if k = kindError then some (s.upd t { s.sh with send := setOnce s.sh.send .eof } (.tSet (.remote d) c))
      else if k = kindCancel then
        some (s.upd t { s.sh with cancel := setOnce s.sh.cancel .canceled, send := setOnce s.sh.send .eof } (.tSet .canceled c))
      else if k = kindClose ∨ k = kindCloseSend then some (s.upd t { s.sh with recv := setOnce s.sh.recv .eof } (.hPClose c))
      else if ctl then some (s.setPc t (.hRet .nil))
      else some (s.setPc t (.tSet (.unknownKind k) c))
    | _ => none
  | .hPClose c =>
    if s.sh.pheld then none else
    let sh1 := pbufClose s.sh .eof
    match c with
    | .handle k _ _ _ =>
      if k = kindClose then some (s.upd t sh1 (.tSet .remoteClosed c))
      else if sh1.send.isSome && sh1.recv.isSome then some (s.upd t sh1 (.tSet .termBothClosed c))   -- terminateIfBothClosed
      else some (s.upd t sh1 (afterTerm c))
    | _ => none
  | .tSet e c =>
    some (s.upd t { s.sh with send := setOnce s.sh.send e, recv := setOnce s.sh.recv e, term := setOnce s.sh.term e } (.tClose e c))
  | .tClose e c =>
    if s.sh.pheld then none else some (s.upd t (pbufClose s.sh e) (.cf1 (.term c)))
  | .unlockMu c =>
    -- s.mu.Unlock(); then sendPacketLocked: newFrameLocked (mid++) under the write lock
    let mid' := s.sh.mid + 1
    some (s.upd t { s.sh with mu := none, mid := mid', midN := s.sh.midN + 1,
                              started := s.sh.started ++ [⟨mid', (packetOf s.opts mid' c).kind, (packetOf s.opts mid' c).data,
                                                          [packetOf s.opts mid' c], c⟩] }
      (.frame { frames := [packetOf s.opts mid' c], checks := false, flush := .unchecked, recvAfter := none }))
  -- write section
  | .frame sec =>
    match sec.frames with
    | [] => some (s.setPc t (.flush sec))
    | fr :: rest =>
      if sec.checks && s.sh.send.isSome then some (s.setPc t (.ret sec (.err (s.sh.send.getD .eof))))
      else if sec.checks && s.sh.term.isSome then some (s.setPc t (.ret sec (.err (s.sh.term.getD .eof))))
      else
        let wbuf' := s.sh.wbuf ++ [fr]
        let sec' := { sec with frames := rest }
        if bufBytes wbuf' ≥ s.opts.wsize then
          some (s.upd t { s.sh with wbuf := [], wFlag := true, inflight := some (t, wbuf'), hist := s.sh.hist ++ [fr] } (.writing sec' false))
        else
          some (s.upd t { s.sh with wbuf := wbuf', wFlag := true, hist := s.sh.hist ++ [fr] } (if rest.isEmpty then .flush sec' else .frame sec'))
  | .writing _ _ => none                                          -- parked in the transport (Env.release)
  | .flush sec =>
    match sec.flush with
    | .none => some (s.setPc t (.ret sec .nil))
    | .checked =>
      if !s.sh.wFlag then some (s.setPc t (.ret sec .nil))           -- wr.Empty()
      else if s.sh.cancel.isSome then some (s.setPc t (.ret sec (.err (s.sh.cancel.getD .eof))))
      else if s.sh.send.isSome then some (s.setPc t (.ret sec (.err (s.sh.send.getD .eof))))
      else if s.sh.term.isSome then some (s.setPc t (.ret sec (.err (s.sh.term.getD .eof))))
      else if s.sh.wbuf.isEmpty then some (s.setPc t (.ret sec (cancelWrap s.sh .nil)))
      else some (s.upd t { s.sh with wbuf := [], inflight := some (t, s.sh.wbuf) } (.writing sec true))
    | .unchecked =>
      if s.sh.wbuf.isEmpty then some (s.setPc t (.ret sec (cancelWrap s.sh .nil)))
      else some (s.upd t { s.sh with wbuf := [], inflight := some (t, s.sh.wbuf) } (.writing sec true))
  | .ret sec r => some (s.upd t { s.sh with wHeld := false } (.unlockW sec r))     -- deferred Unlock: held := 0 …
  | .unlockW sec r =>                                                            -- … Mutex.Unlock
    some (s.upd t { s.sh with w := none,
                              sendRets := if sec.checks then s.sh.sendRets ++ [(t, s.sh.mid, r, decide (sec.flush = .checked))]
                                          else s.sh.sendRets }
      (match sec.recvAfter with
       | none => .cf1 (.ret r)
       -- checkRecvFlush: a flush refused/failed on a terminated stream does not pre-empt the receive
       | some park =>
         .cf1 (if r = .nil then (if sec.second then .read park else .recv park)
               else if s.sh.term.isSome then .read park
               else .ret r)))
  -- checkFinished
  | .cf1 k => if s.sh.term.isSome then some (s.setPc t (.cf2 k)) else some (s.setPc t (.cfEnd k))
  | .cf2 k => if !s.sh.wHeld then some (s.setPc t (.cf3 k)) else some (s.setPc t (.cfEnd k))
  | .cf3 k =>
    if !s.sh.rHeld then
      -- fin.Set(nil): first wins; the winner sets the context signal and sends the fin token
      some (s.upd t { s.sh with fin := true, ctxDone := true,
                                finTokens := if s.sh.fin then s.sh.finTokens else s.sh.finTokens + 1 } (.cfEnd k))
    else some (s.setPc t (.cfEnd k))
  | .cfEnd k =>
    -- a RawFlush that ran inside flush.Do has returned: the once is complete
    let sh' := { s.sh with once := if s.sh.once = some (some t) then some none else s.sh.once }
    match k with
    | .ret r => some (s.upd t sh' (.done r))
    | .recv park =>
      some (s.upd t sh'
        (if s.opts.manualFlush && s.sh.wFlag then .lockW (.msgRecv park) { flushSec (some park) with second := true }
         else .lockR park))
    | .read park => some (s.upd t sh' (.lockR park))
    | .term c => some (s.setPc t (afterTerm c))
  -- receive
  | .lockR park => if s.sh.r.isSome then none else some (s.upd t { s.sh with r := some t } (.heldR park))
  | .heldR park => some (s.upd t { s.sh with rHeld := true } (.get park))
  | .get park =>
    if !s.sh.pset && s.sh.perr.isNone then none                       -- cond wait
    else match s.sh.perr with
      | some e => some (s.setPc t (.relR (.err e)))
      | none => some (s.upd t { s.sh with pheld := true, getLog := s.sh.getLog ++ [s.sh.pdata] } (.unmarshal s.sh.pdata park))
  | .unmarshal d park =>
    if park.park then none
    else some (s.setPc t (.pdone (if park.fail then .err .unmarshal else .data d)))
  | .pdone r => some (s.upd t { s.sh with pdata := [], pset := false, pheld := false } (.relR r))
  | .relR r => some (s.upd t { s.sh with rHeld := false } (.unlockR r))
  | .unlockR r => some (s.upd t { s.sh with r := none } (.cf1 (.ret r)))
  -- HandlePacket
  | .hTerm c =>
    if s.sh.term.isSome then some (s.setPc t (.done .nil))
    else match c with
      | .handle k _ _ d => if k = kindMessage then some (s.setPc t (.put1 d)) else some (s.setPc t (.lockMu c))
      | _ => none
  | .put1 d =>
    if s.sh.pset && s.sh.perr.isNone then none                        -- cond wait: slot occupied
    else if s.sh.perr.isSome then some (s.setPc t (.done .nil))
    else some (s.upd t { s.sh with pdata := d, pset := true, pheld := false, putLog := s.sh.putLog ++ [d] } .put2)
  | .put2 => if s.sh.pset || s.sh.pheld then none else some (s.setPc t (.done .nil))
  | .hRet r => some (s.upd t { s.sh with mu := none } (.done r))

/-- One atomic step of thread `t`; `none` when the thread is blocked or finished. -/
def step (s : St) (t : Tid) : Option St := stepPC s t (s.pc t)

/-- environment events -/
inductive Env where
  | release (err : Option Nat)     -- the parked transport write completes (none: all bytes written)
  | unmarshalDone (t : Tid)        -- the parked Unmarshal of thread `t` returns
  | marshalDone (t : Tid)          -- the parked Marshal of thread `t` returns
deriving Repr, DecidableEq

def envStep (s : St) (e : Env) : Option St :=
  let sh := s.sh
  match e with
  | .release err =>
    match sh.inflight with
    | none => none
    | some (t, frs) =>
      match s.pc t with
      | .writing sec fromFlush =>
        let sh1 := { sh with inflight := none, wFlag := false,
                             wire := if err.isNone then sh.wire ++ [frs] else sh.wire,
                             failed := sh.failed || err.isSome }
        let r : Ret := match err with | none => .nil | some tag => .err (.transport tag)
        if fromFlush then some (s.upd t sh1 (.ret sec (cancelWrap sh1 r)))
        else match err with
          | some _ => some (s.upd t sh1 (.ret sec (cancelWrap sh1 r)))
          | none => some (s.upd t sh1 (if sec.frames.isEmpty then .flush sec else .frame sec))
      | _ => none
  | .marshalDone t =>
    match s.pc t with
    | .marshal (.msgSend d true) sec => some (s.setPc t (.marshal (.msgSend d false) sec))
    | _ => none
  | .unmarshalDone t =>
    match s.pc t with
    | .unmarshal d m => if m.park then some (s.setPc t (.pdone (if m.fail then .err .unmarshal else .data d))) else none
    | _ => none

/-- run the threads in `ts` (lowest index first) until none of them has an enabled step -/
def settle : Nat → List Tid → St → St
  | 0, _, s => s
  | fuel + 1, ts, s =>
    match ts.findSome? (fun t => step s t) with
    | some s' => settle fuel ts s'
    | none => s

end Drpc.Stream
