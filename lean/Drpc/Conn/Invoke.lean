import Drpc.Bytes
/-
  Atomic-step model of the unary call path of drpcconn.Conn (drpcconn/conn.go: `Conn.Invoke`,
  `doInvoke`) and of the request buffer `c.wbuf` all unary calls of a connection share.

  Any number of caller threads; thread `t` runs one `Invoke(ctx, rpc t, enc, in, out)` whose marshalled
  request is `req t` and whose encoded metadata is `md t` (`[]`: none).  Shared state: the mutex
  `c.mu`, the contents of `c.wbuf`, the manager's single stream slot, and a ghost log of what the
  streams put on the transport.

  Go (Invoke / doInvoke)                               position
  ---------------------------------------------------  ------------------------------------------------
  (not called yet)                                     `idle`
  metadata, err = drpcmetadata.Encode(metadata, md)    `encMeta`   (Encode never fails, touches nothing shared)
  stream, err := c.man.NewClientStream(ctx, rpc)       `newStream` (blocks while a stream is live; may fail: Env)
    … manager.newStream: cb(rpc) = c.getStats(rpc):    `statsLock`, `statsUnlock` (only with Options.CollectStats:
      c.mu.Lock(); …c.stats…; c.mu.Unlock()              the semaphore is held, `c.mu` is taken and released)
  defer … stream.Close() ; c.mu.Lock()                 `lock`
  defer c.mu.Unlock()
  c.wbuf, err = MarshalAppend(in, enc, c.wbuf[:0])     `mStart` (the `[:0]`: buffer truncated), `mFinish`
                                                         (contents := req t, or error and contents := nil)
  if len(metadata) > 0 { RawWrite(InvokeMetadata, …) } `wMeta`
  RawWrite(KindInvoke, []byte(rpc))                    `wInvoke`
  RawWrite(KindMessage, data)      (data = c.wbuf)     `wMsg`
  stream.CloseSend()                                   `closeSend`
  stream.MsgRecv(out, enc)                             `recv`
  deferred c.mu.Unlock()      (deferred last: runs first)   `unlock ok`
  deferred stream.Close()                              `close ok`
  (returned; ok ↔ doInvoke returned nil)               `done ok`

  The manager (drpcmanager.Manager) is abstracted to what `Invoke` relies on:
    * one stream at a time: `NewClientStream` returns only when no stream is live (`acquireSemaphore`,
      `waitForPreviousStream`), the caller then owns the live stream;
    * the live stream can be ended at any moment by the environment (context cancelled, remote
      close / error, transport error, manager closed): it is dead and the slot is free again —
      while its owner is still anywhere between `NewClientStream` and its deferred `Close`;
    * `Cfg.finishedSilent` (true for the real code): a stream that is no longer the live one never
      puts anything on the transport — `RawWrite` fails (`rawWriteLocked`: `s.sigs.term.IsSet()`),
      `CloseSend` / `Close` are no-ops returning nil, and the manager hands out the next stream only
      once the previous one is Finished (terminated and no write in flight).
  Every stream operation is one atomic step.

  `Cfg.useMu = false` is the variant of `Invoke` without `c.mu.Lock()` / `Unlock()`.

  `Cfg.collectStats`: `Options.CollectStats` — then `NewClientStream` itself takes `c.mu` (in
  `Conn.getStats`, called by `Manager.newStream` after the semaphore was acquired), the second place
  where the mutex and the stream semaphore meet.  (The environment may end the "stream" already at
  `statsLock` / `statsUnlock`, when in Go only the semaphore is held and the stream does not exist
  yet: a harmless over-approximation.)

  Not modelled: `Conn.NewStream` / `doNewStream` (streaming calls: same `NewClientStream`, the same
  metadata / invoke writes, never touch `c.wbuf`); `Conn.Stats` (a short critical section of `c.mu`
  that touches only `c.stats`); blocking inside a transport write.

  `wMsg` writes the contents `c.wbuf` has at that moment.  In Go the slice header `c.wbuf` is read when
  `doInvoke` is called (position `wMeta`) and the bytes when `RawWrite` runs; both read the one shared
  backing array, so the later read is the pessimistic choice (and under the mutex they agree:
  Props.Conn.buffer_written_only_under_mu).
-/
namespace Drpc.ConnInvoke
open Drpc

abbrev Tid := Nat

/-- packet kinds a client call puts on the wire -/
inductive Kind where
  | invokeMetadata | invoke | message | closeSend | close
deriving Repr, DecidableEq

structure Cfg where
  useMu : Bool := true
  finishedSilent : Bool := true
  collectStats : Bool := false
  rpc : Tid → Bytes
  req : Tid → Bytes
  md : Tid → Bytes

inductive PC where
  | idle
  | encMeta
  | newStream
  | statsLock
  | statsUnlock
  | lock
  | mStart
  | mFinish
  | wMeta
  | wInvoke
  | wMsg
  | closeSend
  | recv
  | unlock (ok : Bool)
  | close (ok : Bool)
  | done (ok : Bool)
deriving Repr, DecidableEq

abbrev Entry := Tid × Kind × Bytes

structure Sh where
  mu : Option Tid := none           -- c.mu: the holder
  wbuf : Bytes := []                -- contents of c.wbuf
  live : Option Tid := none         -- owner of the manager's live stream (none: semaphore free)
  log : List Entry := []            -- ghost: packets written to the transport, in order
deriving Repr

structure St where
  sh : Sh := {}
  pc : Tid → PC := fun _ => .idle

def St.setPc (s : St) (t : Tid) (p : PC) : St := { s with pc := fun u => if u = t then p else s.pc u }
def St.upd (s : St) (t : Tid) (sh : Sh) (p : PC) : St := { sh := sh, pc := fun u => if u = t then p else s.pc u }

/-- a packet of `t`'s stream reaches the transport: the stream is the live one (or, in the variant,
    finished streams are not silent); `none`: the operation writes nothing -/
def rawWrite (cfg : Cfg) (sh : Sh) (t : Tid) (k : Kind) (b : Bytes) : Option Sh :=
  if sh.live = some t ∨ cfg.finishedSilent = false then some { sh with log := sh.log ++ [(t, k, b)] } else none

/-- the stream of `t` is finished: if it was the live one the semaphore is free again -/
def Sh.release (sh : Sh) (t : Tid) : Sh := { sh with live := if sh.live = some t then none else sh.live }

/-- `ch`: whether Marshal fails -/
def stepPC (cfg : Cfg) (s : St) (t : Tid) (ch : Nat) : PC → Option St
  | .idle => none
  | .done _ => none
  | .encMeta => some (s.setPc t .newStream)
  | .newStream =>
    if s.sh.live = none then some (s.upd t { s.sh with live := some t } .statsLock) else none
  | .statsLock =>
    -- Manager.newStream: `if cb := …StatsCB…; cb != nil { cb(rpc) }`, cb = Conn.getStats
    if cfg.collectStats = true then
      if s.sh.mu = none then some (s.upd t { s.sh with mu := some t } .statsUnlock) else none
    else some (s.setPc t .lock)
  | .statsUnlock => some (s.upd t { s.sh with mu := none } .lock)
  | .lock =>
    if cfg.useMu = true then
      if s.sh.mu = none then some (s.upd t { s.sh with mu := some t } .mStart) else none
    else some (s.setPc t .mStart)
  | .mStart => some (s.upd t { s.sh with wbuf := [] } .mFinish)
  | .mFinish =>
    if ch % 2 = 1 then some (s.upd t { s.sh with wbuf := [] } (.unlock false))
    else some (s.upd t { s.sh with wbuf := cfg.req t } .wMeta)
  | .wMeta =>
    if (cfg.md t).isEmpty = true then some (s.setPc t .wInvoke)
    else match rawWrite cfg s.sh t .invokeMetadata (cfg.md t) with
      | some sh => some (s.upd t sh .wInvoke)
      | none => some (s.setPc t (.unlock false))
  | .wInvoke =>
    match rawWrite cfg s.sh t .invoke (cfg.rpc t) with
    | some sh => some (s.upd t sh .wMsg)
    | none => some (s.setPc t (.unlock false))
  | .wMsg =>
    match rawWrite cfg s.sh t .message s.sh.wbuf with
    | some sh => some (s.upd t sh .closeSend)
    | none => some (s.setPc t (.unlock false))
  | .closeSend =>
    -- on a terminated stream CloseSend is a no-op returning nil
    match rawWrite cfg s.sh t .closeSend [] with
    | some sh => some (s.upd t sh .recv)
    | none => some (s.setPc t .recv)
  | .recv =>
    -- a live stream waits for the reply (Env.reply); a dead one returns its error
    if s.sh.live = some t then none else some (s.setPc t (.unlock false))
  | .unlock ok =>
    if cfg.useMu = true then some (s.upd t { s.sh with mu := none } (.close ok))
    else some (s.setPc t (.close ok))
  | .close ok =>
    -- Close of a live stream sends KindClose and finishes it; of a terminated one: no-op
    match rawWrite cfg s.sh t .close [] with
    | some sh => some (s.upd t (sh.release t) (.done ok))
    | none => some (s.setPc t (.done ok))

def step (cfg : Cfg) (s : St) (t : Tid) (ch : Nat) : Option St := stepPC cfg s t ch (s.pc t)

inductive Env where
  | call (t : Tid)                -- a caller starts `Invoke`
  | endStream                     -- the live stream is cancelled / closed / errors asynchronously
  | newStreamFails (t : Tid)      -- `NewClientStream` of `t` fails (its context is done, manager closed)
  | reply (t : Tid)               -- the response arrives; `MsgRecv` of `t` returns nil
deriving Repr, DecidableEq

def envStep (s : St) : Env → Option St
  | .call t => if s.pc t = .idle then some (s.setPc t .encMeta) else none
  | .endStream => if s.sh.live.isSome = true then some { s with sh := { s.sh with live := none } } else none
  | .newStreamFails t => if s.pc t = .newStream then some (s.setPc t (.done false)) else none
  | .reply t => if s.pc t = .recv ∧ s.sh.live = some t then some (s.setPc t (.unlock true)) else none

inductive Reach (cfg : Cfg) : St → Prop
  | init : Reach cfg {}
  | step {s s' : St} (t : Tid) (ch : Nat) : Reach cfg s → step cfg s t ch = some s' → Reach cfg s'
  | env {s s' : St} (e : Env) : Reach cfg s → envStep s e = some s' → Reach cfg s'

end Drpc.ConnInvoke
