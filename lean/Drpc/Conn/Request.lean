import Drpc.Stream.Conc
import Drpc.Metadata
/-
  Model of what one client call puts on the wire: drpcconn/conn.go (`Invoke`/`doInvoke`,
  `NewStream`/`doNewStream`) on top of a fresh drpcstream.Stream (`RawWrite` → `rawWriteLocked`,
  `CloseSend`/`SendCancel` → `sendPacketLocked`, both through `newFrameLocked`).  Sequential level: the
  writes of one call happen one after the other and none fails.

  Go                                         model
  -----------------------------------------  ------------------------------------------------------
  one `RawWrite(kind, data)` /               `Write` (kind, control flag, payload): ONE packet; how it
  `sendPacketLocked(kind, control, data)`    is cut into frames is `splitN` (Drpc/Wire/Split.lean)
  `s.id.Message++` in `newFrameLocked`       `streamWrites sid mid`: the packet of a write carries
  on a stream created with ID{Stream: sid}   `mid + 1`, the next write starts from `mid + 1` (wrapping);
                                             a fresh stream starts with `mid = 0`
  `metadata, _ = drpcmetadata.Encode(nil,    `Metadata.encode md` (`md` = the map as a list of pairs in
     md)` and `if len(metadata) > 0 {…}`     the iteration order `Encode` happened to use), `hasMeta`
  `doNewStream`                              `newStreamWrites`
  `doInvoke` up to and including CloseSend   `invokeWrites`
  `pkt.Kind`, `pkt.ID.Stream`, `pkt.Data`    `toServer` (all that `Manager.NewServerStream` looks at)
  as read by `NewServerStream`
-/
namespace Drpc.Conn
open Drpc

/-- one packet-producing call on a stream -/
structure Write where
  kind : Byte
  control : Bool
  data : Bytes
deriving Repr, DecidableEq

/-- The packets a stream with id `sid` whose message counter stands at `mid` emits for a sequence of
    writes: `newFrameLocked` does `s.id.Message++` and uses the new value. -/
def streamWrites (sid : U64) : U64 → List Write → List Packet
  | _, [] => []
  | mid, w :: ws =>
    { data := w.data, sid := sid, mid := mid + 1#64, kind := w.kind, control := w.control }
      :: streamWrites sid (mid + 1#64) ws

/-- `len(metadata) > 0` for `metadata = drpcmetadata.Encode(nil, md)` -/
def hasMeta (md : Metadata.Pairs) : Bool := decide ((Metadata.encode md).length > 0)

/-- `if len(metadata) > 0 { stream.RawWrite(KindInvokeMetadata, metadata) }` -/
def metaWrites (md : Metadata.Pairs) : List Write :=
  if hasMeta md then [⟨Stream.kindInvokeMetadata, false, Metadata.encode md⟩] else []

/-- mirrors `doNewStream`: [metadata,] `RawWrite(KindInvoke, []byte(rpc))` -/
def newStreamWrites (rpc : Bytes) (md : Metadata.Pairs) : List Write :=
  metaWrites md ++ [⟨Stream.kindInvoke, false, rpc⟩]

/-- what follows the invoke in `doInvoke`: `RawWrite(KindMessage, data)`, then `CloseSend()`
    (= `sendPacketLocked(KindCloseSend, false, nil)`) -/
def bodyWrites (data : Bytes) : List Write :=
  [⟨Stream.kindMessage, false, data⟩, ⟨Stream.kindCloseSend, false, []⟩]

/-- mirrors `doInvoke` up to (not including) `MsgRecv` -/
def invokeWrites (rpc : Bytes) (md : Metadata.Pairs) (data : Bytes) : List Write :=
  newStreamWrites rpc md ++ bodyWrites data

/-- `Conn.NewStream` on the fresh stream `sid` -/
def newStreamPackets (sid : U64) (rpc : Bytes) (md : Metadata.Pairs) : List Packet :=
  streamWrites sid 0#64 (newStreamWrites rpc md)

/-- `Conn.Invoke` on the fresh stream `sid`, `data` = the marshalled request -/
def invokePackets (sid : U64) (rpc : Bytes) (md : Metadata.Pairs) (data : Bytes) : List Packet :=
  streamWrites sid 0#64 (invokeWrites rpc md data)

/-- the message id of the invoke packet of a call with metadata `md` on a fresh stream -/
def invokeMid (md : Metadata.Pairs) : U64 := if hasMeta md then 2#64 else 1#64

/-- the packets of a unary call after its invoke: the request message and the close-send -/
def bodyPackets (sid : U64) (md : Metadata.Pairs) (data : Bytes) : List Packet :=
  streamWrites sid (invokeMid md) (bodyWrites data)

/-- A call given up between its metadata and its invoke (`doInvoke`/`doNewStream` returned the error of
    the cancelled stream after the first `RawWrite`): only the metadata packet — and, when `cancel`, the
    `KindCancel` control packet of `Stream.SendCancel` (`sendPacketLocked(KindCancel, true, nil)`). -/
def abandonedWrites (md : Metadata.Pairs) (cancel : Bool) : List Write :=
  metaWrites md ++ (if cancel then [⟨Stream.kindCancel, true, []⟩] else [])

def abandonedPackets (sid : U64) (md : Metadata.Pairs) (cancel : Bool) : List Packet :=
  streamWrites sid 0#64 (abandonedWrites md cancel)

/-- what `Manager.NewServerStream` looks at in a packet -/
def toServer (p : Packet) : Metadata.Pkt := { kind := p.kind.toNat, sid := p.sid, data := p.data }

/-- one unary request: the stream id the manager gave it, the rpc name, the metadata of its context,
    the marshalled request message -/
structure Request where
  sid : U64
  rpc : Bytes
  md : Metadata.Pairs
  data : Bytes
deriving Repr, DecidableEq

def Request.packets (r : Request) : List Packet := invokePackets r.sid r.rpc r.md r.data

/-- what the handler of a request must see: `.served sid rpc (drpcmetadata.Get ctx)` -/
def Request.served (r : Request) : Metadata.Call :=
  .served r.sid r.rpc (Metadata.addPairs none r.md)

/-- the packets of several requests issued one after the other on one connection (a connection runs one
    stream at a time, so the packets of different requests are not interleaved) -/
def connPackets (reqs : List Request) : List Packet := reqs.flatMap Request.packets

/-- One use of the connection by the client, as far as the wire sees it: a complete unary call, a
    streaming call that was opened (`NewStream`) and sent nothing further, or a call given up between
    its metadata and its invoke. -/
inductive Attempt where
  | unary (r : Request)
  | opened (sid : U64) (rpc : Bytes) (md : Metadata.Pairs)
  | abandoned (sid : U64) (md : Metadata.Pairs) (cancel : Bool)
deriving Repr, DecidableEq

def Attempt.sid : Attempt → U64
  | .unary r => r.sid
  | .opened sid _ _ => sid
  | .abandoned sid _ _ => sid

def Attempt.md : Attempt → Metadata.Pairs
  | .unary r => r.md
  | .opened _ _ md => md
  | .abandoned _ md _ => md

def Attempt.writes : Attempt → List Write
  | .unary r => invokeWrites r.rpc r.md r.data
  | .opened _ rpc md => newStreamWrites rpc md
  | .abandoned _ md cancel => abandonedWrites md cancel

def Attempt.packets (a : Attempt) : List Packet := streamWrites a.sid 0#64 a.writes

/-- what the server must make of it: a handler call with the attempt's own id, rpc and metadata — or
    nothing at all for a call that never sent its invoke -/
def Attempt.served? : Attempt → Option Metadata.Call
  | .unary r => some r.served
  | .opened sid rpc md => some (.served sid rpc (Metadata.addPairs none md))
  | .abandoned _ _ _ => none

def attemptsPackets (as : List Attempt) : List Packet := as.flatMap Attempt.packets

/-! ### a linear-time sender for the line-protocol driver -/

/-- `splitFrames` without re-measuring the remaining payload for every frame (linear time; only used by the
    line-protocol driver, equal to `splitFrames` by `splitFramesFast_eq`) -/
def splitFramesFast (sid mid : U64) (kind : Byte) (control : Bool) (m : Nat) (data : Bytes) : List Frame :=
  if h : data.drop m ≠ [] ∧ m > 0 then
    { data := data.take m, sid := sid, mid := mid, kind := kind, control := control, done := false }
      :: splitFramesFast sid mid kind control m (data.drop m)
  else [{ data := data, sid := sid, mid := mid, kind := kind, control := control, done := true }]
termination_by data.length
decreasing_by
  have h1 : 0 < (data.drop m).length := List.length_pos_iff.mpr h.1
  simp only [List.length_drop] at h1 ⊢; omega

def encodeAllFast (n : Int) (pkts : List Packet) : Bytes :=
  (pkts.flatMap fun p => splitFramesFast p.sid p.mid p.kind p.control (splitSize n) p.data).flatMap appendFrame

end Drpc.Conn
