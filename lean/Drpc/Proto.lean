import Drpc.Bytes
/-
  A small protobuf SPEC encoder, written from the protobuf wire rules only
  (https://protobuf.dev/programming-guides/encoding/), with natural-number arithmetic and no
  reference to the Go code or to the varint model of drpcwire:

  * varint: base-128 digits, least significant first, every byte but the last has bit 7 set;
  * a field is `tag ++ payload` with `tag = varint (field_number * 8 + wire_type)`;
  * wire type 2 (LEN: string, bytes, embedded message) is `tag ++ varint (length payload) ++ payload`;
  * `map<K,V> f = N` is on the wire a `repeated` embedded message field N whose message is
    `{ K key = 1; V value = 2; }`.

  `encodeMap` is the encoding of `message { map<string,string> m = 1; }` that emits the entries
  in the given order and, for every entry, both the key and the value field (what the protobuf
  implementations emit for map entries, empty strings included).
-/
namespace Drpc.Proto

/-- base-128 varint of a natural number -/
def varint (n : Nat) : Bytes :=
  if h : n < 128 then [BitVec.ofNat 8 n] else BitVec.ofNat 8 (n % 128 + 128) :: varint (n / 128)
termination_by n
decreasing_by omega

/-- wire types -/
def wtLen : Nat := 2

def tag (field wireType : Nat) : Bytes := varint (field * 8 + wireType)

/-- a length-delimited field -/
def lenDelim (field : Nat) (payload : Bytes) : Bytes :=
  tag field wtLen ++ (varint payload.length ++ payload)

/-- the embedded message of one map entry: `{ string key = 1; string value = 2; }` -/
def mapEntry (k v : Bytes) : Bytes := lenDelim 1 k ++ lenDelim 2 v

/-- `map<string,string> = field`, entries in the given order -/
def encodeMapField (field : Nat) : List (Bytes × Bytes) → Bytes
  | [] => []
  | (k, v) :: rest => lenDelim field (mapEntry k v) ++ encodeMapField field rest

/-- `message { map<string,string> = 1 }` -/
def encodeMap (m : List (Bytes × Bytes)) : Bytes := encodeMapField 1 m

end Drpc.Proto
