import Drpc.ErrCodec
/-
  The path of a handler outcome to the client, as pure functions:

    handler outcome ──(drpcmux.HandleRPC)──▶ returned error / stream calls
                    ──(drpcserver.handleRPC: SendError(err) | CloseSend())──▶ packets on the wire
                    ──(drpcstream.HandlePacket on the client)──▶ what MsgRecv returns

    // drpcserver/server.go
    func (s *Server) handleRPC(stream *drpcstream.Stream, rpc string) (err error) {
        err = s.handler.HandleRPC(stream, rpc)
        if err != nil { return errs.Wrap(stream.SendError(err)) }
        return errs.Wrap(stream.CloseSend()) }

    // drpcmux/handle_rpc.go
    func (m *Mux) HandleRPC(stream drpc.Stream, rpc string) (err error) {
        data, ok := m.rpcs[rpc]
        if !ok { return drpc.ProtocolError.New("unknown rpc: %q", rpc) }
        in := interface{}(stream)
        if data.in1 != streamType {
            msg, ok := reflect.New(data.in1.Elem()).Interface().(drpc.Message)
            if !ok { return drpc.InternalError.New("invalid rpc input type") }
            if err := stream.MsgRecv(msg, data.enc); err != nil { return errs.Wrap(err) }
            in = msg }
        out, err := data.receiver(data.srv, stream.Context(), in, stream)
        switch {
        case err != nil: return errs.Wrap(err)
        case out != nil && !reflect.ValueOf(out).IsNil(): return stream.MsgSend(out, data.enc)
        default: return stream.CloseSend() } }

  Only the send half of the server stream and the receive half of the client stream matter here
  (the full state machine is C03's).  Transport faults, cancellation and a client that closes the
  stream early are outside this model (C04/C05).
-/
namespace Drpc

structure Pkt where
  kind : Nat
  data : Bytes
deriving Repr, DecidableEq

def kMessage : Nat := 2
def kError : Nat := 3
def kCloseSend : Nat := 6

/-- `sendClosed = drpc.Error.New("send closed")` -/
def sendClosedErr : Err := .errsT (some (asciiBytes "drpc")) (.leaf (asciiBytes "send closed"))

/-- Send half of the server's `drpcstream.Stream`. -/
structure SStream where
  out : List Pkt := []         -- packets written (each terminal packet is flushed by sendPacketLocked)
  sendSet : Bool := false      -- sigs.send
  term : Bool := false         -- sigs.term
  recvSet : Bool := false      -- sigs.recv: the client's CloseSend has been handled (unary calls)
deriving Repr, DecidableEq

/-- `MsgSend` of an already marshalled message: refused with the send error once `send`/`term` is set. -/
def SStream.msgSend (s : SStream) (d : Bytes) : SStream × Option Err :=
  if s.sendSet || s.term then (s, some sendClosedErr)
  else ({ s with out := s.out ++ [⟨kMessage, d⟩] }, none)

/-- `CloseSend`: no-op if send or term is set; terminates the stream if the remote closed too. -/
def SStream.closeSend (s : SStream) : SStream :=
  if s.sendSet || s.term then s
  else { s with out := s.out ++ [⟨kCloseSend, []⟩], sendSet := true, term := s.recvSet }

/-- `SendError`: no-op if terminated; otherwise KindError with `MarshalError(err)`. -/
def SStream.sendError (s : SStream) (e : Err) : SStream :=
  if s.term then s
  else { s with out := s.out ++ [⟨kError, marshalError e⟩], sendSet := true, term := true }

/-- what application code does on the stream before it returns -/
inductive HOp where
  | send (d : Bytes)      -- stream.MsgSend (result ignored)
  | closeSend             -- stream.CloseSend
deriving Repr, DecidableEq

def SStream.runOp (s : SStream) : HOp → SStream
  | .send d => (s.msgSend d).1
  | .closeSend => s.closeSend

def SStream.runOps (s : SStream) (ops : List HOp) : SStream := ops.foldl SStream.runOp s

/-- a `drpc.Handler`: acts on the stream, returns an error or nil -/
abbrev Handler := SStream → SStream × Option Err

/-- hand-written handler: performs `ops`, returns `ret` -/
def scriptHandler (ops : List HOp) (ret : Option Err) : Handler := fun s => (s.runOps ops, ret)

/-- `drpcserver.handleRPC` -/
def serve (h : Handler) (s : SStream) : SStream :=
  match h s with
  | (s', some e) => s'.sendError e
  | (s', none) => s'.closeSend

/-! ### drpcmux.HandleRPC -/

def hexNib (n : Nat) : Byte := BitVec.ofNat 8 (if n < 10 then 48 + n else 87 + n)

/-- `strconv.Quote` byte by byte.  Exact for ASCII; a byte ≥ 0x80 is treated as an invalid UTF-8
    byte (`\xNN`), which is what Go does unless the byte is part of a valid multi-byte sequence
    (the correspondence suite only uses rpc names without valid multi-byte sequences). -/
def quoteByte (b : Byte) : Bytes :=
  let n := b.toNat
  if n = 34 ∨ n = 92 then [92#8, b]
  else if 32 ≤ n ∧ n < 127 then [b]
  else if n = 7 then [92#8, 97#8]
  else if n = 8 then [92#8, 98#8]
  else if n = 12 then [92#8, 102#8]
  else if n = 10 then [92#8, 110#8]
  else if n = 13 then [92#8, 114#8]
  else if n = 9 then [92#8, 116#8]
  else if n = 11 then [92#8, 118#8]
  else [92#8, 120#8, hexNib (n / 16), hexNib (n % 16)]

def quote (s : Bytes) : Bytes := [34#8] ++ s.flatMap quoteByte ++ [34#8]

/-- `drpc.ProtocolError.New("unknown rpc: %q", rpc)` -/
def unknownRpcErr (rpc : Bytes) : Err :=
  .errsT (some (asciiBytes "protocol error")) (.leaf (asciiBytes "unknown rpc: " ++ quote rpc))

/-- `m.rpcs[rpc]` and the shape of the registered method -/
inductive MuxEntry where
  | unknown            -- not registered
  | message            -- `data.in1` is a message type: the request is received first
  | stream             -- `data.in1 == streamType`
deriving Repr, DecidableEq

/-- what `data.receiver` (generated glue + application method) did -/
structure Receiver where
  ops : List HOp := []                      -- calls on the stream
  out : Option (Except Err Bytes) := none   -- nil `out` | marshalled `out` | `out` whose Marshal fails
  err : Option Err := none                  -- returned error
deriving Repr

/-- `Mux.HandleRPC`; `reqErr` is the result of `stream.MsgRecv(msg, enc)` for the request. -/
def muxHandleRPC (entry : MuxEntry) (rpc : Bytes) (reqErr : Option Err) (r : Receiver) : Handler := fun s =>
  let run : SStream × Option Err :=
    let s1 := s.runOps r.ops
    match r.err with
    | some e => (s1, some (errsWrap none e))
    | none =>
      match r.out with
      | some (.error e) => (s1, some (errsWrap none e))     -- MsgSend: `errs.Wrap(err)` of the Marshal error
      | some (.ok d) => s1.msgSend d
      | none => (s1.closeSend, none)
  match entry with
  | .unknown => (s, some (unknownRpcErr rpc))
  | .message =>
    match reqErr with
    | some e => (s, some (errsWrap none e))
    | none => run
  | .stream => run

/-! ### client side: drpcstream.HandlePacket and MsgRecv -/

/-- `pbuf.err` -/
inductive Closed where
  | eof                  -- io.EOF (remote CloseSend)
  | err (e : Err)        -- UnmarshalError(pkt.Data)
deriving Repr, DecidableEq

/-- Receive half of the client's `drpcstream.Stream`. -/
structure CStream where
  delivered : List Bytes := []      -- payloads handed to MsgRecv through pbuf.Put/Get, in order
  closed : Option Closed := none    -- pbuf.err (first Close wins)
  sendSet : Bool := false           -- the client has issued CloseSend (Invoke does before receiving)
  term : Bool := false
deriving Repr, DecidableEq

/-- `HandlePacket` for the kinds the server side above emits. -/
def CStream.handle (c : CStream) (p : Pkt) : CStream :=
  if c.term then c                                                   -- `if s.sigs.term.IsSet() { return nil }`
  else if p.kind = kMessage then
    (if c.closed.isSome then c else { c with delivered := c.delivered ++ [p.data] })   -- pbuf.Put
  else if p.kind = kError then
    { c with closed := c.closed <|> some (.err (unmarshalError p.data)), sendSet := true, term := true }
  else if p.kind = kCloseSend then
    { c with closed := c.closed <|> some .eof, term := c.sendSet }   -- terminateIfBothClosed
  else c

def CStream.handleAll (c : CStream) (ps : List Pkt) : CStream := ps.foldl CStream.handle c

/-- result of one `MsgRecv` -/
inductive Recv where
  | msg (d : Bytes)
  | eof
  | error (text : Bytes) (code : U64)     -- err.Error() and drpcerr.Code(err)
  | blocked                               -- nothing yet: the call waits
deriving Repr, DecidableEq

/-- The `n`-th `MsgRecv` (n = 0, 1, …) of a client that keeps receiving.
    `unflushed`: the stream is in ManualFlush mode and its writer holds unflushed frames at the time
    of the call.  `checkRecvFlush` (as repaired by fix 56786c9) then flushes first; the flush is
    refused only when the send side or the stream is already finished, and a refusal on a terminated
    stream is ignored ("the receive itself reports why the stream was terminated"), so the receive
    proceeds either way.  (Send side closed, not terminated, and unflushed frames cannot occur
    together: CloseSend flushes the writer and later writes are refused.) -/
def CStream.recv (c : CStream) (unflushed : Bool) (n : Nat) : Recv :=
  let _flushRefusedAndIgnored := unflushed && c.term
  match c.delivered[n]? with
  | some d => .msg d
  | none =>
    match c.closed with
    | some .eof => .eof
    | some (.err e) => .error e.text (code (some e))
    | none => .blocked

/-- everything together: the client's view of an RPC whose server side runs handler `h` -/
def clientOf (h : Handler) (clientClosedSend : Bool) : CStream :=
  CStream.handleAll { sendSet := clientClosedSend } (serve h { recvSet := clientClosedSend }).out

end Drpc
