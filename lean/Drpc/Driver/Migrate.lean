import Drpc.Driver.Util
import Drpc.Driver.Reader
import Drpc.Migrate
/-
  line protocol for drpcmigrate (C16)

  mroute n=<prefixLen> routes=<hex,hex,…|none> data=<hex> chunks=<sizes> final=<k> att=<0|1> sizes=<sizes>
      one connection through routeConn (i-th distinct route = listener i), then everything the acceptor reads
  hdr h=<hex> bufs=<hex,hex,…> sched=<c0,c1,w0,f1:3,…>
      goroutine i calls HeaderConn.Write(bufs[i]) at `c<i>`; `w<i>` lets i's parked underlying write
      complete, `f<i>:<k>` makes it fail after k bytes
  mux n=<prefixLen> ops=<R<hex>,A<l>,C<l>,X,F<tag>,N,W<c>:<hex>,E<c>,…> sizes=<sizes>
      a schedule of API calls / environment events on a ListenMux; after each the system runs to quiescence
      Q<l>:<hex> / q<l>:<hex>: the burst lis.Close(); m.Route(hex) by one goroutine, nothing waiting in between —
      `Q`: Route's critical section comes before the closed listener's monitorListener takes m.mu,
      `q`: the monitor's select and delete come first (the harness reads the order off Route's result)
-/
namespace Drpc.Driver.Migrate
open Drpc Drpc.Driver Drpc.Migrate

def oracle (l : List Nat) (dflt : Nat) : Nat → Nat :=
  let arr := l.toArray
  fun i => if h : i < arr.size then arr[i] else dflt

def hexList (s : String) : Option (List Bytes) :=
  if s = "none" then some [] else (s.splitOn ",").mapM Bytes.ofHex?

def showErr : RdErr → String
  | none => "nil"
  | some e => toString e

def showReads (r : List Bytes × RdErr) : String :=
  "reads=" ++ ",".intercalate (r.1.map Bytes.toHex) ++ ";E=" ++ showErr r.2

/-- distinct routes in order of first registration: i-th distinct prefix ↦ listener i+1 -/
def mkRoutes (ps : List Bytes) : List (Bytes × Lid) :=
  ps.foldl (fun acc p => if (lookupRoute acc p).isSome then acc else acc ++ [(p, acc.length + 1)]) []

/-! ### HeaderConn schedules -/

structure HRun where
  s : Header.State
  parked : List String   -- after each schedule step: the goroutines parked in the underlying Write

def hParked (s : Header.State) (n : Nat) : String :=
  let ts := (List.range n).filter fun t => match s.pc t with | .inOnce _ | .plain _ => true | _ => false
  if ts.isEmpty then "-" else "+".intercalate (ts.map toString)

/-- wake every goroutine blocked in once.Do (enabled only after the once function completed) -/
def hWakeAll (hdr : Bytes) (s : Header.State) (n : Nat) : Header.State :=
  (List.range n).foldl (fun s t => (Header.step hdr s (.wake t)).getD s) s

def hStep (hdr : Bytes) (bufs : Array Bytes) (s : Header.State) (tok : String) : Option Header.State :=
  match tok.toList with
  | 'c' :: r => do
    let t ← (String.ofList r).toNat?
    let b ← bufs[t]?
    let s ← Header.step hdr s (.call t b)
    Header.step hdr s (.onceEnter t)
  | 'w' :: r => do
    let t ← (String.ofList r).toNat?
    let s ← Header.step hdr s (.complete t none)
    pure (hWakeAll hdr s bufs.size)
  | 'f' :: r =>
    match (String.ofList r).splitOn ":" with
    | [a, k] => do
      let t ← a.toNat?
      let k ← k.toNat?
      let s ← Header.step hdr s (.complete t (some k))
      pure (hWakeAll hdr s bufs.size)
    | _ => none
  | _ => none

def hResult (s : Header.State) (t : Nat) : String :=
  match s.pc t with
  | .done _ n e => s!"{n}/{if e then "err" else "nil"}"
  | .idle => "idle"
  | _ => "blocked"

def runHdr (hdr : Bytes) (bufs : List Bytes) (sched : List String) : String :=
  let arr := bufs.toArray
  let rec go (s : Header.State) (toks : List String) (acc : List String) : Option (Header.State × List String) :=
    match toks with
    | [] => some (s, acc.reverse)
    | t :: ts => match hStep hdr arr s t with
      | none => none
      | some s' => go s' ts (hParked s' arr.size :: acc)
  match go Header.init sched [] with
  | none => "bad-schedule"
  | some (s, parked) =>
    "p=" ++ ";".intercalate parked ++ " wire=" ++ (if s.wire.isEmpty then "none" else ",".intercalate (s.wire.map Bytes.toHex)) ++
    " res=" ++ ",".intercalate ((List.range arr.size).map (hResult s))

/-! ### ListenMux schedules -/

/-- runner state: the model state plus the arrival orders at the two ends of the `lis.conns`
    rendezvous (the Go runtime serves channel waiters first-come first-served; the transition system
    itself allows any pair) -/
structure MRun where
  s : Mux.State
  nc : Nat := 0              -- connections handed out so far
  na : Nat := 0              -- Accept calls so far
  sendq : List Nat := []     -- connections in arrival order at routeConn's select
  recvq : List Nat := []     -- Accept calls in arrival order at the blocking select

def firstSome {α β : Type} (l : List α) (f : α → Option β) : Option β := l.findSome? f

/-- one enabled internal step, in a fixed priority order; none at quiescence -/
def mInternal (n : Nat) (r : MRun) : Option MRun :=
  let s := r.s
  let lids := List.range s.nextLid
  let conns := List.range r.nc
  let accs := List.range r.na
  let try1 (l : Mux.Label) : Option MRun := (Mux.step n s l).map fun s' => { r with s := s' }
  (try1 .runStep)
  <|> firstSome lids (fun l => try1 (.monFire l))
  <|> firstSome lids (fun l => try1 (.monDelete l))
  <|> firstSome conns (fun c => try1 (.readDone c))
  <|> firstSome conns (fun c => (Mux.step n s (.lookup c)).map fun s' => { r with s := s', sendq := r.sendq ++ [c] })
  <|> firstSome accs (fun t => (Mux.step n s (.accCheck t)).map fun s' =>
        match s'.acc t with
        | .wait _ => { r with s := s', recvq := r.recvq ++ [t] }
        | _ => { r with s := s' })
  <|> firstSome accs (fun t => try1 (.accDone t))
  <|> firstSome conns (fun c => try1 (.connClose c))
  <|> firstSome r.sendq (fun c => firstSome r.recvq (fun t => try1 (.deliver c t)))

def mSettle (n : Nat) : Nat → MRun → MRun
  | 0, r => r
  | fuel + 1, r => match mInternal n r with
    | none => r
    | some r' => mSettle n fuel r'

def showLErr : Option Mux.LErr → String
  | none => "nil"
  | some .closed => "closed"
  | some (.base t) => s!"base{t}"

/-- the observable events between two states -/
def mEvents (r0 r1 : MRun) : String :=
  let accs := (List.range r1.na).filterMap fun t =>
    if r0.s.acc t = r1.s.acc t then none else
    match r1.s.acc t with
    | .retErr _ e => some s!"a{t}=err:{showLErr e}"
    | .retConn _ c _ => some s!"a{t}=c{c}"
    | _ => none
  let cl := r1.s.closedLog.drop r0.s.closedLog.length |>.map fun c => s!"x{c}"
  let run := match r0.s.run, r1.s.run with
    | .returned _, _ => []
    | _, .returned e => [s!"run={match e with | none => "nil" | some t => s!"base{t}"}"]
    | _, _ => []
  let evs := accs ++ cl ++ run
  if evs.isEmpty then "-" else "+".intercalate evs

def mOp (n : Nat) (r : MRun) (tok : String) : Option (MRun × String) :=
  let settle (r' : MRun) (pre : String) : Option (MRun × String) :=
    let r2 := mSettle n 10000 r'
    let ev := mEvents r r2
    some (r2, if pre.isEmpty then ev else if ev = "-" then pre else pre ++ "+" ++ ev)
  let burst (rest : String) (monFirst : Bool) : Option (MRun × String) :=
    match rest.splitOn ":" with
    | [l, h] => do
      let lid ← l.toNat?
      let p ← Bytes.ofHex? h
      let s1 ← Mux.step n r.s (.closeCall lid)
      let s2 := if monFirst then
          let a := (Mux.step n s1 (.monFire lid)).getD s1
          (Mux.step n a (.monDelete lid)).getD a
        else s1
      let s' ← Mux.step n s2 (.route p)
      let pre := if s'.panics ≠ s2.panics then "panic" else
        match lookupRoute s'.routes p with
        | some l => s!"l{l}"
        | none => "l?"
      settle { r with s := s' } pre
    | _ => none
  match tok.toList with
  | 'R' :: h => do
    let p ← Bytes.ofHex? (String.ofList h)
    let s' ← Mux.step n r.s (.route p)
    let pre := if s'.panics ≠ r.s.panics then "panic" else
      match lookupRoute s'.routes p with
      | some l => s!"l{l}"
      | none => "l?"
    settle { r with s := s' } pre
  | 'A' :: l => do
    let lid ← (String.ofList l).toNat?
    let s' ← Mux.step n r.s (.acceptCall r.na lid)
    settle { r with s := s', na := r.na + 1 } ""
  | 'C' :: l => do
    let lid ← (String.ofList l).toNat?
    let s' ← Mux.step n r.s (.closeCall lid)
    settle { r with s := s' } ""
  | 'Q' :: rest => burst (String.ofList rest) false
  | 'q' :: rest => burst (String.ofList rest) true
  | ['X'] => do
    let s' ← Mux.step n r.s .cancel
    -- monitorContext also closes the base listener, whose Accept then fails
    let s' := (Mux.step n s' (.baseFail 0)).getD s'
    settle { r with s := s' } ""
  | 'F' :: t => do
    let tag ← (String.ofList t).toNat?
    let s' ← Mux.step n r.s (.baseFail tag)
    settle { r with s := s' } ""
  | ['N'] => do
    let s' ← Mux.step n r.s (.baseConn r.nc)
    settle { r with s := s', nc := r.nc + 1 } ""
  | 'W' :: rest =>
    match (String.ofList rest).splitOn ":" with
    | [c, h] => do
      let c ← c.toNat?
      let b ← Bytes.ofHex? h
      let s' ← Mux.step n r.s (.clientData c b)
      settle { r with s := s' } ""
    | _ => none
  | 'E' :: c => do
    let c ← (String.ofList c).toNat?
    let s' ← Mux.step n r.s (.clientClose c)
    settle { r with s := s' } ""
  | _ => none

/-- what becomes of connection c, and — once it was delivered — everything its acceptor reads after
    the client closed -/
def mFate (n : Nat) (sz : Nat → Nat) (r : MRun) (c : Nat) : String :=
  match r.s.accepted.find? (fun e => e.2.1 = c) with
  | some (lid, _, w) =>
    let d := r.s.cdata c
    let conn : Conn := { data := d.drop n, final := 0, attached := false, step := 0 }
    let big := fun _ => 1073741824
    let rd := if w then (newPrefixConn (d.take n) conn).readAll big sz else conn.readAll big sz
    s!"L{lid}:w{b01 w}:{showReads rd}"
  | none =>
    if r.s.closedLog.contains c then "closed"
    else match r.s.conn c with
      | .reading => "reading"
      | .sending _ _ => "offered"
      | _ => "other"

def runMux (n : Nat) (ops : List String) (sz : Nat → Nat) : String :=
  let rec go (r : MRun) (toks : List String) (acc : List String) : Option (MRun × List String) :=
    match toks with
    | [] => some (r, acc.reverse)
    | t :: ts => match mOp n r t with
      | none => none
      | some (r', ev) => go r' ts (ev :: acc)
  match go { s := Mux.init } ops [] with
  | none => "bad-schedule"
  | some (r, evs) =>
    "ev=" ++ "|".intercalate evs ++ " fin=" ++
      (if r.nc = 0 then "-" else " ".intercalate ((List.range r.nc).map (mFate n sz r)))

def handle (cmd : String) (a : List String) : Option String :=
  match cmd with
  | "mroute" => do
    let n ← natArg? "n" a
    let routes ← (arg? "routes" a).bind hexList
    let data ← hexArg? "data" a
    let chunks ← (arg? "chunks" a).bind Reader.parseSizes
    let final ← natArg? "final" a
    let att ← boolArg? "att" a
    let sizes ← (arg? "sizes" a).bind Reader.parseSizes
    let chunk := oracle chunks 1073741824
    let sz := oracle sizes 4096
    let c : Conn := { data := data, final := final, attached := att, step := 0 }
    match routeConnPure chunk n (mkRoutes routes) c with
    | .closed _ => pure "closed"
    | .toRoute lid c' => pure s!"L{lid} w=0 {showReads (c'.readAll chunk sz)}"
    | .toDefault pc => pure s!"L0 w=1 {showReads (pc.readAll chunk sz)}"
  | "hdr" => do
    let hdr ← hexArg? "h" a
    let bufs ← (arg? "bufs" a).bind hexList
    let sched ← arg? "sched" a
    pure (runHdr hdr bufs (if sched = "-" then [] else sched.splitOn ","))
  | "mux" => do
    let n ← natArg? "n" a
    let ops ← arg? "ops" a
    let sizes ← (arg? "sizes" a).bind Reader.parseSizes
    pure (runMux n (if ops = "-" then [] else ops.splitOn ",") (oracle sizes 4096))
  | _ => none

end Drpc.Driver.Migrate
