import Drpc.Driver.Util
import Drpc.Signal
import Drpc.Chan
/-
  line protocol for the drpcsignal primitives (C19): one request = one whole schedule

    sig  progs=<p0>|<p1>|<p2> sched=<digits>      Signal:  s<e> Set(error e; 0 = nil)  g Signal()  w Wait()
                                                           G Get()  E Err()  I IsSet()
    chan progs=<p0>|<p1>|<p2> sched=<digits>      Chan:    c Close()  m<n> Make(n)  g Get()  s Send()  r Recv()
                                                           f Full()
    sigcount / chancount progs=…                  number of complete schedules (see below)

  Goroutine i runs the operations of p_i (comma separated) one after the other; operation k of
  goroutine i is model thread 10·i+k.  A goroutine is *parked* at the start of each operation (before
  the fast-path load) and at every `drpcdebug.Point` of the Go code; the k-th digit of `sched` releases
  that goroutine, which then runs up to its next point, to the end of its program, or until it blocks
  (mutex, channel); goroutines that were blocked go on as soon as they can.  The table `pointOf`
  below is the explicit mapping  program counter ↔ point name.

  answer:  <status after release 1>,<…>,…  R <results of goroutine 0>|… C <channel>=<closed|open>…
  status = one token per goroutine joined with `/`: the point name it is parked at, `end`, `pan`
  (died in a panic) or `blk`.
  `…count`: the number of complete schedules in which only goroutines whose next step is enabled are
  released (never one that would block on the mutex), by exhaustive depth-first enumeration.
-/
namespace Drpc.Driver.Signal
open Drpc Drpc.Driver

/-! ### the mapping program counter ↔ scheduling point of signal.go / chan.go -/

/-- Signal: the `drpcdebug.Point` at which a thread with this program counter is parked
    (`op.start` is the harness's own point in front of every call) -/
def sigPointOf : Signal.PC → Option String
  | .start _ => some "op.start"
  | .sLock _ => some "signal.setSlow.enter"
  | .sRead _ => some "signal.setSlow.locked"
  | .sWriteCh _ _ => some "signal.setSlow.err"
  | .sStore _ _ => some "signal.setSlow.ch"
  | .sClose _ _ => some "signal.setSlow.stored"
  | .sUnlock _ _ => some "signal.setSlow.unlock"
  | .gFast _ => some "signal.Signal.fast"
  | .gLock _ => some "signal.signalSlow.enter"
  | .gRead _ => some "signal.signalSlow.locked"
  | .gStore _ _ => some "signal.signalSlow.made"
  | .gUnlock _ => some "signal.signalSlow.unlock"
  | .getRead => some "signal.Get.fast"
  | .errRead => some "signal.Err.fast"
  -- no point: sWriteErr (between .locked and .err), gMake (between .locked and .made),
  -- gSlowRead (after the unlock), wRecv (the blocking receive), results
  | _ => none

/-- Chan: same -/
def chanPointOf : Chan.PC → Option String
  | .start _ => some "op.start"
  | .dLock _ => some "chan.doSlow.enter"
  | .dRead _ => some "chan.doSlow.locked"
  | .dStore _ => some "chan.doSlow.store"
  | .dF _ => some "chan.doSlow.init"
  | .cClose => some "chan.Close.close"
  | .cGet _ => some "chan.Get.read"
  -- no point: dUnlock (deferred unlock), cSend/cRecv/cRecvW/cFull/cFullRecv (channel operations), results
  | _ => none

/-! ### a generic scheduler over either model -/

inductive Outcome where
  | running            -- not at a point, not finished (possibly blocked)
  | point (name : String)
  | done (result : String)
  | panic
deriving Repr

/-- what the scheduler needs to know about a model -/
structure Model (σ κ : Type) where
  step : σ → Nat → Option σ
  spawn : σ → Nat → κ → σ
  classify : σ → Nat → Outcome

structure G (κ : Type) where
  prog : List κ
  idx : Nat := 0
  parked : Bool := true
  fin : Bool := false
  dead : Bool := false
  results : List String := []

structure Run (σ κ : Type) where
  st : σ
  gs : List (G κ)

def tidOf (i k : Nat) : Nat := 10 * i + k

def setAt {α : Type} (l : List α) (i : Nat) (a : α) : List α := l.set i a

/-- advance goroutine `i` by one model step if it is released, alive and enabled -/
def advance {σ κ : Type} (m : Model σ κ) (r : Run σ κ) (i : Nat) : Option (Run σ κ) :=
  match r.gs[i]? with
  | none => none
  | some g =>
    if g.parked || g.fin then none else
    let t := tidOf i g.idx
    match m.step r.st t with
    | none => none
    | some st' =>
      match m.classify st' t with
      | .running => some { st := st', gs := setAt r.gs i g }
      | .point _ => some { st := st', gs := setAt r.gs i { g with parked := true } }
      | .panic => some { st := st', gs := setAt r.gs i { g with fin := true, dead := true, results := g.results ++ ["panic"] } }
      | .done res =>
        let g1 := { g with results := g.results ++ [res], idx := g.idx + 1 }
        match g.prog[g.idx + 1]? with
        | none => some { st := st', gs := setAt r.gs i { g1 with fin := true } }
        | some c => some { st := m.spawn st' (tidOf i (g.idx + 1)) c, gs := setAt r.gs i { g1 with parked := true } }

/-- run every released goroutine as far as it goes -/
def settle {σ κ : Type} (m : Model σ κ) : Nat → Run σ κ → Run σ κ
  | 0, r => r
  | fuel + 1, r =>
    match (List.range r.gs.length).findSome? (advance m r) with
    | some r' => settle m fuel r'
    | none => r

def release {σ κ : Type} (m : Model σ κ) (r : Run σ κ) (i : Nat) : Option (Run σ κ) :=
  match r.gs[i]? with
  | none => none
  | some g =>
    if !g.parked || g.fin then none
    else some (settle m 200 { r with gs := setAt r.gs i { g with parked := false } })

def status {σ κ : Type} (m : Model σ κ) (r : Run σ κ) : String :=
  "/".intercalate ((List.range r.gs.length).map fun i =>
    match r.gs[i]? with
    | none => "?"
    | some g =>
      if g.dead then "pan" else if g.fin then "end"
      else if g.parked then
        match m.classify r.st (tidOf i g.idx) with
        | .point n => n
        | _ => "?"
      else "blk")

def start {σ κ : Type} (m : Model σ κ) (st0 : σ) (progs : List (List κ)) : Run σ κ :=
  let idx := List.range progs.length
  let st := (idx.zip progs).foldl (fun st (ip : Nat × List κ) =>
    match ip.2.head? with
    | some c => m.spawn st (tidOf ip.1 0) c
    | none => st) st0
  { st := st, gs := progs.map fun p => { prog := p, fin := p.isEmpty, parked := !p.isEmpty } }

/-- is the next step of parked goroutine `i` enabled? -/
def enabled {σ κ : Type} (m : Model σ κ) (r : Run σ κ) (i : Nat) : Bool :=
  match r.gs[i]? with
  | none => false
  | some g => g.parked && !g.fin && (m.step r.st (tidOf i g.idx)).isSome

/-- number of complete schedules that release only enabled goroutines -/
def countSchedules {σ κ : Type} (m : Model σ κ) : Nat → Run σ κ → Nat
  | 0, _ => 0
  | fuel + 1, r =>
    let choices := (List.range r.gs.length).filter (enabled m r)
    if choices.isEmpty then 1
    else (choices.map fun i => match release m r i with
      | some r' => countSchedules m fuel r'
      | none => 0).sum

/-! ### Signal -/

def showErr : Option Signal.Val → String
  | none => "nil"
  | some 0 => "nil"
  | some n => s!"e{n}"

def rawCh : Signal.Ch → String
  | .none => "nil"
  | .sentinel => "sent"
  | .fresh i => s!"#{i}"

def sigClassify (s : Signal.State) (t : Nat) : Outcome :=
  match s.pc t with
  | .doneSet _ ok => .done (if ok then "t" else "f")
  | .doneSignal c => .done ("ch:" ++ rawCh c)
  | .doneWait => .done "w"
  | .doneGet x ok => .done (s!"{showErr x}/{if ok then "t" else "f"}")
  | .doneErr x => .done (showErr x)
  | .doneIsSet b => .done (if b then "t" else "f")
  | .panicked _ => .panic
  | p => match sigPointOf p with
    | some n => .point n
    | none => .running

def sigModel : Model Signal.State Signal.Call :=
  { step := Signal.step, spawn := fun s t c => s.setPc t (.start c), classify := sigClassify }

def parseSigOp (s : String) : Option Signal.Call :=
  match s.toList with
  | ['g'] => some .signal
  | ['w'] => some .wait
  | ['G'] => some .get
  | ['E'] => some .err
  | ['I'] => some .isSet
  | 's' :: ds => (String.ofList ds).toNat?.map .set
  | _ => none

/-! ### Chan -/

def chanClassify (s : Chan.State) (t : Nat) : Outcome :=
  match s.pc t with
  | .doneClose _ => .done "ok"
  | .doneMake _ => .done "ok"
  | .doneGet _ c => .done ("ch:" ++ rawCh c)
  | .doneSend _ => .done "ok"
  | .doneRecv _ => .done "ok"
  | .doneFull _ b => .done (if b then "t" else "f")
  | .panicked _ _ => .panic
  | p => match chanPointOf p with
    | some n => .point n
    | none => .running

def chanModel : Model Chan.State Chan.Op :=
  { step := Chan.step, spawn := fun s t c => s.setPc t (.start c), classify := chanClassify }

def parseChanOp (s : String) : Option Chan.Op :=
  match s.toList with
  | ['c'] => some .close
  | ['g'] => some .get
  | ['s'] => some .send
  | ['r'] => some .recv
  | ['f'] => some .full
  | 'm' :: ds => (String.ofList ds).toNat?.map .make
  | _ => none

/-! ### rendering -/

/-- rename the fresh channels `#i` in order of first appearance (goroutine by goroutine) -/
def renameChans (results : List (List String)) : List (List String) × List (String × String) :=
  let step := fun (acc : List (List String) × List (String × String)) (rs : List String) =>
    let (outs, tbl) := acc
    let (rs', tbl') := rs.foldl (fun (a : List String × List (String × String)) (r : String) =>
      if r.startsWith "ch:#" then
        let raw := (r.drop 3).toString
        match a.2.lookup raw with
        | some n => (a.1 ++ ["ch:" ++ n], a.2)
        | none => let n := s!"c{a.2.length}"; (a.1 ++ ["ch:" ++ n], a.2 ++ [(raw, n)])
      else (a.1 ++ [r], a.2)) ([], tbl)
    (outs ++ [rs'], tbl')
  results.foldl step ([], [])

def parseProgs {κ : Type} (parseOp : String → Option κ) (s : String) : Option (List (List κ)) :=
  (s.splitOn "|").mapM fun p =>
    if p = "-" then some [] else (p.splitOn ",").mapM parseOp

def parseSched (s : String) : Option (List Nat) :=
  if s = "-" then some [] else s.toList.mapM fun c => if c.isDigit then some (c.toNat - '0'.toNat) else none

def runSched {σ κ : Type} (m : Model σ κ) (r0 : Run σ κ) (sched : List Nat) : Option (Run σ κ × List String) :=
  sched.foldlM (fun (acc : Run σ κ × List String) i => do
    let r ← release m acc.1 i
    pure (r, acc.2 ++ [status m r])) (r0, [])

def render {σ κ : Type} (r : Run σ κ) (trace : List String) (closedOf : String → String) (extra : List String) : String :=
  let (res, tbl) := renameChans (r.gs.map (·.results))
  let resS := "|".intercalate (res.map fun rs => if rs.isEmpty then "-" else ",".intercalate rs)
  let chS := tbl.map (fun p => s!"{p.2}={closedOf p.1}") ++ extra
  s!"{if trace.isEmpty then "-" else ",".intercalate trace} R {resS} C {if chS.isEmpty then "-" else ",".intercalate chS}"

def freshId (raw : String) : Nat := ((raw.drop 1).toString.toNat?).getD 0

def handle (cmd : String) (a : List String) : Option String :=
  match cmd with
  | "sig" => do
    let progs ← parseProgs parseSigOp (← arg? "progs" a)
    let sched ← parseSched (← arg? "sched" a)
    match runSched sigModel (start sigModel Signal.init progs) sched with
    | none => pure "bad-sched"
    | some (r, trace) =>
      pure (render r trace (fun raw => if r.st.isClosed (.fresh (freshId raw)) then "closed" else "open") [])
  | "chan" => do
    let progs ← parseProgs parseChanOp (← arg? "progs" a)
    let sched ← parseSched (← arg? "sched" a)
    match runSched chanModel (start chanModel Chan.init progs) sched with
    | none => pure "bad-sched"
    | some (r, trace) =>
      pure (render r trace (fun raw => if r.st.isClosed (.fresh (freshId raw)) then "closed" else "open") [])
  | "sigcount" => do
    let progs ← parseProgs parseSigOp (← arg? "progs" a)
    pure (toString (countSchedules sigModel 200 (start sigModel Signal.init progs)))
  | "chancount" => do
    let progs ← parseProgs parseChanOp (← arg? "progs" a)
    pure (toString (countSchedules chanModel 200 (start chanModel Chan.init progs)))
  | _ => none

end Drpc.Driver.Signal
