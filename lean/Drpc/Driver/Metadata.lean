import Drpc.Driver.Util
import Drpc.Metadata
/- line protocol for the metadata codec and NewServerStream's metadata scoping (C11) -/
namespace Drpc.Driver.Metadata
open Drpc Drpc.Driver Drpc.Metadata

/-- `-` → []; otherwise `hexkey=hexvalue,…` (`-` for an empty string) -/
def parsePairs (s : String) : Option Pairs :=
  if s = "-" then some [] else
  (s.splitOn ",").mapM fun tok =>
    match tok.splitOn "=" with
    | [a, b] => do let k ← Bytes.ofHex? a; let v ← Bytes.ofHex? b; pure (k, v)
    | _ => none

def showPairs (m : Pairs) : String :=
  if m.isEmpty then "-" else ",".intercalate (m.map fun kv => s!"{kv.1.toHex}={kv.2.toHex}")

/-- a Go map is shown sorted by key, each key with the value of its last write -/
def showMap (m : Pairs) : String := showPairs m.canon

def showDR : DR → String
  | .ok m => s!"ok {showMap m}"
  | .invalid => "err:invalid"
  | .tooLong => "err:toolong"
  | .panic => "panic"

/-- `kind:sid:datahex,…` -/
def parsePkts (s : String) : Option (List Pkt) :=
  if s = "-" then some [] else
  (s.splitOn ",").mapM fun tok =>
    match tok.splitOn ":" with
    | [a, b, c] => do
      let kind ← a.toNat?
      let sid ← b.toNat?
      let data ← Bytes.ofHex? c
      pure { kind := kind, sid := BitVec.ofNat 64 sid, data := data }
    | _ => none

def showMd : Option Pairs → String
  | none => "none"
  | some m => showMap m

def showCall : Call → String
  | .served sid rpc md => s!"S[{sid.toNat}|{rpc.toHex}|{showMd md}]"
  | .failed false => "E[invalid]"
  | .failed true => "E[toolong]"
  | .waiting => "W"
  | .panicked => "panic"

def handle (cmd : String) (a : List String) : Option String :=
  match cmd with
  | "meta.entry" => do
    let k ← hexArg? "k" a
    let v ← hexArg? "v" a
    pure (appendEntry k v).toHex
  | "meta.encode" => do
    -- `m`: the Go map (sorted, distinct keys); `b`: what Encode returned for it.  The answer is `ok n=…`
    -- iff `b` is the model's encoding of some ordering of exactly the entries of `m`.
    let m ← (arg? "m" a).bind parsePairs
    let b ← hexArg? "b" a
    match decode b with
    | .ok l =>
      if l.length ≠ m.length then pure s!"differs:entries={l.length}"
      else if l.canon ≠ m then pure s!"differs:map={showMap l}"
      else if encode l ≠ b then pure "differs:bytes"
      else pure s!"ok n={l.length}"
    | r => pure s!"differs:{showDR r}"
  | "meta.decode" => do
    let b ← hexArg? "b" a
    pure (showDR (decode b))
  | "meta.serve" => do
    let p ← (arg? "p" a).bind parsePkts
    pure (" ".intercalate ((serve p).map showCall))
  | _ => none

end Drpc.Driver.Metadata
