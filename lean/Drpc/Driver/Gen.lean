import Drpc.Driver.Util
import Drpc.Gen
/- line protocol for the generator / mux model (C17) -/
namespace Drpc.Driver.Gen
open Drpc Drpc.Driver Drpc.Gen

def str (i : Ident) : String := String.ofList i

def dashList (s : String) (sep : String) : List String :=
  if s = "-" || s = "" then [] else s.splitOn sep

def identOf (s : String) : Ident := if s = "-" then [] else s.toList

def parseMethod (s : String) : Option Method :=
  match s.splitOn "/" with
  | [p, g, fl, i, o] =>
    match fl.toList with
    | [c, d] => some { proto := p.toList, go := g.toList, cs := c == '1', ss := d == '1', inTy := i.toList, outTy := o.toList }
    | _ => none
  | _ => none

def parseService (s : String) : Option Service :=
  match s.splitOn ":" with
  | [p, g, ms] => do
    let ms ← (dashList ms ",").mapM parseMethod
    pure { proto := p.toList, go := g.toList, methods := ms }
  | _ => none

def parseFile (s : String) : Option FileD :=
  match s.splitOn "|" with
  | [id, pkg, svcs] => do
    let svcs ← (dashList svcs ";").mapM parseService
    pure { ident := id.toList, pkg := identOf pkg, services := svcs }
  | _ => none

def commaSep (xs : List Ident) : String := ",".intercalate (xs.map str)

def renderSig (s : Sig) : String := s!"{str s.name}({commaSep s.params})({commaSep s.results})"

def renderElem : Elem → String
  | .embed t => str t
  | .meth s => renderSig s

def renderDecl : Decl → String
  | .iface n es => s!"T:{str n}=interface\{{";".intercalate (es.map renderElem)}}"
  | .struct n fs => s!"T:{str n}=struct\{{";".intercalate (fs.map str)}}"
  | .func s => s!"F:{renderSig s}"
  | .meth r s => s!"M:({str r}){renderSig s}"
  | .call r m ns rpc => s!"C:{str r}.{str m}:{if ns then "NewStream" else "Invoke"}:{str rpc}"
  | .numMethods r n => s!"N:{str r}:{n}"
  | .descCase r i rpc enc retNil ifc m args =>
    let call := s!"srv.({str ifc}).{str m}({commaSep args})"
    let ret := if retNil then s!"nil;{call}" else call
    s!"D:{str r}#{i}:{str rpc}:{str enc}\{}:recv(interface\{},Context,interface\{},interface\{})(Message,error)|return[{ret}]:{str ifc}.{str m}:true"
  | .descDefault r => s!"D:{str r}#default::nil:nil:nil:false"

def sortStrings (xs : List String) : List String := (xs.toArray.qsort (· < ·)).toList

def argOfChar : Char → Option Arg
  | 's' => some .srv | 'c' => some .ctx | 'm' => some .msg | 't' => some .stream | _ => none

def argLetter : Arg → String
  | .srv => "s" | .ctx => "c" | .msg => "m" | .stream => "t"

def showIn1 : Mux.In1 → String
  | .stream => "stream"
  | .param _ .stream => "stream"
  | .param i a => s!"{argLetter a}@{i}"

def showSupplied : Mux.Supplied → String
  | .stream => "stream"
  | .message a => s!"msg:{argLetter a}"

def handle (cmd : String) (a : List String) : Option String :=
  match cmd with
  | "gen" => do
    let lib ← match arg? "lib" a with
      | some "g" => some Lib.google | some "o" => some Lib.gogo | some "c" => some Lib.custom | _ => none
    let json ← boolArg? "json" a
    let others := (dashList ((arg? "others" a).getD "-") ",").map String.toList
    let files ← (a.filterMap (kv? "f")).mapM parseFile
    let c : Conf := { lib := lib, json := json }
    let p : Pkg := { files := files, others := others }
    let decls := sortStrings ((genPkg c p).map renderDecl)
    let labels := collisionLabels c p
    pure (" ".intercalate (decls ++ ["coll="]) ++ (if labels.isEmpty then "-" else ",".intercalate labels)
          ++ " free=" ++ b01 (decide (CollisionFree c p)))
  | "mux.reg" => do
    let ins ← (identOf ((arg? "ins" a).getD "-")).mapM argOfChar
    let out ← natArg? "out" a
    match Mux.registerOne ⟨ins, out⟩ with
    | .err => pure "err"
    | .panic => pure "panic"
    | .ok d =>
      let hand := match Mux.handleArgs d with
        | none => "panic"
        | some (x, y) => s!"{showSupplied x},{showSupplied y}"
      pure s!"ok unitary={b01 d.unitary} in1={showIn1 d.in1} in2={b01 d.in2} hand={hand}"
  | _ => none

end Drpc.Driver.Gen
