import Drpc.Driver.Util
import Drpc.Driver.Metadata
import Drpc.Conn.Request
/-
  line protocol for the bytes a client call puts on the wire (Props/Request.lean)

    conn.invoke    sid=<n> rpc=<hex> md=<hexkey=hexvalue,…|-> data=<hex> split=<int>
    conn.newstream sid=<n> rpc=<hex> md=<hexkey=hexvalue,…|-> split=<int>
    conn.abandoned sid=<n> md=<hexkey=hexvalue,…|-> cancel=<0|1> split=<int>

  Answer: the hex of the whole byte stream a fresh stream `sid` writes for that call (`-` when empty):
  `encodeAll split (invokePackets …)` etc. — computed by `encodeAllFast`, which is `encodeAll`
  (Lemmas/Request.lean `encodeAllFast_eq`) without the quadratic re-measuring of the payload.
  `md` is the metadata map as the list of pairs in the order `drpcmetadata.Encode` iterates them (the Go
  side uses at most one pair, so the order is determined); `-` is the empty string / the empty map.  `split` is `drpcstream.Options.SplitSize` as passed (0 ↦ 65536,
  negative ↦ no splitting).
-/
namespace Drpc.Driver.Request
open Drpc Drpc.Driver Drpc.Conn

def sidArg? (a : List String) : Option U64 := (natArg? "sid" a).map (BitVec.ofNat 64)

def handle (cmd : String) (a : List String) : Option String :=
  match cmd with
  | "conn.invoke" => do
    let sid ← sidArg? a
    let rpc ← hexArg? "rpc" a
    let md ← (arg? "md" a).bind Metadata.parsePairs
    let data ← hexArg? "data" a
    let split ← intArg? "split" a
    pure (encodeAllFast split (invokePackets sid rpc md data)).toHex
  | "conn.newstream" => do
    let sid ← sidArg? a
    let rpc ← hexArg? "rpc" a
    let md ← (arg? "md" a).bind Metadata.parsePairs
    let split ← intArg? "split" a
    pure (encodeAllFast split (newStreamPackets sid rpc md)).toHex
  | "conn.abandoned" => do
    let sid ← sidArg? a
    let md ← (arg? "md" a).bind Metadata.parsePairs
    let cancel ← boolArg? "cancel" a
    let split ← intArg? "split" a
    pure (encodeAllFast split (abandonedPackets sid md cancel)).toHex
  | _ => none

end Drpc.Driver.Request
