import Drpc.Driver.Util
import Drpc.Pool
import Drpc.PoolHeap
/-
  line protocol for the connection pool (C15)

    pool cap=<int> kcap=<int> exp=<0|1> ops=<tok,tok,…>

  tokens (keys 0‥2, connections 0‥7 are single digits; entry ids are decimal, in `Put` order):
    P<k><v> Put(k, v)      T<k> Take(k)          C Close()
    F<e>    the clock reaches the deadline of entry e: the timers of all entries ≤ e that have not
            been reached yet fire, oldest first (those that are still armed)
    X<e>    the callback of e performs val.Close()      R<e> the callback of e runs p.removeEntry
    E<v>    connection v closes by itself   B<v> v becomes blocked   U<v> v becomes unblocked
    <api>@<n>/<e>/<f1.f2…|->   the API call P/T/C with a window inside it: at its n-th call into a
            connection the clock passed the deadlines up to entry e's while the call held p.mu; f1.f2…
            are the entries whose timer fired in the window.  Such a timer had not been read by the
            call before (Stop() would have stopped it), the callback cannot do anything to the pool
            before the call returns, so the call is equivalent to: fire f1, fire f2, …, the call, clock
            := deadline of e (a timer the model still has armed then is reported as `+latef…`, one
            reported as fired that the model does not have armed as `!notarmed…`).
  answer: one observation per step, joined with `;` — `<out>~<dump>`, where the dump is both list
  walks with both stored counts and, per connection, closed/closes-by-pool/closes-by-callback.
-/
namespace Drpc.Driver.Pool
open Drpc Drpc.Driver

def nKeys : Nat := 3
def nConns : Nat := 8

def showVals (vs : List Nat) : String := String.join (vs.map toString)

/-- connections that have been closed by somebody: `v=closed.byPool.byCallback` -/
def showConns (conns : Nat → Pool.Conn) : String :=
  let xs := (List.range nConns).filterMap fun v =>
    let c := conns v
    if c.closed || c.poolCloses != 0 || c.cbCloses != 0 then
      some s!"{v}={b01 c.closed}.{c.poolCloses}.{c.cbCloses}"
    else none
  if xs.isEmpty then "-" else ",".intercalate xs

/-- observation of the list-level model -/
def dumpL (s : Pool.State) : String :=
  let vals := fun (l : Pool.KList) => showVals (l.items.map fun e => (s.ents e).val)
  let g := s!"g:{vals s.order}#{s.order.count}"
  let ks := (List.range nKeys).map fun k =>
    match s.locals k with
    | none => s!"{k}:-"
    | some l => s!"{k}:{vals l}#{l.count}"
  g ++ "|" ++ "|".intercalate ks ++ "|c:" ++ showConns s.conns

/-- observation of the pointer-level model (walks follow the `next` pointers) -/
def dumpH (s : PoolHeap.State) : String :=
  let vals := fun (w : PoolHeap.Which) (h : Option Nat) =>
    showVals ((PoolHeap.walk s.ents w (s.next + 1) h).map fun e => (s.ents.get e).val)
  let g := s!"g:{vals .g s.order.head}#{s.order.count}"
  let ks := (List.range nKeys).map fun k =>
    match s.locals k with
    | none => s!"{k}:-"
    | some l => s!"{k}:{vals .l l.head}#{l.count}"
  g ++ "|" ++ "|".intercalate ks ++ "|c:" ++ showConns s.conns

def showOut : Pool.Out → String
  | .done => "ok"
  | .miss => "miss"
  | .taken _ v => s!"v{v}"
  | .panic => "panic"
  | .stuck => "stuck"

/-- expiration in clock units; every `Put` is preceded by one unit of sleep so that deadlines are distinct -/
def expiry : Nat := 1000

structure DState where
  l : Pool.State
  h : PoolHeap.State
  now : Nat := 0
  deadlines : List Nat := []   -- by entry id
  ticked : Nat := 0            -- entries 0 ‥ ticked-1 have had their deadline reached

def digit? (c : Char) : Option Nat := if c.isDigit then some (c.toNat - '0'.toNat) else none

def stepBoth (cfg : Pool.Cfg) (d : DState) (op : Pool.Op) : DState × Pool.Out × Pool.Out :=
  let (l', o1) := Pool.step cfg d.l op
  let (h', o2) := PoolHeap.step cfg d.h op
  ({ d with l := l', h := h' }, o1, o2)

/-- the clock advances to `target`: the timers whose deadline is reached fire, oldest first (deadlines
    increase with the entry id); returns the ids that fired in either model -/
def advance (cfg : Pool.Cfg) (d : DState) (target : Nat) : DState × List Nat × List Nat :=
  let due := (List.range d.deadlines.length).filter fun i =>
    i ≥ d.ticked ∧ d.deadlines.getD i 0 ≤ target
  let (d', fl, fh) := due.foldl (fun (acc : DState × List Nat × List Nat) i =>
    let (d, fl, fh) := acc
    let firedL := (d.l.ents i).exp == .armed
    let firedH := (d.h.ents.get i).exp == .armed
    let (d', _, _) := stepBoth cfg d (.fire i)
    (d', if firedL then fl ++ [i] else fl, if firedH then fh ++ [i] else fh)) (d, [], [])
  ({ d' with now := max d.now target, ticked := d.ticked + due.length }, fl, fh)

def showFired (xs : List Nat) : String := "f" ++ ".".intercalate (xs.map toString)

/-- `F<e>`: sleep until the deadline of entry e (nothing happens when e does not exist yet) -/
def tick (cfg : Pool.Cfg) (d : DState) (e : Nat) : DState × String × String :=
  match d.deadlines[e]? with
  | none => (d, showFired [], showFired [])
  | some t =>
    let (d', fl, fh) := advance cfg d (max d.now t)
    (d', showFired fl, showFired fh)

/-- `P<k><v>`: sleep one unit, then `Put` -/
def putStep (cfg : Pool.Cfg) (d : DState) (k v : Nat) : DState × String × String :=
  let (d1, fl, fh) := advance cfg d (d.now + 1)
  let n0 := d1.l.next
  let (d2, o1, o2) := stepBoth cfg d1 (.put k v)
  let d3 := if d2.l.next > n0 then { d2 with deadlines := d2.deadlines ++ [d2.now + expiry] } else d2
  let pre := fun (xs : List Nat) => if xs.isEmpty then "" else showFired xs ++ "+"
  (d3, pre fl ++ showOut o1, pre fh ++ showOut o2)

structure Mid where
  n : Nat
  e : Nat
  fired : List Nat

def parseMid (s : String) : Option Mid :=
  match s.splitOn "/" with
  | [n, e, f] => do
    let fl ← if f = "-" then some [] else (f.splitOn ".").mapM String.toNat?
    pure { n := ← n.toNat?, e := ← e.toNat?, fired := fl }
  | _ => none

/-- an API call during which the clock passed the deadlines up to entry `m.e`'s -/
def midStep (cfg : Pool.Cfg) (d : DState) (op : Pool.Op) (m : Mid) : DState × String × String :=
  let (d0, fl0, fh0) := match op with
    | .put _ _ => advance cfg d (d.now + 1)
    | _ => (d, [], [])
  let (d1, badL, badH) := m.fired.foldl (fun (acc : DState × List Nat × List Nat) i =>
    let (d, bl, bh) := acc
    let aL := (d.l.ents i).exp == .armed && decide (i < d.l.next)
    let aH := (d.h.ents.get i).exp == .armed && decide (i < d.h.next)
    let (d', _, _) := stepBoth cfg d (.fire i)
    (d', if aL then bl else bl ++ [i], if aH then bh else bh ++ [i])) (d0, [], [])
  let n0 := d1.l.next
  let (d2, o1, o2) := stepBoth cfg d1 op
  let t := (d2.deadlines[m.e]?).getD d2.now
  let (d3, ll, lh) := advance cfg d2 (max d2.now t)
  let d4 := match op with
    | .put _ _ => if d3.l.next > n0 then { d3 with deadlines := d3.deadlines ++ [d3.now + expiry] } else d3
    | _ => d3
  let pre := fun (xs : List Nat) => if xs.isEmpty then "" else showFired xs ++ "+"
  let post := fun (bad late : List Nat) =>
    (if bad.isEmpty then "" else "!notarmed" ++ ".".intercalate (bad.map toString)) ++
    (if late.isEmpty then "" else "+late" ++ showFired late)
  (d4, pre fl0 ++ showOut o1 ++ post badL ll, pre fh0 ++ showOut o2 ++ post badH lh)

def parseOp (tok : String) : Option (Sum Pool.Op Nat) :=
  match tok.toList with
  | ['P', k, v] => do pure (.inl (.put (← digit? k) (← digit? v)))
  | ['T', k] => do pure (.inl (.take (← digit? k)))
  | ['C'] => some (.inl .close)
  | ['E', v] => do pure (.inl (.envClose (← digit? v)))
  | ['B', v] => do pure (.inl (.block (← digit? v)))
  | ['U', v] => do pure (.inl (.unblock (← digit? v)))
  | 'F' :: rest => do pure (.inr (← (String.ofList rest).toNat?))
  | 'X' :: rest => do pure (.inl (.cbClose (← (String.ofList rest).toNat?)))
  | 'R' :: rest => do pure (.inl (.cbRemove (← (String.ofList rest).toNat?)))
  | _ => none

def obs (d : DState) (outL outH : String) : String :=
  let a := outL ++ "~" ++ dumpL d.l
  let b := outH ++ "~" ++ dumpH d.h
  if a = b then a else a ++ "!HEAP:" ++ b

def runScenario (cfg : Pool.Cfg) (toks : List String) : Option String := do
  let mut d : DState := { l := Pool.init, h := PoolHeap.init }
  let mut res : List String := []
  for tok in toks do
    if let [base, ms] := tok.splitOn "@" then
      let m ← parseMid ms
      match ← parseOp base with
      | .inl op =>
        match op with
        | .put _ _ | .take _ | .close =>
          let (d', o1, o2) := midStep cfg d op m
          d := d'
          res := obs d o1 o2 :: res
        | _ => none
      | .inr _ => none
      continue
    match ← parseOp tok with
    | .inl (.put k v) =>
      let (d', o1, o2) := putStep cfg d k v
      d := d'
      res := obs d o1 o2 :: res
    | .inl op =>
      let (d', o1, o2) := stepBoth cfg d op
      d := d'
      res := obs d (showOut o1) (showOut o2) :: res
    | .inr e =>
      let (d', f1, f2) := tick cfg d e
      d := d'
      res := obs d f1 f2 :: res
  pure (";".intercalate res.reverse)

def handle (cmd : String) (a : List String) : Option String :=
  match cmd with
  | "pool" => do
    let cap ← intArg? "cap" a
    let kcap ← intArg? "kcap" a
    let exp ← boolArg? "exp" a
    let ops ← arg? "ops" a
    let toks := if ops = "-" then [] else ops.splitOn ","
    runScenario { capacity := cap, keyCapacity := kcap, expiration := exp } toks
  | _ => none

end Drpc.Driver.Pool
