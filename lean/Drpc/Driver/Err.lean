import Drpc.Driver.Util
import Drpc.ErrRpc
/-
  line protocol for the error codec / code extraction / handler-outcome model (C10)

  byte spec   `-` | seg(,seg)*      seg = HEX | HEX*COUNT
  chain       tok(/tok)*            outermost first, the last token is the terminal
     wrappers   C<code> drpcerr.WithCode   X<code> custom Code() type   E errs.Wrap   P<i> class i .Wrap
                F fmt.Errorf("w: %w")   A custom Cause()   U custom Unwrap()   D custom Cause()+Unwrap()
                R custom Cause()=nil + Unwrap()        each optionally followed by ^N (N copies)
     terminals  L:<spec> errors.New   NA / NU custom Cause()/Unwrap() returning nil
                SA / SU value returning itself   K two values pointing at each other
  digest      hex when ≤ 48 bytes, else len/fnv-1a/head/tail
-/
namespace Drpc.Driver.Err
open Drpc Drpc.Driver

/-- tail-recursive hex parser -/
def hexLoop : List Char → Array Byte → Option (Array Byte)
  | [], acc => some acc
  | [_], _ => none
  | a :: b :: rest, acc =>
    match hexVal a, hexVal b with
    | some x, some y => hexLoop rest (acc.push (BitVec.ofNat 8 (x * 16 + y)))
    | _, _ => none

def pushN (seg : Array Byte) : Nat → Array Byte → Array Byte
  | 0, acc => acc
  | n + 1, acc => pushN seg n (acc ++ seg)

def parseSpec (s : String) : Option Bytes :=
  if s = "-" then some [] else
  ((s.splitOn ",").foldlM (fun (acc : Array Byte) (seg : String) =>
    match seg.splitOn "*" with
    | [h] => hexLoop h.toList acc
    | [h, k] => do
      let b ← hexLoop h.toList #[]
      let n ← k.toNat?
      pure (pushN b n acc)
    | _ => none) #[]).map Array.toList

def fnv (b : Bytes) : UInt64 :=
  b.foldl (fun h x => (h ^^^ x.toNat.toUInt64) * 1099511628211) 14695981039346656037

def digest (b : Bytes) : String :=
  if b.length ≤ 48 then b.toHex
  else s!"len={b.length},fnv={(fnv b).toNat},head={Bytes.toHex (b.take 16)},tail={Bytes.toHex (b.drop (b.length - 16))}"

def classes : Array Bytes :=
  #[asciiBytes "drpc", asciiBytes "internal error", asciiBytes "protocol error", asciiBytes "closed", []]

def decoy : Err := .coded 424242#64 (.leaf (asciiBytes "decoy"))

def parseTerminal (t : String) : Option Err :=
  if t.startsWith "L:" then (parseSpec (t.drop 2).toString).map Err.leaf
  else match t with
    | "NA" => some .causeNil
    | "NU" => some .unwrapNil
    | "SA" => some .selfCause
    | "SU" => some .selfUnwrap
    | "K" => some (.loop2 false)
    | _ => none

def applyTok (t : String) (e : Err) : Option Err :=
  match t.toList with
  | 'C' :: r => (String.ofList r).toNat?.map fun c => withCode' e (BitVec.ofNat 64 c)
  | 'X' :: r => (String.ofList r).toNat?.map fun c => Err.coded (BitVec.ofNat 64 c) e
  | ['E'] => some (errsWrap none e)
  | 'P' :: r => do
    let i ← (String.ofList r).toNat?
    let c ← classes[i]?
    pure (errsWrap (some c) e)
  | ['F'] => some (.fmtW e)
  | ['A'] => some (.causeW e)
  | ['U'] => some (.unwrapW e)
  | ['D'] => some (.both e decoy)
  | ['R'] => some (.bothNilCause e)
  | _ => none

def applyN (t : String) : Nat → Err → Option Err
  | 0, e => some e
  | n + 1, e => (applyTok t e).bind (applyN t n)

def parseChain (s : String) : Option Err :=
  match (s.splitOn "/").reverse with
  | [] => none
  | term :: wraps => do
    let e ← parseTerminal term
    wraps.foldlM (fun (acc : Err) (tok : String) =>
      match tok.splitOn "^" with
      | [t] => applyTok t acc
      | [t, k] => do let n ← k.toNat?; applyN t n acc
      | _ => none) e

def parseOptChain (s : String) : Option (Option Err) :=
  if s = "-" then some none else (parseChain s).map some

def parseOps (s : String) : Option (List HOp) :=
  if s = "-" then some [] else
  (s.splitOn ";").mapM fun (t : String) =>
    if t = "c" then some HOp.closeSend
    else if t.startsWith "s:" then (parseSpec (t.drop 2).toString).map HOp.send
    else none

def parseOut (s : String) : Option (Option (Except Err Bytes)) :=
  if s = "nil" then some none
  else if s.startsWith "ok:" then (parseSpec (s.drop 3).toString).map fun b => some (.ok b)
  else if s.startsWith "err:" then (parseChain (s.drop 4).toString).map fun e => some (.error e)
  else none

def showRecv : Recv → String
  | .msg d => "m:" ++ digest d
  | .eof => "eof"
  | .error t c => s!"e:{c.toNat}:{digest t}"
  | .blocked => "blocked"

def handle (cmd : String) (a : List String) : Option String :=
  match cmd with
  | "err.chain" => do
    let e ← (arg? "chain" a).bind parseChain
    pure s!"code={(code (some e)).toNat} text={digest e.text} marshal={digest (marshalError e)}"
  | "err.unmarshal" => do
    let d ← (arg? "data" a).bind parseSpec
    let e := unmarshalError d
    let coded := match e with | .coded _ _ => true | _ => false
    pure s!"text={digest e.text} code={(code (some e)).toNat} coded={b01 coded}"
  | "err.rpc" => do
    let cc ← boolArg? "cc" a
    let mf ← boolArg? "mf" a
    let n ← natArg? "nrecv" a
    let h ← arg? "h" a
    let ops ← (arg? "ops" a).bind parseOps
    let ret ← (arg? "ret" a).bind parseOptChain
    let hd : Handler ←
      if h = "script" then some (scriptHandler ops ret)
      else if h = "mux" then do
        let entry ← (arg? "entry" a).bind fun s =>
          if s = "u" then some MuxEntry.unknown else if s = "m" then some .message else if s = "s" then some .stream else none
        let rpc ← (arg? "rpc" a).bind parseSpec
        let req ← (arg? "req" a).bind parseOptChain
        let out ← (arg? "out" a).bind parseOut
        some (muxHandleRPC entry rpc req { ops := ops, out := out, err := ret })
      else none
    let c := clientOf hd cc
    pure (" ".intercalate ((List.range n).map fun i => showRecv (c.recv mf i)))
  | _ => none

end Drpc.Driver.Err
