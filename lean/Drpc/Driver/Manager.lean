import Drpc.Driver.Util
import Drpc.Manager.Proto
/- line protocol: `mgrtrace ev=<e1>,<e2>,…` → `ok n=<len>` | `reject i=<index> ev=<event>` -/
namespace Drpc.Driver.Manager
open Drpc.Manager Drpc.Driver

def parseEv (s : String) : Option Ev :=
  match s.splitOn ":" with
  | ["sem.acq", _] => some .semAcq
  | ["sem.rel", _] => some .semRel
  | ["prev.none", _] => some .prevNone
  | ["prev.done", n] => n.toNat?.map .prevDone
  | ["stream.new.offer", n] => n.toNat?.map .newOffer
  | ["stream.new.retract", n] => n.toNat?.map .newRetract
  | ["stream.new.begin", n] => n.toNat?.map .newBegin
  | ["stream.new.end", n] => n.toNat?.map .newEnd
  | ["rd.deliver", n] => n.toNat?.map .deliver
  | ["rd.drop", n] => n.toNat?.map .drop
  | ["rd.queue", n] => n.toNat?.map .queue
  | ["rd.wait", n] => n.toNat?.map .wait
  | ["rd.orphan", n] => n.toNat?.map .orphan
  | ["term", _] => some .term
  | ["tport.close", _] => some .tportClose
  | ["sfin.recv", n] => n.toNat?.map .sfinRecv
  | _ => none

def handle (cmd : String) (a : List String) : Option String :=
  match cmd with
  | "mgrtrace" => do
    let evs := ((arg? "ev" a).getD "").splitOn "," |>.filter (· ≠ "")
    let es ← evs.mapM parseEv
    match firstReject {} es 0 with
    | none => pure s!"ok n={es.length}"
    | some i => pure s!"reject i={i} ev={evs.getD i "?"}"
  | _ => none

end Drpc.Driver.Manager
