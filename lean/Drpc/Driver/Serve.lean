import Drpc.Driver.Util
import Drpc.Server.Serve
/-
  line protocol for the Serve / Tracker model:
  `serve ops=<op>,<op>,…` with op ∈ connect | burst (two connections at once) | cancel | accepterr:temp | accepterr:perm | end:<conn>
  After every op the model runs every thread until none is enabled (timer branch of the sleep) and
  prints `[ret=<-|nil|err> returned=<0|1> closes=<n> served=<ids> ended=<ids>]`.
  `cancel` also lets every running ServeOne return (the assumption of the progress theorem: a
  ServeOne whose context is done returns — that is the manager's property).
-/
namespace Drpc.Driver.Serve
open Drpc.Server Drpc.Driver

def settle (s : St) : Nat → St
  | 0 => s
  | fuel + 1 =>
    match (List.range s.sh.nextTid).findSome? (fun t => step s t 0) with
    | some s' => settle s' fuel
    | none => s

def endConn (s : St) (c : Nat) : St :=
  match (List.range s.sh.nextTid).find? (fun t => s.pc t = .kServe c) with
  | some t => (envStep s (.serveOneReturns t)).getD s
  | none => s

def endAll (s : St) : St :=
  (List.range s.sh.nextTid).foldl (fun s t => match s.pc t with
    | .kServe _ => (envStep s (.serveOneReturns t)).getD s
    | _ => s) s

def showIds (l : List Nat) : String := if l.isEmpty then "-" else ".".intercalate (l.map toString)

def obs (s : St) : String :=
  let ret := match s.sh.ret, s.pc 0 with
    | some true, .done => "nil"
    | some false, .done => "err"
    | _, _ => "-"
  s!"[ret={ret} returned={b01 (s.pc 0 = .done)} closes={s.sh.lisCloses} served={showIds s.sh.served} ended={showIds (s.sh.ended.mergeSort (· ≤ ·))}]"

def doOp (s : St) (op : String) : Option St :=
  match op.splitOn ":" with
  | ["connect"] => some ((envStep s .connect).getD s)
  | ["burst"] => some ((envStep ((envStep s .connect).getD s) .connect).getD ((envStep s .connect).getD s))
  | ["cancel"] => some (endAll (settle ((envStep s .cancel).getD s) 10000))
  | ["accepterr", "temp"] => some ((envStep s (.acceptErr .temporary)).getD s)
  | ["accepterr", "perm"] => some ((envStep s (.acceptErr .permanent)).getD s)
  | ["end", c] => c.toNat?.map (endConn s)
  | _ => none

def handle (cmd : String) (a : List String) : Option String :=
  match cmd with
  | "serve" => do
    let ops := ((arg? "ops" a).getD "").splitOn "," |>.filter (· ≠ "")
    let init := settle {} 10000
    let (_, out) ← ops.foldlM (fun (st : St × List String) op => do
      let s' ← doOp st.1 op
      -- a permanent error, or any error once the context is done, ends Serve: its deferred Cancel makes
      -- every ServeOne return
      let s1 := settle s' 10000
      let s2 := if s1.sh.tcancel then settle (endAll s1) 10000 else s1
      pure (s2, st.2 ++ [obs s2])) (init, [])
    pure (" ".intercalate out)
  | _ => none

end Drpc.Driver.Serve
