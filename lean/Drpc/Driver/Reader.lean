import Drpc.Driver.Util
import Drpc.Wire.Reader
/- line protocol for the packet reader (C09) -/
namespace Drpc.Driver.Reader
open Drpc Drpc.Driver

/-- `7x3,12,1x2` → [7,7,7,12,1,1]; `-` → [] -/
def parseSizes (s : String) : Option (List Nat) :=
  if s = "-" then some [] else
  (s.splitOn ",").foldlM (fun acc tok =>
    match tok.splitOn "x" with
    | [a] => do let n ← a.toNat?; pure (acc ++ [n])
    | [a, k] => do let n ← a.toNat?; let c ← k.toNat?; pure (acc ++ List.replicate c n)
    | _ => none) []

def showErr : RErr → String
  | .protocol => "protocol"
  | .transport t => s!"transport:{t}"

def showPkt (p : Packet × Nat) : String :=
  s!"P[{p.1.sid.toNat},{p.1.mid.toNat},{p.1.kind.toNat},{b01 p.1.control},{p.1.data.toHex},{p.2}] "

def handle (cmd : String) (a : List String) : Option String :=
  match cmd with
  | "reader" => do
    let mx ← natArg? "max" a
    let final ← natArg? "final" a
    let stream ← hexArg? "stream" a
    let sizes ← (arg? "chunks" a).bind parseSizes
    let arr := sizes.toArray
    let choose := fun (i : Nat) => if h : i < arr.size then arr[i] else 1073741824
    let (pk, e, c) := readAll (effectiveMax mx) choose final stream
    pure (String.join (pk.map showPkt) ++ s!"E[{showErr e},{c}]")
  | _ => none

end Drpc.Driver.Reader
