import Drpc.Driver.Util
import Drpc.Driver.Reader
import Drpc.Wire.Compat
import Drpc.Metadata
/-
  line protocol for C18 (wire compatibility with v0.0.17).

  SPEC  = "-" | comma separated tokens, each hex or "<count>x<hexbyte>"   (big payloads stay short)
  DATA  = hex when at most 128 bytes, else "#<len>.<hash>"
-/
namespace Drpc.Driver.Compat
open Drpc Drpc.Driver Drpc.Compat

def parseTok (tok : String) : Option Bytes :=
  match tok.splitOn "x" with
  | [h] => parseHexAux h.toList
  | [n, b] => do
    let k ← n.toNat?
    match ← parseHexAux b.toList with
    | [x] => pure (List.replicate k x)
    | _ => none
  | _ => none

def parseSpec (s : String) : Option Bytes :=
  if s = "-" then some [] else
  (s.splitOn ",").foldlM (fun acc tok => do let b ← parseTok tok; pure (acc ++ b)) []

def specArg? (key : String) (toks : List String) : Option Bytes := (arg? key toks).bind parseSpec

def dataHash (b : Bytes) : Nat := b.foldl (fun h x => (h * 31 + x.toNat) % 4294967296) 7

def showData (b : Bytes) : String :=
  if b.length ≤ 128 then b.toHex else s!"#{b.length}.{dataHash b}"

def showOErr : Old.OErr → String
  | .protocol => "protocol"
  | .varint => "varint"
  | .internal => "internal"
  | .tooLong => "toolong"
  | .transport t => s!"transport:{t}"

def showOld (r : List Old.OPacket × Old.OErr) : String :=
  String.join (r.1.map fun p => s!"P[{p.sid.toNat},{p.mid.toNat},{p.kind.toNat},{showData p.data}] ") ++ s!"E[{showOErr r.2}]"

def showNew (r : List (Packet × Nat) × RErr × Nat) : String :=
  String.join (r.1.map fun p => s!"P[{p.1.sid.toNat},{p.1.mid.toNat},{p.1.kind.toNat},{b01 p.1.control},{showData p.1.data}] ")
    ++ s!"E[{Reader.showErr r.2.1}]"

def showFrames (frs : List Frame) : String :=
  " ".intercalate (frs.map fun fr =>
    s!"[{fr.kind.toNat},{b01 fr.done},{b01 fr.control},{fr.sid.toNat},{fr.mid.toNat},{showData fr.data}]")

/-- `sid:mid:kind:ctl:SPEC;…` -/
def parsePkts (s : String) : Option (List Packet) :=
  if s = "-" then some [] else
  (s.splitOn ";").mapM fun tok =>
    match tok.splitOn ":" with
    | [a, b, c, d, e] => do
      let sid ← a.toNat?
      let mid ← b.toNat?
      let kind ← c.toNat?
      let ctl ← if d = "1" then some true else if d = "0" then some false else none
      let data ← parseSpec e
      pure { data := data, sid := BitVec.ofNat 64 sid, mid := BitVec.ofNat 64 mid, kind := BitVec.ofNat 8 kind, control := ctl }
    | _ => none

/-- one stream-API call: `W<kind>:SPEC` RawWrite, `E:<code>:SPEC` SendError, `K` SendCancel, `C` Close,
    `S` CloseSend, `X` Cancel, `F` RawFlush -/
def parseOp (tok : String) : Option Op :=
  match tok.splitOn ":" with
  | ["K"] => some .sendCancel
  | ["C"] => some .close
  | ["S"] => some .closeSend
  | ["X"] => some .cancel
  | ["F"] => some .flush
  | ["E", c, m] => do
    let code ← c.toNat?
    let msg ← parseSpec m
    pure (.sendError (BitVec.ofNat 64 code) msg)
  | [w, d] =>
    if w.startsWith "W" then do
      let k ← ((w.drop 1).toString).toNat?
      let data ← parseSpec d
      pure (.write (BitVec.ofNat 8 k) data)
    else none
  | _ => none

/-- `sid@op;op;…|sid@…`  (`sid@-` = no calls) -/
def parseConn (s : String) : Option (List (U64 × List Op)) :=
  if s = "-" then some [] else
  (s.splitOn "|").mapM fun st =>
    match st.splitOn "@" with
    | [a, o] => do
      let sid ← a.toNat?
      let ops ← if o = "-" then some [] else (o.splitOn ";").mapM parseOp
      pure (BitVec.ofNat 64 sid, ops)
    | _ => none

def showHRet : HRet → String
  | .nil => "nil"
  | .protocol => "protocol"
  | .internal => "internal"

def showSig : Option SigErr → String
  | none => "-"
  | some .eof => "eof"
  | some .canceled => "canceled"
  | some .invokeExisting => "protocol"
  | some .remoteErr => "remote"
  | some .remoteClosed => "closed"
  | some .bothClosed => "error"
  | some .unknownKind => "internal"

/-- HandlePacket on every packet in turn; after each: return class and whether the stream is terminated -/
def handleTrace : HState → List Packet → List String
  | _, [] => []
  | s, p :: ps =>
    let (s1, r) := handlePacket s p
    s!"{showHRet r},{b01 s1.term.isSome}" :: handleTrace s1 ps

/-- `khex:vhex;…` with SPEC syntax for both -/
def parsePairs (s : String) : Option Metadata.Pairs :=
  if s = "-" then some [] else
  (s.splitOn ";").mapM fun tok =>
    match tok.splitOn ":" with
    | [a, b] => do let k ← parseSpec a; let v ← parseSpec b; pure (k, v)
    | _ => none

def showPairs (m : Metadata.Pairs) : String :=
  if m.isEmpty then "-" else ";".intercalate (m.map fun kv => s!"{kv.1.toHex}:{kv.2.toHex}")

def handle (cmd : String) (a : List String) : Option String :=
  match cmd with
  | "c18.read" => do
    -- the same byte stream and chunking through the v0.0.17 reader model and the current one
    let mx ← natArg? "max" a
    let final ← natArg? "final" a
    let stream ← specArg? "stream" a
    let sizes ← (arg? "chunks" a).bind Reader.parseSizes
    let arr := sizes.toArray
    let choose := fun (i : Nat) => if h : i < arr.size then arr[i] else 1073741824
    pure s!"OLD {showOld (Old.oldReadAll choose final stream)} NEW {showNew (readAll (effectiveMax mx) choose final stream)}"
  | "c18.oldsplit" => do
    let data ← specArg? "data" a
    let sid ← natArg? "sid" a
    let mid ← natArg? "mid" a
    let kind ← natArg? "kind" a
    let n ← intArg? "n" a
    pure (showFrames (Old.splitN ⟨data, BitVec.ofNat 64 sid, BitVec.ofNat 64 mid, BitVec.ofNat 8 kind⟩ n))
  | "c18.emit" => do
    -- SplitN + WriteFrame of a packet list by the writer of either version → bytes on the wire
    let ver ← arg? "ver" a
    let n ← intArg? "n" a
    let pkts ← (arg? "pkts" a).bind parsePkts
    if ver = "old" then pure (showData (encode (oldEmit n (pkts.map toOld))))
    else pure (showData (encode (newEmit n pkts)))
  | "c18.stream" => do
    -- API calls on consecutive streams of one connection → bytes on the wire
    let ver ← arg? "ver" a
    let n ← intArg? "split" a
    let conn ← (arg? "conn" a).bind parseConn
    if ver = "old" then pure (showData (encode (emitConn (Old.splitSize n) false conn)))
    else pure (showData (encode (emitConn (splitSize n) true conn)))
  | "c18.handle" => do
    let sid ← natArg? "sid" a
    let pkts ← (arg? "pkts" a).bind parsePkts
    let s0 := HState.init (BitVec.ofNat 64 sid)
    let (s1, _) := handleAll s0 pkts
    let tr := " ".intercalate (handleTrace s0 pkts)
    pure s!"{tr} | send={showSig s1.send} recv={showSig s1.recv} D[{",".intercalate (s1.delivered.map showData)}]"
  | "c18.meta" => do
    let m ← (arg? "pairs" a).bind parsePairs
    pure (Metadata.encode m).toHex
  | "c18.metadec" => do
    let b ← specArg? "b" a
    match Metadata.decode b with
    | .ok m => pure s!"ok {showPairs m.canon}"
    | .invalid => pure "err"
    | .tooLong => pure "err"
    | .panic => pure "panic"
  | _ => none

end Drpc.Driver.Compat
