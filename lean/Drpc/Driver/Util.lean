import Drpc.Bytes
/- helpers for the line-protocol driver -/
namespace Drpc.Driver

def kv? (key : String) (tok : String) : Option String :=
  let p := key ++ "="
  if tok.startsWith p then some ((tok.drop p.length).toString) else none

/-- find `key=value` among tokens -/
def arg? (key : String) (toks : List String) : Option String :=
  toks.findSome? (kv? key)

def natArg? (key : String) (toks : List String) : Option Nat := (arg? key toks).bind String.toNat?
def intArg? (key : String) (toks : List String) : Option Int := (arg? key toks).bind String.toInt?
def hexArg? (key : String) (toks : List String) : Option Bytes := (arg? key toks).bind Bytes.ofHex?
def boolArg? (key : String) (toks : List String) : Option Bool :=
  (arg? key toks).bind fun s => if s = "1" then some true else if s = "0" then some false else none

def b01 (b : Bool) : String := if b then "1" else "0"

end Drpc.Driver
