import Drpc.Driver.Util
import Drpc.Http.Serve
/- line protocol for the HTTP gateway model (C14) -/
namespace Drpc.Driver.Http
open Drpc Drpc.Driver Drpc.Http

/-- blob: `-` | segments joined by `+`, each hex or `zXX*N` (N copies of byte XX) -/
def parseSeg (s : String) : Option Bytes :=
  if s.startsWith "z" then
    match ((s.drop 1).toString).splitOn "*" with
    | [hx, n] => do
      let b ← Bytes.ofHex? hx
      let k ← n.toNat?
      match b with
      | [x] => some (List.replicate k x)
      | _ => none
    | _ => none
  else Bytes.ofHex? s

def parseBlob (s : String) : Option Bytes :=
  if s = "-" then some [] else
  (s.splitOn "+").foldlM (fun acc seg => do let b ← parseSeg seg; pure (acc ++ b)) []

/-- list of blobs: `.` = empty list, else comma separated -/
def parseBlobs (s : String) : Option (List Bytes) :=
  if s = "." then some [] else (s.splitOn ",").mapM parseBlob

def blobArg? (key : String) (a : List String) : Option Bytes := (arg? key a).bind parseBlob
def blobsArg? (key : String) (a : List String) : Option (List Bytes) := (arg? key a).bind parseBlobs

/-- long byte strings are compared by length and a polynomial hash -/
def digest (b : Bytes) : String :=
  if b.length ≤ 1024 then b.toHex else
  let h := b.foldl (fun h x => (h * 257 + x.toNat + 1) % 2147483629) 7
  s!"len:{b.length},h:{h}"

def parseNode (s : String) : Option Node :=
  if s = "w" then some .wrap
  else if s = "c" then some .cause
  else if s = "b" then some .badCode
  else if s.startsWith "n" then ((s.drop 1).toString.toNat?).map (fun n => .coded (BitVec.ofNat 64 n))
  else if s.startsWith "t" then (Bytes.ofHex? (s.drop 1).toString).map .twirp
  else none

/-- `nil` | `<chain>/<leaf|nilw>/<msg blob>` with chain = `-` or nodes joined by `.`;
    a node may carry a repeat count `w^150` -/
def parseErr (s : String) : Option (Option Err) :=
  if s = "nil" then some none else
  match s.splitOn "/" with
  | [ch, en, msg] => do
    let chain ← if ch = "-" then some [] else
      (ch.splitOn ".").foldlM (fun acc tok =>
        match tok.splitOn "^" with
        | [nd] => do let n ← parseNode nd; pure (acc ++ [n])
        | [nd, k] => do let n ← parseNode nd; let c ← k.toNat?; pure (acc ++ List.replicate c n)
        | _ => none) []
    let fin ← if en = "leaf" then some End.leaf else if en = "nilw" then some End.nilWrap else none
    let m ← parseBlob msg
    pure (some ⟨chain, fin, m⟩)
  | _ => none

def showUR : UR → String
  | .ok s => s!"ok {s.toHex}"
  | .ends => "ends"
  | .hex => "hex"
  | .panic => "panic"

def bytesLt : Bytes → Bytes → Bool
  | [], [] => false
  | [], _ :: _ => true
  | _ :: _, [] => false
  | a :: as, b :: bs => if a.toNat < b.toNat then true else if a.toNat > b.toNat then false else bytesLt as bs

def insertSorted (kv : Bytes × Bytes) : List (Bytes × Bytes) → List (Bytes × Bytes)
  | [] => [kv]
  | x :: rest =>
    if x.1 = kv.1 then kv :: rest            -- later Add overwrites
    else if bytesLt kv.1 x.1 then kv :: x :: rest
    else x :: insertSorted kv rest

/-- the map `drpcmetadata.Get` returns, sorted by key -/
def showMd (ps : List (Bytes × Bytes)) : String :=
  if ps.isEmpty then "none" else
  let m := ps.foldl (fun acc kv => insertSorted kv acc) []
  ";".intercalate (m.map fun kv => s!"{kv.1.toHex}:{kv.2.toHex}")

def showCR : CR → String
  | .ok ps => "ok " ++ showMd ps
  | .ends => "ends"
  | .hex => "hex"
  | .panic => "panic"

/-- the allocation is observed on the Go side through runtime.MemStats, so it is compared by class:
    S (at most 32 KiB), L (at least 1 MiB); the suite generates nothing in between -/
def allocClass (n : Nat) : String := if n ≤ 32768 then "S" else if n ≥ 1048576 then "L" else "M"

def showRead (r : ReadR × Nat) : String :=
  (match r.1 with
   | .ok d => s!"ok {digest d}"
   | .eof => "eof"
   | .unexpectedEOF => "unexpected-eof"
   | .tooLarge => "too-large") ++ " alloc=" ++ allocClass r.2

def showAck : SendR → String
  | .ok => "o"
  | .tooLarge => "L"
  | .eof => "E"

def ctOf (b : Bytes) : String := String.ofList (b.map fun x => Char.ofNat x.toNat)

def showResp : Resp → String
  | .panic => "panic"
  | .unmodelled => "unmodelled"
  | .mk r recv acks md =>
    let body := match r.body with
      | .raw b => s!"body={digest b}"
      | .jsonErr code msg => s!"json code={code.toHex} msg={digest msg}"
    let acksS := if acks.isEmpty then "-" else String.join (acks.map showAck)
    let mdS := match md with | none => "none" | some ps => showMd ps
    s!"status={r.status} ct={r.ct} {body} recv={recv} acks={acksS} md={mdS}"

def handle (cmd : String) (a : List String) : Option String :=
  match cmd with
  | "http.unescape" => do
    let s ← hexArg? "s" a
    pure (showUR (unescape s))
  | "http.context" => do
    let es ← blobsArg? "es" a
    pure (showCR (buildContext es))
  | "http.getcode" => do
    let e ← (arg? "err" a).bind parseErr
    pure (match getCode e with
          | .ok s => s!"ok {s.toHex} dcode={(drpcCode e).toNat}"
          | .panic => "panic")
  | "http.select" => do
    let ct ← hexArg? "ct" a
    pure (match select (ctOf ct) with
          | some p => s!"{if p.kind = .twirp then "twirp" else "grpcweb"} ct={p.ct} text={b01 p.text} json={b01 p.json}"
          | none => "panic")
  | "http.b64" => do
    let b ← hexArg? "b" a
    pure (Base64.encode b).toHex
  | "http.sanitize" => do
    let v ← hexArg? "v" a
    pure (sanitize v).toHex
  | "http.grpcread" => do
    let b ← blobArg? "b" a
    pure (showRead (grpcRead b))
  | "http.twirpread" => do
    let b ← blobArg? "b" a
    pure (showRead (twirpRead b))
  | "http.serve" => do
    let ct ← hexArg? "ct" a
    let hdrs ← blobsArg? "hdrs" a
    let body ← blobArg? "body" a
    let recv ← boolArg? "recv" a
    let echo ← boolArg? "echo" a
    let stop ← boolArg? "stop" a
    let msgs ← blobsArg? "msgs" a
    let e ← (arg? "err" a).bind parseErr
    pure (showResp (serve ⟨ctOf ct, hdrs, body⟩ ⟨recv, echo, msgs, stop, e⟩))
  | _ => none

end Drpc.Driver.Http
