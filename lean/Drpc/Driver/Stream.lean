import Drpc.Driver.Util
import Drpc.Stream.Conc
/- line protocol for stream scenarios (C03, C04, C07, C01 L3): one line = one whole schedule -/
namespace Drpc.Driver.Stream
open Drpc Drpc.Driver Drpc.Stream

def hexOr (s : String) : Option Bytes := Bytes.ofHex? s

def showErr : Err → String
  | .eof => "eof"
  | .sendClosed => "sendClosed" | .termError => "termError" | .termClosed => "termClosed"
  | .termBothClosed => "termBothClosed" | .remoteClosed => "remoteClosed"
  | .remote d => s!"remote:{d.toHex}"
  | .canceled => "canceled"
  | .ctx t => s!"ctx:{t}"
  | .invokeOnExisting => "invokeOnExisting"
  | .unknownKind k => s!"unknownKind:{k.toNat}"
  | .transport t => s!"transport:{t}"
  | .unmarshal => "unmarshal"

def showRet : Ret → String
  | .nil => "nil"
  | .err e => showErr e
  | .busy => "busy"
  | .bool b => if b then "true" else "false"
  | .data d => s!"data:{d.toHex}"

def parseCall (s : String) : Option Call :=
  match s.splitOn ":" with
  | ["send", d] => do pure (.msgSend (← hexOr d))
  | ["sendp", d] => do pure (.msgSend (← hexOr d) true)
  | ["raw", k, d] => do pure (.rawWrite (BitVec.ofNat 8 (← k.toNat?)) (← hexOr d))
  | ["flush"] => some .rawFlush
  | ["recv"] => some (.msgRecv {})
  | ["recvp"] => some (.msgRecv { park := true })
  | ["recvf"] => some (.msgRecv { fail := true })
  | ["recvpf"] => some (.msgRecv { park := true, fail := true })
  | ["close"] => some .close
  | ["senderr", d] => do pure (.sendError (← hexOr d))
  | ["closesend"] => some .closeSend
  | ["sendcancel", t] => do pure (.sendCancel (← t.toNat?))
  | ["cancel", t] => do pure (.cancel (← t.toNat?))
  | ["pkt", k, c, same, d] => do
    pure (.handle (BitVec.ofNat 8 (← k.toNat?)) (c == "1") (same == "1") (← hexOr d))
  | _ => none

/-- A quiescent observation is schedule-independent unless, inside the step to quiescence, a
    thread is about to READ an inspectMutex `held` flag in checkFinished while another is about to
    STORE it (the implementation's outcome then depends on the Go scheduler; both orders are
    behaviours of the model, and its theorems cover both).  Such scenarios are not compared from
    that point on. -/
def raceNow (s : St) (tids : List Tid) : Bool :=
  let readsW := tids.any fun t => match s.pc t with | .cf2 _ => s.sh.term.isSome | _ => false
  let storesW := tids.any fun t => match s.pc t with
    | .heldW .. => true | .heldWmu _ => true | .tryW _ => s.sh.w.isNone
    | .lockW .. => s.sh.w.isNone | .lockWmu _ => s.sh.w.isNone | _ => false
  let readsR := tids.any fun t => match s.pc t with | .cf3 _ => true | _ => false
  let storesR := tids.any fun t => match s.pc t with
    | .heldR _ => true | .lockR _ => s.sh.r.isNone | _ => false
  (readsW && storesW) || (readsR && storesR)

/-- `settle` that also reports whether a read/store race on a held flag was passed -/
def settleRace : Nat → List Tid → St → Bool → St × Bool
  | 0, _, s, r => (s, r)
  | fuel + 1, ts, s, r =>
    match ts.findSome? (fun t => step s t) with
    | some s' => settleRace fuel ts s' (r || raceNow s ts)
    | none => (s, r)

structure Run where
  st : St
  racy : Bool := false
  tids : List Tid := []
  reported : List Tid := []
  wireSeen : Nat := 0
  auto : Bool := true

def framesHex (fs : List Frame) : String := (fs.foldl (fun acc f => acc ++ appendFrame f) ([] : Bytes)).toHex

/-- in auto mode the transport completes every write at once -/
def settleAuto : Nat → Run → Run
  | 0, r => r
  | fuel + 1, r =>
    let (st, racy) := settleRace 4000 r.tids r.st r.racy
    let r := { r with racy := racy }
    if r.auto then
      match st.sh.inflight with
      | some _ => match envStep st (.release none) with
        | some st' => settleAuto fuel { r with st := st' }
        | none => { r with st := st }
      | none => { r with st := st }
    else { r with st := st }

def observe (r : Run) : Run × String :=
  let st := r.st
  let newly := r.tids.filter (fun t => !r.reported.contains t && (match st.pc t with | .done _ => true | _ => false))
  let doneS := ",".intercalate (newly.map fun t => match st.pc t with | .done x => s!"{t}={showRet x}" | _ => "")
  let pend := r.tids.filter (fun t => match st.pc t with | .done _ => false | _ => true)
  let pendS := ",".intercalate (pend.map toString)
  let parked := match st.sh.inflight with | some (_, fs) => framesHex fs | none => "-"
  let newWire := (st.sh.wire.drop r.wireSeen).map framesHex
  let wireS := if newWire.isEmpty then "-" else ",".intercalate newWire
  let f (b : Bool) := if b then "1" else "0"
  ({ r with reported := r.reported ++ newly, wireSeen := st.sh.wire.length },
   s!"[d={doneS} p={pendS} k={parked} w={wireS} T{f st.sh.term.isSome}F{f st.sh.fin}C{f st.sh.ctxDone}]")

def doAction (r : Run) (a : String) : Option Run :=
  match a.splitOn "!" with
  | ["i", t, call] => do
    let tid ← t.toNat?
    let c ← parseCall call
    pure { r with st := r.st.setPc tid (.start c), tids := r.tids ++ [tid] }
  | ["w", "ok"] => do pure { r with st := ← envStep r.st (.release none) }
  | ["w", tag] => do pure { r with st := ← envStep r.st (.release (some (← tag.toNat?))) }
  | ["u", t] => do pure { r with st := ← envStep r.st (.unmarshalDone (← t.toNat?)) }
  | ["m", t] => do pure { r with st := ← envStep r.st (.marshalDone (← t.toNat?)) }
  | ["auto", b] => some { r with auto := b == "1" }
  | _ => none

def handle (cmd : String) (a : List String) : Option String :=
  match cmd with
  | "stream" => do
    let split ← intArg? "split" a
    let manual ← boolArg? "manual" a
    let wsize ← natArg? "wsize" a
    let acts := ((arg? "ops" a).getD "").splitOn ";" |>.filter (· ≠ "")
    let st0 : St := { opts := { splitSize := split, manualFlush := manual, wsize := if wsize = 0 then 4096 else wsize, sid := 1 } }
    let (_, out) ← acts.foldlM (fun (acc : Run × List String) act => do
        let r1 ← doAction acc.1 act
        let r2 := settleAuto 300 r1
        let (r3, o) := observe r2
        pure (r3, acc.2 ++ [if r3.racy then "[RACY]" else o])) ({ st := st0 }, [])
    pure (" ".intercalate out)
  | _ => none

end Drpc.Driver.Stream
