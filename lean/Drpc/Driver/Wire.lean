import Drpc.Driver.Util
import Drpc.Wire.Split
/- line protocol for the wire codec (C08) -/
namespace Drpc.Driver.Wire
open Drpc Drpc.Driver

def showVR : VR → String
  | .ok rem v => s!"ok {v.toNat} rem={rem.length}"
  | .short => "short"
  | .tooLong => "toolong"

def showPR : PR → String
  | .ok rem fr => s!"ok kind={fr.kind.toNat} done={b01 fr.done} ctl={b01 fr.control} sid={fr.sid.toNat} mid={fr.mid.toNat} data={fr.data.toHex} rem={rem.length}"
  | .short => "short"
  | .err => "err"
  | .panic => "panic"

def handle (cmd : String) (a : List String) : Option String :=
  match cmd with
  | "varint.append" => do
    let x ← natArg? "x" a
    pure (appendVarint (BitVec.ofNat 64 x)).toHex
  | "varint.read" => do
    let b ← hexArg? "b" a
    pure (showVR (readVarint b))
  | "frame.parse" => do
    let b ← hexArg? "b" a
    pure (showPR (parseFrame b))
  | "frame.append" => do
    let data ← hexArg? "data" a
    let sid ← natArg? "sid" a
    let mid ← natArg? "mid" a
    let kind ← natArg? "kind" a
    let done ← boolArg? "done" a
    let ctl ← boolArg? "ctl" a
    let fr : Frame := { data := data, sid := BitVec.ofNat 64 sid, mid := BitVec.ofNat 64 mid,
                        kind := BitVec.ofNat 8 kind, done := done, control := ctl }
    pure (appendFrame fr).toHex
  | "split" => do
    let data ← hexArg? "data" a
    let sid ← natArg? "sid" a
    let mid ← natArg? "mid" a
    let kind ← natArg? "kind" a
    let ctl ← boolArg? "ctl" a
    let pkt : Packet := { data := data, sid := BitVec.ofNat 64 sid, mid := BitVec.ofNat 64 mid,
                          kind := BitVec.ofNat 8 kind, control := ctl }
    let n ← intArg? "n" a
    let frs := splitN pkt n
    pure (" ".intercalate (frs.map fun fr =>
      s!"[{fr.kind.toNat},{b01 fr.done},{b01 fr.control},{fr.sid.toNat},{fr.mid.toNat},{fr.data.toHex}]"))
  | _ => none

end Drpc.Driver.Wire
