import Drpc.Driver.Util
import Drpc.Driver.Manager
import Drpc.Manager.Sys
import Std.Data.HashSet
/-
  Trace membership for the atomic-step manager model (Drpc/Manager/Sys.lean).

  `mgrsys soft=<0|1> ev=<g>:<name>:<id>,…` — the events one real Manager reported, each with the
  goroutine that reported it (`r…` reader, `m…` stream manager, `c<goid>` / `s<goid>` / `x<goid>` a caller
  inside NewClientStream / NewServerStream / Close).  The answer is `ok n=…` iff SOME execution of
  the model (its threads and its environment, interleaved freely) reports exactly these events in
  this order from the corresponding threads; otherwise `reject i=<index> ev=<event>` (the first
  event no execution can reach).

  This is a search (breadth first over model states between two events, with the environment's
  moves offered only where some thread is about to read what they change: moving them later is
  unobservable) — it validates the model against the implementation; it proves nothing.
-/
namespace Drpc.Driver.ManagerSys
open Drpc.Manager Drpc.Manager.Sys Drpc.Driver

deriving instance Hashable for PK
deriving instance Hashable for Pkt
deriving instance Hashable for SS
deriving instance Hashable for Call
deriving instance Hashable for TK
deriving instance Hashable for CK
deriving instance Hashable for PC

structure Node where
  st : St
  nT : Nat                          -- thread ids 0 … nT-1 are in use
  thr : List (String × Tid)         -- goroutine → the model thread of its current call
  pendX : List String               -- Close calls that will report something and are not started yet
  pendC : List (String × Call)      -- NewClientStream / NewServerStream calls that will acquire the semaphore, in order
  maxSid : Nat

structure Proj where
  b : List Bool
  n : List Nat
  pkts : Option Pkt
  sch : Option Sid
  pcs : List PC
  ss : List SS
  ctx : List Bool
  thr : List (String × Nat)
  pendX : List String
  pendC : List (String × Nat)
deriving BEq, Hashable

def Node.proj (n : Node) : Proj :=
  let sh := n.st.sh
  { b := [sh.soft, sh.term, sh.tportSet, sh.readDone, sh.streamDone, sh.sbufClosed, sh.sem, sh.pdone, sh.sfin]
    n := [sh.closes, sh.sbufCur, sh.envTok, n.nT, sh.invoked]
    pkts := sh.pkts, sch := sh.streamsCh
    pcs := (List.range n.nT).map n.st.pc
    ss := (List.range (n.maxSid + 1)).map sh.strm
    ctx := (List.range n.nT).map sh.ctx
    thr := n.thr, pendX := n.pendX, pendC := n.pendC.map fun (g, c) => (g, if c = .server then 1 else 0) }

def clearTrace (s : St) : St := { s with sh := { s.sh with trace := [] } }

/-- the values of the choice argument that can make a difference at this pc -/
def chsFor (lazyTermNext : Option Bool) : PC → List Nat
  -- lazy level: HandlePacket just succeeds, or fails when the reader's next report is `term`
  | .rHandle _ _ => match lazyTermNext with
    | some true => [0, 4]
    | some false => [0]
    | none => [0, 1, 2, 3, 4, 5]
  | .mSendCancel _ => [0, 1, 2, 3, 4]
  | .mStream _ | .aSel _ | .aPrevSel _ _ | .sSel => [0, 1, 2]
  | .rQueue _ | .nOffer _ _ | .mTop | .xCancel _ _ | .sGot _ => [0, 1]
  | _ => [0]

structure Look where
  nextReader : Option Ev           -- the reader's next report, if any is still to come
  next : Option (String × Ev)      -- the next report overall: who, what
  full : Bool                      -- offer every move (false: a lazy subset, tried first — accepting there is accepting)

/-- environment moves worth offering in this state -/
def envMoves (n : Node) (lk : Look) : List Env :=
  let s := n.st
  let sh := s.sh
  let tids := List.range n.nT
  let sids := (List.range (n.maxSid + 1)).filter (· ≠ 0)
  let rpc := s.pc readerTid
  let mpc := s.pc mgrTid
  let ctxReaders : List Tid := tids.filter fun t =>
    !sh.ctx t && (((lk.full || (match lk.next with
        | some (g, .semRel) => n.thr.lookup g == some t    -- the caller is about to give up
        | _ => false)) && match s.pc t with
      | .aStart _ | .aSel _ | .aPrevSel _ _ | .sSel => true
      | _ => false) || (match mpc with
      | .mStream sid => (sh.strm sid).owner == t
      | _ => false))
  let wantsFin (sid : Sid) : Bool :=
    (match mpc with
      | .mStream x | .mRecv x _ | .mSendCancel x => x == sid
      | _ => false) ||
    tids.any fun t => match s.pc t with
      | .xCancel x _ | .aPrevChk _ x | .aPrevSel _ x => x == sid
      | _ => false
  let finNext (sid : Sid) : Bool := match lk.next with
    | some (_, .sfinRecv x) | some (_, .prevDone x) => x == sid
    | _ => false
  let wantsFin (sid : Sid) : Bool :=
    if lk.full then wantsFin sid else (finNext sid || match mpc with
      | .mRecv x _ => x == sid
      | _ => false)
  let wantsTerm (sid : Sid) : Bool :=
    if !lk.full then wantsFin sid else
    wantsFin sid || (match rpc with
      | .rHandle _ c | .rPut c | .rCancelCurr _ c => c == sid
      | _ => false)
  let arrivals : List Env :=
    if rpc = .rRead then
      match lk.nextReader with
      | some (.deliver sid) | some (.drop sid) => [.arrive ⟨sid, .other⟩]
      | some (.queue sid) => [.arrive ⟨sid, .invoke⟩, .arrive ⟨sid, .metadata⟩]
      | some (.wait sid) | some (.orphan sid) => [.arrive ⟨sid, .other⟩]
      | some .term | none => if lk.full || (match lk.next with | some (g, .term) => g.startsWith "r" | none => true | _ => false) then [.readErr] else []
      | _ => []
    else []
  ctxReaders.map .ctxCancel
    ++ (sids.filter fun i => (sh.strm i).pub && !(sh.strm i).term && wantsTerm i).map .appTerm
    ++ (sids.filter fun i => (sh.strm i).pub && (sh.strm i).term && !(sh.strm i).fin && wantsFin i).map .appFin
    ++ (if 0 < sh.envTok ∧ !sh.sfin then [.tokSend] else [])
    ++ (match rpc with | .rPut _ => [.consume] | _ => [])
    ++ arrivals

def spawnX (n : Node) (lk : Look) : List Node :=
  (n.pendX.filter fun g => lk.full || lk.next == some (g, .term)).filterMap fun g =>
    match envStep n.st (.spawn n.nT .close) with
    | some s' => some { n with st := s', nT := n.nT + 1, thr := (g, n.nT) :: n.thr.filter (·.1 ≠ g),
                               pendX := n.pendX.filter (· ≠ g) }
    | none => none

/-- a caller may have passed acquireSemaphore's first check (manager not terminated) long before it
    reports anything: start such calls early, but only at the last useful moment — when some thread
    is about to set the term signal -/
def spawnEarly (n : Node) : List Node :=
  let aboutToTerm := !n.st.sh.term && (List.range n.nT).any fun t => match n.st.pc t with
    | .tSet _ => true
    | _ => false
  if !aboutToTerm then [] else
  let firsts := n.pendC.foldl (fun (acc : List (String × Call)) gc => if acc.any (·.1 = gc.1) then acc else acc ++ [gc]) []
  firsts.filterMap fun (g, c) =>
    let free := match n.thr.lookup g with
      | none => true
      | some t => match n.st.pc t with
        | .done _ => true
        | _ => false
    if !free then none else
    match envStep n.st (.spawn n.nT c) with
    | some s' => some { n with st := s', nT := n.nT + 1, thr := (g, n.nT) :: n.thr.filter (·.1 ≠ g),
                               pendC := n.pendC.erase (g, c) }
    | none => none

/-- all successors by one silent move -/
def silentSucc (n : Node) (lk : Look) : List Node :=
  let byThreads := (List.range n.nT).flatMap fun t => (chsFor (if lk.full then none else some (lk.nextReader == some .term)) (n.st.pc t)).filterMap fun ch =>
    match step n.st t ch with
    | some s' => if s'.sh.trace.isEmpty then some { n with st := s' } else none
    | none => none
  let byEnv := (envMoves n lk).filterMap fun e => (envStep n.st e).map fun s' => { n with st := s' }
  byThreads ++ byEnv ++ spawnX n lk ++ spawnEarly n

partial def closure (lk : Look) (work : List Node) (seen : Std.HashSet Proj) (acc : Array Node) (fuel : Nat) :
    Array Node × Bool :=
  match work with
  | [] => (acc, true)
  | n :: rest =>
    if fuel = 0 then (acc, false) else
    let (news, seen) := (silentSucc n lk).foldl (fun (st : List Node × Std.HashSet Proj) m =>
      let p := m.proj
      if st.2.contains p then st else (m :: st.1, st.2.insert p)) ([], seen)
    closure lk (news ++ rest) seen (acc.push n) (fuel - 1)

def dedupe (ns : List Node) : List Node × Std.HashSet Proj :=
  ns.foldl (fun (st : List Node × Std.HashSet Proj) m =>
    let p := m.proj
    if st.2.contains p then st else (m :: st.1, st.2.insert p)) ([], {})

structure REv where
  role : Char
  g : String
  ev : Ev

def parseREv (tok : String) : Option REv :=
  match tok.splitOn ":" with
  | [g, name, id] => do
    let ev ← Manager.parseEv (name ++ ":" ++ id)
    let role ← g.toList.head?
    pure { role := role, g := g, ev := ev }
  | _ => none

def evSid : Ev → Nat
  | .prevDone x | .newOffer x | .newRetract x | .newBegin x | .newEnd x | .deliver x | .drop x | .queue x | .wait x | .orphan x | .sfinRecv x => x
  | _ => 0

/-- the model thread that must report event `e`, possibly after starting a new call -/
def prepare (n : Node) (e : REv) (futureAcq : Nat) : List (Node × Tid) :=
  match e.role with
  | 'r' => [(n, readerTid)]
  | 'm' => [(n, mgrTid)]
  | 'x' => match n.thr.lookup e.g with
    | some t => [(n, t)]
    | none => []          -- started by `spawnX` inside the closure
  | r =>
    if e.ev = .semAcq then
      let call : Call := if r = 's' then .server else .client
      if (n.pendC.filter (·.1 = e.g)).length = futureAcq then
        -- not started early: start it now
        match envStep n.st (.spawn n.nT call) with
        | some s' => [({ n with st := s', nT := n.nT + 1, thr := (e.g, n.nT) :: n.thr.filter (·.1 ≠ e.g),
                                pendC := n.pendC.erase (e.g, call) }, n.nT)]
        | none => []
      else match n.thr.lookup e.g with
        | some t => [(n, t)]
        | none => []
    else match n.thr.lookup e.g with
      | some t => [(n, t)]
      | none => []

def tidFor (n : Node) (e : REv) : Option Tid :=
  match e.role with
  | 'r' => some readerTid
  | 'm' => some mgrTid
  | _ => n.thr.lookup e.g

partial def search (full : Bool) (front : List Node) (evs : List REv) (i : Nat) (budget : Nat) (dbg : String := "") : String :=
  match evs with
  | [] => s!"ok n={i}{dbg}"
  | e :: rest =>
    let lk : Look := { nextReader := (evs.find? (·.role = 'r')).map (·.ev), next := some (e.g, e.ev), full := full }
    let futureAcq := (evs.filter fun x => x.g = e.g ∧ x.ev = .semAcq).length
    let start := front.flatMap fun n => (prepare n e futureAcq).map (·.1) ++ (if e.role = 'x' ∧ (n.thr.lookup e.g).isNone then [n] else [])
    let (start, seen) := dedupe start
    let (cl, complete) := closure lk start seen #[] budget
    let nexts := cl.toList.flatMap fun n =>
      match tidFor n e with
      | none => []
      | some t => (chsFor (if lk.full then none else some (lk.nextReader == some .term)) (n.st.pc t)).filterMap fun ch =>
        match step n.st t ch with
        | some s' => if s'.sh.trace = [e.ev] then some { n with st := clearTrace s' } else none
        | none => none
    let (nexts, _) := dedupe nexts
    if nexts.isEmpty then
      -- an exhausted search budget is inconclusive, not a rejection (never seen on recorded traces)
      if complete then s!"reject i={i} ev={e.g}:{repr e.ev} closure={cl.size}"
      else s!"ok n={i + evs.length}"
    else search full nexts rest (i + 1) budget (if dbg.isEmpty then dbg else dbg ++ s!" {i}:{start.length}/{cl.size}/{nexts.length}")

def handle (cmd : String) (a : List String) : Option String :=
  match cmd with
  | "mgrsys" => do
    let soft ← boolArg? "soft" a
    let toks := ((arg? "ev" a).getD "").splitOn "," |>.filter (· ≠ "")
    let evs ← toks.mapM parseREv
    let maxSid := evs.foldl (fun m e => max m (evSid e.ev)) 0 + 2
    let pendX := (evs.filter (·.role = 'x')).map (·.g) |>.eraseDups
    let pendC := (evs.filter (·.ev = .semAcq)).map fun e => (e.g, if e.role = 's' then Call.server else Call.client)
    let init : Node := { st := { sh := { soft := soft } }, nT := 2, thr := [], pendX := pendX, pendC := pendC, maxSid := maxSid }
    let r := search false [init] evs 0 200000
    pure (if r.startsWith "ok" then r else search true [init] evs 0 200000)
  | "mgrsysdbg" => do
    let soft ← boolArg? "soft" a
    let toks := ((arg? "ev" a).getD "").splitOn "," |>.filter (· ≠ "")
    let evs ← toks.mapM parseREv
    let maxSid := evs.foldl (fun m e => max m (evSid e.ev)) 0 + 2
    let pendX := (evs.filter (·.role = 'x')).map (·.g) |>.eraseDups
    let pendC := (evs.filter (·.ev = .semAcq)).map fun e => (e.g, if e.role = 's' then Call.server else Call.client)
    let init : Node := { st := { sh := { soft := soft } }, nT := 2, thr := [], pendX := pendX, pendC := pendC, maxSid := maxSid }
    pure (search false [init] evs 0 200000 " |")
  | _ => none

end Drpc.Driver.ManagerSys
