import Drpc.Bytes
/-
  Model of drpcerr/err.go (`Code`, `WithCode`, `codeErr`) over an inductive model of Go error
  values, plus the part of github.com/zeebo/errs v1.2.2 the server path uses (`errs.Wrap`,
  `Class.Wrap`/`Class.New`, `(*errorT).Error`).

    func Code(err error) uint64 {
        for i := 0; i < 100; i++ {
            prev := err
            switch v := err.(type) {
            case interface{ Code() uint64 }: return v.Code()
            case interface{ Cause() error }: err = v.Cause()
            case interface{ Unwrap() error }: err = v.Unwrap()
            default: return 0 }
            if shallowEqual(err, prev) { return 0 } }
        return 0 }

    func WithCode(err error, code uint64) error {
        if err == nil || code == 0 { return err }
        return &codeErr{err: err, code: code} }

  Go value                               model
  ------------------------------------   ---------------------------------------------------------
  nil error                              `none : Option Err`
  errors.New / fmt.Errorf without %w     `leaf msg`            (no methods)
  *drpcerr.codeErr, custom Code() types  `coded c inner`       (Code(), Cause(), Unwrap(); Error() = inner's)
  *errs.errorT                           `errsT cls inner`     (Cause() and Unwrap() → inner)
  fmt.Errorf("w: %w", inner)             `fmtW inner`          (Unwrap() only)
  custom type, Cause() only              `causeW inner` / `causeNil` (Cause() returns nil)
  custom type, Unwrap() only             `unwrapW inner` / `unwrapNil`
  custom type, Cause() and Unwrap()      `both cause unwrap` / `bothNilCause unwrap` (Cause() = nil)
  custom type returning its receiver     `selfCause` / `selfUnwrap`
  two values pointing at each other      `loop2 phase`
  shallowEqual(err, prev)                the `same` flag of `Step.next` (pointer identity; only the
                                         self-returning types produce it)
  Not modelled: typed-nil pointers inside a non-nil interface (calling their methods panics).
-/
namespace Drpc

/-- ASCII text → bytes -/
def asciiBytes (s : String) : Bytes := s.toList.map (fun c => BitVec.ofNat 8 c.toNat)

inductive Err where
  | leaf (msg : Bytes)
  | coded (c : U64) (inner : Err)
  | errsT (cls : Option Bytes) (inner : Err)
  | fmtW (inner : Err)
  | causeW (inner : Err)
  | causeNil
  | unwrapW (inner : Err)
  | unwrapNil
  | both (cause unwrap : Err)
  | bothNilCause (unwrap : Err)
  | selfCause
  | selfUnwrap
  | loop2 (phase : Bool)
deriving Repr, DecidableEq

/-- What one iteration of the type switch in `Code` sees. -/
inductive Step (α : Type) where
  | code (c : U64)                 -- has Code(): returned immediately
  | next (e : α) (same : Bool)     -- Cause()/Unwrap() returned non-nil `e`; `same` = shallowEqual(e, prev)
  | nextNil                        -- Cause()/Unwrap() returned nil
  | plain                          -- none of the three methods
deriving Repr

/-- The loop of `Code`, for any kind of error value (`view` is the type switch; the values may form
    arbitrary cycles).  `fuel` is the number of iterations left.  Structural recursion on `fuel`:
    the loop terminates whatever `view` does. -/
def codeLoop {α : Type} (view : α → Step α) : Nat → Option α → U64
  | 0, _ => 0                                        -- loop exhausted: `return 0`
  | _ + 1, none => 0                                 -- nil interface: `default: return 0`
  | n + 1, some e =>
    match view e with
    | .code c => c
    | .plain => 0
    | .nextNil => codeLoop view n none               -- shallowEqual(nil, prev) = false
    | .next e' same => if same then 0 else codeLoop view n (some e')

/-- The type switch of `Code` on the inductive model: `Code()` before `Cause()` before `Unwrap()`. -/
def Err.view : Err → Step Err
  | .leaf _ => .plain
  | .coded c _ => .code c
  | .errsT _ i => .next i false
  | .fmtW i => .next i false
  | .causeW i => .next i false
  | .causeNil => .nextNil
  | .unwrapW i => .next i false
  | .unwrapNil => .nextNil
  | .both c _ => .next c false
  | .bothNilCause _ => .nextNil
  | .selfCause => .next .selfCause true
  | .selfUnwrap => .next .selfUnwrap true
  | .loop2 p => .next (.loop2 (!p)) false

/-- number of iterations of the loop in `Code` (`for i := 0; i < 100; i++`) -/
def codeIters : Nat := 100

/-- `drpcerr.Code` -/
def code (e : Option Err) : U64 := codeLoop Err.view codeIters e

/-- `drpcerr.WithCode` on a non-nil error -/
def withCode' (e : Err) (c : U64) : Err := if c = 0#64 then e else .coded c e

/-- `drpcerr.WithCode` -/
def withCode (e : Option Err) (c : U64) : Option Err := e.map (withCode' · c)

/-- `errs.Wrap(err)` (`cls = none`) / `class.Wrap(err)` for a non-nil `err`:
    `(*Class).create`: an `*errorT` is returned unchanged when the class is nil or already the
    outermost class, otherwise a new `*errorT` is put around the error. -/
def errsWrap (cls : Option Bytes) (e : Err) : Err :=
  match e with
  | .errsT cls' _ => if cls = none ∨ cls' = cls then e else .errsT cls e
  | _ => .errsT cls e

def wTag : Bytes := asciiBytes "w: "

/-- `err.Error()`.  `(*errorT).Format`: class name and ": " when the class is non-empty, then the
    inner text when it is non-empty.  The custom test types print a tag around their inner text. -/
def Err.text : Err → Bytes
  | .leaf m => m
  | .coded _ i => i.text
  | .errsT cls i =>
    let c := match cls with | some c => c | none => []
    let t := i.text
    if c.length > 0 then (if t.length > 0 then c ++ asciiBytes ": " ++ t else c)
    else t
  | .fmtW i => wTag ++ i.text
  | .causeW i => asciiBytes "c(" ++ i.text ++ asciiBytes ")"
  | .causeNil => asciiBytes "c(nil)"
  | .unwrapW i => asciiBytes "u(" ++ i.text ++ asciiBytes ")"
  | .unwrapNil => asciiBytes "u(nil)"
  | .both c _ => asciiBytes "b(" ++ c.text ++ asciiBytes ")"
  | .bothNilCause u => asciiBytes "r(" ++ u.text ++ asciiBytes ")"
  | .selfCause => asciiBytes "selfc"
  | .selfUnwrap => asciiBytes "selfu"
  | .loop2 p => if p then asciiBytes "loopb" else asciiBytes "loopa"

/-- Wrappers that carry no `Code()` method themselves (what can sit between the caller and a coded
    error). -/
inductive Wrap where
  | errs (cls : Option Bytes)    -- *errs.errorT
  | fmt                          -- fmt.Errorf("…%w")
  | cause                        -- custom Cause()
  | unwrap                       -- custom Unwrap()
  | both (decoy : Err)           -- custom Cause() (followed) + Unwrap() (→ decoy, ignored)
deriving Repr, DecidableEq

def Wrap.apply : Wrap → Err → Err
  | .errs cls, e => .errsT cls e
  | .fmt, e => .fmtW e
  | .cause, e => .causeW e
  | .unwrap, e => .unwrapW e
  | .both d, e => .both e d

/-- `ws` applied around `e`, head of the list outermost -/
def wrapAll (ws : List Wrap) (e : Err) : Err := ws.foldr Wrap.apply e

end Drpc
