import Drpc.Manager.Dispatch
import Drpc.Props.C03
import Drpc.Props.C11
/-
  C02 — Streams on a reused connection are isolated from each other.
  Property theorems about the two guards that implement isolation (the manager's dispatch by
  stream id and the stream's own id / termination check) and about id allocation.
  The system-level statement over all interleavings of two endpoints is evidenced by the e2e suite
  (payload tags), not proved.
-/
namespace Drpc.Props.C02
open Drpc Drpc.Stream Drpc.Manager

/-- A packet is handed to the current stream only if it carries that stream's id. -/
theorem dispatch_deliver_same_id (curr : Option U64) (sid : U64) (k : Byte) :
    dispatch curr sid k = .deliver ↔ curr = some sid := by
  unfold dispatch
  cases curr with
  | none => simp; split <;> simp
  | some c =>
    simp only [Option.some.injEq]
    constructor
    · intro h
      by_cases hc : sid = c
      · exact hc.symm
      · simp [hc] at h; split at h <;> (try cases h); split at h <;> cases h
    · intro h; simp [h]

/-- Packets of an earlier stream (lower id) are dropped: they reach no stream and wake nobody. -/
theorem dispatch_lower_dropped (c sid : U64) (k : Byte) (h : sid.toNat < c.toNat) :
    dispatch (some c) sid k = .dropOld := by
  unfold dispatch
  have hne : sid ≠ c := by intro e; subst e; omega
  simp [hne, h]

/-- A packet with a higher id is never delivered to the current stream: it is queued for
    `NewServerStream` (invoke kinds) or waits until a stream with a new id exists. -/
theorem dispatch_higher_not_delivered (c sid : U64) (k : Byte) (h : c.toNat < sid.toNat) :
    dispatch (some c) sid k = (if isInvokeKind k then .toInvokeQueue else .waitForStream) := by
  unfold dispatch
  have hne : sid ≠ c := by intro e; subst e; omega
  have hlt : ¬ sid.toNat < c.toNat := by omega
  simp [hne, hlt]

/-- The decision is total and depends only on (current id, packet id, invoke-or-not). -/
theorem dispatch_cases (curr : Option U64) (sid : U64) (k : Byte) :
    dispatch curr sid k = .deliver ∨ dispatch curr sid k = .dropOld ∨
    dispatch curr sid k = .toInvokeQueue ∨ dispatch curr sid k = .waitForStream := by
  cases h : dispatch curr sid k <;> simp

/-- Client stream ids strictly increase (as long as the 64-bit counter does not wrap). -/
theorem client_ids_strictly_increase (curr : Option U64) (h : (curr.getD 0).toNat < 2^64 - 1) :
    (curr.getD 0).toNat < (nextClientId curr).toNat := by
  unfold nextClientId
  have h1 : (1 : U64).toNat = 1 := by decide
  simp only [BitVec.toNat_add, h1]
  omega

/-- Second guard, in the stream itself: a packet carrying a foreign stream id changes nothing and
    returns nil, whatever its kind, control bit and payload, in every state of the stream
    (so even a mis-dispatched packet could not leak into another RPC). -/
theorem stream_ignores_foreign (s : St) (t : Tid) (k : Byte) (ctl : Bool) (d : Bytes) :
    (call s t (.handle k ctl false d)).pc t = .done .nil ∧ (call s t (.handle k ctl false d)).sh = s.sh :=
  C03.foreign_sid_ignored s t k ctl d

/-- … and a packet that arrives after the stream has terminated (closed, cancelled, failed) changes
    nothing either: late packets of RPC n cannot affect anything once RPC n is over. -/
theorem stream_ignores_late (s : St) (t : Tid) (k : Byte) (ctl : Bool) (d : Bytes) (e : Err)
    (ht : s.sh.term = some e) :
    (call s t (.handle k ctl true d)).pc t = .done .nil ∧ (call s t (.handle k ctl true d)).sh = s.sh :=
  C03.packets_after_termination_ignored s t k ctl d e ht

/-- Composition of the two guards: whatever the manager decides, a packet whose id differs from
    the id of the stream it is handed to is a no-op on that stream. -/
theorem no_cross_delivery (s : St) (t : Tid) (streamSid pktSid : U64) (k : Byte) (ctl : Bool) (d : Bytes)
    (hne : pktSid ≠ streamSid) :
    (call s t (asCall streamSid pktSid k ctl d)).sh = s.sh := by
  unfold asCall
  simp only [hne, decide_false]
  exact (C03.foreign_sid_ignored s t k ctl d).2

example : dispatch (some 5#64) 4#64 kindMessage = .dropOld ∧ dispatch (some 5#64) 5#64 kindMessage = .deliver ∧
    dispatch (some 5#64) 6#64 kindInvoke = .toInvokeQueue ∧ dispatch (some 5#64) 6#64 kindCancel = .waitForStream := by
  decide

/-- Per-call metadata is part of an RPC's data: the server attaches to the stream it creates for an
    invoke only the metadata packet that carried that invoke's own stream id.  Metadata sent for any
    other id on the same connection (for example by a call that was abandoned between its metadata and
    its invoke) never reaches the handler of a different RPC.  (Model: `Drpc.Metadata.newServerStream`,
    tied by the scoping family of the meta suite.) -/
theorem metadata_of_other_rpc_not_attached (pre : List Drpc.Metadata.Pkt) (inv : Drpc.Metadata.Pkt)
    (rest : List Drpc.Metadata.Pkt) (hinv : inv.kind = Drpc.Metadata.kindInvoke) (hpre : Drpc.Metadata.Quiet pre)
    (hother : ∀ p ∈ pre, p.kind = Drpc.Metadata.kindInvokeMetadata → p.sid ≠ inv.sid) :
    Drpc.Metadata.newServerStream none (pre ++ inv :: rest) = .stream inv.sid inv.data none rest :=
  Drpc.Props.C11.abandoned_metadata_not_inherited pre inv rest hinv hpre hother

end Drpc.Props.C02
