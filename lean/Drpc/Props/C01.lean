import Drpc.Lemmas.Delivery
import Drpc.Props.C09
import Drpc.Lemmas.StreamPktBuf
import Drpc.Lemmas.StreamInvStep
import Drpc.Lemmas.StreamSendFlush
import Drpc.Lemmas.Roundtrip
/-
  C01 — Per-stream delivery is in-order, exactly-once, uncorrupted and complete: the pure data path.
  Property theorems only; helper lemmas live in Drpc/Lemmas/Delivery.lean.

  Sender side: every message is one packet, cut into frames by `drpcwire.SplitN` / the loop in
  `Stream.rawWriteLocked` (`splitN`), each frame appended to the byte stream by `drpcwire.AppendFrame`
  (`appendFrame`); `encodeAll n pkts` is that byte stream for a batch of packets.
  Receiver side: `drpcwire.Reader` (`drain` = parse + reassemble everything that is complete;
  `readAll` = the read loop over an arbitrarily chunked transport).

  `Sendable rid pkts` is what the sender guarantees about ids (Drpc/Lemmas/Delivery.lean): the first id is
  not below the reader's watermark `rid` and ids strictly increase (lexicographic, unsigned: `ID.Less`).
  Message id 2^64−1 needs no exclusion here: the watermark wraps to (sid, 0) after it, and the only ids
  strictly above (sid, 2^64−1) have a larger stream id.
  The three side conditions are the ranges in which the codec is faithful (C08): 6-bit kinds, payloads
  that fit a Go slice, and payloads within the reader's configured maximum.
-/
namespace Drpc.Props.C01
open Drpc
open Drpc.Props.C09 (observed reference)

/-- What is sent is exactly what is reassembled.  For every batch of packets with sendable ids, every
    split size (`n = 0` ↦ 65536, `n < 0` ↦ no split, any positive `n`), every payload size from 0 up to
    the maximum: the reader returns the very same list — same order, same number, same payload bytes,
    ids, kind and control flag — consumes every byte, holds no partial packet afterwards, and its
    watermark is the id after the last packet. -/
theorem delivery_pure (mx : Nat) (n : Int) (rid : U64 × U64) (pkts : List Packet)
    (hs : Sendable rid pkts)
    (hk : ∀ p ∈ pkts, p.kind.toNat < 64) (hl : ∀ p ∈ pkts, p.data.length < 2^64)
    (hmx : ∀ p ∈ pkts, p.data.length ≤ mx) :
    drain mx rid none (encodeAll n pkts) = (pkts, .stuck (endId rid pkts) none []) := by
  have hshort : parseFrame ([] : Bytes) = .short := by simp [parseFrame]
  have := drain_encodeAll mx n pkts rid [] hs hk hl hmx
  simpa [drain_short hshort] using this

/-- The same through the real read loop of a fresh reader, for every way the transport chunks the
    stream and whatever error it reports at the end: the caller of `ReadPacket` sees exactly the packets
    sent and then the transport's own error (never a ProtocolError). -/
theorem delivery_any_chunking (mx final : Nat) (choose : Nat → Nat) (n : Int) (pkts : List Packet)
    (hs : Sendable (1#64, 1#64) pkts)
    (hk : ∀ p ∈ pkts, p.kind.toNat < 64) (hl : ∀ p ∈ pkts, p.data.length < 2^64)
    (hmx : ∀ p ∈ pkts, p.data.length ≤ mx) :
    observed (readAll mx choose final (encodeAll n pkts)) = (pkts, .transport final) := by
  rw [C09.run_eq_reference]
  simp [reference, delivery_pure mx n _ pkts hs hk hl hmx, refEnd]

/-- If the stream is cut after any number `k` of bytes (connection lost mid-frame, mid-packet,
    anywhere), what the reader returned is a prefix of what was sent: every delivered packet is one of
    the packets sent, whole and unaltered, in order, none skipped, none partial — and the error that
    follows is the transport's. -/
theorem delivery_prefix (mx final : Nat) (choose : Nat → Nat) (n : Int) (pkts : List Packet) (k : Nat)
    (hs : Sendable (1#64, 1#64) pkts)
    (hk : ∀ p ∈ pkts, p.kind.toNat < 64) (hl : ∀ p ∈ pkts, p.data.length < 2^64)
    (hmx : ∀ p ∈ pkts, p.data.length ≤ mx) :
    (observed (readAll mx choose final ((encodeAll n pkts).take k))).1 <+: pkts ∧
    (observed (readAll mx choose final ((encodeAll n pkts).take k))).2 = .transport final := by
  rw [C09.run_eq_reference]
  have hd := delivery_pure mx n _ pkts hs hk hl hmx
  rw [← List.take_append_drop k (encodeAll n pkts)] at hd
  obtain ⟨⟨more, hm⟩, he⟩ := drain_cut mx final _ _ _ _ hd (by simp)
  exact ⟨⟨more, hm.symm⟩, he⟩

/-- Two batches written one after the other (the writes of a stream are serialised, so their frames
    are not interleaved): the byte stream is the concatenation of the two encodings, and the reader
    delivers all of the first batch, then all of the second. -/
theorem delivery_two_writers_order (mx final : Nat) (choose : Nat → Nat) (n : Int) (a b : List Packet)
    (hs : Sendable (1#64, 1#64) (a ++ b))
    (hk : ∀ p ∈ a ++ b, p.kind.toNat < 64) (hl : ∀ p ∈ a ++ b, p.data.length < 2^64)
    (hmx : ∀ p ∈ a ++ b, p.data.length ≤ mx) :
    encodeAll n (a ++ b) = encodeAll n a ++ encodeAll n b ∧
    observed (readAll mx choose final (encodeAll n a ++ encodeAll n b)) = (a ++ b, .transport final) := by
  refine ⟨encodeAll_append n a b, ?_⟩
  rw [← encodeAll_append]
  exact delivery_any_chunking mx final choose n (a ++ b) hs hk hl hmx

/-- The hypotheses are satisfiable: a 3-byte packet that split size 2 cuts into two frames, followed by
    an empty control packet; the instance of `delivery_pure` and of `delivery_any_chunking`
    (one byte per read). -/
example :
    (splitN ⟨[1#8, 2#8, 3#8], 1#64, 1#64, 2#8, false⟩ 2).length = 2 ∧
    drain 100 (1#64, 1#64) none
        (encodeAll 2 [⟨[1#8, 2#8, 3#8], 1#64, 1#64, 2#8, false⟩, ⟨[], 1#64, 2#64, 3#8, true⟩]) =
      ([⟨[1#8, 2#8, 3#8], 1#64, 1#64, 2#8, false⟩, ⟨[], 1#64, 2#64, 3#8, true⟩],
        .stuck (1#64, 3#64) none []) ∧
    observed (readAll 100 (fun _ => 1) 0
        (encodeAll 2 [⟨[1#8, 2#8, 3#8], 1#64, 1#64, 2#8, false⟩, ⟨[], 1#64, 2#64, 3#8, true⟩])) =
      ([⟨[1#8, 2#8, 3#8], 1#64, 1#64, 2#8, false⟩, ⟨[], 1#64, 2#64, 3#8, true⟩], .transport 0) :=
  ⟨by simp [splitN, splitFrames, splitSize],
   delivery_pure 100 2 _ _ (by decide) (by decide) (by decide) (by decide),
   delivery_any_chunking 100 0 _ 2 _ (by decide) (by decide) (by decide) (by decide)⟩

/-- … including across message id 2^64−1 (the reader's watermark wraps to (1, 0); the next larger id
    is on stream 2). -/
example :
    drain 100 (1#64, 1#64) none
        (encodeAll 0 [⟨[9#8], 1#64, 0xFFFFFFFFFFFFFFFF#64, 2#8, false⟩, ⟨[7#8], 2#64, 0#64, 1#8, false⟩]) =
      ([⟨[9#8], 1#64, 0xFFFFFFFFFFFFFFFF#64, 2#8, false⟩, ⟨[7#8], 2#64, 0#64, 1#8, false⟩],
        .stuck (2#64, 1#64) none []) :=
  delivery_pure 100 0 _ _ (by decide) (by decide) (by decide) (by decide)

open Drpc.Stream

/-! ## Level 2: the stream's one-slot packet buffer (`drpcstream/pktbuf.go`) in the atomic-step
    model, for every reachable state (any number of concurrent `HandlePacket` / `MsgRecv` /
    terminating calls).  `putLog` = payloads stored by `Put`, `getLog` = payloads handed out by
    `Get`, both in order (ghost fields). -/

/-- FIFO, exactly-once: what has been handed out is a prefix of what was stored — same payloads,
    same order, none twice, none skipped — and at most one stored payload is not yet handed out. -/
theorem pktbuf_fifo {s : St} (h : Reach s) :
    s.sh.getLog <+: s.sh.putLog ∧ s.sh.getLog.length ≤ s.sh.putLog.length ∧
    s.sh.putLog.length ≤ s.sh.getLog.length + 1 := by
  have pb := (reach_pktbuf h).pb
  have key : s.sh.putLog = s.sh.getLog ∨ ∃ d, s.sh.putLog = s.sh.getLog ++ [d] := by
    cases hps : s.sh.pset with
    | false =>
      rcases pb.empty hps with h1 | ⟨_, h1⟩
      · exact .inl h1
      · exact .inr h1
    | true =>
      cases hph : s.sh.pheld with
      | false => exact .inr ⟨_, pb.stored hps hph⟩
      | true => exact .inl (pb.lent hph).1
  rcases key with h1 | ⟨d, h1⟩ <;> rw [h1] <;> simp

/-- The only payload that can be lost is the one stored and not yet handed out when the buffer is
    closed with an error; while the buffer is open (`perr = none`) and the slot is empty, everything
    stored has been handed out. -/
theorem pktbuf_nothing_lost_while_open {s : St} (h : Reach s) (he : s.sh.perr = none) (hs : s.sh.pset = false) :
    s.sh.putLog = s.sh.getLog := by
  rcases (reach_pktbuf h).pb.empty hs with h1 | ⟨h1, _⟩
  · exact h1
  · rw [he] at h1; cases h1

/-- The lent buffer is not overwritten: while `held` is set (a receive is between `Get` and `Done`)
    the slot is occupied and the buffer open, and the only step of any thread that changes the
    packet buffer or its logs is the `Done` of the receive holding it … -/
theorem pktbuf_lend {s s' : St} {t : Tid} (h : Reach s) (hh : s.sh.pheld = true) (hs : step s t = some s') :
    (s.sh.pset = true ∧ s.sh.perr = none) ∧
    ((∃ r, s.pc t = .pdone r) ∨
     (s'.sh.pset = s.sh.pset ∧ s'.sh.pheld = true ∧ s'.sh.pdata = s.sh.pdata ∧ s'.sh.perr = s.sh.perr ∧
      s'.sh.putLog = s.sh.putLog ∧ s'.sh.getLog = s.sh.getLog)) :=
  ⟨(reach_pktbuf h).pb.held hh, step_lend hs (reach_locks h) (reach_pktbuf h) hh⟩

/-- … in particular a `Put` (either phase) and a `Close` of the buffer wait. -/
theorem pktbuf_lend_blocks {s : St} {t : Tid} (h : Reach s) (hh : s.sh.pheld = true) :
    (∀ d, s.pc t = .put1 d → step s t = none) ∧ (s.pc t = .put2 → step s t = none) ∧
    (∀ e c, s.pc t = .tClose e c → step s t = none) ∧ (∀ c, s.pc t = .hPClose c → step s t = none) := by
  obtain ⟨hps, hpe⟩ := (reach_pktbuf h).pb.held hh
  refine ⟨?_, ?_, ?_, ?_⟩ <;> intros <;> simp [step, stepPC, *]

/-- `Put` returns only after consumption: the thread leaves the second phase of `Put` only when
    nothing is lent and every payload stored so far (its own included) has been handed out — or
    the buffer has been closed with an error. -/
theorem put_returns_only_after_consumption {s s' : St} {t : Tid} (h : Reach s) (hp : s.pc t = .put2)
    (hs : step s t = some s') :
    s.sh.pheld = false ∧ (s.sh.putLog = s.sh.getLog ∨ s.sh.perr.isSome = true) := by
  simp only [step, hp, stepPC] at hs
  split at hs
  · cases hs
  · rename_i hc
    simp only [Bool.or_eq_true, not_or, Bool.not_eq_true] at hc
    refine ⟨hc.2, ?_⟩
    rcases (reach_pktbuf h).pb.empty hc.1 with h1 | ⟨h1, _⟩
    · exact .inl h1
    · exact .inr h1

/-- A receive returns what was put: the payload a `MsgRecv` holds between `Get` and `Done`, and
    the payload it is about to return, is the one handed out last, and by `pktbuf_fifo` that is the
    stored payload at the same position of `putLog`. -/
theorem recv_returns_what_was_put {s : St} {t : Tid} (h : Reach s) :
    (∀ d m, s.pc t = .unmarshal d m → s.sh.getLog.getLast? = some d ∧ d ∈ s.sh.putLog) ∧
    (∀ d, s.pc t = .pdone (.data d) → s.sh.getLog.getLast? = some d ∧ d ∈ s.sh.putLog) := by
  have hl := (reach_pktbuf h).recvLast t
  have hpre := (pktbuf_fifo h).1
  have mem : ∀ d, s.sh.getLog.getLast? = some d → d ∈ s.sh.putLog := by
    intro d hd
    exact hpre.subset (List.mem_of_getLast? hd)
  constructor
  · intro d m hp
    have := hl d (by simp [hp])
    exact ⟨this, mem d this⟩
  · intro d hp
    have := hl d (by simp [hp])
    exact ⟨this, mem d this⟩

/-- non-vacuity: a `KindMessage` packet handled by thread 0 (which then waits in `Put` for the
    consumer) and a `MsgRecv` by thread 1 that returns exactly that payload: both logs hold it,
    the slot is free again, and thread 0 may now leave `Put`. -/
example :
    let s := call (call {} 0 (.handle kindMessage false true [7#8])) 1 (.msgRecv {})
    Reach s ∧ s.pc 0 = .put2 ∧ s.pc 1 = .done (.data [7#8]) ∧ s.sh.putLog = [[7#8]] ∧ s.sh.getLog = [[7#8]] ∧
    s.sh.pset = false ∧ s.sh.pheld = false ∧ (step s 0).isSome = true := by
  refine ⟨reach_call _ (reach_call _ (Reach.init {}) ⟨_, rfl⟩) ⟨.nil, by decide⟩, by decide, by decide, by decide,
    by decide, by decide, by decide, by decide⟩

/-! ## Level 3: the sender side of "delivery is complete", on the atomic-step stream model, for
    every reachable state.  Ghosts: `started` = one record per `id.Message++` (message id, kind,
    payload, frames, the call), `sendRets` = the result of every send section (MsgSend / RawWrite)
    at its `write.Unlock`: (thread, message id, result, "the section ended with rawFlushLocked").
    All under the no-wrap hypothesis `midN < 2^64` on the 64-bit message counter. -/

/-- The recorded result is the result of the call: at the `write.Unlock` of a send section
    (`checks`; not MsgRecv's inner flush) the result `r` is appended to `sendRets` under the
    section's message id, and `r` is what the call returns (`retOf`, see
    `C05.reported_result_is_returned`). -/
theorem send_result_recorded {s s' : St} {t : Tid} {sec : WSec} {r : Ret} (hp : s.pc t = .unlockW sec r)
    (hck : sec.checks = true) (hra : sec.recvAfter = none) (hs : step s t = some s') :
    s'.sh.sendRets = s.sh.sendRets ++ [(t, s.sh.mid, r, decide (sec.flush = .checked))] ∧
    retOf (s'.pc t) = some r := by
  simp only [step, hp, stepPC, hck, hra, if_true] at hs
  cases hs
  simp

/-- (1) A MsgSend that returned nil has reached the wire.  If a send section of thread `t` with
    message id `m` ended with result nil (`(t, m, .nil, fl) ∈ sendRets`), then the message was
    started (`rec`), ALL its frames were appended (`hist` restricted to `m` = `rec.frames`), and if
    the section ended with the flush (`fl = true`) all of them are in COMPLETED transport writes:
    `wire.flatten` restricted to `m` = `rec.frames` — every frame, in order, exactly once.
    For a MsgSend (`rec.call = msgSend d _`) the frames are `framesOf opts m KindMessage d` and
    `fl` is true exactly when the stream is not in ManualFlush mode. -/
theorem send_nil_means_on_wire {s : St} (h : Reach s) (hnw : s.sh.midN < 2^64) {t : Tid} {m : U64} {fl : Bool}
    (hx : (t, m, Ret.nil, fl) ∈ s.sh.sendRets) :
    ∃ rec ∈ s.sh.started, rec.mid = m ∧
      s.sh.hist.filter (fun f => f.mid == m) = rec.frames ∧
      (fl = true → s.sh.wire.flatten.filter (fun f => f.mid == m) = rec.frames) ∧
      (∀ d p, rec.call = .msgSend d p →
        rec.frames = framesOf s.opts m kindMessage d ∧ fl = !s.opts.manualFlush) := by
  obtain ⟨rec, hr, hm, hh, hw⟩ := (reach_msgs h hnw).rets _ hx rfl
  simp only at hm hw
  subst hm
  refine ⟨rec, hr, rfl, hh, ?_, ?_⟩
  · intro hfl
    have p1 := hw hfl
    have hl : s.sh.wire.flatten <+: live s.sh := ⟨inflightFrames s.sh ++ s.sh.wbuf, by simp [live]⟩
    have p2 : s.sh.wire.flatten.filter (midIs rec.mid) <+: rec.frames :=
      hh ▸ (hl.filter _).trans ((reach_whole h hnw).pre rec.mid)
    exact p2.eq_of_length_le p1.length_le
  · intro d p hc
    have hfl := (reach_msgFlush h hnw).retsF _ hx rec hr rfl (by simp [hc])
    refine ⟨?_, hfl⟩
    rcases (reach_msgs h hnw).sOK rec hr with ⟨p', h1, _, h3⟩ | ⟨h1, _⟩ | ⟨h1, _⟩
    · rw [hc] at h1; cases h1; exact h3
    · rw [hc] at h1; cases h1
    · rw [hc] at h1; cases h1

/-- In particular, the form asked for: a `MsgSend d` that was given message id `m` and returned nil
    on a stream that is not in ManualFlush mode has every frame of `framesOf opts m KindMessage d`
    in completed transport writes, in order, exactly once. -/
theorem msgSend_nil_means_on_wire {s : St} (h : Reach s) (hnw : s.sh.midN < 2^64) {t : Tid} {m : U64} {fl : Bool}
    (hx : (t, m, Ret.nil, fl) ∈ s.sh.sendRets) (hmf : s.opts.manualFlush = false)
    {rec : Started} (hr : rec ∈ s.sh.started) (hm : rec.mid = m) {d : Bytes} {p : Bool}
    (hc : rec.call = .msgSend d p) :
    s.sh.wire.flatten.filter (fun f => f.mid == m) = framesOf s.opts m kindMessage d := by
  obtain ⟨rec', hr', hm', _, hw, hcall⟩ := send_nil_means_on_wire h hnw hx
  have : rec' = rec := pairwise_mid_inj (reach_msgs h hnw).sInc hr' hr (hm'.trans hm.symm)
  subst this
  obtain ⟨h1, h2⟩ := hcall d p hc
  rw [hw (by rw [h2, hmf]; rfl), h1]

/-- With ManualFlush (and for RawWrite) the frames are buffered: when the send section has appended
    everything and nothing failed — in particular at the moment it is about to return nil — all
    frames of its message are in completed writes, the write in flight, or the writer's buffer
    (`live`), in order, exactly once … -/
theorem send_nil_means_buffered_or_on_wire {s : St} (h : Reach s) (hnw : s.sh.midN < 2^64) {t : Tid}
    (hc : complete (s.pc t) = true) :
    ∃ rec, s.sh.started.getLast? = some rec ∧ rec.mid = s.sh.mid ∧
      s.sh.hist.filter (fun f => f.mid == s.sh.mid) = rec.frames ∧
      (live s.sh).filter (fun f => f.mid == s.sh.mid) = rec.frames :=
  (reach_msgs h hnw).done t hc

/-- … and the next successful transport write (a later RawFlush, the flush of a later MsgSend or of
    MsgRecv, or a WriteFrame reaching the threshold) moves everything buffered to the wire. -/
theorem successful_write_moves_buffer_to_wire {s s' : St} (h : Reach s) (he : envStep s (.release none) = some s') :
    live s'.sh = live s.sh ∧ s'.sh.wbuf = [] ∧ s'.sh.inflight = none ∧ live s'.sh = s'.sh.wire.flatten := by
  obtain ⟨t, frs, hi, hs⟩ := release_ok he
  have hb := reach_inflightBuf h (by simp [hi])
  rw [hs]
  refine ⟨live_relSh_ok _ t frs hi, by simp [relSh, hb], by simp [relSh], ?_⟩
  simp [live, relSh, inflightFrames, hb]

theorem packetOf_kind_ne (o : Opts) (m : U64) (c : Call) : (packetOf o m c).kind ≠ kindMessage := by
  cases c <;> simp [packetOf, kindMessage, kindClose, kindError, kindCloseSend, kindCancel]

/-- (2) What is on the wire was sent.  Every frame `f` in a completed transport write belongs to a
    started message `rec` (same id); the frames of that id on the wire are an initial segment of
    `rec.frames` (whole, cut short by a failed write or a refused send, never more); and if `f` is
    a KindMessage frame, `rec` was started by `MsgSend rec.data` (or `RawWrite KindMessage rec.data`),
    its frames are the split of that payload, and concatenating their data gives the payload back. -/
theorem wire_is_concatenation_of_sent_messages {s : St} (h : Reach s) (hnw : s.sh.midN < 2^64) :
    ∀ f ∈ s.sh.wire.flatten, ∃ rec ∈ s.sh.started, rec.mid = f.mid ∧
      s.sh.wire.flatten.filter (fun g => g.mid == f.mid) <+: rec.frames ∧
      (f.kind = kindMessage →
        ((∃ p, rec.call = .msgSend rec.data p) ∨ rec.call = .rawWrite kindMessage rec.data) ∧
        rec.frames = framesOf s.opts rec.mid kindMessage rec.data ∧
        (rec.frames.map (·.data)).flatten = rec.data) := by
  intro f hf
  have ms := reach_msgs h hnw
  have hl : s.sh.wire.flatten <+: live s.sh := ⟨inflightFrames s.sh ++ s.sh.wbuf, by simp [live]⟩
  have hfh : f ∈ s.sh.hist := (hl.sublist.trans (reach_sublist h)).subset hf
  obtain ⟨rec, hr, hm⟩ := ms.cover f hfh
  have hpre : s.sh.wire.flatten.filter (midIs rec.mid) <+: rec.frames :=
    ((hl.filter _).trans ((reach_whole h hnw).pre rec.mid)).trans (ms.pre rec hr)
  have hfr : f ∈ rec.frames := by
    apply hpre.subset
    exact List.mem_filter.mpr ⟨hf, by simp [midIs, hm]⟩
  refine ⟨rec, hr, hm, hm ▸ hpre, ?_⟩
  intro hk
  rcases ms.sOK rec hr with ⟨p, h1, h2, h3⟩ | ⟨h1, h3⟩ | ⟨_, h3, h4⟩
  · exact ⟨.inl ⟨p, h1⟩, h3, by rw [h3]; exact splitFrames_concat _ _ _ _ _ _⟩
  · have hkk : rec.kind = kindMessage := by
      rw [h3] at hfr
      rw [← (splitFrames_header _ _ _ _ _ _ f hfr).2.2.1, hk]
    rw [hkk] at h1 h3
    exact ⟨.inr h1, h3, by rw [h3]; exact splitFrames_concat _ _ _ _ _ _⟩
  · exfalso
    rw [h3] at hfr
    simp only [List.mem_singleton] at hfr
    rw [hfr] at hk
    exact packetOf_kind_ne _ _ _ hk

/-- … each started message has its own id, increasing in the order the calls took them (so each
    payload appears under one id only), and the frames on the wire are in the order of their ids. -/
theorem wire_in_message_id_order {s : St} (h : Reach s) (hnw : s.sh.midN < 2^64) :
    s.sh.started.Pairwise (fun a b => a.mid.toNat < b.mid.toNat) ∧
    s.sh.wire.flatten.Pairwise (fun a b => a.mid.toNat ≤ b.mid.toNat) := by
  refine ⟨(reach_msgs h hnw).sInc, ?_⟩
  have hl : s.sh.wire.flatten <+: live s.sh := ⟨inflightFrames s.sh ++ s.sh.wbuf, by simp [live]⟩
  have hwf : WellFormed s.opts.sid s.sh.hist = true := WellFormed.prefix ((reach_wire h).wf hnw 0)
  have hp := (WellFormed.spec hwf).2.sublist (hl.sublist.trans (reach_sublist h))
  refine hp.imp ?_
  intro a b hab
  rcases hab with h1 | ⟨h1, _, _⟩
  · omega
  · rw [h1]; exact Nat.le_refl _

/-- The complete direction: as long as no transport write has failed, nothing appended is lost —
    completed writes ++ write in flight ++ buffer is exactly the history; with
    `send_nil_means_on_wire` every message whose (flushing) send returned nil is whole on the wire. -/
theorem no_failure_nothing_lost {s : St} (h : Reach s) (hok : s.sh.failed = false) : live s.sh = s.sh.hist :=
  (reach_wire h).flat hok

/-- non-vacuity: writer threshold 0, `MsgSend [7]` = one frame `f`; the transport write succeeds and
    the call returns nil: the result is recorded with the flush flag, the message is started,
    appended and on the wire — the hypotheses of `send_nil_means_on_wire` /
    `msgSend_nil_means_on_wire` hold in a reachable state. -/
theorem send_nil_example :
    call SendEx.g0 0 (.msgSend [7#8]) = SendEx.g1 ∧ envStep SendEx.g1 (.release none) = some SendEx.g2 ∧
    runSolo 64 SendEx.g2 0 = SendEx.g3 ∧ Reach SendEx.g3 ∧ SendEx.g3.sh.midN < 2^64 ∧
    SendEx.g3.pc 0 = .done .nil ∧ (0, 1#64, Ret.nil, true) ∈ SendEx.g3.sh.sendRets ∧
    SendEx.g3.opts.manualFlush = false ∧ SendEx.rec1 ∈ SendEx.g3.sh.started ∧
    SendEx.rec1.call = .msgSend [7#8] false ∧ SendEx.g3.sh.wire = [[SendEx.f]] := by
  have r1 : Reach SendEx.g1 := SendEx.g01 ▸ reach_call _ (Reach.init _) ⟨_, rfl⟩
  have r3 : Reach SendEx.g3 := SendEx.g23 ▸ reach_runSolo _ _ (r1.env SendEx.g12)
  exact ⟨SendEx.g01, SendEx.g12, SendEx.g23, r3, by decide, rfl, by simp [SendEx.g3], rfl,
    by simp [SendEx.g3], rfl, rfl⟩

end Drpc.Props.C01
