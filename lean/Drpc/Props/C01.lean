import Drpc.Lemmas.Delivery
import Drpc.Props.C09
/-
  C01 — Per-stream delivery is in-order, exactly-once, uncorrupted and complete: the pure data path.
  Property theorems only; helper lemmas live in Drpc/Lemmas/Delivery.lean.

  Sender side: every message is one packet, cut into frames by `drpcwire.SplitN` / the loop in
  `Stream.rawWriteLocked` (`splitN`), each frame appended to the byte stream by `drpcwire.AppendFrame`
  (`appendFrame`); `encodeAll n pkts` is that byte stream for a batch of packets.
  Receiver side: `drpcwire.Reader` (`drain` = parse + reassemble everything that is complete;
  `readAll` = the read loop over an arbitrarily chunked transport).

  `Sendable rid pkts` is what the sender guarantees about ids (Drpc/Lemmas/Delivery.lean): the first id is
  not below the reader's watermark `rid` and ids strictly increase (lexicographic, unsigned: `ID.Less`).
  Message id 2^64−1 needs no exclusion here: the watermark wraps to (sid, 0) after it, and the only ids
  strictly above (sid, 2^64−1) have a larger stream id.
  The three side conditions are the ranges in which the codec is faithful (C08): 6-bit kinds, payloads
  that fit a Go slice, and payloads within the reader's configured maximum.
-/
namespace Drpc.Props.C01
open Drpc
open Drpc.Props.C09 (observed reference)

/-- What is sent is exactly what is reassembled.  For every batch of packets with sendable ids, every
    split size (`n = 0` ↦ 65536, `n < 0` ↦ no split, any positive `n`), every payload size from 0 up to
    the maximum: the reader returns the very same list — same order, same number, same payload bytes,
    ids, kind and control flag — consumes every byte, holds no partial packet afterwards, and its
    watermark is the id after the last packet. -/
theorem delivery_pure (mx : Nat) (n : Int) (rid : U64 × U64) (pkts : List Packet)
    (hs : Sendable rid pkts)
    (hk : ∀ p ∈ pkts, p.kind.toNat < 64) (hl : ∀ p ∈ pkts, p.data.length < 2^64)
    (hmx : ∀ p ∈ pkts, p.data.length ≤ mx) :
    drain mx rid none (encodeAll n pkts) = (pkts, .stuck (endId rid pkts) none []) := by
  have hshort : parseFrame ([] : Bytes) = .short := by simp [parseFrame]
  have := drain_encodeAll mx n pkts rid [] hs hk hl hmx
  simpa [drain_short hshort] using this

/-- The same through the real read loop of a fresh reader, for every way the transport chunks the
    stream and whatever error it reports at the end: the caller of `ReadPacket` sees exactly the packets
    sent and then the transport's own error (never a ProtocolError). -/
theorem delivery_any_chunking (mx final : Nat) (choose : Nat → Nat) (n : Int) (pkts : List Packet)
    (hs : Sendable (1#64, 1#64) pkts)
    (hk : ∀ p ∈ pkts, p.kind.toNat < 64) (hl : ∀ p ∈ pkts, p.data.length < 2^64)
    (hmx : ∀ p ∈ pkts, p.data.length ≤ mx) :
    observed (readAll mx choose final (encodeAll n pkts)) = (pkts, .transport final) := by
  rw [C09.run_eq_reference]
  simp [reference, delivery_pure mx n _ pkts hs hk hl hmx, refEnd]

/-- If the stream is cut after any number `k` of bytes (connection lost mid-frame, mid-packet,
    anywhere), what the reader returned is a prefix of what was sent: every delivered packet is one of
    the packets sent, whole and unaltered, in order, none skipped, none partial — and the error that
    follows is the transport's. -/
theorem delivery_prefix (mx final : Nat) (choose : Nat → Nat) (n : Int) (pkts : List Packet) (k : Nat)
    (hs : Sendable (1#64, 1#64) pkts)
    (hk : ∀ p ∈ pkts, p.kind.toNat < 64) (hl : ∀ p ∈ pkts, p.data.length < 2^64)
    (hmx : ∀ p ∈ pkts, p.data.length ≤ mx) :
    (observed (readAll mx choose final ((encodeAll n pkts).take k))).1 <+: pkts ∧
    (observed (readAll mx choose final ((encodeAll n pkts).take k))).2 = .transport final := by
  rw [C09.run_eq_reference]
  have hd := delivery_pure mx n _ pkts hs hk hl hmx
  rw [← List.take_append_drop k (encodeAll n pkts)] at hd
  obtain ⟨⟨more, hm⟩, he⟩ := drain_cut mx final _ _ _ _ hd (by simp)
  exact ⟨⟨more, hm.symm⟩, he⟩

/-- Two batches written one after the other (the writes of a stream are serialised, so their frames
    are not interleaved): the byte stream is the concatenation of the two encodings, and the reader
    delivers all of the first batch, then all of the second. -/
theorem delivery_two_writers_order (mx final : Nat) (choose : Nat → Nat) (n : Int) (a b : List Packet)
    (hs : Sendable (1#64, 1#64) (a ++ b))
    (hk : ∀ p ∈ a ++ b, p.kind.toNat < 64) (hl : ∀ p ∈ a ++ b, p.data.length < 2^64)
    (hmx : ∀ p ∈ a ++ b, p.data.length ≤ mx) :
    encodeAll n (a ++ b) = encodeAll n a ++ encodeAll n b ∧
    observed (readAll mx choose final (encodeAll n a ++ encodeAll n b)) = (a ++ b, .transport final) := by
  refine ⟨encodeAll_append n a b, ?_⟩
  rw [← encodeAll_append]
  exact delivery_any_chunking mx final choose n (a ++ b) hs hk hl hmx

/-- The hypotheses are satisfiable: a 3-byte packet that split size 2 cuts into two frames, followed by
    an empty control packet; the instance of `delivery_pure` and of `delivery_any_chunking`
    (one byte per read). -/
example :
    (splitN ⟨[1#8, 2#8, 3#8], 1#64, 1#64, 2#8, false⟩ 2).length = 2 ∧
    drain 100 (1#64, 1#64) none
        (encodeAll 2 [⟨[1#8, 2#8, 3#8], 1#64, 1#64, 2#8, false⟩, ⟨[], 1#64, 2#64, 3#8, true⟩]) =
      ([⟨[1#8, 2#8, 3#8], 1#64, 1#64, 2#8, false⟩, ⟨[], 1#64, 2#64, 3#8, true⟩],
        .stuck (1#64, 3#64) none []) ∧
    observed (readAll 100 (fun _ => 1) 0
        (encodeAll 2 [⟨[1#8, 2#8, 3#8], 1#64, 1#64, 2#8, false⟩, ⟨[], 1#64, 2#64, 3#8, true⟩])) =
      ([⟨[1#8, 2#8, 3#8], 1#64, 1#64, 2#8, false⟩, ⟨[], 1#64, 2#64, 3#8, true⟩], .transport 0) :=
  ⟨by simp [splitN, splitFrames, splitSize],
   delivery_pure 100 2 _ _ (by decide) (by decide) (by decide) (by decide),
   delivery_any_chunking 100 0 _ 2 _ (by decide) (by decide) (by decide) (by decide)⟩

/-- … including across message id 2^64−1 (the reader's watermark wraps to (1, 0); the next larger id
    is on stream 2). -/
example :
    drain 100 (1#64, 1#64) none
        (encodeAll 0 [⟨[9#8], 1#64, 0xFFFFFFFFFFFFFFFF#64, 2#8, false⟩, ⟨[7#8], 2#64, 0#64, 1#8, false⟩]) =
      ([⟨[9#8], 1#64, 0xFFFFFFFFFFFFFFFF#64, 2#8, false⟩, ⟨[7#8], 2#64, 0#64, 1#8, false⟩],
        .stuck (2#64, 1#64) none []) :=
  delivery_pure 100 0 _ _ (by decide) (by decide) (by decide) (by decide)

end Drpc.Props.C01
