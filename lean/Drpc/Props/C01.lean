import Drpc.Lemmas.Delivery
import Drpc.Props.C09
import Drpc.Lemmas.StreamPktBuf
import Drpc.Lemmas.StreamInvStep
/-
  C01 — Per-stream delivery is in-order, exactly-once, uncorrupted and complete: the pure data path.
  Property theorems only; helper lemmas live in Drpc/Lemmas/Delivery.lean.

  Sender side: every message is one packet, cut into frames by `drpcwire.SplitN` / the loop in
  `Stream.rawWriteLocked` (`splitN`), each frame appended to the byte stream by `drpcwire.AppendFrame`
  (`appendFrame`); `encodeAll n pkts` is that byte stream for a batch of packets.
  Receiver side: `drpcwire.Reader` (`drain` = parse + reassemble everything that is complete;
  `readAll` = the read loop over an arbitrarily chunked transport).

  `Sendable rid pkts` is what the sender guarantees about ids (Drpc/Lemmas/Delivery.lean): the first id is
  not below the reader's watermark `rid` and ids strictly increase (lexicographic, unsigned: `ID.Less`).
  Message id 2^64−1 needs no exclusion here: the watermark wraps to (sid, 0) after it, and the only ids
  strictly above (sid, 2^64−1) have a larger stream id.
  The three side conditions are the ranges in which the codec is faithful (C08): 6-bit kinds, payloads
  that fit a Go slice, and payloads within the reader's configured maximum.
-/
namespace Drpc.Props.C01
open Drpc
open Drpc.Props.C09 (observed reference)

/-- What is sent is exactly what is reassembled.  For every batch of packets with sendable ids, every
    split size (`n = 0` ↦ 65536, `n < 0` ↦ no split, any positive `n`), every payload size from 0 up to
    the maximum: the reader returns the very same list — same order, same number, same payload bytes,
    ids, kind and control flag — consumes every byte, holds no partial packet afterwards, and its
    watermark is the id after the last packet. -/
theorem delivery_pure (mx : Nat) (n : Int) (rid : U64 × U64) (pkts : List Packet)
    (hs : Sendable rid pkts)
    (hk : ∀ p ∈ pkts, p.kind.toNat < 64) (hl : ∀ p ∈ pkts, p.data.length < 2^64)
    (hmx : ∀ p ∈ pkts, p.data.length ≤ mx) :
    drain mx rid none (encodeAll n pkts) = (pkts, .stuck (endId rid pkts) none []) := by
  have hshort : parseFrame ([] : Bytes) = .short := by simp [parseFrame]
  have := drain_encodeAll mx n pkts rid [] hs hk hl hmx
  simpa [drain_short hshort] using this

/-- The same through the real read loop of a fresh reader, for every way the transport chunks the
    stream and whatever error it reports at the end: the caller of `ReadPacket` sees exactly the packets
    sent and then the transport's own error (never a ProtocolError). -/
theorem delivery_any_chunking (mx final : Nat) (choose : Nat → Nat) (n : Int) (pkts : List Packet)
    (hs : Sendable (1#64, 1#64) pkts)
    (hk : ∀ p ∈ pkts, p.kind.toNat < 64) (hl : ∀ p ∈ pkts, p.data.length < 2^64)
    (hmx : ∀ p ∈ pkts, p.data.length ≤ mx) :
    observed (readAll mx choose final (encodeAll n pkts)) = (pkts, .transport final) := by
  rw [C09.run_eq_reference]
  simp [reference, delivery_pure mx n _ pkts hs hk hl hmx, refEnd]

/-- If the stream is cut after any number `k` of bytes (connection lost mid-frame, mid-packet,
    anywhere), what the reader returned is a prefix of what was sent: every delivered packet is one of
    the packets sent, whole and unaltered, in order, none skipped, none partial — and the error that
    follows is the transport's. -/
theorem delivery_prefix (mx final : Nat) (choose : Nat → Nat) (n : Int) (pkts : List Packet) (k : Nat)
    (hs : Sendable (1#64, 1#64) pkts)
    (hk : ∀ p ∈ pkts, p.kind.toNat < 64) (hl : ∀ p ∈ pkts, p.data.length < 2^64)
    (hmx : ∀ p ∈ pkts, p.data.length ≤ mx) :
    (observed (readAll mx choose final ((encodeAll n pkts).take k))).1 <+: pkts ∧
    (observed (readAll mx choose final ((encodeAll n pkts).take k))).2 = .transport final := by
  rw [C09.run_eq_reference]
  have hd := delivery_pure mx n _ pkts hs hk hl hmx
  rw [← List.take_append_drop k (encodeAll n pkts)] at hd
  obtain ⟨⟨more, hm⟩, he⟩ := drain_cut mx final _ _ _ _ hd (by simp)
  exact ⟨⟨more, hm.symm⟩, he⟩

/-- Two batches written one after the other (the writes of a stream are serialised, so their frames
    are not interleaved): the byte stream is the concatenation of the two encodings, and the reader
    delivers all of the first batch, then all of the second. -/
theorem delivery_two_writers_order (mx final : Nat) (choose : Nat → Nat) (n : Int) (a b : List Packet)
    (hs : Sendable (1#64, 1#64) (a ++ b))
    (hk : ∀ p ∈ a ++ b, p.kind.toNat < 64) (hl : ∀ p ∈ a ++ b, p.data.length < 2^64)
    (hmx : ∀ p ∈ a ++ b, p.data.length ≤ mx) :
    encodeAll n (a ++ b) = encodeAll n a ++ encodeAll n b ∧
    observed (readAll mx choose final (encodeAll n a ++ encodeAll n b)) = (a ++ b, .transport final) := by
  refine ⟨encodeAll_append n a b, ?_⟩
  rw [← encodeAll_append]
  exact delivery_any_chunking mx final choose n (a ++ b) hs hk hl hmx

/-- The hypotheses are satisfiable: a 3-byte packet that split size 2 cuts into two frames, followed by
    an empty control packet; the instance of `delivery_pure` and of `delivery_any_chunking`
    (one byte per read). -/
example :
    (splitN ⟨[1#8, 2#8, 3#8], 1#64, 1#64, 2#8, false⟩ 2).length = 2 ∧
    drain 100 (1#64, 1#64) none
        (encodeAll 2 [⟨[1#8, 2#8, 3#8], 1#64, 1#64, 2#8, false⟩, ⟨[], 1#64, 2#64, 3#8, true⟩]) =
      ([⟨[1#8, 2#8, 3#8], 1#64, 1#64, 2#8, false⟩, ⟨[], 1#64, 2#64, 3#8, true⟩],
        .stuck (1#64, 3#64) none []) ∧
    observed (readAll 100 (fun _ => 1) 0
        (encodeAll 2 [⟨[1#8, 2#8, 3#8], 1#64, 1#64, 2#8, false⟩, ⟨[], 1#64, 2#64, 3#8, true⟩])) =
      ([⟨[1#8, 2#8, 3#8], 1#64, 1#64, 2#8, false⟩, ⟨[], 1#64, 2#64, 3#8, true⟩], .transport 0) :=
  ⟨by simp [splitN, splitFrames, splitSize],
   delivery_pure 100 2 _ _ (by decide) (by decide) (by decide) (by decide),
   delivery_any_chunking 100 0 _ 2 _ (by decide) (by decide) (by decide) (by decide)⟩

/-- … including across message id 2^64−1 (the reader's watermark wraps to (1, 0); the next larger id
    is on stream 2). -/
example :
    drain 100 (1#64, 1#64) none
        (encodeAll 0 [⟨[9#8], 1#64, 0xFFFFFFFFFFFFFFFF#64, 2#8, false⟩, ⟨[7#8], 2#64, 0#64, 1#8, false⟩]) =
      ([⟨[9#8], 1#64, 0xFFFFFFFFFFFFFFFF#64, 2#8, false⟩, ⟨[7#8], 2#64, 0#64, 1#8, false⟩],
        .stuck (2#64, 1#64) none []) :=
  delivery_pure 100 0 _ _ (by decide) (by decide) (by decide) (by decide)

open Drpc.Stream

/-! ## Level 2: the stream's one-slot packet buffer (`drpcstream/pktbuf.go`) in the atomic-step
    model, for every reachable state (any number of concurrent `HandlePacket` / `MsgRecv` /
    terminating calls).  `putLog` = payloads stored by `Put`, `getLog` = payloads handed out by
    `Get`, both in order (ghost fields). -/

/-- FIFO, exactly-once: what has been handed out is a prefix of what was stored — same payloads,
    same order, none twice, none skipped — and at most one stored payload is not yet handed out. -/
theorem pktbuf_fifo {s : St} (h : Reach s) :
    s.sh.getLog <+: s.sh.putLog ∧ s.sh.getLog.length ≤ s.sh.putLog.length ∧
    s.sh.putLog.length ≤ s.sh.getLog.length + 1 := by
  have pb := (reach_pktbuf h).pb
  have key : s.sh.putLog = s.sh.getLog ∨ ∃ d, s.sh.putLog = s.sh.getLog ++ [d] := by
    cases hps : s.sh.pset with
    | false =>
      rcases pb.empty hps with h1 | ⟨_, h1⟩
      · exact .inl h1
      · exact .inr h1
    | true =>
      cases hph : s.sh.pheld with
      | false => exact .inr ⟨_, pb.stored hps hph⟩
      | true => exact .inl (pb.lent hph).1
  rcases key with h1 | ⟨d, h1⟩ <;> rw [h1] <;> simp

/-- The only payload that can be lost is the one stored and not yet handed out when the buffer is
    closed with an error; while the buffer is open (`perr = none`) and the slot is empty, everything
    stored has been handed out. -/
theorem pktbuf_nothing_lost_while_open {s : St} (h : Reach s) (he : s.sh.perr = none) (hs : s.sh.pset = false) :
    s.sh.putLog = s.sh.getLog := by
  rcases (reach_pktbuf h).pb.empty hs with h1 | ⟨h1, _⟩
  · exact h1
  · rw [he] at h1; cases h1

/-- The lent buffer is not overwritten: while `held` is set (a receive is between `Get` and `Done`)
    the slot is occupied and the buffer open, and the only step of any thread that changes the
    packet buffer or its logs is the `Done` of the receive holding it … -/
theorem pktbuf_lend {s s' : St} {t : Tid} (h : Reach s) (hh : s.sh.pheld = true) (hs : step s t = some s') :
    (s.sh.pset = true ∧ s.sh.perr = none) ∧
    ((∃ r, s.pc t = .pdone r) ∨
     (s'.sh.pset = s.sh.pset ∧ s'.sh.pheld = true ∧ s'.sh.pdata = s.sh.pdata ∧ s'.sh.perr = s.sh.perr ∧
      s'.sh.putLog = s.sh.putLog ∧ s'.sh.getLog = s.sh.getLog)) :=
  ⟨(reach_pktbuf h).pb.held hh, step_lend hs (reach_locks h) (reach_pktbuf h) hh⟩

/-- … in particular a `Put` (either phase) and a `Close` of the buffer wait. -/
theorem pktbuf_lend_blocks {s : St} {t : Tid} (h : Reach s) (hh : s.sh.pheld = true) :
    (∀ d, s.pc t = .put1 d → step s t = none) ∧ (s.pc t = .put2 → step s t = none) ∧
    (∀ e c, s.pc t = .tClose e c → step s t = none) ∧ (∀ c, s.pc t = .hPClose c → step s t = none) := by
  obtain ⟨hps, hpe⟩ := (reach_pktbuf h).pb.held hh
  refine ⟨?_, ?_, ?_, ?_⟩ <;> intros <;> simp [step, stepPC, *]

/-- `Put` returns only after consumption: the thread leaves the second phase of `Put` only when
    nothing is lent and every payload stored so far (its own included) has been handed out — or
    the buffer has been closed with an error. -/
theorem put_returns_only_after_consumption {s s' : St} {t : Tid} (h : Reach s) (hp : s.pc t = .put2)
    (hs : step s t = some s') :
    s.sh.pheld = false ∧ (s.sh.putLog = s.sh.getLog ∨ s.sh.perr.isSome = true) := by
  simp only [step, hp, stepPC] at hs
  split at hs
  · cases hs
  · rename_i hc
    simp only [Bool.or_eq_true, not_or, Bool.not_eq_true] at hc
    refine ⟨hc.2, ?_⟩
    rcases (reach_pktbuf h).pb.empty hc.1 with h1 | ⟨h1, _⟩
    · exact .inl h1
    · exact .inr h1

/-- A receive returns what was put: the payload a `MsgRecv` holds between `Get` and `Done`, and
    the payload it is about to return, is the one handed out last, and by `pktbuf_fifo` that is the
    stored payload at the same position of `putLog`. -/
theorem recv_returns_what_was_put {s : St} {t : Tid} (h : Reach s) :
    (∀ d m, s.pc t = .unmarshal d m → s.sh.getLog.getLast? = some d ∧ d ∈ s.sh.putLog) ∧
    (∀ d, s.pc t = .pdone (.data d) → s.sh.getLog.getLast? = some d ∧ d ∈ s.sh.putLog) := by
  have hl := (reach_pktbuf h).recvLast t
  have hpre := (pktbuf_fifo h).1
  have mem : ∀ d, s.sh.getLog.getLast? = some d → d ∈ s.sh.putLog := by
    intro d hd
    exact hpre.subset (List.mem_of_getLast? hd)
  constructor
  · intro d m hp
    have := hl d (by simp [hp])
    exact ⟨this, mem d this⟩
  · intro d hp
    have := hl d (by simp [hp])
    exact ⟨this, mem d this⟩

/-- non-vacuity: a `KindMessage` packet handled by thread 0 (which then waits in `Put` for the
    consumer) and a `MsgRecv` by thread 1 that returns exactly that payload: both logs hold it,
    the slot is free again, and thread 0 may now leave `Put`. -/
example :
    let s := call (call {} 0 (.handle kindMessage false true [7#8])) 1 (.msgRecv {})
    Reach s ∧ s.pc 0 = .put2 ∧ s.pc 1 = .done (.data [7#8]) ∧ s.sh.putLog = [[7#8]] ∧ s.sh.getLog = [[7#8]] ∧
    s.sh.pset = false ∧ s.sh.pheld = false ∧ (step s 0).isSome = true := by
  refine ⟨reach_call _ (reach_call _ (Reach.init {}) ⟨_, rfl⟩) ⟨.nil, by decide⟩, by decide, by decide, by decide,
    by decide, by decide, by decide, by decide⟩

end Drpc.Props.C01
