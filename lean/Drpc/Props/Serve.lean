import Drpc.Lemmas.Serve
/-
  C12, `drpcserver.Server.Serve` part — "Serve tracks per-connection goroutines and waits for them".
  Theorems about every reachable state of the atomic-step model Drpc/Server/Serve.lean
  (`Reach s`: any interleaving of Serve, the closer goroutine and the connection goroutines, any
  select choice, any environment: cancellation, arriving connections, failing Accept, returning
  ServeOne).  Vocabulary (Drpc/Lemmas/Serve.lean): `closerLive p` — the closer goroutine is between
  its start and its `wg.Done()`; `isK p` — `p` is `.kServe _` or `.kDone _`; `St.liveConns` — number
  of goroutines `2 ≤ t < nextTid` with `isK (pc t)`; `pendAdd p` — 1 iff Serve is between the
  `wg.Add(1)` and the `go` of a `tracker.Run`; `pendConn p` — `[c]` iff Serve holds connection `c`
  between Accept and `go`; `Enabled`, `Stuck`.
-/
namespace Drpc.Props.Serve
open Drpc.Server

/-! ### 1. the WaitGroup counts the live tracked goroutines -/

/-- `wg` = (closer started and not past `wg.Done()`) + #(connection goroutines inside
    `track(ServeOne)`, i.e. at `.kServe _` / `.kDone _`) + (Serve between `wg.Add(1)` and `go`). -/
theorem waitgroup_counts_live_goroutines (s : St) (h : Reach s) :
    s.sh.wg = (if closerLive (s.pc 1) = true then 1 else 0) + s.liveConns + pendAdd (s.pc 0) :=
  (reach_inv h).wgEq

/-- `liveConns` is the number of goroutines at `.kServe _` / `.kDone _`: it counts `2 ≤ t < nextTid`,
    and no other goroutine is at such a program counter. -/
theorem liveConns_counts (s : St) (h : Reach s) :
    s.liveConns = (List.range s.sh.nextTid).countP (fun t => decide (2 ≤ t) && isK (s.pc t)) ∧
    (∀ t : Nat, isK (s.pc t) = true → 2 ≤ t ∧ t < s.sh.nextTid) ∧
    (∀ p, isK p = true ↔ ∃ c, p = .kServe c ∨ p = .kDone c) := by
  refine ⟨liveK_eq_countP _ _, fun t ht => (reach_inv h).tidK ht, ?_⟩
  intro p; cases p <;> simp [isK]

/-- `wg.Done()` never underflows (Go: "sync: negative WaitGroup counter" panic is unreachable) -/
theorem wg_done_never_underflows (s : St) (h : Reach s) (t c : Nat)
    (hp : s.pc t = .cDone ∨ s.pc t = .kDone c) : 0 < s.sh.wg := by
  have hi := reach_inv h
  have e := hi.wgEq
  rcases hp with hp | hp
  · have ht := hi.tid1 (t := t) (by rw [hp]; rfl)
    subst ht; rw [hp] at e; simp [closerLive] at e; omega
  · obtain ⟨t2, tn⟩ := hi.tidK (t := t) (by rw [hp]; rfl)
    have := liveK_pos s.pc s.sh.nextTid t t2 tn (by rw [hp]; rfl)
    omega

/-! ### 2. Serve returns only after every tracked goroutine has exited -/

theorem serve_returns_only_after_all_goroutines_exited (s : St) (h : Reach s) (hd : s.pc 0 = .done) :
    s.sh.wg = 0 ∧ s.pc 1 = .done ∧
    (∀ t : Nat, 2 ≤ t → s.pc t = .idle ∨ s.pc t = .done) ∧
    (∀ t : Nat, 2 ≤ t → t < s.sh.nextTid → s.pc t = .done) ∧
    s.sh.ended.Perm s.sh.served := by
  have hi := reach_inv h
  have hw := hi.doneWg hd
  have e := hi.wgEq
  rw [hw] at e
  have hcl : closerLive (s.pc 1) = false := by
    cases hc : closerLive (s.pc 1) with
    | false => rfl
    | true => simp [hc] at e; omega
  have hlk : liveK s.pc s.sh.nextTid = 0 := by omega
  have hdone : ∀ t : Nat, 2 ≤ t → t < s.sh.nextTid →
      s.pc t = .done ∧ ∀ c, s.sh.served[t-2]? = some c → c ∈ s.sh.ended :=
    fun t t2 tn => hi.conn_done t2 tn (liveK_zero _ _ t hlk t2 tn)
  refine ⟨hw, hi.pc1_done (by rw [hd]; rfl) hcl, ?_, fun t t2 tn => (hdone t t2 tn).1, ?_⟩
  · intro t t2
    by_cases tn : t < s.sh.nextTid
    · exact Or.inr (hdone t t2 tn).1
    · exact Or.inl (hi.idleAbove t (by omega))
  · refine (List.perm_ext_iff_of_nodup hi.endedNodup hi.served_nodup).mpr (fun a => ⟨hi.endedSub a, ?_⟩)
    intro ha
    obtain ⟨i, hia⟩ := List.mem_iff_getElem?.mp ha
    have hlt : i < s.sh.served.length := by
      by_cases hlt : i < s.sh.served.length
      · exact hlt
      · rw [List.getElem?_eq_none (by omega)] at hia; cases hia
    have hnt := hi.nt
    exact (hdone (i + 2) (by omega) (by omega)).2 a (by simpa using hia)

/-! ### 3. every accepted connection gets exactly one ServeOne, in arrival order -/

theorem every_accepted_connection_is_served_once (s : St) (h : Reach s) :
    s.sh.served <+: s.sh.accepted ∧
    s.sh.accepted = s.sh.served ++ pendConn (s.pc 0) ∧
    (s.sh.accepted = s.sh.served ∨
      ∃ c, (s.pc 0 = .sAddConn c ∨ s.pc 0 = .sGoConn c) ∧ s.sh.accepted = s.sh.served ++ [c]) ∧
    s.sh.accepted.Nodup ∧ s.sh.served.Nodup ∧
    s.sh.accepted ++ s.sh.queue = List.range s.sh.nextConn := by
  have hi := reach_inv h
  have ha := hi.acc
  refine ⟨⟨_, ha.symm⟩, ha, ?_, hi.accepted_nodup, hi.served_nodup, hi.arr⟩
  revert ha
  cases hp : s.pc 0 <;> simp [pendConn] <;> exact Or.inr

/-- each connection goroutine serves the connection it was started for: goroutine `t` serves
    `served[t-2]`, and its connection is in `ended` exactly when its ServeOne has returned -/
theorem connection_goroutine_serves_its_connection (s : St) (h : Reach s) (t c : Nat) :
    (s.pc t = .kServe c → s.sh.served[t-2]? = some c ∧ c ∉ s.sh.ended) ∧
    (s.pc t = .kDone c → s.sh.served[t-2]? = some c ∧ c ∈ s.sh.ended) ∧
    s.sh.nextTid = s.sh.served.length + 2 ∧ s.sh.ended.Nodup ∧ (∀ c, c ∈ s.sh.ended → c ∈ s.sh.served) := by
  have hi := reach_inv h
  refine ⟨?_, ?_, hi.nt, hi.endedNodup, hi.endedSub⟩
  · intro hp
    obtain ⟨t2, tn⟩ := hi.tidK (t := t) (by rw [hp]; rfl)
    have := hi.conn t t2 tn; rw [hp] at this; exact this
  · intro hp
    obtain ⟨t2, tn⟩ := hi.tidK (t := t) (by rw [hp]; rfl)
    have := hi.conn t t2 tn; rw [hp] at this; exact this

/-! ### 4. the listener is closed at most once, only after the tracker context is done, and
    before Serve returns -/

theorem listener_closed_at_most_once_and_only_after_done (s : St) (h : Reach s) :
    s.sh.lisCloses ≤ 1 ∧ (0 < s.sh.lisCloses → s.sh.tdone = true) ∧
    (s.pc 0 = .done → s.sh.lisCloses = 1) := by
  have hi := reach_inv h
  have hl := hi.lis
  refine ⟨by rw [hl]; split <;> omega, ?_, ?_⟩
  · intro hpos
    apply hi.lisT
    revert hl hpos
    cases s.pc 1 <;> simp [closerClosed, closerPastWait] <;> omega
  · intro hd
    have := (serve_returns_only_after_all_goroutines_exited s h hd).2.1
    rw [hl, this]; rfl

/-! ### 5. the tracker's context is cancelled while Serve waits and after it returned -/

theorem tracker_context_cancelled_on_return (s : St) (h : Reach s)
    (hp : s.pc 0 = .sWait ∨ s.pc 0 = .done) : s.sh.tcancel = true := by
  have := (reach_inv h).tc
  rcases hp with hp | hp <;> (rw [hp] at this; exact this)

/-- and conversely `tracker.Cancel()` is called only by Serve's deferred call -/
theorem tracker_cancel_only_on_return (s : St) (h : Reach s) (hc : s.sh.tcancel = true) :
    s.pc 0 = .sWait ∨ s.pc 0 = .done := by
  have := (reach_inv h).tc
  rw [hc] at this
  revert this; cases s.pc 0 <;> simp [cancelled]

/-! ### 6. progress -/

/-- where a quiescent system can be: Serve is blocked only in Accept (listener open, nothing
    queued) or in `tracker.Wait()` with a ServeOne that has not returned -/
theorem serve_blocked_only_in_accept_or_wait (s : St) (h : Reach s) (hst : Stuck s) (hnd : s.pc 0 ≠ .done) :
    (s.pc 0 = .sAccept ∧ s.sh.lisCloses = 0 ∧ s.sh.queue = []) ∨
    (s.pc 0 = .sWait ∧ ∃ t c, s.pc t = .kServe c) := by
  have hi := reach_inv h
  have en : ∀ t, (step s t 0).isSome = true → False := fun t ht => hst t ⟨0, ht⟩
  have r0 := hi.role0
  cases hp : s.pc 0 with
  | sAccept =>
    left
    have := en 0
    simp only [step, hp, stepPC] at this
    by_cases hl : 0 < s.sh.lisCloses
    · simp [hl] at this
    · simp only [hl, if_false] at this
      cases hq : s.sh.queue with
      | nil => exact ⟨rfl, by omega, rfl⟩
      | cons c r => simp [hq] at this
  | sWait =>
    right
    refine ⟨rfl, ?_⟩
    have h0 := en 0
    simp only [step, hp, stepPC] at h0
    have hw : s.sh.wg ≠ 0 := fun hw => by simp [hw] at h0
    have htd : s.sh.tdone = true := by
      have := hi.tc; rw [hp] at this; simp [Sh.tdone, this, cancelled]
    have hcl : closerLive (s.pc 1) = false := by
      have h1 := en 1
      have r1 := hi.role1
      revert h1 r1
      cases hp1 : s.pc 1 <;> simp [step, stepPC, hp1, closerP, closerLive, htd]
    have e := hi.wgEq
    rw [hp] at e; simp [hcl, pendAdd] at e
    obtain ⟨t, t2, tn, hk⟩ := liveK_exists s.pc s.sh.nextTid (by omega)
    have ht := en t
    revert hk ht
    cases hpt : s.pc t <;> simp [isK, step, stepPC, hpt]
    exact ⟨t, _, hpt⟩
  | done => exact absurd hp hnd
  | sStart | sAddCloser | sGoCloser | sGotErr e | sSleep | sAddConn c | sGoConn c | sCancel =>
    have := en 0
    simp only [step, hp, stepPC] at this
    repeat' split at this
    all_goals simp at this
  | idle | cWait | cClose | cDone | kServe c | kDone c => rw [hp] at r0; simp [serveP] at r0

/-- once the context is cancelled and every ServeOne has returned nothing is left blocked: the
    closer closed the listener, that unblocked Accept, the WaitGroup drained, Serve returned -/
theorem serve_completes (s : St) (h : Reach s) (hst : Stuck s) (hc : s.sh.ctxDone = true)
    (hk : ∀ t c, s.pc t ≠ .kServe c) : s.pc 0 = .done := by
  have hi := reach_inv h
  cases hd : decide (s.pc 0 = .done) with
  | true => exact of_decide_eq_true hd
  | false =>
    have hnd : s.pc 0 ≠ .done := of_decide_eq_false hd
    rcases serve_blocked_only_in_accept_or_wait s h hst hnd with ⟨hp, hl, _⟩ | ⟨_, t, c, hp⟩
    · -- the closer cannot be blocked: the context is done
      exfalso
      have h1 : (step s 1 0).isSome = true → False := fun ht => hst 1 ⟨0, ht⟩
      have htd : s.sh.tdone = true := by simp [Sh.tdone, hc]
      have hcl : closerLive (s.pc 1) = false := by
        have r1 := hi.role1
        revert h1 r1
        cases hp1 : s.pc 1 <;> simp [step, stepPC, hp1, closerP, closerLive, htd]
      have := hi.pc1_done (by rw [hp]; rfl) hcl
      have hl' := hi.lis
      rw [this] at hl'; simp [closerClosed] at hl'; omega
    · exact absurd hp (hk t c)

/-- the remaining blocked states are real waits, not lost wake-ups: in a stuck state with Serve
    in Accept the context is not done -/
theorem blocked_in_accept_only_while_context_live (s : St) (h : Reach s) (hst : Stuck s)
    (hp : s.pc 0 = .sAccept) : s.sh.ctxDone = false ∧ s.pc 1 = .cWait := by
  have hi := reach_inv h
  have h0 : (step s 0 0).isSome = true → False := fun ht => hst 0 ⟨0, ht⟩
  have h1 : (step s 1 0).isSome = true → False := fun ht => hst 1 ⟨0, ht⟩
  have hl : s.sh.lisCloses = 0 := by
    simp only [step, hp, stepPC] at h0
    by_cases hl : 0 < s.sh.lisCloses
    · simp [hl] at h0
    · omega
  have hni : s.pc 1 ≠ .idle := fun hi' => by have := hi.closerIdle.mp hi'; rw [hp] at this; simp [early] at this
  have r1 := hi.role1
  have hl' := hi.lis
  rw [hl] at hl'
  cases hc : s.sh.ctxDone with
  | true =>
    exfalso
    have htd : s.sh.tdone = true := by simp [Sh.tdone, hc]
    revert h1 r1 hl' hni
    cases hp1 : s.pc 1 <;> simp [step, stepPC, hp1, closerP, closerClosed, htd]
  | false =>
    refine ⟨rfl, ?_⟩
    revert h1 r1 hl' hni
    cases hp1 : s.pc 1 <;> simp [step, stepPC, hp1, closerP, closerClosed]

/-! ### 7. the return value -/

/-- the return value is assigned exactly when Serve leaves the accept loop -/
theorem ret_assigned_iff_left_loop (s : St) (h : Reach s) :
    s.sh.ret.isSome = true ↔ (s.pc 0 = .sCancel ∨ s.pc 0 = .sWait ∨ s.pc 0 = .done) := by
  have := (reach_inv h).retSome
  rw [this]
  cases s.pc 0 <;> simp [exiting]

/-- Serve returns nil only if the context passed to it is done -/
theorem ret_nil_only_if_context_done (s : St) (h : Reach s) (hr : s.sh.ret = some true) :
    s.sh.ctxDone = true := (reach_inv h).retTrue hr

/-- the transition that makes Serve return a non-nil error: goroutine 0 examining a permanent
    Accept error while the context is not done — and then the listener was not closed by the
    closer, i.e. the error came from the environment (`Env.acceptErr .permanent`) -/
theorem ret_error_only_after_permanent_accept_error (s s' : St) (t ch : Nat) (h : Reach s)
    (hs : step s t ch = some s') (hr : s'.sh.ret = some false) :
    s.sh.ret = some false ∨
    (t = 0 ∧ s.sh.ret = none ∧ s.pc 0 = .sGotErr .permanent ∧ s.sh.ctxDone = false ∧
      s.sh.lisCloses = 0 ∧ s'.pc 0 = .sCancel) := by
  have hi := reach_inv h
  unfold step at hs
  cases hp : s.pc t with
  | sGotErr e =>
    have ht := hi.tid0 (t := t) (by rw [hp]; rfl) (by rw [hp]; simp)
    subst ht
    have hrs := hi.retSome
    have htc := hi.tc
    have hl := hi.lis
    have hlt := hi.lisT
    rw [hp] at hrs htc
    have hnone : s.sh.ret = none := by
      cases hr0 : s.sh.ret with
      | none => rfl
      | some b => rw [hr0] at hrs; simp [exiting] at hrs
    rw [hp] at hs; simp only [stepPC] at hs
    split at hs
    · simp only [Option.some.injEq] at hs; subst hs; simp [St.upd] at hr
    · rename_i hcd
      cases e with
      | temporary =>
        simp only [Option.some.injEq] at hs; subst hs
        simp [St.setPc, hnone] at hr
      | permanent =>
        simp only [Option.some.injEq] at hs; subst hs
        right
        refine ⟨rfl, hnone, hp, by simpa using hcd, ?_, by simp [St.upd]⟩
        rw [hl]
        cases hcc : closerClosed (s.pc 1) with
        | false => simp
        | true =>
          have : closerPastWait (s.pc 1) = true := by
            revert hcc; cases s.pc 1 <;> simp [closerClosed, closerPastWait]
          have := hlt this
          simp [Sh.tdone, htc, cancelled] at this
          exact absurd this hcd
  | sSleep =>
    rw [hp] at hs; simp only [stepPC] at hs
    split at hs <;> (simp only [Option.some.injEq] at hs; subst hs)
    · simp [St.upd] at hr
    · left; simpa [St.setPc] using hr
  | idle | done | kServe c => rw [hp] at hs; simp [stepPC] at hs
  | sAccept =>
    rw [hp] at hs; simp only [stepPC] at hs
    repeat' split at hs
    all_goals (first | (simp only [Option.some.injEq] at hs; subst hs; left; simpa [St.setPc, St.upd] using hr)
                     | simp at hs)
  | sWait | cWait =>
    rw [hp] at hs; simp only [stepPC] at hs
    split at hs
    · simp only [Option.some.injEq] at hs; subst hs; left; simpa [St.setPc] using hr
    · simp at hs
  | sStart | sAddCloser | sGoCloser | sAddConn c | sGoConn c | sCancel | cClose | cDone | kDone c =>
    rw [hp] at hs; simp only [stepPC, Option.some.injEq] at hs; subst hs
    left; simpa [St.setPc, St.upd] using hr

/-- the environment never touches the return value -/
theorem env_keeps_ret (s s' : St) (e : Env) (hs : envStep s e = some s') : s'.sh.ret = s.sh.ret := by
  cases e <;> simp only [envStep] at hs
  · simp only [Option.some.injEq] at hs; subst hs; rfl
  · split at hs
    · simp only [Option.some.injEq] at hs; subst hs; rfl
    · simp at hs
  · split at hs
    · simp only [Option.some.injEq] at hs; subst hs; rfl
    · simp at hs
  · split at hs
    · simp only [Option.some.injEq] at hs; subst hs; rfl
    · simp at hs

/-- if the context is cancelled before the error is examined — whatever the error — Serve
    returns nil (`if ctx.Err() != nil { return nil }`) -/
theorem cancelled_before_error_examined_returns_nil (s : St) (e : AcceptErr) (ch : Nat)
    (hp : s.pc 0 = .sGotErr e) (hc : s.sh.ctxDone = true) :
    ∃ s', step s 0 ch = some s' ∧ s'.sh.ret = some true ∧ s'.pc 0 = .sCancel := by
  refine ⟨s.upd 0 { s.sh with ret := some true } .sCancel, ?_, rfl, by simp [St.upd]⟩
  simp only [step, hp, stepPC, hc, if_true]

/-- the Accept error produced by the closer's own `lis.Close()` is never reported: while Serve is
    in the loop a closed listener implies that the context is done -/
theorem closed_listener_error_returns_nil (s : St) (h : Reach s) (e : AcceptErr)
    (hp : s.pc 0 = .sGotErr e ∨ s.pc 0 = .sAccept) (hl : 0 < s.sh.lisCloses) : s.sh.ctxDone = true := by
  have hi := reach_inv h
  have htd := (listener_closed_at_most_once_and_only_after_done s h).2.1 hl
  have htc := hi.tc
  rcases hp with hp | hp <;> (rw [hp] at htc; simpa [Sh.tdone, htc, cancelled] using htd)

/-- the value, once assigned, does not change -/
theorem ret_stable (s s' : St) (t ch : Nat) (b : Bool) (h : Reach s) (hs : step s t ch = some s')
    (hr : s.sh.ret = some b) : s'.sh.ret = some b := by
  have hi := reach_inv h
  have hrs := hi.retSome
  rw [hr] at hrs
  unfold step at hs
  cases hp : s.pc t with
  | sGotErr e =>
    have ht := hi.tid0 (t := t) (by rw [hp]; rfl) (by rw [hp]; simp)
    subst ht; rw [hp] at hrs; simp [exiting] at hrs
  | sSleep =>
    have ht := hi.tid0 (t := t) (by rw [hp]; rfl) (by rw [hp]; simp)
    subst ht; rw [hp] at hrs; simp [exiting] at hrs
  | idle | done | kServe c => rw [hp] at hs; simp [stepPC] at hs
  | sAccept =>
    rw [hp] at hs; simp only [stepPC] at hs
    repeat' split at hs
    all_goals (first | (simp only [Option.some.injEq] at hs; subst hs; simpa [St.setPc, St.upd] using hr)
                     | simp at hs)
  | sWait | cWait =>
    rw [hp] at hs; simp only [stepPC] at hs
    split at hs
    · simp only [Option.some.injEq] at hs; subst hs; simpa [St.setPc] using hr
    · simp at hs
  | sStart | sAddCloser | sGoCloser | sAddConn c | sGoConn c | sCancel | cClose | cDone | kDone c =>
    rw [hp] at hs; simp only [stepPC, Option.some.injEq] at hs; subst hs
    simpa [St.setPc, St.upd] using hr

/-! ### non-vacuity -/

/-- two clients connect, both are accepted and served, the context is cancelled, both ServeOne
    return, the closer closes the listener, Accept fails, Serve returns nil -/
def demo : List Act :=
  [.step 0 0, .step 0 0, .step 0 0,                     -- NewTracker, Run(closer)
   .env .connect, .env .connect,
   .step 0 0, .step 0 0, .step 0 0,                     -- Accept 0, Add, go (goroutine 2)
   .step 0 0, .step 0 0, .step 0 0,                     -- Accept 1, Add, go (goroutine 3)
   .env .cancel,
   .step 1 0, .step 1 0,                                -- closer: <-ctx.Done(), lis.Close()
   .env (.serveOneReturns 3), .step 3 0,                -- ServeOne(conn 1) returns, wg.Done()
   .step 0 0, .step 0 0,                                -- Accept fails, ctx.Err() != nil: return nil
   .step 0 0,                                           -- deferred Cancel
   .step 1 0,                                           -- closer: wg.Done()
   .env (.serveOneReturns 2), .step 2 0,                -- ServeOne(conn 0) returns, wg.Done()
   .step 0 0]                                           -- deferred Wait returns

example : ∃ s, Reach s ∧ s.pc 0 = .done ∧ s.sh.accepted = [0, 1] ∧ s.sh.served = [0, 1] ∧
    s.sh.ended = [1, 0] ∧ s.sh.ctxDone = true ∧ s.sh.ret = some true ∧ s.sh.wg = 0 ∧
    s.sh.lisCloses = 1 ∧ s.pc 1 = .done ∧ s.pc 2 = .done ∧ s.pc 3 = .done ∧ Stuck s := by
  have hr : (run {} demo).isSome = true := by decide
  obtain ⟨s, hs⟩ := Option.isSome_iff_exists.mp hr
  have hreach := reach_run demo Reach.init hs
  have e : ∀ {α : Type} (f : St → α), (run {} demo).map f = some (f s) := fun f => by rw [hs]; rfl
  have p0 : s.pc 0 = .done := by have := e (·.pc 0); exact Option.some.inj (this.symm.trans (by decide))
  refine ⟨s, hreach, p0, ?_, ?_, ?_, ?_, ?_, ?_, ?_, ?_, ?_, ?_, ?_⟩
  · have := e (·.sh.accepted); exact Option.some.inj (this.symm.trans (by decide))
  · have := e (·.sh.served); exact Option.some.inj (this.symm.trans (by decide))
  · have := e (·.sh.ended); exact Option.some.inj (this.symm.trans (by decide))
  · have := e (·.sh.ctxDone); exact Option.some.inj (this.symm.trans (by decide))
  · have := e (·.sh.ret); exact Option.some.inj (this.symm.trans (by decide))
  · have := e (·.sh.wg); exact Option.some.inj (this.symm.trans (by decide))
  · have := e (·.sh.lisCloses); exact Option.some.inj (this.symm.trans (by decide))
  · have := e (·.pc 1); exact Option.some.inj (this.symm.trans (by decide))
  · have := e (·.pc 2); exact Option.some.inj (this.symm.trans (by decide))
  · have := e (·.pc 3); exact Option.some.inj (this.symm.trans (by decide))
  · -- nothing can move any more
    have hall := serve_returns_only_after_all_goroutines_exited s hreach p0
    have key : ∀ t : Nat, ¬Enabled s t := by
      intro t ⟨ch, hen⟩
      have hpt : s.pc t = .idle ∨ s.pc t = .done := by
        by_cases h0 : t = 0
        · subst h0; exact Or.inr p0
        · by_cases h1 : t = 1
          · subst h1; exact Or.inr hall.2.1
          · exact hall.2.2.1 t (by omega)
      rcases hpt with hpt | hpt <;> simp [step, hpt, stepPC] at hen
    exact key

/-- a permanent Accept error while the context is live makes Serve return the error (and it still
    cancels the tracker, closes the listener and waits for the closer) -/
def demoErr : List Act :=
  [.step 0 0, .step 0 0, .step 0 0, .env (.acceptErr .permanent), .step 0 0, .step 0 0,
   .step 1 0, .step 1 0, .step 1 0, .step 0 0]

example : ∃ s, Reach s ∧ s.pc 0 = .done ∧ s.sh.ret = some false ∧ s.sh.ctxDone = false ∧
    s.sh.lisCloses = 1 := by
  have hr : (run {} demoErr).isSome = true := by decide
  obtain ⟨s, hs⟩ := Option.isSome_iff_exists.mp hr
  have e : ∀ {α : Type} (f : St → α), (run {} demoErr).map f = some (f s) := fun f => by rw [hs]; rfl
  refine ⟨s, reach_run demoErr Reach.init hs, ?_, ?_, ?_, ?_⟩
  · have := e (·.pc 0); exact Option.some.inj (this.symm.trans (by decide))
  · have := e (·.sh.ret); exact Option.some.inj (this.symm.trans (by decide))
  · have := e (·.sh.ctxDone); exact Option.some.inj (this.symm.trans (by decide))
  · have := e (·.sh.lisCloses); exact Option.some.inj (this.symm.trans (by decide))

/-- the same error, but the context is cancelled before Serve examines it: nil -/
def demoErrCancelled : List Act :=
  [.step 0 0, .step 0 0, .step 0 0, .env (.acceptErr .permanent), .env .cancel, .step 0 0, .step 0 0,
   .step 1 0, .step 1 0, .step 1 0, .step 0 0]

example : ∃ s, Reach s ∧ s.pc 0 = .done ∧ s.sh.ret = some true := by
  have hr : (run {} demoErrCancelled).isSome = true := by decide
  obtain ⟨s, hs⟩ := Option.isSome_iff_exists.mp hr
  have e : ∀ {α : Type} (f : St → α), (run {} demoErrCancelled).map f = some (f s) := fun f => by rw [hs]; rfl
  refine ⟨s, reach_run demoErrCancelled Reach.init hs, ?_, ?_⟩
  · have := e (·.pc 0); exact Option.some.inj (this.symm.trans (by decide))
  · have := e (·.sh.ret); exact Option.some.inj (this.symm.trans (by decide))

/-- a stuck state in which Serve waits for a ServeOne that has not returned (the hypothesis of
    `serve_completes` about ServeOne is necessary) -/
def demoWaiting : List Act :=
  [.step 0 0, .step 0 0, .step 0 0, .env .connect, .step 0 0, .step 0 0, .step 0 0, .env .cancel,
   .step 1 0, .step 1 0, .step 1 0, .step 0 0, .step 0 0, .step 0 0]

example : ∃ s, Reach s ∧ s.pc 0 = .sWait ∧ s.pc 2 = .kServe 0 ∧ s.sh.ctxDone = true ∧ s.sh.wg = 1 := by
  have hr : (run {} demoWaiting).isSome = true := by decide
  obtain ⟨s, hs⟩ := Option.isSome_iff_exists.mp hr
  have e : ∀ {α : Type} (f : St → α), (run {} demoWaiting).map f = some (f s) := fun f => by rw [hs]; rfl
  refine ⟨s, reach_run demoWaiting Reach.init hs, ?_, ?_, ?_, ?_⟩
  · have := e (·.pc 0); exact Option.some.inj (this.symm.trans (by decide))
  · have := e (·.pc 2); exact Option.some.inj (this.symm.trans (by decide))
  · have := e (·.sh.ctxDone); exact Option.some.inj (this.symm.trans (by decide))
  · have := e (·.sh.wg); exact Option.some.inj (this.symm.trans (by decide))

end Drpc.Props.Serve
