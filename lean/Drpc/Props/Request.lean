import Drpc.Lemmas.Request
/-
  Request — one whole client request, end to end at the sequential level (composition theorem).

  Sender: drpcconn.Conn.Invoke / NewStream on a fresh drpcstream.Stream (`Drpc/Conn/Request.lean`:
  `invokePackets`, `newStreamPackets`, `abandonedPackets`), every packet cut into frames by the split loop of
  `rawWriteLocked` and appended to the byte stream by `AppendFrame` (`encodeAll n`).
  Transport: any chunking `choose`, any final error `final`.
  Receiver: drpcwire.Reader (`readAll`, C09/C01) and the accept loop of drpcmanager.Manager.NewServerStream
  (`newServerStream`, `serve`, C11) looking at the packets through `toServer`.

  Property theorems only; helper lemmas live in Drpc/Lemmas/Request.lean.  The theorems glue C01
  `delivery_any_chunking`, C11 `decode_encode` and C11 `client_metadata_arrives` / `calls_independent`.

  Side conditions: `1 ≤ sid` (a fresh reader's watermark is (1,1); drpcmanager numbers client streams from 1),
  `Fits md` (every entry's body shorter than 2^64 bytes, as in C11), every payload within the reader's
  maximum packet size `mx`, and `mx < 2^64` (it is a Go `int`).  `Lemmas.Request.encode_length_le` bounds the
  size of the metadata packet by 33 bytes of framing per entry.
  Sequential level: the writes of a call happen in program order and none fails; the packets of different
  calls are not interleaved (the manager runs one stream at a time); what the manager's reader does with
  the packets that follow the invoke (HandlePacket of the new stream) is C01 level 2 / the manager model,
  not restated here — the accept loop's leftover list says which packets those are.
-/
namespace Drpc.Props.Request
open Drpc Drpc.Metadata Drpc.Conn
open Drpc.Props.C09 (observed)

/-- The model's packets, spelled out: on a fresh stream the message ids count 1, 2, 3, …; the metadata
    packet exists exactly when the map is non-empty; no packet is a control packet. -/
theorem invokePackets_spelled_out (sid : U64) (rpc : Bytes) (md : Pairs) (data : Bytes) :
    invokePackets sid rpc [] data =
      [⟨rpc, sid, 1#64, Stream.kindInvoke, false⟩, ⟨data, sid, 2#64, Stream.kindMessage, false⟩,
       ⟨[], sid, 3#64, Stream.kindCloseSend, false⟩] ∧
    (md ≠ [] → invokePackets sid rpc md data =
      [⟨encode md, sid, 1#64, Stream.kindInvokeMetadata, false⟩, ⟨rpc, sid, 2#64, Stream.kindInvoke, false⟩,
       ⟨data, sid, 3#64, Stream.kindMessage, false⟩, ⟨[], sid, 4#64, Stream.kindCloseSend, false⟩]) ∧
    newStreamPackets sid rpc [] = [⟨rpc, sid, 1#64, Stream.kindInvoke, false⟩] ∧
    (md ≠ [] → newStreamPackets sid rpc md =
      [⟨encode md, sid, 1#64, Stream.kindInvokeMetadata, false⟩, ⟨rpc, sid, 2#64, Stream.kindInvoke, false⟩]) := by
  refine ⟨rfl, ?_, rfl, ?_⟩ <;> intro h <;>
    simp [invokePackets, newStreamPackets, invokeWrites, newStreamWrites, bodyWrites, metaWrites,
      hasMeta_of_ne h, streamWrites]

/-- **(a) A unary request arrives intact.**  For every stream id ≥ 1, rpc name, metadata, request bytes,
    split size, transport chunking and final transport error: the server's reader returns exactly the
    packets `Invoke` wrote; the accept loop run on them creates the stream with the call's id and rpc name;
    `drpcmetadata.Get` on the handler's context is exactly `md` (the writes of the map, hence its
    last-write-wins lookup) when `md` is non-empty and "no metadata" when it is empty; and what is left for
    the stream is exactly the message packet — payload `data`, byte for byte — and the close-send. -/
theorem unary_request_arrives_intact (mx final : Nat) (choose : Nat → Nat) (n : Int)
    (sid : U64) (rpc : Bytes) (md : Pairs) (data : Bytes)
    (hsid : 1 ≤ sid.toNat) (hfit : Fits md) (hmx : mx < 2 ^ 64)
    (hmd : (encode md).length ≤ mx) (hrpc : rpc.length ≤ mx) (hdata : data.length ≤ mx) :
    observed (readAll mx choose final (encodeAll n (invokePackets sid rpc md data)))
      = (invokePackets sid rpc md data, .transport final) ∧
    newServerStream none ((invokePackets sid rpc md data).map toServer)
      = .stream sid rpc (addPairs none md)
          [⟨Stream.kindMessage.toNat, sid, data⟩, ⟨Stream.kindCloseSend.toNat, sid, []⟩] ∧
    addPairs none md = (if md = [] then none else some md) ∧
    (∀ md', addPairs none md = some md' → ∀ k, md'.get k = md.get k) := by
  refine ⟨?_, ?_, addPairs_none md, ?_⟩
  · have := attempts_delivery mx final choose n [.unary ⟨sid, rpc, md, data⟩] hmx
      (by simpa [Attempt.sid] using hsid) (by simp) (by simpa [Attempt.Within, Attempt.md] using ⟨hmd, hrpc, hdata⟩)
    simpa [attemptsPackets, Attempt.packets, Attempt.sid, Attempt.writes, invokePackets] using this
  · rw [invokePackets_eq, List.map_append]
    have := accept_newStream [] ((bodyPackets sid md data).map toServer) sid 0#64 rpc md
      (by intro p hp; cases hp) (by intro p hp; cases hp) hfit
    simpa [newStreamPackets, bodyPackets_eq, toServer] using this
  · intro md' h k
    rw [addPairs_none] at h
    split at h
    · cases h
    · cases h; rfl

/-- The same for a streaming call (`Conn.NewStream`): the stream is created with the call's id, rpc and
    metadata, and nothing is left over. -/
theorem newstream_request_arrives_intact (mx final : Nat) (choose : Nat → Nat) (n : Int)
    (sid : U64) (rpc : Bytes) (md : Pairs)
    (hsid : 1 ≤ sid.toNat) (hfit : Fits md) (hmx : mx < 2 ^ 64)
    (hmd : (encode md).length ≤ mx) (hrpc : rpc.length ≤ mx) :
    observed (readAll mx choose final (encodeAll n (newStreamPackets sid rpc md)))
      = (newStreamPackets sid rpc md, .transport final) ∧
    newServerStream none ((newStreamPackets sid rpc md).map toServer) = .stream sid rpc (addPairs none md) [] := by
  constructor
  · have := attempts_delivery mx final choose n [.opened sid rpc md] hmx
      (by simpa [Attempt.sid] using hsid) (by simp) (by simpa [Attempt.Within, Attempt.md] using ⟨hmd, hrpc⟩)
    simpa [attemptsPackets, Attempt.packets, Attempt.sid, Attempt.writes, newStreamPackets] using this
  · have := accept_newStream [] [] sid 0#64 rpc md (by intro p hp; cases hp) (by intro p hp; cases hp) hfit
    simpa [newStreamPackets] using this

/-- **(b) Requests on one connection do not mix** (list form).  Any number of unary requests with strictly
    increasing stream ids, written one after the other:
    1. the byte stream is the concatenation of the requests' byte streams;
    2. the reader returns the concatenation of their packets;
    3. the accept loop started at request `r` — after any packets `junk` it skips (leftovers of earlier
       requests, metadata of other stream ids) — yields `r`'s id, rpc and exactly `r`'s metadata, leaving `r`'s
       message and close-send followed by the later requests;
    4. the serve loop over the whole connection makes exactly one handler call per request, in order, each
       with its own id / rpc / metadata (a function of that request alone), and then waits. -/
theorem requests_on_one_connection_do_not_mix (mx final : Nat) (choose : Nat → Nat) (n : Int)
    (reqs : List Request)
    (hsid : ∀ r ∈ reqs, 1 ≤ r.sid.toNat)
    (hinc : reqs.Pairwise (fun a b => a.sid.toNat < b.sid.toNat))
    (hfit : ∀ r ∈ reqs, Fits r.md) (hmx : mx < 2 ^ 64)
    (hsz : ∀ r ∈ reqs, (encode r.md).length ≤ mx ∧ r.rpc.length ≤ mx ∧ r.data.length ≤ mx) :
    encodeAll n (connPackets reqs) = reqs.flatMap (fun r => encodeAll n r.packets) ∧
    observed (readAll mx choose final (encodeAll n (connPackets reqs))) = (connPackets reqs, .transport final) ∧
    (∀ before r after, reqs = before ++ r :: after →
      ∀ junk, Quiet junk → (∀ p ∈ junk, p.kind = kindInvokeMetadata → p.sid ≠ r.sid) →
      newServerStream none (junk ++ (connPackets (r :: after)).map toServer)
        = .stream r.sid r.rpc (addPairs none r.md)
            ((bodyPackets r.sid r.md r.data ++ connPackets after).map toServer)) ∧
    serve ((connPackets reqs).map toServer) = reqs.map Request.served ++ [.waiting] := by
  refine ⟨encodeAll_flatMap n _ reqs, ?_, ?_, ?_⟩
  · rw [connPackets_eq_attempts]
    apply attempts_delivery mx final choose n _ hmx
    · intro a ha
      obtain ⟨r, hr, rfl⟩ := List.mem_map.mp ha
      exact hsid r hr
    · rw [List.pairwise_map]; exact hinc
    · intro a ha
      obtain ⟨r, hr, rfl⟩ := List.mem_map.mp ha
      exact hsz r hr
  · intro before r after e junk hq hother
    have hf : Fits r.md := hfit r (by rw [e]; simp)
    have := accept_newStream junk ((bodyPackets r.sid r.md r.data ++ connPackets after).map toServer)
      r.sid 0#64 r.rpc r.md hq hother hf
    rw [← this]
    simp only [connPackets, List.flatMap_cons, Request.packets, invokePackets_eq, newStreamPackets,
      List.map_append, List.append_assoc]
  · rw [connPackets_eq_attempts]
    have := serve_attempts (reqs.map Attempt.unary) (by rw [List.pairwise_map]; exact hinc)
      (by intro a ha; obtain ⟨r, hr, rfl⟩ := List.mem_map.mp ha; exact hfit r hr)
      [] (by intro p hp; cases hp) (by intro p hp; cases hp)
    rw [List.nil_append] at this
    have hk : ∀ rs : List Request,
        List.filterMap (Attempt.served? ∘ Attempt.unary) rs = rs.map Request.served := by
      intro rs
      induction rs with
      | nil => rfl
      | cons r rs ih => simp [Attempt.served?, ih]
    rw [this, List.filterMap_map, hk]

/-- The packets of a call given up between its metadata and its invoke, spelled out. -/
theorem abandonedPackets_spelled_out (sid : U64) (md : Pairs) (h : md ≠ []) :
    abandonedPackets sid md false = [⟨encode md, sid, 1#64, Stream.kindInvokeMetadata, false⟩] ∧
    abandonedPackets sid md true =
      [⟨encode md, sid, 1#64, Stream.kindInvokeMetadata, false⟩, ⟨[], sid, 2#64, Stream.kindCancel, true⟩] := by
  constructor <;> simp [abandonedPackets, abandonedWrites, metaWrites, hasMeta_of_ne h, streamWrites]

/-- **(c) The metadata of an abandoned call is not inherited, end to end.**  A call on stream `sid₁` that
    wrote only its metadata packet (cancelled before the invoke; with `cancel` it also sent the KindCancel
    control packet of `SendCancel`), followed by a complete call `r` with a larger stream id: the reader
    returns both calls' packets, and the accept loop — which has seen the abandoned call's metadata packet —
    creates `r`'s stream with `r`'s own metadata only: exactly `r.md`, and no metadata at all when `r.md`
    is empty, whatever `md₁` was.  The serve loop makes one handler call (for `r`) and waits. -/
theorem abandoned_call_metadata_not_inherited_e2e (mx final : Nat) (choose : Nat → Nat) (n : Int)
    (sid₁ : U64) (md₁ : Pairs) (cancel : Bool) (r : Request)
    (hsid : 1 ≤ sid₁.toNat) (hlt : sid₁.toNat < r.sid.toNat)
    (hfit₁ : Fits md₁) (hfit : Fits r.md) (hmx : mx < 2 ^ 64)
    (hmd₁ : (encode md₁).length ≤ mx)
    (hsz : (encode r.md).length ≤ mx ∧ r.rpc.length ≤ mx ∧ r.data.length ≤ mx) :
    observed (readAll mx choose final (encodeAll n (abandonedPackets sid₁ md₁ cancel) ++ encodeAll n r.packets))
      = (abandonedPackets sid₁ md₁ cancel ++ r.packets, .transport final) ∧
    newServerStream none ((abandonedPackets sid₁ md₁ cancel ++ r.packets).map toServer)
      = .stream r.sid r.rpc (addPairs none r.md) ((bodyPackets r.sid r.md r.data).map toServer) ∧
    (r.md = [] → newServerStream none ((abandonedPackets sid₁ md₁ cancel ++ r.packets).map toServer)
      = .stream r.sid r.rpc none ((bodyPackets r.sid r.md r.data).map toServer)) ∧
    serve ((abandonedPackets sid₁ md₁ cancel ++ r.packets).map toServer) = [r.served, .waiting] := by
  have hpk : attemptsPackets [.abandoned sid₁ md₁ cancel, .unary r] = abandonedPackets sid₁ md₁ cancel ++ r.packets := by
    simp [attemptsPackets, Attempt.packets, Attempt.sid, Attempt.writes, abandonedPackets, Request.packets,
      invokePackets]
  have hinc : [Attempt.abandoned sid₁ md₁ cancel, .unary r].Pairwise (fun a b => a.sid.toNat < b.sid.toNat) := by
    simpa [Attempt.sid] using hlt
  have hacc : newServerStream none ((abandonedPackets sid₁ md₁ cancel ++ r.packets).map toServer)
      = .stream r.sid r.rpc (addPairs none r.md) ((bodyPackets r.sid r.md r.data).map toServer) := by
    have := accept_newStream ((abandonedPackets sid₁ md₁ cancel).map toServer)
      ((bodyPackets r.sid r.md r.data).map toServer) r.sid 0#64 r.rpc r.md
      (quiet_streamWrites _ _ _ (skipped_abandonedWrites md₁ cancel hfit₁))
      (by intro p hp _ e
          have := sid_streamWrites hp
          rw [e] at this; rw [this] at hlt; omega) hfit
    rw [← this]
    simp only [Request.packets, invokePackets_eq, newStreamPackets, List.map_append, List.append_assoc]
  refine ⟨?_, hacc, ?_, ?_⟩
  · rw [← encodeAll_append, ← hpk]
    apply attempts_delivery mx final choose n _ hmx _ hinc
    · intro a ha
      simp only [List.mem_cons, List.not_mem_nil, or_false] at ha
      rcases ha with rfl | rfl
      · exact ⟨hmd₁, trivial⟩
      · exact hsz
    · intro a ha
      simp only [List.mem_cons, List.not_mem_nil, or_false] at ha
      rcases ha with rfl | rfl
      · exact hsid
      · show 1 ≤ r.sid.toNat; omega
  · intro he
    rw [hacc, addPairs_none, if_pos he]
  · have := serve_attempts [.abandoned sid₁ md₁ cancel, .unary r] hinc
      (by intro a ha
          simp only [List.mem_cons, List.not_mem_nil, or_false] at ha
          rcases ha with rfl | rfl
          · exact hfit₁
          · exact hfit)
      [] (by intro p hp; cases hp) (by intro p hp; cases hp)
    rw [List.nil_append, hpk] at this
    rw [this]; rfl

/-- **(b)+(c) in general.**  Any sequence of attempts — complete unary calls, streaming calls that were
    opened, calls given up after their metadata (with or without a cancel packet) — with stream ids ≥ 1 that
    strictly increase: the reader returns exactly the packets written, and the serve loop makes exactly one
    handler call per attempt that sent its invoke, in order, each with that attempt's own id, rpc and
    metadata; an abandoned attempt causes no call and its metadata reaches nobody. -/
theorem attempts_on_one_connection_do_not_mix (mx final : Nat) (choose : Nat → Nat) (n : Int)
    (as : List Attempt)
    (hsid : ∀ a ∈ as, 1 ≤ a.sid.toNat)
    (hinc : as.Pairwise (fun a b => a.sid.toNat < b.sid.toNat))
    (hfit : ∀ a ∈ as, Fits a.md) (hmx : mx < 2 ^ 64) (hsz : ∀ a ∈ as, a.Within mx) :
    encodeAll n (attemptsPackets as) = as.flatMap (fun a => encodeAll n a.packets) ∧
    observed (readAll mx choose final (encodeAll n (attemptsPackets as))) = (attemptsPackets as, .transport final) ∧
    serve ((attemptsPackets as).map toServer) = as.filterMap Attempt.served? ++ [.waiting] := by
  refine ⟨encodeAll_flatMap n _ as, attempts_delivery mx final choose n as hmx hsid hinc hsz, ?_⟩
  have := serve_attempts as hinc hfit [] (by intro p hp; cases hp) (by intro p hp; cases hp)
  rwa [List.nil_append] at this

/-- `1 ≤ sid` is necessary: a fresh reader's watermark is (1, 1), and the first frame of a call on stream 0
    has the smaller id (0, 1) — the reader rejects it (ProtocolError "id monotonicity violation"). -/
example (mx : Nat) (cur : Option Cur) (d : Bytes) (k : Byte) (done : Bool) :
    assembleStep mx (1#64, 1#64) cur ⟨d, 0#64, 1#64, k, done, false⟩ = .error :=
  C09.stale_id_rejected (by show idLt (0#64, 1#64) (1#64, 1#64); decide)

/-! ### the hypotheses are satisfiable: concrete instances -/

section Examples

/-- (a): stream 1, rpc "/a", the metadata {01: 02, 01: 03} (`exMdX`: a key written twice), a 3-byte request cut into 2-byte frames, the transport
    delivering one byte per read: the handler sees the map whose key 01 reads 03 -/
example :
    observed (readAll 100 (fun _ => 1) 0 (encodeAll 2 (invokePackets 1#64 [0x2f#8, 0x61#8] exMdX [9#8, 8#8, 7#8])))
      = ([⟨encode exMdX, 1#64, 1#64, 7#8, false⟩, ⟨[0x2f#8, 0x61#8], 1#64, 2#64, 1#8, false⟩,
          ⟨[9#8, 8#8, 7#8], 1#64, 3#64, 2#8, false⟩, ⟨[], 1#64, 4#64, 6#8, false⟩], .transport 0) ∧
    newServerStream none ((invokePackets 1#64 [0x2f#8, 0x61#8] exMdX [9#8, 8#8, 7#8]).map toServer)
      = .stream 1#64 [0x2f#8, 0x61#8] (some exMdX) [⟨2, 1#64, [9#8, 8#8, 7#8]⟩, ⟨6, 1#64, []⟩] ∧
    exMdX.get [1#8] = some [3#8] := by
  have h := unary_request_arrives_intact 100 0 (fun _ => 1) 2 1#64 [0x2f#8, 0x61#8] exMdX [9#8, 8#8, 7#8]
    (by decide) exFitsX (by decide) exSizeX (by decide) (by decide)
  have hp := (invokePackets_spelled_out 1#64 [0x2f#8, 0x61#8] exMdX [9#8, 8#8, 7#8]).2.1 (by decide)
  refine ⟨?_, ?_, by decide⟩
  · rw [h.1, hp]; rfl
  · rw [h.2.1, h.2.2.1]; rfl

/-- (b): three requests on streams 1, 2, 5 — with metadata, without, with other metadata: each handler call
    carries its own -/
example :
    serve ((connPackets [⟨1#64, [0x2f#8], exMdX, [9#8]⟩, ⟨2#64, [0x2f#8], [], []⟩, ⟨5#64, [0x62#8], exMdY, [7#8]⟩]).map toServer)
      = [.served 1#64 [0x2f#8] (some exMdX), .served 2#64 [0x2f#8] none, .served 5#64 [0x62#8] (some exMdY), .waiting] := by
  have h := (requests_on_one_connection_do_not_mix 100 0 (fun _ => 3) 0
    [⟨1#64, [0x2f#8], exMdX, [9#8]⟩, ⟨2#64, [0x2f#8], [], []⟩, ⟨5#64, [0x62#8], exMdY, [7#8]⟩]
    (by decide) (by decide)
    (by intro r hr; simp at hr; rcases hr with rfl | rfl | rfl <;> first | exact exFitsX | exact exFitsNil | exact exFitsY)
    (by decide)
    (by intro r hr; simp at hr
        rcases hr with rfl | rfl | rfl
        · exact ⟨exSizeX, by decide, by decide⟩
        · exact ⟨by decide, by decide, by decide⟩
        · exact ⟨exSizeY, by decide, by decide⟩)).2.2.2
  rw [h]; rfl

/-- (c): stream 1 sent metadata and a cancel but no invoke; the call on stream 2 has no metadata and
    sees none -/
example :
    newServerStream none ((abandonedPackets 1#64 exMdX true ++ invokePackets 2#64 [0x2f#8] [] [9#8]).map toServer)
      = .stream 2#64 [0x2f#8] none [⟨2, 2#64, [9#8]⟩, ⟨6, 2#64, []⟩] ∧
    (abandonedPackets 1#64 exMdX true).map toServer = [⟨7, 1#64, encode exMdX⟩, ⟨4, 1#64, []⟩] := by
  have h := abandoned_call_metadata_not_inherited_e2e 100 0 (fun _ => 1) 0 1#64 exMdX true ⟨2#64, [0x2f#8], [], [9#8]⟩
    (by decide) (by decide) exFitsX exFitsNil (by decide) exSizeX ⟨by decide, by decide, by decide⟩
  constructor
  · exact h.2.2.1 rfl
  · rw [(abandonedPackets_spelled_out 1#64 exMdX (by decide)).2]; rfl

end Examples

end Drpc.Props.Request
