import Drpc.Lemmas.Metadata
/-
  C11 — Call metadata arrives intact at exactly the RPC it was attached to.
  Property theorems only; helper lemmas live in Drpc/Lemmas/Metadata.lean.

  Part 1: the byte codec of drpcmetadata (serialize.go, metadata.go).
  Part 2: which call sees which metadata (the packet loop of drpcmanager.Manager.NewServerStream).
-/
namespace Drpc.Props.C11
open Drpc Drpc.Metadata

/-! ## Part 1 — codec -/

/-- `bitLen` (the model of `bits.Len64`) is the minimal number of bits of `n`. -/
theorem bitLen_minimal (n : Nat) (h : 0 < n) : 2 ^ (bitLen n - 1) ≤ n ∧ n < 2 ^ bitLen n :=
  bitLen_spec n h

/-- The branch-free `(9·bits.Len64(n) + 64) / 64` of `varintSize` is the number of bytes
    `drpcwire.AppendVarint` emits, for every 64-bit value. -/
theorem varintSize_correct (n : U64) : (varintSize n).toNat = (appendVarint n).length :=
  varintSize_toNat n

/-- the arithmetic identity behind it, on the whole range of `bits.Len64` -/
theorem varintSize_identity (b : Nat) (h : b ≤ 64) :
    (9 * b + 64) / 64 = if b = 0 then 1 else (b + 6) / 7 :=
  nine_trick b (by omega)

/-- The length prefix `appendEntry` computes from `encodedStringSize` is the length of the entry
    body that follows it (as 64-bit values; no hypothesis). -/
theorem entry_length_prefix_correct (k v : Bytes) :
    encodedStringSize k + encodedStringSize v = BitVec.ofNat 64 (entryBody k v).length ∧
    appendEntry k v = tagKey :: (appendVarint (BitVec.ofNat 64 (entryBody k v).length) ++ entryBody k v) :=
  ⟨entry_size_eq k v, appendEntry_eq k v⟩

/-- `Encode` emits exactly the protobuf encoding of `message { map<string,string> = 1 }` with the
    entries in iteration order — for every list of pairs (any bytes, empty strings, duplicate keys)
    whose entries fit a 64-bit length. -/
theorem encode_is_protobuf (m : Pairs) (h : Fits m) : encode m = Proto.encodeMap m :=
  encode_eq_proto m h

/-- The drpcwire varint is the protobuf varint. -/
theorem varint_is_protobuf (x : U64) : appendVarint x = Proto.varint x.toNat :=
  appendVarint_eq_proto x

/-- `Decode(Encode(m))` returns the writes of `m`, in order, for every list of pairs. -/
theorem decode_encode (m : Pairs) (h : Fits m) : decode (encode m) = .ok m := by
  have := decode_encode_append m [] h
  simpa [decode_nil, DR.prepend] using this

/-- … hence the decoded map is `m` as a map: every key reads the value of its last write. -/
theorem decode_encode_lookup (m : Pairs) (h : Fits m) :
    ∃ m', decode (encode m) = .ok m' ∧ ∀ k, m'.get k = m.get k :=
  ⟨m, decode_encode m h, fun _ => rfl⟩

/-- `get` is Go's map assignment semantics: the last write of a key wins, other keys are untouched. -/
theorem get_last_write_wins (m : Pairs) (k v k' : Bytes) :
    Pairs.get (m ++ [(k, v)]) k' = if k = k' then some v else Pairs.get m k' :=
  get_concat m k v k'

/-- `Fits` is implied by the bound Go imposes on any string (`len < 2^63`) with room to spare, e.g.: -/
theorem fits_of_small (m : Pairs) (h : ∀ kv ∈ m, kv.1.length < 2 ^ 62 ∧ kv.2.length < 2 ^ 62) : Fits m := by
  intro kv hkv
  have := h kv hkv
  omega

/-- hypotheses satisfiable, non-trivially: binary keys, empty strings, a duplicate key -/
example : decode (encode [([0#8, 255#8], []), ([], [1#8]), ([0#8, 255#8], [7#8])])
    = .ok [([0#8, 255#8], []), ([], [1#8]), ([0#8, 255#8], [7#8])] :=
  decode_encode _ (by intro kv h; simp at h; rcases h with h | h | h <;> subst h <;> decide)

/-- Concatenating encodings merges the maps (later writes win): decoding continues after a valid prefix. -/
theorem decode_concat (m : Pairs) (rest : Bytes) (h : Fits m) :
    decode (encode m ++ rest) = (decode rest).prepend m :=
  decode_encode_append m rest h

/-- Empty map ↔ empty bytes, in both directions. -/
theorem encode_empty_iff (m : Pairs) : encode m = [] ↔ m = [] := encode_eq_nil_iff m
theorem decode_empty_iff (b : Bytes) : decode b = .ok [] ↔ b = [] := decode_ok_nil_iff b

/-- `Decode` is total: no index or slice expression is out of range, for any input bytes. -/
theorem decode_total (b : Bytes) : decode b ≠ .panic :=
  decode_no_panic b.length b (Nat.le_refl _)

theorem readEntry_total (b : Bytes) : readEntry b ≠ .panic := readEntry_no_panic b
theorem readKeyValue_total (b : Bytes) : readKeyValue b ≠ .panic := readKeyValue_no_panic b

/-- Every call of `readEntry` that succeeds consumes at least two bytes (the loop of `Decode` terminates). -/
theorem readEntry_consumes {buf rem key value : Bytes} (h : readEntry buf = .ok rem key value) :
    rem.length < buf.length :=
  readEntry_ok_length h

/-! ### documented strictness: what the decoder rejects although protobuf would accept it -/

/-- Any first byte other than the tag of field 1/LEN is rejected (unknown or re-numbered field). -/
theorem decode_rejects_wrong_tag (t : Byte) (rest : Bytes) (h : t ≠ 10#8) : decode (t :: rest) = .invalid :=
  decode_bad (by simp) (readEntry_wrong_tag t rest h)

/-- the well-formed entry {"k":"v"} for comparison -/
theorem decode_accepts_example :
    decode [10#8, 6#8, 10#8, 1#8, 0x6b#8, 18#8, 1#8, 0x76#8] = .ok [([0x6b#8], [0x76#8])] := by
  rw [decode_ok (rem := []) (k := [0x6b#8]) (v := [0x76#8]) (by decide), decode_nil]

/-- trailing bytes inside an entry -/
theorem decode_rejects_trailing_in_entry :
    decode [10#8, 7#8, 10#8, 1#8, 0x6b#8, 18#8, 1#8, 0x76#8, 0#8] = .invalid :=
  decode_bad (by simp) (by decide)

/-- an unknown field (number 3) inside an entry -/
theorem decode_rejects_unknown_field :
    decode [10#8, 8#8, 10#8, 1#8, 0x6b#8, 18#8, 1#8, 0x76#8, 26#8, 0#8] = .invalid :=
  decode_bad (by simp) (by decide)

/-- value before key (legal protobuf field order, rejected here) -/
theorem decode_rejects_swapped_fields :
    decode [10#8, 6#8, 18#8, 1#8, 0x76#8, 10#8, 1#8, 0x6b#8] = .invalid :=
  decode_bad (by simp) (by decide)

/-- an entry without a value field (protobuf would default it to "") -/
theorem decode_rejects_missing_value :
    decode [10#8, 3#8, 10#8, 1#8, 0x6b#8] = .invalid :=
  decode_bad (by simp) (by decide)

/-- a truncated entry -/
theorem decode_rejects_truncated :
    decode [10#8, 6#8, 10#8, 1#8, 0x6b#8, 18#8, 1#8] = .invalid :=
  decode_bad (by simp) (by decide)

/-- an entry length of more than ten varint bytes is the other error class ("varint too long") -/
theorem decode_rejects_long_varint :
    decode [10#8, 0x80#8, 0x80#8, 0x80#8, 0x80#8, 0x80#8, 0x80#8, 0x80#8, 0x80#8, 0x80#8, 0x80#8, 1#8] = .tooLong :=
  decode_err (by simp) (by decide)

/-- Not everything non-canonical is rejected: a padded (non-minimal) varint length is accepted, so two
    different byte strings can decode to the same map (recorded; the property does not forbid it). -/
theorem decode_accepts_padded_varint :
    decode [10#8, 0x86#8, 0#8, 10#8, 1#8, 0x6b#8, 18#8, 1#8, 0x76#8] = .ok [([0x6b#8], [0x76#8])] := by
  rw [decode_ok (rem := []) (k := [0x6b#8]) (v := [0x76#8]) (by decide), decode_nil]

/-! ## Part 2 — scoping: which call sees which metadata -/

/-- what `drpcmetadata.Get` on the handler's context must return, given the packets `pre` received by
    this `NewServerStream` call before the invoke of stream `sid`: the map of the last metadata
    packet if that packet carried the same stream id, nothing otherwise (an empty map is nothing). -/
def scopedMeta (pre : List Pkt) (sid : U64) : Option Pairs :=
  match lastMeta pre with
  | some p => if p.sid = sid then addPairs none (decoded p.data) else none
  | none => none

/-- **metadata_scoped.** Whatever precedes the invoke inside one `NewServerStream` call (metadata
    packets for any ids, other kinds; all decodable), the stream is created with the invoke's id and
    rpc, consumes exactly the packets up to the invoke, and its context carries `scopedMeta`. -/
theorem metadata_scoped (pre : List Pkt) (inv : Pkt) (rest : List Pkt)
    (hinv : inv.kind = kindInvoke) (hpre : Quiet pre) :
    newServerStream none (pre ++ inv :: rest) = .stream inv.sid inv.data (scopedMeta pre inv.sid) rest := by
  unfold newServerStream
  rw [serverLoop_quiet none pre inv rest hinv [] 0#64 hpre]
  unfold scopedMeta
  cases lastMeta pre with
  | some p => rfl
  | none => simp [addPairs]

/-- With stream ids that never decrease (enforced by drpcwire.Reader) this is: the context carries
    the map of the last metadata packet *with the invoke's id*, and nothing if there is none —
    metadata packets with other ids are irrelevant wherever they occur. -/
theorem metadata_scoped_own_id (pre : List Pkt) (inv : Pkt) (rest : List Pkt)
    (hinv : inv.kind = kindInvoke) (hpre : Quiet pre) (hmono : Mono (pre ++ [inv])) :
    newServerStream none (pre ++ inv :: rest) = .stream inv.sid inv.data
      (match lastMetaFor inv.sid pre with
       | some p => addPairs none (decoded p.data)
       | none => none) rest := by
  rw [metadata_scoped pre inv rest hinv hpre]
  unfold scopedMeta
  exact congrArg (fun x => SR.stream inv.sid inv.data x rest)
    (lastMetaFor_mono pre inv hmono (fun p => addPairs none (decoded p.data)) none)

/-- **abandoned_metadata_not_inherited.** Metadata sent for other stream ids (a call abandoned
    between its metadata and its invoke) is not attached to the call that is eventually invoked. -/
theorem abandoned_metadata_not_inherited (pre : List Pkt) (inv : Pkt) (rest : List Pkt)
    (hinv : inv.kind = kindInvoke) (hpre : Quiet pre)
    (hother : ∀ p ∈ pre, p.kind = kindInvokeMetadata → p.sid ≠ inv.sid) :
    newServerStream none (pre ++ inv :: rest) = .stream inv.sid inv.data none rest := by
  rw [metadata_scoped pre inv rest hinv hpre]
  unfold scopedMeta
  cases h : lastMeta pre with
  | none => rfl
  | some p =>
    have ⟨hm, hk⟩ := lastMeta_mem h
    simp [hother p hm hk]

/-- the concrete scenario: metadata for stream n, no invoke, then an invoke for stream n+1 -/
example (n : U64) (md rpc : Bytes) (m : Pairs) (h : decode md = .ok m) (rest : List Pkt) :
    newServerStream none (⟨kindInvokeMetadata, n, md⟩ :: ⟨kindInvoke, n + 1#64, rpc⟩ :: rest)
      = .stream (n + 1#64) rpc none rest := by
  refine abandoned_metadata_not_inherited [⟨kindInvokeMetadata, n, md⟩] ⟨kindInvoke, n + 1#64, rpc⟩ rest rfl ?_ ?_
  · intro p hp; simp at hp; subst hp; exact ⟨(by show kindInvokeMetadata ≠ kindInvoke; decide), fun _ => ⟨m, h⟩⟩
  · intro p hp _; simp at hp; subst hp
    simp only [ne_eq]
    intro e
    have : n.toNat = (n + 1#64).toNat := by rw [← e]
    simp [BitVec.toNat_add] at this
    omega

/-- **last_metadata_wins.** Of several metadata packets the last one counts, the earlier ones leave no trace. -/
theorem last_metadata_wins (pre : List Pkt) (last inv : Pkt) (rest : List Pkt)
    (hlast : last.kind = kindInvokeMetadata) (hinv : inv.kind = kindInvoke)
    (hpre : Quiet (pre ++ [last])) (hid : last.sid = inv.sid) :
    newServerStream none (pre ++ last :: inv :: rest)
      = .stream inv.sid inv.data (addPairs none (decoded last.data)) rest := by
  have e : pre ++ last :: inv :: rest = (pre ++ [last]) ++ inv :: rest := by simp
  rw [e, metadata_scoped (pre ++ [last]) inv rest hinv hpre]
  unfold scopedMeta
  rw [lastMeta_append_meta pre last hlast]
  simp [hid]

/-- An undecodable metadata packet ends the call with the decoder's error, whatever follows. -/
theorem undecodable_metadata_is_error (pre : List Pkt) (bad : Pkt) (rest : List Pkt)
    (hbad : bad.kind = kindInvokeMetadata) (hpre : Quiet pre) :
    (decode bad.data = .invalid → newServerStream none (pre ++ bad :: rest) = .invalid) ∧
    (decode bad.data = .tooLong → newServerStream none (pre ++ bad :: rest) = .tooLong) := by
  obtain ⟨mt, id, e⟩ := serverLoop_quiet_skip none pre (bad :: rest) [] 0#64 hpre
  unfold newServerStream
  rw [e]
  constructor <;> intro h <;> simp [serverLoop, hbad, h]

/-- A `NewServerStream` call never panics on any packet sequence. -/
theorem newServerStream_total (base : Option Pairs) (pkts : List Pkt) : newServerStream base pkts ≠ .panic := by
  unfold newServerStream
  generalize ([] : Pairs) = mt
  generalize (0#64 : U64) = id
  induction pkts generalizing mt id with
  | nil => simp [serverLoop]
  | cons p ps ih =>
    simp only [serverLoop]
    split
    · cases h : decode p.data with
      | ok m => exact ih m p.sid
      | invalid => simp
      | tooLong => simp
      | panic => exact absurd h (decode_total _)
    · split
      · simp
      · exact ih mt id

/-- **Consecutive calls are independent.** In a serve loop, the call that consumes `pre ++ [inv]`
    reports `scopedMeta pre`, and everything after it is what the loop would do on `rest` alone:
    nothing a call received (or abandoned) reaches a later call. -/
theorem calls_independent (pre : List Pkt) (inv : Pkt) (rest : List Pkt)
    (hinv : inv.kind = kindInvoke) (hpre : Quiet pre) :
    serve (pre ++ inv :: rest) = .served inv.sid inv.data (scopedMeta pre inv.sid) :: serve rest :=
  serve_cons (metadata_scoped pre inv rest hinv hpre)

/-- **Codec and scoping together.** What drpcconn puts on the wire for a call with metadata `m` on
    stream `n` (a metadata packet holding `Encode(m)` — only when that is non-empty — followed by the
    invoke on the same id), arriving after any abandoned earlier packets, gives the handler a context
    whose metadata is `m` when `m` is non-empty and no metadata when it is empty. -/
theorem client_metadata_arrives (pre : List Pkt) (n : U64) (m : Pairs) (rpc : Bytes) (rest : List Pkt)
    (hfit : Fits m) (hpre : Quiet pre) :
    newServerStream none
        (pre ++ (if encode m = [] then [] else [⟨kindInvokeMetadata, n, encode m⟩]) ++ ⟨kindInvoke, n, rpc⟩ :: rest)
      = .stream n rpc (if m = [] then (scopedMeta pre n) else some m) rest := by
  by_cases hm : m = []
  · subst hm
    simp only [encode, ↓reduceIte, List.append_nil]
    exact metadata_scoped pre ⟨kindInvoke, n, rpc⟩ rest rfl hpre
  · have he : ¬ encode m = [] := fun h => hm ((encode_eq_nil_iff m).mp h)
    simp only [he, hm, ↓reduceIte, List.append_assoc, List.cons_append, List.nil_append]
    have hq : Quiet (pre ++ [⟨kindInvokeMetadata, n, encode m⟩]) := by
      intro p hp
      rcases List.mem_append.mp hp with hp | hp
      · exact hpre p hp
      · simp at hp; subst hp
        exact ⟨(by show kindInvokeMetadata ≠ kindInvoke; decide), fun _ => ⟨m, decode_encode m hfit⟩⟩
    have := last_metadata_wins pre ⟨kindInvokeMetadata, n, encode m⟩ ⟨kindInvoke, n, rpc⟩ rest rfl rfl hq rfl
    rw [this]
    simp [decoded, decode_encode m hfit, addPairs, hm]

/-- hypotheses of the scoping theorems are satisfiable: two calls, the first abandoned after its
    metadata, the second with its own metadata sent twice -/
example : serve [⟨kindInvokeMetadata, 1#64, encode [([1#8], [2#8])]⟩,
                 ⟨kindInvokeMetadata, 2#64, encode [([3#8], [4#8])]⟩,
                 ⟨kindInvokeMetadata, 2#64, encode [([5#8], [])]⟩,
                 ⟨kindInvoke, 2#64, [0x2f#8]⟩,
                 ⟨kindInvoke, 3#64, [0x2f#8]⟩]
    = [.served 2#64 [0x2f#8] (some [([5#8], [])]), .served 3#64 [0x2f#8] none, .waiting] := by
  have f1 : Fits [([5#8], ([] : Bytes))] := by intro kv h; simp at h; subst h; decide
  have f2 : Fits [([1#8], [2#8])] := by intro kv h; simp at h; subst h; decide
  have f3 : Fits [([3#8], [4#8])] := by intro kv h; simp at h; subst h; decide
  have q : Quiet [⟨kindInvokeMetadata, 1#64, encode [([1#8], [2#8])]⟩,
                  ⟨kindInvokeMetadata, 2#64, encode [([3#8], [4#8])]⟩] := by
    intro p hp; simp at hp
    rcases hp with hp | hp <;> subst hp
    · exact ⟨(by show kindInvokeMetadata ≠ kindInvoke; decide), fun _ => ⟨_, decode_encode _ f2⟩⟩
    · exact ⟨(by show kindInvokeMetadata ≠ kindInvoke; decide), fun _ => ⟨_, decode_encode _ f3⟩⟩
  have h1 := client_metadata_arrives _ 2#64 [([5#8], [])] [0x2f#8] [⟨kindInvoke, 3#64, [0x2f#8]⟩] f1 q
  have he : ¬ encode [([5#8], ([] : Bytes))] = [] := fun h => by
    have := (encode_eq_nil_iff _).mp h; cases this
  simp only [he, ↓reduceIte, List.cons_append, List.nil_append] at h1
  rw [serve_cons h1]
  have h2 := metadata_scoped [] ⟨kindInvoke, 3#64, [0x2f#8]⟩ [] rfl (by intro p hp; cases hp)
  simp only [List.nil_append] at h2
  rw [serve_cons h2]
  simp [scopedMeta, lastMeta, serve, newServerStream, serverLoop]

end Drpc.Props.C11
