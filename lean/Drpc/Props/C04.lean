import Drpc.Lemmas.StreamSolo
import Drpc.Lemmas.StreamProgress
import Drpc.Lemmas.StreamInvStep
/-
  C04 — Cancelling an RPC's context unblocks every operation of that RPC.
  Stream-level theorems about Cancel / SendCancel on the atomic-step model, and the reachable hung
  state of the default (hard) cancel mode (known finding C04-hard-cancel-behind-close).  The
  manager's watcher (`manageStream`) and the two-endpoint behaviour are evidenced by the e2e suite.
-/
namespace Drpc.Props.C04
open Drpc Drpc.Stream

/-- `Stream.Cancel` on an idle open stream: returns false, records the cancel error, makes sends
    report EOF, terminates the stream with the context's error, closes the packet buffer with that
    error, and — nothing being in flight — finishes the stream (the context is done). -/
theorem cancel_terminates (s : St) (t : Tid) (tag : Nat) (hq : Quiet s.sh)
    (ht : s.sh.term = none) (hs : s.sh.send = none) (hp : s.sh.perr = none) (hf : s.sh.fin = false) :
    (call s t (.cancel tag)).pc t = .done (.bool false) ∧
    (call s t (.cancel tag)).sh.cancel = setOnce s.sh.cancel (.ctx tag) ∧
    (call s t (.cancel tag)).sh.send = some .eof ∧
    (call s t (.cancel tag)).sh.term = some (.ctx tag) ∧
    (call s t (.cancel tag)).sh.perr = some (.ctx tag) ∧
    (call s t (.cancel tag)).sh.fin = true ∧ (call s t (.cancel tag)).sh.ctxDone = true ∧
    (call s t (.cancel tag)).sh.mu = none := by
  obtain ⟨h1, h2, h3, h4, h5, h6, h7, h8⟩ := hq
  solo

/-- A receive parked in `packetBuffer.Get` (buffer empty, no error) cannot move … -/
theorem blocked_recv_is_blocked (s : St) (u : Tid) (m : RecvMode)
    (hpc : s.pc u = .get m) (hset : s.sh.pset = false) (herr : s.sh.perr = none) :
    step s u = none := by
  simp [step, stepPC, hpc, hset, herr]

/-- … and as soon as the packet buffer carries an error (which `cancel_terminates` shows Cancel
    puts there) its next step takes that error as the result: blocked receives report the
    context's error. -/
theorem blocked_recv_gets_ctx_error (s : St) (u : Tid) (m : RecvMode) (tag : Nat)
    (hpc : s.pc u = .get m) (herr : s.sh.perr = some (.ctx tag)) :
    ∃ s', step s u = some s' ∧ s'.pc u = .relR (.err (.ctx tag)) := by
  refine ⟨s.setPc u (.relR (.err (.ctx tag))), ?_, by simp⟩
  simp [step, stepPC, hpc, herr]

/-- `SendCancel` never waits for a lock: its two acquisitions are TryLocks, so both steps are
    enabled in every state (a soft cancel can never queue behind a blocked writer). -/
theorem soft_cancel_never_waits_behind_writer (s : St) (t : Tid) (tag : Nat) :
    (s.pc t = .tryMu tag → (step s t).isSome) ∧ (s.pc t = .tryW tag → (step s t).isSome) := by
  constructor <;> intro h <;> simp [step, stepPC, h] <;> split <;> simp

/-- When a writer holds the write lock, `SendCancel` reports busy and changes nothing (the manager
    then falls back to closing the transport). -/
theorem soft_cancel_busy_when_writer_active (s : St) (t w : Tid) (tag : Nat)
    (hmu : s.sh.mu = none) (hw : s.sh.w = some w) :
    (call s t (.sendCancel tag)).pc t = .done .busy ∧ (call s t (.sendCancel tag)).sh = s.sh := by
  solo
  generalize s.sh = sh at *; cases sh; simp_all

/-! ### the hang of the default cancel mode (known finding) -/

/-- A send whose frame fills the writer buffer parks in the transport holding the write lock. -/
theorem send_parks_in_transport (s : St) (d : Bytes) (fr : Frame) (rest : List Frame) (hq : Quiet s.sh)
    (ht : s.sh.term = none) (hs : s.sh.send = none) (ho : s.sh.once = some none)
    (hfr : framesOf s.opts (s.sh.mid + 1#64) (2#8) d = fr :: rest)
    (hbig : bufBytes (s.sh.wbuf ++ [fr]) ≥ s.opts.wsize) :
    (∃ sec, (call s 1 (.msgSend d)).pc 1 = .writing sec false) ∧
    (call s 1 (.msgSend d)).sh.w = some 1 ∧ (call s 1 (.msgSend d)).sh.mu = none ∧
    (call s 1 (.msgSend d)).sh.term = none := by
  obtain ⟨h1, h2, h3, h4, h5, h6, h7, h8⟩ := hq
  solo

/-- `Close` issued while another thread holds the write lock takes the transition lock and then
    waits for the write lock — holding the transition lock. -/
theorem close_waits_holding_mu (s : St) (hmu : s.sh.mu = none) (ht : s.sh.term = none) (hw : s.sh.w = some 1) :
    (call s 2 .close).pc 2 = .lockWmu .close ∧ (call s 2 .close).sh.mu = some 2 ∧
    (call s 2 .close).sh.w = some 1 ∧ step (call s 2 .close) 2 = none := by
  solo

/-- `Cancel` issued while the transition lock is held waits for it. -/
theorem cancel_waits_for_mu (s : St) (tag : Nat) (hmu : s.sh.mu = some 2) :
    (call s 3 (.cancel tag)).pc 3 = .lockMu (.cancel tag) ∧ (call s 3 (.cancel tag)).sh.mu = some 2 ∧
    step (call s 3 (.cancel tag)) 3 = none := by
  solo

/-- The hung state: from any idle open stream, a send parked in the transport, then Close, then
    (hard) Cancel on three goroutines leaves all three blocked — the sender on the transport, Close
    on the write lock while holding the transition lock, Cancel on the transition lock — and no
    step of any of them is enabled until the transport itself lets the write go.  Since in the
    default cancel mode it is Cancel's caller that would close the transport, nothing ever does.
    Replayed on the real code by the e2e suite (oracle C04:cancel-unblocks). -/
theorem cancel_hang_counterexample (s : St) (d : Bytes) (fr : Frame) (rest : List Frame) (tag : Nat)
    (hq : Quiet s.sh) (ht : s.sh.term = none) (hs : s.sh.send = none) (ho : s.sh.once = some none)
    (hfr : framesOf s.opts (s.sh.mid + 1#64) (2#8) d = fr :: rest)
    (hbig : bufBytes (s.sh.wbuf ++ [fr]) ≥ s.opts.wsize) :
    let hung := call (call (call s 1 (.msgSend d)) 2 .close) 3 (.cancel tag)
    step hung 1 = none ∧ step hung 2 = none ∧ step hung 3 = none ∧
    (∃ sec, hung.pc 1 = .writing sec false) ∧ hung.pc 2 = .lockWmu .close ∧ hung.pc 3 = .lockMu (.cancel tag) := by
  intro hung
  obtain ⟨⟨sec, p1⟩, w1, m1, t1⟩ := send_parks_in_transport s d fr rest hq ht hs ho hfr hbig
  obtain ⟨p2, m2, w2, b2⟩ := close_waits_holding_mu (call s 1 (.msgSend d)) m1 t1 w1
  obtain ⟨p3, m3, b3⟩ := cancel_waits_for_mu (call (call s 1 (.msgSend d)) 2 .close) tag m2
  have q1 : hung.pc 1 = .writing sec false := by
    show (call (call (call s 1 (.msgSend d)) 2 .close) 3 (.cancel tag)).pc 1 = _
    rw [call_pc_other _ _ _ _ (by decide), call_pc_other _ _ _ _ (by decide), p1]
  have q2 : hung.pc 2 = .lockWmu .close := by
    show (call (call (call s 1 (.msgSend d)) 2 .close) 3 (.cancel tag)).pc 2 = _
    rw [call_pc_other _ _ _ _ (by decide), p2]
  refine ⟨?_, ?_, b3, ⟨sec, q1⟩, q2, p3⟩
  · simp [step, stepPC, q1]
  · -- Close still waits: the write lock is still owned by thread 1 in the final state
    have hw : hung.sh.w = some 1 := by
      show (call (call (call s 1 (.msgSend d)) 2 .close) 3 (.cancel tag)).sh.w = _
      have : (call (call (call s 1 (.msgSend d)) 2 .close) 3 (.cancel tag)).sh =
             (call (call s 1 (.msgSend d)) 2 .close).sh := by
        generalize call (call s 1 (.msgSend d)) 2 .close = s2 at m2 ⊢
        solo
      rw [this, w2]
    simp [step, stepPC, q2, hw]

/-! ## No internal deadlock (liveness as safety), for every reachable state of the atomic-step
    model — any number of threads, any interleaving.  `Quiescent s`: no thread has an enabled step. -/

theorem isDone_iff (p : PC) : isDone p = true ↔ ∃ r, p = .done r := by
  cases p <;> simp

/-- (A1) The exact list of places where a thread can be blocked: `step s t = none` iff the thread
    has returned, or is parked in the ENVIRONMENT (`EnvParked`: transport write in flight, parked
    user Marshal / Unmarshal), or waits for INPUT at the packet buffer (`InputWait`: `Get` on an
    empty open buffer, `Put` on an occupied slot, `Put` awaiting consumption), or waits for a
    lock-like resource held by another thread (`LockWait`: `s.write` at `lockW`/`lockWmu`, `s.mu`
    at `lockMu`, `s.read` at `lockR`, the running flush once at `once`, the lent packet buffer at
    `tClose`/`hPClose`). -/
theorem blocked_thread_classification {s : St} (h : Reach s) (t : Tid) :
    step s t = none ↔
      (isDone (s.pc t) = true ∨ EnvParked (s.pc t) = true ∨ InputWait s.sh (s.pc t) = true ∨
       LockWait s.sh (s.pc t) = true) := by
  rw [blocked_iff (reach_pcOK2 h t)]
  simp [Bool.or_eq_true, or_assoc]

/-- (A2) No internal deadlock: in a quiescent state with nobody parked in the environment, the
    write lock, `s.mu`, the flush once are free and the packet buffer is not lent; every thread
    has returned, or waits for input at the packet buffer, or waits for `s.read` whose owner waits
    for input in `Get`.  (Lock order mu → write → environment, read → input: no lock is held by a
    returned or non-existent thread, no cycle.) -/
theorem no_internal_deadlock {s : St} (h : Reach s) (hq : Quiescent s)
    (hne : ∀ t, EnvParked (s.pc t) = false) :
    (s.sh.w = none ∧ s.sh.mu = none ∧ (∀ u, s.sh.once ≠ some (some u)) ∧ s.sh.pheld = false) ∧
    ∀ t, (∃ r, s.pc t = .done r) ∨ InputWait s.sh (s.pc t) = true ∨
      (∃ m, s.pc t = .lockR m ∧ ∃ u m', s.sh.r = some u ∧ s.pc u = .get m' ∧ InputWait s.sh (.get m') = true) := by
  obtain ⟨f1, f2, f3, f4⟩ := quiescent_locks_free h hq hne
  refine ⟨⟨f2, f3, ?_, f1⟩, ?_⟩
  · intro u hu; simp [getOnce, hu] at f4
  · intro t
    rcases Stream.no_internal_deadlock h hq hne t with h1 | h1 | h1
    · exact .inl ((isDone_iff _).mp h1)
    · exact .inr (.inl h1)
    · exact .inr (.inr h1)

/-- (A3) A terminated stream with nobody parked in the environment cannot be stuck: in such a
    quiescent state the packet buffer is closed, EVERY call has returned, and the stream is finished. -/
theorem terminated_quiescent_all_done {s : St} (h : Reach s) (hq : Quiescent s)
    (hne : ∀ t, EnvParked (s.pc t) = false) (hterm : s.sh.term.isSome = true) :
    s.sh.perr.isSome = true ∧ (∀ t, ∃ r, s.pc t = .done r) ∧ s.sh.fin = true := by
  obtain ⟨h1, h2⟩ := Stream.terminated_quiescent_all_done h hq hne hterm
  have hd : ∀ t, ∃ r, s.pc t = .done r := fun t => (isDone_iff _).mp (h2 t)
  refine ⟨h1, hd, ?_⟩
  cases hf : s.sh.fin with
  | true => rfl
  | false =>
    obtain ⟨t, ho⟩ := (reach_sigs h).obligated ⟨hterm, hf⟩
    obtain ⟨r, hr⟩ := hd t
    rw [hr] at ho; cases ho

/-- (A4) Cancel unblocks every operation of the stream — provided the environment lets go:
    once the stream is cancelled (cancel signal set, hence terminated; packet buffer closed with the
    error), in a quiescent state in which the transport is not holding a write and no user
    Marshal / Unmarshal is parked, every call has returned (and the stream is finished).
    `_partial`: the statement is at stream level and needs `inflight = none`; the excluded case is
    (the hypotheses `cancel` set and `perr` set are not even needed: `term` set suffices);
    real in hard-cancel mode (`cancel_hang_counterexample` above: a transport write that never
    completes keeps `s.write`, Close keeps `s.mu` behind it, Cancel waits for `s.mu`). -/
theorem cancel_unblocks_partial {s : St} (h : Reach s) (_hc : s.sh.cancel.isSome = true)
    (hterm : s.sh.term.isSome = true) (_hperr : s.sh.perr.isSome = true) (hq : Quiescent s)
    (hw : s.sh.inflight = none)
    (hm : ∀ t d sec, s.pc t ≠ .marshal (.msgSend d true) sec)
    (hu : ∀ t d m, s.pc t = .unmarshal d m → m.park = false) :
    (∀ t, ∃ r, s.pc t = .done r) ∧ s.sh.fin = true := by
  have hne : ∀ t, EnvParked (s.pc t) = false := by
    intro t
    cases hp : s.pc t <;> simp
    case writing sec ff =>
      have := ((reach_locks h).inflight t).mpr (by simp [hp])
      simp [getInflight, hw] at this
    case unmarshal d m => exact hu t d m hp
    case marshal c sec =>
      cases c <;> simp
      case msgSend d p =>
        cases p with
        | false => rfl
        | true => exact absurd hp (hm t d sec)
  exact (terminated_quiescent_all_done h hq hne hterm).2

/-- (A5) A hang needs the environment: if a terminated stream is quiescent and some call has not
    returned, then some thread is parked in a transport write or in user Marshal / Unmarshal. -/
theorem hang_needs_transport {s : St} (h : Reach s) (hq : Quiescent s) (hterm : s.sh.term.isSome = true)
    (hhang : ∃ t, ∀ r, s.pc t ≠ .done r) : ∃ t, EnvParked (s.pc t) = true := by
  apply Classical.byContradiction
  intro hno
  have hne : ∀ t, EnvParked (s.pc t) = false := by
    intro t
    cases he : EnvParked (s.pc t) with
    | false => rfl
    | true => exact absurd ⟨t, he⟩ hno
  obtain ⟨t, ht⟩ := hhang
  obtain ⟨r, hr⟩ := (terminated_quiescent_all_done h hq hne hterm).2.1 t
  exact ht r hr

/-- non-vacuity: (1) after a `KindMessage` packet on a fresh stream the state is quiescent, nobody
    is parked in the environment, and the one live thread waits for input (`Put` awaiting
    consumption) — the hypotheses of `no_internal_deadlock`; (2) after `Cancel` on a fresh stream
    the state is quiescent, terminated, with nobody parked — the hypotheses of
    `terminated_quiescent_all_done` / `cancel_unblocks_partial`. -/
example :
    (let s := call {} 0 (.handle kindMessage false true [7#8])
     Reach s ∧ Quiescent s ∧ (∀ t, EnvParked (s.pc t) = false) ∧ InputWait s.sh (s.pc 0) = true) ∧
    (let s := call {} 0 (.cancel 7)
     Reach s ∧ Quiescent s ∧ (∀ t, EnvParked (s.pc t) = false) ∧ s.sh.term.isSome = true ∧
     s.sh.cancel.isSome = true ∧ s.sh.perr.isSome = true ∧ s.sh.inflight = none) := by
  have other : ∀ (c : Call) (t : Tid), t ≠ 0 → (call {} 0 c).pc t = .done .nil := by
    intro c t ht; rw [call_pc_other _ _ _ _ ht]
  refine ⟨⟨reach_call _ (Reach.init {}) ⟨_, rfl⟩, ?_, ?_, by decide⟩,
          ⟨reach_call _ (Reach.init {}) ⟨_, rfl⟩, ?_, ?_, by decide, by decide, by decide, by decide⟩⟩
  · intro t
    by_cases ht : t = 0
    · subst ht; decide
    · show step _ t = none; unfold step; rw [other _ t ht]; rfl
  · intro t
    by_cases ht : t = 0
    · subst ht; decide
    · show EnvParked _ = false; rw [other _ t ht]; rfl
  · intro t
    by_cases ht : t = 0
    · subst ht; decide
    · show step _ t = none; unfold step; rw [other _ t ht]; rfl
  · intro t
    by_cases ht : t = 0
    · subst ht; decide
    · show EnvParked _ = false; rw [other _ t ht]; rfl

end Drpc.Props.C04
