import Drpc.Lemmas.StreamSolo
/-
  C04 — Cancelling an RPC's context unblocks every operation of that RPC.
  Stream-level theorems about Cancel / SendCancel on the atomic-step model, and the reachable hung
  state of the default (hard) cancel mode (known finding C04-hard-cancel-behind-close).  The
  manager's watcher (`manageStream`) and the two-endpoint behaviour are evidenced by the e2e suite.
-/
namespace Drpc.Props.C04
open Drpc Drpc.Stream

/-- `Stream.Cancel` on an idle open stream: returns false, records the cancel error, makes sends
    report EOF, terminates the stream with the context's error, closes the packet buffer with that
    error, and — nothing being in flight — finishes the stream (the context is done). -/
theorem cancel_terminates (s : St) (t : Tid) (tag : Nat) (hq : Quiet s.sh)
    (ht : s.sh.term = none) (hs : s.sh.send = none) (hp : s.sh.perr = none) (hf : s.sh.fin = false) :
    (call s t (.cancel tag)).pc t = .done (.bool false) ∧
    (call s t (.cancel tag)).sh.cancel = setOnce s.sh.cancel (.ctx tag) ∧
    (call s t (.cancel tag)).sh.send = some .eof ∧
    (call s t (.cancel tag)).sh.term = some (.ctx tag) ∧
    (call s t (.cancel tag)).sh.perr = some (.ctx tag) ∧
    (call s t (.cancel tag)).sh.fin = true ∧ (call s t (.cancel tag)).sh.ctxDone = true ∧
    (call s t (.cancel tag)).sh.mu = none := by
  obtain ⟨h1, h2, h3, h4, h5, h6, h7, h8⟩ := hq
  solo

/-- A receive parked in `packetBuffer.Get` (buffer empty, no error) cannot move … -/
theorem blocked_recv_is_blocked (s : St) (u : Tid) (m : RecvMode)
    (hpc : s.pc u = .get m) (hset : s.sh.pset = false) (herr : s.sh.perr = none) :
    step s u = none := by
  simp [step, stepPC, hpc, hset, herr]

/-- … and as soon as the packet buffer carries an error (which `cancel_terminates` shows Cancel
    puts there) its next step takes that error as the result: blocked receives report the
    context's error. -/
theorem blocked_recv_gets_ctx_error (s : St) (u : Tid) (m : RecvMode) (tag : Nat)
    (hpc : s.pc u = .get m) (herr : s.sh.perr = some (.ctx tag)) :
    ∃ s', step s u = some s' ∧ s'.pc u = .relR (.err (.ctx tag)) := by
  refine ⟨s.setPc u (.relR (.err (.ctx tag))), ?_, by simp⟩
  simp [step, stepPC, hpc, herr]

/-- `SendCancel` never waits for a lock: its two acquisitions are TryLocks, so both steps are
    enabled in every state (a soft cancel can never queue behind a blocked writer). -/
theorem soft_cancel_never_waits_behind_writer (s : St) (t : Tid) (tag : Nat) :
    (s.pc t = .tryMu tag → (step s t).isSome) ∧ (s.pc t = .tryW tag → (step s t).isSome) := by
  constructor <;> intro h <;> simp [step, stepPC, h] <;> split <;> simp

/-- When a writer holds the write lock, `SendCancel` reports busy and changes nothing (the manager
    then falls back to closing the transport). -/
theorem soft_cancel_busy_when_writer_active (s : St) (t w : Tid) (tag : Nat)
    (hmu : s.sh.mu = none) (hw : s.sh.w = some w) :
    (call s t (.sendCancel tag)).pc t = .done .busy ∧ (call s t (.sendCancel tag)).sh = s.sh := by
  solo
  generalize s.sh = sh at *; cases sh; simp_all

/-! ### the hang of the default cancel mode (known finding) -/

/-- A send whose frame fills the writer buffer parks in the transport holding the write lock. -/
theorem send_parks_in_transport (s : St) (d : Bytes) (fr : Frame) (rest : List Frame) (hq : Quiet s.sh)
    (ht : s.sh.term = none) (hs : s.sh.send = none) (ho : s.sh.once = some none)
    (hfr : framesOf s.opts (s.sh.mid + 1#64) (2#8) d = fr :: rest)
    (hbig : bufBytes (s.sh.wbuf ++ [fr]) ≥ s.opts.wsize) :
    (∃ sec, (call s 1 (.msgSend d)).pc 1 = .writing sec false) ∧
    (call s 1 (.msgSend d)).sh.w = some 1 ∧ (call s 1 (.msgSend d)).sh.mu = none ∧
    (call s 1 (.msgSend d)).sh.term = none := by
  obtain ⟨h1, h2, h3, h4, h5, h6, h7, h8⟩ := hq
  solo

/-- `Close` issued while another thread holds the write lock takes the transition lock and then
    waits for the write lock — holding the transition lock. -/
theorem close_waits_holding_mu (s : St) (hmu : s.sh.mu = none) (ht : s.sh.term = none) (hw : s.sh.w = some 1) :
    (call s 2 .close).pc 2 = .lockWmu .close ∧ (call s 2 .close).sh.mu = some 2 ∧
    (call s 2 .close).sh.w = some 1 ∧ step (call s 2 .close) 2 = none := by
  solo

/-- `Cancel` issued while the transition lock is held waits for it. -/
theorem cancel_waits_for_mu (s : St) (tag : Nat) (hmu : s.sh.mu = some 2) :
    (call s 3 (.cancel tag)).pc 3 = .lockMu (.cancel tag) ∧ (call s 3 (.cancel tag)).sh.mu = some 2 ∧
    step (call s 3 (.cancel tag)) 3 = none := by
  solo

/-- The hung state: from any idle open stream, a send parked in the transport, then Close, then
    (hard) Cancel on three goroutines leaves all three blocked — the sender on the transport, Close
    on the write lock while holding the transition lock, Cancel on the transition lock — and no
    step of any of them is enabled until the transport itself lets the write go.  Since in the
    default cancel mode it is Cancel's caller that would close the transport, nothing ever does.
    Replayed on the real code by the e2e suite (oracle C04:cancel-unblocks). -/
theorem cancel_hang_counterexample (s : St) (d : Bytes) (fr : Frame) (rest : List Frame) (tag : Nat)
    (hq : Quiet s.sh) (ht : s.sh.term = none) (hs : s.sh.send = none) (ho : s.sh.once = some none)
    (hfr : framesOf s.opts (s.sh.mid + 1#64) (2#8) d = fr :: rest)
    (hbig : bufBytes (s.sh.wbuf ++ [fr]) ≥ s.opts.wsize) :
    let hung := call (call (call s 1 (.msgSend d)) 2 .close) 3 (.cancel tag)
    step hung 1 = none ∧ step hung 2 = none ∧ step hung 3 = none ∧
    (∃ sec, hung.pc 1 = .writing sec false) ∧ hung.pc 2 = .lockWmu .close ∧ hung.pc 3 = .lockMu (.cancel tag) := by
  intro hung
  obtain ⟨⟨sec, p1⟩, w1, m1, t1⟩ := send_parks_in_transport s d fr rest hq ht hs ho hfr hbig
  obtain ⟨p2, m2, w2, b2⟩ := close_waits_holding_mu (call s 1 (.msgSend d)) m1 t1 w1
  obtain ⟨p3, m3, b3⟩ := cancel_waits_for_mu (call (call s 1 (.msgSend d)) 2 .close) tag m2
  have q1 : hung.pc 1 = .writing sec false := by
    show (call (call (call s 1 (.msgSend d)) 2 .close) 3 (.cancel tag)).pc 1 = _
    rw [call_pc_other _ _ _ _ (by decide), call_pc_other _ _ _ _ (by decide), p1]
  have q2 : hung.pc 2 = .lockWmu .close := by
    show (call (call (call s 1 (.msgSend d)) 2 .close) 3 (.cancel tag)).pc 2 = _
    rw [call_pc_other _ _ _ _ (by decide), p2]
  refine ⟨?_, ?_, b3, ⟨sec, q1⟩, q2, p3⟩
  · simp [step, stepPC, q1]
  · -- Close still waits: the write lock is still owned by thread 1 in the final state
    have hw : hung.sh.w = some 1 := by
      show (call (call (call s 1 (.msgSend d)) 2 .close) 3 (.cancel tag)).sh.w = _
      have : (call (call (call s 1 (.msgSend d)) 2 .close) 3 (.cancel tag)).sh =
             (call (call s 1 (.msgSend d)) 2 .close).sh := by
        generalize call (call s 1 (.msgSend d)) 2 .close = s2 at m2 ⊢
        solo
      rw [this, w2]
    simp [step, stepPC, q2, hw]

end Drpc.Props.C04
