import Drpc.Lemmas.StreamSolo
/-
  C06 — A connection whose RPCs have ended accepts the next RPC.
  Stream-level part: what the server does with its stream when the handler returns
  (drpcserver.handleRPC), and why that keeps the connection's reader goroutine free.
  The defect these theorems were written against was repaired by a `fix:` commit (see
  known_findings.json, "fixed: property=C06").  The system-level statement (any history of RPCs
  followed by a probe) is evidenced by the e2e suite's probe family.
-/
namespace Drpc.Props.C06
open Drpc Drpc.Stream

/-- handleRPC after a handler returned nil, as repaired: CloseSend, then terminate the stream
    locally (Cancel). -/
def handlerReturnedNil (s : St) (t : Tid) : St := call (call s t .closeSend) t (.cancel 0)

/-- handleRPC before the repair: CloseSend only. -/
def handlerReturnedNilOld (s : St) (t : Tid) : St := call s t .closeSend

/-- what the first call does: the half-close packet is parked in the transport, the transition lock
    is free again, and the stream is NOT terminated (the client has not half-closed) -/
theorem closeSend_effect (s : St) (t : Tid) (hq : Quiet s.sh)
    (ht : s.sh.term = none) (hs : s.sh.send = none) (hr : s.sh.recv = none) :
    (∃ sec b, (call s t .closeSend).pc t = .writing sec b) ∧ (call s t .closeSend).sh.mu = none ∧
    (call s t .closeSend).sh.term = none ∧ (call s t .closeSend).sh.send = some .sendClosed ∧
    (call s t .closeSend).sh.perr = s.sh.perr ∧ (call s t .closeSend).sh.pset = s.sh.pset := by
  obtain ⟨h1, h2, h3, h4, h5, h6, h7, h8⟩ := hq
  by_cases hb : s.opts.wsize ≤ bufBytes (s.sh.wbuf ++
      [{ data := [], sid := s.opts.sid, mid := s.sh.mid + 1#64, kind := 6#8, done := true, control := false }])
  · solo
  · solo

/-- Before the repair: with the handler gone, the next message from the client is stored in the
    packet buffer and the connection's reader goroutine then waits for a consumer that will never
    come: it is parked in `Put` (pc `put2`) with no enabled step. -/
theorem handler_return_without_cancel_wedges_counterexample (s : St) (t r : Tid) (d : Bytes) (hne : r ≠ t)
    (hq : Quiet s.sh) (ht : s.sh.term = none) (hs : s.sh.send = none) (hr : s.sh.recv = none)
    (hp : s.sh.perr = none) (hset : s.sh.pset = false) :
    let s1 := handlerReturnedNilOld s t
    let s2 := call s1 r (.handle kindMessage false true d)
    s2.pc r = .put2 ∧ step s2 r = none := by
  intro s1 s2
  obtain ⟨_, hmu, hterm, _, hperr, hpset⟩ := closeSend_effect s t hq ht hs hr
  have e : s2 = call (call s t .closeSend) r (.handle kindMessage false true d) := rfl
  rw [e]
  generalize call s t .closeSend = s1' at hmu hterm hperr hpset ⊢
  rw [hp] at hperr; rw [hset] at hpset
  solo

/-- After the repair the server stream is terminated as soon as the handler has returned … -/
theorem handler_return_terminates_server_stream (s : St) (t : Tid)
    (hq : Quiet s.sh) (hmu : s.sh.mu = none) (hf : s.sh.fin = false) :
    (call s t (.cancel 0)).sh.term.isSome = true ∧ (call s t (.cancel 0)).sh.mu = none := by
  obtain ⟨h1, h2, h3, h4, h5, h6, h7, h8⟩ := hq
  solo

/-- … and a terminated stream never parks the reader: every packet for it (messages included)
    returns at once and changes nothing, so the reader goes on to the next packet — the next
    RPC's invoke. -/
theorem reader_not_parked_after_termination (s : St) (r : Tid) (k : Byte) (ctl : Bool) (d : Bytes) (e : Err)
    (ht : s.sh.term = some e) :
    (call s r (.handle k ctl true d)).pc r = .done .nil ∧ (call s r (.handle k ctl true d)).sh = s.sh := by
  solo

/-- A reader that was already parked in `Put` when the stream terminates is released:
    `pbufClose` empties the slot, which enables the `put2` step. -/
theorem put_returns_after_termination (s : St) (r : Tid) (e : Err)
    (hpc : s.pc r = .put2) (hheld : s.sh.pheld = false) (herr : s.sh.perr = none) :
    let s' := s.setSh (pbufClose s.sh e)
    ∃ s'', step s' r = some s'' ∧ s''.pc r = .done .nil := by
  intro s'
  refine ⟨s'.setPc r (.done .nil), ?_, by simp⟩
  simp [s', step, stepPC, St.setSh, hpc, pbufClose, herr, hheld]

end Drpc.Props.C06
