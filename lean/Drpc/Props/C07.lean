import Drpc.Lemmas.StreamInvReader
import Drpc.Props.C09
/-
  C07 — Bytes put on the transport always form a valid, non-interleaved frame stream.
  Property theorems only (per-stream part).  All statements are about every reachable state
  (`Reach`) of the atomic-step model `Drpc/Stream/Conc.lean` of drpcstream.Stream + drpcwire.Writer:
  any number of threads, any interleaving of their atomic steps, any completion order of transport
  writes / Marshal / Unmarshal, any idle thread starting any call at any time.
  The invariants behind them are in `Drpc/Lemmas/StreamInv*.lean`.
-/
namespace Drpc.Props.C07
open Drpc Drpc.Stream

/-! ### lock discipline: owner ↔ program counter -/

/-- `s.mu` is owned exactly by the thread whose pc is in `holdsMu` -/
theorem mu_owner {s : St} (h : Reach s) (t : Tid) : s.sh.mu = some t ↔ holdsMu (s.pc t) = true :=
  (reach_locks h).mu t

/-- `s.write` is owned exactly by the thread whose pc is in `holdsW` (from the successful
    Lock/TryLock to the `Mutex.Unlock`) -/
theorem write_owner {s : St} (h : Reach s) (t : Tid) : s.sh.w = some t ↔ holdsW (s.pc t) = true :=
  (reach_locks h).w t

theorem read_owner {s : St} (h : Reach s) (t : Tid) : s.sh.r = some t ↔ holdsR (s.pc t) = true :=
  (reach_locks h).r t

/-- at most one thread is inside each critical section -/
theorem at_most_one_owner {s : St} (h : Reach s) {t u : Tid} :
    (holdsMu (s.pc t) = true → holdsMu (s.pc u) = true → t = u) ∧
    (holdsW (s.pc t) = true → holdsW (s.pc u) = true → t = u) ∧
    (holdsR (s.pc t) = true → holdsR (s.pc u) = true → t = u) :=
  ⟨(reach_locks h).mu.unique, (reach_locks h).w.unique, (reach_locks h).r.unique⟩

/-- `write.held = 1` throughout the section between the two stores … -/
theorem write_held_in_section {s : St} (h : Reach s) {t : Tid} (ht : wHeldSec (s.pc t) = true) :
    s.sh.wHeld = true :=
  (reach_locks h).wHeld1 t ht

/-- … and only then: if `write.held = 1`, the owner of `s.write` is between the two stores. -/
theorem write_held_has_owner {s : St} (h : Reach s) (hh : s.sh.wHeld = true) :
    ∃ t, s.sh.w = some t ∧ wHeldSec (s.pc t) = true :=
  (reach_locks h).wHeld2 hh

theorem read_held_in_section {s : St} (h : Reach s) {t : Tid} (ht : rHeldSec (s.pc t) = true) :
    s.sh.rHeld = true :=
  (reach_locks h).rHeld1 t ht

theorem read_held_has_owner {s : St} (h : Reach s) (hh : s.sh.rHeld = true) :
    ∃ t, s.sh.r = some t ∧ rHeldSec (s.pc t) = true :=
  (reach_locks h).rHeld2 hh

/-- a transport write is in flight for thread `t` exactly when `t` is parked in `writing` -/
theorem inflight_owner {s : St} (h : Reach s) (t : Tid) :
    (∃ fs, s.sh.inflight = some (t, fs)) ↔ (∃ sec ff, s.pc t = .writing sec ff) := by
  have := (reach_locks h).inflight t
  constructor
  · rintro ⟨fs, hfs⟩
    have h2 := this.mp (by simp [getInflight, hfs])
    cases hp : s.pc t <;> rw [hp] at h2 <;> simp at h2
    exact ⟨_, _, rfl⟩
  · rintro ⟨sec, ff, hp⟩
    have h2 := this.mpr (by simp [hp])
    cases hi : s.sh.inflight with
    | none => simp [getInflight, hi] at h2
    | some x => simp [getInflight, hi] at h2; exact ⟨x.2, by rw [← h2]⟩

/-- the flush `sync.Once`: a thread in the write section of the RawFlush that MsgRecv runs inside
    `flush.Do` is the one recorded as running the once; and whoever is recorded as running it is in
    that section or in the `checkFinished` that ends a RawFlush.  (Two implications instead of one
    equivalence: the continuation `K` of `cf1 … cfEnd` does not record which RawFlush it ends.) -/
theorem once_runner {s : St} (h : Reach s) (t : Tid) :
    (onceSec (s.pc t) = true → s.sh.once = some (some t)) ∧
    (s.sh.once = some (some t) → onceMay (s.pc t) = true) := by
  have h1 := (reach_locks h).once1 t
  have h2 := (reach_locks h).once2 t
  simp only [getOnce, Option.join_eq_some_iff] at h1 h2
  exact ⟨h1, h2⟩

/-! ### emission happens under the write lock -/

/-- A step that changes the writer — its buffer, its `empty` flag, the transport write in flight,
    the completed writes, the message id (`id_bumped_under_lock`), or the ghost history — is taken
    by the owner of `s.write`. -/
theorem emit_under_write_lock {s s' : St} {t : Tid} (h : Reach s) (hs : step s t = some s') :
    s.sh.w = some t ∨
    (s'.sh.wbuf = s.sh.wbuf ∧ s'.sh.wFlag = s.sh.wFlag ∧ s'.sh.inflight = s.sh.inflight ∧
     s'.sh.wire = s.sh.wire ∧ s'.sh.mid = s.sh.mid ∧ s'.sh.hist = s.sh.hist ∧
     s'.sh.midN = s.sh.midN ∧ s'.sh.failed = s.sh.failed) := by
  rcases step_writer_owner hs with h1 | h1
  · exact .inl (((reach_locks h).w t).mpr h1)
  · exact .inr h1

/-- An environment event that changes the writer is the completion of the transport write in
    flight, which belongs to the owner of `s.write`. -/
theorem completion_belongs_to_write_owner {s s' : St} {e : Env} (h : Reach s) (hs : envStep s e = some s') :
    (∃ t fs, s.sh.inflight = some (t, fs) ∧ s.sh.w = some t ∧ s'.sh.inflight = none) ∨
    (s'.sh.wbuf = s.sh.wbuf ∧ s'.sh.wFlag = s.sh.wFlag ∧ s'.sh.inflight = s.sh.inflight ∧
     s'.sh.wire = s.sh.wire ∧ s'.sh.mid = s.sh.mid ∧ s'.sh.hist = s.sh.hist ∧
     s'.sh.midN = s.sh.midN ∧ s'.sh.failed = s.sh.failed) := by
  rcases env_writer_owner hs with ⟨t, fs, h1, h2, h3⟩ | h1
  · exact .inl ⟨t, fs, h1, ((reach_locks h).w t).mpr (inWriting_holdsW _ h2), h3⟩
  · exact .inr h1

/-- At most one transport write is in flight (one cell `inflight`), it belongs to the owner of
    `s.write`, who is parked in it with `write.held = 1`; nobody else is in a transport write. -/
theorem single_writer {s : St} (h : Reach s) {t : Tid} {fs : List Frame} (hi : s.sh.inflight = some (t, fs)) :
    s.sh.w = some t ∧ s.sh.wHeld = true ∧ inWriting (s.pc t) = true ∧
    ∀ u, inWriting (s.pc u) = true → u = t := by
  have l := reach_locks h
  have hw : inWriting (s.pc t) = true := (l.inflight t).mp (by simp [getInflight, hi])
  refine ⟨(l.w t).mpr (inWriting_holdsW _ hw), l.wHeld1 t (inWriting_wHeldSec _ hw), hw, ?_⟩
  intro u hu
  exact l.inflight.unique hu hw

/-! ### finished is final -/

/-- Once the stream is finished, no thread is at a program counter from which it would append a
    frame or start a transport write without first reading `send`/`term` unset (`harmless` =
    not: in a transport write, in the unchecked write section of a terminal call, or anywhere
    between a terminal call's decision to terminate and that section).
    This is the store-buffering argument: `fin` is only set by a thread that has read `term` set,
    then `write.held = 0` (invariant `excl`: from that moment no thread is in `danger`, because
    entering `danger` needs `term` unset under `s.mu`, or passing a `send`/`term` check). -/
theorem finished_is_final {s : St} (h : Reach s) (hf : s.sh.fin = true) : ∀ t, harmless (s.pc t) = true := by
  intro t
  cases hd : danger (s.pc t) with
  | false => simp [harmless, hd]
  | true => have := (reach_sigs h).dangerFin t hd; rw [hf] at this; cases this

/-- … and consequently no step of any thread of a finished stream appends a frame, starts a
    transport write or changes what was written … -/
theorem finished_emits_nothing {s s' : St} {t : Tid} (h : Reach s) (hf : s.sh.fin = true)
    (hs : step s t = some s') :
    s'.sh.wbuf = s.sh.wbuf ∧ s'.sh.wFlag = s.sh.wFlag ∧ s'.sh.inflight = s.sh.inflight ∧
    s'.sh.wire = s.sh.wire ∧ s'.sh.hist = s.sh.hist ∧ s'.sh.failed = s.sh.failed := by
  rcases step_emit hs ((reach_locks h).ok t) with h1 | h1 | h1
  · exact h1
  · have := (reach_sigs h).dangerFin t h1; rw [hf] at this; cases this
  · have := (reach_sigs h).finTerm hf; rw [h1] at this; cases this

/-- … no transport write is in flight (so no completion event is possible either). -/
theorem finished_no_write_in_flight {s : St} (h : Reach s) (hf : s.sh.fin = true) : s.sh.inflight = none := by
  cases hi : s.sh.inflight with
  | none => rfl
  | some x =>
    have hw : inWriting (s.pc x.1) = true := ((reach_locks h).inflight x.1).mp (by simp [getInflight, hi])
    have hd : danger (s.pc x.1) = true := by
      cases hp : s.pc x.1 <;> rw [hp] at hw <;> simp at hw ⊢
    have := (reach_sigs h).dangerFin _ hd; rw [hf] at this; cases this

/-! ### the frame history is a well-formed frame stream -/

/-- As long as the 64-bit message counter has not wrapped (fewer than 2^64 messages started on
    this stream), the sequence of all frames ever appended to the writer is well-formed. -/
theorem wire_wellformed {s : St} (h : Reach s) (hnw : s.sh.midN < 2^64) :
    WellFormed s.opts.sid s.sh.hist = true :=
  WellFormed.prefix ((reach_wire h).wf hnw 0)

/-- every frame carries the stream's id -/
theorem frames_carry_stream_id {s : St} (h : Reach s) (hnw : s.sh.midN < 2^64) :
    ∀ f ∈ s.sh.hist, f.sid = s.opts.sid :=
  (WellFormed.spec (wire_wellformed h hnw)).1

/-- message ids never exceed the stream's current message id -/
theorem ids_bounded_by_current {s : St} (h : Reach s) (hnw : s.sh.midN < 2^64) :
    ∀ f ∈ s.sh.hist, f.mid.toNat ≤ s.sh.mid.toNat := by
  intro f hf
  rw [(reach_wire h).midEq, ofNat_toNat_of_lt hnw]
  exact (reach_wire h).histLe hnw f hf

/-- message ids never decrease along the history (`ids_nondecreasing_per_stream`) -/
theorem ids_nondecreasing {s : St} (h : Reach s) (hnw : s.sh.midN < 2^64) :
    s.sh.hist.Pairwise (fun a b => a.mid.toNat ≤ b.mid.toNat) := by
  refine (WellFormed.spec (wire_wellformed h hnw)).2.imp ?_
  intro a b hab
  rcases hab with h1 | ⟨h1, _, _⟩
  · omega
  · rw [h1]; exact Nat.le_refl _

/-- all frames of one message id have one kind (`one_kind_per_id`) -/
theorem one_kind_per_id {s : St} (h : Reach s) (hnw : s.sh.midN < 2^64) :
    s.sh.hist.Pairwise (fun a b => a.mid = b.mid → a.kind = b.kind) := by
  refine (WellFormed.spec (wire_wellformed h hnw)).2.imp ?_
  intro a b hab he
  rcases hab with h1 | ⟨_, h2, _⟩
  · rw [he] at h1; omega
  · exact h2

/-- no frame of the same message follows its `done` frame (`no_frame_after_done`): every frame
    after a `done` frame belongs to a strictly later message; hence only the last frame of a
    message id is `done` -/
theorem no_frame_after_done {s : St} (h : Reach s) (hnw : s.sh.midN < 2^64) :
    s.sh.hist.Pairwise (fun a b => a.done = true → a.mid.toNat < b.mid.toNat) := by
  refine (WellFormed.spec (wire_wellformed h hnw)).2.imp ?_
  intro a b hab hd
  rcases hab with h1 | ⟨_, _, h3⟩
  · exact h1
  · rw [hd] at h3; cases h3

/-- the frames of one message id are contiguous: between two frames of one message there is only
    that message -/
theorem frames_of_one_id_contiguous {s : St} (h : Reach s) (hnw : s.sh.midN < 2^64)
    {l1 l2 l3 : List Frame} {a b c : Frame} (hh : s.sh.hist = l1 ++ a :: l2 ++ b :: l3 ++ [c])
    (hac : a.mid = c.mid) : b.mid = a.mid := by
  have hp := ids_nondecreasing h hnw
  rw [hh] at hp
  have hab : a.mid.toNat ≤ b.mid.toNat :=
    (List.pairwise_append.mp (List.pairwise_append.mp hp).1).2.2 a (by simp) b (by simp)
  have hbc : b.mid.toNat ≤ c.mid.toNat :=
    (List.pairwise_append.mp hp).2.2 b (by simp) c (by simp)
  rw [← hac] at hbc
  exact BitVec.eq_of_toNat_eq (Nat.le_antisymm hbc hab)

/-- what reaches the transport is the history: completed transport writes, then the write in
    flight, then the writer's buffer, concatenated, are exactly the frames appended so far — as
    long as no transport write has failed (a failed write drops its frames). -/
theorem wire_is_history {s : St} (h : Reach s) (hok : s.sh.failed = false) :
    s.sh.wire.flatten ++ inflightFrames s.sh ++ s.sh.wbuf = s.sh.hist :=
  (reach_wire h).flat hok

/-- `WellFormed` on examples (the definition is executable): a two-frame message followed by a
    one-frame message is well-formed; a frame after the `done` frame of its message, a kind change
    inside a message, a decreasing id, a foreign stream id are not. -/
example : WellFormed 1 [⟨[1#8], 1, 1, 2, false, false⟩, ⟨[2#8], 1, 1, 2, true, false⟩, ⟨[], 1, 2, 5, true, false⟩] = true := by decide
example : WellFormed 1 [⟨[1#8], 1, 1, 2, true, false⟩, ⟨[2#8], 1, 1, 2, true, false⟩] = false := by decide
example : WellFormed 1 [⟨[1#8], 1, 1, 2, false, false⟩, ⟨[2#8], 1, 1, 3, true, false⟩] = false := by decide
example : WellFormed 1 [⟨[], 1, 2, 2, true, false⟩, ⟨[], 1, 1, 2, true, false⟩] = false := by decide
example : WellFormed 1 [⟨[], 2, 1, 2, true, false⟩] = false := by decide

/-- A conforming reader never rejects what the stream put on the transport.  Take any reachable
    state in which no transport write has failed and the message counter has not wrapped; let the
    bytes of all completed transport writes be fed to the reference reassembly of C09 (which is
    what `Reader.ReadPacket` computes for every chunking, `C09.run_eq_reference`) with a maximum
    `mx` that every packet of the stream respects.  Then the reassembly never ends in a
    ProtocolError: it consumes every frame and reports the transport's own end-of-stream error.
    Hypotheses that are about the caller, not the stream: the stream id is not 0
    (`drpcmanager` starts at 1), `RawWrite` is only used with kinds < 64 (the six wire bits —
    `C08.frame_roundtrip_kind64_counterexample`), and the size bound (`packetsFit`).
    `_partial`: per-stream statement; the connection-level statement (frames of successive
    streams on one transport) needs the manager model (`streams_ordered_on_wire`, DESIGN C07). -/
theorem conforming_reader_never_rejects_partial {s : St} (h : Reach s) (hnw : s.sh.midN < 2^64)
    (hok : s.sh.failed = false) (hsid : 1 ≤ s.opts.sid.toNat)
    (hkind : ∀ f ∈ s.sh.hist, f.kind.toNat < 64)
    (mx final : Nat) (hmx : mx < 2^64) (hfit : packetsFit mx none s.sh.wire.flatten = true) :
    (C09.reference mx final ((s.sh.wire.flatten.map appendFrame).flatten)).2 = .transport final := by
  have hflat := wire_is_history h hok
  have hpre : s.sh.hist = s.sh.wire.flatten ++ (inflightFrames s.sh ++ s.sh.wbuf) := by
    rw [← hflat, List.append_assoc]
  have hwf : WellFormed s.opts.sid s.sh.wire.flatten = true :=
    WellFormed.prefix (hpre ▸ wire_wellformed h hnw)
  have hmem : ∀ f ∈ s.sh.wire.flatten, f ∈ s.sh.hist := by
    intro f hf; rw [hpre]; exact List.mem_append_left _ hf
  have hall : ∀ f ∈ s.sh.wire.flatten, f.kind.toNat < 64 ∧ 1 ≤ f.mid.toNat :=
    fun f hf => ⟨hkind f (hmem f hf), (reach_wire h).histPos hnw f (hmem f hf)⟩
  obtain ⟨rid', cur', hd⟩ := drain_wellformed hsid hmx s.sh.wire.flatten none none (1#64, 1#64) none
    (by simp [Linked]) hwf hfit hall
  have : encodeFrames s.sh.wire.flatten = (s.sh.wire.flatten.map appendFrame).flatten := rfl
  simp only [C09.reference, ← this, hd, refEnd]
  simp

/-- non-vacuity: with a writer threshold of 0 a `Close` on a fresh stream parks in the transport
    write of its Close frame (the hypotheses of `single_writer` hold there: a write is in flight,
    the stream is terminated and not finished); after the write completes and the call returns,
    the stream is finished, nothing failed, and the one-frame history is on the wire
    (the hypotheses of `finished_is_final`, `wire_wellformed`, `wire_is_history` and
    `conforming_reader_never_rejects_partial` hold there). -/
example : ∃ s s', Reach s ∧ Reach s' ∧
    s.sh.inflight.isSome = true ∧ s.sh.term.isSome = true ∧ s.sh.fin = false ∧
    s'.sh.fin = true ∧ s'.sh.failed = false ∧ s'.sh.midN < 2^64 ∧ s'.sh.hist.length = 1 ∧
    s'.sh.wire.flatten = s'.sh.hist ∧ 1 ≤ s'.opts.sid.toNat ∧
    s'.sh.hist.all (fun f => decide (f.kind.toNat < 64)) = true ∧
    packetsFit 4096 none s'.sh.wire.flatten = true := by
  let s : St := call { opts := { wsize := 0 } } 0 .close
  have hr : Reach s := reach_call _ (Reach.init _) ⟨_, rfl⟩
  have hm : (envStep s (.release none)).map (fun x => ((runSolo 64 x 0).sh.fin, (runSolo 64 x 0).sh.failed,
      decide ((runSolo 64 x 0).sh.midN < 2^64), (runSolo 64 x 0).sh.hist.length,
      decide ((runSolo 64 x 0).sh.wire.flatten = (runSolo 64 x 0).sh.hist))) =
      some (true, false, true, 1, true) := by
    decide
  have hm2 : (envStep s (.release none)).map (fun x => (decide (1 ≤ (runSolo 64 x 0).opts.sid.toNat),
      (runSolo 64 x 0).sh.hist.all (fun f => decide (f.kind.toNat < 64)),
      packetsFit 4096 none (runSolo 64 x 0).sh.wire.flatten)) = some (true, true, true) := by
    decide
  cases he : envStep s (.release none) with
  | none => rw [he] at hm; cases hm
  | some x =>
    rw [he] at hm hm2
    simp only [Option.map_some, Option.some.injEq, Prod.mk.injEq, decide_eq_true_eq] at hm hm2
    exact ⟨s, runSolo 64 x 0, hr, reach_runSolo _ _ (hr.env he), by decide, by decide, by decide,
      hm.1, hm.2.1, hm.2.2.1, hm.2.2.2.1, hm.2.2.2.2, hm2.1, hm2.2.1, hm2.2.2⟩

end Drpc.Props.C07
