import Drpc.Lemmas.ManagerProto
/-
  What every trace ACCEPTED by the protocol checker of drpcmanager.Manager (`Drpc.Manager.allowed`,
  Manager/Proto.lean) satisfies.  `run {} tr = some s`: the checker, started in the initial state,
  accepts the whole trace `tr` and ends in state `s`.  The e2e suite checks that every trace reported by
  the verif hooks of the real manager is accepted, so these statements transfer to the observed runs.
-/
namespace Drpc.Props.Manager
open Drpc.Manager

/-! ### helpers local to the statements -/

theorem beginId_eq_some {e : Ev} {x : Nat} : beginId e = some x ↔ e = .newBegin x := by
  cases e <;> simp [beginId]

theorem sfinId_eq_some {e : Ev} {x : Nat} : sfinId e = some x ↔ e = .sfinRecv x := by
  cases e <;> simp [sfinId]

theorem mem_beginIds {tr : List Ev} {x : Nat} : x ∈ tr.filterMap beginId ↔ .newBegin x ∈ tr := by
  simp only [List.mem_filterMap, beginId_eq_some]
  constructor
  · rintro ⟨e, he, rfl⟩; exact he
  · intro h; exact ⟨_, h, rfl⟩

/-- the ids of the streams created are exactly the ids of the `newBegin` events, in order -/
theorem created_eq_trace {tr : List Ev} {s : PS} (h : run {} tr = some s) :
    s.created = tr.filterMap beginId := (tinv_of_run h).cnt.created

theorem mem_created_iff {tr : List Ev} {s : PS} (h : run {} tr = some s) {x : Nat} :
    x ∈ s.created ↔ .newBegin x ∈ tr := by
  rw [created_eq_trace h, mem_beginIds]

/-! ### 1. stream ids -/

/-- C02/C07: on one connection stream ids never repeat and never go backwards, and 0 is never used -/
theorem stream_ids_strictly_increase {tr : List Ev} {s : PS} (h : run {} tr = some s) :
    s.created.Pairwise (· < ·) ∧ ∀ x ∈ s.created, 0 < x :=
  ⟨(tinv_of_run h).inv.incr, (tinv_of_run h).inv.pos⟩

/-- the same on the trace itself -/
theorem stream_ids_strictly_increase_trace {tr : List Ev} {s : PS} (h : run {} tr = some s) :
    (tr.filterMap beginId).Pairwise (· < ·) ∧ ∀ x, .newBegin x ∈ tr → 0 < x := by
  have := stream_ids_strictly_increase h
  rw [created_eq_trace h] at this
  exact ⟨this.1, fun x hx => this.2 x (mem_beginIds.2 hx)⟩

/-! ### 2. termination and transport close -/

/-- C12/C07: the transport is closed at most once, and only by a terminated manager -/
theorem transport_closed_at_most_once_after_term {tr : List Ev} {s : PS} (h : run {} tr = some s) :
    s.closes ≤ 1 ∧ (s.closes = 1 → s.term = true) := (tinv_of_run h).inv.closes

theorem tport_close_at_most_once {tr : List Ev} {s : PS} (h : run {} tr = some s) :
    tr.count .tportClose ≤ 1 := by
  rw [(tinv_of_run h).cnt.nClose]; exact (tinv_of_run h).inv.closes.1

theorem term_at_most_once {tr : List Ev} {s : PS} (h : run {} tr = some s) :
    tr.count .term ≤ 1 := by
  rw [(tinv_of_run h).cnt.nTerm]; split <;> omega

/-- the transport close never precedes the `term` event -/
theorem tport_close_never_before_term {a b : List Ev} {s : PS}
    (h : run {} (a ++ [.tportClose] ++ b) = some s) : .term ∈ a := by
  obtain ⟨s1, h1, -⟩ := run_append_some h
  obtain ⟨s0, h0, hs⟩ := run_snoc h1
  have hc := (tinv_of_run h0).cnt.nTerm
  simp only [allowed] at hs
  split at hs
  · rename_i hg
    rw [hg.1] at hc
    exact List.count_pos_iff.1 (by rw [hc]; exact Nat.one_pos)
  · cases hs

/-! ### 3. the stream semaphore -/

/-- C06/C12: acquisitions and releases of the stream semaphore balance: one more acquisition than
    releases exactly while it is held -/
theorem semaphore_balance {tr : List Ev} {s : PS} (h : run {} tr = some s) :
    tr.count .semAcq = tr.count .semRel + (if s.sem then 1 else 0) := (tinv_of_run h).cnt.nSem

/-- `semAcq` and `semRel` strictly alternate, starting with `semAcq`: on every prefix of an accepted
    trace the number of acquisitions is the number of releases or one more (so no release without a
    preceding acquisition, no double release, no double acquisition) -/
theorem semaphore_alternates {tr : List Ev} {s : PS} (h : run {} tr = some s) :
    tr.count .semAcq = tr.count .semRel + (if s.sem then 1 else 0) ∧
    ∀ p, p <+: tr → p.count .semAcq = p.count .semRel ∨ p.count .semAcq = p.count .semRel + 1 := by
  refine ⟨semaphore_balance h, ?_⟩
  rintro p ⟨t, rfl⟩
  obtain ⟨s0, h0, -⟩ := run_append_some h
  have := semaphore_balance h0
  split at this <;> omega

/-! ### 4. creation only by the holder of the semaphore -/

/-- a stream is created only while the semaphore is held and after waitForPreviousStream succeeded -/
theorem create_only_under_semaphore {a : List Ev} {x : Nat} {s : PS}
    (h : run {} (a ++ [.newBegin x]) = some s) :
    ∃ s0, run {} a = some s0 ∧ s0.sem = true ∧ s0.prevOk = true ∧ s0.pending = none ∧ s0.curr < x := by
  obtain ⟨s0, h0, hs⟩ := run_snoc h
  refine ⟨s0, h0, ?_⟩
  simp only [allowed] at hs
  split at hs
  · rename_i hg; exact hg
  · cases hs

/-- trace form: the events since the last `semAcq` contain no `semRel` and contain the successful
    outcome of waitForPreviousStream (`prevNone` or `prevDone _`) -/
theorem create_only_under_semaphore_trace {a : List Ev} {x : Nat} {s : PS}
    (h : run {} (a ++ [.newBegin x]) = some s) :
    ∃ a1 a2, a = a1 ++ .semAcq :: a2 ∧ .semAcq ∉ a2 ∧ .semRel ∉ a2 ∧
      ∃ e ∈ a2, e = .prevNone ∨ ∃ sid, e = .prevDone sid := by
  obtain ⟨s0, h0, hsem, hprev, -, -⟩ := create_only_under_semaphore h
  obtain ⟨a1, a2, e1, n1, n2, hp⟩ := (tinv_of_run h0).sem hsem
  obtain ⟨e, he, hpe⟩ := hp hprev
  refine ⟨a1, a2, e1, n1, n2, e, he, ?_⟩
  cases e <;> simp [isPrev] at hpe ⊢

/-- a stream is PUBLISHED under the semaphore: when `sbuf.Set` has returned (`newEnd x`) the
    semaphore is still held, and since `newBegin x` there was no semaphore event and no other creation
    event.  (This is what the fix of newStream restores: the stream is published before it is handed to
    manageStreams, which may release the semaphore.) -/
theorem published_under_semaphore {a : List Ev} {x : Nat} {s : PS}
    (h : run {} (a ++ [.newEnd x]) = some s) :
    (∃ s0, run {} a = some s0 ∧ s0.sem = true ∧ s0.pending = some x) ∧
    ∃ a1 a2, a = a1 ++ .newBegin x :: a2 ∧ ∀ e ∈ a2, isCreate e = false ∧ e ≠ .semRel ∧ e ≠ .semAcq := by
  obtain ⟨s0, h0, hs⟩ := run_snoc h
  have hi := tinv_of_run h0
  simp only [allowed] at hs
  split at hs
  · rename_i hg
    exact ⟨⟨s0, h0, hi.inv.pendSem x hg, hg⟩, hi.pub x hg⟩
  · cases hs

/-- a stream is offered to manageStreams only after it was published, still under the semaphore:
    `newOffer x` is preceded by `newEnd x` with no semaphore event and no creation event between; and
    it is offered at most once -/
theorem offer_after_publish {a : List Ev} {x : Nat} {s : PS}
    (h : run {} (a ++ [.newOffer x]) = some s) :
    (∃ s0, run {} a = some s0 ∧ s0.sem = true ∧ s0.curr = x ∧ x ∈ s0.created ∧ x ∉ s0.offered) ∧
    (∃ a1 a2, a = a1 ++ .newEnd x :: a2 ∧ ∀ e ∈ a2, isCreate e = false ∧ e ≠ .semRel ∧ e ≠ .semAcq) ∧
    .newOffer x ∉ a := by
  obtain ⟨s0, h0, hs⟩ := run_snoc h
  have hi := tinv_of_run h0
  simp only [allowed] at hs
  split at hs
  · rename_i hg
    obtain ⟨hsem, hpn, hc, hin, hno⟩ := hg
    refine ⟨⟨s0, h0, hsem, hc, hin, hno⟩, ?_, ?_⟩
    · have hx0 : s0.curr ≠ 0 := by have := hi.inv.pos x hin; omega
      have := (hi.uno hpn hx0 (hc ▸ hno)).2
      rw [hc] at this; exact this
    · intro hx
      apply hno
      rw [hi.cnt.offered, List.mem_filterMap]; exact ⟨_, hx, rfl⟩
  · cases hs

/-- the semaphore is never released while a stream is being published, nor before the newest
    published stream was offered -/
theorem release_only_after_offer {a : List Ev} {s : PS} (h : run {} (a ++ [.semRel]) = some s) :
    ∃ s0, run {} a = some s0 ∧ s0.sem = true ∧ s0.pending = none ∧ (s0.curr = 0 ∨ .newOffer s0.curr ∈ a) := by
  obtain ⟨s0, h0, hs⟩ := run_snoc h
  have hi := tinv_of_run h0
  simp only [allowed] at hs
  split at hs
  · rename_i hg
    refine ⟨s0, h0, hg.1, hg.2.1, ?_⟩
    rcases hg.2.2 with h1 | h1
    · exact Or.inl h1
    · right
      rw [hi.cnt.offered, List.mem_filterMap] at h1
      obtain ⟨e, he, hid⟩ := h1
      cases e <;> simp [offerId] at hid
      subst hid; exact he
  · cases hs

/-! ### 5. the next stream only after the previous one finished -/

/-- C07 (frames of a later stream never precede frames of an earlier one) + C02: between the creation
    of a stream `x` and the next creation (of `y`) on the same manager, the creation of `x` was
    completed, the manager saw `x` finished (`prevDone x`), and `y` is larger -/
theorem next_stream_after_previous_finished {a b : List Ev} {x y : Nat} {s : PS}
    (h : run {} (a ++ [.newBegin x] ++ b ++ [.newBegin y]) = some s) (hb : ∀ z, .newBegin z ∉ b) :
    .prevDone x ∈ b ∧ .newEnd x ∈ b ∧ x < y := by
  obtain ⟨s2, h2, hy⟩ := run_snoc h
  obtain ⟨s1, h1, hrun⟩ := run_append_some h2
  obtain ⟨s0, -, hx⟩ := run_snoc h1
  have hbw := betw_run hx hrun hb
  simp only [allowed] at hy
  split at hy
  · rename_i hg
    obtain ⟨-, hpo, hpn, hlt⟩ := hg
    rcases hbw with ⟨hp, -⟩ | ⟨-, hc, he, hd⟩
    · rw [hpn] at hp; cases hp
    · exact ⟨hd hpo, he, hc ▸ hlt⟩
  · cases hy

/-! ### 6. one stream at a time -/

/-- `openStreams tr` (Lemmas/ManagerProto.lean) = the ids with a `newBegin` in `tr` that is not yet followed
    by `prevDone` of that id (streams the manager created and has not yet seen finished). This is the
    characterisation on accepted traces: -/
theorem mem_openStreams_iff {tr : List Ev} {s : PS} (h : run {} tr = some s) {x : Nat} :
    x ∈ openStreams tr ↔ .newBegin x ∈ tr ∧ .prevDone x ∉ tr := by
  rw [(tinv_of_run h).opn.openMem x, mem_created_iff h]

/-- a `prevDone x` never precedes the creation of `x` (so "not yet followed by" above is the same
    as "`prevDone x` does not occur") -/
theorem prevDone_after_newBegin {a : List Ev} {x : Nat} {s : PS}
    (h : run {} (a ++ [.prevDone x]) = some s) : .newBegin x ∈ a := by
  obtain ⟨s0, h0, hs⟩ := run_snoc h
  simp only [allowed] at hs
  split at hs
  · rename_i hg
    obtain ⟨-, hc, hx0, -⟩ := hg
    rcases (tinv_of_run h0).inv.currIn with h1 | h1
    · omega
    · exact (mem_created_iff h0).1 (hc ▸ h1)
  · cases hs

/-- at every moment at most one stream is open in the manager's own view, and it is the newest one -/
theorem one_stream_at_a_time {tr : List Ev} {s : PS} (h : run {} tr = some s) :
    (openStreams tr).length ≤ 1 ∧
    (∀ x ∈ openStreams tr, openStreams tr = [x] ∧ s.created.getLast? = some x) ∧
    (s.prevOk = true → openStreams tr = []) := by
  have hi := tinv_of_run h
  refine ⟨?_, ?_, hi.opn.open1⟩
  · cases ho : openStreams tr with
    | nil => simp
    | cons x l =>
      have := (hi.opn.open2 x (by simp [ho])).1
      rw [ho] at this
      simp [this]
  · intro x hx
    obtain ⟨h1, h2⟩ := hi.opn.open2 x hx
    refine ⟨h1, ?_⟩
    have hin := ((hi.opn.openMem x).1 hx).1
    have hmax : ∀ y ∈ s.created, y ≤ x := by
      intro y hy
      have := hi.inv.currMax y hy
      cases hp : s.pending with
      | none => rw [hp] at h2; exact h2 ▸ this.1 hp
      | some p => rw [hp] at h2; exact h2 ▸ this.2 p hp
    -- the largest element of a strictly increasing list is its last one
    obtain ⟨l, r, hlr⟩ := List.append_of_mem hin
    have hinc := hi.inv.incr
    rw [hlr] at hinc hmax ⊢
    cases r with
    | nil => simp
    | cons y r' =>
      have h3 : x < y := by
        have := (List.pairwise_append.1 hinc).2.1
        exact (List.pairwise_cons.1 this).1 y (by simp)
      have := hmax y (by simp)
      omega

/-- when a stream is created no other stream is open, and afterwards exactly the new one is -/
theorem none_open_at_creation {a : List Ev} {x : Nat} {s : PS}
    (h : run {} (a ++ [.newBegin x]) = some s) :
    openStreams a = [] ∧ openStreams (a ++ [.newBegin x]) = [x] := by
  obtain ⟨s0, h0, -, hprev, -, -⟩ := create_only_under_semaphore h
  have := (tinv_of_run h0).opn.open1 hprev
  refine ⟨this, ?_⟩
  rw [openStreams_snoc, this]; rfl

/-! ### 7. the reader's dispatch decisions -/

/-- a packet is delivered only to a stream that the manager created with exactly that id -/
theorem deliver_only_to_existing_stream_with_that_id {a : List Ev} {sid : Nat} {s : PS}
    (h : run {} (a ++ [.deliver sid]) = some s) :
    ∃ s0, run {} a = some s0 ∧ sid ∈ s0.created ∧ sid ≠ 0 ∧ .newBegin sid ∈ a := by
  obtain ⟨s0, h0, hs⟩ := run_snoc h
  refine ⟨s0, h0, ?_⟩
  simp only [allowed] at hs
  split at hs
  · rename_i hg
    have hin : sid ∈ s0.created := by
      rcases (tinv_of_run h0).inv.window sid hg.1 with h1 | h1
      · exact absurd h1 hg.2
      · exact h1
    exact ⟨hin, hg.2, (mem_created_iff h0).1 hin⟩
  · cases hs

/-- a packet is dropped only if its id is smaller than the id of a stream the manager created -/
theorem drop_only_older {a : List Ev} {sid : Nat} {s : PS}
    (h : run {} (a ++ [.drop sid]) = some s) :
    ∃ s0, run {} a = some s0 ∧ ∃ c ∈ s0.created, sid < c ∧ .newBegin c ∈ a := by
  obtain ⟨s0, h0, hs⟩ := run_snoc h
  refine ⟨s0, h0, ?_⟩
  simp only [allowed] at hs
  split at hs
  · rename_i hg
    obtain ⟨c, hc, hlt⟩ := hg
    have hin : c ∈ s0.created := by
      rcases (tinv_of_run h0).inv.window c hc with h1 | h1
      · omega
      · exact h1
    exact ⟨c, hin, hlt, (mem_created_iff h0).1 hin⟩
  · cases hs

/-- what the window is, exactly: those values of the current-stream pointer at the reader's previous
    event (`currs`: the stored id and, if a creation was in flight, also its id) that are not below
    some value compatible with that event's decision (`obs rd`), followed by the ids of all streams
    whose creation began since -/
theorem window_exact {a b : List Ev} {rd : Ev} {s0 s : PS} (hrd : isReader rd = true)
    (h0 : run {} a = some s0) (h : run {} (a ++ [rd] ++ b) = some s) (hb : ∀ e ∈ b, isReader e = false) :
    s.window = s0.currs.filter (fun v => s0.window.any (fun c => obs rd c && decide (c ≤ v)))
      ++ b.filterMap beginId := by
  obtain ⟨s1, h1, hrun⟩ := run_append_some h
  obtain ⟨s0', h0', hs⟩ := run_snoc h1
  rw [h0] at h0'; injection h0' with h0'; subst h0'
  rw [window_run hb hrun, (allowed_reader hrd hs).1]; rfl

/-- after `deliver sid` in particular: the present pointer values that are at least `sid` -/
theorem window_exact_after_deliver {a b : List Ev} {sid : Nat} {s0 s : PS}
    (h0 : run {} a = some s0) (h : run {} (a ++ [.deliver sid] ++ b) = some s)
    (hb : ∀ e ∈ b, isReader e = false) :
    s.window = s0.currs.filter (sid ≤ ·) ++ b.filterMap beginId := by
  rw [window_exact (rd := .deliver sid) rfl h0 h hb]
  obtain ⟨s1, h1, -⟩ := run_append_some h
  obtain ⟨s0', h0', hs⟩ := run_snoc h1
  rw [h0] at h0'; injection h0' with h0'; subst h0'
  have hin : sid ∈ s0.window := by
    simp only [allowed] at hs
    split at hs
    · rename_i hg; exact hg.1
    · cases hs
  congr 1
  apply List.filter_congr
  intro v _
  simp only [obs, List.any_eq, Bool.and_eq_true, beq_iff_eq, decide_eq_true_eq]
  apply Bool.eq_iff_iff.2
  simp only [decide_eq_true_eq]
  constructor
  · rintro ⟨c, -, rfl, hle⟩; exact hle
  · intro hle; exact ⟨sid, hin, rfl, hle⟩

/-- before the reader's first event the window is 0 (no stream) and every id created so far -/
theorem window_exact_initial {tr : List Ev} {s : PS} (h : run {} tr = some s)
    (hb : ∀ e ∈ tr, isReader e = false) : s.window = 0 :: s.created := by
  rw [window_run hb h, created_eq_trace h]; rfl

/-- every value in the window is at least the id of every stream whose creation had COMPLETED
    (`newEnd`) before the reader's previous event -/
theorem window_lower_bound {a b : List Ev} {rd : Ev} {s : PS} {z : Nat} (hrd : isReader rd = true)
    (h : run {} (a ++ [rd] ++ b) = some s) (hz : .newEnd z ∈ a) : ∀ c ∈ s.window, z ≤ c := by
  obtain ⟨s1, h1, hrun⟩ := run_append_some h
  obtain ⟨s0, h0, hs⟩ := run_snoc h1
  have hi := tinv_of_run h0
  have hlb := lb_run ((allowed_reader hrd hs).1 ▸ lb_afterRead_curr _ hi.inv) hrun
  intro c hc
  exact Nat.le_trans (hi.opn.newEndLe z hz).1 (hlb.1 c hc)

/-- once the reader has delivered to stream `sid` (it has seen the pointer at `sid`, and the pointer
    never decreases), every value in the window is at least `sid`, for ever -/
theorem window_lower_bound_after_deliver {a b : List Ev} {sid : Nat} {s : PS}
    (h : run {} (a ++ [.deliver sid] ++ b) = some s) : ∀ c ∈ s.window, sid ≤ c := by
  obtain ⟨s1, h1, hrun⟩ := run_append_some h
  obtain ⟨s0, h0, hs⟩ := run_snoc h1
  exact (lb_run (lb_deliver (tinv_of_run h0).inv hs) hrun).1

/-- once the reader has dropped a packet of stream `sid` (it has seen a larger pointer), every value
    in the window is larger than `sid`, for ever -/
theorem window_lower_bound_after_drop {a b : List Ev} {sid : Nat} {s : PS}
    (h : run {} (a ++ [.drop sid] ++ b) = some s) : ∀ c ∈ s.window, sid < c := by
  obtain ⟨s1, h1, hrun⟩ := run_append_some h
  obtain ⟨s0, h0, hs⟩ := run_snoc h1
  exact (lb_run (lb_drop (tinv_of_run h0).inv hs) hrun).1

/-- a packet is queued as a new invoke / waited for / discarded as an orphan (non-invoke packet of a
    stream whose invoke was never forwarded) only if its id is larger than some value the
    current-stream pointer had in the window (in particular it is not 0) -/
theorem queue_or_wait_only_newer {a : List Ev} {sid : Nat} {s : PS} {e : Ev}
    (he : e = .queue sid ∨ e = .wait sid ∨ e = .orphan sid) (h : run {} (a ++ [e]) = some s) :
    ∃ s0, run {} a = some s0 ∧ (∃ c ∈ s0.window, c < sid) ∧ 0 < sid := by
  obtain ⟨s0, h0, hs⟩ := run_snoc h
  refine ⟨s0, h0, ?_⟩
  rcases he with rfl | rfl | rfl <;> simp only [allowed] at hs <;> split at hs
  all_goals first
    | cases hs; done
    | (rename_i hg; obtain ⟨c, hc, hlt⟩ := hg; exact ⟨⟨c, hc, hlt⟩, by omega⟩)

/-- … hence larger than the id of every stream whose creation had completed before the reader's
    previous event.  (NOT: "of every stream created before the reader's previous event" — see the
    last example of this section.) -/
theorem queue_or_wait_newer_than_completed {a b : List Ev} {rd e : Ev} {sid z : Nat} {s : PS}
    (hrd : isReader rd = true) (he : e = .queue sid ∨ e = .wait sid ∨ e = .orphan sid)
    (h : run {} (a ++ [rd] ++ b ++ [e]) = some s) (hz : .newEnd z ∈ a) : z < sid := by
  obtain ⟨s0, h0, ⟨c, hc, hlt⟩, -⟩ := queue_or_wait_only_newer he h
  have := window_lower_bound hrd h0 hz c hc
  omega

/-- likewise a packet is never delivered to a stream older than one whose creation had completed
    before the reader's previous event -/
theorem deliver_not_older_than_completed {a b : List Ev} {rd : Ev} {sid z : Nat} {s : PS}
    (hrd : isReader rd = true)
    (h : run {} (a ++ [rd] ++ b ++ [.deliver sid]) = some s) (hz : .newEnd z ∈ a) : z ≤ sid := by
  obtain ⟨s0, h0, hs⟩ := run_snoc h
  simp only [allowed] at hs
  split at hs
  · rename_i hg
    exact window_lower_bound hrd h0 hz sid hg.1
  · cases hs

/-- what a reader event `e` says about the id `x` in it, given that every value in the window is at
    least `m`: a delivery is to an id ≥ m, a queued / waited-for / orphan id is > m -/
theorem reader_event_above_bound {e : Ev} {s0 s : PS} {m : Nat}
    (hs : allowed s0 e = some s) (hm : ∀ c ∈ s0.window, m ≤ c) (x : Nat) :
    (e = .deliver x → m ≤ x) ∧ (e = .queue x ∨ e = .wait x ∨ e = .orphan x → m < x) := by
  constructor
  · rintro rfl
    simp only [allowed] at hs
    split at hs
    · rename_i hg; exact hm x hg.1
    · cases hs
  · rintro (rfl | rfl | rfl) <;> simp only [allowed] at hs <;> split at hs
    all_goals first
      | cases hs; done
      | (rename_i hg; obtain ⟨c, hc, hlt⟩ := hg; have := hm c hc; omega)

/-- C07, reader side (frames of an earlier stream are never handled after a later stream got one):
    after the reader delivered a packet to stream `sid`, it never again delivers to, queues, waits for
    or treats as an orphan an id below `sid`, nor `sid` itself for the last three: packets of older
    streams can only be dropped (`drop`) -/
theorem after_deliver_older_only_dropped {a b : List Ev} {e : Ev} {sid : Nat} {s : PS}
    (h : run {} (a ++ [.deliver sid] ++ b ++ [e]) = some s) (x : Nat) :
    (e = .deliver x → sid ≤ x) ∧ (e = .queue x ∨ e = .wait x ∨ e = .orphan x → sid < x) := by
  obtain ⟨s0, h0, hs⟩ := run_snoc h
  exact reader_event_above_bound hs (window_lower_bound_after_deliver h0) x

/-- the same as a statement about what the event can be: a reader event about an id `x < sid` after
    `deliver sid` is `drop x` -/
theorem after_deliver_older_only_dropped' {a b : List Ev} {e : Ev} {sid x : Nat} {s : PS}
    (h : run {} (a ++ [.deliver sid] ++ b ++ [e]) = some s) (hx : x < sid)
    (he : e = .deliver x ∨ e = .drop x ∨ e = .queue x ∨ e = .wait x ∨ e = .orphan x) : e = .drop x := by
  have := after_deliver_older_only_dropped h x
  rcases he with he | he | he | he | he
  · have := this.1 he; omega
  · exact he
  · have := this.2 (Or.inl he); omega
  · have := this.2 (Or.inr (Or.inl he)); omega
  · have := this.2 (Or.inr (Or.inr he)); omega

/-- after the reader dropped a packet of stream `sid`, it never delivers to `sid` or an older stream,
    and never queues / waits for an id ≤ sid + 1 (the pointer is beyond `sid`) -/
theorem after_drop_never_handled {a b : List Ev} {e : Ev} {sid : Nat} {s : PS}
    (h : run {} (a ++ [.drop sid] ++ b ++ [e]) = some s) (x : Nat) :
    (e = .deliver x → sid < x) ∧ (e = .queue x ∨ e = .wait x ∨ e = .orphan x → sid + 1 < x) := by
  obtain ⟨s0, h0, hs⟩ := run_snoc h
  exact reader_event_above_bound (m := sid + 1) hs (window_lower_bound_after_drop h0) x

/-- Formerly accepted (the window used to restart from all present pointer values): after the reader
    DELIVERED to a stream whose creation is still between begin and end it has seen the new pointer, so
    an invoke with a smaller id can no longer be queued — neither immediately nor after further reader
    events. -/
example : firstReject {} [.semAcq, .prevNone, .newBegin 5, .deliver 5, .queue 3] 0 = some 4 := by decide
example : firstReject {} [.semAcq, .prevNone, .newBegin 5, .deliver 5, .queue 7, .queue 3] 0 = some 5 := by
  decide
example : firstReject {} [.semAcq, .prevNone, .newBegin 5, .deliver 5, .drop 2, .wait 4] 0 = some 5 := by
  decide
example : firstReject {} [.semAcq, .prevNone, .newBegin 5, .deliver 5, .orphan 4] 0 = some 4 := by decide

/-- Still accepted, and rightly so: `newBegin 5` is reported BEFORE `sbuf.Set`, so the reader may not have
    seen the new pointer yet when it queues 7 and then 3.  (Hence "larger than every stream whose
    creation COMPLETED before the reader's previous event", not "… that was created before …".) -/
example : (run {} [.semAcq, .prevNone, .newBegin 5, .queue 7, .queue 3]).isSome = true := by decide

/-! ### 8. fin tokens, offers and retractions -/

theorem offerId_eq_some {e : Ev} {x : Nat} : offerId e = some x ↔ e = .newOffer x := by
  cases e <;> simp [offerId]

theorem retractId_eq_some {e : Ev} {x : Nat} : retractId e = some x ↔ e = .newRetract x := by
  cases e <;> simp [retractId]

theorem mem_ids {f : Ev → Option Nat} {c : Nat → Ev} (hf : ∀ e x, f e = some x ↔ e = c x)
    {tr : List Ev} {x : Nat} : x ∈ tr.filterMap f ↔ c x ∈ tr := by
  simp only [List.mem_filterMap, hf]
  constructor
  · rintro ⟨e, he, rfl⟩; exact he
  · intro h; exact ⟨_, h, rfl⟩

theorem mem_offered_iff {tr : List Ev} {s : PS} (h : run {} tr = some s) {x : Nat} :
    x ∈ s.offered ↔ .newOffer x ∈ tr := by
  rw [(tinv_of_run h).cnt.offered]; exact mem_ids (fun _ _ => offerId_eq_some)

theorem mem_retracted_iff {tr : List Ev} {s : PS} (h : run {} tr = some s) {x : Nat} :
    x ∈ s.retracted ↔ .newRetract x ∈ tr := by
  rw [(tinv_of_run h).cnt.retracted]; exact mem_ids (fun _ _ => retractId_eq_some)

theorem mem_sfin_iff {tr : List Ev} {s : PS} (h : run {} tr = some s) {x : Nat} :
    x ∈ s.sfin ↔ .sfinRecv x ∈ tr := by
  rw [(tinv_of_run h).cnt.sfin]; exact mem_ids (fun _ _ => sfinId_eq_some)

/-- C12 sfin_token_balance: the fin token of a stream is consumed at most once, and only for a stream
    that was created, offered and not retracted -/
theorem fin_token_consumed_once_per_stream {tr : List Ev} {s : PS} (h : run {} tr = some s) :
    s.sfin.Nodup ∧ ∀ x ∈ s.sfin, x ∈ s.created ∧ x ∈ s.offered ∧ x ∉ s.retracted := by
  have hi := (tinv_of_run h).inv
  refine ⟨hi.sfinNodup, fun x hx => ⟨(hi.offSub x (hi.sfinSub x hx)).1, hi.sfinSub x hx, ?_⟩⟩
  intro hr; exact (hi.retrSub x hr).2 hx

theorem count_sfinRecv (tr : List Ev) (x : Nat) :
    tr.count (.sfinRecv x) = (tr.filterMap sfinId).count x := by
  induction tr with
  | nil => rfl
  | cons e es ih =>
    cases e <;> simp [List.count_cons, List.filterMap_cons, sfinId, ih]

theorem count_newOffer (tr : List Ev) (x : Nat) :
    tr.count (.newOffer x) = (tr.filterMap offerId).count x := by
  induction tr with
  | nil => rfl
  | cons e es ih =>
    cases e <;> simp [List.count_cons, List.filterMap_cons, offerId, ih]

theorem count_newRetract (tr : List Ev) (x : Nat) :
    tr.count (.newRetract x) = (tr.filterMap retractId).count x := by
  induction tr with
  | nil => rfl
  | cons e es ih =>
    cases e <;> simp [List.count_cons, List.filterMap_cons, retractId, ih]

/-- every stream is offered at most once and retracted at most once -/
theorem offer_and_retract_at_most_once {tr : List Ev} {s : PS} (h : run {} tr = some s) (x : Nat) :
    tr.count (.newOffer x) ≤ 1 ∧ tr.count (.newRetract x) ≤ 1 := by
  have hi := tinv_of_run h
  constructor
  · rw [count_newOffer, ← hi.cnt.offered]; exact List.nodup_iff_count.1 hi.inv.offNodup x
  · rw [count_newRetract, ← hi.cnt.retracted]; exact List.nodup_iff_count.1 hi.inv.retrNodup x

/-- the fin token is consumed only for a stream that was handed over to manageStreams: `sfinRecv x`
    occurs at most once, `newOffer x` (hence `newBegin x`, `newEnd x`) occurs too, and `newRetract x`
    occurs nowhere in the trace -/
theorem fin_token_only_for_handed_over_stream {tr : List Ev} {s : PS} (h : run {} tr = some s) (x : Nat) :
    tr.count (.sfinRecv x) ≤ 1 ∧
    (.sfinRecv x ∈ tr → .newOffer x ∈ tr ∧ .newBegin x ∈ tr ∧ .newRetract x ∉ tr) := by
  have hi := tinv_of_run h
  constructor
  · rw [count_sfinRecv, ← hi.cnt.sfin]
    exact List.nodup_iff_count.1 hi.inv.sfinNodup x
  · intro hx
    have hs := (mem_sfin_iff h).2 hx
    have := (fin_token_consumed_once_per_stream h).2 x hs
    exact ⟨(mem_offered_iff h).1 this.2.1, (mem_created_iff h).1 this.1, fun hr => this.2.2 ((mem_retracted_iff h).2 hr)⟩

/-- … and the offer precedes the consumption -/
theorem fin_token_after_offer {a : List Ev} {x : Nat} {s : PS}
    (h : run {} (a ++ [.sfinRecv x]) = some s) :
    .newOffer x ∈ a ∧ .newRetract x ∉ a ∧ .sfinRecv x ∉ a := by
  obtain ⟨s0, h0, hs⟩ := run_snoc h
  simp only [allowed] at hs
  split at hs
  · rename_i hg
    exact ⟨(mem_offered_iff h0).1 hg.1, fun hr => hg.2.1 ((mem_retracted_iff h0).2 hr),
      fun hx => hg.2.2 ((mem_sfin_iff h0).2 hx)⟩
  · cases hs

/-- a retracted stream was never managed: its fin token is never consumed (neither before nor after
    the retraction) -/
theorem retract_means_never_managed {tr : List Ev} {s : PS} (h : run {} tr = some s) (x : Nat)
    (hr : .newRetract x ∈ tr) : .sfinRecv x ∉ tr := by
  intro hx
  exact ((fin_token_only_for_handed_over_stream h x).2 hx).2.2 hr

/-- a stream is retracted only by its creator, right in the holding period in which it was offered:
    the semaphore is held, the stream is still the newest one, and it was offered -/
theorem retract_only_own_offer {a : List Ev} {x : Nat} {s : PS}
    (h : run {} (a ++ [.newRetract x]) = some s) :
    .newOffer x ∈ a ∧ .sfinRecv x ∉ a ∧ .newRetract x ∉ a ∧
    ∃ s0, run {} a = some s0 ∧ s0.sem = true ∧ s0.pending = none ∧ s0.curr = x := by
  obtain ⟨s0, h0, hs⟩ := run_snoc h
  simp only [allowed] at hs
  split at hs
  · rename_i hg
    obtain ⟨hsem, hpn, hc, hin, hnr, hns⟩ := hg
    exact ⟨(mem_offered_iff h0).1 hin, fun hx => hns ((mem_sfin_iff h0).2 hx),
      fun hx => hnr ((mem_retracted_iff h0).2 hx), s0, h0, hsem, hpn, hc⟩
  · cases hs

/-! ### 9. non-vacuity -/

/-- a client manager doing two RPCs, then terminating, is accepted -/
example : run {} [.semAcq, .prevNone, .newBegin 1, .newEnd 1, .newOffer 1, .deliver 1, .sfinRecv 1, .semRel,
    .semAcq, .prevDone 1, .newBegin 2, .newEnd 2, .newOffer 2, .drop 1, .deliver 2, .sfinRecv 2, .semRel,
    .term, .tportClose] =
    some { sem := false, prevOk := false, curr := 2, pending := none, created := [1, 2], offered := [1, 2],
           retracted := [], term := true, closes := 1, sfin := [1, 2], window := [2] } := by decide

/-- a server manager: the reader queues the invoke, the stream is created, its messages delivered;
    an orphan message of a never-invoked stream is discarded -/
example : (run {} [.queue 1, .semAcq, .prevNone, .newBegin 1, .newEnd 1, .newOffer 1, .deliver 1, .queue 2,
    .sfinRecv 1, .semRel, .semAcq, .prevDone 1, .newBegin 2, .deliver 2, .newEnd 2, .newOffer 2, .orphan 3,
    .wait 3, .term, .tportClose, .sfinRecv 2, .semRel]).isSome = true := by decide

/-- a terminated manager: manageStreams takes the offered stream, consumes its fin token and releases
    the semaphore -/
example : (run {} [.semAcq, .prevNone, .queue 1, .newBegin 1, .newEnd 1, .newOffer 1, .term, .tportClose,
    .sfinRecv 1, .semRel]).isSome = true := by decide

/-- soft cancel: the semaphore is released right after the hand-off, the next stream waits for the first -/
example : (run {} [.semAcq, .prevNone, .newBegin 1, .newEnd 1, .newOffer 1, .semRel, .semAcq, .sfinRecv 1,
    .prevDone 1, .newBegin 2, .newEnd 2, .newOffer 2]).isSome = true := by decide

/-- a terminated manager: the offer is retracted (server side releases the semaphore afterwards) -/
example : (run {} [.semAcq, .prevNone, .newBegin 1, .newEnd 1, .newOffer 1, .term, .newRetract 1, .tportClose,
    .semRel]).isSome = true := by decide

/-- rejected: the soft-cancel race of the unfixed newStream (OLD event order: offer, hand-off, then
    begin / end), both interleavings: the semaphore is released and re-acquired before stream 1 is
    published -/
example : firstReject {} [.semAcq, .prevNone, .newOffer 1, .semRel, .semAcq, .prevNone, .newOffer 1] 0
    = some 2 := by decide
example : firstReject {} [.semAcq, .prevNone, .newOffer 1, .sfinRecv 1, .semRel, .semAcq, .prevNone,
    .newBegin 1, .newEnd 1, .newOffer 2] 0 = some 2 := by decide
/-- … and in the new event order the corresponding misbehaviours: the semaphore released while stream 1
    is being published, or before it was offered -/
example : firstReject {} [.semAcq, .prevNone, .newBegin 1, .semRel] 0 = some 3 := by decide
example : firstReject {} [.semAcq, .prevNone, .newBegin 1, .newEnd 1, .semRel] 0 = some 4 := by decide

/-- rejected: a second stream without `prevDone` of the first -/
example : firstReject {} [.semAcq, .prevNone, .newBegin 1, .newEnd 1, .newOffer 1, .semRel, .semAcq,
    .newBegin 2] 0 = some 7 := by decide

/-- rejected: `prevNone` once a stream exists -/
example : firstReject {} [.semAcq, .prevNone, .newBegin 1, .newEnd 1, .newOffer 1, .semRel, .semAcq,
    .prevNone] 0 = some 7 := by decide

/-- rejected: a stream offered twice; an offer before the publication completed -/
example : firstReject {} [.semAcq, .prevNone, .newBegin 1, .newEnd 1, .newOffer 1, .newOffer 1] 0 = some 5 := by
  decide
example : firstReject {} [.semAcq, .prevNone, .newBegin 1, .newOffer 1] 0 = some 3 := by decide

/-- rejected: the fin token of a retracted stream; the retraction of a managed stream -/
example : firstReject {} [.semAcq, .prevNone, .newBegin 1, .newEnd 1, .newOffer 1, .newRetract 1, .sfinRecv 1] 0
    = some 6 := by decide
example : firstReject {} [.semAcq, .prevNone, .newBegin 1, .newEnd 1, .newOffer 1, .sfinRecv 1, .newRetract 1] 0
    = some 6 := by decide

/-- rejected: the transport closed twice -/
example : firstReject {} [.term, .tportClose, .tportClose] 0 = some 2 := by decide

/-- rejected: the transport closed before termination -/
example : run {} [.tportClose] = none := by decide

/-- rejected: a release without an acquisition, and a double release -/
example : run {} [.semRel] = none := by decide
example : firstReject {} [.semAcq, .semRel, .semRel] 0 = some 2 := by decide

/-- rejected: delivery to an id that was never created -/
example : firstReject {} [.semAcq, .prevNone, .newBegin 1, .newEnd 1, .deliver 2] 0 = some 4 := by decide

/-- rejected: a stream id that does not increase -/
example : firstReject {} [.semAcq, .prevNone, .newBegin 2, .newEnd 2, .newOffer 2, .semRel, .semAcq,
    .prevDone 2, .newBegin 2] 0 = some 8 := by decide

/-- rejected: the fin token of one stream consumed twice; the fin token of a stream not offered -/
example : firstReject {} [.semAcq, .prevNone, .newBegin 1, .newEnd 1, .newOffer 1, .sfinRecv 1, .sfinRecv 1] 0
    = some 6 := by decide
example : firstReject {} [.semAcq, .prevNone, .newBegin 1, .newEnd 1, .sfinRecv 1] 0 = some 4 := by decide

end Drpc.Props.Manager
