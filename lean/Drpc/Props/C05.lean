import Drpc.Lemmas.Delivery
import Drpc.Props.C01
/-
  C05 — A transport fault never corrupts what is delivered: the pure data-path part.
  Property theorems only; helper lemmas live in Drpc/Lemmas/Delivery.lean.

  A fault of the byte transport shows at the reader as: the stream ends early at an arbitrary byte
  (with an arbitrary error), and/or arbitrary bytes follow what the peer really sent.  The theorems
  say what the reader (`drpcwire.Reader`, model `drain` / `readAll`) can surface in those cases.
-/
namespace Drpc.Props.C05
open Drpc
open Drpc.Props.C09 (observed reference)

/-- The reassembly step hands out a packet only on a frame marked done (and then the packet carries
    that frame's id and ends with that frame's payload): an unfinished packet is never surfaced. -/
theorem emit_only_on_done {mx : Nat} {rid rid' : U64 × U64} {cur : Option Cur} {fr : Frame} {pkt : Packet}
    (h : assembleStep mx rid cur fr = .emit pkt rid') :
    fr.done = true ∧ pkt.sid = fr.sid ∧ pkt.mid = fr.mid ∧ ∃ d, pkt.data = d ++ fr.data :=
  assemble_emit_done h

/-- For an arbitrary byte stream (valid, truncated, or garbage), arbitrary chunking and final error:
    every packet the reader returns was completed by a done frame that is really present in the
    stream (`CompletedBy`: a suffix of the stream parses as a done frame with the packet's id whose
    payload is the tail of the packet's payload).  So a stream cut before the done frame of a packet
    never surfaces that packet. -/
theorem no_partial_packet_surfaced (mx final : Nat) (choose : Nat → Nat) (stream : Bytes) :
    ∀ q ∈ (observed (readAll mx choose final stream)).1, CompletedBy q stream := by
  rw [C09.run_eq_reference]
  exact drain_emitted_done mx _ stream _ _ (Nat.le_refl _)

/-- The same on the parse-and-reassemble loop from any reader state. -/
theorem no_partial_packet_surfaced_drain (mx : Nat) (rid : U64 × U64) (cur : Option Cur) (p : Bytes) :
    ∀ q ∈ (drain mx rid cur p).1, CompletedBy q p :=
  drain_emitted_done mx _ p rid cur (Nat.le_refl _)

/-- The transport fails after an arbitrary number `k` of the bytes sent, with an arbitrary error
    `final`: the packets returned before the first error are a prefix of the packets sent — each
    identical to the one sent, in order, none skipped — and the first error is the transport's error,
    not a ProtocolError. -/
theorem delivered_is_prefix_despite_fault (mx final : Nat) (choose : Nat → Nat) (n : Int)
    (pkts : List Packet) (k : Nat)
    (hs : Sendable (1#64, 1#64) pkts)
    (hk : ∀ p ∈ pkts, p.kind.toNat < 64) (hl : ∀ p ∈ pkts, p.data.length < 2^64)
    (hmx : ∀ p ∈ pkts, p.data.length ≤ mx) :
    (observed (readAll mx choose final ((encodeAll n pkts).take k))).1 <+: pkts ∧
    (observed (readAll mx choose final ((encodeAll n pkts).take k))).2 = .transport final :=
  C01.delivery_prefix mx final choose n pkts k hs hk hl hmx

/-- Whatever follows a cut cannot change what was already returned: for ANY bytes `a` and `b`
    (no assumption on either) the packets returned from `a ++ b` start with the packets returned
    from `a`. -/
theorem garbage_cannot_retract_earlier (mx final : Nat) (choose₁ choose₂ : Nat → Nat) (a b : Bytes) :
    (observed (readAll mx choose₁ final a)).1 <+: (observed (readAll mx choose₂ final (a ++ b))).1 := by
  rw [C09.run_eq_reference, C09.run_eq_reference]
  obtain ⟨more, h⟩ := C09.prefix_monotone mx final a b
  exact ⟨more, h.symm⟩

/-- If `a` ends at a packet boundary (the reader consumed all of it and holds no partial packet),
    then arbitrary bytes `b` after it cannot corrupt, reorder, merge into or drop the packets of `a`:
    the result for `a ++ b` is the packets of `a` followed by whatever `b` alone yields from a clean
    reader state at the watermark reached — the garbage is judged on its own. -/
theorem garbage_after_cut_cannot_corrupt_earlier (mx final : Nat) (choose : Nat → Nat) (a b : Bytes)
    {pk : List Packet} {rid' : U64 × U64}
    (ha : drain mx (1#64, 1#64) none a = (pk, .stuck rid' none [])) :
    observed (readAll mx choose final (a ++ b)) =
      (pk ++ (drain mx rid' none b).1, refEnd mx final (drain mx rid' none b).2) := by
  rw [C09.run_eq_reference]
  simp [reference, drain_append mx b _ a _ _ (Nat.le_refl _), ha, extendDrain]

/-- Instance for a batch really sent: every packet of the batch is delivered intact and in order
    no matter what bytes follow it on the wire. -/
theorem sent_then_garbage (mx final : Nat) (choose : Nat → Nat) (n : Int) (pkts : List Packet)
    (garbage : Bytes)
    (hs : Sendable (1#64, 1#64) pkts)
    (hk : ∀ p ∈ pkts, p.kind.toNat < 64) (hl : ∀ p ∈ pkts, p.data.length < 2^64)
    (hmx : ∀ p ∈ pkts, p.data.length ≤ mx) :
    pkts <+: (observed (readAll mx choose final (encodeAll n pkts ++ garbage))).1 := by
  rw [garbage_after_cut_cannot_corrupt_earlier mx final choose _ garbage
    (C01.delivery_pure mx n _ pkts hs hk hl hmx)]
  exact ⟨_, rfl⟩

/-- The hypotheses are satisfiable: a two-frame packet and an empty control packet, the stream cut
    after 9 bytes (inside the second frame of the first packet), respectively followed by garbage. -/
example :
    (observed (readAll 100 (fun _ => 3) 7
      ((encodeAll 2 [⟨[1#8, 2#8, 3#8], 1#64, 1#64, 2#8, false⟩, ⟨[], 1#64, 2#64, 3#8, true⟩]).take 9))).1
      <+: [⟨[1#8, 2#8, 3#8], 1#64, 1#64, 2#8, false⟩, ⟨[], 1#64, 2#64, 3#8, true⟩] ∧
    [⟨[1#8, 2#8, 3#8], 1#64, 1#64, 2#8, false⟩, ⟨[], 1#64, 2#64, 3#8, true⟩] <+:
      (observed (readAll 100 (fun _ => 3) 7
        (encodeAll 2 [⟨[1#8, 2#8, 3#8], 1#64, 1#64, 2#8, false⟩, ⟨[], 1#64, 2#64, 3#8, true⟩]
          ++ [255#8, 255#8, 0#8]))).1 :=
  ⟨(delivered_is_prefix_despite_fault 100 7 _ 2 _ 9 (by decide) (by decide) (by decide) (by decide)).1,
   sent_then_garbage 100 7 _ 2 _ _ (by decide) (by decide) (by decide) (by decide)⟩

end Drpc.Props.C05
