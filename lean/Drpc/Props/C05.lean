import Drpc.Lemmas.Delivery
import Drpc.Props.C01
import Drpc.Lemmas.StreamFail
import Drpc.Lemmas.StreamInvStep
/-
  C05 — A transport fault never corrupts what is delivered: the pure data-path part.
  Property theorems only; helper lemmas live in Drpc/Lemmas/Delivery.lean.

  A fault of the byte transport shows at the reader as: the stream ends early at an arbitrary byte
  (with an arbitrary error), and/or arbitrary bytes follow what the peer really sent.  The theorems
  say what the reader (`drpcwire.Reader`, model `drain` / `readAll`) can surface in those cases.
-/
namespace Drpc.Props.C05
open Drpc
open Drpc.Props.C09 (observed reference)

/-- The reassembly step hands out a packet only on a frame marked done (and then the packet carries
    that frame's id and ends with that frame's payload): an unfinished packet is never surfaced. -/
theorem emit_only_on_done {mx : Nat} {rid rid' : U64 × U64} {cur : Option Cur} {fr : Frame} {pkt : Packet}
    (h : assembleStep mx rid cur fr = .emit pkt rid') :
    fr.done = true ∧ pkt.sid = fr.sid ∧ pkt.mid = fr.mid ∧ ∃ d, pkt.data = d ++ fr.data :=
  assemble_emit_done h

/-- For an arbitrary byte stream (valid, truncated, or garbage), arbitrary chunking and final error:
    every packet the reader returns was completed by a done frame that is really present in the
    stream (`CompletedBy`: a suffix of the stream parses as a done frame with the packet's id whose
    payload is the tail of the packet's payload).  So a stream cut before the done frame of a packet
    never surfaces that packet. -/
theorem no_partial_packet_surfaced (mx final : Nat) (choose : Nat → Nat) (stream : Bytes) :
    ∀ q ∈ (observed (readAll mx choose final stream)).1, CompletedBy q stream := by
  rw [C09.run_eq_reference]
  exact drain_emitted_done mx _ stream _ _ (Nat.le_refl _)

/-- The same on the parse-and-reassemble loop from any reader state. -/
theorem no_partial_packet_surfaced_drain (mx : Nat) (rid : U64 × U64) (cur : Option Cur) (p : Bytes) :
    ∀ q ∈ (drain mx rid cur p).1, CompletedBy q p :=
  drain_emitted_done mx _ p rid cur (Nat.le_refl _)

/-- The transport fails after an arbitrary number `k` of the bytes sent, with an arbitrary error
    `final`: the packets returned before the first error are a prefix of the packets sent — each
    identical to the one sent, in order, none skipped — and the first error is the transport's error,
    not a ProtocolError. -/
theorem delivered_is_prefix_despite_fault (mx final : Nat) (choose : Nat → Nat) (n : Int)
    (pkts : List Packet) (k : Nat)
    (hs : Sendable (1#64, 1#64) pkts)
    (hk : ∀ p ∈ pkts, p.kind.toNat < 64) (hl : ∀ p ∈ pkts, p.data.length < 2^64)
    (hmx : ∀ p ∈ pkts, p.data.length ≤ mx) :
    (observed (readAll mx choose final ((encodeAll n pkts).take k))).1 <+: pkts ∧
    (observed (readAll mx choose final ((encodeAll n pkts).take k))).2 = .transport final :=
  C01.delivery_prefix mx final choose n pkts k hs hk hl hmx

/-- Whatever follows a cut cannot change what was already returned: for ANY bytes `a` and `b`
    (no assumption on either) the packets returned from `a ++ b` start with the packets returned
    from `a`. -/
theorem garbage_cannot_retract_earlier (mx final : Nat) (choose₁ choose₂ : Nat → Nat) (a b : Bytes) :
    (observed (readAll mx choose₁ final a)).1 <+: (observed (readAll mx choose₂ final (a ++ b))).1 := by
  rw [C09.run_eq_reference, C09.run_eq_reference]
  obtain ⟨more, h⟩ := C09.prefix_monotone mx final a b
  exact ⟨more, h.symm⟩

/-- If `a` ends at a packet boundary (the reader consumed all of it and holds no partial packet),
    then arbitrary bytes `b` after it cannot corrupt, reorder, merge into or drop the packets of `a`:
    the result for `a ++ b` is the packets of `a` followed by whatever `b` alone yields from a clean
    reader state at the watermark reached — the garbage is judged on its own. -/
theorem garbage_after_cut_cannot_corrupt_earlier (mx final : Nat) (choose : Nat → Nat) (a b : Bytes)
    {pk : List Packet} {rid' : U64 × U64}
    (ha : drain mx (1#64, 1#64) none a = (pk, .stuck rid' none [])) :
    observed (readAll mx choose final (a ++ b)) =
      (pk ++ (drain mx rid' none b).1, refEnd mx final (drain mx rid' none b).2) := by
  rw [C09.run_eq_reference]
  simp [reference, drain_append mx b _ a _ _ (Nat.le_refl _), ha, extendDrain]

/-- Instance for a batch really sent: every packet of the batch is delivered intact and in order
    no matter what bytes follow it on the wire. -/
theorem sent_then_garbage (mx final : Nat) (choose : Nat → Nat) (n : Int) (pkts : List Packet)
    (garbage : Bytes)
    (hs : Sendable (1#64, 1#64) pkts)
    (hk : ∀ p ∈ pkts, p.kind.toNat < 64) (hl : ∀ p ∈ pkts, p.data.length < 2^64)
    (hmx : ∀ p ∈ pkts, p.data.length ≤ mx) :
    pkts <+: (observed (readAll mx choose final (encodeAll n pkts ++ garbage))).1 := by
  rw [garbage_after_cut_cannot_corrupt_earlier mx final choose _ garbage
    (C01.delivery_pure mx n _ pkts hs hk hl hmx)]
  exact ⟨_, rfl⟩

/-- The hypotheses are satisfiable: a two-frame packet and an empty control packet, the stream cut
    after 9 bytes (inside the second frame of the first packet), respectively followed by garbage. -/
example :
    (observed (readAll 100 (fun _ => 3) 7
      ((encodeAll 2 [⟨[1#8, 2#8, 3#8], 1#64, 1#64, 2#8, false⟩, ⟨[], 1#64, 2#64, 3#8, true⟩]).take 9))).1
      <+: [⟨[1#8, 2#8, 3#8], 1#64, 1#64, 2#8, false⟩, ⟨[], 1#64, 2#64, 3#8, true⟩] ∧
    [⟨[1#8, 2#8, 3#8], 1#64, 1#64, 2#8, false⟩, ⟨[], 1#64, 2#64, 3#8, true⟩] <+:
      (observed (readAll 100 (fun _ => 3) 7
        (encodeAll 2 [⟨[1#8, 2#8, 3#8], 1#64, 1#64, 2#8, false⟩, ⟨[], 1#64, 2#64, 3#8, true⟩]
          ++ [255#8, 255#8, 0#8]))).1 :=
  ⟨(delivered_is_prefix_despite_fault 100 7 _ 2 _ 9 (by decide) (by decide) (by decide) (by decide)).1,
   sent_then_garbage 100 7 _ 2 _ _ (by decide) (by decide) (by decide) (by decide)⟩

open Drpc.Stream

/-! ## Stream level: a FAILING transport write (`drpcwire.Writer.WriteFrame` / `Flush` returning an
    error; model: `Env.release (some tag)` for the thread parked at `writing`), on the atomic-step
    model `Drpc/Stream/Conc.lean` — any number of threads, any interleaving.
    `reported sh tag` = the cancel error if `cancel` is set (`checkCancelError`), else the
    transport's error `transport tag`. -/

/-- (1) The call whose transport write failed is told so.  When the write in flight completes
    with error `tag`, the thread that issued it (`t`, parked at `writing sec _`) continues at
    `ret sec r` with `r = reported …` — the cancel error if the stream has been cancelled, else
    `transport tag`; never `nil` — and no other thread moves.  For every write section that is not
    MsgRecv's inner flush (`sec.recvAfter = none`: MsgSend, RawWrite, RawFlush and the packet of
    Close / SendError / CloseSend / SendCancel — see `sections_of_calls`) this `r` is the result of
    the call (`retOf`, `reported_result_is_returned`). -/
theorem failed_write_is_reported {s s' : St} {tag : Nat} (he : envStep s (.release (some tag)) = some s') :
    ∃ t frs sec ff, s.sh.inflight = some (t, frs) ∧ s.pc t = .writing sec ff ∧
      s'.pc t = .ret sec (reported s.sh tag) ∧
      reported s.sh tag = (match s.sh.cancel with | some e => .err e | none => .err (.transport tag)) ∧
      reported s.sh tag ≠ .nil ∧
      (sec.recvAfter = none → retOf (s'.pc t) = some (reported s.sh tag)) ∧
      (∀ u, u ≠ t → s'.pc u = s.pc u) := by
  obtain ⟨t, frs, sec, ff, hi, hp, rfl⟩ := release_err he
  refine ⟨t, frs, sec, ff, hi, hp, by simp, rfl, reported_ne_nil _ _, ?_, ?_⟩
  · intro hn; simp [hn]
  · intro u hu; exact upd_pc_ne _ _ _ _ _ hu

/-- Once fixed, the result is what the call returns: along the thread's own steps (write.Unlock,
    the three reads of `checkFinished`) the fixed result stays until the thread is `done r`; the
    thread is never blocked on the way; steps of other threads and environment events do not
    touch it. -/
theorem reported_result_is_returned {s : St} {t : Tid} {r : Ret} (h0 : retOf (s.pc t) = some r) :
    (step s t).isSome = true ∧
    (∀ u s', step s u = some s' → retOf (s'.pc t) = some r ∨ s'.pc t = .done r) ∧
    (∀ e s', envStep s e = some s' → retOf (s'.pc t) = some r) := by
  refine ⟨retOf_enabled h0, ?_, ?_⟩
  · intro u s' hs
    by_cases hu : t = u
    · subst hu; exact retOf_step h0 hs
    · left; rw [step_pc_other hu hs]; exact h0
  · intro e s' he
    rw [retOf_env h0 he]; exact h0

/-- Which write sections the calls create (`recvAfter = none` except for the two flushes of
    `checkRecvFlush` inside MsgRecv / RawRecv). -/
theorem sections_of_calls (s : St) (t : Tid) :
    (∀ k d, ∃ sec, stepPC s t (.start (.rawWrite k d)) = some (s.setPc t (.lockW (.rawWrite k d) sec)) ∧ sec.recvAfter = none) ∧
    (∃ sec, stepPC s t (.start .rawFlush) = some (s.setPc t (.lockW .rawFlush sec)) ∧ sec.recvAfter = none) ∧
    (∀ d p s', stepPC s t (.once (.msgSend d p)) = some s' → ∃ sec, s'.pc t = .lockW (.msgSend d p) sec ∧ sec.recvAfter = none) ∧
    (∀ c, ∃ s' sec, stepPC s t (.unlockMu c) = some s' ∧ s'.pc t = .frame sec ∧ sec.recvAfter = none) ∧
    (∀ m s', s.sh.once = none → stepPC s t (.once (.msgRecv m)) = some s' →
      ∃ sec, s'.pc t = .lockW (.msgRecv m) sec ∧ sec.recvAfter = some m) := by
  refine ⟨fun k d => ⟨_, rfl, rfl⟩, ⟨_, rfl, rfl⟩, ?_, fun c => ⟨_, { frames := [packetOf s.opts (s.sh.mid + 1#64) c], checks := false, flush := .unchecked, recvAfter := none }, rfl, by simp, rfl⟩, ?_⟩
  · intro d p s' h
    simp only [stepPC] at h
    split at h <;> first | (cases h; done) | (simp at h; subst h; exact ⟨_, by simp, rfl⟩) | skip
    all_goals simp_all
    all_goals (subst h; exact ⟨{ frames := [], checks := true, flush := if s.opts.manualFlush then .none else .checked, recvAfter := none }, by simp, rfl⟩)
  · intro m s' ho h
    simp only [stepPC, ho] at h
    cases h
    exact ⟨flushSec (some m), by simp, rfl⟩

/-- The flush inside MsgRecv (`checkRecvFlush`): when its transport write failed, the thread
    reaches `unlockW sec r` with `r ≠ nil`; at `write.Unlock` the error becomes the result of the
    receive — unless the stream is terminated by then, in which case the receive goes on and
    reports why the stream was terminated (the repaired `checkRecvFlush`). -/
theorem failed_recv_flush_is_reported {s s' : St} {t : Tid} {sec : WSec} {r : Ret} {m : RecvMode}
    (hp : s.pc t = .unlockW sec r) (hm : sec.recvAfter = some m) (hr : r ≠ .nil) (hs : step s t = some s') :
    (s.sh.term = none → retOf (s'.pc t) = some r) ∧
    (s.sh.term.isSome = true → s'.pc t = .cf1 (.read m)) := by
  simp only [step, hp, stepPC, hm, hr, if_false] at hs
  cases hs
  constructor
  · intro ht; simp [ht]
  · intro ht; simp [ht]

/-- (2) The frames of a failed transport write reach no wire and are not kept: after the failure
    `wire` is unchanged, the writer's buffer is empty and its `empty` flag clear ("buffered frames
    are dropped", writer.go: `b.buf = b.buf[:0]` also on error), no write is in flight, the failure
    is recorded; the history of appended frames is untouched. -/
theorem failed_write_reaches_no_wire {s s' : St} {tag : Nat} (h : Reach s)
    (he : envStep s (.release (some tag)) = some s') :
    s'.sh.wire = s.sh.wire ∧ s'.sh.wbuf = [] ∧ s'.sh.wFlag = false ∧ s'.sh.inflight = none ∧
    s'.sh.failed = true ∧ s'.sh.hist = s.sh.hist := by
  obtain ⟨t, frs, sec, ff, hi, hp, rfl⟩ := release_err he
  have hb := reach_inflightBuf h (by simp [hi])
  simp [relSh, hb]

/-- `wire` only ever grows by the frames of a SUCCESSFUL transport write: no step of any thread
    changes it, and an environment event either leaves it alone or is the successful completion
    of the write in flight, whose frames it appends. -/
theorem wire_grows_only_by_completed_writes {s : St} :
    (∀ t s', step s t = some s' → s'.sh.wire = s.sh.wire) ∧
    (∀ e s', envStep s e = some s' → s'.sh.wire = s.sh.wire ∨
      (e = .release none ∧ ∃ t frs, s.sh.inflight = some (t, frs) ∧ s'.sh.wire = s.sh.wire ++ [frs])) :=
  ⟨fun _ _ h => step_wire_same h, fun _ _ h => env_wire h⟩

/-- (3) What a failed write leaves behind — the model as written, which is what the Go code does:
    the stream is NOT terminated by a failed write (no signal changes; the manager terminates the
    stream when it closes the transport), and nothing of the failed write is kept for resending:
    everything that can still reach the wire (`live`: completed writes ++ write in flight ++ buffer)
    is already on it.  A later send therefore starts from an empty writer, takes a fresh message
    id and appends only its own frames (and does try the transport again). -/
theorem write_after_failed_write {s s' : St} {tag : Nat} (h : Reach s)
    (he : envStep s (.release (some tag)) = some s') :
    (s'.sh.send = s.sh.send ∧ s'.sh.recv = s.sh.recv ∧ s'.sh.term = s.sh.term ∧ s'.sh.fin = s.sh.fin ∧
     s'.sh.cancel = s.sh.cancel) ∧
    live s'.sh = s.sh.wire.flatten ∧ s'.sh.mid = s.sh.mid := by
  obtain ⟨h1, h2, h3, h4, h5, _, _⟩ := env_signals he
  obtain ⟨t, frs, sec, ff, hi, hp, rfl⟩ := release_err he
  have hb := reach_inflightBuf h (by simp [hi])
  refine ⟨⟨h1, h2, h3, h4, h5⟩, ?_, by simp [relSh]⟩
  simp [live, relSh, inflightFrames, hb]

/-- On the wire every message is whole, cut short at the end, or absent: for every message id the
    frames present in `wire` are an initial segment (`<+:`) of the frames the sender appended for
    that message, in the same order — a failed write can cut a message short, never leave a hole,
    reorder or duplicate.  (The same holds for `live`, i.e. including the write in flight and the
    buffer.)
    `_partial`: under the no-wrap hypothesis on the 64-bit message counter, and relative to the
    frames APPENDED for the message (`hist`), which for a send refused half-way by the `send`/`term`
    checks are themselves an initial segment of the message's split (frames are appended in order
    from `sec.frames`); by `C07.wire_wellformed` the frames of one id are contiguous in `hist`. -/
theorem wire_messages_are_whole_or_absent_partial {s : St} (h : Reach s) (hnw : s.sh.midN < 2^64) (m : U64) :
    (s.sh.wire.flatten.filter (fun f => f.mid == m)) <+: (s.sh.hist.filter (fun f => f.mid == m)) ∧
    ((live s.sh).filter (fun f => f.mid == m)) <+: (s.sh.hist.filter (fun f => f.mid == m)) := by
  have hp := (reach_whole h hnw).pre m
  refine ⟨?_, hp⟩
  have : s.sh.wire.flatten <+: live s.sh := ⟨inflightFrames s.sh ++ s.sh.wbuf, by simp [live]⟩
  exact (this.filter _).trans hp

/-- … and while a send is still appending the frames of its message, nothing of that message has
    been dropped: a failed write ends the send (`failed_write_is_reported`), it never continues
    with the remaining frames. -/
theorem current_message_intact_while_sending {s : St} (h : Reach s) (hnw : s.sh.midN < 2^64) {t : Tid}
    (ht : pend (s.pc t) ≠ []) :
    (live s.sh).filter (fun f => f.mid == s.sh.mid) = s.sh.hist.filter (fun f => f.mid == s.sh.mid) :=
  (reach_whole h hnw).cur ⟨t, ht⟩

/-- (4) non-vacuity, a concrete run: split size 1, writer threshold 0, `MsgSend [1,2]` = frames
    `f1` (not done) and `f2` (done), each its own transport write.  The first write succeeds, the
    second fails with error 9: the call returns `transport 9`, `wire` holds `f1` only (message 1 cut
    short: `[f1] <+: [f1, f2]`), the buffer is empty, the failure recorded, the stream not
    terminated — and every state on the way is reachable. -/
theorem two_frame_message_second_write_fails :
    call FailEx.e0 0 (.msgSend [1#8, 2#8]) = FailEx.e1 ∧
    envStep FailEx.e1 (.release none) = some FailEx.e2 ∧
    runSolo 64 FailEx.e2 0 = FailEx.e3 ∧
    envStep FailEx.e3 (.release (some 9)) = some FailEx.e4 ∧
    runSolo 64 FailEx.e4 0 = FailEx.e5 ∧
    Reach FailEx.e3 ∧ Reach FailEx.e5 ∧
    FailEx.e3.sh.inflight = some (0, [FailEx.f2]) ∧
    FailEx.e5.pc 0 = .done (.err (.transport 9)) ∧
    FailEx.e5.sh.hist = [FailEx.f1, FailEx.f2] ∧ FailEx.e5.sh.wire = [[FailEx.f1]] ∧
    FailEx.e5.sh.wbuf = [] ∧ FailEx.e5.sh.wFlag = false ∧ FailEx.e5.sh.failed = true ∧
    FailEx.e5.sh.term = none ∧ FailEx.e5.sh.send = none ∧ FailEx.e5.sh.midN < 2^64 := by
  have r1 : Reach FailEx.e1 := FailEx.e01 ▸ reach_call _ (Reach.init _) ⟨_, rfl⟩
  have r3 : Reach FailEx.e3 := FailEx.e23 ▸ reach_runSolo _ _ (r1.env FailEx.e12)
  have r5 : Reach FailEx.e5 := FailEx.e45 ▸ reach_runSolo _ _ (r3.env FailEx.e34)
  exact ⟨FailEx.e01, FailEx.e12, FailEx.e23, FailEx.e34, FailEx.e45, r3, r5, rfl, rfl, rfl, rfl, rfl, rfl, rfl,
    rfl, rfl, by decide⟩

end Drpc.Props.C05
