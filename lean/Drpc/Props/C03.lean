import Drpc.Lemmas.StreamSolo
/-
  C03 — Stream lifecycle follows the documented state machine.
  Property theorems only.  Part 1: call-level behaviour from any quiet state (no call in flight),
  for every state of the signals, writer and packet buffer the hypotheses allow.
-/
namespace Drpc.Props.C03
open Drpc Drpc.Stream

/-! ### terminal calls are idempotent -/

theorem close_idempotent (s : St) (t : Tid) (e : Err) (hq : Quiet s.sh) (ht : s.sh.term = some e) :
    (call s t .close).pc t = .done .nil ∧ (call s t .close).sh = s.sh := by
  obtain ⟨h1, h2, h3, h4, h5, h6, h7, h8⟩ := hq
  solo
  generalize s.sh = sh at *; cases sh; simp_all

theorem sendError_idempotent (s : St) (t : Tid) (e : Err) (p : Bytes) (hq : Quiet s.sh) (ht : s.sh.term = some e) :
    (call s t (.sendError p)).pc t = .done .nil ∧ (call s t (.sendError p)).sh = s.sh := by
  obtain ⟨h1, h2, h3, h4, h5, h6, h7, h8⟩ := hq
  solo
  generalize s.sh = sh at *; cases sh; simp_all

theorem closeSend_idempotent_term (s : St) (t : Tid) (e : Err) (hq : Quiet s.sh) (ht : s.sh.term = some e) :
    (call s t .closeSend).pc t = .done .nil ∧ (call s t .closeSend).sh = s.sh := by
  obtain ⟨h1, h2, h3, h4, h5, h6, h7, h8⟩ := hq
  solo
  generalize s.sh = sh at *; cases sh; simp_all

theorem closeSend_idempotent_send (s : St) (t : Tid) (e : Err) (hq : Quiet s.sh) (ht : s.sh.send = some e) :
    (call s t .closeSend).pc t = .done .nil ∧ (call s t .closeSend).sh = s.sh := by
  obtain ⟨h1, h2, h3, h4, h5, h6, h7, h8⟩ := hq
  solo
  generalize s.sh = sh at *; cases sh; simp_all

theorem sendCancel_idempotent (s : St) (t : Tid) (e : Err) (tag : Nat) (hq : Quiet s.sh) (ht : s.sh.term = some e) :
    (call s t (.sendCancel tag)).pc t = .done .nil ∧
    (call s t (.sendCancel tag)).sh.wire = s.sh.wire ∧ (call s t (.sendCancel tag)).sh.wbuf = s.sh.wbuf ∧
    (call s t (.sendCancel tag)).sh.inflight = none ∧
    (call s t (.sendCancel tag)).sh.term = s.sh.term ∧ (call s t (.sendCancel tag)).sh.send = s.sh.send ∧
    (call s t (.sendCancel tag)).sh.recv = s.sh.recv ∧ (call s t (.sendCancel tag)).sh.cancel = s.sh.cancel ∧
    (call s t (.sendCancel tag)).sh.fin = true := by
  obtain ⟨h1, h2, h3, h4, h5, h6, h7, h8⟩ := hq
  solo

theorem cancel_after_finished (s : St) (t : Tid) (tag : Nat) (hq : Quiet s.sh) (hf : s.sh.fin = true) :
    (call s t (.cancel tag)).pc t = .done (.bool true) ∧ (call s t (.cancel tag)).sh = s.sh := by
  obtain ⟨h1, h2, h3, h4, h5, h6, h7, h8⟩ := hq
  solo
  generalize s.sh = sh at *; cases sh; simp_all

/-! ### packets -/

theorem foreign_sid_ignored (s : St) (t : Tid) (k : Byte) (ctl : Bool) (d : Bytes) :
    (call s t (.handle k ctl false d)).pc t = .done .nil ∧ (call s t (.handle k ctl false d)).sh = s.sh := by
  solo

theorem packets_after_termination_ignored (s : St) (t : Tid) (k : Byte) (ctl : Bool) (d : Bytes) (e : Err)
    (ht : s.sh.term = some e) :
    (call s t (.handle k ctl true d)).pc t = .done .nil ∧ (call s t (.handle k ctl true d)).sh = s.sh := by
  solo

theorem unknown_control_ignored (s : St) (t : Tid) (k : Byte) (d : Bytes) (hq : Quiet s.sh)
    (hk : UnknownKind k) (ht : s.sh.term = none) :
    (call s t (.handle k true true d)).pc t = .done .nil ∧ (call s t (.handle k true true d)).sh = s.sh := by
  obtain ⟨h1, h2, h3, h4, h5, h6, h7, h8⟩ := hq
  obtain ⟨k1, k2, k3, k4, k5, k6⟩ := hk
  simp [kindInvoke, kindMessage, kindError, kindCancel, kindClose, kindCloseSend] at k1 k2 k3 k4 k5 k6
  solo
  generalize s.sh = sh at *; cases sh; simp_all

theorem unknown_noncontrol_terminates (s : St) (t : Tid) (k : Byte) (d : Bytes) (hq : Quiet s.sh)
    (hk : UnknownKind k) (ht : s.sh.term = none) :
    (call s t (.handle k false true d)).pc t = .done (.err (.unknownKind k)) ∧
    (call s t (.handle k false true d)).sh.term = some (.unknownKind k) := by
  obtain ⟨h1, h2, h3, h4, h5, h6, h7, h8⟩ := hq
  obtain ⟨k1, k2, k3, k4, k5, k6⟩ := hk
  simp [kindInvoke, kindMessage, kindError, kindCancel, kindClose, kindCloseSend] at k1 k2 k3 k4 k5 k6
  solo

theorem invoke_on_existing_stream_is_ProtocolError (s : St) (t : Tid) (ctl : Bool) (d : Bytes) (hq : Quiet s.sh)
    (ht : s.sh.term = none) :
    (call s t (.handle kindInvoke ctl true d)).pc t = .done (.err .invokeOnExisting) ∧
    (call s t (.handle kindInvoke ctl true d)).sh.term = some .invokeOnExisting := by
  obtain ⟨h1, h2, h3, h4, h5, h6, h7, h8⟩ := hq
  solo

/-! ### nothing is emitted after termination -/

theorem msgSend_after_termination (s : St) (t : Tid) (d : Bytes) (e e' : Err) (hq : Quiet s.sh)
    (ht : s.sh.term = some e) (hs : s.sh.send = some e') :
    (call s t (.msgSend d)).pc t = .done (.err e') ∧
    (call s t (.msgSend d)).sh.wire = s.sh.wire ∧ (call s t (.msgSend d)).sh.wbuf = s.sh.wbuf ∧
    (call s t (.msgSend d)).sh.inflight = none := by
  obtain ⟨h1, h2, h3, h4, h5, h6, h7, h8⟩ := hq
  obtain ⟨fr, rest, hfr⟩ := framesOf_cons s.opts (s.sh.mid + 1#64) (2#8) d
  cases ho : s.sh.once with
  | none => solo
  | some x =>
    cases x with
    | some u => exact absurd ho (h8 u)
    | none => solo

theorem rawWrite_after_termination (s : St) (t : Tid) (k : Byte) (d : Bytes) (e e' : Err) (hq : Quiet s.sh)
    (ht : s.sh.term = some e) (hs : s.sh.send = some e') :
    (call s t (.rawWrite k d)).pc t = .done (.err e') ∧
    (call s t (.rawWrite k d)).sh.wire = s.sh.wire ∧ (call s t (.rawWrite k d)).sh.wbuf = s.sh.wbuf ∧
    (call s t (.rawWrite k d)).sh.inflight = none := by
  obtain ⟨h1, h2, h3, h4, h5, h6, h7, h8⟩ := hq
  obtain ⟨fr, rest, hfr⟩ := framesOf_cons s.opts (s.sh.mid + 1#64) k d
  solo

/-! ### sends after a remote error / cancel report end-of-stream -/

theorem send_after_remote_error_is_EOF (s : St) (t : Tid) (p d : Bytes) (hq : Quiet s.sh)
    (ht : s.sh.term = none) (hs : s.sh.send = none) :
    (call (call s t (.handle kindError false true p)) t (.msgSend d)).pc t = .done (.err .eof) ∧
    (call s t (.handle kindError false true p)).sh.term = some (.remote p) := by
  obtain ⟨h1, h2, h3, h4, h5, h6, h7, h8⟩ := hq
  obtain ⟨fr, rest, hfr⟩ := framesOf_cons s.opts (s.sh.mid + 1#64) (2#8) d
  cases ho : s.sh.once with
  | none => solo
  | some x =>
    cases x with
    | some u => exact absurd ho (h8 u)
    | none => solo

theorem send_after_remote_cancel_is_EOF (s : St) (t : Tid) (d : Bytes) (hq : Quiet s.sh)
    (ht : s.sh.term = none) (hs : s.sh.send = none) :
    (call (call s t (.handle kindCancel false true [])) t (.msgSend d)).pc t = .done (.err .eof) ∧
    (call s t (.handle kindCancel false true [])).sh.term = some .canceled := by
  obtain ⟨h1, h2, h3, h4, h5, h6, h7, h8⟩ := hq
  obtain ⟨fr, rest, hfr⟩ := framesOf_cons s.opts (s.sh.mid + 1#64) (2#8) d
  cases ho : s.sh.once with
  | none => solo
  | some x =>
    cases x with
    | some u => exact absurd ho (h8 u)
    | none => solo

/-! ### receives after a remote half-close / a cancel -/

theorem recv_after_remote_closesend_is_EOF (s : St) (t : Tid) (hq : Quiet s.sh)
    (ht : s.sh.term = none) (hr : s.sh.recv = none) (hp : s.sh.perr = none)
    (ho : s.sh.once = some none) (hf : s.sh.wFlag = false) :
    (call (call s t (.handle kindCloseSend false true [])) t (.msgRecv {})).pc t = .done (.err .eof) := by
  obtain ⟨h1, h2, h3, h4, h5, h6, h7, h8⟩ := hq
  cases hsd : s.sh.send <;> solo

theorem recv_after_cancel_is_ctx_error (s : St) (t : Tid) (tag : Nat) (hq : Quiet s.sh)
    (ht : s.sh.term = none) (hp : s.sh.perr = none) (hfin : s.sh.fin = false)
    (ho : s.sh.once = some none) (hf : s.sh.wFlag = false) :
    (call (call s t (.cancel tag)) t (.msgRecv {})).pc t = .done (.err (.ctx tag)) := by
  obtain ⟨h1, h2, h3, h4, h5, h6, h7, h8⟩ := hq
  solo

end Drpc.Props.C03
