import Drpc.Lemmas.StreamSolo
import Drpc.Lemmas.StreamInvStep
/-
  C03 — Stream lifecycle follows the documented state machine.
  Property theorems only.  Part 1: call-level behaviour from any quiet state (no call in flight),
  for every state of the signals, writer and packet buffer the hypotheses allow.
-/
namespace Drpc.Props.C03
open Drpc Drpc.Stream

/-! ### terminal calls are idempotent -/

theorem close_idempotent (s : St) (t : Tid) (e : Err) (hq : Quiet s.sh) (ht : s.sh.term = some e) :
    (call s t .close).pc t = .done .nil ∧ (call s t .close).sh = s.sh := by
  obtain ⟨h1, h2, h3, h4, h5, h6, h7, h8⟩ := hq
  solo
  generalize s.sh = sh at *; cases sh; simp_all

theorem sendError_idempotent (s : St) (t : Tid) (e : Err) (p : Bytes) (hq : Quiet s.sh) (ht : s.sh.term = some e) :
    (call s t (.sendError p)).pc t = .done .nil ∧ (call s t (.sendError p)).sh = s.sh := by
  obtain ⟨h1, h2, h3, h4, h5, h6, h7, h8⟩ := hq
  solo
  generalize s.sh = sh at *; cases sh; simp_all

theorem closeSend_idempotent_term (s : St) (t : Tid) (e : Err) (hq : Quiet s.sh) (ht : s.sh.term = some e) :
    (call s t .closeSend).pc t = .done .nil ∧ (call s t .closeSend).sh = s.sh := by
  obtain ⟨h1, h2, h3, h4, h5, h6, h7, h8⟩ := hq
  solo
  generalize s.sh = sh at *; cases sh; simp_all

theorem closeSend_idempotent_send (s : St) (t : Tid) (e : Err) (hq : Quiet s.sh) (ht : s.sh.send = some e) :
    (call s t .closeSend).pc t = .done .nil ∧ (call s t .closeSend).sh = s.sh := by
  obtain ⟨h1, h2, h3, h4, h5, h6, h7, h8⟩ := hq
  solo
  generalize s.sh = sh at *; cases sh; simp_all

theorem sendCancel_idempotent (s : St) (t : Tid) (e : Err) (tag : Nat) (hq : Quiet s.sh) (ht : s.sh.term = some e) :
    (call s t (.sendCancel tag)).pc t = .done .nil ∧
    (call s t (.sendCancel tag)).sh.wire = s.sh.wire ∧ (call s t (.sendCancel tag)).sh.wbuf = s.sh.wbuf ∧
    (call s t (.sendCancel tag)).sh.inflight = none ∧
    (call s t (.sendCancel tag)).sh.term = s.sh.term ∧ (call s t (.sendCancel tag)).sh.send = s.sh.send ∧
    (call s t (.sendCancel tag)).sh.recv = s.sh.recv ∧ (call s t (.sendCancel tag)).sh.cancel = s.sh.cancel ∧
    (call s t (.sendCancel tag)).sh.fin = true := by
  obtain ⟨h1, h2, h3, h4, h5, h6, h7, h8⟩ := hq
  solo

theorem cancel_after_finished (s : St) (t : Tid) (tag : Nat) (hq : Quiet s.sh) (hf : s.sh.fin = true) :
    (call s t (.cancel tag)).pc t = .done (.bool true) ∧ (call s t (.cancel tag)).sh = s.sh := by
  obtain ⟨h1, h2, h3, h4, h5, h6, h7, h8⟩ := hq
  solo
  generalize s.sh = sh at *; cases sh; simp_all

/-! ### packets -/

theorem foreign_sid_ignored (s : St) (t : Tid) (k : Byte) (ctl : Bool) (d : Bytes) :
    (call s t (.handle k ctl false d)).pc t = .done .nil ∧ (call s t (.handle k ctl false d)).sh = s.sh := by
  solo

theorem packets_after_termination_ignored (s : St) (t : Tid) (k : Byte) (ctl : Bool) (d : Bytes) (e : Err)
    (ht : s.sh.term = some e) :
    (call s t (.handle k ctl true d)).pc t = .done .nil ∧ (call s t (.handle k ctl true d)).sh = s.sh := by
  solo

theorem unknown_control_ignored (s : St) (t : Tid) (k : Byte) (d : Bytes) (hq : Quiet s.sh)
    (hk : UnknownKind k) (ht : s.sh.term = none) :
    (call s t (.handle k true true d)).pc t = .done .nil ∧ (call s t (.handle k true true d)).sh = s.sh := by
  obtain ⟨h1, h2, h3, h4, h5, h6, h7, h8⟩ := hq
  obtain ⟨k1, k2, k3, k4, k5, k6⟩ := hk
  simp [kindInvoke, kindMessage, kindError, kindCancel, kindClose, kindCloseSend] at k1 k2 k3 k4 k5 k6
  solo
  generalize s.sh = sh at *; cases sh; simp_all

theorem unknown_noncontrol_terminates (s : St) (t : Tid) (k : Byte) (d : Bytes) (hq : Quiet s.sh)
    (hk : UnknownKind k) (ht : s.sh.term = none) :
    (call s t (.handle k false true d)).pc t = .done (.err (.unknownKind k)) ∧
    (call s t (.handle k false true d)).sh.term = some (.unknownKind k) := by
  obtain ⟨h1, h2, h3, h4, h5, h6, h7, h8⟩ := hq
  obtain ⟨k1, k2, k3, k4, k5, k6⟩ := hk
  simp [kindInvoke, kindMessage, kindError, kindCancel, kindClose, kindCloseSend] at k1 k2 k3 k4 k5 k6
  solo

theorem invoke_on_existing_stream_is_ProtocolError (s : St) (t : Tid) (ctl : Bool) (d : Bytes) (hq : Quiet s.sh)
    (ht : s.sh.term = none) :
    (call s t (.handle kindInvoke ctl true d)).pc t = .done (.err .invokeOnExisting) ∧
    (call s t (.handle kindInvoke ctl true d)).sh.term = some .invokeOnExisting := by
  obtain ⟨h1, h2, h3, h4, h5, h6, h7, h8⟩ := hq
  solo

/-! ### nothing is emitted after termination -/

theorem msgSend_after_termination (s : St) (t : Tid) (d : Bytes) (e e' : Err) (hq : Quiet s.sh)
    (ht : s.sh.term = some e) (hs : s.sh.send = some e') :
    (call s t (.msgSend d)).pc t = .done (.err e') ∧
    (call s t (.msgSend d)).sh.wire = s.sh.wire ∧ (call s t (.msgSend d)).sh.wbuf = s.sh.wbuf ∧
    (call s t (.msgSend d)).sh.inflight = none := by
  obtain ⟨h1, h2, h3, h4, h5, h6, h7, h8⟩ := hq
  obtain ⟨fr, rest, hfr⟩ := framesOf_cons s.opts (s.sh.mid + 1#64) (2#8) d
  cases ho : s.sh.once with
  | none => solo
  | some x =>
    cases x with
    | some u => exact absurd ho (h8 u)
    | none => solo

theorem rawWrite_after_termination (s : St) (t : Tid) (k : Byte) (d : Bytes) (e e' : Err) (hq : Quiet s.sh)
    (ht : s.sh.term = some e) (hs : s.sh.send = some e') :
    (call s t (.rawWrite k d)).pc t = .done (.err e') ∧
    (call s t (.rawWrite k d)).sh.wire = s.sh.wire ∧ (call s t (.rawWrite k d)).sh.wbuf = s.sh.wbuf ∧
    (call s t (.rawWrite k d)).sh.inflight = none := by
  obtain ⟨h1, h2, h3, h4, h5, h6, h7, h8⟩ := hq
  obtain ⟨fr, rest, hfr⟩ := framesOf_cons s.opts (s.sh.mid + 1#64) k d
  solo

/-! ### sends after a remote error / cancel report end-of-stream -/

theorem send_after_remote_error_is_EOF (s : St) (t : Tid) (p d : Bytes) (hq : Quiet s.sh)
    (ht : s.sh.term = none) (hs : s.sh.send = none) :
    (call (call s t (.handle kindError false true p)) t (.msgSend d)).pc t = .done (.err .eof) ∧
    (call s t (.handle kindError false true p)).sh.term = some (.remote p) := by
  obtain ⟨h1, h2, h3, h4, h5, h6, h7, h8⟩ := hq
  obtain ⟨fr, rest, hfr⟩ := framesOf_cons s.opts (s.sh.mid + 1#64) (2#8) d
  cases ho : s.sh.once with
  | none => solo
  | some x =>
    cases x with
    | some u => exact absurd ho (h8 u)
    | none => solo

theorem send_after_remote_cancel_is_EOF (s : St) (t : Tid) (d : Bytes) (hq : Quiet s.sh)
    (ht : s.sh.term = none) (hs : s.sh.send = none) :
    (call (call s t (.handle kindCancel false true [])) t (.msgSend d)).pc t = .done (.err .eof) ∧
    (call s t (.handle kindCancel false true [])).sh.term = some .canceled := by
  obtain ⟨h1, h2, h3, h4, h5, h6, h7, h8⟩ := hq
  obtain ⟨fr, rest, hfr⟩ := framesOf_cons s.opts (s.sh.mid + 1#64) (2#8) d
  cases ho : s.sh.once with
  | none => solo
  | some x =>
    cases x with
    | some u => exact absurd ho (h8 u)
    | none => solo

/-! ### receives after a remote half-close / a cancel -/

theorem recv_after_remote_closesend_is_EOF (s : St) (t : Tid) (hq : Quiet s.sh)
    (ht : s.sh.term = none) (hr : s.sh.recv = none) (hp : s.sh.perr = none)
    (ho : s.sh.once = some none) (hf : s.sh.wFlag = false) :
    (call (call s t (.handle kindCloseSend false true [])) t (.msgRecv {})).pc t = .done (.err .eof) := by
  obtain ⟨h1, h2, h3, h4, h5, h6, h7, h8⟩ := hq
  cases hsd : s.sh.send <;> solo

theorem recv_after_cancel_is_ctx_error (s : St) (t : Tid) (tag : Nat) (hq : Quiet s.sh)
    (ht : s.sh.term = none) (hp : s.sh.perr = none) (hfin : s.sh.fin = false)
    (ho : s.sh.once = some none) (hf : s.sh.wFlag = false) :
    (call (call s t (.cancel tag)) t (.msgRecv {})).pc t = .done (.err (.ctx tag)) := by
  obtain ⟨h1, h2, h3, h4, h5, h6, h7, h8⟩ := hq
  solo

/-! ## Part 2: invariants of every reachable state of the atomic-step model, any number of
    threads, any interleaving (`Reach`: thread steps, transport/Marshal/Unmarshal completions,
    and any idle thread starting any call). -/

/-- A terminated stream is closed in both directions. -/
theorem terminated_closes_both {s : St} (h : Reach s) (ht : s.sh.term.isSome = true) :
    s.sh.send.isSome = true ∧ s.sh.recv.isSome = true :=
  (reach_sigs h).termSR ht

/-- Finished implies terminated. -/
theorem finished_implies_terminated {s : St} (h : Reach s) (hf : s.sh.fin = true) :
    s.sh.term.isSome = true :=
  (reach_sigs h).finTerm hf

/-- The stream's context is done exactly when the stream is finished. -/
theorem ctx_done_iff_finished {s : St} (h : Reach s) : s.sh.ctxDone = s.sh.fin :=
  (reach_sigs h).ctx.1

/-- The `fin` notification is sent exactly once, at the moment the stream finishes. -/
theorem fin_notified_exactly_once {s : St} (h : Reach s) :
    s.sh.finTokens = if s.sh.fin then 1 else 0 :=
  (reach_sigs h).ctx.2

/-- Signals are set-once: no step of any thread changes a signal that is already set
    (first error wins, for `send`, `recv`, `term`, `cancel`; `fin` and the context stay set). -/
theorem signals_set_once {s s' : St} {t : Tid} (h : step s t = some s') :
    (∀ e, s.sh.send = some e → s'.sh.send = some e) ∧ (∀ e, s.sh.recv = some e → s'.sh.recv = some e) ∧
    (∀ e, s.sh.term = some e → s'.sh.term = some e) ∧ (∀ e, s.sh.cancel = some e → s'.sh.cancel = some e) ∧
    (s.sh.fin = true → s'.sh.fin = true) ∧ (s.sh.ctxDone = true → s'.sh.ctxDone = true) :=
  step_sigMono h

/-- … and environment events (transport, Marshal, Unmarshal completions) touch no signal. -/
theorem signals_untouched_by_env {s s' : St} {e : Env} (h : envStep s e = some s') :
    s'.sh.send = s.sh.send ∧ s'.sh.recv = s.sh.recv ∧ s'.sh.term = s.sh.term ∧ s'.sh.fin = s.sh.fin ∧
    s'.sh.cancel = s.sh.cancel ∧ s'.sh.ctxDone = s.sh.ctxDone ∧ s'.sh.finTokens = s.sh.finTokens :=
  env_signals h

/-- Terminated and not finished: some thread is still inside an operation (in a write-held or
    read-held section, between releasing it and the end of its `checkFinished`, or inside
    `terminate`) — it will run the `checkFinished` that finishes the stream. -/
theorem unfinished_has_pending_operation {s : St} (h : Reach s) (ht : s.sh.term.isSome = true)
    (hf : s.sh.fin = false) : ∃ t, obligated (s.pc t) = true :=
  (reach_sigs h).obligated ⟨ht, hf⟩

/-- Finished exactly when terminated and no operation in flight: in a reachable state where every
    thread has returned from its call, a terminated stream is finished. -/
theorem finished_when_idle {s : St} (h : Reach s) (hidle : ∀ t, ∃ r, s.pc t = .done r)
    (ht : s.sh.term.isSome = true) : s.sh.fin = true := by
  cases hf : s.sh.fin with
  | true => rfl
  | false =>
    obtain ⟨t, ho⟩ := (reach_sigs h).obligated ⟨ht, hf⟩
    obtain ⟨r, hr⟩ := hidle t
    rw [hr] at ho; cases ho

theorem finished_iff_terminated_when_idle {s : St} (h : Reach s) (hidle : ∀ t, ∃ r, s.pc t = .done r) :
    s.sh.fin = true ↔ s.sh.term.isSome = true :=
  ⟨finished_implies_terminated h, finished_when_idle h hidle⟩

/-- non-vacuity: after `Cancel` on a fresh stream every thread is idle, the stream is terminated,
    finished, its context done and exactly one `fin` token was sent -/
example : Reach (call {} 0 (.cancel 7)) ∧ (∀ t, ∃ r, (call {} 0 (.cancel 7)).pc t = .done r) ∧
    (call {} 0 (.cancel 7)).sh.term = some (.ctx 7) ∧ (call {} 0 (.cancel 7)).sh.fin = true ∧
    (call {} 0 (.cancel 7)).sh.ctxDone = true ∧ (call {} 0 (.cancel 7)).sh.finTokens = 1 := by
  refine ⟨reach_call _ (Reach.init {}) ⟨_, rfl⟩, ?_, by decide, by decide, by decide, by decide⟩
  intro t
  by_cases ht : t = 0
  · subst ht; exact ⟨.bool false, by decide⟩
  · exact ⟨.nil, by rw [call_pc_other _ _ _ _ ht]⟩

/-- The lifecycle follows the documented graph: every step of every thread leaves the abstract
    state (`abs`) unchanged, or moves it along an edge of `drpcstream/state.dot`
    (`Generated.stateEdges`, regenerated from the repository on every run; compared as unlabeled
    (from, to) pairs), or along the ONE extra pair

      terminated → canceled

    which is really taken (`terminated_to_canceled_taken`): `Cancel` / a remote `KindCancel`
    arriving while a terminated stream is not yet finished (an operation still in flight) sets
    the `cancel` signal, and `abs` ranks canceled above terminated, as `state.dot` does for the
    states before termination.  Intermediate positions inside one call (e.g. `SendError` sets
    `send` before it sets `term`, so open → send-closed → terminated) also stay on documented
    edges. -/
theorem refines_documented_graph {s s' : St} {t : Tid} (h : Reach s) (hs : step s t = some s') :
    abs s'.sh = abs s.sh ∨ docEdge (abs s.sh) (abs s'.sh) = true ∨
      (abs s.sh = .terminated ∧ abs s'.sh = .canceled) := by
  refine abs_of_mono (step_sigMono hs) ?_
  intro hf
  rcases step_fin_new hs hf with h1 | h1
  · exact .inl h1
  · exact .inr ((reach_sigs h).cf23 t (atCf3_atCf23 _ h1))

/-- environment events and new calls do not change the abstract state -/
theorem abs_unchanged_by_env {s s' : St} {e : Env} (h : envStep s e = some s') : abs s'.sh = abs s.sh := by
  obtain ⟨h1, h2, h3, h4, h5, _, _⟩ := env_signals h
  simp [abs, *]

/-- The extra pair of `refines_documented_graph` is really taken. -/
theorem terminated_to_canceled_taken :
    Reach tcState ∧ abs tcState.sh = .terminated ∧
    (step tcState 2).map (fun s' => abs s'.sh) = some .canceled := by
  refine ⟨?_, by decide, by decide⟩
  refine reach_runSolo _ _ (Reach.spawn ?_ ⟨.nil, by decide⟩)
  exact reach_call _ (reach_call _ (Reach.init {}) ⟨_, rfl⟩) ⟨.nil, by decide⟩
end Drpc.Props.C03
