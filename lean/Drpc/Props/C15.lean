import Drpc.Lemmas.Pool
/-
  C15 — Connection pool never exceeds its bounds or mishandles ownership.
  Property theorems only.  The model (`Drpc/Pool.lean`) follows drpcpool/{pool.go,entry.go} as
  repaired by the three `fix:` commits recorded in known_findings.json; every theorem is about ALL
  sequences of operations and events from the empty pool (`run cfg init ops`): Put / Take / Close
  over any keys and connections, any Capacity / KeyCapacity (zero, positive, negative), expiration
  on or off, the three phases of every expiry callback (`fire`, `cbClose`, `cbRemove`) at every
  position, and the environment closing / blocking / unblocking connections.
-/
namespace Drpc.Props.C15
open Drpc.Pool

/-- a reachable state -/
abbrev reach (cfg : Cfg) (ops : List Op) : State := run cfg init ops

theorem reach_inv (cfg : Cfg) (ops : List Op) : Inv cfg (reach cfg ops) :=
  inv_run ops init (inv_init cfg)

/-! ### lists_consistent -/

/-- Both lists are duplicate-free, the stored counts are the lengths, the global list and the
    per-key lists have the same members, every linked entry sits in the list registered under its
    own key, and `removed` is set exactly on the entries that are not linked. -/
theorem lists_consistent (cfg : Cfg) (ops : List Op) :
    let s := reach cfg ops
    s.order.items.Nodup ∧ s.order.count = s.order.items.length ∧
    (∀ k l, s.locals k = some l → l.items.Nodup ∧ l.count = l.items.length ∧
        ∀ e, e ∈ l.items → (s.ents e).key = k) ∧
    (∀ e, e ∈ s.order.items ↔ ∃ l, s.locals (s.ents e).key = some l ∧ e ∈ l.items) ∧
    (∀ e, e ∈ s.order.items ↔ ∃ k l, s.locals k = some l ∧ e ∈ l.items) ∧
    (∀ e, e < s.next → ((s.ents e).gRemoved = false ∧ (s.ents e).lRemoved = false ↔ e ∈ s.order.items) ∧
                        ((s.ents e).gRemoved = true ∧ (s.ents e).lRemoved = true ↔ e ∉ s.order.items)) := by
  intro s
  have hs : Struct s := (reach_inv cfg ops).struct
  clear_value s
  refine ⟨hs.nodupG, hs.countG, ?_, ?_, ?_, ?_⟩
  · intro k l h
    exact ⟨hs.nodupL k l h, hs.countL k l h, fun e he => (hs.lg k l h e he).1⟩
  · intro e
    constructor
    · intro h; exact (hs.gl e h).2.2.2
    · rintro ⟨l, h1, h2⟩; exact (hs.lg _ l h1 e h2).2
  · intro e
    constructor
    · intro h; obtain ⟨l, h1, h2⟩ := (hs.gl e h).2.2.2; exact ⟨_, l, h1, h2⟩
    · rintro ⟨k, l, h1, h2⟩; exact (hs.lg k l h1 e h2).2
  · intro e hlt
    by_cases hin : e ∈ s.order.items
    · obtain ⟨_, h1, h2, _⟩ := hs.gl e hin
      simp [h1, h2, hin]
    · obtain ⟨h1, h2⟩ := hs.unl e hlt hin
      simp [h1, h2, hin]

/-! ### bounded -/

/-- The number of cached connections (list length and stored count alike) never exceeds a positive
    Capacity, per key never a positive KeyCapacity, and with a negative one nothing is ever cached. -/
theorem bounded (cfg : Cfg) (ops : List Op) :
    let s := reach cfg ops
    (cfg.capacity > 0 → (s.order.items.length : Int) ≤ cfg.capacity ∧ s.order.count ≤ cfg.capacity) ∧
    (cfg.keyCapacity > 0 → ∀ k l, s.locals k = some l →
        (l.items.length : Int) ≤ cfg.keyCapacity ∧ l.count ≤ cfg.keyCapacity) ∧
    (cfg.capacity < 0 ∨ cfg.keyCapacity < 0 → s.order.items = [] ∧ ∀ k, s.locals k = none) := by
  intro s
  have hi : Inv cfg s := reach_inv cfg ops
  clear_value s
  refine ⟨?_, ?_, hi.bounded.neg⟩
  · intro h
    have h1 := hi.bounded.cap h
    have h2 := hi.struct.countG
    exact ⟨by omega, h1⟩
  · intro h k l hl
    have h1 := hi.bounded.kcap h k l hl
    have h2 := hi.struct.countL k l hl
    exact ⟨by omega, h1⟩

/-- non-vacuity: with Capacity 1 the second Put evicts the first connection and the pool holds one -/
example : (reach ⟨1, 0, true⟩ [.put 0 0, .put 0 1]).order.items = [1] := by decide

/-! ### take_sound -/

/-- If `Take k` returns entry `e` with connection `v` then: `e` was cached under `k` (linked in that
    key's list and in the global list), `v` was neither closed nor blocked, the entry's timer had not
    fired (it is absent or was still armed, so `Stop()` succeeded); afterwards the entry is in no list,
    it is recorded as handed out, and the call itself closed no connection. -/
theorem take_sound (cfg : Cfg) (ops : List Op) (k e v : Nat)
    (h : (step cfg (reach cfg ops) (.take k)).2 = .taken e v) :
    let s := reach cfg ops
    let s' := (step cfg s (.take k)).1
    v = (s.ents e).val ∧
    (∃ l, s.locals k = some l ∧ e ∈ l.items) ∧ e ∈ s.order.items ∧
    (s.conns v).closed = false ∧ (s.conns v).blocked = false ∧
    ((s.ents e).exp = .none ∨ (s.ents e).exp = .armed) ∧
    e ∉ s'.order.items ∧ (∀ k' l', s'.locals k' = some l' → e ∉ l'.items) ∧
    (s'.ents e).handed = true ∧ s'.conns = s.conns := by
  intro s s'
  have hi : Inv cfg s := reach_inv cfg ops
  have h' : (take s k).2 = .taken e v := h
  have hs' : s' = (take s k).1 := rfl
  clear_value s' s
  subst hs'
  obtain ⟨hi', hres⟩ := take_spec hi k
  rcases hres with hm | ⟨e0, v0, l, hr, hl, hel, hok⟩
  · rw [hm] at h'; cases h'
  · rw [hr] at h'; cases h'
    obtain ⟨_, hconns, hmatch⟩ := hok
    rw [hr] at hmatch
    obtain ⟨_, a2, a3, a4, a5, a6, a7, _⟩ := hmatch
    refine ⟨a2, ⟨l, hl, hel⟩, (hi.struct.lg k l hl e hel).2, a4, a3, a5, a6, ?_, a7, hconns⟩
    intro k' l' hl' hin
    exact a6 (hi'.struct.lg k' l' hl' e hin).2

/-- non-vacuity: a Take that returns something (the newer of two cached connections is evicted-safe) -/
example : (step ⟨1, 0, false⟩ (reach ⟨1, 0, false⟩ [.put 0 0, .put 0 1]) (.take 0)).2 = .taken 1 1 := by decide

/-- `Take` skips an entry whose timer has fired even though it is still linked -/
example : (step ⟨0, 0, true⟩ (reach ⟨0, 0, true⟩ [.put 0 0, .fire 0]) (.take 0)).2 = .miss := by decide

/-! ### exclusive_handout -/

/-- Over any run, no entry is returned by `Take` twice.  Every `Put` creates at most one entry
    (`insert` allocates a fresh id), so a connection is handed to at most one caller per `Put`. -/
theorem exclusive_handout (cfg : Cfg) (ops : List Op) : (takenIds (outs cfg init ops)).Nodup := by
  have h := run_handouts ops init (inv_init cfg)
  have hn := (reach_inv cfg ops).hand.nodup
  simp only [reach] at hn
  rw [h] at hn
  simpa [init] using hn

/-- … and what was handed out stays out of the lists for good (until the caller puts it back, which
    creates a new entry). -/
theorem handed_out_unlinked (cfg : Cfg) (ops : List Op) (e : Nat) (h : e ∈ takenIds (outs cfg init ops)) :
    e ∉ (reach cfg ops).order.items ∧ ((reach cfg ops).ents e).handed = true := by
  have hi := reach_inv cfg ops
  have hh := run_handouts ops init (inv_init cfg)
  have hin : e ∈ (reach cfg ops).handouts := by
    simp only [reach]; rw [hh]; simpa [init] using h
  obtain ⟨_, h2⟩ := hi.hand.handed e hin
  refine ⟨fun hl => ?_, h2⟩
  have := (hi.linked_not_handed hl).1
  rw [h2] at this; cases this

/-! ### ownership -/

/-- cached: linked, timer absent or armed -/
def Cached (s : State) (e : Nat) : Prop := CachedW (e ∈ s.order.items) (s.ents e)
/-- handed out by `Take` and not linked -/
def HandedOut (s : State) (e : Nat) : Prop := HandedW (e ∈ s.order.items) (s.ents e)
/-- closed by the pool (`closeEntry` on eviction or `Close`): unlinked and the connection is closed -/
def ClosedByPool (s : State) (e : Nat) : Prop :=
  PoolClosedW (e ∈ s.order.items) (s.ents e) (s.conns (s.ents e).val).closed
/-- unlinked by `Take`, which found the connection already closed (by its peer) and dropped it -/
def DroppedClosed (s : State) (e : Nat) : Prop :=
  DroppedW (e ∈ s.order.items) (s.ents e) (s.conns (s.ents e).val).closed
/-- the expiry timer fired: the callback owns closing — pending (`fired`), or done (then the
    connection is closed; after `cbRemove` the entry is also unlinked) -/
def CallbackOwned (s : State) (e : Nat) : Prop :=
  CallbackW (e ∈ s.order.items) (s.ents e) (s.conns (s.ents e).val).closed

/-- Every entry ever created by a `Put` is in exactly one of the five classes. -/
theorem ownership (cfg : Cfg) (ops : List Op) (e : Nat) (he : e < (reach cfg ops).next) :
    let s := reach cfg ops
    (Cached s e ∨ HandedOut s e ∨ ClosedByPool s e ∨ DroppedClosed s e ∨ CallbackOwned s e) ∧
    ¬ (Cached s e ∧ HandedOut s e) ∧ ¬ (Cached s e ∧ ClosedByPool s e) ∧ ¬ (Cached s e ∧ DroppedClosed s e) ∧
    ¬ (Cached s e ∧ CallbackOwned s e) ∧ ¬ (HandedOut s e ∧ ClosedByPool s e) ∧
    ¬ (HandedOut s e ∧ DroppedClosed s e) ∧ ¬ (HandedOut s e ∧ CallbackOwned s e) ∧
    ¬ (ClosedByPool s e ∧ DroppedClosed s e) ∧ ¬ (ClosedByPool s e ∧ CallbackOwned s e) ∧
    ¬ (DroppedClosed s e ∧ CallbackOwned s e) := by
  intro s
  have ho : Owned s e := (reach_inv cfg ops).owned e he
  clear_value s
  refine ⟨ho, ?_⟩
  unfold Cached HandedOut ClosedByPool DroppedClosed CallbackOwned CachedW HandedW PoolClosedW DroppedW CallbackW
  refine ⟨?_, ?_, ?_, ?_, ?_, ?_, ?_, ?_, ?_, ?_⟩ <;> intro ⟨h1, h2⟩
  · exact h2.1 h1.1
  · exact h2.1 h1.1
  · exact h2.1 h1.1
  · rcases h1.2.1 with h | h <;> rcases h2.1 with g | g | g <;> simp_all
  · have := h1.2.2.2.1; rw [h2.2.2.2.1] at this; cases this
  · have := h1.2.2.1; rw [h2.2.2.1] at this; cases this
  · have := h1.2.2.1; rw [h2.2.1] at this; cases this
  · have := h1.2.2.2.1; rw [h2.2.2.2.1] at this; cases this
  · have := h1.2.2.2.1; rw [h2.2.2.1] at this; cases this
  · have := h1.2.2.2.2.1; rw [h2.2.2.2] at this; cases this

/-- Never both handed out and closed by the pool: an entry that `Take` returned was not closed by
    `closeEntry`, and no expiry callback has closed or will close it (its timer was absent or
    stopped in time). -/
theorem never_handed_out_and_closed (cfg : Cfg) (ops : List Op) (e : Nat) (he : e < (reach cfg ops).next)
    (h : ((reach cfg ops).ents e).handed = true) :
    ((reach cfg ops).ents e).poolClosed = false ∧
    (((reach cfg ops).ents e).exp = .none ∨ ((reach cfg ops).ents e).exp = .stopped) ∧
    e ∉ (reach cfg ops).order.items := by
  have ho := (reach_inv cfg ops).owned e he
  unfold Owned OwnedW CachedW HandedW PoolClosedW DroppedW CallbackW at ho
  rcases ho with g | g | g | g | g
  · rw [g.2.2.1] at h; cases h
  · exact ⟨g.2.2.2.1, g.2.1, g.1⟩
  · rw [g.2.2.1] at h; cases h
  · rw [g.2.2.1] at h; cases h
  · rw [g.2.1] at h; cases h

/-- At quiescence — no callback between firing and completion — every entry is cached, handed out,
    or its connection is closed (never neither). -/
theorem ownership_at_quiescence (cfg : Cfg) (ops : List Op)
    (hq : ∀ e, e < (reach cfg ops).next → ((reach cfg ops).ents e).exp ≠ .fired)
    (e : Nat) (he : e < (reach cfg ops).next) :
    let s := reach cfg ops
    Cached s e ∨ HandedOut s e ∨ (s.conns (s.ents e).val).closed = true := by
  intro s
  have ho : Owned s e := (reach_inv cfg ops).owned e he
  have hq' : (s.ents e).exp ≠ .fired := hq e he
  clear_value s
  unfold Owned OwnedW at ho
  rcases ho with g | g | g | g | g
  · exact .inl g
  · exact .inr (.inl g)
  · exact .inr (.inr g.2.2.2.2.2)
  · exact .inr (.inr g.2.2.2.2.2)
  · rcases g.1 with g1 | g1 | g1
    · exact absurd g1 hq'
    · exact .inr (.inr g1.2)
    · exact .inr (.inr g1.2.2)

/-- After `Close`, once the pending callbacks have run, nothing is cached: every connection that was
    put is handed out xor closed. -/
theorem closed_pool_owns_nothing (cfg : Cfg) (ops : List Op)
    (hq : ∀ e, e < (reach cfg (ops ++ [.close])).next → ((reach cfg (ops ++ [.close])).ents e).exp ≠ .fired)
    (e : Nat) (he : e < (reach cfg (ops ++ [.close])).next) :
    let s := reach cfg (ops ++ [.close])
    (HandedOut s e ∧ (s.ents e).poolClosed = false) ∨
    ((s.ents e).handed = false ∧ (s.conns (s.ents e).val).closed = true) := by
  intro s
  have hempty : s.order.items = [] := by
    show (run cfg init (ops ++ [.close])).order.items = []
    have : ∀ (ops : List Op) (s0 : State), (run cfg s0 (ops ++ [.close])).order.items = [] := by
      intro ops
      induction ops with
      | nil => intro s0; rfl
      | cons o os ih => intro s0; exact ih _
    exact this ops init
  have ho : Owned s e := (reach_inv cfg (ops ++ [.close])).owned e he
  have hq' : (s.ents e).exp ≠ .fired := hq e he
  clear_value s
  unfold Owned OwnedW at ho
  rcases ho with g | g | g | g | g
  · have := g.1; rw [hempty] at this; cases this
  · exact .inl ⟨g, g.2.2.2.1⟩
  · exact .inr ⟨g.2.2.1, g.2.2.2.2.2⟩
  · exact .inr ⟨g.2.2.1, g.2.2.2.2.2⟩
  · rcases g.1 with g1 | g1 | g1
    · exact absurd g1 hq'
    · exact .inr ⟨g.2.1, g1.2⟩
    · exact .inr ⟨g.2.1, g1.2.2⟩

/-! ### connection-level ownership, for callers that follow the Take/Put protocol

`State.held v` (ghost) says that the callers hold connection `v`: it was never put, or `Take`
returned it after its last `Put`.  `State.proper` (ghost) says that so far every `Put` was of a
connection its caller held — the protocol of `poolConn.Invoke` / `NewStream`, which put only what
`Take` or `dial` gave them. -/

/-- A connection the callers hold is out of the pool's reach: no entry for it is linked (so no
    eviction and no `Close` will close it) and none has a fired timer whose callback has yet to close
    it.  Hence a connection is never both handed out and about to be closed by the pool. -/
theorem held_connection_out_of_reach (cfg : Cfg) (ops : List Op) (hp : (reach cfg ops).proper = true)
    (v : Nat) (hv : (reach cfg ops).held v = true) (e : Nat) (he : e < (reach cfg ops).next)
    (hev : ((reach cfg ops).ents e).val = v) :
    e ∉ (reach cfg ops).order.items ∧ ((reach cfg ops).ents e).exp ≠ .fired := by
  have K := (reach_inv cfg ops).conn hp
  have := K.heldFree e he (by rw [hev]; exact hv)
  unfold Live at this
  exact ⟨fun h => this (.inl h), fun h => this (.inr h)⟩

/-- For such callers the pool has at most one live entry (cached, or fired and not yet closed) per
    connection: a connection is never cached twice. -/
theorem one_live_entry_per_connection (cfg : Cfg) (ops : List Op) (hp : (reach cfg ops).proper = true)
    (e1 e2 : Nat) (h1 : e1 < (reach cfg ops).next) (h2 : e2 < (reach cfg ops).next)
    (hv : ((reach cfg ops).ents e1).val = ((reach cfg ops).ents e2).val)
    (l1 : Live (reach cfg ops) e1) (l2 : Live (reach cfg ops) e2) : e1 = e2 :=
  ((reach_inv cfg ops).conn hp).unique e1 e2 h1 h2 hv l1 l2

/-- `Take` gives the callers a connection they did not hold (exactly one caller holds it afterwards) -/
theorem take_returns_unheld (cfg : Cfg) (ops : List Op) (hp : (reach cfg ops).proper = true) (k e v : Nat)
    (h : (step cfg (reach cfg ops) (.take k)).2 = .taken e v) : (reach cfg ops).held v = false := by
  have hs := take_sound cfg ops k e v h
  obtain ⟨hv, _, hlk, _⟩ := hs
  have hlt := (reach_inv cfg ops).struct.lt_of_mem hlk
  cases hh : (reach cfg ops).held v with
  | false => rfl
  | true =>
    exact absurd hlk (held_connection_out_of_reach cfg ops hp v hh e hlt hv.symm).1

/-- non-vacuity: a protocol-following run in which a caller holds a connection taken from the pool -/
example : (reach ⟨1, 0, true⟩ [.put 0 0, .put 0 1, .take 0]).proper = true ∧
          (reach ⟨1, 0, true⟩ [.put 0 0, .put 0 1, .take 0]).held 1 = true ∧
          (reach ⟨1, 0, true⟩ [.put 0 0, .put 0 1, .take 0]).held 0 = false := by decide

/-- … and a run that breaks the protocol (the same connection put twice) is recognised as such -/
example : (reach ⟨0, 0, false⟩ [.put 0 0, .put 0 0]).proper = false := by decide

/-! ### remove_idempotent -/

/-- Unlinking is idempotent (the `removed` guard of `list.removeEntry`), in every state. -/
theorem remove_idempotent (s : State) (k e : Nat) : unlink (unlink s k e) k e = unlink s k e := by
  have hL : ∀ (t : State), (t.ents e).lRemoved = true → removeLocal t k e = t := by
    intro t h; unfold removeLocal; split
    · rfl
    · simp [h]
  have hG : ∀ (t : State), (t.ents e).gRemoved = true → removeGlobal t e = t := by
    intro t h; unfold removeGlobal; simp [h]
  have hG' : ∀ (t : State), ((removeGlobal t e).ents e).gRemoved = true := by
    intro t; unfold removeGlobal; split
    · next h => exact h
    · simp
  have hGl : ∀ (t : State), ((removeGlobal t e).ents e).lRemoved = (t.ents e).lRemoved := by
    intro t; unfold removeGlobal; split
    · rfl
    · simp
  by_cases hloc : ∃ l, s.locals k = some l
  · have hL' : ((removeLocal s k e).ents e).lRemoved = true := by
      obtain ⟨l, hl⟩ := hloc
      unfold removeLocal; simp only [hl]; split
      · next h => exact h
      · simp
    unfold unlink
    rw [hL (removeGlobal (removeLocal s k e) e) (by rw [hGl]; exact hL'), hG _ (hG' _)]
  · -- no list registered under k: the per-key half does nothing, both times
    have hnone : s.locals k = none := by
      cases h : s.locals k with
      | none => rfl
      | some l => exact absurd ⟨l, h⟩ hloc
    have h1 : ∀ (t : State), t.locals k = none → removeLocal t k e = t := by
      intro t h; unfold removeLocal; simp [h]
    have h2 : (removeGlobal s e).locals k = none := by
      unfold removeGlobal; split <;> exact hnone
    unfold unlink
    rw [h1 s hnone, h1 _ h2, hG _ (hG' _)]

/-- The expiry callback's `p.removeEntry` on an entry that `Take`, an eviction or `Close` already
    unlinked changes no list and no count (it may only drop an empty per-key list from the map). -/
theorem remove_after_unlink_harmless (cfg : Cfg) (ops : List Op) (e : Nat)
    (he : e < (reach cfg ops).next) (hu : e ∉ (reach cfg ops).order.items) :
    let s := reach cfg ops
    (poolRemove s e).order = s.order ∧ (poolRemove s e).ents = s.ents ∧
    ∀ k, (poolRemove s e).locals k = s.locals k ∨
         (∃ l, s.locals k = some l ∧ l.items = [] ∧ l.count = 0 ∧ (poolRemove s e).locals k = none) := by
  intro s
  have hi : Inv cfg s := reach_inv cfg ops
  have hun := unlink_unlinked hi.struct he hu ((s.ents e).key)
  clear_value s
  unfold poolRemove
  dsimp only
  cases hl : s.locals (s.ents e).key with
  | none => exact ⟨rfl, rfl, fun _ => .inl rfl⟩
  | some l =>
    simp only [hun, hl]
    split
    · next h0 =>
      refine ⟨rfl, rfl, fun k => ?_⟩
      by_cases hk : k = (s.ents e).key
      · subst hk
        refine .inr ⟨l, hl, ?_, h0, by simp⟩
        have := hi.struct.countL _ l hl
        rw [h0] at this
        exact List.length_eq_zero_iff.mp (by omega)
      · exact .inl (by simp [upd_other _ _ hk])
    · exact ⟨rfl, rfl, fun _ => .inl rfl⟩

/-- Why the guard matters: without it a second removal takes the count below the length — the
    pre-fix behaviour (cached 2 with Capacity 1). -/
theorem unguarded_double_remove_breaks_count :
    ((({ items := [7], count := 1 } : KList).remove 7).remove 7).count ≠
    ((({ items := [7], count := 1 } : KList).remove 7).remove 7).items.length := by decide

/-! ### no_panic -/

/-- No operation of any run dereferences a nil `head` / list pointer (the checked dereferences of the
    eviction loops always succeed) and the loops terminate within the model's fuel. -/
theorem no_panic (cfg : Cfg) (ops : List Op) :
    ∀ o, o ∈ outs cfg init ops → o ≠ .panic ∧ o ≠ .stuck := by
  have key : ∀ (ops : List Op) (s : State), Inv cfg s → ∀ o, o ∈ outs cfg s ops → o ≠ .panic ∧ o ≠ .stuck := by
    intro ops
    induction ops with
    | nil => intro s _ o h; cases h
    | cons op ops ih =>
      intro s hi o h
      simp only [outs, List.mem_cons] at h
      rcases h with h | h
      · subst h; exact (inv_step hi op).2
      · exact ih _ (inv_step hi op).1 o h
  exact key ops init (inv_init cfg)

/-- the eviction loops themselves: in a reachable state with non-negative capacities, whenever a loop
    condition holds the head it dereferences exists -/
theorem eviction_heads_exist (cfg : Cfg) (ops : List Op) :
    let s := reach cfg ops
    (cfg.capacity > 0 → s.order.count ≥ cfg.capacity → ∃ e, s.order.items.head? = some e ∧
        ∃ l, s.locals (s.ents e).key = some l) ∧
    (cfg.keyCapacity > 0 → ∀ k l, s.locals k = some l → l.count ≥ cfg.keyCapacity →
        ∃ e, l.items.head? = some e) := by
  intro s
  have hi : Inv cfg s := reach_inv cfg ops
  clear_value s
  constructor
  · intro hc hge
    have := hi.struct.countG
    obtain ⟨e, h1, h2⟩ := head?_of_pos (l := s.order.items) (by omega)
    obtain ⟨_, _, _, l, hl, _⟩ := hi.struct.gl e h2
    exact ⟨e, h1, l, hl⟩
  · intro hc k l hl hge
    have := hi.struct.countL k l hl
    obtain ⟨e, h1, _⟩ := head?_of_pos (l := l.items) (by omega)
    exact ⟨e, h1⟩

end Drpc.Props.C15
