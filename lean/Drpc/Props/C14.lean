import Drpc.Lemmas.HttpServe
/-
  C14 — HTTP gateway maps RPC outcomes to responses faithfully (and the http entry points of C13:
  header, body and error-code handling never panic and allocate within the limit).
  Property theorems only.  The models (`Drpc/Http/*.lean`) follow drpchttp as repaired by the three
  `fix:` commits recorded in known_findings.json; the panic preconditions those commits guard
  (Builder.Grow with a negative count, MethodByName on a nil error) and the old LimitReader bound
  stay expressible in the model, and the `…_needed` / `…_old_…` theorems show the unrepaired
  variants fail exactly there.
-/
namespace Drpc.Props.C14
open Drpc Drpc.Http

/-! ## request metadata headers -/

/-- `unescape` equals the RFC 3986 §2.1 reference percent-decoder on every byte string, including
    which of the two errors a malformed string gets. -/
theorem unescape_agrees_reference (s : Bytes) : unescape s = PercentRef.decode s :=
  unescape_eq_decode s

/-- No header string makes `unescape` panic: the `n > 0` guard discharges the `Grow` precondition
    and the `i+2 >= len` check discharges the three index operations. -/
theorem unescape_total (s : Bytes) : unescape s ≠ .panic := unescape_ne_panic s

/-- The guard has content: without it (the code before commit 5275520) the header `%%` panics. -/
theorem unescape_grow_guard_needed : unescapeG false [pct, pct] = .panic := by decide

/-- What `unescape` allocates up front and what it returns are bounded by the header length. -/
theorem unescape_alloc_bound (s t : Bytes) :
    unescapeGrow s ≤ s.length ∧ (unescape s = .ok t → t.length ≤ s.length) := by
  refine ⟨by unfold unescapeGrow; omega, fun h => ?_⟩
  rw [unescape_eq_decode] at h
  exact decode_len s t h

/-- An entry `escape(key) "=" escape(value)` decodes to exactly (key, value), for every escaper that
    percent-encodes at least '%' and '=' (any further octets, upper- or lower-case hex digits). -/
theorem metadata_header_decodes (p : Byte → Bool) (hp1 : p pct = true) (hp2 : p eqs = true) (upper : Bool)
    (key value : Bytes) :
    buildEntry (escapeWith p upper key ++ eqs :: escapeWith p upper value) = .ok key value :=
  buildEntry_escape p hp1 hp2 upper key value

/-- … for the escape-everything encoder -/
theorem metadata_header_decodes_all (key value : Bytes) :
    buildEntry (escapeAll key ++ eqs :: escapeAll value) = .ok key value :=
  buildEntry_escape _ rfl rfl true key value

/-- … and for the minimal one the package documentation allows ("only '%' and '='") -/
theorem metadata_header_decodes_min (key value : Bytes) :
    buildEntry (escapeMin key ++ eqs :: escapeMin value) = .ok key value :=
  buildEntry_escape _ (by decide) (by decide) true key value

example : buildEntry (escapeMin (asc "k=%") ++ eqs :: escapeMin (asc "a=b%c")) = .ok (asc "k=%") (asc "a=b%c") :=
  metadata_header_decodes_min _ _

/-- No list of header values makes `buildContext` panic. -/
theorem buildContext_total (entries : List Bytes) : buildContext entries ≠ .panic :=
  buildContext_ne_panic entries

/-! ## error codes -/

/-- `getCode` never panics, for any error value including ones whose `Unwrap()` returns nil. -/
theorem getCode_total (e : Option Err) : getCode e ≠ .panic := getCode_ne_panic e

/-- The `err != nil` loop guard has content: without it (before commit f0c3efe) an error whose
    `Unwrap()` returns nil panics in `MethodByName`. -/
theorem getCode_guard_needed (msg : Bytes) : getCodeG false (some ⟨[], .nilWrap, msg⟩) = .panic :=
  getCode_unguarded_panics msg

/-- The code string is the result of the first `Code() string` method found within 100 unwrap
    steps, else `drpcerr(N)` for a non-zero drpc code, else `unknown`. -/
theorem getCode_closed_form (e : Err) :
    getCode (some e) = .ok (((e.chain.take 100).findSome? twirpStr).getD
      (if drpcCode (some e) ≠ 0#64 then asc "drpcerr(" ++ toDec (drpcCode (some e)).toNat ++ asc ")" else asc "unknown")) := by
  simp [getCode, getCodeG, curOf, Err.cur, getCodeLoop_spec, defaultCode]

/-- `drpcerr.Code` is the first `Code() uint64` within 100 unwrap steps, else 0. -/
theorem drpcCode_closed_form (e : Err) :
    drpcCode (some e) = ((e.chain.take 100).findSome? codedVal).getD 0#64 := by
  simp [drpcCode, curOf, Err.cur, drpcCodeLoop_spec]

/-! ## protocol choice -/

/-- Every content type selects a protocol (the table has a "*" entry). -/
theorem select_total (ct : String) : (select ct).isSome = true := select_isSome ct

/-- The protocol is the table entry of exactly this content type if there is one, otherwise the
    Twirp/proto fallback. -/
theorem select_exact_or_fallback (ct : String) (p : Proto) (h : select ct = some p) :
    (ct, p) ∈ protocols ∨ ((∀ kv ∈ protocols, kv.1 ≠ ct) ∧ p = ⟨.twirp, "application/proto", false, false⟩) := by
  unfold select selectIn at h
  cases hl : lookup ct protocols with
  | some q =>
    rw [hl] at h; cases h
    exact Or.inl (lookup_mem _ _ _ hl)
  | none =>
    rw [hl] at h
    refine Or.inr ⟨lookup_none _ _ hl, ?_⟩
    have : lookup "*" protocols = some ⟨.twirp, "application/proto", false, false⟩ := by decide
    rw [this] at h; cases h; rfl

/-- Every table entry is selected by its own key, and the six real content types answer with the
    same content type. -/
theorem select_exact : ∀ kv ∈ protocols, select kv.1 = some kv.2 ∧ (kv.1 ≠ "*" → kv.2.ct = kv.1) := by decide

/-! ## grpc-web responses -/

/-- Binary grpc-web: the response body is the concatenation of one frame (flag 0) per accepted
    message, in order, followed by the trailer frame (flag 0x80); the reference frame parser recovers
    exactly those messages and the trailer block.  Messages of `maxSize` bytes or more are never
    written (`accepted`). -/
theorem grpcweb_body (p : Proto) (hk : p.kind = .grpcWeb) (hb : p.text = false) (stop : Bool)
    (msgs : List Bytes) (result : Option Err)
    (hlen : (trailerOf (gwFinal p stop msgs result)).length < 4294967296) :
    ∃ body, (serveSends p stop msgs result).1 = some ⟨200, p.ct, .raw body⟩ ∧
      body = ((accepted p stop msgs).map (fun m => frame 0#8 (marshal p.json m))).flatten ++
               frame 128#8 (trailerOf (gwFinal p stop msgs result)) ∧
      GrpcWebRef.parse body =
        some ((accepted p stop msgs).map (fun m => (0#8, marshal p.json m)) ++
              [(128#8, trailerOf (gwFinal p stop msgs result))]) := by
  refine ⟨_, serveSends_grpcweb p hk stop msgs result, ?_, ?_⟩
  · simp [gwWrites, hb, writeOut, msgFrame, List.map_append, List.flatten_append, Function.comp_def]
  · have hw : ((gwWrites p stop msgs result).map (writeOut p.text)).flatten =
        (((accepted p stop msgs).map (fun m => (0#8, marshal p.json m)) ++
          [(128#8, trailerOf (gwFinal p stop msgs result))]).map (fun fr => frame fr.1 fr.2)).flatten := by
      simp [gwWrites, hb, writeOut, msgFrame, List.map_append, List.flatten_append, Function.comp_def]
    rw [hw]
    apply parse_frames
    intro fr hfr
    rcases List.mem_append.1 hfr with h | h
    · obtain ⟨m, hm, rfl⟩ := List.mem_map.1 h
      have := accepted_fits p stop msgs m hm
      have h2 : maxSize ≤ 4294967296 := by decide
      simp only; omega
    · simp at h; subst h; exact hlen

/-- Text grpc-web: every write is base64-encoded on its own; decoding the body group by group
    yields exactly the concatenation of the binary writes (the body the same exchange has under the
    corresponding binary protocol). -/
theorem grpcweb_text_decodes (p : Proto) (hk : p.kind = .grpcWeb) (ht : p.text = true) (stop : Bool)
    (msgs : List Bytes) (result : Option Err) :
    ∃ text, (serveSends p stop msgs result).1 = some ⟨200, p.ct, .raw text⟩ ∧
      Base64.Ref.decode text = some (gwWrites p stop msgs result).flatten ∧
      (serveSends { p with text := false } stop msgs result).1 =
        some ⟨200, p.ct, .raw (gwWrites p stop msgs result).flatten⟩ := by
  refine ⟨_, serveSends_grpcweb p hk stop msgs result, ?_, ?_⟩
  · simp only [ht, writeOut, if_true]
    exact Base64.decode_writes _
  · have hf : fits { p with text := false } = fits p := by funext m; simp [fits]
    have hm : msgFrame { p with text := false } = msgFrame p := by funext m; simp [msgFrame]
    have hw : gwWrites { p with text := false } stop msgs result = gwWrites p stop msgs result := by
      simp [gwWrites, accepted, gwFinal, hf, hm]
    have hid : writeOut false = id := by funext c; simp [writeOut]
    have := serveSends_grpcweb { p with text := false } hk stop msgs result
    rw [this, hw]
    simp [hid]

/-- The written trailer block consists of exactly one CRLF-terminated line per key — even for a
    parser that also accepts a bare CR or a bare LF as a line end — no value contains CR or LF, and
    parsing it back yields the keys with their sanitised values.  For every error text and code string. -/
theorem trailer_no_injection (e : Option Err) (code : Bytes) :
    GrpcWebRef.lines (trailerBlock (trailerPairs e code)) [] false
        = (trailerPairs e code).map (fun kv => kv.1 ++ (colonSpace ++ sanitize kv.2)) ∧
    (GrpcWebRef.lines (trailerBlock (trailerPairs e code)) [] false).length = (if e.isSome then 3 else 1) ∧
    (∀ v : Bytes, ∀ b ∈ sanitize v, b ≠ bCR ∧ b ≠ bLF) ∧
    GrpcWebRef.parseTrailers (trailerBlock (trailerPairs e code))
        = some ((trailerPairs e code).map (fun kv => (kv.1, sanitize kv.2))) := by
  have hk := trailerPairs_keys e code
  have hl := lines_block (trailerPairs e code) (fun kv h => (hk kv h).1)
  refine ⟨hl, ?_, sanitize_noNL, parseTrailers_block _ hk⟩
  rw [hl]; cases e <;> simp [trailerPairs]

/-- hostile text: a lone CR followed by a forged status line stays inside the grpc-message value -/
example : sanitize (asc " x\rgrpc-status: 0\r\n") = asc "x grpc-status: 0" := by decide

/-- The `grpc-status` trailer a client parses is "0" exactly when the RPC succeeded. -/
theorem grpc_status_nonzero_iff_failed (e : Option Err) (code : Bytes) :
    ∃ v rest, GrpcWebRef.parseTrailers (trailerBlock (trailerPairs e code)) = some ((kStatus, v) :: rest) ∧
      (v = asc "0" ↔ e = none) := by
  refine ⟨statusText e, ((trailerPairs e code).map (fun kv => (kv.1, sanitize kv.2))).tail, ?_, statusText_zero_iff e⟩
  rw [parseTrailers_block _ (trailerPairs_keys e code)]
  simp [trailerPairs, sanitize_statusText]

/-! ## Twirp responses -/

theorem twirp_table_no_200 : ∀ entry ∈ twirpStatus, entry.2 ≠ 200 := table_no_200

/-- `Finish` always produces a reply, with status 200 exactly when the RPC succeeded. -/
theorem twirp_status_200_iff_success (p : Proto) (st : TwirpSt) (e : Option Err) :
    ∃ r, twFinish p st e = some r ∧ (r.status = 200 ↔ e = none) := twFinish_some p st e

/-- On failure the reply is the JSON object {code, msg} with the handler's text, content type
    application/json, and the status of the code's table entry, 500 when there is none. -/
theorem twirp_error_reply (p : Proto) (st : TwirpSt) (err : Err) :
    ∃ code, getCode (some err) = .ok code ∧
      twFinish p st (some err) = some ⟨statusOf code, "application/json", .jsonErr code err.msg⟩ ∧
      (statusOf code = 500 ∨ (code, statusOf code) ∈ twirpStatus) := twFinish_err p st err

example : statusOf (asc "not_found") = 404 ∧ statusOf (asc "teapot") = 500 := by decide

/-- On success the body is the handler's single response: the FIRST message it sent (later sends
    are refused with io.EOF and never overwrite it), or nothing. -/
theorem twirp_body_success (p : Proto) (hk : p.kind = .twirp) (stop : Bool) (msgs : List Bytes)
    (result : Option Err) (r : Reply)
    (h : (serveSends p stop msgs result).1 = some r) (hs : r.status = 200) :
    r.ct = p.ct ∧ r.body = .raw ((msgs.head?.map (marshal p.json)).getD []) := by
  rw [serveSends_twirp p hk] at h
  have hst : (runSends (twSend p.json) stop {} msgs).2.1.response
      = (msgs.head?.map (marshal p.json)).getD [] := by
    cases msgs with
    | nil => exact runSends_tw_nil _ _
    | cons m ms => exact runSends_tw_response _ _ m ms
  have := twFinish_200 _ _ _ _ h hs
  subst this
  exact ⟨rfl, by simp [hst]⟩

/-- In a handler that ignores send errors, the first send is acknowledged and every later one is
    refused with io.EOF. -/
theorem twirp_second_send_refused (p : Proto) (hk : p.kind = .twirp) (m : Bytes) (msgs : List Bytes)
    (result : Option Err) :
    (serveSends p false (m :: msgs) result).2 = SendR.ok :: msgs.map (fun _ => SendR.eof) := by
  unfold serveSends
  simp only [hk]
  have e : twSend p.json {} m = (.ok, { response := marshal p.json m, sendErr := some .eof }) := by
    simp [twSend]
  have := runSends_tw_acks_closed p.json msgs { response := marshal p.json m, sendErr := some .eof } rfl
  simp only [runSends, e]
  rw [← this]

/-! ## size limits -/

/-- Twirp request bodies: a body is either handed over whole (and is within the limit) or rejected;
    never shortened.  For every limit, in particular `maxSize`. -/
theorem oversize_rejected_not_truncated (body : Bytes) :
    (∀ d a, twirpRead body = (.ok d, a) → d = body ∧ body.length ≤ maxSize) ∧
    (body.length > maxSize → (twirpRead body).1 = .tooLarge) ∧
    (twirpRead body).2 ≤ maxSize + 1 :=
  ⟨fun _ _ h => twirpRead_ok h, twirpRead_oversize, twirpRead_alloc maxSize body⟩

/-- The bound of the LimitReader has content: with `LimitReader(r, maxSize)` (before commit
    5ad3838) a body one byte over the limit is accepted without its last byte. -/
theorem twirp_old_reader_truncates (mx : Nat) (body : Bytes) (h : body.length = mx + 1) :
    (twirpReadP mx mx body).1 = .ok (body.take mx) ∧ body.take mx ≠ body :=
  twirpRead_old_truncates h

/-- grpc-web request frames: a returned message is exactly the declared number of bytes following
    the header, within the limit. -/
theorem grpc_read_exact (r d : Bytes) (a : Nat) (h : grpcRead r = (.ok d, a)) :
    ∃ f x y z w rest, r = f :: x :: y :: z :: w :: rest ∧ u32 x y z w = d.length ∧
      d = rest.take d.length ∧ d.length ≤ rest.length ∧ d.length ≤ maxSize :=
  let ⟨f, x, y, z, w, rest, h1, h2, h3, h4, h5, _⟩ := grpcRead_ok h
  ⟨f, x, y, z, w, rest, h1, h2, h3, h4, h5⟩

/-- `grpcRead` never allocates more than 5 + maxSize bytes, and a declared size over the limit is
    rejected after the 5 header bytes, before the body allocation (whatever follows the header). -/
theorem grpc_alloc_bound (r : Bytes) :
    (grpcRead r).2 ≤ 5 + maxSize ∧
    (∀ f x y z w rest, r = f :: x :: y :: z :: w :: rest → u32 x y z w > maxSize →
      grpcRead r = (.tooLarge, 5)) :=
  ⟨grpcRead_alloc maxSize r, fun f x y z w rest hr h => by subst hr; exact grpcRead_oversize maxSize f x y z w rest h⟩

/-- Response messages of `maxSize` marshalled bytes or more are refused by the grpc-web stream and
    nothing is written for them. -/
theorem grpcweb_response_limit (p : Proto) (m : Bytes) (h : (marshal p.json m).length ≥ maxSize) :
    gwSend p m = (.tooLarge, []) := by
  simp [gwSend, gwSendP, h]

/-! ## the whole exchange -/

/-- `ServeHTTP` with any scripted handler never panics: whatever the content type, the metadata
    headers, the request body and the error value the handler returns. -/
theorem serve_total (req : Request) (s : Script) : serve req s ≠ .panic := serve_ne_panic req s

/-! ## base64 (text mode and the JSON fallback) -/

/-- The reference decoder inverts the encoder. -/
theorem base64_roundtrip (x : Bytes) : Base64.Ref.decode (Base64.encode x) = some x :=
  Base64.decode_encode x

/-- Decoding the concatenation of separately encoded writes yields the concatenation of the writes. -/
theorem base64_per_write (ws : List Bytes) :
    Base64.Ref.decode (ws.map Base64.encode).flatten = some ws.flatten :=
  Base64.decode_writes ws

end Drpc.Props.C14
