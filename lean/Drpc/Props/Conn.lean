import Drpc.Lemmas.Conn
/-
  `drpcconn.Conn.Invoke` and the shared request buffer `c.wbuf` — "a unary call sends its own
  request".  Theorems about every reachable state of the atomic-step model Drpc/Conn/Invoke.lean
  (`Reach cfg s`: any number of concurrent `Invoke` calls, any interleaving, any Marshal outcome, any
  environment: calls starting, the live stream ended asynchronously at any moment, `NewClientStream`
  failing, replies arriving).

  Vocabulary (Drpc/Lemmas/Conn.lean):
    `inCrit p`      `p` is between a `c.mu.Lock()` (acquired) and the matching `c.mu.Unlock()` (not yet
                    executed): `mStart mFinish wMeta wInvoke wMsg closeSend recv (unlock _)` in `Invoke`,
                    `statsUnlock` in `getStats`;
    `marshalled p`  Marshal returned and the message is not yet written: `wMeta wInvoke wMsg`;
    `mine log t`    the (kind, bytes) entries thread `t` put on the wire, in order;
    `tids log`      the thread ids of the wire log, in order;
    `cfg.request t` `[(invokeMetadata, md t) if md t ≠ []] ++ [(invoke, rpc t), (message, req t)]`;
    `cfg.body t`    `cfg.request t ++ [(closeSend, [])]`;
    `NoABA l`       `l = p ++ a :: (q ++ b :: r) → b ≠ a → a ∉ r`;
    `Enabled`, `Stuck`.

  Theorems 1, 2, 5 need `cfg.useMu = true` (the model of the real code), theorem 3 in addition
  `cfg.finishedSilent = true`; 3' and 4 are the counterexamples in the two variants.
-/
namespace Drpc.Props.Conn
open Drpc Drpc.ConnInvoke

/-! ### 1. a call sends its own request -/

/-- every `(t, message, bytes)` packet on the wire carries `t`'s own marshalled request -/
theorem invoke_sends_own_request (cfg : Cfg) (hmu : cfg.useMu = true) (s : St) (h : Reach cfg s)
    (t : Tid) (b : Bytes) (hm : (t, Kind.message, b) ∈ s.sh.log) : b = cfg.req t := by
  obtain ⟨q, c, e, hq, hc⟩ := ((reach_inv hmu h).sent t).shape
  have hm' : (Kind.message, b) ∈ mine s.sh.log t := mem_mine.mpr hm
  rw [e, List.mem_append] at hm'
  rcases hm' with hm' | hm'
  · have := hq.subset hm'
    rw [cfg.body_eq] at this
    simp only [Cfg.metaBlock] at this
    split at this <;> simp at this <;> exact this
  · rcases hc with hc | hc <;> rw [hc] at hm' <;> simp at hm'

/-- what one call puts on the wire: a prefix of `[metadata,] invoke, message, closeSend`, possibly
    followed by the `KindClose` of the deferred `stream.Close()` (a call whose Marshal failed on a
    live stream sends just that `KindClose`) -/
theorem call_writes_prefix_of_its_block (cfg : Cfg) (hmu : cfg.useMu = true) (s : St) (h : Reach cfg s)
    (t : Tid) :
    ∃ q c, mine s.sh.log t = q ++ c ∧ q <+: cfg.body t ∧ (c = [] ∨ c = [(Kind.close, [])]) :=
  ((reach_inv hmu h).sent t).shape

/-- a call that returned without error (doInvoke returned nil) had put its whole request on the wire -/
theorem successful_call_sent_whole_request (cfg : Cfg) (hmu : cfg.useMu = true) (s : St) (h : Reach cfg s)
    (t : Tid) (hd : s.pc t = .done true) : cfg.request t <+: mine s.sh.log t := by
  have := (reach_inv hmu h).sent t
  rw [hd] at this
  obtain ⟨q, c, e, _, _, hr⟩ := this
  rw [e]
  exact (hr rfl).trans (List.prefix_append _ _)

/-! ### 2. the buffer is written only under the mutex -/

/-- the positions `inCrit` stands for -/
theorem inCrit_iff (p : PC) : inCrit p = true ↔
    (p = .statsUnlock ∨ p = .mStart ∨ p = .mFinish ∨ p = .wMeta ∨ p = .wInvoke ∨ p = .wMsg ∨ p = .closeSend ∨ p = .recv ∨
      ∃ ok, p = .unlock ok) := by
  cases p <;> simp [inCrit]

/-- a thread is between its Lock and its Unlock exactly when it is the holder; so at most one
    thread is; between Marshal and the message write the buffer holds the caller's request -/
theorem buffer_written_only_under_mu (cfg : Cfg) (hmu : cfg.useMu = true) (s : St) (h : Reach cfg s) :
    (∀ t, inCrit (s.pc t) = true ↔ s.sh.mu = some t) ∧
    (∀ t u, inCrit (s.pc t) = true → inCrit (s.pc u) = true → t = u) ∧
    (∀ t, marshalled (s.pc t) = true → s.sh.wbuf = cfg.req t) := by
  have hi := reach_inv hmu h
  refine ⟨fun t => ⟨hi.crit t, hi.holder t⟩, ?_, hi.buf⟩
  intro t u ht hu
  have := hi.crit t ht
  rw [hi.crit u hu] at this
  exact (Option.some.inj this).symm

/-- `c.wbuf` changes only in a step of the thread that holds `c.mu` (before and after the step): the
    two Marshal steps -/
theorem buffer_changes_only_in_steps_of_holder (cfg : Cfg) (hmu : cfg.useMu = true) (s s' : St)
    (t ch : Nat) (h : Reach cfg s) (hs : step cfg s t ch = some s') (hne : s'.sh.wbuf ≠ s.sh.wbuf) :
    s.sh.mu = some t ∧ s'.sh.mu = some t ∧ (s.pc t = .mStart ∨ s.pc t = .mFinish) := by
  have hi := reach_inv hmu h
  have hi' := reach_inv hmu (Reach.step t ch h hs)
  rcases step_wbuf_changes hs hne with ⟨a, b⟩ | ⟨a, b⟩
  · exact ⟨hi.crit t (by rw [a]; rfl), hi'.crit t (by rw [b]; rfl), Or.inl a⟩
  · exact ⟨hi.crit t (by rw [a]; rfl), hi'.crit t (by rcases b with b | b <;> rw [b] <;> rfl), Or.inr a⟩

/-- the environment (cancellation, async close, replies, new calls) never touches buffer or mutex -/
theorem env_keeps_buffer (s s' : St) (e : Env) (hs : envStep s e = some s') :
    s'.sh.wbuf = s.sh.wbuf ∧ s'.sh.mu = s.sh.mu ∧ s'.sh.log = s.sh.log :=
  ⟨(env_frame hs).2.1, (env_frame hs).1, (env_frame hs).2.2.1⟩

/-! ### 3. the wire is a sequence of calls -/

/-- Hypothesis about the manager and the stream (`cfg.finishedSilent`): a stream that is no longer
    the manager's live stream never writes — `NewClientStream` returns only once the previous stream
    is Finished (terminated, no write in flight: `waitForPreviousStream`) and a terminated stream's
    `RawWrite` / `CloseSend` / `Close` put nothing on the transport.  Then the calls' packets are
    never interleaved: once a later call `b` has written, an earlier call `a` never writes again.
    With `call_writes_prefix_of_its_block`: the wire log is a concatenation of per-call blocks, each
    possibly cut short by an asynchronous close. -/
theorem wire_is_sequence_of_calls (cfg : Cfg) (hmu : cfg.useMu = true) (hf : cfg.finishedSilent = true)
    (s : St) (h : Reach cfg s) :
    ∀ p q r a b, tids s.sh.log = p ++ a :: (q ++ b :: r) → b ≠ a → a ∉ r :=
  (reach_inv hmu h).noaba hf

/-- the same, literally: the wire log is the concatenation, over distinct calls in some order, of
    what each call wrote — and that is a block `[metadata,] invoke, message, closeSend` possibly cut
    short, possibly followed by the `KindClose` of the deferred `stream.Close()` -/
theorem wire_is_concatenation_of_call_blocks (cfg : Cfg) (hmu : cfg.useMu = true)
    (hf : cfg.finishedSilent = true) (s : St) (h : Reach cfg s) :
    ∃ order : List Tid, order.Nodup ∧
      s.sh.log = order.flatMap (fun t => (mine s.sh.log t).map (fun e => (t, e))) ∧
      ∀ t ∈ order, ∃ q c, mine s.sh.log t = q ++ c ∧ q <+: cfg.body t ∧ (c = [] ∨ c = [(Kind.close, [])]) := by
  obtain ⟨order, hnd, _, hflat⟩ := blocks_of_noABA s.sh.log.length s.sh.log (Nat.le_refl _)
    ((reach_inv hmu h).noaba hf)
  simp only [filter_eq_mine] at hflat
  exact ⟨order, hnd, hflat, fun t _ => call_writes_prefix_of_its_block cfg hmu s h t⟩

/-- only the owner of the live stream writes, and everything after its first packet is its own -/
theorem live_stream_owner_writes_last (cfg : Cfg) (hmu : cfg.useMu = true) (hf : cfg.finishedSilent = true)
    (s : St) (h : Reach cfg s) (t : Tid) (hl : s.sh.live = some t) :
    hasStream (s.pc t) = true ∧ ∀ p q, tids s.sh.log = p ++ t :: q → ∀ x ∈ q, x = t :=
  ⟨(reach_inv hmu h).owner t hl, (reach_inv hmu h).tail hf t hl⟩

/-! ### 5. progress: no deadlock between `c.mu` and the stream semaphore -/

/-- a stuck state with a live stream: its owner holds the mutex and waits in `MsgRecv` for the
    reply (or for the stream to be ended); every other thread has not started, has returned, or
    waits in `NewClientStream` (for the semaphore, or — its own stream already ended — for the mutex
    in `getStats`) or in `c.mu.Lock()` -/
theorem stuck_only_waiting_for_reply (cfg : Cfg) (hmu : cfg.useMu = true) (s : St) (h : Reach cfg s)
    (hst : Stuck cfg s) (t : Tid) (hl : s.sh.live = some t) :
    s.pc t = .recv ∧ s.sh.mu = some t ∧
    ∀ u, u ≠ t → (s.pc u = .idle ∨ (∃ ok, s.pc u = .done ok) ∨ s.pc u = .newStream ∨ s.pc u = .statsLock ∨
      s.pc u = .lock) := by
  have hi := reach_inv hmu h
  have en : ∀ u, (step cfg s u 0).isSome = true → False := fun u hu => hst u ⟨0, hu⟩
  -- the holder, if any, is `t`
  have hh : ∀ u, s.sh.mu = some u → u = t := by
    intro u hu
    by_cases hut : u = t
    · exact hut
    · exact (en u (crit_enabled cfg s u (hi.holder u hu) (by rw [hl]; simpa using fun e => hut e.symm))).elim
  have ht : s.pc t = .recv := by
    have ho := hi.owner t hl
    cases hp : s.pc t with
    | recv => rfl
    | idle | done ok | newStream | encMeta => rw [hp] at ho; simp [hasStream] at ho
    | lock | statsLock =>
      exfalso
      cases hm : s.sh.mu with
      | none =>
        apply en t
        simp only [step, stepPC, hp, hmu]
        repeat' split
        all_goals simp_all
      | some u =>
        have := hh u hm; subst this
        have := hi.holder u hm; rw [hp] at this; simp [inCrit] at this
    | statsUnlock | mStart | mFinish | wMeta | wInvoke | wMsg | closeSend | unlock ok | close ok =>
      exact (en t (enabled_of_not_blocking cfg s t (by rw [hp]; rfl))).elim
  have hm : s.sh.mu = some t := hi.crit t (by rw [ht]; rfl)
  refine ⟨ht, hm, ?_⟩
  intro u hut
  cases hp : s.pc u with
  | idle => exact Or.inl rfl
  | done ok => exact Or.inr (Or.inl ⟨ok, rfl⟩)
  | newStream => exact Or.inr (Or.inr (Or.inl rfl))
  | statsLock => exact Or.inr (Or.inr (Or.inr (Or.inl rfl)))
  | lock => exact Or.inr (Or.inr (Or.inr (Or.inr rfl)))
  | encMeta | close ok => exact (en u (enabled_of_not_blocking cfg s u (by rw [hp]; rfl))).elim
  | statsUnlock | mStart | mFinish | wMeta | wInvoke | wMsg | closeSend | recv | unlock ok =>
    have := hi.crit u (by rw [hp]; rfl)
    rw [hm] at this; exact absurd (Option.some.inj this).symm hut

/-- no deadlock: in a stuck state with no live stream every started call has returned — nobody is
    left waiting for the mutex or the semaphore (the remaining stuck states are the real wait of
    `stuck_only_waiting_for_reply`) -/
theorem no_deadlock (cfg : Cfg) (hmu : cfg.useMu = true) (s : St) (h : Reach cfg s) (hst : Stuck cfg s)
    (hl : s.sh.live = none) : s.sh.mu = none ∧ ∀ t, s.pc t = .idle ∨ ∃ ok, s.pc t = .done ok := by
  have hi := reach_inv hmu h
  have en : ∀ u, (step cfg s u 0).isSome = true → False := fun u hu => hst u ⟨0, hu⟩
  have hm : s.sh.mu = none := by
    cases hm : s.sh.mu with
    | none => rfl
    | some u => exact (en u (crit_enabled cfg s u (hi.holder u hm) (by rw [hl]; simp))).elim
  refine ⟨hm, ?_⟩
  intro t
  cases hp : s.pc t with
  | idle => exact Or.inl rfl
  | done ok => exact Or.inr ⟨ok, rfl⟩
  | newStream => exact (en t (by simp [step, stepPC, hp, hl])).elim
  | lock | statsLock =>
    refine (en t ?_).elim
    simp only [step, stepPC, hp, hmu]
    repeat' split
    all_goals simp_all
  | encMeta | close ok => exact (en t (enabled_of_not_blocking cfg s t (by rw [hp]; rfl))).elim
  | statsUnlock | mStart | mFinish | wMeta | wInvoke | wMsg | closeSend | recv | unlock ok =>
    exact (en t (crit_enabled cfg s t (by rw [hp]; rfl) (by rw [hl]; simp))).elim

/-- and the wait for the reply is not a lost wake-up: the environment can always end it (reply or
    end of stream), after which the owner can step -/
theorem waiting_call_is_released_by_env (cfg : Cfg) (s : St) (t : Tid) (hp : s.pc t = .recv)
    (hl : s.sh.live = some t) :
    (∃ s', envStep s (.reply t) = some s' ∧ Enabled cfg s' t) ∧
    (∃ s', envStep s .endStream = some s' ∧ Enabled cfg s' t) := by
  refine ⟨⟨s.setPc t (.unlock true), by simp [envStep, hp, hl], 0, ?_⟩,
          ⟨{ s with sh := { s.sh with live := none } }, by simp [envStep, hl], 0, ?_⟩⟩
  · apply enabled_of_not_blocking; simp [St.setPc, blocking]
  · simp [step, stepPC, hp]

/-! ### non-vacuity, and the two counterexamples -/

/-- three callers: rpc names `[0x10+t]`, requests `[0xA0+t, 0xB0+t]`, caller 1 sends metadata -/
def demoCfg : Cfg where
  rpc t := [BitVec.ofNat 8 (0x10 + t)]
  req t := [BitVec.ofNat 8 (0xA0 + t), BitVec.ofNat 8 (0xB0 + t)]
  md t := if t = 1 then [0x77#8] else []

/-- the same with `Options.CollectStats` -/
def statsCfg : Cfg := { demoCfg with collectStats := true }

/-- call 0 runs to completion while call 1 waits in NewClientStream; then call 1 runs; its stream is
    ended by the remote side after the reply, so its deferred Close sends nothing -/
def demo : List Act :=
  [.env (.call 0), .env (.call 1),
   .step 0 0, .step 0 0, .step 0 0, .step 0 0,           -- 0: Encode, NewClientStream (semaphore, getStats)
   .step 1 0,                                            -- 1: Encode (now blocked in NewClientStream)
   .step 0 0, .step 0 0, .step 0 0,                      -- 0: Lock, Marshal
   .step 0 0, .step 0 0, .step 0 0, .step 0 0,           -- 0: (no metadata), invoke, message, CloseSend
   .env (.reply 0), .step 0 0, .step 0 0,                -- 0: reply, Unlock, Close (sends KindClose)
   .step 1 0, .step 1 0, .step 1 0,                      -- 1: NewClientStream (semaphore, getStats)
   .step 1 0, .step 1 0, .step 1 0,                      -- 1: Lock, Marshal
   .step 1 0, .step 1 0, .step 1 0, .step 1 0,           -- 1: metadata, invoke, message, CloseSend
   .env (.reply 1), .step 1 0, .env .endStream, .step 1 0]

example : ∃ s, Reach statsCfg s ∧ s.pc 0 = .done true ∧ s.pc 1 = .done true ∧ s.sh.mu = none ∧
    s.sh.live = none ∧ s.sh.wbuf = statsCfg.req 1 ∧
    s.sh.log =
      [(0, .invoke, [0x10#8]), (0, .message, [0xA0#8, 0xB0#8]), (0, .closeSend, []), (0, .close, []),
       (1, .invokeMetadata, [0x77#8]), (1, .invoke, [0x11#8]), (1, .message, [0xA1#8, 0xB1#8]),
       (1, .closeSend, [])] ∧
    s.sh.log = ((statsCfg.body 0).map (fun e => (0, e)) ++ [(0, .close, [])]) ++
               (statsCfg.body 1).map (fun e => (1, e)) := by
  have hr : (run statsCfg {} demo).isSome = true := by decide
  obtain ⟨s, hs⟩ := Option.isSome_iff_exists.mp hr
  have e : ∀ {α : Type} (f : St → α), (run statsCfg {} demo).map f = some (f s) := fun f => by rw [hs]; rfl
  have hlog : s.sh.log =
      [(0, .invoke, [0x10#8]), (0, .message, [0xA0#8, 0xB0#8]), (0, .closeSend, []), (0, .close, []),
       (1, .invokeMetadata, [0x77#8]), (1, .invoke, [0x11#8]), (1, .message, [0xA1#8, 0xB1#8]),
       (1, .closeSend, [])] := by
    have := e (·.sh.log); exact Option.some.inj (this.symm.trans (by decide))
  refine ⟨s, reach_run demo Reach.init hs, ?_, ?_, ?_, ?_, ?_, hlog, ?_⟩
  · have := e (·.pc 0); exact Option.some.inj (this.symm.trans (by decide))
  · have := e (·.pc 1); exact Option.some.inj (this.symm.trans (by decide))
  · have := e (·.sh.mu); exact Option.some.inj (this.symm.trans (by decide))
  · have := e (·.sh.live); exact Option.some.inj (this.symm.trans (by decide))
  · have := e (·.sh.wbuf); exact Option.some.inj (this.symm.trans (by decide))
  · rw [hlog]; decide

/-- a stuck state with a live stream (the hypothesis `live = none` of `no_deadlock` is necessary):
    call 0 waits for its reply holding the mutex, call 1 waits for the semaphore -/
def demoWaiting : List Act :=
  [.env (.call 0), .env (.call 1), .step 0 0, .step 0 0, .step 0 0, .step 1 0,
   .step 0 0, .step 0 0, .step 0 0, .step 0 0, .step 0 0, .step 0 0, .step 0 0]

example : ∃ s, Reach demoCfg s ∧ s.pc 0 = .recv ∧ s.pc 1 = .newStream ∧ s.sh.mu = some 0 ∧
    s.sh.live = some 0 ∧ (step demoCfg s 0 0).isSome = false ∧ (step demoCfg s 1 0).isSome = false := by
  have hr : (run demoCfg {} demoWaiting).isSome = true := by decide
  obtain ⟨s, hs⟩ := Option.isSome_iff_exists.mp hr
  have e : ∀ {α : Type} (f : St → α), (run demoCfg {} demoWaiting).map f = some (f s) := fun f => by rw [hs]; rfl
  refine ⟨s, reach_run demoWaiting Reach.init hs, ?_, ?_, ?_, ?_, ?_, ?_⟩
  · have := e (·.pc 0); exact Option.some.inj (this.symm.trans (by decide))
  · have := e (·.pc 1); exact Option.some.inj (this.symm.trans (by decide))
  · have := e (·.sh.mu); exact Option.some.inj (this.symm.trans (by decide))
  · have := e (·.sh.live); exact Option.some.inj (this.symm.trans (by decide))
  · have := e (fun s => (step demoCfg s 0 0).isSome); exact Option.some.inj (this.symm.trans (by decide))
  · have := e (fun s => (step demoCfg s 1 0).isSome); exact Option.some.inj (this.symm.trans (by decide))

/-- where the mutex and the semaphore meet a second time (CollectStats): call 0 holds `c.mu`, its
    stream was ended; call 1 got the semaphore and waits for `c.mu` inside `NewClientStream`
    (`getStats`) — not a deadlock: call 0 can run (its writes fail, it unlocks) -/
def demoStatsWait : List Act :=
  [.env (.call 0), .env (.call 1), .step 0 0, .step 0 0, .step 0 0, .step 0 0, .step 0 0,
   .env .endStream, .step 1 0, .step 1 0]

example : ∃ s, Reach statsCfg s ∧ s.pc 0 = .mStart ∧ s.pc 1 = .statsLock ∧ s.sh.mu = some 0 ∧
    s.sh.live = some 1 ∧ (step statsCfg s 1 0).isSome = false ∧ (step statsCfg s 0 0).isSome = true := by
  have hr : (run statsCfg {} demoStatsWait).isSome = true := by decide
  obtain ⟨s, hs⟩ := Option.isSome_iff_exists.mp hr
  have e : ∀ {α : Type} (f : St → α), (run statsCfg {} demoStatsWait).map f = some (f s) := fun f => by rw [hs]; rfl
  refine ⟨s, reach_run demoStatsWait Reach.init hs, ?_, ?_, ?_, ?_, ?_, ?_⟩
  · have := e (·.pc 0); exact Option.some.inj (this.symm.trans (by decide))
  · have := e (·.pc 1); exact Option.some.inj (this.symm.trans (by decide))
  · have := e (·.sh.mu); exact Option.some.inj (this.symm.trans (by decide))
  · have := e (·.sh.live); exact Option.some.inj (this.symm.trans (by decide))
  · have := e (fun s => (step statsCfg s 1 0).isSome); exact Option.some.inj (this.symm.trans (by decide))
  · have := e (fun s => (step statsCfg s 0 0).isSome); exact Option.some.inj (this.symm.trans (by decide))

/-- Marshal fails on a live stream: the deferred `stream.Close()` still sends `KindClose` — the
    call's whole contribution to the wire is a `KindClose` for a stream that was never invoked (this is
    why `call_writes_prefix_of_its_block` has the optional trailing `close` even after an empty prefix) -/
def demoMarshalFails : List Act :=
  [.env (.call 0), .step 0 0, .step 0 0, .step 0 0, .step 0 0, .step 0 0, .step 0 1, .step 0 0, .step 0 0]

example : ∃ s, Reach demoCfg s ∧ s.pc 0 = .done false ∧ s.sh.log = [(0, .close, [])] ∧
    s.sh.mu = none ∧ s.sh.live = none := by
  have hr : (run demoCfg {} demoMarshalFails).isSome = true := by decide
  obtain ⟨s, hs⟩ := Option.isSome_iff_exists.mp hr
  have e : ∀ {α : Type} (f : St → α), (run demoCfg {} demoMarshalFails).map f = some (f s) := fun f => by rw [hs]; rfl
  refine ⟨s, reach_run demoMarshalFails Reach.init hs, ?_, ?_, ?_, ?_⟩
  · have := e (·.pc 0); exact Option.some.inj (this.symm.trans (by decide))
  · have := e (·.sh.log); exact Option.some.inj (this.symm.trans (by decide))
  · have := e (·.sh.mu); exact Option.some.inj (this.symm.trans (by decide))
  · have := e (·.sh.live); exact Option.some.inj (this.symm.trans (by decide))

/-! ### 4. without the mutex a call sends another call's request

  `Invoke` without `c.mu.Lock()` / `Unlock()` — the same effect as marshalling before the lock or
  unlocking before the writes (seeded changes C02-3 / C02-6).  Call 1 gets the stream and is
  cancelled before it marshals; the semaphore is free, call 0 gets the next stream and marshals its
  request into `c.wbuf`; call 1 — still running, its stream dead — marshals its request into the same
  buffer; call 0 writes invoke and then the buffer: call 1's request under call 0's rpc. -/

def noMuCfg : Cfg := { demoCfg with useMu := false }

def raceSchedule : List Act :=
  [.env (.call 0), .env (.call 1),
   .step 1 0, .step 1 0, .step 1 0,                      -- 1: Encode, NewClientStream
   .env .endStream,                                      -- 1's context is cancelled: stream dead, semaphore free
   .step 0 0, .step 0 0, .step 0 0,                      -- 0: Encode, NewClientStream
   .step 0 0, .step 0 0, .step 0 0,                      -- 0: (no Lock), Marshal: wbuf = req 0
   .step 1 0, .step 1 0, .step 1 0,                      -- 1: (no Lock), Marshal: wbuf = req 1
   .step 0 0, .step 0 0, .step 0 0]                      -- 0: (no metadata), invoke, message

theorem without_mutex_call_sends_other_request :
    ∃ s, Reach noMuCfg s ∧ (0, Kind.message, noMuCfg.req 1) ∈ s.sh.log ∧ noMuCfg.req 1 ≠ noMuCfg.req 0 ∧
      s.sh.log = [(0, .invoke, noMuCfg.rpc 0), (0, .message, noMuCfg.req 1)] := by
  have hr : (run noMuCfg {} raceSchedule).isSome = true := by decide
  obtain ⟨s, hs⟩ := Option.isSome_iff_exists.mp hr
  have e : ∀ {α : Type} (f : St → α), (run noMuCfg {} raceSchedule).map f = some (f s) := fun f => by rw [hs]; rfl
  have hlog : s.sh.log = [(0, .invoke, noMuCfg.rpc 0), (0, .message, noMuCfg.req 1)] := by
    have := e (·.sh.log); exact Option.some.inj (this.symm.trans (by decide))
  refine ⟨s, reach_run raceSchedule Reach.init hs, ?_, by decide, hlog⟩
  rw [hlog]; decide

/-- the same schedule with the mutex: call 1 holds no lock yet when call 0 locks, so call 1 blocks
    in `c.mu.Lock()` — the schedule is not executable -/
example : (run demoCfg {} raceSchedule).isSome = false := by decide

/-- so `invoke_sends_own_request` is false without the mutex -/
theorem invoke_sends_own_request_needs_mutex :
    ¬ ∀ (s : St), Reach noMuCfg s → ∀ (t : Tid) (b : Bytes), (t, Kind.message, b) ∈ s.sh.log → b = noMuCfg.req t := by
  intro hall
  obtain ⟨s, hr, hm, hne, _⟩ := without_mutex_call_sends_other_request
  exact hne (hall s hr 0 _ hm)

/-! ### 3'. if finished streams were not silent the calls' packets could interleave

  Variant `finishedSilent := false` (with the mutex).  The mutex covers a call's request packets, but
  the deferred `stream.Close()` runs after the deferred `c.mu.Unlock()`: call 0's stream is ended,
  call 1 gets the next stream and sends its invoke, then call 0's `Close` — were it not a no-op on a
  terminated stream — would write between call 1's packets. -/

def loudCfg : Cfg := { demoCfg with finishedSilent := false }

def abaSchedule : List Act :=
  [.env (.call 0), .env (.call 1),
   .step 0 0, .step 0 0, .step 0 0,                         -- 0: Encode, NewClientStream
   .step 0 0, .step 0 0, .step 0 0,                         -- 0: Lock, Marshal
   .step 0 0, .step 0 0,                                    -- 0: (no metadata), invoke
   .env .endStream,                                         -- 0's stream is ended
   .step 0 0, .step 0 0, .step 0 0, .step 0 0,              -- 0: message, CloseSend, MsgRecv fails, Unlock
   .step 1 0, .step 1 0, .step 1 0,                         -- 1: Encode, NewClientStream
   .step 1 0, .step 1 0, .step 1 0,                         -- 1: Lock, Marshal
   .step 1 0, .step 1 0,                                    -- 1: metadata, invoke
   .step 0 0]                                               -- 0: Close

theorem wire_interleaves_if_finished_streams_write :
    ∃ s, Reach loudCfg s ∧ tids s.sh.log = [0, 0, 0, 1, 1, 0] ∧ ¬ NoABA (tids s.sh.log) := by
  have hr : (run loudCfg {} abaSchedule).isSome = true := by decide
  obtain ⟨s, hs⟩ := Option.isSome_iff_exists.mp hr
  have e : ∀ {α : Type} (f : St → α), (run loudCfg {} abaSchedule).map f = some (f s) := fun f => by rw [hs]; rfl
  have hlog : tids s.sh.log = [0, 0, 0, 1, 1, 0] := by
    have := e (fun s => tids s.sh.log); exact Option.some.inj (this.symm.trans (by decide))
  refine ⟨s, reach_run abaSchedule Reach.init hs, hlog, ?_⟩
  intro hn
  rw [hlog] at hn
  exact hn [] [0, 0] [1, 0] 0 1 rfl (by decide) (by decide)

end Drpc.Props.Conn
