import Drpc.Lemmas.StreamSolo
/-
  C12 — Closing always completes and releases everything.
  Stream-level part: what `Manager.Close` / manager termination does to the active stream
  (`stream.Cancel(err)` after the transport has been closed) and why every operation parked in the
  transport then unwinds and the stream finishes, which is what releases the manager's
  `manageStream` goroutine (`<-m.sfin`).  The manager's own goroutines, the exactly-once close of
  the transport and `Server.Serve`'s wait for its connections are evidenced by the e2e suite's
  close/fault families (census of goroutines at quiescence), not proved.
-/
namespace Drpc.Props.C12
open Drpc Drpc.Stream

/-- a send parked in the transport while nothing else is going on -/
structure ParkedSend (s : St) (sec : WSec) : Prop where
  pc1 : s.pc 1 = .writing sec false
  inflight : ∃ frs, s.sh.inflight = some (1, frs)
  w : s.sh.w = some 1
  wHeld : s.sh.wHeld = true
  mu : s.sh.mu = none
  r : s.sh.r = none
  rHeld : s.sh.rHeld = false
  term : s.sh.term = none
  send : s.sh.send = none
  fin : s.sh.fin = false
  pheld : s.sh.pheld = false
  once : ∀ u, s.sh.once ≠ some (some u)

/-- Step 1 of the teardown: `Cancel` does not wait for the parked writer (it needs only the
    transition lock), terminates the stream, but the stream is not finished yet because the
    write lock is still held. -/
theorem cancel_does_not_wait_for_parked_send (s : St) (sec : WSec) (tag : Nat) (h : ParkedSend s sec) :
    (call s 3 (.cancel tag)).pc 3 = .done (.bool false) ∧
    (call s 3 (.cancel tag)).sh.term = some (.ctx tag) ∧ (call s 3 (.cancel tag)).sh.cancel.isSome = true ∧
    (call s 3 (.cancel tag)).sh.fin = false ∧ (call s 3 (.cancel tag)).sh.mu = none ∧
    (call s 3 (.cancel tag)).sh.inflight = s.sh.inflight ∧ (call s 3 (.cancel tag)).sh.w = some 1 ∧
    (call s 3 (.cancel tag)).sh.wHeld = true ∧ (call s 3 (.cancel tag)).sh.rHeld = false ∧
    (call s 3 (.cancel tag)).sh.cancel = setOnce s.sh.cancel (.ctx tag) := by
  obtain ⟨p1, ⟨frs, hi⟩, hw, hwh, hmu, hr, hrh, ht, hs, hf, hph, ho⟩ := h
  solo

/-- Step 2: once the (closed) transport fails the parked write, the sender returns the cancel
    error (not the transport's), releases the write lock, and its final `checkFinished` finishes
    the stream: the context is done and the `fin` token goes to the manager. -/
theorem failed_write_after_cancel_finishes (s : St) (sec : WSec) (frs : List Frame) (e : Err) (terr : Nat)
    (p1 : s.pc 1 = .writing sec false) (hi : s.sh.inflight = some (1, frs))
    (hc : s.sh.cancel = some e) (ht : s.sh.term.isSome = true) (hfin : s.sh.fin = false)
    (hw : s.sh.w = some 1) (hrh : s.sh.rHeld = false) (hra : sec.recvAfter = none)
    (ho : ∀ u, s.sh.once ≠ some (some u)) :
    ∃ s1, envStep s (.release (some terr)) = some s1 ∧
      (runSolo 64 s1 1).pc 1 = .done (.err e) ∧ (runSolo 64 s1 1).sh.fin = true ∧
      (runSolo 64 s1 1).sh.ctxDone = true ∧ (runSolo 64 s1 1).sh.w = none ∧
      (runSolo 64 s1 1).sh.finTokens = s.sh.finTokens + 1 ∧ (runSolo 64 s1 1).sh.wire = s.sh.wire := by
  refine ⟨_, by simp [envStep, hi, p1]; rfl, ?_⟩
  cases sec with
  | mk frames checks flush recvAfter second =>
    simp only at hra
    subst hra
    simp only [cancelWrap, hc]
    repeat (rw [runSolo_succ]; simp (config := { maxSteps := 400000 }) [step, stepPC, afterTerm, handleRet,
      termErrOf, packetOf, flushSec, pbufClose, cancelWrap, *])

/-- Both steps together: Close's `stream.Cancel` followed by the transport failing the parked
    write leaves no operation of the stream pending and the stream finished. -/
theorem close_unwinds_parked_send (s : St) (sec : WSec) (tag terr : Nat) (h : ParkedSend s sec)
    (hra : sec.recvAfter = none) (hc0 : s.sh.cancel = none) :
    ∃ s1, envStep (call s 3 (.cancel tag)) (.release (some terr)) = some s1 ∧
      (runSolo 64 s1 1).pc 1 = .done (.err (.ctx tag)) ∧ (runSolo 64 s1 1).pc 3 = .done (.bool false) ∧
      (runSolo 64 s1 1).sh.fin = true ∧ (runSolo 64 s1 1).sh.w = none := by
  obtain ⟨c1, c2, c3, c4, c5, c6, c7, c8, c9, c10⟩ := cancel_does_not_wait_for_parked_send s sec tag h
  obtain ⟨frs, hi⟩ := h.inflight
  have hp1 : (call s 3 (.cancel tag)).pc 1 = .writing sec false := by
    rw [call_pc_other _ _ _ _ (by decide)]; exact h.pc1
  have hcan : (call s 3 (.cancel tag)).sh.cancel = some (.ctx tag) := by rw [c10, hc0]; rfl
  have hterm : (call s 3 (.cancel tag)).sh.term.isSome = true := by rw [c2]; rfl
  have ho : ∀ u, (call s 3 (.cancel tag)).sh.once ≠ some (some u) := by
    obtain ⟨p1, _, hw, hwh, hmu, hr, hrh, ht, hs, hf, hph, ho⟩ := h
    intro u
    have : (call s 3 (.cancel tag)).sh.once = s.sh.once := by solo
    rw [this]; exact ho u
  obtain ⟨s1, e1, r1, r2, _, r4, _, _⟩ :=
    failed_write_after_cancel_finishes (call s 3 (.cancel tag)) sec frs (.ctx tag) terr hp1 (by rw [c6, hi]) hcan hterm c4 c7 c9 hra ho
  refine ⟨s1, e1, r1, ?_, r2, r4⟩
  rw [runSolo_pc_other _ _ _ _ (by decide)]
  -- the env step does not touch thread 3
  have : s1.pc 3 = (call s 3 (.cancel tag)).pc 3 := by
    simp only [envStep, c6, hi, hp1] at e1
    split at e1 <;> (injection e1 with e1; subst e1; simp [upd_pc_other _ _ _ _ _ (show (3:Tid) ≠ 1 by decide)])
  rw [this, c1]

end Drpc.Props.C12
