import Drpc.Lemmas.Compat
import Drpc.Lemmas.Metadata
import Drpc.Props.C09
/-
  C18 — The wire format stays compatible with released peers (storj.io/drpc v0.0.17).
  Property theorems only.  Models: `Drpc/Wire/OldReader.lean` (v0.0.17 ParseFrame, SplitFrame +
  bufio.Scanner + Reader.ReadPacket, SplitN), `Drpc/Wire/Reader.lean` (working tree reader, C09),
  `Drpc/Wire/Compat.lean` (WellFormed, emission of both stream layers, HandlePacket),
  `Drpc/Metadata.lean` + `Drpc/Proto.lean` (C11).
-/
namespace Drpc.Props.C18
open Drpc Drpc.Compat
open Drpc.Props.C09 (observed)

/-- The control bit is the formerly reserved top bit of the first byte: the v0.0.17 parser is the
    same function as today's on EVERY byte string (it already reads bit 7 into `Frame.Control`),
    and bit 7 influences nothing but that field — neither kind, done, ids, payload nor how many
    bytes are consumed. -/
theorem control_bit_is_old_reserved_bit (c : Byte) (rest : Bytes) :
    Old.parseFrame (c :: rest) = parseFrame (c :: rest) ∧
    parseFrame (c :: rest) = withControl (ctlOfControl c) (parseFrame ((c &&& 127#8) :: rest)) ∧
    withControl false (parseFrame (c :: rest)) = parseFrame ((c &&& 127#8) :: rest) := by
  have hk : ∀ c : Byte, kindOfControl (c &&& 127#8) = kindOfControl c := by decide
  have hd : ∀ c : Byte, doneOfControl (c &&& 127#8) = doneOfControl c := by decide
  have hc : ∀ c : Byte, ctlOfControl (c &&& 127#8) = false := by decide
  refine ⟨rfl, ?_, ?_⟩
  all_goals
    unfold parseFrame
    simp only [List.length_cons]
    split
    · rfl
    · cases readVarint rest with
      | short => rfl
      | tooLong => rfl
      | ok r1 sid =>
        simp only
        cases readVarint r1 with
        | short => rfl
        | tooLong => rfl
        | ok r2 mid =>
          simp only
          cases readVarint r2 with
          | short => rfl
          | tooLong => rfl
          | ok r3 len =>
            simp only
            repeat' split
            all_goals first | rfl | simp [withControl, hk, hd, hc]

/-- … and what the v0.0.17 reader does with a frame whose bit 7 is set is to skip it, whatever its
    ids, kind, done flag or payload, before any id logic. -/
theorem old_skips_control_frames (sid : U64 × U64) (cur : Old.OCur) (fr : Frame) (h : fr.control = true) :
    Old.oldStep sid cur fr = .skip := old_ctl h

/-- The v0.0.17 reader (bufio.Scanner included) returns, for every way the transport splits the
    stream into reads, the chunk-independent reference reassembly. -/
theorem old_run_eq_reference (final : Nat) (choose : Nat → Nat) (stream : Bytes) :
    Old.oldReadAll choose final stream =
      Old.oldFinish final (Old.oldRefDrain (0#64, 0#64) Old.OCur.zero stream) := by
  have hs : Old.parseFrame ([] : Bytes) = .short := by simp [Old.parseFrame]
  have := Old.oldFeed_eq_ref choose final stream.length stream (Nat.le_refl _) 0 (0#64, 0#64) Old.OCur.zero
    0 Old.startBuf [] hs (by simp [Old.startBuf]) (by simp [Old.startBuf, Old.maxTok]) (by simp [Old.startBuf])
  simpa [Old.oldReadAll] using this

/-- OLD READS NEW.  For every well-formed frame sequence whose encoded frames fit the old token
    limit (1 MiB) and whose packets fit the packet limits, the released reader returns exactly the
    packets the current reader returns minus the control ones, and the same final error —
    whatever the two transports' chunkings. -/
theorem old_reads_new (mx final : Nat) (choose₁ choose₂ : Nat → Nat) (fs : List Frame)
    (hwf : wellFormed fs = true) (hfw : framesWithin Old.maxTok fs)
    (hp1 : packetsWithin mx fs = true) (hp2 : packetsWithin Old.maxPacket fs = true) :
    Old.oldReadAll choose₁ final (encode fs) =
      (minusControl (observed (readAll mx choose₂ final (encode fs))).1,
       toOldErr (observed (readAll mx choose₂ final (encode fs))).2) := by
  obtain ⟨N, rid', cur', osid', ocur', hN, hO⟩ := sim_top mx fs hwf hfw hp1 hp2
  rw [old_run_eq_reference, Drpc.Props.C09.run_eq_reference, hO]
  simp [Drpc.Props.C09.reference, hN, refEnd, Old.oldFinish, toOldErr]

/-- non-vacuity: a data packet in two frames, a soft-cancel control packet, a close packet -/
example : wellFormed [⟨[1#8], 1#64, 1#64, 2#8, false, false⟩, ⟨[2#8], 1#64, 1#64, 2#8, true, false⟩,
      ⟨[], 1#64, 2#64, 4#8, true, true⟩, ⟨[], 2#64, 1#64, 5#8, true, false⟩] = true ∧
    packetsWithin 2 [⟨[1#8], 1#64, 1#64, 2#8, false, false⟩, ⟨[2#8], 1#64, 1#64, 2#8, true, false⟩,
      ⟨[], 1#64, 2#64, 4#8, true, true⟩, ⟨[], 2#64, 1#64, 5#8, true, false⟩] = true := by decide

/-- NEW READS OLD.  Whatever a v0.0.17 writer sends (within the limits) is read by the current
    reader exactly as by the v0.0.17 reader: the same packets (none of them control), the same
    final error. -/
theorem new_reads_old (mx final : Nat) (choose₁ choose₂ : Nat → Nat) (fs : List Frame)
    (hprod : OldProducible fs) (hfw : framesWithin Old.maxTok fs)
    (hp1 : packetsWithin mx fs = true) (hp2 : packetsWithin Old.maxPacket fs = true) :
    Old.oldReadAll choose₁ final (encode fs) =
      ((observed (readAll mx choose₂ final (encode fs))).1.map toOld,
       toOldErr (observed (readAll mx choose₂ final (encode fs))).2) ∧
    ∀ p ∈ (observed (readAll mx choose₂ final (encode fs))).1, p.control = false := by
  obtain ⟨n, pkts, hs, rfl⟩ := hprod
  have hwf : wellFormed (oldEmit n pkts) = true := by rw [oldEmit_eq]; exact wellFormed_genEmit _ _ hs
  have hctl : ∀ f ∈ oldEmit n pkts, f.control = false := by
    intro f hf
    simp only [oldEmit, List.mem_flatMap] at hf
    obtain ⟨p, _, hf⟩ := hf
    exact splitFrames_control _ _ _ _ _ _ f hf
  have hkind : ∀ f ∈ oldEmit n pkts, f.kind.toNat < 64 := by
    intro f hf
    simp only [oldEmit, List.mem_flatMap] at hf
    obtain ⟨p, hp, hf⟩ := hf
    have := (splitFrames_header _ _ _ _ _ _ f hf).2.2.1
    rw [this]
    exact hs.1 (ofOld p) (List.mem_map_of_mem hp)
  have hno : ∀ p ∈ (observed (readAll mx choose₂ final (encode (oldEmit n pkts)))).1, p.control = false := by
    rw [Drpc.Props.C09.run_eq_reference]
    exact drain_encode_noctl mx _ _ none (fun f hf => ⟨hkind f hf, hfw f hf, hctl f hf⟩) (by intro c hc; cases hc)
  refine ⟨?_, hno⟩
  rw [old_reads_new mx final choose₁ choose₂ _ hwf hfw hp1 hp2]
  congr 1
  unfold minusControl
  rw [List.filter_eq_self.mpr]
  intro p hp
  simp [hno p hp]

/-- Every sequence the current writer produces (`SplitN` of packets with 6-bit kinds and
    strictly increasing ids ≥ (1,1); any split size; control packets included) is well-formed. -/
theorem new_emits_wellformed (fs : List Frame) (h : NewProducible fs) : wellFormed fs = true := by
  obtain ⟨n, pkts, hs, rfl⟩ := h
  rw [newEmit_eq]; exact wellFormed_genEmit _ _ hs

/-- Every sequence a v0.0.17 writer produces is well-formed and never carries the control bit. -/
theorem old_emits_wellformed (fs : List Frame) (h : OldProducible fs) :
    wellFormed fs = true ∧ ∀ f ∈ fs, f.control = false := by
  obtain ⟨n, pkts, hs, rfl⟩ := h
  refine ⟨by rw [oldEmit_eq]; exact wellFormed_genEmit _ _ hs, ?_⟩
  intro f hf
  simp only [oldEmit, List.mem_flatMap] at hf
  obtain ⟨p, _, hf⟩ := hf
  exact splitFrames_control _ _ _ _ _ _ f hf

/-- non-vacuity: two packets, one of them split in two, are producible by the old writer -/
example : OldProducible (oldEmit 1 [⟨[1#8, 2#8], 1#64, 1#64, 2#8⟩, ⟨[], 1#64, 2#64, 6#8⟩]) :=
  ⟨1, _, ⟨by decide, by decide⟩, rfl⟩

/-- The same for the STREAM LAYERS: whatever sequence of API calls (RawWrite/MsgSend, SendError,
    SendCancel, Close, CloseSend, Cancel, RawFlush) is made on consecutive streams of a connection
    with increasing stream ids, what either version's `drpcstream.Stream` hands to the writer is
    well-formed — soft cancels at any position included (`soft = true`: working tree with split
    size `m`; `soft = false`: v0.0.17). -/
theorem stream_layer_emits_wellformed (m : Nat) (soft : Bool) (conn : List (U64 × List Op))
    (hok : connOk conn) (hinc : sidsIncreasing 0#64 conn) :
    wellFormed (emitConn m soft conn) = true :=
  wellFormed_emitConn m soft conn hok hinc

/-- … and the v0.0.17 stream layer never sets the control bit. -/
theorem old_stream_layer_never_control (m : Nat) (conn : List (U64 × List Op)) :
    ∀ f ∈ emitConn m false conn, f.control = false :=
  emitConn_noctl m conn

/-- non-vacuity: two streams, a soft cancel in the middle of the first one's calls -/
example : connOk [(1#64, [.write 1#8 [1#8], .write 2#8 [2#8, 3#8], .sendCancel, .write 2#8 []]), (2#64, [.close])] ∧
    sidsIncreasing 0#64 [(1#64, [.write 1#8 [1#8], .write 2#8 [2#8, 3#8], .sendCancel, .write 2#8 []]), (2#64, [.close])] := by
  refine ⟨?_, by simp [sidsIncreasing]⟩
  intro st hst
  simp only [List.mem_cons, List.not_mem_nil, or_false] at hst
  rcases hst with rfl | rfl
  · refine ⟨?_, by simp⟩
    intro op hop
    simp only [List.mem_cons, List.not_mem_nil, or_false] at hop
    rcases hop with rfl | rfl | rfl | rfl <;> simp [opOk]
  · refine ⟨?_, by simp⟩
    intro op hop
    simp only [List.mem_cons, List.not_mem_nil, or_false] at hop
    subst hop; simp [opOk]

/-- Old and new endpoints interoperate, end to end: what the current writer sends is delivered
    to a v0.0.17 reader as exactly what the current reader would deliver, minus control packets. -/
theorem interop_new_to_old (mx final : Nat) (choose₁ choose₂ : Nat → Nat) (fs : List Frame)
    (hprod : NewProducible fs) (hfw : framesWithin Old.maxTok fs)
    (hp1 : packetsWithin mx fs = true) (hp2 : packetsWithin Old.maxPacket fs = true) :
    Old.oldReadAll choose₁ final (encode fs) =
      (minusControl (observed (readAll mx choose₂ final (encode fs))).1,
       toOldErr (observed (readAll mx choose₂ final (encode fs))).2) :=
  old_reads_new mx final choose₁ choose₂ fs (new_emits_wellformed fs hprod) hfw hp1 hp2

/-- End to end at the stream layer: whatever current Streams send on a connection (within the
    limits), a v0.0.17 reader delivers exactly what the current reader delivers minus the control
    packets — in particular never a soft cancel. -/
theorem interop_stream_layer_new_to_old (mx final : Nat) (choose₁ choose₂ : Nat → Nat) (m : Nat)
    (conn : List (U64 × List Op)) (hok : connOk conn) (hinc : sidsIncreasing 0#64 conn)
    (hfw : framesWithin Old.maxTok (emitConn m true conn))
    (hp1 : packetsWithin mx (emitConn m true conn) = true)
    (hp2 : packetsWithin Old.maxPacket (emitConn m true conn) = true) :
    Old.oldReadAll choose₁ final (encode (emitConn m true conn)) =
      (minusControl (observed (readAll mx choose₂ final (encode (emitConn m true conn)))).1,
       toOldErr (observed (readAll mx choose₂ final (encode (emitConn m true conn)))).2) :=
  old_reads_new mx final choose₁ choose₂ _ (stream_layer_emits_wellformed m true conn hok hinc) hfw hp1 hp2

/-- A packet with the control bit and a kind the stream layer has no case for is ignored: no
    state change at all, no error. -/
theorem unknown_control_ignored (s : HState) (p : Packet) (hc : p.control = true)
    (hk : knownKind p.kind = false) : handlePacket s p = (s, .nil) := by
  simp only [knownKind, Bool.or_eq_false_iff, beq_eq_false_iff_ne] at hk
  obtain ⟨⟨⟨⟨⟨h1, h2⟩, h3⟩, h4⟩, h5⟩, h6⟩ := hk
  unfold handlePacket
  simp [h1, h2, h3, h4, h5, h6, hc]

/-- Without the control bit the same packet terminates the stream with an InternalError (which is
    why the soft cancel has to carry the bit: v0.0.17 has no case for kind 4). -/
theorem unknown_noncontrol_internal (s : HState) (p : Packet) (hc : p.control = false)
    (hk : knownKind p.kind = false) (hs : p.sid = s.sid) (ht : s.term = none) :
    handlePacket s p = (terminate s .unknownKind, .internal) := by
  simp only [knownKind, Bool.or_eq_false_iff, beq_eq_false_iff_ne] at hk
  obtain ⟨⟨⟨⟨⟨h1, h2⟩, h3⟩, h4⟩, h5⟩, h6⟩ := hk
  unfold handlePacket
  simp [h1, h2, h3, h4, h5, h6, hc, hs, ht]

/-- non-vacuity: kind 9 with the control bit on an open stream with queued state -/
example : handlePacket { HState.init 3#64 with send := some .eof } ⟨[1#8], 3#64, 7#64, 9#8, true⟩ =
    ({ HState.init 3#64 with send := some .eof }, .nil) :=
  unknown_control_ignored _ _ rfl (by decide)

/-- The soft cancel the working tree sends is a single done frame of kind 4 WITH the control bit
    (so by `old_skips_control_frames` a v0.0.17 peer never sees it). -/
theorem soft_cancel_is_control (m : Nat) (sid : U64) (s : EState) (h : s.term = false) :
    (emitStep m true sid s .sendCancel).2 = [⟨[], sid, s.mid + 1#64, 4#8, true, true⟩] := by
  simp [emitStep, h, single]

/-- Metadata: the current hand-written encoder produces exactly the protobuf encoding of
    `message { map<string,string> data = 1; }` that v0.0.17 produced with gogo/protobuf (spec
    encoder `Proto.encodeMap`, entries in the same order), and the current decoder reads every
    such encoding back. -/
theorem metadata_old_new (m : Metadata.Pairs) (h : Metadata.Fits m) :
    Metadata.encode m = Proto.encodeMap m ∧ Metadata.decode (Proto.encodeMap m) = .ok m := by
  refine ⟨Metadata.encode_eq_proto m h, ?_⟩
  rw [← Metadata.encode_eq_proto m h]
  have := Metadata.decode_encode_append m [] h
  rw [List.append_nil, Metadata.decode_nil] at this
  simpa [Metadata.DR.prepend] using this

/-- non-vacuity: an ordinary map satisfies `Fits` (key + value shorter than 2^64 − 22 bytes) -/
example : Metadata.Fits [([0x61#8], [0x62#8, 0x63#8]), ([], [])] := by
  intro kv h
  simp only [List.mem_cons, List.not_mem_nil, or_false] at h
  rcases h with rfl | rfl <;> simp

/-! ### why `WellFormed` excludes what it excludes (the readers differ there) -/

/-- a control frame followed by a non-control frame of the SAME id: the current reader returns one
    control packet with both payloads, v0.0.17 returns a data packet with the second payload -/
theorem mixed_control_excluded :
    assembleStep 100 (1#64, 1#64) (some ⟨[1#8], 2#8, true⟩) ⟨[2#8], 1#64, 1#64, 2#8, true, false⟩ =
      .emit ⟨[1#8, 2#8], 1#64, 1#64, 2#8, true⟩ (1#64, 2#64) ∧
    Old.oldStep (0#64, 0#64) Old.OCur.zero ⟨[1#8], 1#64, 1#64, 2#8, false, true⟩ = .skip ∧
    Old.oldStep (0#64, 0#64) Old.OCur.zero ⟨[2#8], 1#64, 1#64, 2#8, true, false⟩ =
      .emit ⟨[2#8], 1#64, 1#64, 2#8⟩ (1#64, 1#64) := by decide

/-- a second done frame with the id of a finished packet: rejected today (`r.id.Message++`),
    while v0.0.17 (no id bump) hands out a kind-0 packet with id (0,0) -/
theorem id_reuse_excluded :
    assembleStep 100 (1#64, 2#64) none ⟨[], 1#64, 1#64, 0#8, true, false⟩ = .error ∧
    Old.oldStep (1#64, 1#64) Old.OCur.zero ⟨[], 1#64, 1#64, 0#8, true, false⟩ =
      .emit ⟨[], 0#64, 0#64, 0#8⟩ (1#64, 1#64) := by decide

end Drpc.Props.C18
