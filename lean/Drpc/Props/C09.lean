import Drpc.Lemmas.Reader
/-
  C09 — Packet reassembly depends only on the byte stream and is memory-bounded.
  Property theorems only.  The model (`Drpc/Wire/Reader.lean`) follows reader.go as repaired by
  the `fix:` commit recorded in known_findings.json.
-/
namespace Drpc.Props.C09
open Drpc

/-- The reference reassembly of a byte stream: cut it into frames with the parser (which is the
    arithmetic wire spec, C08 `parse_agrees_spec`), fold the reassembly rules over them, and end
    with ProtocolError if the frames were rejected or the unparsable tail already exceeds the
    largest acceptable frame, else with the transport's own error.  A function of the bytes only. -/
def reference (mx final : Nat) (stream : Bytes) : List Packet × RErr :=
  ((drain mx (1#64, 1#64) none stream).1, refEnd mx final (drain mx (1#64, 1#64) none stream).2)

/-- what a caller of `ReadPacket` observes: the packets, then the first error -/
def observed (r : List (Packet × Nat) × RErr × Nat) : List Packet × RErr := (r.1.map (·.1), r.2.1)

/-- For every way the transport splits the stream into reads, the reader returns exactly the
    reference reassembly. -/
theorem run_eq_reference (mx final : Nat) (choose : Nat → Nat) (stream : Bytes) :
    observed (readAll mx choose final stream) = reference mx final stream := by
  have hs : parseFrame ([] : Bytes) = .short := by simp [parseFrame]
  have := feed_eq_ref mx choose final stream.length stream (Nat.le_refl _) 0 (1#64, 1#64) none 0 [] hs
  simpa [observed, readAll, reference] using this

/-- The sequence of packets and the class of the first error do not depend on the chunking. -/
theorem chunk_independent (mx final : Nat) (choose₁ choose₂ : Nat → Nat) (stream : Bytes) :
    observed (readAll mx choose₁ final stream) = observed (readAll mx choose₂ final stream) := by
  rw [run_eq_reference, run_eq_reference]

/-- non-vacuity: two different chunkings of a two-packet stream exist and the theorem applies -/
example : observed (readAll 100 (fun _ => 1) 0 [5#8,1#8,1#8,1#8,65#8]) =
          observed (readAll 100 (fun _ => 1000) 0 [5#8,1#8,1#8,1#8,65#8]) :=
  chunk_independent _ _ _ _ _

/-- Reassembly rules, one frame at a time (`assembleStep`): a frame whose payload exceeds the
    maximum is always rejected … -/
theorem oversize_rejected {mx : Nat} {rid : U64 × U64} {cur : Option Cur} {fr : Frame}
    (h : fr.data.length > mx) : assembleStep mx rid cur fr = .error :=
  assemble_oversize h

/-- … a frame with an id below the watermark is rejected (ids never go backwards) … -/
theorem stale_id_rejected {mx : Nat} {rid : U64 × U64} {cur : Option Cur} {fr : Frame}
    (h : idLt (fr.sid, fr.mid) rid) : assembleStep mx rid cur fr = .error := by
  unfold assembleStep
  rw [if_pos ((idLess_iff _ _ _ _).mpr h)]

/-- … a different kind inside a packet is rejected … -/
theorem kind_change_rejected {mx : Nat} {rid : U64 × U64} {c : Cur} {fr : Frame}
    (hid : rid = (fr.sid, fr.mid)) (hk : fr.kind ≠ c.kind) :
    assembleStep mx rid (some c) fr = .error := by
  unfold assembleStep
  split
  · rfl
  · simp [hid, hk]

/-- … frames of one id are concatenated, and a control bit on any of them marks the packet … -/
theorem same_id_concatenates {mx : Nat} {rid : U64 × U64} {c : Cur} {fr : Frame}
    (hid : rid = (fr.sid, fr.mid)) (hk : fr.kind = c.kind) (hsz : (c.data ++ fr.data).length ≤ mx)
    (hd : fr.done = true) :
    assembleStep mx rid (some c) fr =
      .emit { data := c.data ++ fr.data, sid := fr.sid, mid := fr.mid, kind := c.kind,
              control := c.control || fr.control } (fr.sid, fr.mid + 1#64) := by
  unfold assembleStep
  subst hid
  have hl : idLess fr.sid fr.mid fr.sid fr.mid = false := by unfold idLess; simp
  have hsz' : ¬ (mx < c.data.length + fr.data.length) := by simpa using Nat.not_lt.mpr hsz
  simp [hl, hk, hd, hsz']

/-- … and a higher id discards the unfinished packet. -/
theorem higher_id_discards {mx : Nat} {rid : U64 × U64} {c : Cur} {fr : Frame}
    (hne : rid ≠ (fr.sid, fr.mid)) (hl : idLess fr.sid fr.mid rid.1 rid.2 = false)
    (hsz : fr.data.length ≤ mx) (hd : fr.done = true) :
    assembleStep mx rid (some c) fr =
      .emit { data := fr.data, sid := fr.sid, mid := fr.mid, kind := fr.kind, control := fr.control }
            (fr.sid, fr.mid + 1#64) := by
  unfold assembleStep
  simp [hl, hne, hd, Nat.not_lt.mpr hsz]

/-- Every returned packet respects the configured maximum (never a truncated or oversized one). -/
theorem packets_within_max (mx final : Nat) (choose : Nat → Nat) (stream : Bytes) :
    ∀ p ∈ (observed (readAll mx choose final stream)).1, p.data.length ≤ mx := by
  rw [run_eq_reference]
  simp only [reference]
  -- by induction over `drain`
  suffices h : ∀ (n : Nat) (p : Bytes) (rid : U64 × U64) (cur : Option Cur), p.length ≤ n →
      ∀ q ∈ (drain mx rid cur p).1, q.data.length ≤ mx from h _ _ _ _ (Nat.le_refl _)
  intro n
  induction n with
  | zero =>
    intro p rid cur hn
    have : p = [] := List.length_eq_zero_iff.mp (by omega)
    subst this
    have hs : parseFrame ([] : Bytes) = .short := by simp [parseFrame]
    simp [drain_short hs]
  | succ n ih =>
    intro p rid cur hn
    cases hp : parseFrame p with
    | short => simp [drain_short hp]
    | err => simp [drain_err hp]
    | panic => exact absurd hp (parse_no_panic p)
    | ok rem fr =>
      have hlen := parse_ok_length hp
      rw [drain_ok hp]
      cases hs : assembleStep mx rid cur fr with
      | error => simp
      | cont rid' c => exact ih rem rid' (some c) (by omega)
      | emit pkt rid' =>
        simp only
        intro q hq
        simp only [List.mem_cons] at hq
        rcases hq with rfl | hq
        · exact (assemble_emit hs).2.2.2
        · exact ih rem rid' none (by omega) q hq

/-- The reader's buffer never exceeds twice the maximum plus a constant, whatever the input
    and whatever the chunking. -/
theorem buffer_bound (mx final : Nat) (choose : Nat → Nat) (stream : Bytes) :
    (∀ p ∈ (readAll mx choose final stream).1, p.2 ≤ 2 * mx + 12348) ∧
    (readAll mx choose final stream).2.2 ≤ 2 * mx + 12348 := by
  have := feed_cap_bound mx choose final stream.length stream (Nat.le_refl _) 0 (1#64, 1#64) none 0 []
    (by unfold capBound; omega)
  simpa [readAll, capBound] using this

/-- What was returned from a prefix of the stream is a prefix of what is returned from the whole
    stream (used by C01/C05: a cut or failed transport never changes what was already delivered). -/
theorem prefix_monotone (mx final : Nat) (a b : Bytes) :
    ∃ more, (reference mx final (a ++ b)).1 = (reference mx final a).1 ++ more := by
  simp only [reference]
  rw [drain_append mx b _ a _ _ (Nat.le_refl _)]
  cases hd : drain mx (1#64, 1#64) none a with
  | mk pk e =>
    cases e with
    | failed => exact ⟨[], by simp [extendDrain]⟩
    | stuck rid cur r => exact ⟨(drain mx rid cur (r ++ b)).1, by simp [extendDrain]⟩

/-- Returned ids strictly increase — as long as no returned packet carries message id 2^64−1. -/
theorem ids_strictly_increase_partial (mx final : Nat) (stream : Bytes)
    (hw : ∀ q ∈ (reference mx final stream).1, q.mid.toNat ≠ 2^64 - 1) :
    List.Pairwise (fun a b => idLt (a.sid, a.mid) (b.sid, b.mid)) (reference mx final stream).1 :=
  (drain_ids mx _ stream _ _ (Nat.le_refl _) hw).2

/-- The excluded point is real: after a done frame with message id 2^64−1 the watermark wraps to
    (s, 0) and a frame with the smaller id (s, 1) is accepted.  Replayed on the implementation by
    the reader suite; listed in known_findings.json (C09-mid-wrap). -/
theorem ids_wrap_counterexample :
    assembleStep 100 (1#64, 1#64) none ⟨[], 1#64, 0xFFFFFFFFFFFFFFFF#64, 2#8, true, false⟩
      = .emit ⟨[], 1#64, 0xFFFFFFFFFFFFFFFF#64, 2#8, false⟩ (1#64, 0#64) ∧
    assembleStep 100 (1#64, 0#64) none ⟨[], 1#64, 1#64, 2#8, true, false⟩
      = .emit ⟨[], 1#64, 1#64, 2#8, false⟩ (1#64, 2#64) := by
  decide

end Drpc.Props.C09
