import Drpc.Lemmas.ManagerSysSched
import Drpc.Lemmas.ManagerSysTok
import Drpc.Lemmas.ManagerSysClose
import Drpc.Lemmas.ManagerSysCtx
import Drpc.Lemmas.ManagerSysFin
import Drpc.Props.Manager
/-
  Properties of the atomic-step model of drpcmanager.Manager (`Drpc/Manager/Sys.lean`, the code after fix
  110f4d6): all goroutines of one manager, interleaved arbitrarily, with an arbitrary environment.

  Reachability notions (all are sub-relations of `Sys.Reach`):
  * `Reach soft s`        — the model as written.
  * `ReachF soft s`       — no stream id is used twice and no packet has stream id 0.  The model identifies
                            a stream, its record and its offer on `m.streams` by the id (the Go code by
                            pointer), so without this the MODEL misbehaves (`*_artefact` below).
  * `ReachP soft role s`  — the executions whose trace the protocol checker accepts: additionally (1) one kind
                            of caller per manager (`role`), (2) the ids of the invokes the reader forwards
                            increase (the remote invokes every stream once), (3) nobody wins the stream
                            semaphore once a stream was published into the closed stream buffer (`stale`).
                            Without (2) or (3) the Go code itself reports a trace the checker rejects
                            (`trace_rejected_*`); (1) is how the Go code is used.
  * `ReachServe soft s`   — drpcserver.ServeOne: NewServerStream one call at a time + Close + (2).  ⊆ `ReachP`.
  * `ReachClient soft s`  — drpcconn: NewClientStream from any number of goroutines + Close + (2).
                            ⊆ `ReachP` as long as the manager is not terminated.
  * `ReachFE EnvNoServer soft s` — `ReachF` without NewServerStream calls (client connection, for Part 3).

  Part 1: `trace_accepted` (+ `_serve`, `_client_until_term`) and the `sys_…` corollaries.
  Part 2: `terminate_once`, `sem_holder_unique`, `blocked_release_never`, `pdone_balance`.
  Part 3: `token_send_never_blocks`, `ready_when_quiet` (+ `_client`), `close_completes` (+ `_client`, `_serve`).
  Witnesses of what is false: `trace_rejected_*`, `*_artefact`, `sem_leak_after_retract`,
  `ready_when_quiet_as_posed_false`, `close_hangs_concurrent_servers`.
-/
namespace Drpc.Props.ManagerSys
open Drpc.Manager Drpc.Manager.Sys

/-! ## Part 1 — refinement -/

/-- every execution of the model, for every interleaving, every choice and every environment behaviour
    (within `ReachP`), reports a trace the protocol checker accepts -/
theorem trace_accepted {soft : Bool} {role : Call} {s : St} (h : ReachP soft role s) :
    (run {} s.sh.trace).isSome := by
  obtain ⟨-, ps, hr, -⟩ := sim_reachP h
  rw [hr]; rfl

/-- … and the checker state it leads to is related to the model state by `SimF` -/
theorem trace_simulation {soft : Bool} {role : Call} {s : St} (h : ReachP soft role s) :
    ∃ ps, run {} s.sh.trace = some ps ∧ SimF role s ps := (sim_reachP h).2

/-- in these executions every stream id is used once (so they are `ReachF` executions) -/
theorem reachP_reachF {soft : Bool} {role : Call} {s : St} (h : ReachP soft role s) : ReachF soft s :=
  (sim_reachP h).1

/-! ### the two ways the Go code uses a manager (`Lemmas/ManagerSysProfiles.lean`)

  `ReachServe soft s`: NewServerStream calls one at a time (drpcserver.ServeOne) and Close, any
  interleaving; packets with non-zero stream id, every invoke with a larger id than the last one forwarded.
  `ReachClient soft s`: NewClientStream from any number of goroutines and Close; same packets. -/

/-- drpcserver.ServeOne: every execution reports an accepted trace (no further side condition: with one
    call at a time nobody can win the semaphore late) -/
theorem trace_accepted_serve {soft : Bool} {s : St} (h : ReachServe soft s) : (run {} s.sh.trace).isSome :=
  trace_accepted (reachP_of_serve h).1

theorem reachServe_reachP {soft : Bool} {s : St} (h : ReachServe soft s) : ReachP soft .server s :=
  (reachP_of_serve h).1

/-- drpcconn: every execution reports an accepted trace for as long as the manager is not terminated.
    (After termination a NewClientStream call that passed acquireSemaphore's term check earlier can still
    win the semaphore and create a stream with a stale `sbuf.Get()`: `trace_rejected_late_acquire_client`.
    With that excluded — `ReachP soft .client` — every trace is accepted: `trace_accepted`.) -/
theorem trace_accepted_client_until_term {soft : Bool} {s : St} (h : ReachClient soft s)
    (hterm : s.sh.term = false) : (run {} s.sh.trace).isSome :=
  trace_accepted (reachP_of_client h hterm)

theorem reachClient_reachP {soft : Bool} {s : St} (h : ReachClient soft s) (hterm : s.sh.term = false) :
    ReachP soft .client s := reachP_of_client h hterm

/-! ### corollaries: what every reachable state's trace satisfies (from Props/Manager.lean) -/

theorem sys_stream_ids_strictly_increase {soft : Bool} {role : Call} {s : St} (h : ReachP soft role s) :
    (s.sh.trace.filterMap beginId).Pairwise (· < ·) ∧ ∀ x, .newBegin x ∈ s.sh.trace → 0 < x := by
  obtain ⟨ps, hr, -⟩ := trace_simulation h
  exact Manager.stream_ids_strictly_increase_trace hr

theorem sys_one_stream_at_a_time {soft : Bool} {role : Call} {s : St} (h : ReachP soft role s) :
    (openStreams s.sh.trace).length ≤ 1 := by
  obtain ⟨ps, hr, -⟩ := trace_simulation h
  exact (Manager.one_stream_at_a_time hr).1

/-- the same at every earlier moment: every prefix of the trace is accepted too -/
theorem sys_prefix_accepted {soft : Bool} {role : Call} {s : St} (h : ReachP soft role s) {a b : List Ev}
    (hab : s.sh.trace = a ++ b) : ∃ ps, run {} a = some ps := by
  obtain ⟨ps, hr, -⟩ := trace_simulation h
  rw [hab] at hr
  obtain ⟨s0, h0, -⟩ := run_append_some hr
  exact ⟨s0, h0⟩

theorem sys_one_stream_at_a_time_always {soft : Bool} {role : Call} {s : St} (h : ReachP soft role s)
    {a b : List Ev} (hab : s.sh.trace = a ++ b) : (openStreams a).length ≤ 1 := by
  obtain ⟨ps, hr⟩ := sys_prefix_accepted h hab
  exact (Manager.one_stream_at_a_time hr).1

theorem sys_next_stream_after_previous_finished {soft : Bool} {role : Call} {s : St} (h : ReachP soft role s)
    {a b c : List Ev} {x y : Nat} (hab : s.sh.trace = a ++ [.newBegin x] ++ b ++ [.newBegin y] ++ c)
    (hb : ∀ z, .newBegin z ∉ b) : .prevDone x ∈ b ∧ .newEnd x ∈ b ∧ x < y := by
  obtain ⟨ps, hr⟩ := sys_prefix_accepted h hab
  exact Manager.next_stream_after_previous_finished hr hb

theorem sys_publish_under_semaphore {soft : Bool} {role : Call} {s : St} (h : ReachP soft role s)
    {a c : List Ev} {x : Nat} (hab : s.sh.trace = a ++ [.newEnd x] ++ c) :
    (∃ s0, run {} a = some s0 ∧ s0.sem = true ∧ s0.pending = some x) ∧
    ∃ a1 a2, a = a1 ++ .newBegin x :: a2 ∧ ∀ e ∈ a2, isCreate e = false ∧ e ≠ .semRel ∧ e ≠ .semAcq := by
  obtain ⟨ps, hr⟩ := sys_prefix_accepted h hab
  exact Manager.published_under_semaphore hr

theorem sys_create_only_under_semaphore {soft : Bool} {role : Call} {s : St} (h : ReachP soft role s)
    {a c : List Ev} {x : Nat} (hab : s.sh.trace = a ++ [.newBegin x] ++ c) :
    ∃ a1 a2, a = a1 ++ .semAcq :: a2 ∧ .semAcq ∉ a2 ∧ .semRel ∉ a2 ∧
      ∃ e ∈ a2, e = .prevNone ∨ ∃ sid, e = .prevDone sid := by
  obtain ⟨ps, hr⟩ := sys_prefix_accepted h hab
  exact Manager.create_only_under_semaphore_trace hr

theorem sys_transport_closed_at_most_once {soft : Bool} {role : Call} {s : St} (h : ReachP soft role s) :
    s.sh.trace.count .tportClose ≤ 1 ∧ s.sh.trace.count .term ≤ 1 := by
  obtain ⟨ps, hr, -⟩ := trace_simulation h
  exact ⟨Manager.tport_close_at_most_once hr, Manager.term_at_most_once hr⟩

theorem sys_transport_closed_only_after_term {soft : Bool} {role : Call} {s : St} (h : ReachP soft role s)
    {a b : List Ev} (hab : s.sh.trace = a ++ [.tportClose] ++ b) : .term ∈ a := by
  obtain ⟨ps, hr, -⟩ := trace_simulation h
  rw [hab] at hr
  exact Manager.tport_close_never_before_term hr

theorem sys_semaphore_alternates {soft : Bool} {role : Call} {s : St} (h : ReachP soft role s) :
    ∀ p, p <+: s.sh.trace → p.count .semAcq = p.count .semRel ∨ p.count .semAcq = p.count .semRel + 1 := by
  obtain ⟨ps, hr, -⟩ := trace_simulation h
  exact (Manager.semaphore_alternates hr).2

theorem sys_deliver_only_to_stream_with_that_id {soft : Bool} {role : Call} {s : St} (h : ReachP soft role s)
    {a c : List Ev} {sid : Nat} (hab : s.sh.trace = a ++ [.deliver sid] ++ c) : sid ≠ 0 ∧ .newBegin sid ∈ a := by
  obtain ⟨ps, hr⟩ := sys_prefix_accepted h hab
  obtain ⟨s0, -, -, h1, h2⟩ := Manager.deliver_only_to_existing_stream_with_that_id hr
  exact ⟨h1, h2⟩

theorem sys_fin_token_once_and_only_for_handed_over_stream {soft : Bool} {role : Call} {s : St}
    (h : ReachP soft role s) (x : Nat) :
    s.sh.trace.count (.sfinRecv x) ≤ 1 ∧
    (.sfinRecv x ∈ s.sh.trace → .newOffer x ∈ s.sh.trace ∧ .newBegin x ∈ s.sh.trace ∧ .newRetract x ∉ s.sh.trace) := by
  obtain ⟨ps, hr, -⟩ := trace_simulation h
  exact Manager.fin_token_only_for_handed_over_stream hr x

/-! ### the side conditions of `ReachP` are needed -/

private def S (t ch : Nat) : Mv := .st t ch

/-- GENUINE (Go): two NewServerStream calls race with a transport error.  Call 3 holds the semaphore and
    creates stream 2 while `terminate` runs; `sbuf.Set` ignores the stream (buffer closed); call 3 retracts
    its offer and releases the semaphore; call 2, which had passed `acquireSemaphore`'s term check before,
    now wins the semaphore in the select (both branches ready) and finds `sbuf.Get() == nil`: it reports
    `prev.none` although stream 2 exists.  The checker rejects `prevNone` (curr = 2). -/
def lateSched : List Mv :=
  [.en (.spawn 2 .server), .en (.spawn 3 .server), S 0 0, .en (.arrive ⟨2, .invoke⟩), S 3 0, S 0 0, S 3 0, S 0 0,
   S 3 0, S 0 0, S 3 0, S 0 0, S 3 0, S 0 0, S 3 0, S 3 0, S 3 0, S 0 0, S 0 0, S 0 0,
   .en .readErr, S 2 0, S 0 0, S 0 0, S 0 0, S 0 0, S 0 0, S 3 0, S 0 0, S 3 0, S 3 0, S 3 0, S 3 0,
   S 3 1, S 3 0, S 3 0, S 3 0, S 2 1, S 2 0, S 2 0, S 2 0]

def lateState : St := (runSched { sh := { soft := false } } lateSched).get (by decide)

theorem trace_rejected_late_acquire :
    ∃ s, Reach false s ∧ run {} s.sh.trace = none ∧
      s.sh.trace = [.semAcq, .queue 2, .prevNone, .term, .tportClose, .newBegin 2, .newEnd 2, .newOffer 2,
        .newRetract 2, .semRel, .semAcq, .prevNone] := by
  refine ⟨lateState, reach_runSched .init (Option.some_get _).symm, ?_, ?_⟩ <;> decide

/-- GENUINE (Go, misbehaving remote): the remote sends two Invoke packets for stream 2.  The reader is
    released (`pdone`) as soon as NewServerStream has taken the first one, reads the second one and loads
    the current-stream pointer BEFORE the stream created for the first one is published, so it forwards
    the second one as well; the next NewServerStream creates a second stream with id 2. -/
def dupSched : List Mv :=
  [.en (.spawn 2 .server), .en (.spawn 3 .server), S 0 0, .en (.arrive ⟨2, .invoke⟩), S 3 0, S 0 0, S 3 0, S 0 0, S 3 0,
   S 0 0, S 3 0, S 0 0, S 3 0, S 0 0, S 3 0, S 3 0, S 3 0, S 0 0, S 0 0, S 0 0, .en (.arrive ⟨2, .invoke⟩), S 3 0, S 0 0,
   S 3 0, S 3 0, S 3 0, S 3 0, .en (.appTerm 2), S 3 0, .en (.appFin 2), S 1 0, .en .tokSend, S 1 0, S 1 0, S 1 0,
   S 2 0, S 1 0, S 2 0, S 2 0, S 2 0, S 2 0, S 0 0, S 0 0, S 2 0, S 0 0, S 2 0, S 0 0, S 2 0, S 2 0, S 2 0, S 2 0]

def dupState : St := (runSched { sh := { soft := false } } dupSched).get (by decide)

theorem trace_rejected_repeated_invoke :
    ∃ s, Reach false s ∧ run {} s.sh.trace = none ∧
      s.sh.trace = [.semAcq, .queue 2, .prevNone, .newBegin 2, .newEnd 2, .newOffer 2, .sfinRecv 2, .semRel, .semAcq,
        .prevDone 2, .queue 2, .newBegin 2] := by
  refine ⟨dupState, reach_runSched .init (Option.some_get _).symm, ?_, ?_⟩ <;> decide

/-- ARTEFACT of allowing both kinds of callers on one manager: a client stream 1, then a server stream
    for an invoke with id 1 -/
def mixSched : List Mv :=
  [.en (.spawn 2 .server), .en (.spawn 3 .client), S 3 0, S 3 0, S 3 0, S 3 0, S 3 0, S 3 0, S 0 0,
   .en (.arrive ⟨1, .invoke⟩), S 3 0, S 0 0, S 3 0, S 3 0, S 3 0, S 3 0, .en (.appTerm 1), S 3 0, .en (.appFin 1), S 1 0,
   .en .tokSend, S 1 0, S 1 0, S 1 0, S 2 0, S 1 0, S 2 0, S 2 0, S 2 0, S 2 0, S 0 0, S 0 0, S 2 0, S 0 0, S 2 0, S 0 0,
   S 2 0, S 2 0, S 2 0, S 2 0]

def mixState : St := (runSched { sh := { soft := false } } mixSched).get (by decide)

theorem trace_rejected_mixed_roles_artefact :
    ∃ s, Reach false s ∧ run {} s.sh.trace = none := by
  refine ⟨mixState, reach_runSched .init (Option.some_get _).symm, ?_⟩
  decide

/-! ## Part 2 — safety facts of the model -/

/-- (a) the transport is closed at most once — in every execution of the model as written -/
theorem terminate_once {soft : Bool} {s : St} (h : Reach soft s) : s.sh.closes ≤ 1 := by
  suffices hh : Typ s ∧ Tm s from terminate_once_of_tm hh.2
  induction h with
  | init => exact ⟨typ_init soft, tm_init soft⟩
  | step t ch _ hs ih =>
    obtain ⟨sh', p', htr, rfl⟩ := step_tr hs
    exact ⟨typ_upd ih.1 (typ_tr (ih.1 t) htr), tm_tr ih.2 rfl htr⟩
  | env e _ hs ih =>
    obtain ⟨t, sh', p', htr, rfl⟩ := env_tr hs
    exact ⟨typ_upd ih.1 (typ_etr ih.1 htr), tm_etr ih.2 htr⟩

/-- (b) at most one thread holds the stream semaphore (`holds`: a caller from its acquisition until its
    release or until manageStreams has taken its stream; manageStream from then until its release); the
    semaphore is taken while somebody holds it; and a taken semaphore has a holder — except on a
    terminated manager, where NewClientStream returns without releasing it when its offer is retracted
    (`sem_leak_after_retract` below) -/
theorem sem_holder_unique {soft : Bool} {s : St} (h : ReachF soft s) :
    (∀ t u, holds s.sh (s.pc t) = true → holds s.sh (s.pc u) = true → t = u) ∧
    (∀ t, holds s.sh (s.pc t) = true → s.sh.sem = true) ∧
    (s.sh.sem = true → s.sh.term = false → ∃ t, holds s.sh (s.pc t) = true) :=
  ⟨(safe_reachF h).sem.uniq, (safe_reachF h).sem.held, (safe_reachF h).sem.free⟩

/-- ARTEFACT: why (b)–(d) and Part 3 are stated for `ReachF`.  When a stream id is used twice the model
    confuses the two offers on `m.streams` (it compares ids, Go hands over pointers): here call 3 passed
    acquireSemaphore's term check early, wins the semaphore after the manager terminated and stream 1 was
    managed to its end, finds `sbuf.Get() == nil` (buffer closed) and creates a second stream 1 — while
    call 2 has not yet noticed that its own offer of stream 1 was taken.  Both now look like the
    offerer. -/
def twoHoldersSched : List Mv :=
  [.en (.spawn 2 .client), .en (.spawn 3 .client), S 3 0, S 2 0, S 0 0, .en .readErr, S 2 0, S 0 0, S 2 0, S 0 0, S 2 0,
   S 0 0, S 2 0, S 0 0, S 2 0, S 0 0, S 2 0, S 0 0, S 2 0, S 2 0, S 2 0, S 2 0, .en (.appTerm 1), S 2 0, .en (.appFin 1),
   S 1 0, .en .tokSend, S 1 1, S 1 0, S 1 0, S 1 0, S 3 1, S 3 0, S 3 0, S 3 0, S 3 0, S 3 0, S 3 0, S 3 0, S 3 0, S 3 0,
   S 3 0]
def twoHoldersState : St := (runSched { sh := { soft := false } } twoHoldersSched).get (by decide)

theorem sem_holder_unique_needs_fresh_ids_artefact :
    ∃ s, Reach false s ∧ holds s.sh (s.pc 2) = true ∧ holds s.sh (s.pc 3) = true ∧
      s.pc 2 = .nOffered .client 1 ∧ s.pc 3 = .nOffered .client 1 := by
  refine ⟨twoHoldersState, reach_runSched .init (Option.some_get _).symm, ?_, ?_, ?_, ?_⟩ <;> decide

/-- GENUINE (Go, client connection): the same execution is a `ReachClient` execution and its trace is
    rejected — call 3 reports `prev.none` and creates a second stream 1 on the terminated manager -/
def clientLateState : St := (runSchedClient { sh := { soft := false } } twoHoldersSched).get (by decide)

theorem trace_rejected_late_acquire_client :
    ∃ s, ReachClient false s ∧ s.sh.term = true ∧ run {} s.sh.trace = none ∧
      s.sh.trace = [.semAcq, .term, .tportClose, .prevNone, .newBegin 1, .newEnd 1, .newOffer 1, .sfinRecv 1, .semRel,
        .semAcq, .prevNone, .newBegin 1, .newEnd 1, .newOffer 1] := by
  refine ⟨clientLateState, reachClient_runSched .init (Option.some_get _).symm, ?_, ?_, ?_⟩ <;> decide

/-- (c) `m.sem.Recv()` never blocks -/
theorem blocked_release_never {soft : Bool} {s : St} (h : ReachF soft s) {t : Tid}
    (ht : s.pc t = .mRel ∨ s.pc t = .aFailRel ∨ s.pc t = .sFailRel) :
    s.sh.sem = true :=
  blocked_release_never_of_sem (safe_reachF h).sem ht

/-- (d) the reader waiting in `m.pdone.Recv()` will be woken; `m.pdone.Send()` never blocks -/
theorem pdone_balance {soft : Bool} {s : St} (h : ReachF soft s) :
    (s.pc readerTid = .rPdone → s.sh.pdone = false → ∃ t p, s.pc t = .sGot p) ∧
    (∀ t p, s.pc t = .sGot p → s.sh.pdone = false) :=
  pdone_balance_of_pk (safe_reachF h).pk

/-! ## non-vacuity -/

/-- a client RPC: created, published, handed to manageStreams, a message delivered, finished by the
    application, fin token consumed, semaphore released — a `ReachP` execution -/
def goodSched1 : List Mv := [.en (.spawn 2 .client), S 2 0]
def goodSched2 : List Mv :=
  [S 2 0, S 2 0, S 2 0, S 2 0, S 2 0, S 2 0, S 2 0, S 2 0, S 2 0, S 2 0, S 1 0, S 2 0,
   S 0 0, .en (.arrive ⟨1, .other⟩), S 0 0, S 0 0, S 0 0, .en (.appTerm 1), .en (.appFin 1), .en .tokSend, S 1 1, S 1 0,
   S 1 0, S 1 0]

def goodS1 : St := (runSchedP .client { sh := { soft := false } } goodSched1).get (by decide)
def goodS2 : St := (step goodS1 2 0).get (by decide)
def goodS3 : St := (runSchedP .client goodS2 goodSched2).get (by decide)

theorem good_run :
    ∃ s, ReachP false .client s ∧
      s.sh.trace = [.semAcq, .prevNone, .newBegin 1, .newEnd 1, .newOffer 1, .deliver 1, .sfinRecv 1, .semRel] ∧
      s.sh.sem = false ∧ s.pc 2 = .done true ∧ s.pc mgrTid = .mTop ∧ (s.sh.strm 1).fin = true := by
  have r1 : ReachP false .client goodS1 := reachP_runSchedP .init (Option.some_get _).symm
  have r2 : ReachP false .client goodS2 := by
    refine .step 2 0 r1 (Option.some_get _).symm ?_
    intro c _ _ hst
    obtain ⟨sid, hp, -⟩ := hst
    have : (goodS1.sh.strm sid).pub = false := rfl
    rw [this] at hp; cases hp
  refine ⟨goodS3, reachP_runSchedP r2 (Option.some_get _).symm, ?_, ?_, ?_, ?_, ?_⟩ <;> decide

/-! ## Part 3 — no deadlock inside the manager

  `Enabled s t` = thread `t` can step, `Stuck s` = no thread can, `EnvQuiet s` = the application side has
  finished every stream and sent its token, and a closed transport fails a pending read
  (`Lemmas/ManagerSysLive.lean`).  `tokPc p = 1` iff `p` is a fin-token send (`.rTok`, `.xTok`,
  `.mSendCancelTok`).
-/

/-- on a manager that is not terminated, manageStream's own fin-token send (inside `stream.Cancel` /
    `stream.SendCancel`, on the goroutine that is also the only receiver of `m.sfin`) always finds the
    channel empty: it never blocks.  Holds in both cancel modes since fix 110f4d6; before it, soft-cancel
    mode released the semaphore BEFORE `SendCancel`, the next stream could be created as soon as this one's
    fin signal was set, be finished by the reader and fill `m.sfin` first: manageStream then blocked for
    ever in its own send, NewClientStream in its offer, the manager was wedged without being terminated
    (found here as a stuck state of the model, reproduced on the Go code by the main author). -/
theorem token_send_never_blocks {soft : Bool} {s : St} (h : ReachF soft s) (hterm : s.sh.term = false)
    (htok : tokPc (s.pc mgrTid) ≠ 0) : s.sh.sfin = false := by
  obtain ⟨f, c, ab, hg⟩ := reachG_of_reachF h
  exact token_send_free (safe_reachF h) (acc_reachG hg) hterm htok

/-- (3a), repaired.  In a quiescent state of a manager that is not terminated, nothing inside the manager
    prevents the next stream: manageStreams is idle at its select, the fin channel is empty, the reader
    is reading / offering an invoke / waiting for the stream of a forwarded invoke, and every caller is
    outside, waiting for the semaphore, or a NewServerStream waiting for an invoke (`.sSel`) — which is
    then the one holder of the semaphore.  Both cancel modes.
    Repair of the statement as posed: `sem = false` is wrong when a server waits at `.sSel` (it holds the
    semaphore; callers may then wait at `.aSel`): `ready_when_quiet_as_posed_false`.  For a client
    manager the conclusion as posed holds: `ready_when_quiet_client`. -/
theorem ready_when_quiet {soft : Bool} {s : St} (h : ReachF soft s) (hst : Stuck s) (hq : EnvQuiet s)
    (hterm : s.sh.term = false) :
    s.pc mgrTid = .mTop ∧ s.sh.sfin = false ∧ s.sh.streamsCh = none ∧
    (s.pc readerTid = .rRead ∨ (∃ p, s.pc readerTid = .rOffered p) ∨ ∃ p c, s.pc readerTid = .rWait p c) ∧
    (∀ t, 2 ≤ t → s.pc t = .idle ∨ (∃ b, s.pc t = .done b) ∨ s.pc t = .sSel ∨ ∃ c, s.pc t = .aSel c) ∧
    (s.sh.sem = true ↔ ∃ t, s.pc t = .sSel) ∧ (∀ t c, s.pc t = .aSel c → s.sh.sem = true) := by
  obtain ⟨f, c, ab, hg⟩ := reachG_of_reachF h
  apply ready_of_stuck (safe_reachF h) (lx_reachF h) (acc_reachG hg) hst hq hterm
  cases hx : tokPc (s.pc mgrTid) with
  | zero => rfl
  | succ n =>
    have h1 := token_send_never_blocks h hterm (by rw [hx]; simp)
    have h2 := sfin_of_blocked_tok (blocked_of_not_enabled (hst mgrTid)) (by rw [hx]; simp)
    rw [h1] at h2; cases h2

/-- … in particular a client manager (no NewServerStream call) is ready: the semaphore is free, so
    the next NewClientStream acquires it at once -/
theorem ready_when_quiet_client {soft : Bool} {s : St} (h : ReachF soft s) (hst : Stuck s) (hq : EnvQuiet s)
    (hterm : s.sh.term = false) (hcl : ∀ t, s.pc t ≠ .sSel) :
    s.sh.sem = false ∧ s.pc mgrTid = .mTop ∧ s.sh.sfin = false ∧
    (s.pc readerTid = .rRead ∨ (∃ p, s.pc readerTid = .rOffered p) ∨ ∃ p c, s.pc readerTid = .rWait p c) ∧
    ∀ t, 2 ≤ t → s.pc t = .idle ∨ ∃ b, s.pc t = .done b := by
  obtain ⟨h1, h2, -, h4, h5, h6, h7⟩ := ready_when_quiet h hst hq hterm
  have hsem : s.sh.sem = false := by
    cases hx : s.sh.sem with
    | false => rfl
    | true => obtain ⟨t, ht⟩ := h6.1 hx; exact absurd ht (hcl t)
  refine ⟨hsem, h1, h2, h4, ?_⟩
  intro t ht
  rcases h5 t ht with h | h | h | ⟨c, h⟩
  · exact Or.inl h
  · exact Or.inr h
  · exact absurd h (hcl t)
  · have := h7 t c h; rw [hsem] at this; cases this

/-- (3b), repaired.  In a quiescent state of a terminated manager, Close completes: the reader and
    manageStreams are gone and have set their signals, the transport was closed exactly once, and no
    Close call is still waiting.  The hypothesis that manageStream is not blocked sending a fin token is
    needed on a TERMINATED manager: `close_hangs_concurrent_servers` (two concurrent NewServerStream calls;
    `drpcserver` has one).  Whether the one about the reader is needed is open (no witness without mixing
    client and server calls is known). -/
theorem close_completes {soft : Bool} {s : St} (h : ReachF soft s) (hst : Stuck s) (hq : EnvQuiet s)
    (hterm : s.sh.term = true) (hrt : tokPc (s.pc readerTid) = 0) (hself : tokPc (s.pc mgrTid) = 0) :
    s.sh.readDone = true ∧ s.sh.streamDone = true ∧ s.sh.tportSet = true ∧ s.sh.closes = 1 ∧
    (∃ b, s.pc readerTid = .done b) ∧ (∃ b, s.pc mgrTid = .done b) ∧
    ∀ t, s.pc t ≠ .cWaitStream ∧ s.pc t ≠ .cWaitRead ∧ s.pc t ≠ .cWaitTport := by
  obtain ⟨f, c, ab, hg⟩ := reachG_of_reachF h
  exact closed_of_stuck (safe_reachF h) (lx_reachF h) (acc_reachG hg) hst hq hterm hrt hself

/-- (3b) for a client connection's manager (any number of concurrent NewClientStream callers, no
    NewServerStream; `ReachFE EnvNoServer` = `ReachF` with that restriction): Close completes, no further
    hypothesis.  (At most one stream is ever abandoned — created but never handed to manageStreams — because
    the NewClientStream that retracts its offer keeps the semaphore; so the fin channel is never full when a
    manager goroutine has to send.) -/
theorem close_completes_client {soft : Bool} {s : St} (h : ReachFE EnvNoServer soft s) (hst : Stuck s)
    (hq : EnvQuiet s) (hterm : s.sh.term = true) :
    s.sh.readDone = true ∧ s.sh.streamDone = true ∧ s.sh.tportSet = true ∧ s.sh.closes = 1 ∧
    (∃ b, s.pc readerTid = .done b) ∧ (∃ b, s.pc mgrTid = .done b) ∧
    ∀ t, s.pc t ≠ .cWaitStream ∧ s.pc t ≠ .cWaitRead ∧ s.pc t ≠ .cWaitTport :=
  closed_client h hst hq hterm

/-- (3b) for a manager used as drpcserver.ServeOne does (one NewServerStream call at a time): Close
    completes, no further hypothesis.  With two concurrent NewServerStream calls it can hang:
    `close_hangs_concurrent_servers`. -/
theorem close_completes_serve {soft : Bool} {s : St} (h : ReachServe soft s) (hst : Stuck s)
    (hq : EnvQuiet s) (hterm : s.sh.term = true) :
    s.sh.readDone = true ∧ s.sh.streamDone = true ∧ s.sh.tportSet = true ∧ s.sh.closes = 1 ∧
    (∃ b, s.pc readerTid = .done b) ∧ (∃ b, s.pc mgrTid = .done b) ∧
    ∀ t, s.pc t ≠ .cWaitStream ∧ s.pc t ≠ .cWaitRead ∧ s.pc t ≠ .cWaitTport :=
  closed_serve h hst hq hterm

/-- … and the manager is ready for the next RPC (3a) in these profiles too (they are `ReachF` executions) -/
theorem reachServe_reachF {soft : Bool} {s : St} (h : ReachServe soft s) : ReachF soft s :=
  (reachFE_of_serve h).reachF

/-! ### the statements as posed are false -/

/-- concrete quiescent states: all threads below `n` are blocked, all others have not started -/
theorem stuck_concrete {s : St} (n : Nat) (h1 : ∀ t : Nat, t < n → BlockedAt s t (s.pc t))
    (h2 : ∀ t, n ≤ t → s.pc t = .idle) : Stuck s := by
  apply stuck_of_blocked
  intro t
  by_cases ht : t < n
  · exact h1 t ht
  · rw [h2 t (by somega)]; trivial

/-- (3a) as posed (`sem = false`) fails already for a NewServerStream call waiting for an invoke: it
    holds the semaphore (a modelling-level remark, not a defect: the next NewClientStream is not what
    such a manager is for) -/
def srvWaitSched : List Mv := [.en (.spawn 2 .server), S 2 0, S 2 0, S 2 0, S 2 0, S 2 0, S 2 0, S 0 0]
def srvWaitState : St := (runSchedF { sh := { soft := false } } srvWaitSched).get (by decide)

theorem ready_when_quiet_as_posed_false :
    ∃ s, ReachF false s ∧ Stuck s ∧ EnvQuiet s ∧ s.sh.term = false ∧ s.sh.sem = true ∧ s.pc 2 = .sSel := by
  have hr : runSchedF { sh := { soft := false } } srvWaitSched = some srvWaitState := (Option.some_get _).symm
  refine ⟨srvWaitState, reachF_runSchedF .init hr, ?_, ⟨by decide, ?_, by decide⟩, by decide, by decide, by decide⟩
  · refine stuck_concrete 3 (by decide) ?_
    intro t ht
    have e : spawnBound srvWaitSched = 3 := by decide
    exact idle_above_runF hr (init_idle false) (Nat.le_refl 2) t (by rw [e]; exact ht)
  · intro sid hm
    rcases made_runF hr hm with h | h
    · cases h
    · have e : sidsNew { sh := { soft := false } } srvWaitSched = [] := by decide
      rw [e] at h; cases h

/-! The witnesses `soft_cancel_self_deadlock` / `close_hangs_soft_cancel` of the previous version of this
    file (manageStream blocked at `.mSendCancelTok` with `m.sfin` full, NewClientStream blocked at its
    offer, the manager wedged but not terminated; Close waiting for ever at `.cWaitStream`) were states of
    the model of the code BEFORE fix 110f4d6; they are not reachable any more:
    `token_send_never_blocks`, `ready_when_quiet`. -/

/-- GENUINE (Go, two concurrent NewServerStream calls; shown for SoftCancel = false, the schedule does not use
    the cancel path): `Close` hangs.  Call 2 holds
    the semaphore and creates stream 1; the remote's next invoke (stream 2) makes the reader cancel stream 1,
    which finishes it: the reader sends its fin token (channel now full).  Close terminates the manager;
    call 2 retracts its offer (nobody will ever receive stream 1's token) and releases the semaphore; call
    3, which had passed the term check before, wins the semaphore, takes the pending invoke and creates
    stream 2; manageStreams (both select branches ready) takes it, cancels it because the manager is
    terminated, and blocks sending stream 2's fin token on the full channel.  Close waits for ever at
    `.cWaitStream`.  (The trace is accepted by the protocol checker.) -/
def hardCloseSched : List Mv :=
  [.en (.spawn 2 .server), S 2 0, S 2 0, S 2 0, S 2 0, S 2 0, S 2 0,
   .en (.spawn 3 .server), S 3 0,
   S 0 0, .en (.arrive ⟨1, .invoke⟩), S 0 0, S 0 0, S 0 0, S 0 0, S 0 0,
   S 2 0, S 2 0, S 2 0, S 2 0, S 2 0,
   S 0 0, S 0 0, S 0 0, .en (.arrive ⟨2, .invoke⟩), S 0 0, S 0 0, S 0 0, S 0 1, S 0 0, S 0 0, S 0 0,
   S 2 0, S 2 0, S 2 0,
   .en (.spawn 4 .close), S 4 0, S 4 0, S 4 0, S 4 0, S 4 0, S 4 0,
   S 2 0, S 2 0, S 2 0, S 2 0,
   S 3 1, S 3 0, S 3 0, S 3 0, S 3 0, S 3 0, S 3 1, S 3 0, S 3 0, S 3 0, S 3 0, S 3 0, S 3 0, S 3 0,
   S 1 0, S 1 0, S 1 1,
   S 0 0, S 0 0, S 0 0, S 0 0,
   S 3 0]
def hardCloseState : St := (runSchedF { sh := { soft := false } } hardCloseSched).get (by decide)

theorem close_hangs_concurrent_servers :
    ∃ s, ReachF false s ∧ Stuck s ∧ EnvQuiet s ∧ s.sh.term = true ∧ s.sh.streamDone = false ∧ s.sh.readDone = true ∧
      s.pc mgrTid = .xTok 2 (.mgrTerm 2) ∧ s.sh.sfin = true ∧ s.pc 4 = .cWaitStream ∧
      (run {} s.sh.trace).isSome := by
  have hr : runSchedF { sh := { soft := false } } hardCloseSched = some hardCloseState := (Option.some_get _).symm
  refine ⟨hardCloseState, reachF_runSchedF .init hr, ?_, ⟨by decide, ?_, by decide⟩, by decide, by decide, by decide,
    by decide, by decide, by decide, by decide⟩
  · refine stuck_concrete 5 (by decide) ?_
    intro t ht
    have e : spawnBound hardCloseSched = 5 := by decide
    exact idle_above_runF hr (init_idle false) (Nat.le_refl 2) t (by rw [e]; exact ht)
  · intro sid hm
    rcases made_runF hr hm with h | h
    · cases h
    · have : sid = 1 ∨ sid = 2 := by
        have h' : sid ∈ sidsNew { sh := { soft := false } } hardCloseSched := h
        have e : sidsNew { sh := { soft := false } } hardCloseSched = [1, 2] := by decide
        rw [e] at h'
        simpa using h'
      rcases this with rfl | rfl <;> decide

/-! ## Part 4 — cancellation and termination seen from the callers (C04 / C05 at the manager level) -/

/-- a cancelled context always lets the call go on (and fail) at every wait of acquireSemaphore,
    waitForPreviousStream and NewServerStream's packet loop — in EVERY state, reachable or not -/
theorem ctx_cancel_unblocks_caller {s : St} {t : Tid} (hctx : s.sh.ctx t = true)
    (hp : (∃ c, s.pc t = .aStart c) ∨ (∃ c, s.pc t = .aSel c) ∨ (∃ c p, s.pc t = .aPrevSel c p) ∨ s.pc t = .sSel) :
    Enabled s t :=
  enabled_of_ctx hctx hp

/-- the complete list of the other positions at which a caller thread can be blocked (`BlockedAt`, which is
    exact: `blocked_of_not_enabled` / `not_enabled_of_blocked`): none of them looks at the caller's context -/
theorem positions_not_cancellable_by_ctx {s : St} {t : Tid} {p : PC} (ctx' : Tid → Bool)
    (hp : (∃ c sid, p = .nOffer c sid) ∨ (∃ c sid, p = .nOffered c sid) ∨ (∃ q, p = .sGot q) ∨ p = .aFailRel ∨
      p = .sFailRel ∨ p = .cWaitStream ∨ p = .cWaitRead ∨ p = .cWaitTport ∨ p = .idle ∨ ∃ b, p = .done b) :
    BlockedAt { s with sh := { s.sh with ctx := ctx' } } t p ↔ BlockedAt s t p :=
  blocked_ctx_independent ctx' hp

/-- … but four of them never block at all: the acknowledgement `m.pdone.Send()`, the two semaphore
    releases, and the offer step of newStream -/
theorem uncancellable_positions_never_block {soft : Bool} {s : St} (h : ReachF soft s) {t : Tid}
    (hp : (∃ q, s.pc t = .sGot q) ∨ s.pc t = .aFailRel ∨ s.pc t = .sFailRel ∨ ∃ c sid, s.pc t = .nOffer c sid) :
    Enabled s t := by
  have hs := safe_reachF h
  apply Classical.byContradiction
  intro hne
  have hb := blocked_of_not_enabled hne
  rcases hp with ⟨q, hp⟩ | hp | hp | ⟨c, sid, hp⟩
  · rw [hp] at hb
    have := (hs.pk.got t (by rw [hp]; rfl)).1
    rw [show s.sh.pdone = true from hb] at this; cases this
  · rw [hp] at hb
    have := hs.sem.held t (by rw [hp]; rfl)
    rw [show s.sh.sem = false from hb] at this; cases this
  · rw [hp] at hb
    have := hs.sem.held t (by rw [hp]; rfl)
    rw [show s.sh.sem = false from hb] at this; cases this
  · exact hne ((handoff_ok hs (lx_reachF h) (norf_reach h.reach) (t := t)).2.2 c sid hp)

/-- the hand-over of a new stream (newStream's select has no ctx branch) never waits for another stream:
    while a caller offers its stream, manageStreams is at its select — and takes it — or the manager is
    terminated — and the caller retracts.  (So the only waits a context cannot end are this one, which ends
    at once, and Close waiting for the goroutines, `close_completes*`.) -/
theorem handoff_never_waits_long {soft : Bool} {s : St} (h : ReachF soft s) {t : Tid} {c : Call} {sid : Sid}
    (hp : s.pc t = .nOffered c sid) :
    (s.sh.streamsCh = some sid → s.pc mgrTid = .mTop ∨ s.sh.term = true) ∧ (Enabled s mgrTid ∨ Enabled s t) := by
  have hk := handoff_ok (safe_reachF h) (lx_reachF h) (norf_reach h.reach) (t := t)
  exact ⟨hk.1 c sid hp, hk.2.1 c sid hp⟩

/-- termination leaves nothing blocked (client connection): in a quiescent state of a terminated manager
    no NewClientStream call is left inside the manager, the reader and manageStreams are gone, the transport
    was closed exactly once -/
theorem termination_unblocks_everything_client {soft : Bool} {s : St} (h : ReachFE EnvNoServer soft s)
    (hst : Stuck s) (hq : EnvQuiet s) (hterm : s.sh.term = true) :
    (∀ t, 2 ≤ t → s.pc t = .idle ∨ ∃ b, s.pc t = .done b) ∧ (∃ b, s.pc readerTid = .done b) ∧
    (∃ b, s.pc mgrTid = .done b) ∧ s.sh.closes = 1 ∧ s.sh.readDone = true ∧ s.sh.streamDone = true ∧
    s.sh.tportSet = true :=
  unblocked_client h hst hq hterm

/-- the same for the executions of `ReachP soft .client` (drpcconn, late acquisition on a stale pointer excluded) -/
theorem termination_unblocks_everything_clientP {soft : Bool} {s : St} (h : ReachP soft .client s)
    (hst : Stuck s) (hq : EnvQuiet s) (hterm : s.sh.term = true) :
    (∀ t, 2 ≤ t → s.pc t = .idle ∨ ∃ b, s.pc t = .done b) ∧ (∃ b, s.pc readerTid = .done b) ∧
    (∃ b, s.pc mgrTid = .done b) ∧ s.sh.closes = 1 ∧ s.sh.readDone = true ∧ s.sh.streamDone = true ∧
    s.sh.tportSet = true :=
  unblocked_client (reachFE_of_reachP_client h) hst hq hterm

/-- … and for drpcserver.ServeOne -/
theorem termination_unblocks_everything_serve {soft : Bool} {s : St} (h : ReachServe soft s)
    (hst : Stuck s) (hq : EnvQuiet s) (hterm : s.sh.term = true) :
    (∀ t, 2 ≤ t → s.pc t = .idle ∨ ∃ b, s.pc t = .done b) ∧ (∃ b, s.pc readerTid = .done b) ∧
    (∃ b, s.pc mgrTid = .done b) ∧ s.sh.closes = 1 ∧ s.sh.readDone = true ∧ s.sh.streamDone = true ∧
    s.sh.tportSet = true :=
  unblocked_serve h hst hq hterm

/-- a transport read error (no Close call needed): from `Env.readErr` on the reader is at `errPc` — in
    `terminate`, at its deferred exit, or gone — for ever (`errPc_step`, `errPc_env`); at `.tSet .reader` it can
    always step, and that step leaves the term signal set; past it the manager is terminated -/
theorem read_error_sets_term {soft : Bool} {s : St} (h : ReachF soft s) (he : errPc (s.pc readerTid) = true) :
    (∀ t ch s', step s t ch = some s' → errPc (s'.pc readerTid) = true) ∧
    (∀ e s', envStep s e = some s' → errPc (s'.pc readerTid) = true) ∧
    (s.pc readerTid = .tSet .reader → Enabled s readerTid ∧
      ∀ ch s', step s readerTid ch = some s' → s'.sh.term = true) ∧
    (s.pc readerTid ≠ .tSet .reader → s.sh.term = true) :=
  ⟨fun _ _ _ hs => errPc_step hs he, fun _ _ hs => errPc_env hs he,
   fun hp => ⟨(tSet_reader_step (s' := s) (ch := 0) hp).1, fun ch s' hs => (tSet_reader_step hp).2 hs⟩,
   fun hn => term_of_errPc (safe_reachF h) (lx_reachF h) he hn⟩

/-- the form to quote: in a quiescent state after a read error the manager is terminated (so the three
    theorems above apply) -/
theorem read_error_terminates {soft : Bool} {s : St} (h : ReachF soft s) (hst : Stuck s) (hq : EnvQuiet s)
    (he : errPc (s.pc readerTid) = true) : s.sh.term = true := by
  cases hterm : s.sh.term with
  | true => rfl
  | false =>
    exfalso
    obtain ⟨-, -, -, hrd, -⟩ := ready_when_quiet h hst hq hterm
    rcases hrd with hp | ⟨p, hp⟩ | ⟨p, c, hp⟩ <;> rw [hp] at he <;> cases he

/-- the leak mentioned in (b): NewClientStream whose offer is retracted returns without releasing the
    semaphore (`return m.newStream(...)` after a successful acquireSemaphore) — harmless, the manager is
    terminated -/
def leakSched : List Mv :=
  [.en (.spawn 2 .client), S 2 0, S 2 0, S 2 0, S 2 0, S 2 0, S 2 0, S 2 0, S 2 0, S 2 0, S 2 0, S 2 0, S 2 0,
   .en (.spawn 3 .close), S 3 0, S 3 0, S 3 0, S 3 0, S 3 0, S 3 0, S 2 0, S 2 0]
def leakState : St := (runSchedF { sh := { soft := false } } leakSched).get (by decide)

theorem sem_leak_after_retract :
    ∃ s, ReachF false s ∧ s.sh.sem = true ∧ s.sh.term = true ∧ s.pc 2 = .done false ∧
      ∀ t, holds s.sh (s.pc t) = false := by
  have hr : runSchedF { sh := { soft := false } } leakSched = some leakState := (Option.some_get _).symm
  refine ⟨leakState, reachF_runSchedF .init hr, by decide, by decide, by decide, ?_⟩
  intro t
  by_cases ht : t < 4
  · have : ∀ u : Nat, u < 4 → holds leakState.sh (leakState.pc u) = false := by decide
    exact this t ht
  · have e : spawnBound leakSched = 4 := by decide
    rw [idle_above_runF hr (init_idle false) (Nat.le_refl 2) t (by rw [e]; somega)]
    rfl

/-! ## Part 5 — `prev.done` is reported only for a finished stream (hypothesis (S2) of Props/ComposeManager.lean) -/

/-- (a) the fin flag of a stream is stable: one thread step or one environment move never clears it, in an
    execution that does not re-use stream ids.  (The only step that could: `.nNew` re-creates the record of
    its id; `fin_reset_by_reused_id_artefact`.) -/
theorem stream_fin_is_stable {soft : Bool} {s : St} (h : ReachF soft s) {p : Sid} (hp : (s.sh.strm p).fin = true) :
    (∀ t ch s', step s t ch = some s' → FreshStep s t → (s'.sh.strm p).fin = true) ∧
    (∀ e s', envStep s e = some s' → (s'.sh.strm p).fin = true) :=
  ⟨fun _ _ _ hs hf => fin_stable_step h hs hf hp, fun _ _ hs => fin_stable_env hs hp⟩

/-- … for the executions of `ReachP` (where ids are fresh by `sim_reachP`) without side condition -/
theorem stream_fin_is_stable_reachP {soft : Bool} {role : Call} {s : St} (h : ReachP soft role s) {p : Sid}
    (hp : (s.sh.strm p).fin = true) :
    (∀ t ch s', step s t ch = some s' → (s'.sh.strm p).fin = true) ∧
    (∀ e s', envStep s e = some s' → (s'.sh.strm p).fin = true) := by
  obtain ⟨hF, ps, hrun, hsim⟩ := sim_reachP h
  exact ⟨fun t _ _ hs => fin_stable_step hF hs (fresh_of_sim (safe_reachF hF) hsim t) hp,
    fun _ _ hs => fin_stable_env hs hp⟩

/-- ARTEFACT of re-used ids (the run of `trace_rejected_repeated_invoke`, two steps earlier): the second
    NewServerStream for id 2 re-creates the record of stream 2 and thereby clears its fin flag -/
def dupPreState : St := (runSched { sh := { soft := false } } (dupSched.take (dupSched.length - 2))).get (by decide)

theorem fin_reset_by_reused_id_artefact :
    ∃ s s', Reach false s ∧ step s 2 0 = some s' ∧ (s.sh.strm 2).fin = true ∧ (s'.sh.strm 2).fin = false ∧
      s.pc 2 = .nNew .server 2 := by
  refine ⟨dupPreState, (step dupPreState 2 0).get (by decide), reach_runSched .init (Option.some_get _).symm,
    (Option.some_get _).symm, ?_, ?_, ?_⟩ <;> decide

/-- (b) invariant form: a thread about to report `prev.done p` has seen stream `p` finished, and the flag is
    still set; and every `prev.done p` in the trace is for a finished stream -/
theorem sys_prevDone_only_after_finished_reachF {soft : Bool} {s : St} (h : ReachF soft s) :
    (∀ t c p, s.pc t = .aEvPrevDone c p → (s.sh.strm p).fin = true) ∧
    (∀ p, Ev.prevDone p ∈ s.sh.trace → (s.sh.strm p).fin = true) :=
  ⟨(prevFin_reachF h).atEv, (prevFin_reachF h).inTrace⟩

theorem sys_prevDone_only_after_finished {soft : Bool} {role : Call} {s : St} (h : ReachP soft role s) {p : Sid}
    (hp : Ev.prevDone p ∈ s.sh.trace) : (s.sh.strm p).fin = true :=
  (prevFin_reachF (reachP_reachF h)).inTrace p hp

/-- the prefix form: the step that appends `prev.done p` is taken from `.aEvPrevDone _ p`, where the flag is
    already set — so at EVERY earlier moment at which the trace contained `prev.done p`, stream `p` was finished -/
theorem sys_prevDone_reported_when_finished {soft : Bool} {role : Call} {s s' : St} {t : Tid} {ch : Nat} {p : Sid}
    (h : ReachP soft role s) (hs : step s t ch = some s') (hnew : Ev.prevDone p ∈ s'.sh.trace)
    (hold : Ev.prevDone p ∉ s.sh.trace) : (s.sh.strm p).fin = true ∧ ∃ c, s.pc t = .aEvPrevDone c p := by
  obtain ⟨sh', p', htr, rfl⟩ := step_tr hs
  simp only [upd_sh] at hnew
  rw [tr_trace htr, List.mem_append] at hnew
  rcases hnew with h1 | h1
  · exact absurd h1 hold
  · cases he : pcEv (s.pc t) with
    | none => rw [he] at h1; cases h1
    | some e =>
      rw [he] at h1
      simp only [Option.toList, List.mem_singleton] at h1
      subst h1
      obtain ⟨c, hc⟩ := pcEv_prevDone he
      exact ⟨(prevFin_reachF (reachP_reachF h)).atEv t c p hc, c, hc⟩

theorem sys_prevDone_only_after_finished_serve {soft : Bool} {s : St} (h : ReachServe soft s) {p : Sid}
    (hp : Ev.prevDone p ∈ s.sh.trace) : (s.sh.strm p).fin = true :=
  sys_prevDone_only_after_finished (reachServe_reachP h) hp

theorem sys_prevDone_only_after_finished_client {soft : Bool} {s : St} (h : ReachClient soft s)
    (hterm : s.sh.term = false) {p : Sid} (hp : Ev.prevDone p ∈ s.sh.trace) : (s.sh.strm p).fin = true :=
  sys_prevDone_only_after_finished (reachClient_reachP h hterm) hp

/-- (c) non-vacuity: after `good_run`, a second NewClientStream waits for stream 1 and reports `prev.done 1` -/
def pdS1 : St := (runSchedP .client goodS3 [.en (.spawn 3 .client), S 3 0]).get (by decide)
def pdS2 : St := (step pdS1 3 0).get (by decide)
def pdS3 : St := (runSchedP .client pdS2 [S 3 0, S 3 0, S 3 0, S 3 0]).get (by decide)

theorem prevDone_run :
    ∃ s, ReachP false .client s ∧ Ev.prevDone 1 ∈ s.sh.trace ∧ (s.sh.strm 1).fin = true ∧
      s.sh.trace = [.semAcq, .prevNone, .newBegin 1, .newEnd 1, .newOffer 1, .deliver 1, .sfinRecv 1, .semRel,
        .semAcq, .prevDone 1] := by
  have r1 : ReachP false .client goodS1 := reachP_runSchedP .init (Option.some_get _).symm
  have r2 : ReachP false .client goodS2 := by
    refine .step 2 0 r1 (Option.some_get _).symm ?_
    intro c _ _ hst
    obtain ⟨sid, hp, -⟩ := hst
    have : (goodS1.sh.strm sid).pub = false := rfl
    rw [this] at hp; cases hp
  have r3 : ReachP false .client goodS3 := reachP_runSchedP r2 (Option.some_get _).symm
  have r4 : ReachP false .client pdS1 := reachP_runSchedP r3 (Option.some_get _).symm
  have r5 : ReachP false .client pdS2 :=
    .step 3 0 r4 (Option.some_get _).symm (fun _ _ _ => not_stale_of_not_term r4 (by decide))
  refine ⟨pdS3, reachP_runSchedP r5 (Option.some_get _).symm, ?_, ?_, ?_⟩ <;> decide

end Drpc.Props.ManagerSys
