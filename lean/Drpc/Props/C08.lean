import Drpc.Lemmas.Roundtrip
import Drpc.Lemmas.Spec
/-
  C08 — Frame codec round-trips and parsing is total and agrees with the wire spec.
  Property theorems only; helper lemmas live in Drpc/Lemmas.
-/
namespace Drpc.Props.C08
open Drpc

/-- Variable-length integers round-trip for every 64-bit value, consuming exactly the encoding. -/
theorem varint_roundtrip (x : U64) (rest : Bytes) :
    readVarint (appendVarint x ++ rest) = .ok rest x :=
  Drpc.varint_roundtrip x rest

/-- The varint reader equals the arithmetic LEB128 reference (7-bit little-endian groups,
    at most 10 bytes, value modulo 2^64) on every byte string. -/
theorem varint_agrees_spec (b : Bytes) : readVarint b = Spec.readVarint b :=
  readVarint_spec b

/-- Encoding any frame (6-bit kind, any ids, both flags, any payload that fits a Go slice)
    and parsing the result yields the same frame and exactly the bytes that followed. -/
theorem frame_roundtrip (fr : Frame) (rest : Bytes)
    (hk : fr.kind.toNat < 64) (hl : fr.data.length < 2^64) :
    parseFrame (appendFrame fr ++ rest) = .ok rest fr :=
  frame_roundtrip_aux fr rest hk hl

/-- hypotheses of `frame_roundtrip` are satisfiable by a non-trivial frame -/
example : parseFrame (appendFrame ⟨[1#8, 2#8, 255#8], 0xFFFFFFFFFFFFFFFF#64, 300#64, 63#8, true, true⟩ ++ [7#8])
    = .ok [7#8] ⟨[1#8, 2#8, 255#8], 0xFFFFFFFFFFFFFFFF#64, 300#64, 63#8, true, true⟩ :=
  frame_roundtrip _ _ (by decide) (by decide)

/-- `kind < 64` is exactly where the round trip holds: kind 64 comes back as kind 0 with the
    control bit set (`byte(Kind << 1)` pushes bit 6 into the control position). -/
theorem frame_roundtrip_kind64_counterexample :
    parseFrame (appendFrame ⟨[], 1#64, 1#64, 64#8, true, false⟩) = .ok [] ⟨[], 1#64, 1#64, 0#8, true, true⟩ := by
  have e : appendFrame ⟨[], 1#64, 1#64, 64#8, true, false⟩ = appendFrame ⟨[], 1#64, 1#64, 0#8, true, true⟩ ++ [] := by
    simp [appendFrame, controlByte]
  rw [e]
  exact frame_roundtrip _ _ (by decide) (by decide)

/-- The parser is total: no index or slice expression is ever out of range. -/
theorem parse_total (b : Bytes) : parseFrame b ≠ .panic :=
  parse_no_panic b

/-- Its answer equals that of the independent reference decoder on every byte string. -/
theorem parse_agrees_spec (b : Bytes) : parseFrame b = Spec.decode b :=
  parseFrame_spec b

/-- A returned frame plus the returned remainder account for the input exactly. -/
theorem parse_ok_consumes {b rem : Bytes} {fr : Frame} (h : parseFrame b = .ok rem fr) :
    ∃ hdr, b = hdr ++ fr.data ++ rem ∧ 4 ≤ hdr.length ∧ hdr.length ≤ 31 ∧ fr.kind.toNat < 64 := by
  obtain ⟨hdr, h1, h2, h3⟩ := parse_ok_split h
  refine ⟨hdr, h1, h2, h3, ?_⟩
  -- the kind is always a 6-bit value
  unfold parseFrame at h
  split at h
  · cases h
  · cases b with
    | nil => cases h
    | cons c r0 =>
      simp only at h
      cases h1 : readVarint r0 with
      | short => simp [h1] at h
      | tooLong => simp [h1] at h
      | ok r1 sid =>
        simp only [h1] at h
        cases h2 : readVarint r1 with
        | short => simp [h2] at h
        | tooLong => simp [h2] at h
        | ok r2 mid =>
          simp only [h2] at h
          cases h3 : readVarint r2 with
          | short => simp [h3] at h
          | tooLong => simp [h3] at h
          | ok r3 len =>
            simp only [h3] at h
            split at h
            · cases h
            · cases h
              exact (controlByte_decode c).2

/-- A successful parse and an error are both stable under appending more bytes
    (so "need more data" is the only answer that more data can change). -/
theorem parse_extension_stable_ok {b e rem : Bytes} {fr : Frame}
    (h : parseFrame b = .ok rem fr) : parseFrame (b ++ e) = .ok (rem ++ e) fr :=
  parse_ext_ok h

theorem parse_extension_stable_err {b e : Bytes}
    (h : parseFrame b = .err) : parseFrame (b ++ e) = .err :=
  parse_ext_err h

/-- "need more data" is returned for every proper prefix of an encoded frame … -/
theorem parse_short_of_proper_prefix {b e : Bytes} {fr : Frame} (he : e ≠ [])
    (h : parseFrame (b ++ e) = .ok [] fr) : parseFrame b = .short := by
  cases hb : parseFrame b with
  | short => rfl
  | err => rw [parse_ext_err hb] at h; cases h
  | panic => exact absurd hb (parse_no_panic b)
  | ok rem fr' =>
    rw [parse_ext_ok hb] at h
    injection h with h1 _
    have : e = [] := (List.append_eq_nil_iff.mp h1).2
    exact absurd this he

/-- Splitting a payload into frames preserves concatenation … -/
theorem split_concat (pkt : Packet) (n : Int) :
    ((splitN pkt n).map (·.data)).flatten = pkt.data :=
  splitFrames_concat _ _ _ _ _ _

/-- … yields at least one frame (an empty payload still yields one done frame), marks only the last done … -/
theorem split_done_last_only (pkt : Packet) (n : Int) :
    ∃ pre last, splitN pkt n = pre ++ [last] ∧ last.done = true ∧ ∀ fr ∈ pre, fr.done = false :=
  splitFrames_done _ _ _ _ _ _

/-- … every frame carries the packet's id, kind and control flag … -/
theorem split_same_id_kind_control (pkt : Packet) (n : Int) :
    ∀ fr ∈ splitN pkt n, fr.sid = pkt.sid ∧ fr.mid = pkt.mid ∧ fr.kind = pkt.kind ∧ fr.control = pkt.control :=
  splitFrames_header _ _ _ _ _ _

/-- … and the sizes are as documented: `n > 0`: at most `n` bytes each, all but the last exactly `n`;
    `n = 0`: 65536; `n < 0`: a single frame. -/
theorem split_sizes_pos (pkt : Packet) (n : Int) (hn : 0 < n) :
    ∀ fr ∈ splitN pkt n, fr.data.length ≤ n.toNat ∧ (fr.done = false → fr.data.length = n.toNat) := by
  have : splitSize n = n.toNat := by unfold splitSize; split <;> (try split) <;> omega
  unfold splitN; rw [this]
  exact splitFrames_sizes _ _ _ _ _ (by omega) _

theorem split_sizes_zero (pkt : Packet) :
    ∀ fr ∈ splitN pkt 0, fr.data.length ≤ 65536 ∧ (fr.done = false → fr.data.length = 65536) := by
  unfold splitN; exact splitFrames_sizes _ _ _ _ _ (by decide) _

theorem split_sizes_neg (pkt : Packet) (n : Int) (hn : n < 0) :
    splitN pkt n = [{ data := pkt.data, sid := pkt.sid, mid := pkt.mid, kind := pkt.kind,
                      control := pkt.control, done := true }] := by
  have : splitSize n = 0 := by unfold splitSize; split <;> (try split) <;> omega
  unfold splitN; rw [this]; exact splitFrames_zero _ _ _ _ _

/-- every frame produced by splitting parses back (6-bit kinds), in order -/
example : (splitN ⟨[1#8,2#8,3#8], 1#64, 2#64, 2#8, false⟩ 2).map appendFrame =
    [[4#8,1#8,2#8,2#8,1#8,2#8], [5#8,1#8,2#8,1#8,3#8]] := by
  simp [splitN, splitFrames, splitSize, appendFrame, appendVarint, controlByte]

end Drpc.Props.C08
