import Drpc.Lemmas.SignalReach
import Drpc.Lemmas.ChanReach
/-
  C19 — One-shot signals are set once and seen consistently by all observers.
  Property theorems only.  Part 1: drpcsignal.Signal, part 2: drpcsignal.Chan.  Every theorem is
  about every reachable state of the atomic-step models (Drpc/Signal.lean, Drpc/Chan.lean): any
  number of threads, any calls, every interleaving of their atomic steps.
-/
namespace Drpc.Props.C19
open Drpc Drpc.Signal

/-! ## Signal -/

/-- Among all completed `Set` calls at most one returned true; as soon as any `Set` call has
    completed there is exactly one thread that is (or was) the winner; and once every `Set` call has
    returned, that winner is a completed call that returned true. -/
theorem exactly_one_winner (s : State) (h : Reach s) :
    (∀ t u e e', s.pc t = .doneSet e true → s.pc u = .doneSet e' true → t = u) ∧
    ((∃ t e ok, s.pc t = .doneSet e ok) →
      ∃ w, pastStore (s.pc w) = true ∧ ∀ u, won (s.pc u) = true → u = w) ∧
    ((∀ t, inSet (s.pc t) = false) → (∃ t e ok, s.pc t = .doneSet e ok) →
      ∃ w e, s.pc w = .doneSet e true ∧ ∀ u e', s.pc u = .doneSet e' true → u = w) := by
  have inv := reach_inv s h
  have ex : (∃ t e ok, s.pc t = .doneSet e ok) → ∃ w, pastStore (s.pc w) = true := by
    intro ⟨t, e, ok, ht⟩
    exact ex_winner s h (inv.knows t (by simp [ht, knowsSet]))
  refine ⟨?_, ?_, ?_⟩
  · intro t u e e' ht hu
    exact inv.uniq t u (by simp [ht, won]) (by simp [hu, won])
  · intro hex
    obtain ⟨w, hw⟩ := ex hex
    exact ⟨w, hw, fun u hu => inv.uniq u w hu (pastStore_won _ hw)⟩
  · intro hq hex
    obtain ⟨w, hw⟩ := ex hex
    have hq' := hq w
    cases hp : s.pc w <;> simp [hp, pastStore, inSet] at hw hq'
    case doneSet e ok =>
      subst hw
      exact ⟨w, e, hp, fun u e' hu => inv.uniq u w (by simp [hu, won]) (by simp [hp, won])⟩

/-- Any `Get` returning `(x, true)` and any non-nil `Err` result is the error of the winner
    (whether or not the winner has returned yet), and such a winner exists. -/
theorem observers_see_winner (s : State) (h : Reach s) :
    (∀ w e, wErr (s.pc w) = some e →
      (∀ u x, s.pc u = .doneGet x true → x = some e) ∧ (∀ u x, s.pc u = .doneErr (some x) → x = e)) ∧
    (∀ u x, s.pc u = .doneGet x true → ∃ w, pastStore (s.pc w) = true ∧ wErr (s.pc w) = x) ∧
    (∀ u x, s.pc u = .doneErr (some x) → ∃ w, pastStore (s.pc w) = true ∧ wErr (s.pc w) = some x) := by
  have inv := reach_inv s h
  refine ⟨?_, ?_, ?_⟩
  · intro w e hw
    have he := inv.werr w e hw
    refine ⟨fun u x hu => ?_, fun u x hu => ?_⟩
    · have := inv.obs u x (by simp [hu, obsErr]); rw [this, he]
    · have := inv.obs u (some x) (by simp [hu, obsErr]); rw [he] at this; exact Option.some.inj this
  · intro u x hu
    have hx := inv.obs u x (by simp [hu, obsErr])
    obtain ⟨w, hw⟩ := ex_winner s h (inv.knows u (by simp [hu, knowsSet]))
    obtain ⟨e, he⟩ := pastStore_wErr _ hw
    exact ⟨w, hw, by rw [he, hx, inv.werr w e he]⟩
  · intro u x hu
    have hx := inv.obs u (some x) (by simp [hu, obsErr])
    obtain ⟨w, hw⟩ := ex_winner s h (inv.knows u (by simp [hu, knowsSet]))
    obtain ⟨e, he⟩ := pastStore_wErr _ hw
    exact ⟨w, hw, by rw [he, hx, inv.werr w e he]⟩

/-- `IsSet` is monotone: the flag never goes back, so once some `IsSet` (or `Get`, or a losing `Set`)
    has observed the signal set, every `IsSet`/`Get`/`Set` call started in any later state observes it
    too (returns true / takes the read path / returns false). -/
theorem isSet_monotone (s s' : State) (h : Reach s) (hs : Steps s s') (t : Tid)
    (ht : knowsSet (s.pc t) = true) :
    s'.errSet = true ∧
    (∀ u, s'.pc u = .start .isSet → step s' u = some (s'.setPc u (.doneIsSet true))) ∧
    (∀ u, s'.pc u = .start .get → step s' u = some (s'.setPc u .getRead)) ∧
    (∀ u e, s'.pc u = .start (.set e) → step s' u = some (s'.setPc u (.doneSet e false))) := by
  have he : s'.errSet = true := errSet_steps s s' h hs ((reach_inv s h).knows t ht)
  refine ⟨he, ?_, ?_, ?_⟩ <;> (intros; simp [step, *])

/-- All `Signal()` calls (and the `Signal()` inside every `Wait`) obtain the same channel, and it is not nil. -/
theorem channel_unique (s : State) (h : Reach s) (t u : Tid) (c d : Ch)
    (ht : chanOf (s.pc t) = some c) (hu : chanOf (s.pc u) = some d) : c = d ∧ c ≠ .none := by
  have inv := reach_inv s h
  obtain ⟨h1, h2⟩ := inv.chan t c ht
  obtain ⟨h3, _⟩ := inv.chan u d hu
  exact ⟨by rw [h1, h3], by rw [h1]; exact inv.chNone h2⟩

/-- `close` is executed at most once on any fresh channel, only on the channel that `Signal()` hands
    out, only after the status word has the error-set bit and `err` has been written; the package-level
    pre-closed sentinel is never closed by `Set`. -/
theorem closed_once_and_after_visible (s : State) (h : Reach s) :
    (∀ c, s.closes c ≤ 1) ∧
    (∀ c, 0 < s.closes c → s.errSet = true ∧ s.err ≠ none ∧ s.ch = .fresh c) ∧
    s.sentCloses = 0 := by
  have inv := reach_inv s h
  refine ⟨inv.cl1, fun c hc => ?_, inv.sc⟩
  obtain ⟨h1, h2⟩ := inv.cl2 c hc
  exact ⟨h1, inv.errW h1, h2⟩

/-- No lost wake-up (quiescence form): if no `Set` call is in progress and at least one has completed,
    the signal's channel is closed, so is every channel any `Signal()` ever returned, and no `Wait`
    is blocked in its receive. -/
theorem no_lost_wakeup (s : State) (h : Reach s) (hq : ∀ t, inSet (s.pc t) = false)
    (hex : ∃ t e ok, s.pc t = .doneSet e ok) :
    s.isClosed s.ch = true ∧
    (∀ u c, chanOf (s.pc u) = some c → s.isClosed c = true) ∧
    (∀ u c, s.pc u = .wRecv c → step s u = some (s.setPc u .doneWait)) := by
  have inv := reach_inv s h
  obtain ⟨t, e, ok, ht⟩ := hex
  have he : s.errSet = true := inv.knows t (by simp [ht, knowsSet])
  have hcl : s.isClosed s.ch = true := by
    cases hc : s.isClosed s.ch with
    | true => rfl
    | false =>
      exfalso
      have hm := inv.quiet1 he hc
      cases hmu : s.mu with
      | none => exact hm hmu
      | some w =>
        have hw := inv.quiet2 w he hc hmu
        have hq' := hq w
        cases hp : s.pc w <;> simp [hp, isClosing, inSet] at hw hq'
  refine ⟨hcl, fun u c hu => ?_, fun u c hu => ?_⟩
  · rw [(inv.chan u c hu).1]; exact hcl
  · have := (inv.chan u c (by simp [hu, chanOf])).1
    simp [step, hu, this, hcl]

/-- Data-race freedom: two different threads are never simultaneously about to access the
    non-atomic field `err` (resp. `ch`) with at least one of the accesses a write; and the plain
    load of the status word (under the lock) is never concurrent with a store of it. -/
theorem race_free (s : State) (h : Reach s) (t u : Tid) (htu : t ≠ u) :
    ¬ (writesErr (s.pc t) = true ∧ (readsErr (s.pc u) = true ∨ writesErr (s.pc u) = true)) ∧
    ¬ (writesCh (s.pc t) = true ∧ (readsCh (s.pc u) = true ∨ writesCh (s.pc u) = true)) ∧
    ¬ (storesStatus (s.pc t) = true ∧ (readsStatusPlain (s.pc u) = true ∨ storesStatus (s.pc u) = true)) := by
  have inv := reach_inv s h
  have hm : holds (s.pc t) = true → holds (s.pc u) = true → False := fun a b =>
    htu (Option.some.inj ((inv.mutex1 t a).symm.trans (inv.mutex1 u b)))
  refine ⟨?_, ?_, ?_⟩
  · rintro ⟨hw, hr | hr⟩
    · have h1 := inv.pre t (writesErr_pre _ hw)
      have h2 := inv.knows u (readsErr_knows _ hr)
      rw [h1] at h2; cases h2
    · exact hm (preStore_won _ (writesErr_pre _ hw)).2.1 (preStore_won _ (writesErr_pre _ hr)).2.1
  · rintro ⟨hw, hr | hr⟩
    · have hcf : s.chCreated = false := by
        rcases (writesCh_cases _ hw).2 with h1 | ⟨b, h1⟩
        · exact inv.crA t false h1
        · exact (inv.esA t b h1).2
      rcases readsCh_cases _ hr with h2 | h2
      · have := inv.kch u h2; rw [hcf] at this; cases this
      · exact hm (writesCh_cases _ hw).1 h2
    · exact hm (writesCh_cases _ hw).1 (writesCh_cases _ hr).1
  · rintro ⟨hw, hr | hr⟩
    · exact hm (storesStatus_holds _ hw) (readsStatusPlain_holds _ hr)
    · exact hm (storesStatus_holds _ hw) (storesStatus_holds _ hr)

/-- No interleaving of Set/Get/Err/IsSet/Signal/Wait panics. -/
theorem no_panic (s : State) (h : Reach s) (t : Tid) (c : Call) : s.pc t ≠ .panicked c := by
  intro hp
  have := (reach_inv s h).nopanic t
  simp [hp, isPanic] at this


/-! The hypotheses are satisfiable: two racing setters, a `Wait` that was parked before the `Set`, a
    `Signal()` on the slow path and observers; everything has returned. -/
def demo : Signal.State :=
  Signal.exec Signal.init
    [.call 0 (.set 7), .call 1 (.set 9), .call 2 .wait, .call 3 .signal,
     .step 0, .step 1,                                  -- both setters pass the fast path
     .step 2, .step 2, .step 2, .step 2, .step 2, .step 2, .step 2,   -- Wait: signalSlow makes the channel, parks in the receive
     .step 3, .step 3,                                  -- Signal(): fast path
     .step 1, .step 1, .step 1, .step 1, .step 1, .step 1, .step 1,   -- Set(9) wins, closes, returns
     .step 0, .step 0, .step 0,                         -- Set(7) finds it set under the lock
     .step 2,                                           -- the parked Wait is woken
     .call 4 .get, .step 4, .step 4, .call 5 .err, .step 5, .step 5, .call 6 .isSet, .step 6]

example : Signal.Reach demo := Signal.reach_exec _ .init _
example : demo.pc 1 = .doneSet 9 true ∧ demo.pc 0 = .doneSet 7 false ∧ demo.pc 2 = .doneWait ∧
    demo.pc 3 = .doneSignal (.fresh 0) ∧ demo.pc 4 = .doneGet (some 9) true ∧ demo.pc 5 = .doneErr (some 9) ∧
    demo.pc 6 = .doneIsSet true ∧ demo.closes 0 = 1 := by decide

/-! ## Chan -/

section chan
open Drpc.Chan

/-- All `Get()` calls return the same channel, and it is never nil. -/
theorem chan_unique (s : Chan.State) (h : Chan.Reach s) (t u : Tid) (c d : Ch)
    (ht : getOf (s.pc t) = some c) (hu : getOf (s.pc u) = some d) : c = d ∧ c ≠ .none := by
  have inv := Chan.reach_inv s h
  have h1 := inv.gt t c ht
  have h2 := inv.gt u d hu
  exact ⟨by rw [h1, h2], by rw [h1]; exact inv.dn (inv.pd t (getOf_postDo _ _ ht))⟩

/-- Exactly one `do` runs its function: at most one call is (or was) the first, as soon as any `do`
    has returned there is one, and the channel in place is the first caller's choice: the pre-closed
    sentinel if it was a `Close`, a fresh channel otherwise. -/
theorem first_do_wins (s : Chan.State) (h : Chan.Reach s) :
    (∀ t u, ranF (s.pc t) = true → ranF (s.pc u) = true → t = u) ∧
    ((∃ t, retDo (s.pc t) = true) →
      ∃ w, Chan.pastStore (s.pc w) = true ∧ ∀ u, ranF (s.pc u) = true → u = w) ∧
    (∀ w, closeFirst (s.pc w) = true → s.ch = .sentinel) ∧
    (∀ w, freshFirst (s.pc w) = true → ∃ c, s.ch = .fresh c) := by
  have inv := Chan.reach_inv s h
  refine ⟨inv.uniq, ?_, inv.clF, ?_⟩
  · intro ⟨t, ht⟩
    have hd : s.done = true := inv.pd t (by cases hp : s.pc t <;> simp_all [retDo, postDo])
    obtain ⟨w, hw⟩ := Chan.ex_first s h hd
    exact ⟨w, hw, fun u hu => inv.uniq u w hu (Chan.pastStore_ranF _ hw)⟩
  · intro w hw
    have := inv.frF w hw
    cases hc : s.ch <;> simp_all [isFreshCh]

/-- After a `Close` call has returned the channel is closed: every channel a `Get()` has returned is
    closed, and a `Get()` that reads now returns a closed channel. -/
theorem close_then_get_is_closed (s : Chan.State) (h : Chan.Reach s) (t : Tid)
    (ht : closeDone (s.pc t) = true) :
    s.isClosed s.ch = true ∧
    (∀ u c, getOf (s.pc u) = some c → s.isClosed c = true) ∧
    (∀ u f, s.pc u = .cGet f → Chan.step s u = some (s.setPc u (.doneGet f s.ch))) := by
  have inv := Chan.reach_inv s h
  have hcl : s.isClosed s.ch = true := by
    cases hp : s.pc t <;> simp [hp, closeDone] at ht
    case doneClose first =>
      cases first with
      | true => have := inv.clF t (by simp [hp, closeFirst]); simp [Chan.State.isClosed, this, chClosed]
      | false => exact inv.cd t (by simp [hp, closeSecond])
  refine ⟨hcl, fun u c hu => ?_, fun u f hu => ?_⟩
  · rw [inv.gt u c hu]; exact hcl
  · simp [Chan.step, hu]

/-- `Make` after any other use is a no-op: once `done` is set a `Make n` call returns at its
    fast-path load without touching anything, and no step of any call replaces the channel, changes
    its capacity or makes another channel. -/
theorem make_after_use_is_noop (s : Chan.State) (h : Chan.Reach s) (hd : s.done = true) :
    (∀ t n, s.pc t = .start (.make n) → Chan.step s t = some (s.setPc t (.doneMake false))) ∧
    (∀ t s', Chan.step s t = some s' → s'.ch = s.ch ∧ s'.cap = s.cap ∧ s'.nextCh = s.nextCh ∧ s'.done = true) := by
  refine ⟨fun t n ht => by simp [Chan.step, ht, hd, afterDo], fun t s' hs => ?_⟩
  obtain ⟨h1, h2, h3⟩ := Chan.ch_stable s s' t (Chan.reach_inv s h) hs hd
  exact ⟨h1, h2, h3, Chan.done_mono s s' t hs hd⟩

/-- With at most one `Close` call ever (and no `Send`/`Full` next to it) no interleaving of
    Close/Make/Get/Send/Recv/Full panics, no channel is closed twice and the sentinel is never closed. -/
theorem no_panic_single_closer (s : Chan.State) (h : Chan.Reach s) (H : SingleCloser s) :
    (∀ t op f, s.pc t ≠ .panicked op f) ∧ (∀ c, s.closes c ≤ 1) ∧ s.sentCloses = 0 := by
  have g := good_of_single_closer s h H
  refine ⟨fun t op f hp => ?_, g.cl1, g.sc⟩
  have := g.nopanic t
  simp [hp, Chan.isPanic] at this

/-- The hypothesis of `no_panic_single_closer` is satisfiable by a non-trivial run: a `Get` creates
    the channel, a `Recv` parks on it, one `Close` closes it and wakes the receiver. -/
def chanDemo : Chan.State :=
  Chan.exec Chan.init
    [.call 0 .get, .call 1 .close, .call 2 .recv, .step 0, .step 1,
     .step 0, .step 0, .step 0, .step 0, .step 0, .step 0,     -- Get: doSlow installs a fresh channel, returns it
     .step 2, .step 2,                                         -- Recv: fast path, parks
     .step 1, .step 1, .step 1, .step 1,                       -- Close: doSlow finds done, closes the channel
     .step 2]

example : Chan.Reach chanDemo := Chan.reach_exec _ .init _
example : chanDemo.pc 0 = .doneGet true (.fresh 0) ∧ chanDemo.pc 1 = .doneClose false ∧
    chanDemo.pc 2 = .doneRecv false ∧ chanDemo.closes 0 = 1 := by decide

/-- Two `Close` calls: the second one closes an already closed channel, i.e. panics
    ("close of closed channel" — reachable in the real code through poolConn.Close() twice).  This is
    the contract of Go's own channels; it is why `no_panic_single_closer` has its hypothesis. -/
theorem chan_double_close_counterexample :
    ∃ s, Chan.Reach s ∧ s.pc 0 = .doneClose true ∧ s.pc 1 = .panicked .close false ∧ s.sentCloses = 1 ∧
      (∃ s2, Chan.Reach s2 ∧ s2.pc 0 = .doneGet true (.fresh 0) ∧ s2.pc 1 = .doneClose false ∧
        s2.pc 2 = .panicked .close false ∧ s2.closes 0 = 2) := by
  refine ⟨Chan.exec Chan.init [.call 0 .close, .step 0, .step 0, .step 0, .step 0, .step 0, .step 0,
      .call 1 .close, .step 1, .step 1], Chan.reach_exec _ .init _, by decide, by decide, by decide, ?_⟩
  exact ⟨Chan.exec Chan.init [.call 0 .get, .step 0, .step 0, .step 0, .step 0, .step 0, .step 0, .step 0,
      .call 1 .close, .step 1, .step 1, .call 2 .close, .step 2, .step 2],
    Chan.reach_exec _ .init _, by decide, by decide, by decide, by decide⟩

/-- `Send` (and `Full`) on a closed Chan panics ("send on closed channel"), again as for Go's channels. -/
theorem chan_send_after_close_counterexample :
    ∃ s, Chan.Reach s ∧ s.pc 0 = .doneClose true ∧ s.pc 1 = .panicked .send false := by
  exact ⟨Chan.exec Chan.init [.call 0 .close, .step 0, .step 0, .step 0, .step 0, .step 0, .step 0,
      .call 1 .send, .step 1, .step 1], Chan.reach_exec _ .init _, by decide, by decide⟩

/-- Data-race freedom of Chan: the non-atomic field `ch` is never about to be written by one thread
    while another is about to read or write it, and the plain load of `done` (under the lock) is never
    concurrent with its store. -/
theorem chan_race_free (s : Chan.State) (h : Chan.Reach s) (t u : Tid) (htu : t ≠ u) :
    ¬ (Chan.writesCh (s.pc t) = true ∧ (Chan.readsCh (s.pc u) = true ∨ Chan.writesCh (s.pc u) = true)) ∧
    ¬ (storesDone (s.pc t) = true ∧ (readsDonePlain (s.pc u) = true ∨ storesDone (s.pc u) = true)) := by
  have inv := Chan.reach_inv s h
  have hm : Chan.holds (s.pc t) = true → Chan.holds (s.pc u) = true → False := fun a b =>
    htu (Option.some.inj ((inv.mutex1 t a).symm.trans (inv.mutex1 u b)))
  have w1 : ∀ p, Chan.writesCh p = true → inF p = true := by intro p; cases p <;> simp [Chan.writesCh, inF]
  have r1 : ∀ p, Chan.readsCh p = true → postDo p = true := by intro p; cases p <;> simp [Chan.readsCh, postDo]
  have s1 : ∀ p, storesDone p = true → Chan.holds p = true := by intro p; cases p <;> simp [storesDone, Chan.holds]
  have s2 : ∀ p, readsDonePlain p = true → Chan.holds p = true := by intro p; cases p <;> simp [readsDonePlain, Chan.holds]
  refine ⟨?_, ?_⟩
  · rintro ⟨hw, hr | hr⟩
    · have a := inv.pre t (w1 _ hw)
      have b := inv.pd u (r1 _ hr)
      rw [a] at b; cases b
    · exact hm (Chan.inF_holds _ (w1 _ hw)).1 (Chan.inF_holds _ (w1 _ hr)).1
  · rintro ⟨hw, hr | hr⟩
    · exact hm (s1 _ hw) (s2 _ hr)
    · exact hm (s1 _ hw) (s1 _ hr)

end chan

end Drpc.Props.C19
