import Drpc.Lemmas.Migrate
import Drpc.Lemmas.MigrateHeader
import Drpc.Lemmas.MigrateMux
import Drpc.Lemmas.MigrateReroute
/-
  C16 — Listener multiplexer routes every connection once, by prefix, transparently.
  Property theorems only.  Model: `Drpc/Migrate.lean` (§1 readers / prefixConn / ReadFull / routeConn's
  sequential part, §2 HeaderConn.Write over sync.Once for any number of goroutines, §3 the ListenMux
  transition system for any number of connections, Accept callers and routed listeners).
-/
namespace Drpc.Props.C16
open Drpc Drpc.Migrate

/-! ### byte transparency (prefixconn.go, routeConn) -/

/-- For every prefix, every rest, every sequence of read sizes (≥ 1) and every way the underlying
    connection splits its bytes into reads: what the prefixConn yields until its first error is
    exactly `prefix ++ rest`, and that error is the connection's own. -/
theorem prefix_transparent (p : Bytes) (c : Conn) (chunk sz : Nat → Nat) :
    ((newPrefixConn p c).readAll chunk sz).1.flatten = p ++ c.data ∧
    ((newPrefixConn p c).readAll chunk sz).2 = some c.final := by
  simpa [newPrefixConn] using PrefixConn.readAll_spec chunk sz (newPrefixConn p c) rfl

/-- A single Read never spans the two readers: the sequence of read results splits into reads that
    make up the prefix and reads that make up the rest. -/
theorem prefix_reads_never_span (p : Bytes) (c : Conn) (chunk sz : Nat → Nat) :
    ∃ a b, ((newPrefixConn p c).readAll chunk sz).1 = a ++ b ∧ a.flatten = p ∧ b.flatten = c.data := by
  simpa [newPrefixConn, PrefixConn.readAll, PrefixConn.remaining] using
    PrefixConn.reads_split chunk sz (p.length + c.data.length + 1) 0 p c (by omega)

/-- non-vacuity: byte-by-byte delivery, 2-byte reads, a 3-byte prefix -/
example : ((newPrefixConn [1#8, 2#8, 3#8] ⟨[4#8, 5#8], 0, false, 0⟩).readAll (fun _ => 1) (fun _ => 2)) =
    ([[1#8, 2#8], [3#8], [4#8], [5#8], []], some 0) := by decide

/-- io.ReadFull's outcome depends only on the bytes, not on how they arrive: it succeeds iff the
    client sends at least `n` bytes, returns exactly the first `n` and leaves exactly the rest. -/
theorem read_full_chunk_independent (chunk : Nat → Nat) (n : Nat) (c : Conn) :
    (n ≤ c.data.length →
      (readFull chunk n c).1 = true ∧ (readFull chunk n c).2.1 = c.data.take n ∧
      (readFull chunk n c).2.2.data = c.data.drop n ∧ (readFull chunk n c).2.2.final = c.final) ∧
    (c.data.length < n → (readFull chunk n c).1 = false) := by
  refine ⟨fun h => ?_, fun h => readFullAux_short chunk n n c [] (Nat.le_refl _) h⟩
  obtain ⟨h1, h2, h3, h4, _⟩ := readFullAux_ok chunk n n c [] (Nat.le_refl _) h
  rw [List.nil_append] at h2
  exact ⟨h1, h2, h3, h4⟩

/-- A connection whose first `n` bytes are a registered prefix is handed, unwrapped, to that route's
    listener, and whoever accepts it reads exactly the bytes after the prefix — for every splitting of
    the client's bytes (`chunk` during routing, `chunk'` afterwards) and all read sizes. -/
theorem routed_consumes_prefix (chunk : Nat → Nat) (n : Nat) (routes : List (Bytes × Lid)) (c : Conn) (lid : Lid)
    (hlen : n ≤ c.data.length) (hreg : lookupRoute routes (c.data.take n) = some lid) :
    ∃ c', routeConnPure chunk n routes c = .toRoute lid c' ∧
      ∀ chunk' sz, (c'.readAll chunk' sz).1.flatten = c.data.drop n ∧ (c'.readAll chunk' sz).2 = some c.final := by
  obtain ⟨h1, h2, h3, h4⟩ := (read_full_chunk_independent chunk n c).1 hlen
  refine ⟨(readFull chunk n c).2.2, ?_, ?_⟩
  · simp [routeConnPure, h1, h2, hreg]
  · intro chunk' sz
    have := Conn.readAll_spec chunk' sz (readFull chunk n c).2.2
    rw [h3, h4] at this
    exact this

/-- A connection whose first `n` bytes are not registered goes to the default listener wrapped in a
    prefixConn, and whoever accepts it reads the client's byte stream unmodified from the first byte. -/
theorem default_route_transparent (chunk : Nat → Nat) (n : Nat) (routes : List (Bytes × Lid)) (c : Conn)
    (hlen : n ≤ c.data.length) (hreg : lookupRoute routes (c.data.take n) = none) :
    ∃ pc, routeConnPure chunk n routes c = .toDefault pc ∧
      ∀ chunk' sz, (pc.readAll chunk' sz).1.flatten = c.data ∧ (pc.readAll chunk' sz).2 = some c.final := by
  obtain ⟨h1, h2, h3, h4⟩ := (read_full_chunk_independent chunk n c).1 hlen
  refine ⟨newPrefixConn (c.data.take n) (readFull chunk n c).2.2, ?_, ?_⟩
  · simp [routeConnPure, h1, h2, hreg]
  · intro chunk' sz
    have := prefix_transparent (c.data.take n) (readFull chunk n c).2.2 chunk' sz
    rw [h3, h4, List.take_append_drop] at this
    exact this

/-- A client that sends fewer than `n` bytes and then ends is closed, never delivered. -/
theorem short_connection_closed (chunk : Nat → Nat) (n : Nat) (routes : List (Bytes × Lid)) (c : Conn)
    (hlen : c.data.length < n) : ∃ c', routeConnPure chunk n routes c = .closed c' := by
  have := (read_full_chunk_independent chunk n c).2 hlen
  exact ⟨(readFull chunk n c).2.2, by simp [routeConnPure, this]⟩

/-- non-vacuity: prefix "DR" registered for listener 7, the client's bytes arrive one at a time -/
example : routeConnPure (fun _ => 1) 2 [([0x44#8, 0x52#8], 7)] ⟨[0x44#8, 0x52#8, 9#8], 0, false, 0⟩ =
    .toRoute 7 ⟨[9#8], 0, false, 2⟩ := by decide

/-! ### HeaderConn: the header exactly once, first (header.go) -/

open Header in
/-- For any number of goroutines and every interleaving of the atomic steps (as long as no underlying
    write failed): the completed writes on the underlying connection are `header ++ buf` of the first
    completed call followed by the bare `buf`s of the other completed calls in completion order — so
    the byte stream is the header, exactly once and before any payload byte, followed by whole
    payloads. -/
theorem header_once_first (hdr : Bytes) (s : Header.State) (h : Header.Reachable hdr s) (hf : s.failed = false) :
    s.wire = expectedWire hdr s.log ∧
    s.wire.flatten = if s.log = [] then [] else hdr ++ (s.log.map (·.2)).flatten := by
  have hw := (Header.inv_reachable hdr s h).wire hf
  refine ⟨hw, ?_⟩
  rw [hw]
  cases hl : s.log with
  | nil => simp [expectedWire]
  | cons x xs => obtain ⟨t, b⟩ := x; simp [expectedWire]

open Header in
/-- The `n` a caller gets back never counts header bytes: `n ≤ len(buf)`, and `n = len(buf)` when no
    error is returned (also for the call that carried the header, also when the write failed part-way). -/
theorem header_n_excludes_header (hdr : Bytes) (s : Header.State) (h : Header.Reachable hdr s) (t : Tid)
    (buf : Bytes) (n : Nat) (e : Bool) (hp : s.pc t = .done buf n e) :
    n ≤ buf.length ∧ (e = false → n = buf.length) := by
  have := (Header.inv_reachable hdr s h).ret t
  rw [hp] at this
  simp only [retOk, Bool.and_eq_true, decide_eq_true_eq, Bool.or_eq_true] at this
  refine ⟨this.1, fun he => ?_⟩
  rcases this.2 with h1 | h1
  · rw [he] at h1; cases h1
  · exact h1

open Header in
/-- sync.Once: at most one goroutine is ever inside the once function, and no goroutine is in a plain
    underlying write before the header-carrying write has returned. -/
theorem header_write_exclusive (hdr : Bytes) (s : Header.State) (h : Header.Reachable hdr s) :
    (∀ t u, isInOnce (s.pc t) = true → isInOnce (s.pc u) = true → t = u) ∧
    (∀ t, isPlain (s.pc t) = true → s.onceDone = true ∧ s.log ≠ []) := by
  have hi := Header.inv_reachable hdr s h
  refine ⟨fun t u ht hu => ?_, fun t ht => ?_⟩
  · have a := hi.own1 t ht
    have b := hi.own1 u hu
    rw [a] at b; cases b; rfl
  · have hd := hi.plainDone t ht
    refine ⟨hd, fun hl => ?_⟩
    have := hi.logDone
    rw [hd, hl] at this
    simp at this

open Header in
/-- No lost wake-up: a goroutine blocked in `once.Do` is blocked behind a goroutine that really is in
    the header-carrying underlying write (so it proceeds as soon as the transport completes that write). -/
theorem header_waiter_has_runner (hdr : Bytes) (s : Header.State) (h : Header.Reachable hdr s) (t : Tid)
    (ht : isWait (s.pc t) = true) (hd : s.onceDone = false) :
    ∃ u, s.owner = some u ∧ isInOnce (s.pc u) = true := by
  have hi := Header.inv_reachable hdr s h
  have := hi.waitOwner t ht hd
  cases ho : s.owner with
  | none => rw [ho] at this; cases this
  | some u => exact ⟨u, rfl, hi.own2 u ho⟩

/-! ### routing (mux.go, listener.go) -/

open Mux in
/-- Every connection handed out by the base listener ends in exactly one listener's Accept result or
    is closed: at any time the number of Accept results carrying it plus the number of `conn.Close()`
    calls the mux made on it is 0 while its routeConn goroutine is still running and exactly 1 once it
    returned — for every interleaving of any number of connections, Accept callers, Route/Close calls
    and the shutdown. -/
theorem delivered_exactly_once_or_closed (n : Nat) (s : Mux.State) (h : Mux.Reachable n s) (c : Cid) :
    deliveries s c + closes s c = (if s.conn c = .finished then 1 else 0) := by
  have := (Mux.inv_reachable n s h).1 c
  rw [this]
  cases s.conn c <;> simp [connFinished]

open Mux in
/-- … and the listener is the right one: a connection delivered wrapped in a prefixConn was delivered
    by the default listener; a raw one by a listener that was created by `Route(p)` for exactly its
    first `n` bytes `p` (which `routed_consumes_prefix` shows are consumed). -/
theorem delivered_to_registered_route (n : Nat) (s : Mux.State) (h : Mux.Reachable n s) (lid : Lid) (c : Cid) (w : Bool)
    (hm : (lid, c, w) ∈ s.accepted) :
    s.conn c = .finished ∧ lid < s.nextLid ∧ (w = true → lid = 0) ∧
    (w = false → 0 < lid ∧ monPrefix (s.mon lid) = some ((s.cdata c).take n) ∧ n ≤ (s.cdata c).length) :=
  (Mux.inv_reachable n s h).2.1.accepted lid c w hm

open Mux in
/-- When the multiplexer has stopped (`m.done` closed by the context or by a failing base Accept) and
    the monitor goroutines, Run and the pending calls have run to quiescence: every listener (routed
    and default) is closed with its error set, no Accept is pending (each returned an error rather than
    blocking), no connection is parked inside routeConn waiting for a listener, and Run has returned. -/
theorem stopped_mux_fails_accept (n : Nat) (s : Mux.State) (h : Mux.Reachable n s) (hd : s.mdone = true)
    (hq : Mux.Quiescent n s) :
    (∀ l, l < s.nextLid → s.ldone l = true ∧ (s.lerr l).isSome = true) ∧
    (∀ t, accOn (s.acc t) = none) ∧
    (∀ c lid w, s.conn c ≠ .sending lid w) ∧ (∀ c, s.conn c ≠ .lookup) ∧
    (∃ e, s.run = .returned e) :=
  stopped_quiescent n s (Mux.inv_reachable n s h).2.2 hd hq

open Mux in
/-- … and an Accept called on a closed listener returns its error at the first, non-blocking check. -/
theorem accept_on_closed_listener_errors (n : Nat) (s s1 : Mux.State) (t : Tid) (lid : Lid)
    (hc : Mux.step n s (.acceptCall t lid) = some s1) (hd : s.ldone lid = true) :
    ∃ s2, Mux.step n s1 (.accCheck t) = some s2 ∧ s2.acc t = .retErr lid (s.lerr lid) := by
  simp only [Mux.step] at hc
  split at hc
  · split at hc <;> first | (cases hc; simp [Mux.step, hd]) | cases hc
  · cases hc

open Mux in
/-- `Route` with a prefix of the wrong length is the one intended panic and changes nothing; with the
    right length it never panics, the prefix is registered afterwards and no other key is affected;
    all registered keys have length `prefixLen`, so the look-up by the first `prefixLen` bytes is exact. -/
theorem route_lookup_exact (n : Nat) (s s' : Mux.State) (p : Bytes) (hs : Mux.step n s (.route p) = some s') :
    (p.length ≠ n → s'.panics = s.panics + 1 ∧ s'.routes = s.routes ∧ s'.nextLid = s.nextLid) ∧
    (p.length = n → s'.panics = s.panics ∧ (lookupRoute s'.routes p).isSome = true ∧
      ∀ q, q ≠ p → lookupRoute s'.routes q = lookupRoute s.routes q) := by
  simp only [Mux.step] at hs
  split at hs
  · cases hs
  · split at hs
    · rename_i hne
      cases hs
      exact ⟨fun _ => ⟨rfl, rfl, rfl⟩, fun he => absurd he hne⟩
    · rename_i heq
      have heq' : p.length = n := by simpa using heq
      split at hs
      · rename_i lid hl
        cases hs
        exact ⟨fun hne => absurd heq' hne, fun _ => ⟨rfl, by simp [hl], fun _ _ => rfl⟩⟩
      · cases hs
        refine ⟨fun hne => absurd heq' hne, fun _ => ⟨rfl, by simp [lookupRoute], fun q hq => ?_⟩⟩
        simp [lookupRoute, Ne.symm hq]

open Mux in
theorem registered_keys_have_prefix_len (n : Nat) (s : Mux.State) (h : Mux.Reachable n s) (p : Bytes) (l : Lid)
    (hm : (p, l) ∈ s.routes) : p.length = n ∧ 0 < l ∧ l < s.nextLid :=
  let k := (Mux.inv_reachable n s h).2.1.keys p l hm
  ⟨k.1, k.2.1, k.2.2.1⟩

open Mux in
/-- no other step of the system panics -/
theorem only_route_panics (n : Nat) (s s' : Mux.State) (l : Mux.Label) (hs : Mux.step n s l = some s')
    (hp : s'.panics ≠ s.panics) : ∃ p, l = .route p ∧ p.length ≠ n := by
  cases l with
  | route p =>
    refine ⟨p, rfl, fun he => hp ?_⟩
    exact ((route_lookup_exact n s s' p hs).2 he).1
  | _ =>
    exfalso
    apply hp
    simp only [Mux.step] at hs
    repeat' (split at hs)
    all_goals first | (cases hs; done) | (cases hs; simp)

/-! ### re-registering a prefix (Route after Route, Route after Close) -/

open Mux in
/-- `Route(p)` for a prefix that is registered returns the registered listener and changes nothing —
    also when that listener is already closed and only waits for its monitor goroutine to remove it. -/
theorem route_registered_is_noop (n : Nat) (s : Mux.State) (p : Bytes) (l : Lid) (hmu : s.muHeld = false)
    (hp : p.length = n) (hl : lookupRoute s.routes p = some l) : Mux.step n s (.route p) = some s := by
  simp [Mux.step, hmu, hp, hl]

open Mux in
/-- `monitorListener` deletes `m.routes[prefix]` by prefix, not by listener.  That removes the monitor's
    own listener and never a re-registered one: until the monitor of listener `lid` has done its delete
    the entry of its prefix is `lid` (Route never replaces a registered entry), and the delete leaves
    every other prefix alone. -/
theorem monitor_deletes_own_entry (n : Nat) (s : Mux.State) (h : Mux.Reachable n s) (lid : Lid) (p : Bytes)
    (hm : s.mon lid = .delete p) :
    lookupRoute s.routes p = some lid ∧
    ∀ s', Mux.step n s (.monDelete lid) = some s' →
      lookupRoute s'.routes p = none ∧ ∀ q, q ≠ p → lookupRoute s'.routes q = lookupRoute s.routes q := by
  refine ⟨(invOwn_reachable n s h).own lid p (by simp [hm, monPending]), fun s' hs => ?_⟩
  obtain ⟨p', hdel, hr, _, _⟩ := monDelete_effect n s s' lid hs
  rw [hm] at hdel
  cases hdel
  rw [hr]
  exact ⟨lookupRoute_filter_eq _ _, fun q hq => lookupRoute_filter_ne _ _ _ hq⟩

open Mux in
/-- A routed listener that is not closed is the registered route of the prefix it was created for —
    however often that prefix was registered, closed and registered again before — and a connection
    whose first `n` bytes are that prefix is sent to it, unwrapped (never to the default listener). -/
theorem open_listener_receives_its_prefix (n : Nat) (s : Mux.State) (h : Mux.Reachable n s) (lid : Lid)
    (h0 : 0 < lid) (h1 : lid < s.nextLid) (ho : s.ldone lid = false) :
    ∃ p, s.mon lid = .select p ∧ lookupRoute s.routes p = some lid ∧
      ∀ c s', s.conn c = .lookup → (s.cdata c).take n = p → Mux.step n s (.lookup c) = some s' →
        s'.conn c = .sending lid false := by
  have hsel : monSel (s.mon lid) = true := by
    rcases (Mux.inv_reachable n s h).2.2.monDone lid h0 h1 with hs | hd
    · exact hs
    · rw [ho] at hd; cases hd
  cases hm : s.mon lid with
  | select p =>
    have hreg := (invOwn_reachable n s h).own lid p (by simp [hm, monPending])
    refine ⟨p, rfl, hreg, fun c s' hc ht hs => ?_⟩
    simp only [Mux.step] at hs
    split at hs
    · cases hs
    · rw [hc] at hs
      simp only [ht, hreg] at hs
      cases hs
      simp
  | absent => simp [hm, monSel] at hsel
  | delete p => simp [hm, monSel] at hsel
  | finished p => simp [hm, monSel] at hsel

/-! ### non-vacuity of the hypotheses -/

namespace Examples
open Header Mux

/-- three goroutines write concurrently; 1 wins the once, 0 and 2 block, the transport completes 1, then 2, then 0 -/
def hsched : List Header.Label :=
  [.call 0 [0xa#8], .call 1 [0xb#8], .call 2 [], .onceEnter 1, .onceEnter 0, .onceEnter 2,
   .complete 1 none, .wake 2, .wake 0, .complete 2 none, .complete 0 none]

example : ∃ s, Header.Reachable [1#8, 2#8] s ∧ s.failed = false ∧
    s.wire = [[1#8, 2#8, 0xb#8], [], [0xa#8]] ∧ s.log = [(1, [0xb#8]), (2, []), (0, [0xa#8])] := by
  cases h : hrun [1#8, 2#8] hsched Header.init with
  | none => simp [hsched, hrun, Header.step, Header.init, Header.State.setPc] at h
  | some s =>
    refine ⟨s, hrun_reachable _ _ _ _ Header.Reachable.init h, ?_⟩
    simp [hsched, hrun, Header.step, Header.init, Header.State.setPc, Header.written] at h
    subst h
    simp

/-- Route("\x01"), an Accept on it, a connection "\x01\x09" is routed and delivered, then the context is
    cancelled and everything runs to quiescence. -/
def msched : List Mux.Label :=
  [.route [1#8], .acceptCall 0 1, .accCheck 0, .baseConn 0, .clientData 0 [1#8, 9#8], .readDone 0, .lookup 0,
   .deliver 0 0, .cancel, .monFire 1, .monDelete 1, .runStep, .runStep, .runStep, .runStep, .runStep]

set_option linter.unusedSimpArgs false in
example : ∃ s, Mux.Reachable 1 s ∧ s.mdone = true ∧ Mux.Quiescent 1 s ∧ s.accepted = [(1, 0, false)] ∧
    s.acc 0 = .retConn 1 0 false := by
  cases h : mrun 1 msched Mux.init with
  | none => simp [msched, mrun, Mux.step, Mux.init, State.setConn, State.setAcc, State.setMon, State.closeLis, State.muHeld, lookupRoute] at h
  | some s =>
    refine ⟨s, mrun_reachable _ _ _ _ Mux.Reachable.init h, ?_⟩
    simp [msched, mrun, Mux.step, Mux.init, State.setConn, State.setAcc, State.setMon, State.closeLis, State.muHeld, lookupRoute] at h
    subst h
    refine ⟨rfl, ?_, by simp, by simp⟩
    intro l hl
    cases l <;> simp [Label.internal] at hl <;> simp [Mux.step, State.muHeld]
    all_goals (rename_i x; by_cases h0 : x = 0 <;> by_cases h1 : x = 1 <;> simp [h0, h1])

/-- Route("\x01"), Close, Route again at once (the closed listener 1 is returned), the monitor removes the
    entry, Route once more: listener 2 is open and registered, listener 1 is closed. -/
def rsched : List Mux.Label :=
  [.route [1#8], .closeCall 1, .route [1#8], .monFire 1, .monDelete 1, .route [1#8]]

set_option linter.unusedSimpArgs false in
example : ∃ s, Mux.Reachable 1 s ∧ s.nextLid = 3 ∧ s.ldone 1 = true ∧ s.ldone 2 = false ∧
    s.mon 1 = .finished [1#8] ∧ s.routes = [([1#8], 2)] := by
  cases h : mrun 1 rsched Mux.init with
  | none => simp [rsched, mrun, Mux.step, Mux.init, State.setMon, State.closeLis, State.muHeld, lookupRoute] at h
  | some s =>
    refine ⟨s, mrun_reachable _ _ _ _ Mux.Reachable.init h, ?_⟩
    simp [rsched, mrun, Mux.step, Mux.init, State.setMon, State.closeLis, State.muHeld, lookupRoute] at h
    subst h
    simp

end Examples

open Mux Examples in
set_option linter.unusedSimpArgs false in
/-- What the model does not promise, because the code does not do it: a client that sends fewer than
    `prefixLen` bytes and neither continues nor closes keeps its connection open inside routeConn's
    ReadFull even after the multiplexer has stopped and Run has returned — the connection is neither
    delivered nor closed.  (Here: prefixLen 4, one connection with 2 bytes, context cancelled, run to
    quiescence.)  Replayed on the implementation by the migrate suite; listed in known_findings.json
    (C16-stalled-prefix). -/
theorem stalled_connection_counterexample :
    ∃ s, Mux.Reachable 4 s ∧ s.mdone = true ∧ Mux.Quiescent 4 s ∧ s.run = .returned none ∧
      s.conn 0 = .reading ∧ deliveries s 0 + closes s 0 = 0 := by
  cases h : mrun 4 [.baseConn 0, .clientData 0 [0x44#8, 0x52#8], .cancel, .runStep, .runStep, .runStep, .runStep, .runStep] Mux.init with
  | none => simp [mrun, Mux.step, Mux.init, State.setConn, State.closeLis, State.muHeld] at h
  | some s =>
    refine ⟨s, mrun_reachable _ _ _ _ Mux.Reachable.init h, ?_⟩
    simp [mrun, Mux.step, Mux.init, State.setConn, State.closeLis, State.muHeld] at h
    subst h
    refine ⟨rfl, ?_, rfl, by simp, by simp [deliveries, closes]⟩
    intro l hl
    cases l <;> simp [Label.internal] at hl <;> simp [Mux.step, State.muHeld]
    all_goals (rename_i x; by_cases h0 : x = 0 <;> simp [h0])


#print axioms prefix_transparent
#print axioms prefix_reads_never_span
#print axioms read_full_chunk_independent
#print axioms routed_consumes_prefix
#print axioms default_route_transparent
#print axioms short_connection_closed
#print axioms header_once_first
#print axioms header_n_excludes_header
#print axioms header_write_exclusive
#print axioms header_waiter_has_runner
#print axioms delivered_exactly_once_or_closed
#print axioms delivered_to_registered_route
#print axioms stopped_mux_fails_accept
#print axioms accept_on_closed_listener_errors
#print axioms route_lookup_exact
#print axioms registered_keys_have_prefix_len
#print axioms only_route_panics
#print axioms route_registered_is_noop
#print axioms monitor_deletes_own_entry
#print axioms open_listener_receives_its_prefix
#print axioms stalled_connection_counterexample

end Drpc.Props.C16
