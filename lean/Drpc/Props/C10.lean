import Drpc.Lemmas.Err
/-
  C10 — Handler errors reach the caller with their message and code intact.
  Property theorems only.  Models: Drpc/ErrChain.lean (drpcerr.Code / WithCode, errs.Wrap),
  Drpc/ErrCodec.lean (drpcwire.MarshalError / UnmarshalError), Drpc/ErrRpc.lean
  (drpcserver.handleRPC, drpcmux.HandleRPC, the client's HandlePacket / MsgRecv).
-/
namespace Drpc.Props.C10
open Drpc

/-! ## error codec -/

/-- Any 64-bit code and any message bytes survive the wire form: the decoded error's text is the
    message byte for byte and its code is the code. -/
theorem error_codec_roundtrip (c : U64) (msg : Bytes) :
    (unmarshalError (be64 c ++ msg)).text = msg ∧ code (some (unmarshalError (be64 c ++ msg))) = c :=
  ⟨unmarshal_pair_text c msg, unmarshal_pair_code c msg⟩

/-- … in particular for the wire form of any error value: text and code of the sender's error. -/
theorem error_roundtrip (e : Err) :
    (unmarshalError (marshalError e)).text = e.text ∧
    code (some (unmarshalError (marshalError e))) = code (some e) :=
  ⟨unmarshal_marshal_text e, unmarshal_marshal_code e⟩

/-- the wire form is 8 bytes of code followed by exactly the message -/
theorem marshal_layout (e : Err) :
    (marshalError e).take 8 = be64 (code (some e)) ∧ (marshalError e).drop 8 = e.text ∧
    (marshalError e).length = 8 + e.text.length := by
  refine ⟨?_, ?_, ?_⟩
  · rw [marshalError, ← be64_length (code (some e))]; exact List.take_left
  · rw [marshalError, ← be64_length (code (some e))]; exact List.drop_left
  · simp [marshalError, be64_length]

/-- Fewer than 8 bytes decode to a plain (code-less) error whose text is the data plus the note. -/
theorem short_error_data_is_plain_error (data : Bytes) (h : data.length < 8) :
    unmarshalError data = .errsT none (.leaf (data ++ note)) ∧
    (unmarshalError data).text = data ++ note ∧
    code (some (unmarshalError data)) = 0#64 := by
  have h1 : unmarshalError data = .errsT none (.leaf (data ++ note)) := by
    unfold unmarshalError; rw [if_pos h]
  refine ⟨h1, ?_, ?_⟩
  · rw [h1, text_errsT_none]; rfl
  · rw [h1]; rfl

/-- non-vacuity: 7 bytes are short, 8 bytes are a code with an empty message -/
example : (unmarshalError [1#8, 2#8, 3#8, 4#8, 5#8, 6#8, 7#8]).text = [1#8, 2#8, 3#8, 4#8, 5#8, 6#8, 7#8] ++ note :=
  (short_error_data_is_plain_error _ (by decide)).2.1
example : unmarshalError [0#8, 0#8, 0#8, 0#8, 0#8, 0#8, 0#8, 9#8] = .coded 9#64 (.errsT none (.leaf [])) := by decide

/-- Code 0 means "no code": `WithCode(err, 0)` adds no wrapper, a zero code on the wire decodes to
    an error without a `Code()` layer, and an error without a code is sent as code 0. -/
theorem code_zero_means_none (e : Err) (msg : Bytes) :
    withCode' e 0#64 = e ∧
    unmarshalError (be64 0#64 ++ msg) = .errsT none (.leaf msg) ∧
    (∀ c, c ≠ 0#64 → unmarshalError (be64 c ++ msg) = .coded c (.errsT none (.leaf msg))) ∧
    code none = 0#64 ∧ code (some (.leaf msg)) = 0#64 := by
  refine ⟨by simp [withCode'], ?_, ?_, rfl, rfl⟩
  · rw [unmarshal_pair]; simp [withCode']
  · intro c hc; rw [unmarshal_pair]; simp [withCode', hc]

/-! ## code extraction -/

/-- A code attached below fewer than 100 code-less wrappers — any mix of errs.Wrap / class wraps,
    fmt.Errorf("%w"), custom Cause() and Unwrap() types — is found. -/
theorem code_found_at_depth (ws : List Wrap) (c : U64) (inner : Err) (h : ws.length < 100) :
    code (some (wrapAll ws (.coded c inner))) = c := by
  unfold code codeIters
  rw [codeLoop_wrapAll, if_pos h]
  obtain ⟨k, hk⟩ : ∃ k, 100 - ws.length = k + 1 := ⟨100 - ws.length - 1, by omega⟩
  rw [hk]; rfl

/-- non-vacuity: a code under a mix of five different wrappers (class wrap, %w, Cause, Unwrap, both) -/
example : code (some (wrapAll [.errs (some (asciiBytes "drpc")), .fmt, .cause, .unwrap, .both (.coded 9#64 (.leaf []))]
    (.coded 0xFFFFFFFFFFFFFFFF#64 (.leaf [37#8])))) = 0xFFFFFFFFFFFFFFFF#64 :=
  code_found_at_depth _ _ _ (by decide)

/-- The outermost `Code()` method decides, also when it says 0 and an inner error has a code. -/
theorem outermost_code_wins (c c' : U64) (inner : Err) :
    code (some (.coded c (.coded c' inner))) = c := rfl

/-- `Cause()` is preferred over `Unwrap()`, and a nil result ends the search with 0. -/
theorem cause_before_unwrap (x d : Err) :
    code (some (.both x d)) = codeLoop Err.view 99 (some x) ∧
    code (some (.bothNilCause x)) = 0#64 ∧ code (some .causeNil) = 0#64 ∧ code (some .unwrapNil) = 0#64 :=
  ⟨rfl, rfl, rfl, rfl⟩

/-- From 100 wrappers on the result is 0 whatever is inside (the loop bound of `Code`). -/
theorem code_lost_from_depth_100 (ws : List Wrap) (e : Err) (h : 100 ≤ ws.length) :
    code (some (wrapAll ws e)) = 0#64 := by
  unfold code codeIters
  rw [codeLoop_wrapAll, if_neg (by omega)]

/-- The depth hypothesis of `code_found_at_depth` is needed: code 7 under 99 `Unwrap()` wrappers is
    found, under 100 it is lost.  Replayed on the implementation by the errs suite
    (oracle "code-at-depth"); listed in known_findings.json (C10-code-depth). -/
theorem code_depth_100_counterexample :
    code (some (wrapAll (List.replicate 99 .unwrap) (.coded 7#64 (.leaf [])))) = 7#64 ∧
    code (some (wrapAll (List.replicate 100 .unwrap) (.coded 7#64 (.leaf [])))) = 0#64 :=
  ⟨code_found_at_depth _ _ _ (by simp), code_lost_from_depth_100 _ _ (by simp)⟩

/-- `Code` terminates on cyclic error structures (the loop is bounded: `codeLoop` is structurally
    recursive on its fuel for ANY `view`), and on every structure — cyclic or not — in which no
    reachable value has a `Code()` method the answer is 0. -/
theorem code_terminates_on_cycles {α : Type} (view : α → Step α) (fuel : Nat) (e : α)
    (h : ∀ n x, reach view n e = some x → (view x).isCode = false) :
    codeLoop view fuel (some e) = 0#64 :=
  codeLoop_no_code view fuel e h

/-- the concrete cycles of the model: a value returning itself (cut by the shallow-equality test in
    the first iteration) and two values pointing at each other (cut by the bound), under any wrappers -/
theorem code_on_model_cycles (ws : List Wrap) (p : Bool) :
    code (some (wrapAll ws .selfCause)) = 0#64 ∧ code (some (wrapAll ws .selfUnwrap)) = 0#64 ∧
    code (some (wrapAll ws (.loop2 p))) = 0#64 := by
  have hl : ∀ (n : Nat) (q : Bool), codeLoop Err.view n (some (.loop2 q)) = 0#64 := by
    intro n
    induction n with
    | zero => intro q; rfl
    | succ k ih => intro q; rw [codeLoop]; simp only [Err.view, Bool.false_eq_true, if_false]; exact ih _
  have hs : ∀ (n : Nat), codeLoop Err.view n (some .selfCause) = 0#64 := by
    intro n; cases n <;> rfl
  have hu : ∀ (n : Nat), codeLoop Err.view n (some .selfUnwrap) = 0#64 := by
    intro n; cases n <;> rfl
  unfold code
  refine ⟨?_, ?_, ?_⟩ <;> rw [codeLoop_wrapAll] <;> split <;> simp [hl, hs, hu]

/-- non-vacuity of `code_terminates_on_cycles`: a 3-cycle over `Fin 3` -/
example : codeLoop (fun (i : Fin 3) => Step.next (i + 1) false) 100 (some 0) = 0#64 :=
  code_terminates_on_cycles _ _ _ (by intro n x _; rfl)

/-! ## handler outcome → client -/

/-- A handler that sends `msgs` and then returns error `e` (any error value: any message bytes, a
    code anywhere in it): the client's `MsgRecv` calls return the messages in order and from then on
    an error whose text is `e.Error()` byte for byte and whose code is `drpcerr.Code(e)` — for unary
    calls (client already closed its send side) and streams alike.
    This holds in auto-flush and in ManualFlush mode alike, also with unflushed frames in the
    client's writer (`u`; the masking of DESIGN §9-13 was repaired by fix 56786c9 — the errs suite keeps
    the former replay as the regression oracle "manualflush-error-visible").
    Hypotheses of the model: the handler has not called CloseSend before returning (see
    `error_after_closesend_counterexample`), no transport fault or cancellation. -/
theorem handler_error_reaches_client (msgs : List Bytes) (e : Err) (clientClosed : Bool) :
    let c := clientOf (scriptHandler (msgs.map .send) (some e)) clientClosed
    c.delivered = msgs ∧
    (∀ u n (hn : n < msgs.length), c.recv u n = .msg msgs[n]) ∧
    (∀ u n, msgs.length ≤ n → c.recv u n = .error e.text (code (some e))) :=
  recv_of_fail _ msgs e (clientOf_fail _ msgs e clientClosed rfl)

/-- … so a code attached below fewer than 100 wrappers arrives as that code, with the full text. -/
theorem handler_coded_error_reaches_client (msgs : List Bytes) (ws : List Wrap) (k : U64) (inner : Err)
    (clientClosed : Bool) (hd : ws.length < 100) :
    let e := wrapAll ws (.coded k inner)
    ∀ u n, msgs.length ≤ n →
      (clientOf (scriptHandler (msgs.map .send) (some e)) clientClosed).recv u n = .error e.text k := by
  intro e u n hn
  have := (handler_error_reaches_client msgs e clientClosed).2.2 u n hn
  rw [this, code_found_at_depth ws k inner hd]

/-- non-vacuity: three messages, then an error with code 2^64−1 and a text containing '%', NUL and 0xFF -/
example :
    (clientOf (scriptHandler [.send [1#8], .send [], .send [2#8]]
      (some (.coded 0xFFFFFFFFFFFFFFFF#64 (.leaf [37#8, 115#8, 0#8, 255#8])))) false).recv true 3
      = .error [37#8, 115#8, 0#8, 255#8] 0xFFFFFFFFFFFFFFFF#64 :=
  (handler_error_reaches_client [[1#8], [], [2#8]] _ false).2.2 true 3 (by decide)

/-- A handler that returns nil never yields an error at the client, whatever it did on the stream. -/
theorem success_never_yields_error (ops : List HOp) (clientClosed unflushed : Bool) (n : Nat) (t : Bytes) (k : U64) :
    (clientOf (scriptHandler ops none) clientClosed).recv unflushed n ≠ .error t k := by
  apply recv_noErr
  unfold clientOf
  apply handleAll_noErr
  · unfold serve scriptHandler
    apply closeSend_noErr
    apply runOps_noErr
    intro p hp; simp at hp
  · intro e; simp

/-- … and when it only sent messages the client receives exactly those, then end-of-stream. -/
theorem success_delivers_all (msgs : List Bytes) (clientClosed : Bool) :
    let c := clientOf (scriptHandler (msgs.map .send) none) clientClosed
    c.delivered = msgs ∧
    (∀ u n (hn : n < msgs.length), c.recv u n = .msg msgs[n]) ∧
    (∀ u n, msgs.length ≤ n → c.recv u n = .eof) :=
  recv_of_ok _ msgs clientClosed (clientOf_ok _ msgs clientClosed rfl)

/-! ## through drpcmux -/

/-- Failures produced by the dispatcher itself reach the client: an unknown rpc as the
    ProtocolError text with code 0, an undecodable request as the decoder's error text (and its
    code as found through the `errs.Wrap` the mux adds). -/
theorem dispatcher_errors_reach_client (rpc : Bytes) (r : Receiver) (de : Err) (clientClosed u : Bool) (n : Nat) :
    (clientOf (muxHandleRPC .unknown rpc none r) clientClosed).recv u n =
      .error (asciiBytes "protocol error: unknown rpc: " ++ quote rpc) 0#64 ∧
    (clientOf (muxHandleRPC .message rpc (some de) r) clientClosed).recv u n =
      .error de.text (code (some (errsWrap none de))) := by
  constructor
  · have h := (recv_of_fail _ [] (unknownRpcErr rpc)
      (clientOf_fail (muxHandleRPC .unknown rpc none r) [] (unknownRpcErr rpc) clientClosed rfl)).2.2 u n (Nat.zero_le _)
    rw [h]
    rw [text_unknownRpcErr]; rfl
  · have h := (recv_of_fail _ [] (errsWrap none de)
      (clientOf_fail (muxHandleRPC .message rpc (some de) r) [] (errsWrap none de) clientClosed rfl)).2.2 u n (Nat.zero_le _)
    rw [h, text_errsWrap_none]

/-- A method dispatched by the mux that sends `msgs` and returns `e`: as for a bare handler; the
    mux's `errs.Wrap` leaves the text unchanged and costs the code search at most one level. -/
theorem mux_handler_error_reaches_client (entry : MuxEntry) (hentry : entry ≠ .unknown) (rpc : Bytes)
    (msgs : List Bytes) (out : Option (Except Err Bytes)) (e : Err) (clientClosed : Bool) :
    let c := clientOf (muxHandleRPC entry rpc none { ops := msgs.map .send, out := out, err := some e }) clientClosed
    c.delivered = msgs ∧
    (∀ u n (hn : n < msgs.length), c.recv u n = .msg msgs[n]) ∧
    (∀ u n, msgs.length ≤ n → c.recv u n = .error e.text (code (some (errsWrap none e)))) := by
  intro c
  have hc : c = { delivered := msgs, closed := some (.err (unmarshalError (marshalError (errsWrap none e)))),
                  sendSet := true, term := true } := by
    apply clientOf_fail
    cases entry with
    | unknown => exact absurd rfl hentry
    | message => rfl
    | stream => rfl
  have := recv_of_fail c msgs (errsWrap none e) hc
  rw [text_errsWrap_none] at this
  exact this

/-- … a code below fewer than 99 wrappers therefore still arrives (99 because of the mux's wrap). -/
theorem mux_coded_error_reaches_client (entry : MuxEntry) (hentry : entry ≠ .unknown) (rpc : Bytes)
    (msgs : List Bytes) (ws : List Wrap) (k : U64) (inner : Err) (clientClosed : Bool) (hd : ws.length < 99) :
    let e := wrapAll ws (.coded k inner)
    ∀ u n, msgs.length ≤ n →
      (clientOf (muxHandleRPC entry rpc none { ops := msgs.map .send, err := some e }) clientClosed).recv u n
        = .error e.text k := by
  intro e u n hn
  rw [(mux_handler_error_reaches_client entry hentry rpc msgs none e clientClosed).2.2 u n hn]
  have hk : code (some (errsWrap none e)) = k := by
    rcases code_errsWrap_none e with h | h
    · rw [h]; exact code_found_at_depth ws k inner (by omega)
    · rw [h]
      show codeLoop Err.view 99 (some (wrapAll ws (.coded k inner))) = k
      rw [codeLoop_wrapAll, if_pos hd]
      obtain ⟨j, hj⟩ : ∃ j, 99 - ws.length = j + 1 := ⟨99 - ws.length - 1, by omega⟩
      rw [hj]; rfl
  rw [hk]

/-- A unitary method that returns a response and no error: the client receives what the method
    sent itself, then the response, then end-of-stream; never an error. -/
theorem mux_success_never_yields_error (rpc : Bytes) (msgs : List Bytes) (d : Bytes) (clientClosed : Bool) :
    let c := clientOf (muxHandleRPC .message rpc none { ops := msgs.map .send, out := some (.ok d) }) clientClosed
    c.delivered = msgs ++ [d] ∧ (∀ u n, msgs.length + 1 ≤ n → c.recv u n = .eof) ∧
    (∀ u n, n ≤ msgs.length → ∃ m, c.recv u n = .msg m) := by
  intro c
  have hh : muxHandleRPC .message rpc none { ops := msgs.map .send, out := some (.ok d) } { recvSet := clientClosed }
      = (SStream.runOps { recvSet := clientClosed } ((msgs ++ [d]).map .send), none) := by
    simp only [muxHandleRPC]
    rw [runOps_sends msgs _ rfl rfl, runOps_sends (msgs ++ [d]) _ rfl rfl]
    simp [SStream.msgSend, msgPkt]
  have hc := clientOf_ok _ (msgs ++ [d]) clientClosed hh
  have := recv_of_ok c (msgs ++ [d]) clientClosed hc
  refine ⟨this.1, ?_, ?_⟩
  · intro u n hn; exact this.2.2 u n (by simpa using hn)
  · intro u n hn; exact ⟨_, this.2.1 u n (by simp; omega)⟩

/-! ## the excluded point -/

/-- The hypothesis of `handler_error_reaches_client` is needed: a handler that closes its send
    side (e.g. generated `SendAndClose`) and then returns an error — the client's receive buffer is
    already closed with io.EOF, the later error packet cannot replace it, and `MsgRecv` reports a
    clean end-of-stream.  Replayed on the implementation (oracle "error-after-closesend"). -/
theorem error_after_closesend_counterexample (e : Err) (clientClosed u : Bool) (n : Nat) :
    (clientOf (scriptHandler [.closeSend] (some e)) clientClosed).recv u n = .eof := by
  cases clientClosed <;>
    simp [clientOf, serve, scriptHandler, SStream.runOps, SStream.runOp, SStream.closeSend, SStream.sendError,
      CStream.handleAll, CStream.handle, CStream.recv, kCloseSend, kMessage, kError]

end Drpc.Props.C10
