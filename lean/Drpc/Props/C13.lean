import Drpc.Props.C08
import Drpc.Props.C09
import Drpc.Props.C10
import Drpc.Props.C11
import Drpc.Props.C14
import Drpc.Props.C03
import Drpc.Props.C02
/-
  C13 — No bytes from a peer and no handler error can crash a receive path.
  Every entry point that consumes remote- or handler-controlled data is modelled with its
  panicking operations explicit (index, slice, Builder.Grow with a negative count, MethodByName on
  a nil error, …); the theorems collected here say that no input reaches a `panic` outcome and
  that remote-driven allocations stay within the configured limits.  They are restated from the
  property files of the components so that this file lists, in one place, the receive paths of
  the property.  Absence of real Go panics / out-of-bounds reads / oversized allocations is a fact
  about the runtime: it is evidenced by running every entry point under `recover` on structured,
  hostile and exhaustive-short inputs (the suites of C08, C09, C10, C11, C14 and the stream suite).
-/
namespace Drpc.Props.C13
open Drpc

/-- frame parser: total on every byte string -/
theorem parseFrame_total (b : Bytes) : parseFrame b ≠ .panic := C08.parse_total b

/-- packet reader: whatever the bytes and however they are chunked, the result is a list of packets
    and an error class (the reader model has no other outcome), every returned packet respects the
    maximum … -/
theorem reader_packets_within_max (mx final : Nat) (choose : Nat → Nat) (stream : Bytes) :
    ∀ p ∈ (C09.observed (readAll mx choose final stream)).1, p.data.length ≤ mx :=
  C09.packets_within_max mx final choose stream

/-- … and its buffer never exceeds twice the maximum plus a constant: memory is bounded on every
    input, including headers that announce far more data than allowed. -/
theorem reader_buffer_bound (mx final : Nat) (choose : Nat → Nat) (stream : Bytes) :
    (∀ p ∈ (readAll mx choose final stream).1, p.2 ≤ 2 * mx + 12348) ∧
    (readAll mx choose final stream).2.2 ≤ 2 * mx + 12348 :=
  C09.buffer_bound mx final choose stream

/-- metadata decoder: total on every byte string (and so is the server's metadata/invoke loop) -/
theorem metadata_decode_total (b : Bytes) : Metadata.decode b ≠ .panic := C11.decode_total b

/-- HTTP gateway: header unescaping, context building, error-code extraction and the whole
    ServeHTTP exchange are total -/
theorem http_unescape_total (s : Bytes) : Http.unescape s ≠ .panic := C14.unescape_total s
theorem http_buildContext_total (entries : List Bytes) : Http.buildContext entries ≠ .panic :=
  C14.buildContext_total entries
theorem http_getCode_total (e : Option Http.Err) : Http.getCode e ≠ .panic := C14.getCode_total e

/-- stream packet handler: for every packet kind (0…255), control bit, stream id match and payload,
    on a terminated stream the handler returns nil and changes nothing … -/
theorem handlePacket_after_termination (s : Stream.St) (t : Stream.Tid) (k : Byte) (ctl : Bool) (d : Bytes)
    (e : Stream.Err) (ht : s.sh.term = some e) :
    (Stream.call s t (.handle k ctl true d)).pc t = .done .nil :=
  (C03.packets_after_termination_ignored s t k ctl d e ht).1

/-- … a packet for another stream id is a no-op in every state … -/
theorem handlePacket_foreign (s : Stream.St) (t : Stream.Tid) (k : Byte) (ctl : Bool) (d : Bytes) :
    (Stream.call s t (.handle k ctl false d)).pc t = .done .nil :=
  (C03.foreign_sid_ignored s t k ctl d).1

/-- … and the manager's dispatch decision is total. -/
theorem dispatch_total (curr : Option U64) (sid : U64) (k : Byte) :
    Manager.dispatch curr sid k = .deliver ∨ Manager.dispatch curr sid k = .dropOld ∨
    Manager.dispatch curr sid k = .toInvokeQueue ∨ Manager.dispatch curr sid k = .waitForStream :=
  C02.dispatch_cases curr sid k

end Drpc.Props.C13
