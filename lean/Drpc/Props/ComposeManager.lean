import Drpc.Lemmas.ComposeManager
import Drpc.Props.ManagerSys
import Drpc.Props.Compose
/-
  C07 ("frames of a later stream never precede frames of an earlier one"): the MANAGER composed with the
  STREAMS of one connection endpoint, machine-checked.

  `Props/Compose.lean` proves `streams_do_not_interleave` from a record `Compose.Hyp` of five facts about one
  global event list, streams numbered by creation index.  Two of those facts are about the manager
  (`beginAfterPrevDone`, `doneAfterBegin`); they were proved about the manager's protocol checker over wire
  ids (`Props/Manager.lean`: `next_stream_after_previous_finished`, `prevDone_after_newBegin`, …) and, through
  `Props/ManagerSys.lean`, about every execution of the atomic-step manager model — but the step from those
  theorems to `Compose.Hyp` was prose.  This file closes it:

  * the events of one endpoint in ONE total order: `CEv` = the manager's events (`Manager.Ev`, unchanged) +
    `write sid` / `fin sid` of its streams, identified by wire id;
  * hypotheses: the manager part `mgrTrace tr` is accepted by the checker (`run {} (mgrTrace tr) = some ps`) and
    the three stream-side facts `Hyp tr`:
      (S1) no `write sid` after `fin sid`            (stream model: `Props.C07.finished_emits_nothing`),
      (S2) `prevDone sid` only after `fin sid`       (manager.go `waitForPreviousStream`: the report follows
                                                      `prev.IsFinished()` / `<-prev.Finished()`),
      (S3) `write sid` only after `newBegin sid`     (a stream writes only after it was created);
  * §1 `streams_do_not_interleave` / `writes_ordered_by_stream_id`: transport writes of different streams
    never interleave — directly over wire ids, for ANY two streams (not only consecutive ones);
  * §2 the same for every execution of the atomic-step manager model;
  * §3 `compose_hyp`: the renamed trace (`sid ↦ creation index`) satisfies all five fields of `Compose.Hyp`, so
    the theorem of `Props/Compose.lean` applies to it as well;
  * §4 non-vacuity, and that (S2) cannot be dropped.

  Nothing had to be weakened: in `allowed`, `prevNone` needs `curr = 0 ∧ pending = none` (no stream exists yet)
  and `prevDone sid` needs `sid = curr`, so `prevOk` at a `newBegin` really means "no created stream is without
  its `prevDone`" (`OInv.open1`, Lemmas/ManagerProto.lean).

  What is still NOT checked here: that the `write` / `fin` instants of the stream model and the manager's
  reported events are instants of one real execution in this order (DESIGN.md §0.3).
-/
namespace Drpc.Props.ComposeManager
open Drpc.Manager Drpc.Lemmas.ComposeManager

/-! ### the combined trace and the stream-side hypotheses -/

/-- what happens at one endpoint of a connection, in one total order: the manager's events
    (`drpcdebug.Event` hooks of manager.go), and of the streams it created, identified by wire id -/
inductive CEv where
  | mgr (e : Ev)          -- an event of the manager (Manager/Proto.lean)
  | write (sid : Nat)     -- a transport write of the stream with id `sid` starts
  | fin (sid : Nat)       -- the stream with id `sid` is finished
deriving DecidableEq, Repr

/-- the manager's own events, in order -/
def mgrTrace (tr : List CEv) : List Ev := tr.filterMap fun | .mgr e => some e | _ => none

/-- no `a` occurs after an occurrence of `b` -/
def NoneAfter (tr : List CEv) (a b : CEv) : Prop :=
  ∀ l1 l2, tr = l1 ++ b :: l2 → a ∉ l2

/-- every occurrence of `b` is preceded by an occurrence of `a` -/
def PrecededBy (tr : List CEv) (a b : CEv) : Prop :=
  ∀ l1 l2, tr = l1 ++ b :: l2 → a ∈ l1

/-- `a` occurs, and `b` occurs somewhere after that occurrence -/
def OccursBefore (tr : List CEv) (a b : CEv) : Prop :=
  ∃ l1 l2, tr = l1 ++ a :: l2 ∧ b ∈ l2

/-- the stream-side facts, over wire ids -/
structure Hyp (tr : List CEv) : Prop where
  /-- (S1) a finished stream hands nothing more to the transport -/
  noWriteAfterFin : ∀ sid, NoneAfter tr (.write sid) (.fin sid)
  /-- (S2) the manager reports `prevDone sid` only after the stream `sid` is finished -/
  prevDoneAfterFin : ∀ sid, PrecededBy tr (.fin sid) (.mgr (.prevDone sid))
  /-- (S3) a stream writes only after the manager began creating it -/
  writeAfterBegin : ∀ sid, PrecededBy tr (.mgr (.newBegin sid)) (.write sid)

/-! ### helpers local to the statements -/

theorem mem_mgrTrace {tr : List CEv} {e : Ev} : e ∈ mgrTrace tr ↔ .mgr e ∈ tr := by
  simp only [mgrTrace, List.mem_filterMap]
  constructor
  · rintro ⟨c, hc, h⟩
    cases c <;> simp at h
    subst h; exact hc
  · intro h; exact ⟨_, h, rfl⟩

theorem mgrTrace_split (p q : List CEv) (e : Ev) :
    mgrTrace (p ++ .mgr e :: q) = mgrTrace p ++ e :: mgrTrace q := by
  simp [mgrTrace, List.filterMap_append]

/-! ### §1 streams do not interleave -/

/-- the manager's part, in the vocabulary of this file (1): the manager begins creating a stream only after
    it has seen EVERY stream it created earlier finished (NewClientStream / NewServerStream call
    waitForPreviousStream under the stream semaphore before newStream) -/
theorem created_only_after_earlier_seen_finished {tr : List CEv} {ps : PS}
    (hacc : run {} (mgrTrace tr) = some ps) {x y : Nat} {l1 l2 : List CEv}
    (htr : tr = l1 ++ .mgr (.newBegin y) :: l2) (hx : .mgr (.newBegin x) ∈ l1) : .mgr (.prevDone x) ∈ l1 := by
  rw [htr, mgrTrace_split] at hacc
  exact mem_mgrTrace.1 (earlier_streams_seen_finished hacc (mem_mgrTrace.2 hx))

/-- the manager's part (2): it reports `prevDone x` only for a stream it created before -/
theorem seen_finished_only_after_created {tr : List CEv} {ps : PS} (hacc : run {} (mgrTrace tr) = some ps)
    (x : Nat) : PrecededBy tr (.mgr (.newBegin x)) (.mgr (.prevDone x)) := by
  intro l1 l2 htr
  rw [htr, mgrTrace_split] at hacc
  have e : mgrTrace l1 ++ Ev.prevDone x :: mgrTrace l2 = (mgrTrace l1 ++ [Ev.prevDone x]) ++ mgrTrace l2 := by
    simp
  rw [e] at hacc
  obtain ⟨s1, h1, -⟩ := run_append_some hacc
  exact mem_mgrTrace.1 (Drpc.Props.Manager.prevDone_after_newBegin h1)

/-- **Transport writes of one connection are grouped by stream, in order of the stream ids**: once the
    stream with id `y` has started a transport write, no stream with a smaller id ever starts one. -/
theorem writes_ordered_by_stream_id {tr : List CEv} {ps : PS} (hacc : run {} (mgrTrace tr) = some ps)
    (H : Hyp tr) {x y : Nat} (hxy : x < y) : NoneAfter tr (.write x) (.write y) := by
  intro l1 l2 htr hw
  -- `y` was created before its write; `x` was created before its own write
  obtain ⟨p, q, hl1⟩ := List.append_of_mem (H.writeAfterBegin y l1 l2 htr)
  have htr' : tr = p ++ CEv.mgr (.newBegin y) :: (q ++ CEv.write y :: l2) := by rw [htr, hl1]; simp
  have hacc' := hacc
  rw [htr', mgrTrace_split] at hacc'
  have hbx : CEv.mgr (.newBegin x) ∈ tr := by
    obtain ⟨u, v, hl2⟩ := List.append_of_mem hw
    have := H.writeAfterBegin x (l1 ++ CEv.write y :: u) v (by rw [htr, hl2]; simp)
    rw [htr]; simp only [List.mem_append, List.mem_cons] at this ⊢
    rcases this with h | h | h
    · exact Or.inl h
    · cases h
    · exact Or.inr (Or.inr (by rw [hl2]; simp [h]))
  -- … and, having the smaller id, before `y` was
  have hxp : CEv.mgr (.newBegin x) ∈ p := by
    rw [htr'] at hbx
    simp only [List.mem_append, List.mem_cons] at hbx
    rcases hbx with h | h | h
    · exact h
    · injection h with h; injection h with h; omega
    · have h' : Ev.newBegin x ∈ mgrTrace (q ++ CEv.write y :: l2) := mem_mgrTrace.2 (by simpa using h)
      have := (begin_ids_ordered hacc' x).2 h'
      omega
  -- so the manager had seen `x` finished before it created `y`
  have hpd : CEv.mgr (.prevDone x) ∈ p :=
    mem_mgrTrace.1 (earlier_streams_seen_finished hacc' (mem_mgrTrace.2 hxp))
  have hw' : CEv.write x ∈ q ++ CEv.write y :: l2 := by simp [hw]
  obtain ⟨p2, q2, e2, hw2⟩ := after_of_before htr' hpd hw'
  have hf : CEv.fin x ∈ p2 := H.prevDoneAfterFin x p2 q2 e2
  obtain ⟨p3, q3, e3, hw3⟩ := after_of_before e2 hf hw2
  exact H.noWriteAfterFin x p3 q3 e3 hw3

/-- the creation order is the id order: if the creation of `x` begins before the creation of `y`, then `x < y` -/
theorem created_earlier_has_smaller_id {tr : List CEv} {ps : PS} (hacc : run {} (mgrTrace tr) = some ps)
    {x y : Nat} (hb : OccursBefore tr (.mgr (.newBegin x)) (.mgr (.newBegin y))) : x < y := by
  obtain ⟨l1, l2, htr, hy⟩ := hb
  rw [htr, mgrTrace_split] at hacc
  exact (begin_ids_ordered hacc y).2 (mem_mgrTrace.2 hy)

/-- **Streams of one connection do not interleave on the transport** (C07, manager and streams
    composed): if the manager began creating stream `x` before stream `y`, then once `y` has started a
    transport write `x` never starts one again. -/
theorem streams_do_not_interleave {tr : List CEv} {ps : PS} (hacc : run {} (mgrTrace tr) = some ps)
    (H : Hyp tr) {x y : Nat} (hb : OccursBefore tr (.mgr (.newBegin x)) (.mgr (.newBegin y))) :
    NoneAfter tr (.write x) (.write y) :=
  writes_ordered_by_stream_id hacc H (created_earlier_has_smaller_id hacc hb)

/-! ### §2 the atomic-step manager model -/

open Drpc.Manager.Sys in
/-- the same for every execution of the atomic-step model of the manager (Manager/Sys.lean, all its
    goroutines interleaved arbitrarily): whenever the manager events of the combined history are (a prefix
    of) the events reported up to a reachable state, the streams do not interleave on the transport -/
theorem sys_streams_do_not_interleave {soft : Bool} {role : Call} {s : St} (h : ReachP soft role s)
    {tr : List CEv} {rest : List Ev} (hm : s.sh.trace = mgrTrace tr ++ rest) (H : Hyp tr) {x y : Nat}
    (hb : OccursBefore tr (.mgr (.newBegin x)) (.mgr (.newBegin y))) :
    NoneAfter tr (.write x) (.write y) := by
  obtain ⟨ps, hacc⟩ := Drpc.Props.ManagerSys.sys_prefix_accepted h hm
  exact streams_do_not_interleave hacc H hb

open Drpc.Manager.Sys in
/-- … and in the id-order form -/
theorem sys_writes_ordered_by_stream_id {soft : Bool} {role : Call} {s : St} (h : ReachP soft role s)
    {tr : List CEv} {rest : List Ev} (hm : s.sh.trace = mgrTrace tr ++ rest) (H : Hyp tr) {x y : Nat}
    (hxy : x < y) : NoneAfter tr (.write x) (.write y) := by
  obtain ⟨ps, hacc⟩ := Drpc.Props.ManagerSys.sys_prefix_accepted h hm
  exact writes_ordered_by_stream_id hacc H hxy

/-! ### §3 the hypotheses of `Props/Compose.lean`, derived

  `Props.Compose.streams_do_not_interleave` numbers the streams of a connection by order of creation and
  assumes a record `Compose.Hyp` of five facts about one global event list.  Here that record is DERIVED
  for every combined trace whose manager part is accepted and which satisfies (S1)–(S3): the two facts
  about the manager (`beginAfterPrevDone`, `doneAfterBegin`) come from the checker's theorems, the other
  three are (S1)–(S3) transported along `sid ↦ creation index`. -/

/-- the wire ids of the streams created, oldest first -/
def createdIds (tr : List CEv) : List Nat := (mgrTrace tr).filterMap beginId

/-- creation index of the stream with wire id `sid` (0 = the first stream of the connection; the number of
    streams for an id that was never created) -/
def rank (tr : List CEv) (sid : Nat) : Nat := (createdIds tr).idxOf sid

open Drpc.Props.Compose (GEv) in
/-- the combined event, renamed by creation index; manager events other than `newBegin` / `prevDone` have no
    counterpart in `Props/Compose.lean` -/
def toG (tr : List CEv) : CEv → Option GEv
  | .mgr (.newBegin sid) => some (.newBegin (rank tr sid))
  | .mgr (.prevDone sid) => some (.prevDone (rank tr sid))
  | .write sid => some (.write (rank tr sid))
  | .fin sid => some (.fin (rank tr sid))
  | _ => none

open Drpc.Props.Compose (GEv) in
/-- the combined trace as a global event list of `Props/Compose.lean` -/
def byCreationIndex (tr : List CEv) : List GEv := tr.filterMap (toG tr)

section
open Drpc.Props.Compose (GEv)

theorem mem_createdIds {tr : List CEv} {sid : Nat} : sid ∈ createdIds tr ↔ .mgr (.newBegin sid) ∈ tr := by
  rw [createdIds, Drpc.Props.Manager.mem_beginIds, mem_mgrTrace]

theorem createdIds_split (p q : List CEv) (y : Nat) :
    createdIds (p ++ .mgr (.newBegin y) :: q) = createdIds p ++ y :: createdIds q := by
  simp [createdIds, mgrTrace_split, List.filterMap_append, beginId]

theorem createdIds_nodup {tr : List CEv} {ps : PS} (hacc : run {} (mgrTrace tr) = some ps) :
    (createdIds tr).Nodup :=
  (Drpc.Props.Manager.stream_ids_strictly_increase_trace hacc).1.imp (fun h => Nat.ne_of_lt h)

theorem toG_write {tr : List CEv} {c : CEv} {k : Nat} (h : toG tr c = some (.write k)) :
    ∃ sid, c = .write sid ∧ rank tr sid = k := by
  cases c with
  | mgr e => cases e <;> simp [toG] at h
  | write sid => simp only [toG, Option.some.injEq, GEv.write.injEq] at h; exact ⟨sid, rfl, h⟩
  | fin sid => simp [toG] at h

theorem toG_fin {tr : List CEv} {c : CEv} {k : Nat} (h : toG tr c = some (.fin k)) :
    ∃ sid, c = .fin sid ∧ rank tr sid = k := by
  cases c with
  | mgr e => cases e <;> simp [toG] at h
  | write sid => simp [toG] at h
  | fin sid => simp only [toG, Option.some.injEq, GEv.fin.injEq] at h; exact ⟨sid, rfl, h⟩

theorem toG_prevDone {tr : List CEv} {c : CEv} {k : Nat} (h : toG tr c = some (.prevDone k)) :
    ∃ sid, c = .mgr (.prevDone sid) ∧ rank tr sid = k := by
  cases c with
  | mgr e =>
    cases e <;> simp [toG] at h
    exact ⟨_, rfl, h⟩
  | write sid => simp [toG] at h
  | fin sid => simp [toG] at h

theorem toG_newBegin {tr : List CEv} {c : CEv} {k : Nat} (h : toG tr c = some (.newBegin k)) :
    ∃ sid, c = .mgr (.newBegin sid) ∧ rank tr sid = k := by
  cases c with
  | mgr e =>
    cases e <;> simp [toG] at h
    exact ⟨_, rfl, h⟩
  | write sid => simp [toG] at h
  | fin sid => simp [toG] at h

/-- every combined trace with an accepted manager part and (S1)–(S3), renamed by creation index, satisfies
    all five hypotheses of `Props.Compose.streams_do_not_interleave` -/
theorem compose_hyp {tr : List CEv} {ps : PS} (hacc : run {} (mgrTrace tr) = some ps) (H : Hyp tr) :
    Drpc.Props.Compose.Hyp (byCreationIndex tr) := by
  refine ⟨?_, ?_, ?_, ?_, ?_⟩
  · -- noWriteAfterFin
    intro k l1 l2 e hw
    obtain ⟨t1, c, t2, htr, hc, -, rfl⟩ := filterMap_split e
    obtain ⟨s, rfl, hs⟩ := toG_fin hc
    obtain ⟨c', hc', hg⟩ := List.mem_filterMap.1 hw
    obtain ⟨s', rfl, hs'⟩ := toG_write hg
    -- the writing stream was created, so its index determines it
    have hcr : s' ∈ createdIds tr := by
      obtain ⟨u, v, hv⟩ := List.append_of_mem hc'
      have := H.writeAfterBegin s' (t1 ++ CEv.fin s :: u) v (by rw [htr, hv]; simp)
      rw [mem_createdIds, htr]
      simp only [List.mem_append, List.mem_cons] at this ⊢
      rcases this with h | h | h
      · exact Or.inl h
      · cases h
      · exact Or.inr (Or.inr (by rw [hv]; simp [h]))
    have : s' = s := idxOf_inj_of_mem hcr (by rw [rank] at hs hs'; rw [hs, hs'])
    subst this
    exact H.noWriteAfterFin s' t1 t2 htr hc'
  · -- prevDoneAfterFin
    intro k l1 l2 e
    obtain ⟨t1, c, t2, htr, hc, rfl, -⟩ := filterMap_split e
    obtain ⟨s, rfl, hs⟩ := toG_prevDone hc
    exact List.mem_filterMap.2 ⟨_, H.prevDoneAfterFin s t1 t2 htr, by simp [toG, hs]⟩
  · -- beginAfterPrevDone: the manager
    intro k l1 l2 e
    obtain ⟨t1, c, t2, htr, hc, rfl, -⟩ := filterMap_split e
    obtain ⟨y, rfl, hy⟩ := toG_newBegin hc
    have hacc' := hacc
    rw [htr, mgrTrace_split] at hacc'
    have hnd := createdIds_nodup hacc
    have hcre : createdIds tr = createdIds t1 ++ y :: createdIds t2 := by rw [htr, createdIds_split]
    have hy1 : y ∉ createdIds t1 := by
      intro hin
      have := (begin_ids_ordered hacc' y).1 (mem_mgrTrace.2 (mem_createdIds.1 hin))
      omega
    -- `y` is the (k+1)-th stream: k+1 streams were created before it; take the last of them
    have hlen : (createdIds t1).length = k + 1 := by
      rw [rank, hcre, List.idxOf_append, if_neg hy1, List.idxOf_cons_self] at hy
      omega
    have hk : k < (createdIds t1).length := by omega
    have hx : (createdIds t1)[k] ∈ createdIds t1 := List.getElem_mem hk
    have hrx : rank tr (createdIds t1)[k] = k := by
      rw [rank, hcre, List.idxOf_append, if_pos hx]
      rw [hcre] at hnd
      exact (List.nodup_append.1 hnd).1.idxOf_getElem k hk
    have hpd := earlier_streams_seen_finished hacc' (mem_mgrTrace.2 (mem_createdIds.1 hx))
    exact List.mem_filterMap.2 ⟨_, mem_mgrTrace.1 hpd, by simp [toG, hrx]⟩
  · -- doneAfterBegin: the manager
    intro k l1 l2 e
    obtain ⟨t1, c, t2, htr, hc, rfl, -⟩ := filterMap_split e
    obtain ⟨s, rfl, hs⟩ := toG_prevDone hc
    exact List.mem_filterMap.2 ⟨_, seen_finished_only_after_created hacc s t1 t2 htr, by simp [toG, hs]⟩
  · -- writeAfterBegin
    intro k l1 l2 e
    obtain ⟨t1, c, t2, htr, hc, rfl, -⟩ := filterMap_split e
    obtain ⟨s, rfl, hs⟩ := toG_write hc
    exact List.mem_filterMap.2 ⟨_, H.writeAfterBegin s t1 t2 htr, by simp [toG, hs]⟩

/-- so `Props.Compose.streams_do_not_interleave` applies to it: for j < k, once the k-th stream of the
    connection has started a transport write, the j-th never starts one again -/
theorem streams_do_not_interleave_by_creation_index {tr : List CEv} {ps : PS}
    (hacc : run {} (mgrTrace tr) = some ps) (H : Hyp tr) (j d : Nat) :
    Drpc.Props.Compose.NoneAfter (byCreationIndex tr) (.write j) (.write (j + d + 1)) :=
  Drpc.Props.Compose.streams_do_not_interleave (compose_hyp hacc H) j d

end

/-! ### §4 non-vacuity -/

/-- what must not follow an event (S1) -/
def forbidsLater : CEv → Option CEv
  | .fin sid => some (.write sid)
  | _ => none

/-- what must precede an event: (S2) … -/
def needsFin : CEv → Option CEv
  | .mgr (.prevDone sid) => some (.fin sid)
  | _ => none

/-- … and (S3) -/
def needsBegin : CEv → Option CEv
  | .write sid => some (.mgr (.newBegin sid))
  | _ => none

/-- executable check of the stream-side hypotheses (S1), (S2), (S3) -/
def checkHyp (tr : List CEv) : Bool :=
  noneAfterB forbidsLater tr && precededB needsFin [] tr && precededB needsBegin [] tr

theorem hyp_of_checkHyp {tr : List CEv} (h : checkHyp tr = true) : Hyp tr := by
  simp only [checkHyp, Bool.and_eq_true] at h
  refine ⟨fun sid l1 l2 e => noneAfterB_sound h.1.1 e rfl, fun sid l1 l2 e => ?_, fun sid l1 l2 e => ?_⟩
  · rcases precededB_sound (a := CEv.fin sid) h.1.2 e rfl with h1 | h1
    · cases h1
    · exact h1
  · rcases precededB_sound (a := CEv.mgr (.newBegin sid)) h.2 e rfl with h1 | h1
    · cases h1
    · exact h1

/-- a client connection doing two RPCs: stream 1 is created, writes twice, finishes, the manager consumes
    its fin token and releases the semaphore; the next call sees stream 1 finished, creates stream 2, which
    writes twice (the reader drops a late packet of stream 1 meanwhile) and finishes -/
def exTrace : List CEv :=
  [.mgr .semAcq, .mgr .prevNone, .mgr (.newBegin 1), .mgr (.newEnd 1), .mgr (.newOffer 1), .write 1,
   .mgr (.deliver 1), .write 1, .fin 1, .mgr (.sfinRecv 1), .mgr .semRel,
   .mgr .semAcq, .mgr (.prevDone 1), .mgr (.newBegin 2), .mgr (.newEnd 2), .mgr (.newOffer 2), .write 2,
   .mgr (.drop 1), .write 2, .fin 2, .mgr (.sfinRecv 2), .mgr .semRel]

/-- non-vacuity: the manager part is accepted, (S1)–(S3) hold, stream 1 is created before stream 2 and both
    write -/
example : (run {} (mgrTrace exTrace)).isSome = true ∧ Hyp exTrace ∧
    OccursBefore exTrace (.mgr (.newBegin 1)) (.mgr (.newBegin 2)) ∧
    .write 1 ∈ exTrace ∧ .write 2 ∈ exTrace :=
  ⟨by decide, hyp_of_checkHyp (by decide),
   ⟨[.mgr .semAcq, .mgr .prevNone], _, rfl, by decide⟩, by decide, by decide⟩

/-- … and renamed by creation index it is the kind of list `Props/Compose.lean` talks about -/
example : byCreationIndex exTrace =
    [.newBegin 0, .write 0, .write 0, .fin 0, .prevDone 0, .newBegin 1, .write 1, .write 1, .fin 1] := by decide

/-- the check is not trivially true: a write of stream 1 after it finished, a `prevDone 1` before stream 1
    finished, a write of a stream the manager never created -/
example : checkHyp [.mgr (.newBegin 1), .fin 1, .write 1] = false := by decide
example : checkHyp [.mgr (.newBegin 1), .mgr (.prevDone 1), .fin 1] = false := by decide
example : checkHyp [.write 1] = false := by decide

/-- the manager "sees" stream 1 finished (and creates stream 2) while stream 1 still writes -/
def earlyDoneTrace : List CEv :=
  [.mgr .semAcq, .mgr .prevNone, .mgr (.newBegin 1), .mgr (.newEnd 1), .mgr (.newOffer 1), .write 1,
   .mgr (.prevDone 1), .mgr (.newBegin 2), .mgr (.newEnd 2), .write 2, .write 1, .fin 1, .fin 2]

/-- (S2) cannot be dropped: the manager part of `earlyDoneTrace` is accepted, (S1) and (S3) hold, and yet
    stream 1 writes after stream 2.  (The checker cannot know when a stream is finished; that `prevDone`
    follows the stream's `fin` is a fact about waitForPreviousStream, hypothesis (S2).) -/
theorem prevDoneAfterFin_needed :
    (run {} (mgrTrace earlyDoneTrace)).isSome = true ∧
    (∀ sid, NoneAfter earlyDoneTrace (.write sid) (.fin sid)) ∧
    (∀ sid, PrecededBy earlyDoneTrace (.mgr (.newBegin sid)) (.write sid)) ∧
    ¬ NoneAfter earlyDoneTrace (.write 1) (.write 2) := by
  refine ⟨by decide, fun sid l1 l2 e => noneAfterB_sound (trig := forbidsLater) (by decide) e rfl,
    fun sid l1 l2 e => ?_, fun h => ?_⟩
  · rcases precededB_sound (need := needsBegin) (pre := []) (a := CEv.mgr (.newBegin sid)) (by decide) e rfl
      with h1 | h1
    · cases h1
    · exact h1
  · exact h (earlyDoneTrace.take 9) [.write 1, .fin 1, .fin 2] rfl (by simp)

end Drpc.Props.ComposeManager
