/-
  Composition glue for C07 ("frames of a later stream never precede frames of an earlier one"),
  machine-checked: a happens-before argument over ONE global sequence of events of a connection,
  whose four hypotheses are the facts established separately about the components:

  * `noWriteAfterFin`  — a finished stream hands nothing more to the transport
        (stream model: `Props.C07.finished_emits_nothing`, oracle `C07:no-write-after-finished`);
  * `prevDoneAfterFin` — the manager reports `prev.done k` only after it has seen stream k finished
        (manager.go `waitForPreviousStream`: the report follows `prev.IsFinished()` / `<-prev.Finished()`);
  * `beginAfterPrevDone` — the (k+1)-th stream of the connection is created only after `prev.done` of
        the k-th (every accepted manager trace: `Props.Manager.next_stream_after_previous_finished`;
        every execution of the manager model: `Props.ManagerSys.sys_next_stream_after_previous_finished`);
  * `writeAfterBegin`  — a stream writes only after it was created.

  Streams are numbered by order of creation (k-th stream of the connection), not by wire id.
  The manager-side hypotheses (`beginAfterPrevDone`, `doneAfterBegin`) are derived from the manager
  protocol checker in `Props/ComposeManager.lean` (`compose_hyp`). What is NOT checked is that the
  stream-side events (`write`, `fin`) of the stream model and the manager's events denote instants
  of one execution; that identification is argued in DESIGN.md §0.3.
-/
namespace Drpc.Props.Compose

inductive GEv where
  | write (k : Nat)       -- a transport write of the k-th stream starts
  | fin (k : Nat)         -- the k-th stream is finished
  | prevDone (k : Nat)    -- the manager has seen the k-th stream finished
  | newBegin (k : Nat)    -- the k-th stream is created
deriving DecidableEq, Repr

/-- no `a` occurs after an occurrence of `b` -/
def NoneAfter (tr : List GEv) (a b : GEv) : Prop :=
  ∀ l1 l2, tr = l1 ++ b :: l2 → a ∉ l2

/-- every occurrence of `b` is preceded by an occurrence of `a` -/
def PrecededBy (tr : List GEv) (a b : GEv) : Prop :=
  ∀ l1 l2, tr = l1 ++ b :: l2 → a ∈ l1

structure Hyp (tr : List GEv) : Prop where
  noWriteAfterFin : ∀ k, NoneAfter tr (.write k) (.fin k)
  prevDoneAfterFin : ∀ k, PrecededBy tr (.fin k) (.prevDone k)
  beginAfterPrevDone : ∀ k, PrecededBy tr (.prevDone k) (.newBegin (k + 1))
  doneAfterBegin : ∀ k, PrecededBy tr (.newBegin k) (.prevDone k)
  writeAfterBegin : ∀ k, PrecededBy tr (.newBegin k) (.write k)

/-- if `x` occurs in the part before `b`, and `a` occurs in the part after `b`, then `a` occurs after `x` -/
theorem after_of_before {tr l1 l2 : List GEv} {b x a : GEv} (h : tr = l1 ++ b :: l2) (hx : x ∈ l1) (ha : a ∈ l2) :
    ∃ p q, tr = p ++ x :: q ∧ a ∈ q := by
  obtain ⟨p, q, rfl⟩ := List.append_of_mem hx
  exact ⟨p, q ++ b :: l2, by simp [h], by simp [ha]⟩

/-- nothing of the j-th stream is written after the creation of a later stream -/
theorem no_write_after_later_begin {tr : List GEv} (H : Hyp tr) (j : Nat) :
    ∀ d p q, tr = p ++ GEv.newBegin (j + d + 1) :: q → GEv.write j ∉ q := by
  intro d
  induction d with
  | zero =>
    intro p q e hw
    have hpd : GEv.prevDone j ∈ p := H.beginAfterPrevDone j p q e
    obtain ⟨p2, q2, e2, hw2⟩ := after_of_before e hpd hw
    have hf : GEv.fin j ∈ p2 := H.prevDoneAfterFin j p2 q2 e2
    obtain ⟨p3, q3, e3, hw3⟩ := after_of_before e2 hf hw2
    exact H.noWriteAfterFin j p3 q3 e3 hw3
  | succ d ih =>
    intro p q e hw
    have hpd : GEv.prevDone (j + d + 1) ∈ p := H.beginAfterPrevDone (j + d + 1) p q e
    obtain ⟨p2, q2, e2, hw2⟩ := after_of_before e hpd hw
    have hbg : GEv.newBegin (j + d + 1) ∈ p2 := H.doneAfterBegin (j + d + 1) p2 q2 e2
    obtain ⟨p3, q3, e3, hw3⟩ := after_of_before e2 hbg hw2
    exact ih p3 q3 e3 hw3

/-- **Streams do not interleave on the transport**: for j < k, once the k-th stream of a connection
    has started a transport write, the j-th never starts one again. -/
theorem streams_do_not_interleave {tr : List GEv} (H : Hyp tr) (j d : Nat) :
    NoneAfter tr (.write j) (.write (j + d + 1)) := by
  intro l1 l2 htr hw
  have hb : GEv.newBegin (j + d + 1) ∈ l1 := H.writeAfterBegin (j + d + 1) l1 l2 htr
  obtain ⟨p, q, e, hw'⟩ := after_of_before htr hb hw
  exact no_write_after_later_begin H j d p q e hw'

/-! ### decidable forms (for the non-vacuity example) -/

theorem split_at {tr l1 l2 : List GEv} {b : GEv} (h : tr = l1 ++ b :: l2) :
    tr[l1.length]? = some b ∧ tr.take l1.length = l1 ∧ tr.drop (l1.length + 1) = l2 := by
  subst h; simp

theorem precededBy_of_index {tr : List GEv} {a b : GEv}
    (h : ∀ i, i < tr.length → tr[i]? = some b → a ∈ tr.take i) : PrecededBy tr a b := by
  intro l1 l2 e
  obtain ⟨h1, h2, _⟩ := split_at e
  have hlt : l1.length < tr.length := by subst e; simp
  simpa [h2] using h l1.length hlt h1

theorem noneAfter_of_index {tr : List GEv} {a b : GEv}
    (h : ∀ i, i < tr.length → tr[i]? = some b → a ∉ tr.drop (i + 1)) : NoneAfter tr a b := by
  intro l1 l2 e
  obtain ⟨h1, _, h3⟩ := split_at e
  have hlt : l1.length < tr.length := by subst e; simp
  simpa [h3] using h l1.length hlt h1

def exTrace : List GEv := [.newBegin 0, .write 0, .write 0, .fin 0, .prevDone 0, .newBegin 1, .write 1, .fin 1, .prevDone 1]

/-- non-vacuity: two streams, each created, written, finished, seen finished -/
example : Hyp exTrace := by
  refine ⟨fun k => noneAfter_of_index ?_, fun k => precededBy_of_index ?_, fun k => precededBy_of_index ?_,
    fun k => precededBy_of_index ?_, fun k => precededBy_of_index ?_⟩ <;>
  · intro i hi
    have hi' : i < 9 := hi
    have hc : i = 0 ∨ i = 1 ∨ i = 2 ∨ i = 3 ∨ i = 4 ∨ i = 5 ∨ i = 6 ∨ i = 7 ∨ i = 8 := by omega
    rcases hc with rfl | rfl | rfl | rfl | rfl | rfl | rfl | rfl | rfl <;>
      simp [exTrace] <;> (try (intro h; subst h; simp))

end Drpc.Props.Compose
