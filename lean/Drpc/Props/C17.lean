import Drpc.Lemmas.Gen
/-
  C17 — Generated code is well-typed and consistent with the runtime for any service.
  Property theorems only.  What is proved: the naming and shape logic of the generator model
  (`Drpc/Gen.lean`) and its agreement with the model of drpcmux's reflection-based dispatch.
  What is NOT a Lean theorem: "the generated file type-checks for every descriptor" — that would
  need a model of Go's type system; it rests on the go/types runs of the `gen` suite.
-/
namespace Drpc.Props.C17
open Drpc Drpc.Gen

/-- Client stub and server description use one string: for the i-th method of a service, the rpc
    handed to `Invoke`/`NewStream` by the generated client method, the rpc of `case i` of the
    generated Description (as the mux reads it through `Method(i)`), and the documented form
    `"/" + full service name + "/" + method name` all coincide — for every package, service and
    method name. -/
theorem rpc_name_shared (f : FileD) (s : Service) (pre : List Method) (m : Method) (rest : List Method)
    (h : s.methods = pre ++ m :: rest) :
    clientRPC f s m = some (rpcGoString f s m) ∧
    (descMethod f s pre.length).map (·.1) = some (rpcGoString f s m) ∧
    rpcGoString f s m = '/' :: (if f.pkg = [] then s.proto else f.pkg ++ '.' :: s.proto) ++ '/' :: m.proto := by
  refine ⟨clientRPC_eq f s m, ?_, rfl⟩
  rw [descMethod_at f s pre m rest h]; rfl

/-- The rpc string determines the service's full name and the method name (so two different
    methods never share a key of the mux's table), as long as method names contain no `/`
    (proto identifiers cannot). -/
theorem rpc_name_injective (f f' : FileD) (s s' : Service) (m m' : Method)
    (hm : '/' ∉ m.proto) (hm' : '/' ∉ m'.proto)
    (h : rpcGoString f s m = rpcGoString f' s' m') :
    fullName f s = fullName f' s' ∧ m.proto = m'.proto := by
  unfold rpcGoString at h
  exact slash_split hm hm' (List.cons.inj h).2

/-- The four generated method shapes are exactly the shapes `registerOne` recognises, and the
    arguments `HandleRPC` supplies are the ones the generated receiver type-asserts:
    * the method expression `DRPCxServer.M` registers as the documented class `shape cs ss`;
    * every `inN.(T)` of the receiver finds in slot N what HandleRPC puts there (a decoded message
      of the method's input type, or the stream);
    * the receiver's call passes exactly the parameters of the server interface method. -/
theorem shapes_classified (cs ss : Bool) :
    Mux.registerOne (methodExpr cs ss) = .ok (shape cs ss) ∧
    (∀ u ∈ receiverUses cs ss, Mux.supplied (shape cs ss) u.1 = some (Mux.expects u.2)) ∧
    receiverCallArgs cs ss = serverArgs cs ss := by
  cases cs <;> cases ss <;> decide

/-- the classes are the documented ones: unitary/unitary, unitary in/stream out, stream in -/
theorem shape_cases :
    shape false false = { unitary := true, in1 := .param 2 .msg, in2 := false } ∧
    shape false true = { unitary := false, in1 := .param 1 .msg, in2 := true } ∧
    shape true false = { unitary := false, in1 := .stream, in2 := false } ∧
    shape true true = { unitary := false, in1 := .stream, in2 := false } := by decide

/-- shapes outside the generated four are NOT silently accepted as something else: a two-result
    method with fewer than three inputs makes registerOne panic (`mt.In(2)`), any other arity is
    "unknown method type" -/
theorem foreign_shapes_rejected :
    Mux.registerOne ⟨[.srv, .msg], 2⟩ = .panic ∧ Mux.registerOne ⟨[.srv], 1⟩ = .err ∧
    Mux.registerOne ⟨[.srv, .ctx, .msg, .stream], 1⟩ = .err := by decide

/-- The generated Description is complete: `NumMethods` is the number of methods, `Method(i)` is
    defined exactly on `[0, n)` and describes the i-th method. -/
theorem description_complete (f : FileD) (s : Service) :
    Decl.numMethods (serverDesc s) s.methods.length ∈ genService f s ∧
    numMethods s = s.methods.length ∧
    (∀ pre m rest, s.methods = pre ++ m :: rest →
      descMethod f s pre.length = some (rpcGoString f s m, methodExpr m.cs m.ss)) ∧
    (∀ n, s.methods.length ≤ n → descMethod f s n = none) := by
  refine ⟨?_, rfl, fun pre m rest h => descMethod_at f s pre m rest h, fun n h => descMethod_none f s n h⟩
  simp [genService]

/-- `Mux.Register` run on the generated Description succeeds and registers, in order, every method
    under its rpc string with the documented class. -/
theorem register_succeeds (f : FileD) (s : Service) :
    Mux.register (numMethods s) (descMethod f s)
      = .ok (s.methods.map (fun m => (rpcGoString f s m, shape m.cs m.ss))) := by
  have := registerFrom_desc f s s.methods [] [] (by simp)
  simpa [Mux.register, numMethods] using this

/-- Under `CollisionFree` all package-level identifiers the generator emits into a Go package —
    together with the identifiers other generators declared there — are pairwise distinct.
    Partial: `CollisionFree` is a real restriction (see the counterexamples below); every clause
    of it is decidable from the Go names of the descriptor. -/
theorem names_distinct_partial (c : Conf) (p : Pkg) (h : CollisionFree c p) :
    (emittedNames c p ++ p.others).Nodup := by
  have hn : (emittedNames c p).Nodup :=
    emitted_nodup c p ⟨h.method_no_leading_underscore, h.service_vs_stream, h.unimplemented, h.register,
      h.encoding.2⟩ h.services_distinct h.methods_distinct h.encoding.1
  rw [List.nodup_append]
  exact ⟨hn, h.others.1, fun a ha b hb e => h.others.2 b hb (e ▸ ha)⟩

/-- … and the methods of every generated client interface are pairwise distinct. -/
theorem client_iface_methods_distinct (c : Conf) (p : Pkg) (h : CollisionFree c p) :
    ∀ s ∈ services p, (sDRPCConn :: s.methods.map (·.go)).Nodup := by
  intro s hs
  rw [List.nodup_cons]
  refine ⟨?_, ?_⟩
  · intro hm
    obtain ⟨m, hm, e⟩ := List.mem_map.1 hm
    exact h.drpcconn s hs m hm e
  · rw [List.nodup_iff_pairwise_ne, List.pairwise_map]
    exact h.methods_distinct s hs

/-- the suite's `pattern=` labels are exactly the violated clauses -/
theorem labels_nil_iff (c : Conf) (p : Pkg) : collisionLabels c p = [] ↔ CollisionFree c p := by
  have ite_nil : ∀ (P : Prop) [Decidable P] (x : String), ((if P then [] else [x]) = ([] : List String)) ↔ P := by
    intro P _ x; by_cases hp : P <;> simp [hp]
  simp only [collisionLabels, List.append_eq_nil_iff, ite_nil]
  constructor
  · rintro ⟨⟨⟨⟨⟨⟨⟨⟨h1, h2⟩, h3⟩, h4⟩, h5⟩, h6⟩, h7⟩, h8⟩, h9⟩
    exact ⟨h1, h2, h3, h4, h5, h6, h7, h8, h9⟩
  · intro h
    exact ⟨⟨⟨⟨⟨⟨⟨⟨h.services_distinct, h.methods_distinct⟩, h.method_no_leading_underscore⟩, h.service_vs_stream⟩,
      h.unimplemented⟩, h.register⟩, h.encoding⟩, h.others⟩, h.drpcconn⟩

-- ---------------------------------------------------------------------------------------------
-- the hypotheses are satisfiable, and each clause excludes something real

def mreq (n : String) (cs ss : Bool) : Method := ⟨n.toList, n.toList, cs, ss, "Req".toList, "Resp".toList⟩
def svc (n : String) (ms : List Method) : Service := ⟨n.toList, n.toList, ms⟩
def pkg1 (others : List String) (ss : List Service) : Pkg :=
  ⟨[⟨"File_svc_proto".toList, "pkg".toList, ss⟩], others.map String.toList⟩
def conf : Conf := ⟨.google, true⟩

/-- non-vacuity: an ordinary two-service descriptor is collision-free -/
example : CollisionFree conf (pkg1 ["Req", "Resp", "File_svc_proto"]
    [svc "Greeter" [mreq "Hello" false false, mreq "Watch" false true],
     svc "Store" [mreq "Put" true false, mreq "Sync" true true]]) := by decide

/-- Service `A_B` and service `A` with a streaming method `B` both declare `DRPCA_BClient`
    (and `drpcA_BClient`): the generated file does not compile.  Replayed on the generator by the
    gen suite; known finding C17-name-collision. -/
theorem name_collision_counterexample :
    clientIface (svc "A_B" []) = clientStreamIface (svc "A" [mreq "B" true false]) (mreq "B" true false) ∧
    ¬ (emittedNames conf (pkg1 [] [svc "A" [mreq "B" true false], svc "A_B" []])).Nodup ∧
    collisionLabels conf (pkg1 [] [svc "A" [mreq "B" true false], svc "A_B" []]) = ["service-vs-stream"] := by
  decide

/-- `FooUnimplemented` + `Foo`: `DRPCFooUnimplementedServer` twice -/
theorem unimplemented_collision_counterexample :
    serverIface (svc "FooUnimplemented" []) = serverUnimpl (svc "Foo" []) ∧
    collisionLabels conf (pkg1 [] [svc "Foo" [], svc "FooUnimplemented" []]) = ["unimplemented"] := by
  decide

/-- `RegisterFoo` + `FooClient`: function `DRPCRegisterFooClient` and interface `DRPCRegisterFooClient` -/
theorem register_collision_counterexample :
    registerFn (svc "FooClient" []) = clientIface (svc "RegisterFoo" []) ∧
    registerFn (svc "FooServer" []) = serverIface (svc "RegisterFoo" []) ∧
    collisionLabels conf (pkg1 [] [svc "RegisterFoo" [], svc "FooClient" []]) = ["register"] := by
  decide

/-- two services / two methods whose proto names differ but whose Go names coincide
    (`foo_bar` and `FooBar`; `get_x` and `GetX`) -/
theorem go_name_collision_counterexample :
    collisionLabels conf (pkg1 [] [⟨"foo_bar".toList, "FooBar".toList, []⟩, ⟨"FooBar".toList, "FooBar".toList, []⟩]) = ["dup-service"] ∧
    collisionLabels conf (pkg1 [] [svc "S" [⟨"get_x".toList, "GetX".toList, false, false, [], []⟩,
                                             ⟨"GetX".toList, "GetX".toList, false, false, [], []⟩]]) = ["dup-method"] := by
  decide

/-- a method called `DRPCConn` is declared twice in the client interface -/
theorem drpcconn_collision_counterexample :
    collisionLabels conf (pkg1 [] [svc "S" [mreq "DRPCConn" false false]]) = ["drpcconn-method"] ∧
    ¬ (sDRPCConn :: [(mreq "DRPCConn" false false).go]).Nodup := by
  decide

/-- a message `DRPCFooClient` next to service `Foo`; a file `FooClient` with service
    `Encoding_File_Foo` (`drpcEncoding_File_FooClient` twice) -/
theorem foreign_decl_collision_counterexample :
    collisionLabels conf (pkg1 ["DRPCFooClient"] [svc "Foo" []]) = ["other-decl"] ∧
    collisionLabels conf ⟨[⟨"File_FooClient".toList, [], [svc "Encoding_File_Foo" []]⟩], []⟩ = ["encoding"] := by
  decide

/-- without the protogen guarantee that Go names do not begin with `_` the `_ → __` doubling is
    not injective: `X_`.`Y` and `X`.`_Y` give the same stream type name -/
theorem leading_underscore_counterexample :
    streamBase (svc "X_" []) (mreq "Y" true true) = streamBase (svc "X" []) (mreq "_Y" true true) := by
  decide

end Drpc.Props.C17
