import Drpc.Wire.Frame
/-
  Model of drpcwire/split.go: SplitData, SplitN.
-/
namespace Drpc

/-- effective split size: `n == 0 → 64*1024`, `n < 0 → 0` (= no splitting). -/
def splitSize (n : Int) : Nat :=
  if n = 0 then 65536 else if n < 0 then 0 else n.toNat

/-- mirrors drpcwire.SplitData -/
def splitData (buf : Bytes) (n : Int) : Bytes × Bytes :=
  let m := splitSize n
  if buf.length > m ∧ m > 0 then (buf.take m, buf.drop m) else (buf, [])

structure Packet where
  data : Bytes
  sid : U64
  mid : U64
  kind : Byte
  control : Bool
deriving Repr, DecidableEq

/-- The loop of drpcwire.SplitN (and its duplicate in `Stream.rawWriteLocked`) for an effective
    split size `m`: while `len(data) > m ∧ m > 0` emit `data[:m]` not-done; the last frame is done. -/
def splitFrames (sid mid : U64) (kind : Byte) (control : Bool) (m : Nat) (data : Bytes) : List Frame :=
  if h : data.length > m ∧ m > 0 then
    { data := data.take m, sid := sid, mid := mid, kind := kind, control := control, done := false }
      :: splitFrames sid mid kind control m (data.drop m)
  else [{ data := data, sid := sid, mid := mid, kind := kind, control := control, done := true }]
termination_by data.length
decreasing_by simp [List.length_drop]; omega

/-- mirrors drpcwire.SplitN with a callback that never fails: the list of frames passed to `cb`. -/
def splitN (pkt : Packet) (n : Int) : List Frame :=
  splitFrames pkt.sid pkt.mid pkt.kind pkt.control (splitSize n) pkt.data

end Drpc
