import Drpc.Wire.Varint
/-
  Model of drpcwire/packet.go: Frame, ParseFrame, AppendFrame, ID.Less.
-/
namespace Drpc

structure Frame where
  data : Bytes
  sid : U64
  mid : U64
  kind : Byte      -- Go `Kind uint8`; 6 bits fit on the wire
  done : Bool
  control : Bool
deriving Repr, DecidableEq

/-- Result of `ParseFrame`: `ok rem fr` | `short` (ok=false, err=nil: need more data) | `err`. -/
inductive PR where
  | ok (rem : Bytes) (fr : Frame)
  | short
  | err            -- "varint too long"
  | panic          -- an index/slice expression out of range (never reached: `parse_total`)
deriving Repr, DecidableEq

def kindOfControl (c : Byte) : Byte := (c &&& 0b01111110#8) >>> 1
def doneOfControl (c : Byte) : Bool := (c &&& 1#8) != 0#8
def ctlOfControl (c : Byte) : Bool := (c &&& 128#8) != 0#8

/-- mirrors drpcwire.ParseFrame -/
def parseFrame (buf : Bytes) : PR :=
  if buf.length < 4 then .short else
  match buf with
  | [] => .panic                       -- `buf[0]`, `buf[1:]`
  | c :: rem =>
    match readVarint rem with
    | .short => .short
    | .tooLong => .err
    | .ok rem sid =>
      match readVarint rem with
      | .short => .short
      | .tooLong => .err
      | .ok rem mid =>
        match readVarint rem with
        | .short => .short
        | .tooLong => .err
        | .ok rem len =>
          if len.toNat > rem.length then .short else
          if rem.length < len.toNat then .panic else      -- `rem[length:]`, `rem[:length]`
          .ok (rem.drop len.toNat)
            { data := rem.take len.toNat, sid := sid, mid := mid,
              kind := kindOfControl c, done := doneOfControl c, control := ctlOfControl c }

/-- `control := byte(fr.Kind << 1); if Done { |= 1 }; if Control { |= 0x80 }` -/
def controlByte (fr : Frame) : Byte :=
  ((fr.kind <<< 1) ||| (if fr.done then 1#8 else 0#8)) ||| (if fr.control then 128#8 else 0#8)

/-- mirrors drpcwire.AppendFrame (appending to an empty buffer; Go appends to `buf`). -/
def appendFrame (fr : Frame) : Bytes :=
  controlByte fr :: (appendVarint fr.sid ++ (appendVarint fr.mid ++
    (appendVarint (BitVec.ofNat 64 fr.data.length) ++ fr.data)))

/-- `ID.Less` -/
def idLess (s1 m1 s2 m2 : U64) : Bool :=
  s1.toNat < s2.toNat || (s1 == s2 && m1.toNat < m2.toNat)

end Drpc
