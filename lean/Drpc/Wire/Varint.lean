import Drpc.Bytes
/-
  Model of drpcwire/varint.go.

  func AppendVarint(buf []byte, x uint64) []byte {
      for x >= 128 { buf = append(buf, byte(x&127|128)); x >>= 7 }
      return append(buf, byte(x)) }

  func ReadVarint(buf []byte) (rem []byte, out uint64, ok bool, err error) {
      rem = buf
      for shift := uint(0); shift < 64; shift += 7 {
          if len(rem) == 0 { return buf, 0, false, nil }
          val := uint64(rem[0])
          out, rem = out|((val&127)<<shift), rem[1:]
          if val < 128 { return rem, out, true, nil } }
      return rem, 0, false, drpc.Error.New("varint too long") }
-/
namespace Drpc

def appendVarint (x : U64) : Bytes :=
  if h : 128 ≤ x.toNat then ((x.truncate 8 &&& 127#8) ||| 128#8) :: appendVarint (x >>> 7)
  else [x.truncate 8]
termination_by x.toNat
decreasing_by simp [BitVec.toNat_ushiftRight, Nat.shiftRight_eq_div_pow]; omega

/-- Result of `ReadVarint`: `ok rem v` | `short` (ok=false, err=nil) | `tooLong` (err≠nil). -/
inductive VR where
  | ok (rem : Bytes) (v : U64)
  | short
  | tooLong
deriving Repr, DecidableEq

/-- `fuel` = number of loop iterations left.  The Go loop `shift < 64; shift += 7` runs for
    shift = 0,7,…,63, i.e. `Generated.varintIters` (=10) iterations. -/
def readVarintAux : Nat → Nat → U64 → Bytes → VR
  | 0, _, _, _ => .tooLong
  | _+1, _, _, [] => .short
  | n+1, shift, out, b :: rest =>
    let out := out ||| (((b.zeroExtend 64) &&& 127#64) <<< shift)
    if b.toNat < 128 then .ok rest out else readVarintAux n (shift + 7) out rest

def readVarint (buf : Bytes) : VR := readVarintAux 10 0 0#64 buf

end Drpc
