import Drpc.Wire.Split
import Drpc.Lemmas.Frame
/-
  Model of drpcwire/reader.go (`Reader.ReadPacketUsing`, `Reader.read`) as repaired by the
  `fix:` commit (early overflow check applied to the unparsed partial frame, before reading more,
  with the true maximal header size 1+10+10+10).

  Go state                      model
  ---------------------------   ------------------------------------------------------------
  r.curr (unparsed bytes)       `rest` / `pending : Bytes`
  len(r.buf)                    not stored: it is 0 after a parsed frame and len(r.curr) otherwise,
                                and the code only uses it after the compaction that makes it len(r.curr)
  cap(r.buf)                    `cap : Nat`
  r.id                          `rid : U64 × U64`
  pkt (per call)                `cur : Option Cur`  (none at the start of a call: `pkt.ID == ID{}`)
  r.rerr, the io.Reader         the remaining byte stream + a chunking oracle `choose`
-/
namespace Drpc

/-- error classes the reader can return -/
inductive RErr where
  | protocol             -- drpc.ProtocolError (parse error, id/kind/size violation, data overflow)
  | transport (tag : Nat) -- whatever the io.Reader returned (0 = io.EOF)
deriving Repr, DecidableEq

/-- the packet being assembled within one `ReadPacketUsing` call -/
structure Cur where
  data : Bytes
  kind : Byte
  control : Bool
deriving Repr, DecidableEq

inductive AStep where
  | error
  | cont (rid : U64 × U64) (cur : Cur)
  | emit (pkt : Packet) (rid : U64 × U64)
deriving Repr, DecidableEq

/-- true maximal frame header: control byte + three 10-byte varints -/
def maxHeader : Nat := 31

/-- One frame through the reassembly rules (the second half of the loop body). -/
def assembleStep (mx : Nat) (rid : U64 × U64) (cur : Option Cur) (fr : Frame) : AStep :=
  if idLess fr.sid fr.mid rid.1 rid.2 then .error            -- id monotonicity violation
  else
    let fresh := (rid ≠ (fr.sid, fr.mid)) || cur.isNone        -- `r.id != fr.ID || pkt.ID == ID{}`
    let base? : Option Cur :=
      if fresh then some { data := [], kind := fr.kind, control := fr.control }
      else match cur with
        | none => none
        | some c => if fr.kind ≠ c.kind then none               -- packet kind change
                    else some { c with control := c.control || fr.control }
    match base? with
    | none => .error
    | some c =>
      let c' : Cur := { c with data := c.data ++ fr.data }
      if c'.data.length > mx then .error                       -- data overflow (len)
      else if fr.done then
        .emit { data := c'.data, sid := fr.sid, mid := fr.mid, kind := c'.kind, control := c'.control }
              (fr.sid, fr.mid + 1#64)                           -- `r.id.Message++` (wraps)
      else .cont (fr.sid, fr.mid) c'

inductive DrainEnd where
  | failed                                                    -- ProtocolError
  | stuck (rid : U64 × U64) (cur : Option Cur) (rest : Bytes)  -- `rest` needs more data
deriving Repr, DecidableEq

theorem parse_ok_length {b rem : Bytes} {fr : Frame} (h : parseFrame b = .ok rem fr) :
    rem.length < b.length := by
  obtain ⟨hdr, e, h4, _⟩ := parse_ok_split h
  subst e; simp; omega

/-- Parse and reassemble every complete frame at the front of `pending`; packets are emitted
    as they complete (each emission is the return of one `ReadPacketUsing` call). -/
def drain (mx : Nat) (rid : U64 × U64) (cur : Option Cur) (pending : Bytes) : List Packet × DrainEnd :=
  match h : parseFrame pending with
  | .short => ([], .stuck rid cur pending)
  | .err => ([], .failed)
  | .panic => ([], .failed)
  | .ok rem fr =>
    have : rem.length < pending.length := parse_ok_length h
    match assembleStep mx rid cur fr with
    | .error => ([], .failed)
    | .cont rid' c => drain mx rid' (some c) rem
    | .emit pkt rid' =>
      let (ps, e) := drain mx rid' none rem
      (pkt :: ps, e)
termination_by pending.length

/-- Buffer growth before a read: `if cap(buf)-len(buf) < 4096 { cap = 2*cap + 4096 }`. -/
def growCap (cap len : Nat) : Nat := if cap - len < 4096 then 2 * cap + 4096 else cap

def clampRead (want space remaining : Nat) : Nat :=
  let m := if space ≤ remaining then space else remaining
  let w := if want ≤ m then want else m
  if 1 ≤ w then w else 1

theorem clampRead_pos (w s r : Nat) : 1 ≤ clampRead w s r := by
  unfold clampRead; simp only []; repeat' split
  all_goals omega
theorem clampRead_le (w s r : Nat) (hs : 1 ≤ s) (hr : 1 ≤ r) : clampRead w s r ≤ s ∧ clampRead w s r ≤ r := by
  unfold clampRead; simp only []; repeat' split
  all_goals omega

/-- The read loop.  `rest` is the unparsed partial frame (`parseFrame rest = short`), `remaining`
    the bytes the transport has not delivered yet, `choose step` how many bytes the transport
    wants to return on its `step`-th `Read` (clipped to 1 … min(offered space, remaining)),
    `final` the error the transport returns when the stream is exhausted.
    Result: the packets returned (each with `cap(r.buf)` at the time of its return), the first
    error, and `cap(r.buf)` at that point. -/
def feed (mx : Nat) (choose : Nat → Nat) (final : Nat) (step : Nat) (rid : U64 × U64)
    (cur : Option Cur) (cap : Nat) (rest remaining : Bytes) : List (Packet × Nat) × RErr × Nat :=
  if rest.length > mx + maxHeader then ([], .protocol, cap)      -- early "data overflow"
  else
    let cap1 := growCap cap rest.length
    if hrem : remaining = [] then ([], .transport final, cap1)
    else
      let n := clampRead (choose step) (cap1 - rest.length) remaining.length
      have : (remaining.drop n).length < remaining.length := by
        have h0 : 0 < remaining.length := List.length_pos_iff.mpr hrem
        have h1 : 1 ≤ n := clampRead_pos _ _ _
        rw [List.length_drop]; omega
      match drain mx rid cur (rest ++ remaining.take n) with
      | (pk, .failed) => (pk.map (·, cap1), .protocol, cap1)
      | (pk, .stuck rid' cur' rest') =>
        let (ps, e, c) := feed mx choose final (step + 1) rid' cur' cap1 rest' (remaining.drop n)
        (pk.map (·, cap1) ++ ps, e, c)
termination_by remaining.length
decreasing_by
  have h0 : 0 < remaining.length := List.length_pos_iff.mpr hrem
  have h1 := clampRead_pos (choose step) (growCap cap rest.length - rest.length) remaining.length
  simp only [List.length_drop]; omega

/-- `NewReaderWithOptions` + repeated `ReadPacket` until the first error. -/
def readAll (mx : Nat) (choose : Nat → Nat) (final : Nat) (stream : Bytes) : List (Packet × Nat) × RErr × Nat :=
  feed mx choose final 0 (1#64, 1#64) none 0 [] stream

/-- effective maximum: `if opts.MaximumBufferSize == 0 { = 4 << 20 }` -/
def effectiveMax (m : Nat) : Nat := if m = 0 then 4194304 else m

end Drpc
