import Drpc.Wire.OldReader
/-
  Shared vocabulary of C18 (wire compatibility between the working tree and v0.0.17):

  * `encode`, `wellFormed`, `framesWithin`, `packetsWithin`: the frame sequences the property
    quantifies over (DESIGN §6 C18);
  * what a `drpcstream.Stream` of either version puts on the wire for a sequence of API calls
    (`emitStep`), mirroring `rawWriteLocked` / `sendPacketLocked` / `SendError` / `SendCancel` /
    `Close` / `CloseSend` / `Cancel` of drpcstream/stream.go (new) and `RawWrite` / `sendPacket` /
    … of v0.0.17;
  * `handlePacket`: `drpcstream.Stream.HandlePacket` of the working tree as a pure function on
    the signals it touches.
-/
namespace Drpc.Compat
open Drpc

/-- set the Control field of a parse result -/
def withControl (b : Bool) : PR → PR
  | .ok rem fr => .ok rem { fr with control := b }
  | r => r

/-- the byte stream of a frame sequence: `AppendFrame` of each, concatenated (what `Writer` sends) -/
def encode (fs : List Frame) : Bytes := fs.flatMap appendFrame

/-- admissible successor `f` of frame `g`: a 6-bit kind, and either a strictly higher id, or — if
    `g` did not finish its packet — the same id with the same kind and the same control flag -/
def wfNext (g f : Frame) : Bool :=
  decide (f.kind.toNat < 64) &&
  (idLess g.sid g.mid f.sid f.mid ||
    (!g.done && g.sid == f.sid && g.mid == f.mid && g.kind == f.kind && g.control == f.control))

def wfFrom : Frame → List Frame → Bool
  | _, [] => true
  | g, f :: fs => wfNext g f && wfFrom f fs

/-- `WellFormed fs`: ids lexicographically non-decreasing and ≥ (1,1), one kind and one control
    flag per id, no frame after the done frame of an id, kinds fit their 6 bits. -/
def wellFormed : List Frame → Bool
  | [] => true
  | f :: fs => decide (f.kind.toNat < 64) && !idLess f.sid f.mid 1#64 1#64 && wfFrom f fs

/-- every encoded frame (header + payload) is at most `lim` bytes -/
def framesWithin (lim : Nat) (fs : List Frame) : Prop := ∀ f ∈ fs, (appendFrame f).length ≤ lim

instance (lim : Nat) (fs : List Frame) : Decidable (framesWithin lim fs) := by
  unfold framesWithin; infer_instance

/-- running payload total of consecutive frames with one id stays within `lim` -/
def pwFrom (lim : Nat) : Nat → U64 × U64 → List Frame → Bool
  | _, _, [] => true
  | acc, pid, f :: fs =>
    let acc' := (if pid = (f.sid, f.mid) then acc else 0) + f.data.length
    decide (acc' ≤ lim) && pwFrom lim acc' (f.sid, f.mid) fs

/-- every (partial) packet — the concatenated payloads of consecutive frames with one id — is at
    most `lim` bytes (implied by: for every id the payloads of all its frames total ≤ `lim`) -/
def packetsWithin (lim : Nat) (fs : List Frame) : Bool := pwFrom lim 0 (0#64, 0#64) fs

/-- drop the control flag: how a v0.0.17 endpoint sees a packet -/
def toOld (p : Packet) : Old.OPacket := { data := p.data, sid := p.sid, mid := p.mid, kind := p.kind }

/-- what the old reader is expected to return for what the new reader returns -/
def minusControl (ps : List Packet) : List Old.OPacket := (ps.filter (fun p => !p.control)).map toOld

def toOldErr : RErr → Old.OErr
  | .protocol => .protocol
  | .transport t => .transport t

/-! ### writers: what `SplitN` + `WriteFrame` of either version put on the wire -/

/-- ids strictly increasing, the first one above `prev` -/
def idsIncreasing : U64 × U64 → List (U64 × U64) → Bool
  | _, [] => true
  | p, q :: qs => idLess p.1 p.2 q.1 q.2 && idsIncreasing q qs

/-- every packet split with effective size `m`, frames in order -/
def genEmit (m : Nat) (pkts : List Packet) : List Frame :=
  pkts.flatMap (fun p => splitFrames p.sid p.mid p.kind p.control m p.data)

/-- what the writers are given: 6-bit kinds, strictly increasing ids starting at (1,1) or above -/
def Sendable (pkts : List Packet) : Prop :=
  (∀ p ∈ pkts, p.kind.toNat < 64) ∧ idsIncreasing (1#64, 0#64) (pkts.map (fun p => (p.sid, p.mid))) = true

/-- the working tree: `drpcwire.SplitN(pkt, n, wr.WriteFrame)` for each packet -/
def newEmit (n : Int) (pkts : List Packet) : List Frame := pkts.flatMap (fun p => splitN p n)

/-- a v0.0.17 packet as the new reader would report it -/
def ofOld (p : Old.OPacket) : Packet := { data := p.data, sid := p.sid, mid := p.mid, kind := p.kind, control := false }

/-- v0.0.17: `drpcwire.SplitN(ctx, pkt, n, wr.WriteFrame)` for each packet -/
def oldEmit (n : Int) (pkts : List Old.OPacket) : List Frame := pkts.flatMap (fun p => Old.splitN p n)

/-- `OldProducible fs`: a v0.0.17 writer can have sent `fs` -/
def OldProducible (fs : List Frame) : Prop :=
  ∃ (n : Int) (pkts : List Old.OPacket), Sendable (pkts.map ofOld) ∧ fs = oldEmit n pkts

/-- `NewProducible fs`: the working tree's writer can have sent `fs` -/
def NewProducible (fs : List Frame) : Prop :=
  ∃ (n : Int) (pkts : List Packet), Sendable pkts ∧ fs = newEmit n pkts

/-! ### stream layer: emission -/

/-- one API call on a `drpcstream.Stream` -/
inductive Op where
  | write (kind : Byte) (data : Bytes)      -- RawWrite(kind, data)  (MsgSend = write 2 + flush)
  | sendError (code : U64) (msg : Bytes)    -- SendError(err) with drpcerr.Code(err)=code, err.Error()=msg
  | sendCancel                              -- SendCancel (working tree only)
  | close                                   -- Close()
  | closeSend                               -- CloseSend()
  | cancel                                  -- Cancel(err): hard cancel, nothing is sent
  | flush                                   -- RawFlush()
deriving Repr, DecidableEq

/-- the stream fields that decide what is sent: `s.id.Message`, `sigs.send`, `sigs.term` -/
structure EState where
  mid : U64
  send : Bool
  term : Bool
deriving Repr, DecidableEq

def EState.init : EState := { mid := 0#64, send := false, term := false }

/-- `sendPacketLocked(kind, control, data)` / v0.0.17 `sendPacket`: one done frame, never split -/
def single (sid mid : U64) (kind : Byte) (control : Bool) (data : Bytes) : Frame :=
  { data := data, sid := sid, mid := mid, kind := kind, done := true, control := control }

/-- One call: new state and the frames handed to the Writer.  `m` is the effective split size
    (`splitSize opts.SplitSize` of the respective version), `soft` whether SendCancel exists. -/
def emitStep (m : Nat) (soft : Bool) (sid : U64) (s : EState) : Op → EState × List Frame
  | .write k d =>
    -- newFrameLocked / newPacket bumps the id first; the send/term check fails before any frame
    let s' := { s with mid := s.mid + 1#64 }
    if s.send || s.term then (s', []) else (s', splitFrames sid s'.mid k false m d)
  | .sendError c msg =>
    if s.term then (s, []) else
    ({ mid := s.mid + 1#64, send := true, term := true }, [single sid (s.mid + 1#64) 3#8 false (Old.marshalError c msg)])
  | .sendCancel =>
    if !soft || s.term then (s, []) else
    ({ mid := s.mid + 1#64, send := true, term := true }, [single sid (s.mid + 1#64) 4#8 true []])
  | .close =>
    if s.term then (s, []) else
    ({ mid := s.mid + 1#64, send := true, term := true }, [single sid (s.mid + 1#64) 5#8 false []])
  | .closeSend =>
    if s.send || s.term then (s, []) else
    ({ s with mid := s.mid + 1#64, send := true }, [single sid (s.mid + 1#64) 6#8 false []])
  | .cancel => ({ s with send := true, term := true }, [])
  | .flush => (s, [])

def emitOps (m : Nat) (soft : Bool) (sid : U64) : EState → List Op → List Frame
  | _, [] => []
  | s, op :: ops => (emitStep m soft sid s op).2 ++ emitOps m soft sid (emitStep m soft sid s op).1 ops

/-- consecutive streams on one connection (one Writer) -/
def emitConn (m : Nat) (soft : Bool) : List (U64 × List Op) → List Frame
  | [] => []
  | (sid, ops) :: rest => emitOps m soft sid EState.init ops ++ emitConn m soft rest

/-! ### stream layer: HandlePacket (working tree) -/

/-- identity of the error a signal was set with -/
inductive SigErr where
  | eof | canceled | invokeExisting | remoteErr | remoteClosed | bothClosed | unknownKind
deriving Repr, DecidableEq

/-- what `HandlePacket` returns -/
inductive HRet where
  | nil | protocol | internal
deriving Repr, DecidableEq

structure HState where
  sid : U64
  send : Option SigErr
  recv : Option SigErr
  term : Option SigErr
  cancel : Option SigErr
  pclosed : Bool              -- `pbuf.err != nil`
  delivered : List Bytes      -- payloads handed over through `pbuf.Put`
deriving Repr, DecidableEq

def HState.init (sid : U64) : HState :=
  { sid := sid, send := none, recv := none, term := none, cancel := none, pclosed := false, delivered := [] }

/-- `Signal.Set`: the first error wins -/
def sigSet (s : Option SigErr) (e : SigErr) : Option SigErr := match s with | none => some e | some x => some x

/-- `terminate(err)` -/
def terminate (s : HState) (e : SigErr) : HState :=
  { s with send := sigSet s.send e, recv := sigSet s.recv e, term := sigSet s.term e, pclosed := true }

/-- the kinds with their own `case` in HandlePacket: Invoke, Message, Error, Cancel, Close, CloseSend -/
def knownKind (k : Byte) : Bool := k == 1#8 || k == 2#8 || k == 3#8 || k == 4#8 || k == 5#8 || k == 6#8

/-- mirrors `Stream.HandlePacket` -/
def handlePacket (s : HState) (p : Packet) : HState × HRet :=
  if p.sid ≠ s.sid then (s, .nil)
  else if s.term.isSome then (s, .nil)
  else if p.kind = 2#8 then                                            -- KindMessage: s.pbuf.Put(pkt.Data)
    (if s.pclosed then s else { s with delivered := s.delivered ++ [p.data] }, .nil)
  else if p.kind = 1#8 then (terminate s .invokeExisting, .protocol)   -- KindInvoke
  else if p.kind = 3#8 then                                            -- KindError
    (terminate { s with send := sigSet s.send .eof } .remoteErr, .nil)
  else if p.kind = 4#8 then                                            -- KindCancel
    (terminate { s with cancel := sigSet s.cancel .canceled, send := sigSet s.send .eof } .canceled, .nil)
  else if p.kind = 5#8 then                                            -- KindClose
    (terminate { s with recv := sigSet s.recv .eof, pclosed := true } .remoteClosed, .nil)
  else if p.kind = 6#8 then                                            -- KindCloseSend
    let s1 := { s with recv := sigSet s.recv .eof, pclosed := true }
    (if s1.send.isSome && s1.recv.isSome then terminate s1 .bothClosed else s1, .nil)
  else if p.control then (s, .nil)                                     -- default: unknown control packets are ignored
  else (terminate s .unknownKind, .internal)                           -- default: unknown packet kind

def handleAll : HState → List Packet → HState × List HRet
  | s, [] => (s, [])
  | s, p :: ps =>
    let (s1, r) := handlePacket s p
    let (s2, rs) := handleAll s1 ps
    (s2, r :: rs)

end Drpc.Compat
