import Drpc.Wire.Frame
/-
  An independent reference decoder written from the wire description, in natural-number
  arithmetic rather than the shifts and masks of the Go code:

    frame   := control sid mid len payload
    control := one byte, value = 128·control + 2·kind + done   (kind < 64)
    sid, mid, len := LEB128: little-endian base-128 digits, every byte but the last has bit 7 set,
                     at most 10 bytes, value taken modulo 2^64
    payload := `len` bytes
-/
namespace Drpc.Spec

/-- value of a little-endian base-128 digit string (bit 7 of every byte ignored) -/
def leValue : Bytes → Nat
  | [] => 0
  | b :: r => b.toNat % 128 + 128 * leValue r

/-- cut one LEB128 number off the front -/
def readVarint (b : Bytes) : VR :=
  let pre := b.takeWhile (fun x => 128 ≤ x.toNat)
  if 10 ≤ pre.length then .tooLong else
  match b.drop pre.length with
  | [] => .short
  | last :: rem => .ok rem (BitVec.ofNat 64 (leValue (pre ++ [last])))

def kind (c : Byte) : Byte := BitVec.ofNat 8 ((c.toNat / 2) % 64)
def done (c : Byte) : Bool := c.toNat % 2 = 1
def control (c : Byte) : Bool := 128 ≤ c.toNat

/-- reference frame decoder -/
def decode (buf : Bytes) : PR :=
  if buf.length < 4 then .short else
  match buf with
  | [] => .short
  | c :: rem =>
    match readVarint rem with
    | .short => .short
    | .tooLong => .err
    | .ok rem sid =>
      match readVarint rem with
      | .short => .short
      | .tooLong => .err
      | .ok rem mid =>
        match readVarint rem with
        | .short => .short
        | .tooLong => .err
        | .ok rem len =>
          if rem.length < len.toNat then .short else
          .ok (rem.drop len.toNat)
            { data := rem.take len.toNat, sid := sid, mid := mid,
              kind := kind c, done := done c, control := control c }

end Drpc.Spec
