import Drpc.Wire.Reader
/-
  Model of the RELEASED storj.io/drpc v0.0.17 wire layer (module cache, immutable):
  drpcwire/packet.go (ParseFrame), drpcwire/transport.go (SplitFrame, Reader.ReadPacket over a
  bufio.Scanner), drpcwire/split.go (SplitN), and the emission side of drpcstream/stream.go.

  Go (v0.0.17)                          model
  ------------------------------------  ----------------------------------------------------------
  ParseFrame                            `Old.parseFrame` (mirrored on its own; equals the new one:
                                        `Props.C18.control_bit_is_old_reserved_bit`)
  SplitFrame(data, atEOF)               `splitFrame`
  bufio.Scanner: s.buf[s.start:s.end]   `rest`/`pending : Bytes`, `start : Nat`, `blen = len(s.buf)`
    buf.Buffer(make([]byte, 4<<10), 1<<20)   `startBuf`, `maxTok`
  Reader.id                             `sid : U64 × U64`, initially (0,0)
  pkt (local of one ReadPacket call)    `cur : OCur`, the zero value at the start of every call
  the io.Reader                         remaining byte stream + chunking oracle `choose` + final error

  bufio.Scanner is standard-library code: only what ReadPacket can observe is modelled
  (token splitting, the shift / double-up-to-max buffer policy that decides when ErrTooLong fires,
  the atEOF call of the split function, the sticky first error).  Not modelled: the 100-empty-reads
  guard (transport contract: non-empty reads), ErrFinalToken / empty tokens / negative advance
  (SplitFrame never produces them).
-/
namespace Drpc.Old
open Drpc

/-! ### constants of v0.0.17 -/

/-- `make([]byte, 4<<10)`: initial scanner buffer -/
def startBuf : Nat := 4096
/-- `buf.Buffer(…, 1<<20)`: maximum token (= encoded frame) size -/
def maxTok : Nat := 1048576
/-- `len(pkt.Data) > 4<<20` -/
def maxPacket : Nat := 4194304

/-! ### packet.go -/

/-- mirrors v0.0.17 `drpcwire.ParseFrame` (bit 7 of the first byte is already parsed into
    `fr.Control`; nothing else looks at it) -/
def parseFrame (buf : Bytes) : PR :=
  if buf.length < 4 then .short else
  match buf with
  | [] => .panic
  | c :: rem =>
    match readVarint rem with
    | .short => .short
    | .tooLong => .err
    | .ok rem sid =>
      match readVarint rem with
      | .short => .short
      | .tooLong => .err
      | .ok rem mid =>
        match readVarint rem with
        | .short => .short
        | .tooLong => .err
        | .ok rem len =>
          if len.toNat > rem.length then .short else
          if rem.length < len.toNat then .panic else
          .ok (rem.drop len.toNat)
            { data := rem.take len.toNat, sid := sid, mid := mid,
              kind := (c &&& 0b01111110#8) >>> 1,
              done := (c &&& 0b00000001#8) != 0#8,
              control := (c &&& 0b10000000#8) != 0#8 }

/-- v0.0.17 `Packet`: no Control field -/
structure OPacket where
  data : Bytes
  sid : U64
  mid : U64
  kind : Byte
deriving Repr, DecidableEq

/-! ### split.go -/

/-- `case n == 0: n = 1024; case n < 0: n = 0` -/
def splitSize (n : Int) : Nat :=
  if n = 0 then 1024 else if n < 0 then 0 else n.toNat

/-- mirrors v0.0.17 `drpcwire.SplitN`: the same loop as today's, the frames never carry the control bit -/
def splitN (pkt : OPacket) (n : Int) : List Frame :=
  splitFrames pkt.sid pkt.mid pkt.kind false (splitSize n) pkt.data

/-! ### transport.go: SplitFrame -/

inductive SplitRes where
  | err                  -- ParseFrame error ("varint too long")
  | truncated            -- ProtocolError "truncated frame"
  | more                 -- (0, nil, nil): request more data
  | token (adv : Nat)    -- (advance, data[:advance], nil)
  | internal             -- "scanner issue with advance value" (never reached)
deriving Repr, DecidableEq

/-- mirrors `SplitFrame(data, atEOF)` -/
def splitFrame (data : Bytes) (atEOF : Bool) : SplitRes :=
  match parseFrame data with
  | .err => .err
  | .panic => .internal
  | .short => if data.length > 0 ∧ atEOF then .truncated else .more
  | .ok rem _ => if data.length < data.length - rem.length then .internal else .token (data.length - rem.length)

/-! ### transport.go: Reader.ReadPacket -/

/-- error classes of the old reader -/
inductive OErr where
  | protocol              -- drpc.ProtocolError
  | varint                -- drpc.Error "varint too long": SplitFrame's error, returned by Err() unwrapped
  | internal              -- drpc.InternalError
  | tooLong               -- bufio.ErrTooLong (plain error)
  | transport (tag : Nat) -- the io.Reader's error; 0 = io.EOF
deriving Repr, DecidableEq

/-- the local `pkt` of a `ReadPacket` call -/
structure OCur where
  data : Bytes
  pid : U64 × U64
  kind : Byte
deriving Repr, DecidableEq

/-- `var pkt Packet` -/
def OCur.zero : OCur := { data := [], pid := (0#64, 0#64), kind := 0#8 }

inductive OStep where
  | error
  | skip                                   -- `case fr.Control: continue`
  | cont (sid : U64 × U64) (cur : OCur)
  | emit (pkt : OPacket) (sid : U64 × U64)
deriving Repr, DecidableEq

/-- the `switch` and what follows it in the loop body of `ReadPacket`, for one parsed frame -/
def oldStep (sid : U64 × U64) (cur : OCur) (fr : Frame) : OStep :=
  if fr.control then .skip                                              -- before any id logic
  else if idLess fr.sid fr.mid sid.1 sid.2 then .error                  -- id monotonicity violation
  else
    let r : Option ((U64 × U64) × OCur) :=
      if idLess sid.1 sid.2 fr.sid fr.mid then                          -- `s.id.Less(fr.ID)`
        some ((fr.sid, fr.mid), { data := [], pid := (fr.sid, fr.mid), kind := fr.kind })
      else if fr.kind ≠ cur.kind then none                              -- packet kind change
      else some (sid, cur)
    match r with
    | none => .error
    | some (sid', c) =>
      let c' : OCur := { c with data := c.data ++ fr.data }
      if c'.data.length > maxPacket then .error                         -- data overflow
      else if fr.done then
        .emit { data := c'.data, sid := c'.pid.1, mid := c'.pid.2, kind := c'.kind } sid'   -- no id bump
      else .cont sid' c'

inductive ODrainEnd where
  | failed (e : OErr)
  | stuck (sid : U64 × U64) (cur : OCur) (rest : Bytes)   -- the scanner needs more data for `rest`
deriving Repr, DecidableEq

theorem parse_eq (b : Bytes) : parseFrame b = Drpc.parseFrame b := rfl

theorem parse_ok_length {b rem : Bytes} {fr : Frame} (h : parseFrame b = .ok rem fr) :
    rem.length < b.length := Drpc.parse_ok_length (by rw [← parse_eq]; exact h)

/-- Everything `ReadPacket` does with the tokens the scanner can cut from `pending` without
    reading: `Scan` returns the token `pending[:adv]`, `ReadPacket` parses it AGAIN
    (`!ok || len(rem) > 0` is an InternalError) and runs the reassembly switch. -/
def oldDrain (sid : U64 × U64) (cur : OCur) (pending : Bytes) : List OPacket × ODrainEnd :=
  match h : parseFrame pending with
  | .short => ([], .stuck sid cur pending)
  | .err => ([], .failed .varint)                        -- SplitFrame error → Scan false → Err()
  | .panic => ([], .failed .internal)
  | .ok rem _ =>
    have : rem.length < pending.length := parse_ok_length h
    match parseFrame (pending.take (pending.length - rem.length)) with
    | .err => ([], .failed .protocol)
    | .short => ([], .failed .internal)
    | .panic => ([], .failed .internal)
    | .ok rem2 fr =>
      if rem2.length > 0 then ([], .failed .internal) else
      match oldStep sid cur fr with
      | .error => ([], .failed .protocol)
      | .skip => oldDrain sid cur rem
      | .cont sid' c => oldDrain sid' c rem
      | .emit pkt sid' =>
        let (ps, e) := oldDrain sid' OCur.zero rem
        (pkt :: ps, e)
termination_by pending.length

/-- `Scan`: "First, shift data to beginning of buffer if there's lots of empty space or space is
    needed": the new `s.start` for a buffer of length `blen` holding `buf[start:start+restLen]`. -/
def shiftStart (start blen restLen : Nat) : Nat :=
  if start > 0 ∧ (start + restLen = blen ∨ start > blen / 2) then 0 else start

/-- Buffer management of `Scan` before a read: shift, then "Is the buffer full? If so, resize":
    ErrTooLong (`none`) when the buffer already has the maximum token size, else double it (at
    most the maximum).  Result: the new `s.start` and `len(s.buf)`. -/
def scanGeom (start blen restLen : Nat) : Option (Nat × Nat) :=
  let start1 := shiftStart start blen restLen
  if start1 + restLen = blen then
    if blen ≥ maxTok then none
    else some (0, if 2 * blen ≤ maxTok then 2 * blen else maxTok)
  else some (start1, blen)

/-- The scanner's read loop.  `rest = buf[start:end]` could not be split without more data. -/
def oldFeed (choose : Nat → Nat) (final : Nat) (step : Nat) (sid : U64 × U64) (cur : OCur)
    (start blen : Nat) (rest remaining : Bytes) : List OPacket × OErr :=
  match scanGeom start blen rest.length with
  | none => ([], .tooLong)
  | some (start2, blen2) =>
    if hrem : remaining = [] then
      -- Read returns (0, final); the split function gets a last chance with atEOF = true:
      -- a non-empty rest is a "truncated frame" (kept only if the read error was io.EOF: setErr)
      ([], if rest ≠ [] ∧ final = 0 then .protocol else .transport final)
    else
      let n := clampRead (choose step) (blen2 - (start2 + rest.length)) remaining.length
      have : (remaining.drop n).length < remaining.length := by
        have h0 : 0 < remaining.length := List.length_pos_iff.mpr hrem
        have h1 : 1 ≤ n := clampRead_pos _ _ _
        rw [List.length_drop]; omega
      match oldDrain sid cur (rest ++ remaining.take n) with
      | (pk, .failed e) => (pk, e)
      | (pk, .stuck sid' cur' rest') =>
        let (ps, e) := oldFeed choose final (step + 1) sid' cur'
          (start2 + (rest.length + n - rest'.length)) blen2 rest' (remaining.drop n)
        (pk ++ ps, e)
termination_by remaining.length
decreasing_by
  have _h0 : 0 < remaining.length := List.length_pos_iff.mpr hrem
  have h1 := clampRead_pos (choose step) (blen2 - (start2 + rest.length)) remaining.length
  simp only [List.length_drop]; omega

/-- `NewReader` + repeated `ReadPacket` until the first error -/
def oldReadAll (choose : Nat → Nat) (final : Nat) (stream : Bytes) : List OPacket × OErr :=
  oldFeed choose final 0 (0#64, 0#64) OCur.zero 0 startBuf [] stream

/-! ### drpcstream/stream.go (v0.0.17): what a Stream puts on the wire -/

/-- `drpcwire.MarshalError`: 8-byte big-endian code, then the message (same in both versions) -/
def marshalError (code : U64) (msg : Bytes) : Bytes :=
  (List.range 8).map (fun i => (code >>> (8 * (7 - i))).truncate 8) ++ msg

end Drpc.Old
