import Drpc.Generated.Consts
import Drpc.Tie.Expected
import Drpc.Pool
/-
  Tie (T1) for C15: the functions of drpcpool/pool.go and drpcpool/entry.go that `Drpc/Pool.lean`
  mirrors statement by statement have the fingerprints the model was written against.
-/
set_option maxRecDepth 100000
namespace Drpc.Tie.C15
open Drpc

theorem Pool_Close : Generated.fp_drpcpool_pool_Pool_Close = Expected.fp_drpcpool_pool_Pool_Close := by decide
theorem Pool_removeEntry : Generated.fp_drpcpool_pool_Pool_removeEntry = Expected.fp_drpcpool_pool_Pool_removeEntry := by decide
theorem Pool_closeEntry : Generated.fp_drpcpool_pool_Pool_closeEntry = Expected.fp_drpcpool_pool_Pool_closeEntry := by decide
theorem Pool_Take : Generated.fp_drpcpool_pool_Pool_Take = Expected.fp_drpcpool_pool_Pool_Take := by decide
theorem Pool_Put : Generated.fp_drpcpool_pool_Pool_Put = Expected.fp_drpcpool_pool_Pool_Put := by decide
theorem list_appendEntry : Generated.fp_drpcpool_entry_list_appendEntry = Expected.fp_drpcpool_entry_list_appendEntry := by decide
theorem list_removeEntry : Generated.fp_drpcpool_entry_list_removeEntry = Expected.fp_drpcpool_entry_list_removeEntry := by decide

/-! constructors, accessors and small helpers -/
theorem x_drpcpool_pool_New : Generated.fp_drpcpool_pool_New = Expected.fp_drpcpool_pool_New := by decide
theorem x_drpcpool_pool_Pool_Get : Generated.fp_drpcpool_pool_Pool_Get = Expected.fp_drpcpool_pool_Pool_Get := by decide
theorem x_drpcpool_doc_closed : Generated.fp_drpcpool_doc_closed = Expected.fp_drpcpool_doc_closed := by decide
theorem x_drpcpool_entry_entry_globalList : Generated.fp_drpcpool_entry_entry_globalList = Expected.fp_drpcpool_entry_entry_globalList := by decide
theorem x_drpcpool_entry_entry_localList : Generated.fp_drpcpool_entry_entry_localList = Expected.fp_drpcpool_entry_entry_localList := by decide
theorem x_drpcpool_conn_poolConn_Closed : Generated.fp_drpcpool_conn_poolConn_Closed = Expected.fp_drpcpool_conn_poolConn_Closed := by decide
theorem x_drpcpool_conn_streamWrapper_Context : Generated.fp_drpcpool_conn_streamWrapper_Context = Expected.fp_drpcpool_conn_streamWrapper_Context := by decide
theorem x_drpcpool_conn_streamWrapperContext_Done : Generated.fp_drpcpool_conn_streamWrapperContext_Done = Expected.fp_drpcpool_conn_streamWrapperContext_Done := by decide

end Drpc.Tie.C15
