import Drpc.Generated.Consts
import Drpc.Tie.Expected
import Drpc.Wire.Reader
/-
  Tie (T1) for C09: reader.go has the fingerprint the model was written against, and the
  constants the model uses are the ones in the source.
-/
set_option maxRecDepth 100000
namespace Drpc.Tie.C09
open Drpc

theorem NewReaderWithOptions : Generated.fp_drpcwire_reader_NewReaderWithOptions = Expected.fp_drpcwire_reader_NewReaderWithOptions := by decide
theorem Reader_read : Generated.fp_drpcwire_reader_Reader_read = Expected.fp_drpcwire_reader_Reader_read := by decide
theorem ReadPacketUsing : Generated.fp_drpcwire_reader_Reader_ReadPacketUsing = Expected.fp_drpcwire_reader_Reader_ReadPacketUsing := by decide
theorem ParseFrame : Generated.fp_drpcwire_packet_ParseFrame = Expected.fp_drpcwire_packet_ParseFrame := by decide
theorem ReadVarint : Generated.fp_drpcwire_varint_ReadVarint = Expected.fp_drpcwire_varint_ReadVarint := by decide
theorem ID_Less : Generated.fp_drpcwire_packet_ID_Less = Expected.fp_drpcwire_packet_ID_Less := by decide
/-- the early-overflow slack of the model is the source's `maxFrameOverhead` -/
theorem maxFrameOverhead : Generated.maxFrameOverhead = maxHeader := by decide

/-! constructors, accessors and small helpers -/
theorem x_drpcwire_reader_NewReader : Generated.fp_drpcwire_reader_NewReader = Expected.fp_drpcwire_reader_NewReader := by decide
theorem x_drpcwire_reader_Reader_ReadPacket : Generated.fp_drpcwire_reader_Reader_ReadPacket = Expected.fp_drpcwire_reader_Reader_ReadPacket := by decide

end Drpc.Tie.C09
