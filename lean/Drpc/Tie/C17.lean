import Drpc.Generated.Consts
import Drpc.Tie.Expected
import Drpc.Gen
/-
  Tie (T1) for C17: the functions of cmd/protoc-gen-go-drpc/main.go and drpcmux the model mirrors
  have the fingerprints the model was written against, and the affix strings of the naming
  functions in the source are the character lists the model (and its theorems) use.
-/
namespace Drpc.Tie.C17
open Drpc

theorem gen_main : Generated.fp_cmd_protoc_gen_go_drpc_main_main = Expected.fp_cmd_protoc_gen_go_drpc_main_main := by decide
theorem gen_generateFile : Generated.fp_cmd_protoc_gen_go_drpc_main_generateFile = Expected.fp_cmd_protoc_gen_go_drpc_main_generateFile := by decide
theorem gen_drpc_EncodingName : Generated.fp_cmd_protoc_gen_go_drpc_main_drpc_EncodingName = Expected.fp_cmd_protoc_gen_go_drpc_main_drpc_EncodingName := by decide
theorem gen_drpc_RPCGoString : Generated.fp_cmd_protoc_gen_go_drpc_main_drpc_RPCGoString = Expected.fp_cmd_protoc_gen_go_drpc_main_drpc_RPCGoString := by decide
theorem gen_drpc_ClientIface : Generated.fp_cmd_protoc_gen_go_drpc_main_drpc_ClientIface = Expected.fp_cmd_protoc_gen_go_drpc_main_drpc_ClientIface := by decide
theorem gen_drpc_ClientImpl : Generated.fp_cmd_protoc_gen_go_drpc_main_drpc_ClientImpl = Expected.fp_cmd_protoc_gen_go_drpc_main_drpc_ClientImpl := by decide
theorem gen_drpc_ServerIface : Generated.fp_cmd_protoc_gen_go_drpc_main_drpc_ServerIface = Expected.fp_cmd_protoc_gen_go_drpc_main_drpc_ServerIface := by decide
theorem gen_drpc_ServerUnimpl : Generated.fp_cmd_protoc_gen_go_drpc_main_drpc_ServerUnimpl = Expected.fp_cmd_protoc_gen_go_drpc_main_drpc_ServerUnimpl := by decide
theorem gen_drpc_ServerDesc : Generated.fp_cmd_protoc_gen_go_drpc_main_drpc_ServerDesc = Expected.fp_cmd_protoc_gen_go_drpc_main_drpc_ServerDesc := by decide
theorem gen_drpc_ClientStreamIface : Generated.fp_cmd_protoc_gen_go_drpc_main_drpc_ClientStreamIface = Expected.fp_cmd_protoc_gen_go_drpc_main_drpc_ClientStreamIface := by decide
theorem gen_drpc_ClientStreamImpl : Generated.fp_cmd_protoc_gen_go_drpc_main_drpc_ClientStreamImpl = Expected.fp_cmd_protoc_gen_go_drpc_main_drpc_ClientStreamImpl := by decide
theorem gen_drpc_ServerStreamIface : Generated.fp_cmd_protoc_gen_go_drpc_main_drpc_ServerStreamIface = Expected.fp_cmd_protoc_gen_go_drpc_main_drpc_ServerStreamIface := by decide
theorem gen_drpc_ServerStreamImpl : Generated.fp_cmd_protoc_gen_go_drpc_main_drpc_ServerStreamImpl = Expected.fp_cmd_protoc_gen_go_drpc_main_drpc_ServerStreamImpl := by decide
set_option maxRecDepth 16384 in
theorem gen_drpc_generateEncoding : Generated.fp_cmd_protoc_gen_go_drpc_main_drpc_generateEncoding = Expected.fp_cmd_protoc_gen_go_drpc_main_drpc_generateEncoding := by decide
set_option maxRecDepth 16384 in
theorem gen_drpc_generateService : Generated.fp_cmd_protoc_gen_go_drpc_main_drpc_generateService = Expected.fp_cmd_protoc_gen_go_drpc_main_drpc_generateService := by decide
theorem gen_drpc_generateClientSignature : Generated.fp_cmd_protoc_gen_go_drpc_main_drpc_generateClientSignature = Expected.fp_cmd_protoc_gen_go_drpc_main_drpc_generateClientSignature := by decide
set_option maxRecDepth 16384 in
theorem gen_drpc_generateClientMethod : Generated.fp_cmd_protoc_gen_go_drpc_main_drpc_generateClientMethod = Expected.fp_cmd_protoc_gen_go_drpc_main_drpc_generateClientMethod := by decide
theorem gen_drpc_generateServerSignature : Generated.fp_cmd_protoc_gen_go_drpc_main_drpc_generateServerSignature = Expected.fp_cmd_protoc_gen_go_drpc_main_drpc_generateServerSignature := by decide
theorem gen_drpc_generateUnimplementedServerMethod : Generated.fp_cmd_protoc_gen_go_drpc_main_drpc_generateUnimplementedServerMethod = Expected.fp_cmd_protoc_gen_go_drpc_main_drpc_generateUnimplementedServerMethod := by decide
theorem gen_drpc_generateServerReceiver : Generated.fp_cmd_protoc_gen_go_drpc_main_drpc_generateServerReceiver = Expected.fp_cmd_protoc_gen_go_drpc_main_drpc_generateServerReceiver := by decide
set_option maxRecDepth 16384 in
theorem gen_drpc_generateServerMethod : Generated.fp_cmd_protoc_gen_go_drpc_main_drpc_generateServerMethod = Expected.fp_cmd_protoc_gen_go_drpc_main_drpc_generateServerMethod := by decide
theorem Mux_registerOne : Generated.fp_drpcmux_mux_Mux_registerOne = Expected.fp_drpcmux_mux_Mux_registerOne := by decide
theorem Mux_Register : Generated.fp_drpcmux_mux_Mux_Register = Expected.fp_drpcmux_mux_Mux_Register := by decide
theorem Mux_HandleRPC : Generated.fp_drpcmux_handle_rpc_Mux_HandleRPC = Expected.fp_drpcmux_handle_rpc_Mux_HandleRPC := by decide

/-! the model's affixes are the literals of the source (via the reviewed expectations) -/
def s (i : Gen.Ident) : String := "s:" ++ String.ofList i
/-- the fingerprint without its identifier-use entries (`id:…`) -/
def isId (x : String) : Bool := match x.toList with | 'i' :: 'd' :: ':' :: _ => true | _ => false
def shape (l : List String) : List String := l.filter fun x => !isId x

theorem affix_EncodingName : shape Expected.fp_cmd_protoc_gen_go_drpc_main_drpc_EncodingName = ["return", "+", s Gen.pEncoding] := by decide
theorem affix_ClientIface : shape Expected.fp_cmd_protoc_gen_go_drpc_main_drpc_ClientIface = ["return", "+", "+", s Gen.pDRPC, s Gen.sClient] := by decide
theorem affix_ClientImpl : shape Expected.fp_cmd_protoc_gen_go_drpc_main_drpc_ClientImpl = ["return", "+", "+", s Gen.pdrpc, s Gen.sClient] := by decide
theorem affix_ServerIface : shape Expected.fp_cmd_protoc_gen_go_drpc_main_drpc_ServerIface = ["return", "+", "+", s Gen.pDRPC, s Gen.sServer] := by decide
theorem affix_ServerUnimpl : shape Expected.fp_cmd_protoc_gen_go_drpc_main_drpc_ServerUnimpl = ["return", "+", "+", s Gen.pDRPC, s Gen.sUnimpl] := by decide
theorem affix_ServerDesc : shape Expected.fp_cmd_protoc_gen_go_drpc_main_drpc_ServerDesc = ["return", "+", "+", s Gen.pDRPC, s Gen.sDesc] := by decide
theorem affix_ClientStreamIface : shape Expected.fp_cmd_protoc_gen_go_drpc_main_drpc_ClientStreamIface =
    ["return", "+", "+", "+", "+", s Gen.pDRPC, "call:strings.ReplaceAll", "s:_", "s:__", "s:_", "call:strings.ReplaceAll", "s:_", "s:__", s Gen.sClient] := by decide
theorem affix_ClientStreamImpl : shape Expected.fp_cmd_protoc_gen_go_drpc_main_drpc_ClientStreamImpl =
    ["return", "+", "+", "+", "+", s Gen.pdrpc, "call:strings.ReplaceAll", "s:_", "s:__", "s:_", "call:strings.ReplaceAll", "s:_", "s:__", s Gen.sClient] := by decide
theorem affix_ServerStreamIface : shape Expected.fp_cmd_protoc_gen_go_drpc_main_drpc_ServerStreamIface =
    ["return", "+", "+", "+", "+", s Gen.pDRPC, "call:strings.ReplaceAll", "s:_", "s:__", "s:_", "call:strings.ReplaceAll", "s:_", "s:__", s Gen.sStream] := by decide
theorem affix_ServerStreamImpl : shape Expected.fp_cmd_protoc_gen_go_drpc_main_drpc_ServerStreamImpl =
    ["return", "+", "+", "+", "+", s Gen.pdrpc, "call:strings.ReplaceAll", "s:_", "s:__", "s:_", "call:strings.ReplaceAll", "s:_", "s:__", s Gen.sStream] := by decide
/-- `/%s/%s` over FullName and Name -/
theorem affix_RPCGoString : shape Expected.fp_cmd_protoc_gen_go_drpc_main_drpc_RPCGoString =
    ["return", "call:strconv.Quote", "call:fmt.Sprintf", "s:/%s/%s", "call:method.Parent.Desc.FullName", "call:method.Desc.Name"] := by decide
set_option maxRecDepth 16384 in
/-- the literals `New` and `DRPCRegister` of generateService, and both call sites of RPCGoString -/
theorem generateService_literals :
    "s:func New" ∈ Expected.fp_cmd_protoc_gen_go_drpc_main_drpc_generateService ∧
    s (Gen.lit "func " ++ Gen.pRegister) ∈ Expected.fp_cmd_protoc_gen_go_drpc_main_drpc_generateService ∧
    "call:d.RPCGoString" ∈ Expected.fp_cmd_protoc_gen_go_drpc_main_drpc_generateService ∧
    "call:d.RPCGoString" ∈ Expected.fp_cmd_protoc_gen_go_drpc_main_drpc_generateClientMethod := by decide

/-! constructors, accessors and small helpers -/
theorem x_drpcmux_mux_New : Generated.fp_drpcmux_mux_New = Expected.fp_drpcmux_mux_New := by decide

end Drpc.Tie.C17
