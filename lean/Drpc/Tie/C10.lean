import Drpc.Generated.Consts
import Drpc.Tie.Expected
import Drpc.ErrRpc
/-
  Tie (T1) for C10: the functions the models mirror have the fingerprints the models were written
  against, and the constants the models use are the ones in the source.
-/
set_option maxRecDepth 100000
namespace Drpc.Tie.C10
open Drpc

-- drpcwire/error.go, drpcerr/err.go
theorem MarshalError : Generated.fp_drpcwire_error_MarshalError = Expected.fp_drpcwire_error_MarshalError := by decide
theorem UnmarshalError : Generated.fp_drpcwire_error_UnmarshalError = Expected.fp_drpcwire_error_UnmarshalError := by decide
theorem Code : Generated.fp_drpcerr_err_Code = Expected.fp_drpcerr_err_Code := by decide
theorem WithCode : Generated.fp_drpcerr_err_WithCode = Expected.fp_drpcerr_err_WithCode := by decide
-- drpcserver/server.go, drpcmux/handle_rpc.go
theorem handleRPC : Generated.fp_drpcserver_server_Server_handleRPC = Expected.fp_drpcserver_server_Server_handleRPC := by decide
theorem Mux_HandleRPC : Generated.fp_drpcmux_handle_rpc_Mux_HandleRPC = Expected.fp_drpcmux_handle_rpc_Mux_HandleRPC := by decide
-- the parts of drpcstream the send half / receive half models mirror
theorem HandlePacket : Generated.fp_drpcstream_stream_Stream_HandlePacket = Expected.fp_drpcstream_stream_Stream_HandlePacket := by decide
theorem MsgRecv : Generated.fp_drpcstream_stream_Stream_MsgRecv = Expected.fp_drpcstream_stream_Stream_MsgRecv := by decide
theorem SendError : Generated.fp_drpcstream_stream_Stream_SendError = Expected.fp_drpcstream_stream_Stream_SendError := by decide
theorem CloseSend : Generated.fp_drpcstream_stream_Stream_CloseSend = Expected.fp_drpcstream_stream_Stream_CloseSend := by decide
theorem terminate : Generated.fp_drpcstream_stream_Stream_terminate = Expected.fp_drpcstream_stream_Stream_terminate := by decide
theorem terminateIfBothClosed : Generated.fp_drpcstream_stream_Stream_terminateIfBothClosed = Expected.fp_drpcstream_stream_Stream_terminateIfBothClosed := by decide
theorem checkRecvFlush : Generated.fp_drpcstream_stream_Stream_checkRecvFlush = Expected.fp_drpcstream_stream_Stream_checkRecvFlush := by decide
theorem rawFlushLocked : Generated.fp_drpcstream_stream_Stream_rawFlushLocked = Expected.fp_drpcstream_stream_Stream_rawFlushLocked := by decide
theorem pbuf_Close : Generated.fp_drpcstream_pktbuf_packetBuffer_Close = Expected.fp_drpcstream_pktbuf_packetBuffer_Close := by decide
theorem pbuf_Put : Generated.fp_drpcstream_pktbuf_packetBuffer_Put = Expected.fp_drpcstream_pktbuf_packetBuffer_Put := by decide
theorem pbuf_Get : Generated.fp_drpcstream_pktbuf_packetBuffer_Get = Expected.fp_drpcstream_pktbuf_packetBuffer_Get := by decide
theorem pbuf_Done : Generated.fp_drpcstream_pktbuf_packetBuffer_Done = Expected.fp_drpcstream_pktbuf_packetBuffer_Done := by decide

/-- the loop bound of the model is the source's (the only "100" in `Code`) -/
theorem code_loop_bound :
    (Generated.fp_drpcerr_err_Code.filter (· = "100")).length = 1 ∧ codeIters = 100 := by decide
/-- the short-data note of the model is the source's format string, and the long branch uses a bare "%s" -/
theorem unmarshal_formats :
    Generated.fp_drpcwire_error_UnmarshalError.contains ("s:%s" ++ noteStr) = true ∧
    Generated.fp_drpcwire_error_UnmarshalError.contains "s:%s" = true := by decide
/-- packet kinds used by the model -/
theorem kinds :
    Generated.kinds.lookup "KindMessage" = some kMessage ∧ Generated.kinds.lookup "KindError" = some kError ∧
    Generated.kinds.lookup "KindCloseSend" = some kCloseSend := by decide
/-- the error a refused MsgSend returns after CloseSend -/
theorem sendClosed : Generated.streamSentinels.lookup "sendClosed" = some "drpc.Error.New:send closed" := by decide

/-! constructors, accessors and small helpers -/
theorem x_drpcerr_err_shallowEqual : Generated.fp_drpcerr_err_shallowEqual = Expected.fp_drpcerr_err_shallowEqual := by decide
theorem x_drpcerr_err_codeErr_Error : Generated.fp_drpcerr_err_codeErr_Error = Expected.fp_drpcerr_err_codeErr_Error := by decide

end Drpc.Tie.C10
