import Drpc.Generated.Consts
import Drpc.Tie.Expected
/-
  Tie (T1) for the stream model (C03, C04, C07, C01): every function of drpcstream the atomic-step
  model mirrors has the fingerprint the model was written against; sentinel messages and the
  documented state graph are the ones the suite and the theorems refer to.
-/
set_option maxRecDepth 100000
namespace Drpc.Tie.C03
open Drpc

theorem HandlePacket : Generated.fp_drpcstream_stream_Stream_HandlePacket = Expected.fp_drpcstream_stream_Stream_HandlePacket := by decide
theorem checkFinished : Generated.fp_drpcstream_stream_Stream_checkFinished = Expected.fp_drpcstream_stream_Stream_checkFinished := by decide
theorem checkCancelError : Generated.fp_drpcstream_stream_Stream_checkCancelError = Expected.fp_drpcstream_stream_Stream_checkCancelError := by decide
theorem newFrameLocked : Generated.fp_drpcstream_stream_Stream_newFrameLocked = Expected.fp_drpcstream_stream_Stream_newFrameLocked := by decide
theorem sendPacketLocked : Generated.fp_drpcstream_stream_Stream_sendPacketLocked = Expected.fp_drpcstream_stream_Stream_sendPacketLocked := by decide
theorem terminateIfBothClosed : Generated.fp_drpcstream_stream_Stream_terminateIfBothClosed = Expected.fp_drpcstream_stream_Stream_terminateIfBothClosed := by decide
theorem terminate : Generated.fp_drpcstream_stream_Stream_terminate = Expected.fp_drpcstream_stream_Stream_terminate := by decide
theorem RawWrite : Generated.fp_drpcstream_stream_Stream_RawWrite = Expected.fp_drpcstream_stream_Stream_RawWrite := by decide
theorem rawWriteLocked : Generated.fp_drpcstream_stream_Stream_rawWriteLocked = Expected.fp_drpcstream_stream_Stream_rawWriteLocked := by decide
theorem RawFlush : Generated.fp_drpcstream_stream_Stream_RawFlush = Expected.fp_drpcstream_stream_Stream_RawFlush := by decide
theorem rawFlushLocked : Generated.fp_drpcstream_stream_Stream_rawFlushLocked = Expected.fp_drpcstream_stream_Stream_rawFlushLocked := by decide
theorem checkRecvFlush : Generated.fp_drpcstream_stream_Stream_checkRecvFlush = Expected.fp_drpcstream_stream_Stream_checkRecvFlush := by decide
theorem MsgSend : Generated.fp_drpcstream_stream_Stream_MsgSend = Expected.fp_drpcstream_stream_Stream_MsgSend := by decide
theorem MsgRecv : Generated.fp_drpcstream_stream_Stream_MsgRecv = Expected.fp_drpcstream_stream_Stream_MsgRecv := by decide
theorem SendError : Generated.fp_drpcstream_stream_Stream_SendError = Expected.fp_drpcstream_stream_Stream_SendError := by decide
theorem SendCancel : Generated.fp_drpcstream_stream_Stream_SendCancel = Expected.fp_drpcstream_stream_Stream_SendCancel := by decide
theorem Close : Generated.fp_drpcstream_stream_Stream_Close = Expected.fp_drpcstream_stream_Stream_Close := by decide
theorem CloseSend : Generated.fp_drpcstream_stream_Stream_CloseSend = Expected.fp_drpcstream_stream_Stream_CloseSend := by decide
theorem Cancel : Generated.fp_drpcstream_stream_Stream_Cancel = Expected.fp_drpcstream_stream_Stream_Cancel := by decide
theorem NewWithOptions : Generated.fp_drpcstream_stream_NewWithOptions = Expected.fp_drpcstream_stream_NewWithOptions := by decide
theorem pbClose : Generated.fp_drpcstream_pktbuf_packetBuffer_Close = Expected.fp_drpcstream_pktbuf_packetBuffer_Close := by decide
theorem pbPut : Generated.fp_drpcstream_pktbuf_packetBuffer_Put = Expected.fp_drpcstream_pktbuf_packetBuffer_Put := by decide
theorem pbGet : Generated.fp_drpcstream_pktbuf_packetBuffer_Get = Expected.fp_drpcstream_pktbuf_packetBuffer_Get := by decide
theorem pbDone : Generated.fp_drpcstream_pktbuf_packetBuffer_Done = Expected.fp_drpcstream_pktbuf_packetBuffer_Done := by decide
theorem imLock : Generated.fp_drpcstream_inspectmu_inspectMutex_Lock = Expected.fp_drpcstream_inspectmu_inspectMutex_Lock := by decide
theorem imTryLock : Generated.fp_drpcstream_inspectmu_inspectMutex_TryLock = Expected.fp_drpcstream_inspectmu_inspectMutex_TryLock := by decide
theorem imUnlock : Generated.fp_drpcstream_inspectmu_inspectMutex_Unlock = Expected.fp_drpcstream_inspectmu_inspectMutex_Unlock := by decide
theorem imUnlocked : Generated.fp_drpcstream_inspectmu_inspectMutex_Unlocked = Expected.fp_drpcstream_inspectmu_inspectMutex_Unlocked := by decide
theorem WriteFrame : Generated.fp_drpcwire_writer_Writer_WriteFrame = Expected.fp_drpcwire_writer_Writer_WriteFrame := by decide
theorem Flush : Generated.fp_drpcwire_writer_Writer_Flush = Expected.fp_drpcwire_writer_Writer_Flush := by decide
theorem Reset : Generated.fp_drpcwire_writer_Writer_Reset = Expected.fp_drpcwire_writer_Writer_Reset := by decide
theorem Empty : Generated.fp_drpcwire_writer_Writer_Empty = Expected.fp_drpcwire_writer_Writer_Empty := by decide
theorem sentinels : Generated.streamSentinels = Expected.streamSentinels := by decide
theorem stateEdges : Generated.stateEdges = Expected.stateEdges := by decide
theorem kinds : Generated.kinds = Expected.kinds := by decide

/-! constructors, accessors and small helpers -/
theorem x_drpcstream_stream_New : Generated.fp_drpcstream_stream_New = Expected.fp_drpcstream_stream_New := by decide
theorem x_drpcstream_stream_Stream_Context : Generated.fp_drpcstream_stream_Stream_Context = Expected.fp_drpcstream_stream_Stream_Context := by decide
theorem x_drpcstream_stream_Stream_Finished : Generated.fp_drpcstream_stream_Stream_Finished = Expected.fp_drpcstream_stream_Stream_Finished := by decide
theorem x_drpcstream_stream_Stream_ID : Generated.fp_drpcstream_stream_Stream_ID = Expected.fp_drpcstream_stream_Stream_ID := by decide
theorem x_drpcstream_stream_Stream_IsFinished : Generated.fp_drpcstream_stream_Stream_IsFinished = Expected.fp_drpcstream_stream_Stream_IsFinished := by decide
theorem x_drpcstream_stream_Stream_IsTerminated : Generated.fp_drpcstream_stream_Stream_IsTerminated = Expected.fp_drpcstream_stream_Stream_IsTerminated := by decide
theorem x_drpcstream_stream_Stream_SetManualFlush : Generated.fp_drpcstream_stream_Stream_SetManualFlush = Expected.fp_drpcstream_stream_Stream_SetManualFlush := by decide
theorem x_drpcstream_stream_Stream_Terminated : Generated.fp_drpcstream_stream_Stream_Terminated = Expected.fp_drpcstream_stream_Stream_Terminated := by decide
theorem x_drpcstream_stream_streamCtx_Done : Generated.fp_drpcstream_stream_streamCtx_Done = Expected.fp_drpcstream_stream_streamCtx_Done := by decide
theorem x_drpcstream_stream_streamCtx_Err : Generated.fp_drpcstream_stream_streamCtx_Err = Expected.fp_drpcstream_stream_streamCtx_Err := by decide
theorem x_drpcstream_stream_streamCtx_Value : Generated.fp_drpcstream_stream_streamCtx_Value = Expected.fp_drpcstream_stream_streamCtx_Value := by decide
theorem x_drpcstream_pktbuf_packetBuffer_init : Generated.fp_drpcstream_pktbuf_packetBuffer_init = Expected.fp_drpcstream_pktbuf_packetBuffer_init := by decide

end Drpc.Tie.C03
