import Drpc.Generated.Consts
import Drpc.Tie.Expected
import Drpc.Wire.Compat
/-
  Tie (T1) for C18: the functions of the WORKING TREE that the compatibility theorems depend on have
  the fingerprints the model was written against, and the kind numbers the model hard-codes are the
  ones in the source.  (The v0.0.17 side is a released, immutable module: it is tied by T2 only —
  the `compat` suite runs the unmodified release from the module cache.)
-/
set_option maxRecDepth 100000
namespace Drpc.Tie.C18
open Drpc

-- drpcwire/packet.go
theorem ParseFrame : Generated.fp_drpcwire_packet_ParseFrame = Expected.fp_drpcwire_packet_ParseFrame := by decide
theorem AppendFrame : Generated.fp_drpcwire_packet_AppendFrame = Expected.fp_drpcwire_packet_AppendFrame := by decide
theorem ID_Less : Generated.fp_drpcwire_packet_ID_Less = Expected.fp_drpcwire_packet_ID_Less := by decide
-- drpcwire/varint.go
theorem ReadVarint : Generated.fp_drpcwire_varint_ReadVarint = Expected.fp_drpcwire_varint_ReadVarint := by decide
theorem AppendVarint : Generated.fp_drpcwire_varint_AppendVarint = Expected.fp_drpcwire_varint_AppendVarint := by decide
-- drpcwire/reader.go
theorem NewReaderWithOptions : Generated.fp_drpcwire_reader_NewReaderWithOptions = Expected.fp_drpcwire_reader_NewReaderWithOptions := by decide
theorem Reader_read : Generated.fp_drpcwire_reader_Reader_read = Expected.fp_drpcwire_reader_Reader_read := by decide
theorem ReadPacketUsing : Generated.fp_drpcwire_reader_Reader_ReadPacketUsing = Expected.fp_drpcwire_reader_Reader_ReadPacketUsing := by decide
-- drpcwire/writer.go
theorem NewWriter : Generated.fp_drpcwire_writer_NewWriter = Expected.fp_drpcwire_writer_NewWriter := by decide
theorem WriteFrame : Generated.fp_drpcwire_writer_Writer_WriteFrame = Expected.fp_drpcwire_writer_Writer_WriteFrame := by decide
theorem Flush : Generated.fp_drpcwire_writer_Writer_Flush = Expected.fp_drpcwire_writer_Writer_Flush := by decide
-- drpcwire/split.go
theorem SplitN : Generated.fp_drpcwire_split_SplitN = Expected.fp_drpcwire_split_SplitN := by decide
theorem SplitData : Generated.fp_drpcwire_split_SplitData = Expected.fp_drpcwire_split_SplitData := by decide
-- drpcstream/stream.go
theorem HandlePacket : Generated.fp_drpcstream_stream_Stream_HandlePacket = Expected.fp_drpcstream_stream_Stream_HandlePacket := by decide
theorem SendCancel : Generated.fp_drpcstream_stream_Stream_SendCancel = Expected.fp_drpcstream_stream_Stream_SendCancel := by decide
theorem sendPacketLocked : Generated.fp_drpcstream_stream_Stream_sendPacketLocked = Expected.fp_drpcstream_stream_Stream_sendPacketLocked := by decide
theorem newFrameLocked : Generated.fp_drpcstream_stream_Stream_newFrameLocked = Expected.fp_drpcstream_stream_Stream_newFrameLocked := by decide
theorem rawWriteLocked : Generated.fp_drpcstream_stream_Stream_rawWriteLocked = Expected.fp_drpcstream_stream_Stream_rawWriteLocked := by decide
theorem SendError : Generated.fp_drpcstream_stream_Stream_SendError = Expected.fp_drpcstream_stream_Stream_SendError := by decide
theorem Close : Generated.fp_drpcstream_stream_Stream_Close = Expected.fp_drpcstream_stream_Stream_Close := by decide
theorem CloseSend : Generated.fp_drpcstream_stream_Stream_CloseSend = Expected.fp_drpcstream_stream_Stream_CloseSend := by decide
-- drpcmetadata
theorem appendEntry : Generated.fp_drpcmetadata_serialize_appendEntry = Expected.fp_drpcmetadata_serialize_appendEntry := by decide
theorem readEntry : Generated.fp_drpcmetadata_serialize_readEntry = Expected.fp_drpcmetadata_serialize_readEntry := by decide
theorem readKeyValue : Generated.fp_drpcmetadata_serialize_readKeyValue = Expected.fp_drpcmetadata_serialize_readKeyValue := by decide

/-- the kind numbers used by `Compat.emitStep` / `Compat.handlePacket` are the source's; in
    particular the soft cancel is kind 4, v0.0.17's retired `kindCancelDeprecated` -/
theorem kinds : Generated.kinds = [("KindInvoke", 1), ("KindMessage", 2), ("KindError", 3), ("KindCancel", 4),
    ("KindClose", 5), ("KindCloseSend", 6), ("KindInvokeMetadata", 7)] := by decide

/-- the early-overflow slack of the new reader model -/
theorem maxFrameOverhead : Generated.maxFrameOverhead = maxHeader := by decide

end Drpc.Tie.C18
