/- Reviewed expectations: a frozen copy of tools/extract output for the tree the model was written against (tools/mk_expected.sh). -/
namespace Drpc.Expected

def maxFrameOverhead : Nat := 31
def httpMaxSize : Nat := 4194304
def statusErrorSet : Nat := 2
def statusChannelCreated : Nat := 1
def errUnimplemented : Nat := 12
def kinds : List (String × Nat) := [("KindInvoke", 1), ("KindMessage", 2), ("KindError", 3), ("KindCancel", 4), ("KindClose", 5), ("KindCloseSend", 6), ("KindInvokeMetadata", 7)]

def fp_drpcwire_varint_ReadVarint : List String :=
  ["=rem", "for", "=shift", "call:uint", "0", "<", "64", "+=", "7", "if", "==", "call:len", "0", 
    "return", "0", "=val", "call:uint64", "index", "0", "=out", "=rem", "|", "<<", "&", "127", 
    "slice", "1", "if", "<", "128", "return", "return", "0", "call:drpc.Error.New", "s:varint too long"]
def fp_drpcwire_varint_AppendVarint : List String :=
  ["for", ">=", "128", "=buf", "call:append", "call:byte", "|", "&", "127", "128", ">>=", "7", 
    "return", "call:append", "call:byte"]
def fp_drpcwire_packet_ParseFrame : List String :=
  ["if", "<", "call:len", "4", "goto", "=rem", "=control", "slice", "1", "index", "0", "=fr.Done", 
    ">", "&", "1", "0", "=fr.Control", ">", "&", "128", "0", "=fr.Kind", "call:Kind", ">>", "&", 
    "126", "1", "=rem", "=fr.ID.Stream", "=ok", "=err", "call:ReadVarint", "if", "||", "u!", "!=", 
    "goto", "=rem", "=fr.ID.Message", "=ok", "=err", "call:ReadVarint", "if", "||", "u!", "!=", 
    "goto", "=rem", "=length", "=ok", "=err", "call:ReadVarint", "if", "||", "||", "u!", "!=", 
    ">", "call:uint64", "call:len", "goto", "=rem", "=fr.Data", "slice", "slice", "return", "return"]
def fp_drpcwire_packet_AppendFrame : List String :=
  ["=control", "call:byte", "<<", "1", "if", "|=", "1", "if", "|=", "128", "=out", "=out", "call:append", 
    "=out", "call:AppendVarint", "=out", "call:AppendVarint", "=out", "call:AppendVarint", "call:uint64", 
    "call:len", "=out", "call:append", "return"]
def fp_drpcwire_packet_ID_Less : List String :=
  ["return", "||", "<", "&&", "==", "<"]
def fp_drpcwire_split_SplitN : List String :=
  ["for", "=fr", "=fr.Data", "=pkt.Data", "call:SplitData", "=fr.Done", "==", "call:len", "0", 
    "if", "=err", "call:cb", "!=", "return", "if", "return"]
def fp_drpcwire_split_SplitData : List String :=
  ["switch", "case", "==", "0", "=n", "*", "64", "1024", "case", "<", "0", "=n", "0", "if", "&&", 
    ">", "call:len", ">", "0", "return", "slice", "slice", "return"]
def fp_drpcwire_reader_NewReaderWithOptions : List String :=
  ["if", "==", "0", "=opts.MaximumBufferSize", "<<", "4", "20", "return", "u&", "call:make", "0", 
    "4096", "1", "1"]
def fp_drpcwire_reader_Reader_read : List String :=
  ["for", "=i", "0", "<", "100", "++", "if", "!=", "=r.rerr", "=err", "return", "0", "=n", "=r.rerr", 
    "call:r.r.Read", "if", ">", "0", "return", "return", "0", "call:drpc.InternalError.Wrap"]
def fp_drpcwire_reader_Reader_ReadPacketUsing : List String :=
  ["=pkt.Data", "slice", "0", "for", "=r.curr", "=fr", "=ok", "=err", "call:ParseFrame", "switch", 
    "case", "!=", "return", "call:drpc.ProtocolError.Wrap", "case", "u!", "if", ">", "-", "call:len", 
    "maxFrameOverhead=31", "return", "call:drpc.ProtocolError.New", "s:data overflow", "if", "==", 
    "call:len", "0", "=r.buf", "call:append", "slice", "0", "if", "<", "-", "call:cap", "call:len", 
    "4096", "=nbuf", "call:make", "call:len", "+", "*", "2", "call:cap", "4096", "call:copy", "=r.buf", 
    "=n", "=err", "call:r.read", "slice", "call:len", "call:cap", "if", "!=", "return", "=ncap", 
    "call:uint", "+", "call:len", "if", ">", "call:uint", "call:cap", "return", "call:drpc.ProtocolError.New", 
    "s:data overflow", "=r.buf", "slice", "=r.curr", "continue", "if", ">", "call:len", "0", "=r.buf", 
    "slice", "0", "=pkt.Control", "||", "switch", "case", "call:fr.ID.Less", "return", "call:drpc.ProtocolError.New", 
    "s:id monotonicity violation (fr:%v r:%v)", "case", "||", "!=", "==", "=r.id", "=pkt", "slice", 
    "0", "case", "!=", "return", "call:drpc.ProtocolError.New", "s:packet kind change (fr:%v pkt:%v)", 
    "=pkt.Data", "call:append", "switch", "case", ">", "call:len", "return", "call:drpc.ProtocolError.New", 
    "s:data overflow (len:%v)", "call:len", "case", "++", "return"]
def fp_drpcwire_writer_NewWriter : List String :=
  ["if", "==", "0", "=size", "*", "4", "1024", "return", "u&", "call:make", "0"]
def fp_drpcwire_writer_Writer_WriteFrame : List String :=
  ["call:b.mu.Lock", "defer", "call:b.mu.Unlock", "if", "==", "call:len", "0", "call:atomic.StoreUint32", 
    "u&", "1", "=b.buf", "call:AppendFrame", "if", ">=", "call:len", "call:b.log", "s:FLUSH", "return", 
    "call:fmt.Sprintf", "s:buffer: %d > %d", "call:len", "=_", "=err", "call:b.w.Write", "=b.buf", 
    "slice", "0", "call:atomic.StoreUint32", "u&", "0", "return"]
def fp_drpcwire_writer_Writer_Flush : List String :=
  ["call:b.mu.Lock", "defer", "call:b.mu.Unlock", "if", ">", "call:len", "0", "=_", "=err", "call:b.w.Write", 
    "call:b.log", "s:FLUSH", "return", "call:fmt.Sprintf", "s:explicit: %d", "call:len", "=b.buf", 
    "slice", "0", "call:atomic.StoreUint32", "u&", "0", "return"]
def fp_drpcwire_writer_Writer_Reset : List String :=
  ["call:b.mu.Lock", "defer", "call:b.mu.Unlock", "=b.buf", "slice", "0", "call:atomic.StoreUint32", 
    "u&", "0", "return"]
def fp_drpcwire_writer_Writer_Empty : List String :=
  ["return", "==", "call:atomic.LoadUint32", "u&", "0"]
def fp_drpcwire_writer_Writer_WritePacket : List String :=
  ["return", "call:b.WriteFrame"]
def fp_drpcwire_error_MarshalError : List String :=
  ["8", "call:binary.BigEndian.PutUint64", "slice", "call:drpcerr.Code", "return", "call:append", 
    "slice", "call:err.Error"]
def fp_drpcwire_error_UnmarshalError : List String :=
  ["if", "<", "call:len", "8", "return", "call:errs.New", "s:%s (drpcwire note: invalid error data)", 
    "return", "call:drpcerr.WithCode", "call:errs.New", "s:%s", "slice", "8", "call:binary.BigEndian.Uint64", 
    "slice", "8"]
def fp_drpcerr_err_Code : List String :=
  ["for", "=i", "0", "<", "100", "++", "=prev", "switch", "=v", "case", "return", "call:v.Code", 
    "case", "=err", "call:v.Cause", "case", "=err", "call:v.Unwrap", "default", "return", "0", 
    "if", "call:shallowEqual", "return", "0", "return", "0"]
def fp_drpcerr_err_WithCode : List String :=
  ["if", "||", "==", "==", "0", "return", "return", "u&"]
def fp_drpcmetadata_serialize_varintSize : List String :=
  ["return", "/", "+", "*", "9", "call:uint64", "call:bits.Len64", "64", "64"]
def fp_drpcmetadata_serialize_encodedStringSize : List String :=
  ["return", "+", "+", "1", "call:varintSize", "call:uint64", "call:len", "call:uint64", "call:len"]
def fp_drpcmetadata_serialize_appendEntry : List String :=
  ["=buf", "call:append", "10", "=buf", "call:drpcwire.AppendVarint", "+", "call:encodedStringSize", 
    "call:encodedStringSize", "=buf", "call:append", "10", "=buf", "call:drpcwire.AppendVarint", 
    "call:uint64", "call:len", "=buf", "call:append", "=buf", "call:append", "18", "=buf", "call:drpcwire.AppendVarint", 
    "call:uint64", "call:len", "=buf", "call:append", "return"]
def fp_drpcmetadata_serialize_readEntry : List String :=
  ["if", "||", "<", "call:len", "1", "!=", "index", "0", "10", "goto", "=buf", "=length", "=ok", 
    "=err", "call:drpcwire.ReadVarint", "slice", "1", "if", "||", "||", "u!", "!=", ">", "call:uint64", 
    "call:len", "goto", "=key", "=value", "=ok", "=err", "call:readKeyValue", "slice", "if", "||", 
    "u!", "!=", "goto", "return", "slice", "return"]
def fp_drpcmetadata_serialize_readKeyValue : List String :=
  ["if", "||", "<", "call:len", "1", "!=", "index", "0", "10", "goto", "=buf", "=length", "=ok", 
    "=err", "call:drpcwire.ReadVarint", "slice", "1", "if", "||", "||", "u!", "!=", ">", "call:uint64", 
    "call:len", "goto", "=buf", "=key", "slice", "slice", "if", "||", "<", "call:len", "1", "!=", 
    "index", "0", "18", "goto", "=buf", "=length", "=ok", "=err", "call:drpcwire.ReadVarint", "slice", 
    "1", "if", "||", "||", "u!", "!=", ">", "call:uint64", "call:len", "goto", "=buf", "=value", 
    "slice", "slice", "if", "!=", "call:len", "0", "goto", "return", "return"]
def fp_drpcmetadata_metadata_Encode : List String :=
  ["for", "=buf", "call:appendEntry", "return"]
def fp_drpcmetadata_metadata_Decode : List String :=
  ["for", ">", "call:len", "0", "=buf", "=key", "=value", "=ok", "=err", "call:readEntry", "if", 
    "!=", "return", "if", "u!", "return", "call:errs.New", "s:invalid data", "if", "==", "=out", 
    "call:make", "=out", "index", "call:string", "call:string", "return"]
def fp_drpchttp_context_buildContext : List String :=
  ["for", "=index", "call:strings.IndexByte", "61", "if", ">=", "0", "=value", "=err", "call:unescape", 
    "slice", "+", "1", "if", "!=", "return", "=entry", "slice", "=key", "=err", "call:unescape", 
    "if", "!=", "return", "=ctx", "call:drpcmetadata.Add", "return"]
def fp_drpchttp_context_unhex : List String :=
  ["switch", "case", "&&", "<=", "48", "<=", "57", "=d", "-", "48", "case", "&&", "<=", "97", 
    "<=", "102", "=d", "+", "-", "97", "10", "case", "&&", "<=", "65", "<=", "70", "=d", "+", "-", 
    "65", "10", "default", "return", "0", "return", "+", "*"]
def fp_drpchttp_context_unescape : List String :=
  ["=count", "call:strings.Count", "s:%", "if", "==", "0", "return", "if", "=n", "-", "call:len", 
    "*", "2", ">", "0", "call:t.Grow", "for", "=i", "call:uint", "0", "<", "call:uint", "call:len", 
    "++", "switch", "index", "case", "37", "if", ">=", "+", "2", "call:uint", "call:len", "return", 
    "s:", "call:errs.New", "s:error unescaping %q: sequence ends", "=c", "=ok", "call:unhex", "0", 
    "index", "+", "1", "16", "if", "u!", "return", "s:", "call:errs.New", "s:error unescaping %q: invalid hex digit", 
    "=c", "=ok", "call:unhex", "index", "+", "2", "1", "if", "u!", "return", "s:", "call:errs.New", 
    "s:error unescaping %q: invalid hex digit", "=_", "call:t.WriteByte", "+=", "2", "default", 
    "=_", "call:t.WriteByte", "index", "return", "call:t.String"]
def fp_drpchttp_handler_getCode : List String :=
  ["=code", "s:unknown", "if", "=dcode", "call:drpcerr.Code", "!=", "0", "=code", "call:fmt.Sprintf", 
    "s:drpcerr(%d)", "for", "=i", "0", "&&", "<", "100", "!=", "++", "if", "=m", "call:reflect.ValueOf().MethodByName", 
    "call:reflect.ValueOf", "s:Code", "call:m.IsValid", "if", "=mt", "call:m.Type", "&&", "&&", 
    "==", "call:mt.NumIn", "0", "==", "call:mt.NumOut", "1", "==", "call:mt.Out().Kind", "call:mt.Out", 
    "0", "return", "call:m.Call().String", "index", "call:m.Call", "0", "switch", "=v", "case", 
    "=err", "call:v.Cause", "case", "=err", "call:v.Unwrap", "default", "return", "return"]
def fp_drpchttp_handler_wrapper_ServeHTTP : List String :=
  ["=pr", "=ok", "index", "call:req.Header.Get", "s:Content-Type", "if", "u!", "=pr", "index", 
    "s:*", "=ctx", "=err", "call:Context", "if", "==", "=req", "call:req.WithContext", "=st", "call:pr.NewStream", 
    "call:st.Finish", "call:w.handler.HandleRPC"]
def fp_drpchttp_encoding_grpcRead : List String :=
  ["if", "=tmp", "=err", "call:readExactly", "5", "!=", "return", "if", "=size", "call:binary.BigEndian.Uint32", 
    "slice", "1", "5", ">", "maxSize=4194304", "return", "call:errs.New", "s:message too large", 
    "if", "=data", "=err", "call:readExactly", "call:uint64", "call:errors.Is", "return", "if", 
    "!=", "return", "return"]
def fp_drpchttp_encoding_twirpRead : List String :=
  ["if", "=data", "=err", "call:io.ReadAll", "call:io.LimitReader", "+", "maxSize=4194304", "1", 
    "!=", "return", "if", ">", "call:len", "maxSize=4194304", "return", "call:errs.New", "s:message too large", 
    "return"]
def fp_drpchttp_encoding_readExactly : List String :=
  ["=buf", "call:make", "=_", "=err", "call:io.ReadFull", "return"]
def fp_drpchttp_encoding_base64Write : List String :=
  ["return", "=tmp", "call:make", "call:base64.StdEncoding.EncodedLen", "call:len", "call:base64.StdEncoding.Encode", 
    "return", "call:wf"]
def fp_drpchttp_protocol_grpc_web_grpcWebProtocol_framedWrite : List String :=
  ["=tmp", "5", "0", "call:binary.BigEndian.PutUint32", "slice", "1", "5", "call:uint32", "call:len", 
    "return", "call:gwp.write", "call:append", "slice"]
def fp_drpchttp_protocol_grpc_web_grpcWebStream_MsgSend : List String :=
  ["=data", "=err", "call:gws.gwp.marshal", "if", "!=", "return", "if", ">=", "call:len", "return", 
    "call:errs.New", "s:message too large", "if", "=err", "call:gws.gwp.framedWrite", "0", "!=", 
    "return", "if", "=fl", "=ok", "call:fl.Flush", "return"]
def fp_drpchttp_protocol_grpc_web_grpcWebStream_Finish : List String :=
  ["=status", "call:strconv.FormatUint", "call:drpcerr.Code", "10", "if", "&&", "!=", "==", "s:0", 
    "=status", "s:2", "=write", "call:buf.WriteString", "call:buf.WriteString", "s:: ", "call:buf.WriteString", 
    "call:textproto.TrimString", "call:nlSpace.Replace", "call:buf.WriteString", "s:\r\n", "call:write", 
    "s:grpc-status", "if", "!=", "call:write", "s:grpc-code", "call:getCode", "call:write", "s:grpc-message", 
    "call:err.Error", "=_", "call:gws.gwp.framedWrite", "128", "call:buf.Bytes"]
def fp_drpchttp_protocol_twirp_twirpStream_MsgSend : List String :=
  ["if", "!=", "return", "=ts.response", "=err", "call:ts.tp.marshal", "call:setErrorOrEOF", "u&", 
    "return"]
def fp_drpchttp_protocol_twirp_twirpStream_MsgRecv : List String :=
  ["if", "!=", "return", "=buf", "=err", "call:twirpRead", "call:setErrorOrEOF", "u&", "if", "!=", 
    "return", "return", "call:ts.tp.unmarshal"]
def fp_drpchttp_protocol_twirp_twirpStream_Finish : List String :=
  ["if", "==", "call:ts.rw.WriteHeader", "=_", "=_", "call:ts.rw.Write", "return", "=code", "call:getCode", 
    "=status", "index", "if", "==", "0", "=status", "500", "=data", "=err", "call:json.MarshalIndent", 
    "s:code", "s:msg", "call:err.Error", "s:", "s:    ", "if", "!=", "call:http.Error", "s:", "return", 
    "call:ts.rw.Header().Set", "call:ts.rw.Header", "s:Content-Type", "s:application/json", "call:ts.rw.WriteHeader", 
    "=_", "=_", "call:ts.rw.Write"]
def fp_drpchttp_protocol_twirp_setErrorOrEOF : List String :=
  ["if", "==", "=err", "=*errp"]
def fp_drpcsignal_signal_Signal_Signal : List String :=
  ["if", "!=", "&", "call:atomic.LoadUint32", "u&", "statusChannelCreated=1", "0", "call:drpcdebug.Point", 
    "s:signal.Signal.fast", "return", "return", "call:s.signalSlow"]
def fp_drpcsignal_signal_Signal_signalSlow : List String :=
  ["call:drpcdebug.Point", "s:signal.signalSlow.enter", "call:s.mu.Lock", "call:drpcdebug.Point", 
    "s:signal.signalSlow.locked", "if", "=set", "==", "&", "statusChannelCreated=1", "0", "=s.ch", 
    "call:make", "call:drpcdebug.Point", "s:signal.signalSlow.made", "call:atomic.StoreUint32", 
    "u&", "|", "statusChannelCreated=1", "call:drpcdebug.Point", "s:signal.signalSlow.unlock", 
    "call:s.mu.Unlock", "return"]
def fp_drpcsignal_signal_Signal_Set : List String :=
  ["if", "!=", "&", "call:atomic.LoadUint32", "u&", "statusErrorSet=2", "0", "return", "return", 
    "call:s.setSlow"]
def fp_drpcsignal_signal_Signal_setSlow : List String :=
  ["call:drpcdebug.Point", "s:signal.setSlow.enter", "call:s.mu.Lock", "call:drpcdebug.Point", 
    "s:signal.setSlow.locked", "if", "=status", "==", "&", "statusErrorSet=2", "0", "=ok", "=s.err", 
    "call:drpcdebug.Point", "s:signal.setSlow.err", "if", "==", "&", "statusChannelCreated=1", 
    "0", "=s.ch", "call:drpcdebug.Point", "s:signal.setSlow.ch", "call:atomic.StoreUint32", "u&", 
    "|", "statusErrorSet=2", "statusChannelCreated=1", "call:drpcdebug.Point", "s:signal.setSlow.stored", 
    "if", "!=", "&", "statusChannelCreated=1", "0", "call:close", "call:drpcdebug.Point", "s:signal.setSlow.unlock", 
    "call:s.mu.Unlock", "return"]
def fp_drpcsignal_signal_Signal_Get : List String :=
  ["if", "!=", "&", "call:atomic.LoadUint32", "u&", "statusErrorSet=2", "0", "call:drpcdebug.Point", 
    "s:signal.Get.fast", "return", "return"]
def fp_drpcsignal_signal_Signal_IsSet : List String :=
  ["return", "!=", "&", "call:atomic.LoadUint32", "u&", "statusErrorSet=2", "0"]
def fp_drpcsignal_signal_Signal_Err : List String :=
  ["if", "!=", "&", "call:atomic.LoadUint32", "u&", "statusErrorSet=2", "0", "call:drpcdebug.Point", 
    "s:signal.Err.fast", "return", "return"]
def fp_drpcsignal_signal_Signal_Wait : List String :=
  ["u<-", "call:s.Signal"]
def fp_drpcsignal_chan_Chan_setFresh : List String :=
  ["=c.ch", "call:make"]
def fp_drpcsignal_chan_Chan_setClosed : List String :=
  ["=c.ch"]
def fp_drpcsignal_chan_Chan_do : List String :=
  ["return", "&&", "==", "call:atomic.LoadUint32", "u&", "0", "call:c.doSlow"]
def fp_drpcsignal_chan_Chan_doSlow : List String :=
  ["call:drpcdebug.Point", "s:chan.doSlow.enter", "call:c.mu.Lock", "defer", "call:c.mu.Unlock", 
    "call:drpcdebug.Point", "s:chan.doSlow.locked", "if", "==", "0", "defer", "call:atomic.StoreUint32", 
    "u&", "1", "defer", "call:drpcdebug.Point", "s:chan.doSlow.store", "call:f", "return", "return"]
def fp_drpcsignal_chan_Chan_Close : List String :=
  ["if", "u!", "call:c.do", "call:drpcdebug.Point", "s:chan.Close.close", "call:close"]
def fp_drpcsignal_chan_Chan_Make : List String :=
  ["call:c.do", "=c.ch", "call:make"]
def fp_drpcsignal_chan_Chan_Get : List String :=
  ["call:c.do", "call:drpcdebug.Point", "s:chan.Get.read", "return"]
def fp_drpcsignal_chan_Chan_Send : List String :=
  ["call:c.do", "send"]
def fp_drpcsignal_chan_Chan_Recv : List String :=
  ["call:c.do", "u<-"]
def fp_drpcsignal_chan_Chan_Full : List String :=
  ["call:c.do", "select", "send", "u<-", "return", "return"]
def fp_drpcstream_pktbuf_packetBuffer_Close : List String :=
  ["call:pb.mu.Lock", "defer", "call:pb.mu.Unlock", "for", "call:pb.cond.Wait", "if", "==", "=pb.data", 
    "=pb.set", "=pb.err", "call:pb.cond.Broadcast"]
def fp_drpcstream_pktbuf_packetBuffer_Put : List String :=
  ["call:pb.mu.Lock", "defer", "call:pb.mu.Unlock", "for", "&&", "==", "call:pb.cond.Wait", "if", 
    "!=", "return", "=pb.data", "=pb.set", "=pb.held", "call:pb.cond.Broadcast", "for", "||", "call:pb.cond.Wait"]
def fp_drpcstream_pktbuf_packetBuffer_Get : List String :=
  ["call:pb.mu.Lock", "defer", "call:pb.mu.Unlock", "for", "&&", "u!", "==", "call:pb.cond.Wait", 
    "if", "!=", "return", "=pb.held", "call:pb.cond.Broadcast", "return"]
def fp_drpcstream_pktbuf_packetBuffer_Done : List String :=
  ["call:pb.mu.Lock", "defer", "call:pb.mu.Unlock", "=pb.data", "=pb.set", "=pb.held", "call:pb.cond.Broadcast"]
def fp_drpcstream_inspectmu_inspectMutex_Lock : List String :=
  ["call:m.Mutex.Lock", "call:atomic.StoreUint32", "u&", "1"]
def fp_drpcstream_inspectmu_inspectMutex_TryLock : List String :=
  ["if", "call:m.Mutex.TryLock", "call:atomic.StoreUint32", "u&", "1", "return", "return"]
def fp_drpcstream_inspectmu_inspectMutex_Unlock : List String :=
  ["call:atomic.StoreUint32", "u&", "0", "call:m.Mutex.Unlock"]
def fp_drpcstream_inspectmu_inspectMutex_Unlocked : List String :=
  ["return", "==", "call:atomic.LoadUint32", "u&", "0"]
def fp_drpcstream_stream_Stream_HandlePacket : List String :=
  ["if", "!=", "return", "call:drpcopts.GetStreamStats().AddRead", "call:drpcopts.GetStreamStats", 
    "u&", "call:uint64", "call:len", "if", "call:s.sigs.term.IsSet", "return", "call:s.log", "s:HANDLE", 
    "if", "==", "call:s.pbuf.Put", "return", "call:s.mu.Lock", "defer", "call:s.mu.Unlock", "switch", 
    "case", "=err", "call:drpc.ProtocolError.New", "s:invoke on existing stream", "call:s.terminate", 
    "return", "case", "=err", "call:drpcwire.UnmarshalError", "call:s.sigs.send.Set", "call:s.terminate", 
    "return", "case", "=err", "call:s.sigs.cancel.Set", "call:s.sigs.send.Set", "call:s.terminate", 
    "return", "case", "call:s.sigs.recv.Set", "call:s.pbuf.Close", "call:s.terminate", "call:drpc.ClosedError.New", 
    "s:remote closed the stream", "return", "case", "call:s.sigs.recv.Set", "call:s.pbuf.Close", 
    "call:s.terminateIfBothClosed", "return", "default", "if", "return", "=err", "call:drpc.InternalError.New", 
    "s:unknown packet kind: %s", "call:s.terminate", "return"]
def fp_drpcstream_stream_Stream_checkFinished : List String :=
  ["if", "&&", "&&", "call:s.sigs.term.IsSet", "call:s.write.Unlocked", "call:s.read.Unlocked", 
    "if", "call:s.sigs.fin.Set", "call:s.log", "s:FIN", "return", "s:", "call:s.ctx.sig.Set", "if", 
    "!=", "send", "if", "!=", "call:s.task.End"]
def fp_drpcstream_stream_Stream_checkCancelError : List String :=
  ["if", "call:s.sigs.cancel.IsSet", "return", "call:s.sigs.cancel.Err", "return"]
def fp_drpcstream_stream_Stream_newFrameLocked : List String :=
  ["++", "return"]
def fp_drpcstream_stream_Stream_sendPacketLocked : List String :=
  ["=fr", "call:s.newFrameLocked", "=fr.Data", "=fr.Control", "=fr.Done", "call:drpcopts.GetStreamStats().AddWritten", 
    "call:drpcopts.GetStreamStats", "u&", "call:uint64", "call:len", "call:s.log", "s:SEND", "if", 
    "=err", "call:s.wr.WriteFrame", "!=", "return", "call:errs.Wrap", "if", "=err", "call:s.wr.Flush", 
    "!=", "return", "call:errs.Wrap", "return"]
def fp_drpcstream_stream_Stream_terminateIfBothClosed : List String :=
  ["if", "&&", "call:s.sigs.send.IsSet", "call:s.sigs.recv.IsSet", "call:s.terminate"]
def fp_drpcstream_stream_Stream_terminate : List String :=
  ["call:s.sigs.send.Set", "call:s.sigs.recv.Set", "call:s.sigs.term.Set", "call:s.pbuf.Close", 
    "call:s.checkFinished"]
def fp_drpcstream_stream_Stream_RawWrite : List String :=
  ["defer", "call:s.checkFinished", "call:s.write.Lock", "defer", "call:s.write.Unlock", "return", 
    "call:s.rawWriteLocked"]
def fp_drpcstream_stream_Stream_rawWriteLocked : List String :=
  ["=fr", "call:s.newFrameLocked", "=n", "for", "switch", "case", "call:s.sigs.send.IsSet", "return", 
    "call:s.sigs.send.Err", "case", "call:s.sigs.term.IsSet", "return", "call:s.sigs.term.Err", 
    "=fr.Data", "=data", "call:drpcwire.SplitData", "=fr.Done", "==", "call:len", "0", "call:drpcopts.GetStreamStats().AddWritten", 
    "call:drpcopts.GetStreamStats", "u&", "call:uint64", "call:len", "call:s.log", "s:SEND", "if", 
    "=err", "call:s.wr.WriteFrame", "!=", "return", "call:s.checkCancelError", "call:errs.Wrap", 
    "if", "return"]
def fp_drpcstream_stream_Stream_RawFlush : List String :=
  ["defer", "call:s.checkFinished", "call:s.write.Lock", "defer", "call:s.write.Unlock", "return", 
    "call:s.rawFlushLocked"]
def fp_drpcstream_stream_Stream_rawFlushLocked : List String :=
  ["if", "call:s.wr.Empty", "return", "switch", "case", "call:s.sigs.cancel.IsSet", "return", 
    "call:s.sigs.cancel.Err", "case", "call:s.sigs.send.IsSet", "return", "call:s.sigs.send.Err", 
    "case", "call:s.sigs.term.IsSet", "return", "call:s.sigs.term.Err", "call:s.log", "s:FLUSH", 
    "return", "s:", "return", "call:s.checkCancelError", "call:errs.Wrap", "call:s.wr.Flush"]
def fp_drpcstream_stream_Stream_checkRecvFlush : List String :=
  ["call:s.flush.Do", "=err", "call:s.RawFlush", "if", "&&", "&&", "==", "u!", "call:s.wr.Empty", 
    "=err", "call:s.RawFlush", "if", "&&", "!=", "call:s.sigs.term.IsSet", "return", "return"]
def fp_drpcstream_stream_Stream_RawRecv : List String :=
  ["if", "=err", "call:s.checkRecvFlush", "!=", "return", "defer", "call:s.checkFinished", "call:s.read.Lock", 
    "defer", "call:s.read.Unlock", "=data", "=err", "call:s.pbuf.Get", "if", "!=", "return", "=data", 
    "call:append", "call:[]byte", "call:s.pbuf.Done", "return"]
def fp_drpcstream_stream_Stream_MsgSend : List String :=
  ["call:s.flush.Do", "defer", "call:s.checkFinished", "call:s.write.Lock", "defer", "call:s.write.Unlock", 
    "=wbuf", "=err", "call:drpcenc.MarshalAppend", "slice", "0", "if", "!=", "return", "call:errs.Wrap", 
    "if", "||", "==", "0", "<", "call:len", "=s.wbuf", "if", "=err", "call:s.rawWriteLocked", "!=", 
    "return", "if", "u!", "return", "call:s.rawFlushLocked", "return"]
def fp_drpcstream_stream_Stream_MsgRecv : List String :=
  ["if", "=err", "call:s.checkRecvFlush", "!=", "return", "defer", "call:s.checkFinished", "call:s.read.Lock", 
    "defer", "call:s.read.Unlock", "=data", "=err", "call:s.pbuf.Get", "if", "!=", "return", "=err", 
    "call:enc.Unmarshal", "call:s.pbuf.Done", "return"]
def fp_drpcstream_stream_Stream_SendError : List String :=
  ["call:s.log", "s:CALL", "return", "call:fmt.Sprintf", "s:SendError(%v)", "call:s.mu.Lock", 
    "if", "call:s.sigs.term.IsSet", "call:s.mu.Unlock", "return", "defer", "call:s.checkFinished", 
    "call:s.write.Lock", "defer", "call:s.write.Unlock", "call:s.sigs.send.Set", "call:s.terminate", 
    "call:s.mu.Unlock", "return", "call:s.checkCancelError", "call:s.sendPacketLocked", "call:drpcwire.MarshalError"]
def fp_drpcstream_stream_Stream_SendCancel : List String :=
  ["call:s.log", "s:CALL", "return", "s:SendCancel()", "if", "u!", "call:s.mu.TryLock", "return", 
    "if", "u!", "call:s.write.TryLock", "call:s.mu.Unlock", "return", "defer", "call:s.checkFinished", 
    "defer", "call:s.write.Unlock", "if", "call:s.sigs.term.IsSet", "call:s.mu.Unlock", "return", 
    "call:s.sigs.send.Set", "call:s.terminate", "call:s.mu.Unlock", "return", "call:s.checkCancelError", 
    "call:s.sendPacketLocked"]
def fp_drpcstream_stream_Stream_Close : List String :=
  ["call:s.log", "s:CALL", "return", "s:Close()", "call:s.mu.Lock", "if", "call:s.sigs.term.IsSet", 
    "call:s.mu.Unlock", "return", "defer", "call:s.checkFinished", "call:s.write.Lock", "defer", 
    "call:s.write.Unlock", "call:s.terminate", "call:s.mu.Unlock", "return", "call:s.checkCancelError", 
    "call:s.sendPacketLocked"]
def fp_drpcstream_stream_Stream_CloseSend : List String :=
  ["call:s.log", "s:CALL", "return", "s:CloseSend()", "call:s.mu.Lock", "if", "||", "call:s.sigs.send.IsSet", 
    "call:s.sigs.term.IsSet", "call:s.mu.Unlock", "return", "defer", "call:s.checkFinished", "call:s.write.Lock", 
    "defer", "call:s.write.Unlock", "call:s.sigs.send.Set", "call:s.terminateIfBothClosed", "call:s.mu.Unlock", 
    "return", "call:s.checkCancelError", "call:s.sendPacketLocked"]
def fp_drpcstream_stream_Stream_Cancel : List String :=
  ["call:s.log", "s:CALL", "return", "call:fmt.Sprintf", "s:Cancel(%v)", "call:s.mu.Lock", "defer", 
    "call:s.mu.Unlock", "if", "call:s.IsFinished", "return", "call:s.sigs.cancel.Set", "call:s.sigs.send.Set", 
    "call:s.terminate", "return"]
def fp_drpcstream_stream_NewWithOptions : List String :=
  ["if", "call:trace.IsEnabled", "=kind", "=rpc", "call:drpcopts.GetStreamKind", "u&", "call:drpcopts.GetStreamRPC", 
    "u&", "if", "&&", "!=", "s:", "!=", "s:", "=ctx", "=task", "call:trace.NewTask", "+", "=s", 
    "u&", "call:drpcopts.GetStreamTransport", "u&", "call:drpcopts.GetStreamFin", "u&", "call:wr.Reset", 
    "call:s.pbuf.init", "return"]
def fp_drpcmanager_manager_NewWithOptions : List String :=
  ["=m", "u&", "call:drpcwire.NewWriter", "call:drpcwire.NewReaderWithOptions", "call:make", "call:make", 
    "1", "call:make", "call:m.sbuf.init", "call:m.sem.Make", "1", "call:m.pdone.Make", "1", "call:drpcopts.SetStreamTransport", 
    "u&", "call:drpcopts.SetStreamFin", "u&", "go", "call:m.manageReader", "go", "call:m.manageStreams", 
    "return"]
def fp_drpcmanager_manager_Manager_acquireSemaphore : List String :=
  ["if", "=err", "=ok", "call:m.sigs.term.Get", "return", "if", "=err", "call:ctx.Err", "!=", 
    "return", "select", "u<-", "call:ctx.Done", "return", "call:ctx.Err", "u<-", "call:m.sigs.term.Signal", 
    "return", "call:m.sigs.term.Err", "send", "call:m.sem.Get", "call:drpcdebug.Event", "s:sem.acq", 
    "0", "if", "=err", "call:m.waitForPreviousStream", "!=", "call:drpcdebug.Event", "s:sem.rel", 
    "0", "call:m.sem.Recv", "return", "return"]
def fp_drpcmanager_manager_Manager_waitForPreviousStream : List String :=
  ["=prev", "call:m.sbuf.Get", "if", "==", "call:drpcdebug.Event", "s:prev.none", "0", "return", 
    "if", "call:prev.IsFinished", "call:drpcdebug.Event", "s:prev.done", "call:prev.ID", "return", 
    "call:m.log", "s:WAIT", "select", "u<-", "call:ctx.Done", "return", "call:ctx.Err", "u<-", 
    "call:m.sigs.term.Signal", "return", "call:m.sigs.term.Err", "u<-", "call:prev.Finished", "call:drpcdebug.Event", 
    "s:prev.done", "call:prev.ID", "return"]
def fp_drpcmanager_manager_Manager_terminate : List String :=
  ["if", "call:m.sigs.term.Set", "call:drpcdebug.Event", "s:term", "0", "call:m.log", "s:TERM", 
    "return", "call:fmt.Sprint", "call:drpcdebug.Event", "s:tport.close", "0", "call:m.sigs.tport.Set", 
    "call:m.tr.Close", "call:m.sbuf.Close"]
def fp_drpcmanager_manager_Manager_manageReader : List String :=
  ["defer", "call:m.sigs.read.Set", "for", "u!", "call:m.sigs.term.IsSet", "if", ">", "10", "=pkt.Data", 
    "=run", "0", "=pkt", "=err", "call:m.rd.ReadPacketUsing", "slice", "0", "if", "!=", "if", "call:isConnectionReset", 
    "=err", "call:drpc.ClosedError.Wrap", "call:m.terminate", "call:managerClosed.Wrap", "return", 
    "if", "<", "call:len", "/", "call:cap", "4", "++", "=run", "0", "call:m.log", "s:READ", "switch", 
    "=curr", "call:m.sbuf.Get", "case", "&&", "!=", "==", "call:curr.ID", "call:drpcdebug.Event", 
    "s:rd.deliver", "if", "=err", "call:curr.HandlePacket", "!=", "call:m.terminate", "call:managerClosed.Wrap", 
    "return", "case", "&&", "!=", "<", "call:curr.ID", "call:drpcdebug.Event", "s:rd.drop", "case", 
    "||", "==", "==", "if", "&&", "!=", "u!", "call:curr.IsTerminated", "call:curr.Cancel", "if", 
    "==", "=invoked", "call:drpcdebug.Event", "s:rd.queue", "select", "send", "call:m.pdone.Recv", 
    "u<-", "call:m.sigs.term.Signal", "return", "default", "if", "&&", "!=", "u!", "call:curr.IsTerminated", 
    "call:curr.Cancel", "if", "!=", "call:drpcdebug.Event", "s:rd.orphan", "break", "call:drpcdebug.Event", 
    "s:rd.wait", "if", "u!", "call:m.sbuf.Wait", "call:curr.ID", "return", "goto"]
def fp_drpcmanager_manager_Manager_newStream : List String :=
  ["=opts", "call:drpcopts.SetStreamKind", "u&", "call:drpcopts.SetStreamRPC", "u&", "if", "=cb", 
    "call:drpcopts.GetManagerStatsCB", "u&", "!=", "call:drpcopts.SetStreamStats", "u&", "call:cb", 
    "=stream", "call:drpcstream.NewWithOptions", "call:drpcdebug.Event", "s:stream.new.begin", 
    "call:m.sbuf.Set", "call:drpcdebug.Event", "s:stream.new.end", "call:drpcdebug.Event", "s:stream.new.offer", 
    "select", "send", "call:drpcdebug.Point", "s:manager.newStream.handoff", "call:m.log", "s:STREAM", 
    "return", "u<-", "call:m.sigs.term.Signal", "call:drpcdebug.Event", "s:stream.new.retract", 
    "return", "call:m.sigs.term.Err"]
def fp_drpcmanager_manager_Manager_manageStreams : List String :=
  ["defer", "call:m.sigs.stream.Set", "for", "select", "=si", "u<-", "call:m.manageStream", "u<-", 
    "call:m.sigs.term.Signal", "return"]
def fp_drpcmanager_manager_Manager_manageStream : List String :=
  ["select", "u<-", "call:m.sigs.term.Signal", "=err", "call:m.sigs.term.Err", "if", "call:errors.Is", 
    "=err", "call:stream.Cancel", "u<-", "call:drpcdebug.Event", "s:sfin.recv", "call:stream.ID", 
    "call:drpcdebug.Event", "s:sem.rel", "0", "call:m.sem.Recv", "u<-", "call:drpcdebug.Event", 
    "s:sfin.recv", "call:stream.ID", "call:drpcdebug.Event", "s:sem.rel", "0", "call:m.sem.Recv", 
    "u<-", "call:ctx.Done", "call:m.log", "s:CANCEL", "if", "call:drpcdebug.Event", "s:sem.rel", 
    "0", "call:m.sem.Recv", "if", "=busy", "=err", "call:stream.SendCancel", "call:ctx.Err", "!=", 
    "call:m.terminate", "if", "call:m.log", "s:BUSY", "call:m.terminate", "call:ctx.Err", "call:stream.Cancel", 
    "call:ctx.Err", "u<-", "call:drpcdebug.Event", "s:sfin.recv", "call:stream.ID", "if", "u!", 
    "call:stream.Cancel", "call:ctx.Err", "call:m.log", "s:UNFIN", "call:m.terminate", "call:ctx.Err", 
    "call:m.log", "s:CLEAN", "u<-", "call:drpcdebug.Event", "s:sfin.recv", "call:stream.ID", "call:drpcdebug.Event", 
    "s:sem.rel", "0", "call:m.sem.Recv"]
def fp_drpcmanager_manager_Manager_Close : List String :=
  ["call:m.terminate", "call:managerClosed.New", "s:Close called", "call:m.sigs.stream.Wait", 
    "call:m.sigs.read.Wait", "call:m.sigs.tport.Wait", "return", "call:m.sigs.tport.Err"]
def fp_drpcmanager_manager_Manager_NewClientStream : List String :=
  ["if", "=err", "call:m.acquireSemaphore", "!=", "return", "return", "call:m.newStream", "+", 
    "call:m.sbuf.Get().ID", "call:m.sbuf.Get", "1", "s:cli"]
def fp_drpcmanager_manager_Manager_NewServerStream : List String :=
  ["if", "=err", "call:m.acquireSemaphore", "!=", "return", "s:", "defer", "call:func", "if", 
    "!=", "call:drpcdebug.Event", "s:sem.rel", "0", "call:m.sem.Recv", "if", "=timeout", ">", "0", 
    "=timer", "call:time.NewTimer", "defer", "call:timer.Stop", "=timeoutCh", "for", "select", 
    "u<-", "return", "s:", "u<-", "call:ctx.Done", "return", "s:", "call:ctx.Err", "u<-", "call:m.sigs.term.Signal", 
    "return", "s:", "call:m.sigs.term.Err", "=pkt", "u<-", "switch", "case", "=meta", "=err", "call:drpcmetadata.Decode", 
    "call:m.pdone.Send", "if", "!=", "return", "s:", "=metaID", "case", "=rpc", "call:string", 
    "call:m.pdone.Send", "if", "==", "=ctx", "call:drpcmetadata.AddPairs", "=stream", "=err", "call:m.newStream", 
    "s:srv", "return", "default", "call:m.pdone.Send"]
def fp_drpcmanager_manager_Manager_Unblocked : List String :=
  ["if", "=prev", "call:m.sbuf.Get", "!=", "return", "call:prev.Context().Done", "call:prev.Context", 
    "return"]
def fp_drpcmanager_streambuf_streamBuffer_Close : List String :=
  ["call:sb.mu.Lock", "defer", "call:sb.mu.Unlock", "=sb.closed", "call:sb.cond.Broadcast"]
def fp_drpcmanager_streambuf_streamBuffer_Set : List String :=
  ["call:sb.mu.Lock", "defer", "call:sb.mu.Unlock", "if", "return", "call:sb.stream.Store", "call:sb.cond.Broadcast"]
def fp_drpcmanager_streambuf_streamBuffer_Wait : List String :=
  ["call:sb.mu.Lock", "defer", "call:sb.mu.Unlock", "for", "&&", "u!", "==", "call:sb.Get().ID", 
    "call:sb.Get", "call:sb.cond.Wait", "return", "u!"]
def fp_drpcmanager_streambuf_streamBuffer_Get : List String :=
  ["return", "call:sb.stream.Load"]
def fp_drpcconn_conn_Conn_Invoke : List String :=
  ["if", "=md", "=ok", "call:drpcmetadata.Get", "=metadata", "=err", "call:drpcmetadata.Encode", 
    "if", "!=", "return", "=stream", "=err", "call:c.man.NewClientStream", "if", "!=", "return", 
    "defer", "call:func", "=err", "call:errs.Combine", "call:stream.Close", "call:c.mu.Lock", "defer", 
    "call:c.mu.Unlock", "=c.wbuf", "=err", "call:drpcenc.MarshalAppend", "slice", "0", "if", "!=", 
    "return", "if", "=err", "call:c.doInvoke", "!=", "return", "return"]
def fp_drpcconn_conn_Conn_doInvoke : List String :=
  ["if", ">", "call:len", "0", "if", "=err", "call:stream.RawWrite", "!=", "return", "if", "=err", 
    "call:stream.RawWrite", "call:[]byte", "!=", "return", "if", "=err", "call:stream.RawWrite", 
    "!=", "return", "if", "=err", "call:stream.CloseSend", "!=", "return", "if", "=err", "call:stream.MsgRecv", 
    "!=", "return", "return"]
def fp_drpcconn_conn_Conn_NewStream : List String :=
  ["if", "=md", "=ok", "call:drpcmetadata.Get", "=metadata", "=err", "call:drpcmetadata.Encode", 
    "if", "!=", "return", "=stream", "=err", "call:c.man.NewClientStream", "if", "!=", "return", 
    "if", "=err", "call:c.doNewStream", "!=", "return", "call:errs.Combine", "call:stream.Close", 
    "return"]
def fp_drpcconn_conn_Conn_doNewStream : List String :=
  ["if", ">", "call:len", "0", "if", "=err", "call:stream.RawWrite", "!=", "return", "if", "=err", 
    "call:stream.RawWrite", "call:[]byte", "!=", "return", "return"]
def fp_drpcserver_server_Server_ServeOne : List String :=
  ["=man", "call:drpcmanager.NewWithOptions", "defer", "call:func", "=err", "call:errs.Combine", 
    "call:man.Close", "=cache", "call:drpccache.New", "defer", "call:cache.Clear", "=ctx", "call:drpccache.WithContext", 
    "for", "=stream", "=rpc", "=err", "call:man.NewServerStream", "if", "!=", "return", "call:errs.Wrap", 
    "if", "=err", "call:s.handleRPC", "!=", "return", "call:errs.Wrap"]
def fp_drpcserver_server_Server_Serve : List String :=
  ["=tracker", "call:drpcctx.NewTracker", "defer", "call:tracker.Wait", "defer", "call:tracker.Cancel", 
    "call:tracker.Run", "u<-", "call:ctx.Done", "=_", "call:lis.Close", "for", "=conn", "=err", 
    "call:lis.Accept", "if", "!=", "if", "!=", "call:ctx.Err", "return", "if", "call:isTemporary", 
    "if", "!=", "call:s.opts.Log", "=t", "call:time.NewTimer", "select", "u<-", "u<-", "call:ctx.Done", 
    "call:t.Stop", "return", "continue", "return", "call:errs.Wrap", "call:tracker.Run", "=err", 
    "call:s.ServeOne", "if", "&&", "!=", "!=", "call:s.opts.Log"]
def fp_drpcserver_server_Server_handleRPC : List String :=
  ["=err", "call:s.handler.HandleRPC", "if", "!=", "return", "call:errs.Wrap", "call:stream.SendError", 
    "=err", "call:stream.CloseSend", "call:stream.Cancel", "return", "call:errs.Wrap"]
def fp_drpcmux_handle_rpc_Mux_HandleRPC : List String :=
  ["=data", "=ok", "index", "if", "u!", "return", "call:drpc.ProtocolError.New", "s:unknown rpc: %q", 
    "=in", "call:interface", "if", "!=", "=msg", "=ok", "call:reflect.New().Interface", "call:reflect.New", 
    "call:data.in1.Elem", "if", "u!", "return", "call:drpc.InternalError.New", "s:invalid rpc input type", 
    "if", "=err", "call:stream.MsgRecv", "!=", "return", "call:errs.Wrap", "=in", "=out", "=err", 
    "call:data.receiver", "call:stream.Context", "switch", "case", "!=", "return", "call:errs.Wrap", 
    "case", "&&", "!=", "u!", "call:reflect.ValueOf().IsNil", "call:reflect.ValueOf", "return", 
    "call:stream.MsgSend", "default", "return", "call:stream.CloseSend"]
def fp_drpcmux_mux_Mux_registerOne : List String :=
  ["=data", "switch", "=mt", "call:reflect.TypeOf", "case", "==", "call:mt.NumOut", "2", "=data.unitary", 
    "=data.in1", "call:mt.In", "2", "if", "u!", "call:data.in1.Implements", "return", "call:errs.New", 
    "s:input argument not a drpc message: %v", "case", "==", "call:mt.NumIn", "3", "=data.in1", 
    "call:mt.In", "1", "if", "u!", "call:data.in1.Implements", "return", "call:errs.New", "s:input argument not a drpc message: %v", 
    "=data.in2", "case", "==", "call:mt.NumIn", "2", "=data.in1", "default", "return", "call:errs.New", 
    "s:unknown method type: %v", "=m.rpcs", "index", "return"]
def fp_drpcmux_mux_Mux_Register : List String :=
  ["=n", "call:desc.NumMethods", "for", "=i", "0", "<", "++", "=rpc", "=enc", "=receiver", "=method", 
    "=ok", "call:desc.Method", "if", "u!", "return", "call:errs.New", "s:Description returned invalid method for index %d", 
    "if", "=err", "call:m.registerOne", "!=", "return", "return"]
def fp_drpcpool_pool_Pool_Close : List String :=
  ["call:p.mu.Lock", "defer", "call:p.mu.Unlock", "for", "=ent", "!=", "=ent", "call:eg.Add", 
    "call:p.closeEntry", "=ent.global.removed", "=ent.local.removed", "=p.entries", "call:make", 
    "=p.order", "return", "call:eg.Err"]
def fp_drpcpool_pool_Pool_removeEntry : List String :=
  ["call:p.mu.Lock", "defer", "call:p.mu.Unlock", "=local", "index", "if", "==", "return", "call:local.removeEntry", 
    "call:p.order.removeEntry", "if", "==", "0", "call:delete"]
def fp_drpcpool_pool_Pool_closeEntry : List String :=
  ["call:p.log", "s:CLOSE", "if", "||", "==", "call:ent.exp.Stop", "return", "call:ent.val.Close", 
    "return"]
def fp_drpcpool_pool_Pool_Take : List String :=
  ["call:p.mu.Lock", "defer", "call:p.mu.Unlock", "=local", "index", "if", "==", "return", "call:new", 
    "for", "=ent", "!=", "=ent", "if", "u!", "call:closed", "call:ent.val.Unblocked", "continue", 
    "call:local.removeEntry", "call:p.order.removeEntry", "if", "&&", "!=", "u!", "call:ent.exp.Stop", 
    "continue", "if", "call:closed", "call:ent.val.Closed", "continue", "call:p.log", "s:TAKEN", 
    "return", "return", "call:new"]
def fp_drpcpool_pool_Pool_Put : List String :=
  ["if", "||", "<", "0", "<", "0", "=_", "call:val.Close", "return", "if", "call:closed", "call:val.Closed", 
    "return", "call:p.mu.Lock", "defer", "call:p.mu.Unlock", "=local", "index", "if", "==", "=local", 
    "call:new", "=p.entries", "index", "for", "&&", "!=", "0", ">=", "=ent", "=_", "call:p.closeEntry", 
    "call:local.removeEntry", "call:p.order.removeEntry", "for", "&&", "!=", "0", ">=", "=ent", 
    "=entLocal", "index", "=_", "call:p.closeEntry", "call:entLocal.removeEntry", "call:p.order.removeEntry", 
    "if", "&&", "==", "0", "!=", "call:delete", "=ent", "u&", "call:local.appendEntry", "call:p.order.appendEntry", 
    "call:p.log", "s:PUT", "if", ">", "0", "=ent.exp", "call:time.AfterFunc", "=_", "call:val.Close", 
    "call:p.removeEntry"]
def fp_drpcpool_entry_list_appendEntry : List String :=
  ["if", "==", "=l.head", "if", "!=", "=node().next", "call:node", "=node().prev", "call:node", 
    "=l.tail", "++"]
def fp_drpcpool_entry_list_removeEntry : List String :=
  ["=n", "call:node", "if", "return", "=n.removed", "if", "==", "=l.head", "if", "!=", "=node().prev", 
    "call:node", "if", "==", "=l.tail", "if", "!=", "=node().next", "call:node", "--"]
def fp_drpcpool_conn_poolConn_Close : List String :=
  ["call:p.done.Close", "return"]
def fp_drpcpool_conn_poolConn_Invoke : List String :=
  ["if", "call:closed", "call:p.done.Get", "return", "call:errs.New", "s:connection closed", "=conn", 
    "=ok", "call:p.pool.Take", "if", "u!", "=conn", "=err", "call:p.dial", "if", "!=", "return", 
    "defer", "call:p.pool.Put", "return", "call:conn.Invoke"]
def fp_drpcpool_conn_poolConn_NewStream : List String :=
  ["if", "call:closed", "call:p.done.Get", "return", "call:errs.New", "s:connection closed", "=conn", 
    "=ok", "call:p.pool.Take", "if", "u!", "=conn", "=err", "call:p.dial", "if", "!=", "return", 
    "=stream", "=err", "call:conn.NewStream", "if", "!=", "call:p.pool.Put", "return", "=sw", "u&", 
    "go", "call:p.monitorStream", "u&", "return"]
def fp_drpcpool_conn_poolConn_monitorStream : List String :=
  ["u<-", "call:stream.Context().Done", "call:stream.Context", "call:p.pool.Put", "call:done.Close"]
def fp_drpcmigrate_mux_ListenMux_Route : List String :=
  ["call:m.mu.Lock", "defer", "call:m.mu.Unlock", "if", "!=", "call:len", "call:panic", "call:fmt.Sprintf", 
    "s:invalid prefix: has %d but needs %d bytes", "call:len", "=lis", "=ok", "index", "if", "u!", 
    "=lis", "call:newListener", "=m.routes", "index", "go", "call:m.monitorListener", "return"]
def fp_drpcmigrate_mux_ListenMux_Run : List String :=
  ["=ctx", "=cancel", "call:context.WithCancel", "defer", "call:cancel", "go", "call:m.monitorContext", 
    "go", "call:m.monitorBase", "u<-", "call:m.mu.Lock", "defer", "call:m.mu.Unlock", "for", "u<-", 
    "=_", "call:m.def.Close", "u<-", "return"]
def fp_drpcmigrate_mux_ListenMux_monitorContext : List String :=
  ["u<-", "call:ctx.Done", "call:m.once.Do", "=_", "call:m.base.Close", "call:close"]
def fp_drpcmigrate_mux_ListenMux_monitorBase : List String :=
  ["for", "=conn", "=err", "call:m.base.Accept", "if", "!=", "call:m.once.Do", "=m.err", "call:close", 
    "return", "go", "call:m.routeConn"]
def fp_drpcmigrate_mux_ListenMux_monitorListener : List String :=
  ["select", "u<-", "call:lis.once.Do", "if", "!=", "=lis.err", "=lis.err", "call:close", "u<-", 
    "call:m.mu.Lock", "call:delete", "call:m.mu.Unlock"]
def fp_drpcmigrate_mux_ListenMux_routeConn : List String :=
  ["=buf", "call:make", "if", "=_", "=err", "call:io.ReadFull", "!=", "=_", "call:conn.Close", 
    "return", "call:m.mu.Lock", "=lis", "=ok", "index", "call:string", "if", "u!", "=lis", "=conn", 
    "call:newPrefixConn", "call:m.mu.Unlock", "select", "u<-", "=_", "call:conn.Close", "send", 
    "call:lis.Conns"]
def fp_drpcmigrate_listener_listener_Accept : List String :=
  ["select", "u<-", "return", "select", "u<-", "return", "=conn", "u<-", "return"]
def fp_drpcmigrate_listener_listener_Close : List String :=
  ["call:l.once.Do", "=l.err", "call:close", "return"]
def fp_drpcmigrate_prefixconn_newPrefixConn : List String :=
  ["return", "u&", "call:io.MultiReader", "call:bytes.NewReader"]
def fp_drpcmigrate_prefixconn_prefixConn_Read : List String :=
  ["return", "call:pc.Reader.Read"]
def fp_drpcmigrate_header_HeaderConn_Write : List String :=
  ["call:d.once.Do", "=didOnce", "=n", "=err", "call:d.Conn.Write", "call:append", "call:[]byte", 
    "if", "-=", "call:len", "if", "<", "0", "=n", "0", "return", "return", "call:d.Conn.Write"]
def fp_drpcctx_tracker_Tracker_Run : List String :=
  ["call:t.wg.Add", "1", "go", "call:t.track"]
def fp_drpcctx_tracker_Tracker_track : List String :=
  ["call:cb", "call:t.wg.Done"]
def fp_drpcctx_tracker_Tracker_Wait : List String :=
  ["call:t.wg.Wait"]
def fp_cmd_protoc_gen_go_drpc_main_main : List String :=
  ["call:flags.StringVar", "u&", "s:protolib", "s:google.golang.org/protobuf", "s:which protobuf library to use for encoding", 
    "call:flags.BoolVar", "u&", "s:json", "s:generate encoders with json support", "call:?.Run", 
    "for", "if", "||", "u!", "==", "call:len", "0", "continue", "call:generateFile", "=plugin.SupportedFeatures", 
    "call:uint64", "return"]
def fp_cmd_protoc_gen_go_drpc_main_generateFile : List String :=
  ["=gf", "call:plugin.NewGeneratedFile", "+", "s:_drpc.pb.go", "=d", "u&", "call:d.P", "s:// Code generated by protoc-gen-go-drpc. DO NOT EDIT.", 
    "if", "=bi", "=ok", "call:debug.ReadBuildInfo", "call:d.P", "s:// protoc-gen-go-drpc version: ", 
    "call:d.P", "s:// source: ", "call:file.Desc.Path", "call:d.P", "call:d.P", "s:package ", "call:d.P", 
    "call:d.generateEncoding", "for", "call:d.generateService"]
def fp_cmd_protoc_gen_go_drpc_main_drpc_EncodingName : List String :=
  ["return", "+", "s:drpcEncoding_"]
def fp_cmd_protoc_gen_go_drpc_main_drpc_RPCGoString : List String :=
  ["return", "call:strconv.Quote", "call:fmt.Sprintf", "s:/%s/%s", "call:method.Parent.Desc.FullName", 
    "call:method.Desc.Name"]
def fp_cmd_protoc_gen_go_drpc_main_drpc_ClientIface : List String :=
  ["return", "+", "+", "s:DRPC", "s:Client"]
def fp_cmd_protoc_gen_go_drpc_main_drpc_ClientImpl : List String :=
  ["return", "+", "+", "s:drpc", "s:Client"]
def fp_cmd_protoc_gen_go_drpc_main_drpc_ServerIface : List String :=
  ["return", "+", "+", "s:DRPC", "s:Server"]
def fp_cmd_protoc_gen_go_drpc_main_drpc_ServerUnimpl : List String :=
  ["return", "+", "+", "s:DRPC", "s:UnimplementedServer"]
def fp_cmd_protoc_gen_go_drpc_main_drpc_ServerDesc : List String :=
  ["return", "+", "+", "s:DRPC", "s:Description"]
def fp_cmd_protoc_gen_go_drpc_main_drpc_ClientStreamIface : List String :=
  ["return", "+", "+", "+", "+", "s:DRPC", "call:strings.ReplaceAll", "s:_", "s:__", "s:_", "call:strings.ReplaceAll", 
    "s:_", "s:__", "s:Client"]
def fp_cmd_protoc_gen_go_drpc_main_drpc_ClientStreamImpl : List String :=
  ["return", "+", "+", "+", "+", "s:drpc", "call:strings.ReplaceAll", "s:_", "s:__", "s:_", "call:strings.ReplaceAll", 
    "s:_", "s:__", "s:Client"]
def fp_cmd_protoc_gen_go_drpc_main_drpc_ServerStreamIface : List String :=
  ["return", "+", "+", "+", "+", "s:DRPC", "call:strings.ReplaceAll", "s:_", "s:__", "s:_", "call:strings.ReplaceAll", 
    "s:_", "s:__", "s:Stream"]
def fp_cmd_protoc_gen_go_drpc_main_drpc_ServerStreamImpl : List String :=
  ["return", "+", "+", "+", "+", "s:drpc", "call:strings.ReplaceAll", "s:_", "s:__", "s:_", "call:strings.ReplaceAll", 
    "s:_", "s:__", "s:Stream"]
def fp_cmd_protoc_gen_go_drpc_main_drpc_generateEncoding : List String :=
  ["call:d.P", "s:type ", "call:d.EncodingName", "s: struct{}", "call:d.P", "switch", "case", 
    "s:google.golang.org/protobuf", "call:d.P", "s:func (", "call:d.EncodingName", "s:) Marshal(msg ", 
    "call:d.Ident", "s:storj.io/drpc", "s:Message", "s:) ([]byte, error) {", "call:d.P", "s:return ", 
    "call:d.Ident", "s:google.golang.org/protobuf/proto", "s:Marshal", "s:(msg.(", "call:d.Ident", 
    "s:google.golang.org/protobuf/proto", "s:Message", "s:))", "call:d.P", "s:}", "call:d.P", "call:d.P", 
    "s:func (", "call:d.EncodingName", "s:) MarshalAppend(buf []byte, msg ", "call:d.Ident", "s:storj.io/drpc", 
    "s:Message", "s:) ([]byte, error) {", "call:d.P", "s:return ", "call:d.Ident", "s:google.golang.org/protobuf/proto", 
    "s:MarshalOptions", "s:{}.MarshalAppend(buf, msg.(", "call:d.Ident", "s:google.golang.org/protobuf/proto", 
    "s:Message", "s:))", "call:d.P", "s:}", "call:d.P", "call:d.P", "s:func (", "call:d.EncodingName", 
    "s:) Unmarshal(buf []byte, msg ", "call:d.Ident", "s:storj.io/drpc", "s:Message", "s:) error {", 
    "call:d.P", "s:return ", "call:d.Ident", "s:google.golang.org/protobuf/proto", "s:Unmarshal", 
    "s:(buf, msg.(", "call:d.Ident", "s:google.golang.org/protobuf/proto", "s:Message", "s:))", 
    "call:d.P", "s:}", "call:d.P", "if", "call:d.P", "s:func (", "call:d.EncodingName", "s:) JSONMarshal(msg ", 
    "call:d.Ident", "s:storj.io/drpc", "s:Message", "s:) ([]byte, error) {", "call:d.P", "s:return ", 
    "call:d.Ident", "s:google.golang.org/protobuf/encoding/protojson", "s:Marshal", "s:(msg.(", 
    "call:d.Ident", "s:google.golang.org/protobuf/proto", "s:Message", "s:))", "call:d.P", "s:}", 
    "call:d.P", "call:d.P", "s:func (", "call:d.EncodingName", "s:) JSONUnmarshal(buf []byte, msg ", 
    "call:d.Ident", "s:storj.io/drpc", "s:Message", "s:) error {", "call:d.P", "s:return ", "call:d.Ident", 
    "s:google.golang.org/protobuf/encoding/protojson", "s:Unmarshal", "s:(buf, msg.(", "call:d.Ident", 
    "s:google.golang.org/protobuf/proto", "s:Message", "s:))", "call:d.P", "s:}", "call:d.P", "case", 
    "s:github.com/gogo/protobuf", "call:d.P", "s:func (", "call:d.EncodingName", "s:) Marshal(msg ", 
    "call:d.Ident", "s:storj.io/drpc", "s:Message", "s:) ([]byte, error) {", "call:d.P", "s:return ", 
    "call:d.Ident", "s:github.com/gogo/protobuf/proto", "s:Marshal", "s:(msg.(", "call:d.Ident", 
    "s:github.com/gogo/protobuf/proto", "s:Message", "s:))", "call:d.P", "s:}", "call:d.P", "call:d.P", 
    "s:func (", "call:d.EncodingName", "s:) MarshalAppend(buf []byte, msg ", "call:d.Ident", "s:storj.io/drpc", 
    "s:Message", "s:) ([]byte, error) {", "call:d.P", "s:pbuf := ", "call:d.Ident", "s:github.com/gogo/protobuf/proto", 
    "s:NewBuffer", "s:(buf)", "call:d.P", "s:if err := pbuf.Marshal(msg.(", "call:d.Ident", "s:github.com/gogo/protobuf/proto", 
    "s:Message", "s:)); err != nil {", "call:d.P", "s:return nil, err", "call:d.P", "s:}", "call:d.P", 
    "s:return pbuf.Bytes(), nil", "call:d.P", "s:}", "call:d.P", "call:d.P", "s:func (", "call:d.EncodingName", 
    "s:) Unmarshal(buf []byte, msg ", "call:d.Ident", "s:storj.io/drpc", "s:Message", "s:) error {", 
    "call:d.P", "s:return ", "call:d.Ident", "s:github.com/gogo/protobuf/proto", "s:Unmarshal", 
    "s:(buf, msg.(", "call:d.Ident", "s:github.com/gogo/protobuf/proto", "s:Message", "s:))", "call:d.P", 
    "s:}", "call:d.P", "if", "call:d.P", "s:func (", "call:d.EncodingName", "s:) JSONMarshal(msg ", 
    "call:d.Ident", "s:storj.io/drpc", "s:Message", "s:) ([]byte, error) {", "call:d.P", "s:var buf ", 
    "call:d.Ident", "s:bytes", "s:Buffer", "call:d.P", "s:err := new(", "call:d.Ident", "s:github.com/gogo/protobuf/jsonpb", 
    "s:Marshaler", "s:).Marshal(&buf, msg.(", "call:d.Ident", "s:github.com/gogo/protobuf/proto", 
    "s:Message", "s:))", "call:d.P", "s:if err != nil {", "call:d.P", "s:return nil, err", "call:d.P", 
    "s:}", "call:d.P", "s:return buf.Bytes(), nil", "call:d.P", "s:}", "call:d.P", "call:d.P", 
    "s:func (", "call:d.EncodingName", "s:) JSONUnmarshal(buf []byte, msg ", "call:d.Ident", "s:storj.io/drpc", 
    "s:Message", "s:) error {", "call:d.P", "s:return ", "call:d.Ident", "s:github.com/gogo/protobuf/jsonpb", 
    "s:Unmarshal", "s:(", "call:d.Ident", "s:bytes", "s:NewReader", "s:(buf), msg.(", "call:d.Ident", 
    "s:github.com/gogo/protobuf/proto", "s:Message", "s:))", "call:d.P", "s:}", "call:d.P", "default", 
    "call:d.P", "s:func (", "call:d.EncodingName", "s:) Marshal(msg ", "call:d.Ident", "s:storj.io/drpc", 
    "s:Message", "s:) ([]byte, error) {", "call:d.P", "s:return ", "call:d.Ident", "s:Marshal", 
    "s:(msg)", "call:d.P", "s:}", "call:d.P", "call:d.P", "s:func (", "call:d.EncodingName", "s:) Unmarshal(buf []byte, msg ", 
    "call:d.Ident", "s:storj.io/drpc", "s:Message", "s:) error {", "call:d.P", "s:return ", "call:d.Ident", 
    "s:Unmarshal", "s:(buf, msg)", "call:d.P", "s:}", "call:d.P", "if", "call:d.P", "s:func (", 
    "call:d.EncodingName", "s:) JSONMarshal(msg ", "call:d.Ident", "s:storj.io/drpc", "s:Message", 
    "s:) ([]byte, error) {", "call:d.P", "s:return ", "call:d.Ident", "s:JSONMarshal", "s:(msg)", 
    "call:d.P", "s:}", "call:d.P", "call:d.P", "s:func (", "call:d.EncodingName", "s:) JSONUnmarshal(buf []byte, msg ", 
    "call:d.Ident", "s:storj.io/drpc", "s:Message", "s:) error {", "call:d.P", "s:return ", "call:d.Ident", 
    "s:JSONUnmarshal", "s:(buf, msg)", "call:d.P", "s:}", "call:d.P"]
def fp_cmd_protoc_gen_go_drpc_main_drpc_generateService : List String :=
  ["call:d.P", "s:type ", "call:d.ClientIface", "s: interface {", "call:d.P", "s:DRPCConn() ", 
    "call:d.Ident", "s:storj.io/drpc", "s:Conn", "call:d.P", "for", "call:d.P", "call:d.generateClientSignature", 
    "call:d.P", "s:}", "call:d.P", "call:d.P", "s:type ", "call:d.ClientImpl", "s: struct {", "call:d.P", 
    "s:cc ", "call:d.Ident", "s:storj.io/drpc", "s:Conn", "call:d.P", "s:}", "call:d.P", "call:d.P", 
    "s:func New", "call:d.ClientIface", "s:(cc ", "call:d.Ident", "s:storj.io/drpc", "s:Conn", 
    "s:) ", "call:d.ClientIface", "s: {", "call:d.P", "s:return &", "call:d.ClientImpl", "s:{cc}", 
    "call:d.P", "s:}", "call:d.P", "call:d.P", "s:func (c *", "call:d.ClientImpl", "s:) DRPCConn() ", 
    "call:d.Ident", "s:storj.io/drpc", "s:Conn", "s:{ return c.cc }", "call:d.P", "for", "call:d.generateClientMethod", 
    "call:d.P", "s:type ", "call:d.ServerIface", "s: interface {", "for", "call:d.P", "call:d.generateServerSignature", 
    "call:d.P", "s:}", "call:d.P", "call:d.P", "s:type ", "call:d.ServerUnimpl", "s: struct {}", 
    "call:d.P", "for", "call:d.generateUnimplementedServerMethod", "call:d.P", "call:d.P", "s:type ", 
    "call:d.ServerDesc", "s: struct{}", "call:d.P", "call:d.P", "s:func (", "call:d.ServerDesc", 
    "s:) NumMethods() int { return ", "call:len", "s: }", "call:d.P", "call:d.P", "s:func (", "call:d.ServerDesc", 
    "s:) Method(n int) (string, ", "call:d.Ident", "s:storj.io/drpc", "s:Encoding", "s:, ", "call:d.Ident", 
    "s:storj.io/drpc", "s:Receiver", "s:, interface{}, bool) {", "call:d.P", "s:switch n {", "for", 
    "call:d.P", "s:case ", "s::", "call:d.P", "s:return ", "call:d.RPCGoString", "s:, ", "call:d.EncodingName", 
    "s:{}, ", "call:d.generateServerReceiver", "call:d.P", "s:}, ", "call:d.ServerIface", "s:.", 
    "s:, true", "call:d.P", "s:default:", "call:d.P", "s:return \"\", nil, nil, nil, false", "call:d.P", 
    "s:}", "call:d.P", "s:}", "call:d.P", "call:d.P", "s:func DRPCRegister", "s:(mux ", "call:d.Ident", 
    "s:storj.io/drpc", "s:Mux", "s:, impl ", "call:d.ServerIface", "s:) error {", "call:d.P", "s:return mux.Register(impl, ", 
    "call:d.ServerDesc", "s:{})", "call:d.P", "s:}", "for", "call:d.generateServerMethod"]
def fp_cmd_protoc_gen_go_drpc_main_drpc_generateClientSignature : List String :=
  ["=reqArg", "+", "s:, in *", "call:d.InputType", "if", "call:method.Desc.IsStreamingClient", 
    "=reqArg", "s:", "=respName", "+", "s:*", "call:d.OutputType", "if", "||", "call:method.Desc.IsStreamingServer", 
    "call:method.Desc.IsStreamingClient", "=respName", "call:d.ClientStreamIface", "return", "call:fmt.Sprintf", 
    "s:%s(ctx %s%s) (%s, error)", "call:d.Ident", "s:context", "s:Context"]
def fp_cmd_protoc_gen_go_drpc_main_drpc_generateClientMethod : List String :=
  ["=recvType", "call:d.ClientImpl", "=outType", "call:d.OutputType", "=inType", "call:d.InputType", 
    "call:d.P", "s:func (c *", "s:) ", "call:d.generateClientSignature", "s:{", "if", "&&", "u!", 
    "call:method.Desc.IsStreamingServer", "u!", "call:method.Desc.IsStreamingClient", "call:d.P", 
    "s:out := new(", "s:)", "call:d.P", "s:err := c.cc.Invoke(ctx, ", "call:d.RPCGoString", "s:, ", 
    "call:d.EncodingName", "s:{}, in, out)", "call:d.P", "s:if err != nil { return nil, err }", 
    "call:d.P", "s:return out, nil", "call:d.P", "s:}", "call:d.P", "return", "call:d.P", "s:stream, err := c.cc.NewStream(ctx, ", 
    "call:d.RPCGoString", "s:, ", "call:d.EncodingName", "s:{})", "call:d.P", "s:if err != nil { return nil, err }", 
    "call:d.P", "s:x := &", "call:d.ClientStreamImpl", "s:{stream}", "if", "u!", "call:method.Desc.IsStreamingClient", 
    "call:d.P", "s:if err := x.MsgSend(in, ", "call:d.EncodingName", "s:{}); err != nil { return nil, err }", 
    "call:d.P", "s:if err := x.CloseSend(); err != nil { return nil, err }", "call:d.P", "s:return x, nil", 
    "call:d.P", "s:}", "call:d.P", "=genSend", "call:method.Desc.IsStreamingClient", "=genRecv", 
    "call:method.Desc.IsStreamingServer", "=genCloseAndRecv", "u!", "call:method.Desc.IsStreamingServer", 
    "call:d.P", "s:type ", "call:d.ClientStreamIface", "s: interface {", "call:d.P", "call:d.Ident", 
    "s:storj.io/drpc", "s:Stream", "if", "call:d.P", "s:Send(*", "s:) error", "if", "call:d.P", 
    "s:Recv() (*", "s:, error)", "if", "call:d.P", "s:CloseAndRecv() (*", "s:, error)", "call:d.P", 
    "s:}", "call:d.P", "call:d.P", "s:type ", "call:d.ClientStreamImpl", "s: struct {", "call:d.P", 
    "call:d.Ident", "s:storj.io/drpc", "s:Stream", "call:d.P", "s:}", "call:d.P", "call:d.P", "s:func (x *", 
    "call:d.ClientStreamImpl", "s:) GetStream() ", "call:d.Ident", "s:storj.io/drpc", "s:Stream", 
    "s: {", "call:d.P", "s:return x.Stream", "call:d.P", "s:}", "call:d.P", "if", "call:d.P", "s:func (x *", 
    "call:d.ClientStreamImpl", "s:) Send(m *", "s:) error {", "call:d.P", "s:return x.MsgSend(m, ", 
    "call:d.EncodingName", "s:{})", "call:d.P", "s:}", "call:d.P", "if", "call:d.P", "s:func (x *", 
    "call:d.ClientStreamImpl", "s:) Recv() (*", "s:, error) {", "call:d.P", "s:m := new(", "s:)", 
    "call:d.P", "s:if err := x.MsgRecv(m, ", "call:d.EncodingName", "s:{}); err != nil { return nil, err }", 
    "call:d.P", "s:return m, nil", "call:d.P", "s:}", "call:d.P", "call:d.P", "s:func (x *", "call:d.ClientStreamImpl", 
    "s:) RecvMsg(m *", "s:) error {", "call:d.P", "s:return x.MsgRecv(m, ", "call:d.EncodingName", 
    "s:{})", "call:d.P", "s:}", "call:d.P", "if", "call:d.P", "s:func (x *", "call:d.ClientStreamImpl", 
    "s:) CloseAndRecv() (*", "s:, error) {", "call:d.P", "s:if err := x.CloseSend(); err != nil { return nil, err }", 
    "call:d.P", "s:m := new(", "s:)", "call:d.P", "s:if err := x.MsgRecv(m, ", "call:d.EncodingName", 
    "s:{}); err != nil { return nil, err }", "call:d.P", "s:return m, nil", "call:d.P", "s:}", 
    "call:d.P", "call:d.P", "s:func (x *", "call:d.ClientStreamImpl", "s:) CloseAndRecvMsg(m *", 
    "s:) error {", "call:d.P", "s:if err := x.CloseSend(); err != nil { return err }", "call:d.P", 
    "s:return x.MsgRecv(m, ", "call:d.EncodingName", "s:{})", "call:d.P", "s:}", "call:d.P"]
def fp_cmd_protoc_gen_go_drpc_main_drpc_generateServerSignature : List String :=
  ["=ret", "s:error", "if", "&&", "u!", "call:method.Desc.IsStreamingServer", "u!", "call:method.Desc.IsStreamingClient", 
    "=reqArgs", "call:append", "call:d.Ident", "s:context", "s:Context", "=ret", "+", "+", "s:(*", 
    "call:d.OutputType", "s:, error)", "if", "u!", "call:method.Desc.IsStreamingClient", "=reqArgs", 
    "call:append", "+", "s:*", "call:d.InputType", "if", "||", "call:method.Desc.IsStreamingServer", 
    "call:method.Desc.IsStreamingClient", "=reqArgs", "call:append", "call:d.ServerStreamIface", 
    "return", "+", "+", "+", "+", "s:(", "call:strings.Join", "s:, ", "s:) "]
def fp_cmd_protoc_gen_go_drpc_main_drpc_generateUnimplementedServerMethod : List String :=
  ["call:d.P", "s:func (s *", "call:d.ServerUnimpl", "s:) ", "call:d.generateServerSignature", 
    "s: {", "if", "&&", "u!", "call:method.Desc.IsStreamingServer", "u!", "call:method.Desc.IsStreamingClient", 
    "call:d.P", "s:return nil, ", "call:d.Ident", "s:storj.io/drpc/drpcerr", "s:WithCode", "s:(", 
    "call:d.Ident", "s:errors", "s:New", "s:(\"Unimplemented\"), ", "call:d.Ident", "s:storj.io/drpc/drpcerr", 
    "s:Unimplemented", "s:)", "call:d.P", "s:return ", "call:d.Ident", "s:storj.io/drpc/drpcerr", 
    "s:WithCode", "s:(", "call:d.Ident", "s:errors", "s:New", "s:(\"Unimplemented\"), ", "call:d.Ident", 
    "s:storj.io/drpc/drpcerr", "s:Unimplemented", "s:)", "call:d.P", "s:}", "call:d.P"]
def fp_cmd_protoc_gen_go_drpc_main_drpc_generateServerReceiver : List String :=
  ["call:d.P", "s:func (srv interface{}, ctx ", "call:d.Ident", "s:context", "s:Context", "s:, in1, in2 interface{}) (", 
    "call:d.Ident", "s:storj.io/drpc", "s:Message", "s:, error) {", "if", "&&", "u!", "call:method.Desc.IsStreamingServer", 
    "u!", "call:method.Desc.IsStreamingClient", "call:d.P", "s:return srv.(", "call:d.ServerIface", 
    "s:).", "call:d.P", "s:return nil, srv.(", "call:d.ServerIface", "s:).", "call:d.P", "s:(", 
    "=n", "1", "if", "&&", "u!", "call:method.Desc.IsStreamingServer", "u!", "call:method.Desc.IsStreamingClient", 
    "call:d.P", "s:ctx,", "if", "u!", "call:method.Desc.IsStreamingClient", "call:d.P", "s:in", 
    "s:.(*", "call:d.InputType", "s:),", "++", "if", "||", "call:method.Desc.IsStreamingServer", 
    "call:method.Desc.IsStreamingClient", "call:d.P", "s:&", "call:d.ServerStreamImpl", "s:{in", 
    "s:.(", "call:d.Ident", "s:storj.io/drpc", "s:Stream", "s:)},", "call:d.P", "s:)"]
def fp_cmd_protoc_gen_go_drpc_main_drpc_generateServerMethod : List String :=
  ["=genSend", "call:method.Desc.IsStreamingServer", "=genSendAndClose", "u!", "call:method.Desc.IsStreamingServer", 
    "=genRecv", "call:method.Desc.IsStreamingClient", "call:d.P", "s:type ", "call:d.ServerStreamIface", 
    "s: interface {", "call:d.P", "call:d.Ident", "s:storj.io/drpc", "s:Stream", "if", "call:d.P", 
    "s:Send(*", "call:d.OutputType", "s:) error", "if", "call:d.P", "s:SendAndClose(*", "call:d.OutputType", 
    "s:) error", "if", "call:d.P", "s:Recv() (*", "call:d.InputType", "s:, error)", "call:d.P", 
    "s:}", "call:d.P", "call:d.P", "s:type ", "call:d.ServerStreamImpl", "s: struct {", "call:d.P", 
    "call:d.Ident", "s:storj.io/drpc", "s:Stream", "call:d.P", "s:}", "call:d.P", "call:d.P", "s:func (x *", 
    "call:d.ServerStreamImpl", "s:) GetStream() ", "call:d.Ident", "s:storj.io/drpc", "s:Stream", 
    "s: {", "call:d.P", "s:return x.Stream", "call:d.P", "s:}", "call:d.P", "if", "call:d.P", "s:func (x *", 
    "call:d.ServerStreamImpl", "s:) Send(m *", "call:d.OutputType", "s:) error {", "call:d.P", 
    "s:return x.MsgSend(m, ", "call:d.EncodingName", "s:{})", "call:d.P", "s:}", "call:d.P", "if", 
    "call:d.P", "s:func (x *", "call:d.ServerStreamImpl", "s:) SendAndClose(m *", "call:d.OutputType", 
    "s:) error {", "call:d.P", "s:if err := x.MsgSend(m, ", "call:d.EncodingName", "s:{}); err != nil { return err }", 
    "call:d.P", "s:return x.CloseSend()", "call:d.P", "s:}", "call:d.P", "if", "call:d.P", "s:func (x *", 
    "call:d.ServerStreamImpl", "s:) Recv() (*", "call:d.InputType", "s:, error) {", "call:d.P", 
    "s:m := new(", "call:d.InputType", "s:)", "call:d.P", "s:if err := x.MsgRecv(m, ", "call:d.EncodingName", 
    "s:{}); err != nil { return nil, err }", "call:d.P", "s:return m, nil", "call:d.P", "s:}", 
    "call:d.P", "call:d.P", "s:func (x *", "call:d.ServerStreamImpl", "s:) RecvMsg(m *", "call:d.InputType", 
    "s:) error {", "call:d.P", "s:return x.MsgRecv(m, ", "call:d.EncodingName", "s:{})", "call:d.P", 
    "s:}", "call:d.P"]

def twirpStatus : List (String × Nat) := [("canceled", 408), ("unknown", 500), ("invalid_argument", 400), ("malformed", 400), ("deadline_exceeded", 408), ("not_found", 404), ("bad_route", 404), ("already_exists", 409), ("permission_denied", 403), ("unauthenticated", 401), ("resource_exhausted", 429), ("failed_precondition", 412), ("aborted", 409), ("out_of_range", 400), ("unimplemented", 501), ("internal", 500), ("unavailable", 503), ("dataloss", 500)]
def defaultProtocols : List (String × String) := [("*", "twirpProtocol ct=application/proto marshal=protoMarshal unmarshal=protoUnmarshal"),
  ("application/grpc-web+json", "grpcWebProtocol ct=application/grpc-web+json read=grpcRead write=normalWrite marshal=JSONMarshal unmarshal=JSONUnmarshal"),
  ("application/grpc-web+proto", "grpcWebProtocol ct=application/grpc-web+proto read=grpcRead write=normalWrite marshal=protoMarshal unmarshal=protoUnmarshal"),
  ("application/grpc-web-text+json", "grpcWebProtocol ct=application/grpc-web-text+json read=base64Read(grpcRead) write=base64Write(normalWrite) marshal=JSONMarshal unmarshal=JSONUnmarshal"),
  ("application/grpc-web-text+proto", "grpcWebProtocol ct=application/grpc-web-text+proto read=base64Read(grpcRead) write=base64Write(normalWrite) marshal=protoMarshal unmarshal=protoUnmarshal"),
  ("application/json", "twirpProtocol ct=application/json marshal=JSONMarshal unmarshal=JSONUnmarshal"),
  ("application/proto", "twirpProtocol ct=application/proto marshal=protoMarshal unmarshal=protoUnmarshal")]
def nlSpace : List String := ["\n", " ", "\r", " "]
def streamSentinels : List (String × String) := [("sendClosed", "drpc.Error.New:send closed"), ("termError", "drpc.Error.New:stream terminated by sending error"), ("termClosed", "drpc.Error.New:stream terminated by sending close"), ("termBothClosed", "drpc.Error.New:stream terminated by both issuing close send")]
def stateEdges : List (String × String × String) := [("open", "CloseSend", "send-closed"),
  ("open", "RecvCloseSend", "recv-closed"),
  ("open", "Close", "terminated"),
  ("open", "SendError", "terminated"),
  ("open", "Cancel", "canceled"),
  ("open", "MsgSend", "open"),
  ("open", "MsgRecv", "open"),
  ("send-closed", "Close", "terminated"),
  ("send-closed", "SendError", "terminated"),
  ("send-closed", "RecvCloseSend", "terminated"),
  ("send-closed", "Cancel", "canceled"),
  ("send-closed", "MsgRecv", "send-closed"),
  ("recv-closed", "Close", "terminated"),
  ("recv-closed", "SendError", "terminated"),
  ("recv-closed", "CloseSend", "terminated"),
  ("recv-closed", "Cancel", "canceled"),
  ("recv-closed", "MsgSend", "recv-closed"),
  ("canceled", "Quiescence", "finished"),
  ("terminated", "Quiescence", "finished")]
def drpcHeader : String := "DRPC!!!1"

end Drpc.Expected
