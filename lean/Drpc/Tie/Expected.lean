/- Reviewed expectations: a frozen copy of tools/extract output for the tree the model was written against (tools/mk_expected.sh). -/
namespace Drpc.Expected

def maxFrameOverhead : Nat := 31
def httpMaxSize : Nat := 4194304
def statusErrorSet : Nat := 2
def statusChannelCreated : Nat := 1
def errUnimplemented : Nat := 12
def kinds : List (String × Nat) := [("KindInvoke", 1), ("KindMessage", 2), ("KindError", 3), ("KindCancel", 4), ("KindClose", 5), ("KindCloseSend", 6), ("KindInvokeMetadata", 7)]

def fp_drpcwire_varint_ReadVarint : List String :=
  ["=rem", "id:rem", "id:buf", "for", "=shift", "id:shift", "call:uint", "id:uint", "0", "<", 
    "id:shift", "64", "+=", "id:shift", "7", "if", "==", "call:len", "id:len", "id:rem", "0", "return", 
    "id:buf", "0", "id:false", "id:nil", "=val", "id:val", "call:uint64", "id:uint64", "index", 
    "id:rem", "0", "=out", "=rem", "id:out", "id:rem", "|", "id:out", "<<", "&", "id:val", "127", 
    "id:shift", "slice", "id:rem", "1", "if", "<", "id:val", "128", "return", "id:rem", "id:out", 
    "id:true", "id:nil", "return", "id:rem", "0", "id:false", "call:drpc.Error.New", "id:drpc", 
    "id:Error", "id:New", "s:varint too long"]
def fp_drpcwire_varint_AppendVarint : List String :=
  ["for", ">=", "id:x", "128", "=buf", "id:buf", "call:append", "id:append", "id:buf", "call:byte", 
    "id:byte", "|", "&", "id:x", "127", "128", ">>=", "id:x", "7", "return", "call:append", "id:append", 
    "id:buf", "call:byte", "id:byte", "id:x"]
def fp_drpcwire_packet_ParseFrame : List String :=
  ["id:length", "id:uint64", "id:control", "id:byte", "if", "<", "call:len", "id:len", "id:buf", 
    "4", "goto", "id:bad", "=rem", "=control", "id:rem", "id:control", "slice", "id:buf", "1", 
    "index", "id:buf", "0", "=fr.Done", "id:fr", "id:Done", ">", "&", "id:control", "1", "0", "=fr.Control", 
    "id:fr", "id:Control", ">", "&", "id:control", "128", "0", "=fr.Kind", "id:fr", "id:Kind", 
    "call:Kind", "id:Kind", ">>", "&", "id:control", "126", "1", "=rem", "=fr.ID.Stream", "=ok", 
    "=err", "id:rem", "id:fr", "id:ID", "id:Stream", "id:ok", "id:err", "call:ReadVarint", "id:ReadVarint", 
    "id:rem", "if", "||", "u!", "id:ok", "!=", "id:err", "id:nil", "goto", "id:bad", "=rem", "=fr.ID.Message", 
    "=ok", "=err", "id:rem", "id:fr", "id:ID", "id:Message", "id:ok", "id:err", "call:ReadVarint", 
    "id:ReadVarint", "id:rem", "if", "||", "u!", "id:ok", "!=", "id:err", "id:nil", "goto", "id:bad", 
    "=rem", "=length", "=ok", "=err", "id:rem", "id:length", "id:ok", "id:err", "call:ReadVarint", 
    "id:ReadVarint", "id:rem", "if", "||", "||", "u!", "id:ok", "!=", "id:err", "id:nil", ">", 
    "id:length", "call:uint64", "id:uint64", "call:len", "id:len", "id:rem", "goto", "id:bad", 
    "=rem", "=fr.Data", "id:rem", "id:fr", "id:Data", "slice", "id:rem", "id:length", "slice", 
    "id:rem", "id:length", "return", "id:rem", "id:fr", "id:true", "id:nil", "id:bad", "return", 
    "id:buf", "id:fr", "id:false", "id:err"]
def fp_drpcwire_packet_AppendFrame : List String :=
  ["=control", "id:control", "call:byte", "id:byte", "<<", "id:fr", "id:Kind", "1", "if", "id:fr", 
    "id:Done", "|=", "id:control", "1", "if", "id:fr", "id:Control", "|=", "id:control", "128", 
    "=out", "id:out", "id:buf", "=out", "id:out", "call:append", "id:append", "id:out", "id:control", 
    "=out", "id:out", "call:AppendVarint", "id:AppendVarint", "id:out", "id:fr", "id:ID", "id:Stream", 
    "=out", "id:out", "call:AppendVarint", "id:AppendVarint", "id:out", "id:fr", "id:ID", "id:Message", 
    "=out", "id:out", "call:AppendVarint", "id:AppendVarint", "id:out", "call:uint64", "id:uint64", 
    "call:len", "id:len", "id:fr", "id:Data", "=out", "id:out", "call:append", "id:append", "id:out", 
    "id:fr", "id:Data", "return", "id:out"]
def fp_drpcwire_packet_ID_Less : List String :=
  ["return", "||", "<", "id:i", "id:Stream", "id:j", "id:Stream", "&&", "==", "id:i", "id:Stream", 
    "id:j", "id:Stream", "<", "id:i", "id:Message", "id:j", "id:Message"]
def fp_drpcwire_split_SplitN : List String :=
  ["for", "=fr", "id:fr", "id:Frame", "id:Data", "id:pkt", "id:Data", "id:ID", "id:pkt", "id:ID", 
    "id:Kind", "id:pkt", "id:Kind", "id:Control", "id:pkt", "id:Control", "id:Done", "id:true", 
    "=fr.Data", "=pkt.Data", "id:fr", "id:Data", "id:pkt", "id:Data", "call:SplitData", "id:SplitData", 
    "id:pkt", "id:Data", "id:n", "=fr.Done", "id:fr", "id:Done", "==", "call:len", "id:len", "id:pkt", 
    "id:Data", "0", "if", "=err", "id:err", "call:cb", "id:cb", "id:fr", "!=", "id:err", "id:nil", 
    "return", "id:err", "if", "id:fr", "id:Done", "return", "id:nil"]
def fp_drpcwire_split_SplitData : List String :=
  ["switch", "case", "==", "id:n", "0", "=n", "id:n", "*", "64", "1024", "case", "<", "id:n", 
    "0", "=n", "id:n", "0", "if", "&&", ">", "call:len", "id:len", "id:buf", "id:n", ">", "id:n", 
    "0", "return", "slice", "id:buf", "id:n", "slice", "id:buf", "id:n", "return", "id:buf", "id:nil"]
def fp_drpcwire_reader_NewReaderWithOptions : List String :=
  ["if", "==", "id:opts", "id:MaximumBufferSize", "0", "=opts.MaximumBufferSize", "id:opts", "id:MaximumBufferSize", 
    "<<", "4", "20", "return", "u&", "id:Reader", "id:opts", "id:opts", "id:r", "id:r", "id:curr", 
    "call:make", "id:make", "id:byte", "0", "4096", "id:id", "id:ID", "id:Stream", "1", "id:Message", 
    "1"]
def fp_drpcwire_reader_Reader_read : List String :=
  ["for", "=i", "id:i", "0", "<", "id:i", "100", "++", "id:i", "if", "!=", "id:r", "id:rerr", 
    "id:nil", "=r.rerr", "=err", "id:r", "id:rerr", "id:err", "id:nil", "id:r", "id:rerr", "return", 
    "0", "id:err", "=n", "=r.rerr", "id:n", "id:r", "id:rerr", "call:r.r.Read", "id:r", "id:r", 
    "id:Read", "id:p", "if", ">", "id:n", "0", "return", "id:n", "id:nil", "return", "0", "call:drpc.InternalError.Wrap", 
    "id:drpc", "id:InternalError", "id:Wrap", "id:io", "id:ErrNoProgress"]
def fp_drpcwire_reader_Reader_ReadPacketUsing : List String :=
  ["=pkt.Data", "id:pkt", "id:Data", "slice", "id:buf", "0", "id:fr", "id:Frame", "id:ok", "id:bool", 
    "for", "=r.curr", "=fr", "=ok", "=err", "id:r", "id:curr", "id:fr", "id:ok", "id:err", "call:ParseFrame", 
    "id:ParseFrame", "id:r", "id:curr", "switch", "case", "!=", "id:err", "id:nil", "return", "id:Packet", 
    "call:drpc.ProtocolError.Wrap", "id:drpc", "id:ProtocolError", "id:Wrap", "id:err", "case", 
    "u!", "id:ok", "if", ">", "-", "call:len", "id:len", "id:r", "id:curr", "maxFrameOverhead=31", 
    "id:maxFrameOverhead", "id:r", "id:opts", "id:MaximumBufferSize", "return", "id:Packet", "call:drpc.ProtocolError.New", 
    "id:drpc", "id:ProtocolError", "id:New", "s:data overflow", "if", "==", "call:len", "id:len", 
    "id:r", "id:buf", "0", "=r.buf", "id:r", "id:buf", "call:append", "id:append", "slice", "id:r", 
    "id:buf", "0", "id:r", "id:curr", "if", "<", "-", "call:cap", "id:cap", "id:r", "id:buf", "call:len", 
    "id:len", "id:r", "id:buf", "4096", "=nbuf", "id:nbuf", "call:make", "id:make", "id:byte", 
    "call:len", "id:len", "id:r", "id:buf", "+", "*", "2", "call:cap", "id:cap", "id:r", "id:buf", 
    "4096", "call:copy", "id:copy", "id:nbuf", "id:r", "id:buf", "=r.buf", "id:r", "id:buf", "id:nbuf", 
    "=n", "=err", "id:n", "id:err", "call:r.read", "id:r", "id:read", "slice", "id:r", "id:buf", 
    "call:len", "id:len", "id:r", "id:buf", "call:cap", "id:cap", "id:r", "id:buf", "if", "!=", 
    "id:err", "id:nil", "return", "id:Packet", "id:err", "=ncap", "id:ncap", "call:uint", "id:uint", 
    "+", "call:len", "id:len", "id:r", "id:buf", "id:n", "if", ">", "id:ncap", "call:uint", "id:uint", 
    "call:cap", "id:cap", "id:r", "id:buf", "return", "id:Packet", "call:drpc.ProtocolError.New", 
    "id:drpc", "id:ProtocolError", "id:New", "s:data overflow", "=r.buf", "id:r", "id:buf", "slice", 
    "id:r", "id:buf", "id:ncap", "=r.curr", "id:r", "id:curr", "id:r", "id:buf", "continue", "if", 
    ">", "call:len", "id:len", "id:r", "id:buf", "0", "=r.buf", "id:r", "id:buf", "slice", "id:r", 
    "id:buf", "0", "=pkt.Control", "id:pkt", "id:Control", "||", "id:pkt", "id:Control", "id:fr", 
    "id:Control", "switch", "case", "call:fr.ID.Less", "id:fr", "id:ID", "id:Less", "id:r", "id:id", 
    "return", "id:Packet", "call:drpc.ProtocolError.New", "id:drpc", "id:ProtocolError", "id:New", 
    "s:id monotonicity violation (fr:%v r:%v)", "id:fr", "id:ID", "id:r", "id:id", "case", "||", 
    "!=", "id:r", "id:id", "id:fr", "id:ID", "==", "id:pkt", "id:ID", "id:ID", "=r.id", "id:r", 
    "id:id", "id:fr", "id:ID", "=pkt", "id:pkt", "id:Packet", "id:Data", "slice", "id:pkt", "id:Data", 
    "0", "id:ID", "id:fr", "id:ID", "id:Kind", "id:fr", "id:Kind", "id:Control", "id:fr", "id:Control", 
    "case", "!=", "id:fr", "id:Kind", "id:pkt", "id:Kind", "return", "id:Packet", "call:drpc.ProtocolError.New", 
    "id:drpc", "id:ProtocolError", "id:New", "s:packet kind change (fr:%v pkt:%v)", "id:fr", "id:Kind", 
    "id:pkt", "id:Kind", "=pkt.Data", "id:pkt", "id:Data", "call:append", "id:append", "id:pkt", 
    "id:Data", "id:fr", "id:Data", "switch", "case", ">", "call:len", "id:len", "id:pkt", "id:Data", 
    "id:r", "id:opts", "id:MaximumBufferSize", "return", "id:Packet", "call:drpc.ProtocolError.New", 
    "id:drpc", "id:ProtocolError", "id:New", "s:data overflow (len:%v)", "call:len", "id:len", 
    "id:pkt", "id:Data", "case", "id:fr", "id:Done", "++", "id:r", "id:id", "id:Message", "return", 
    "id:pkt", "id:nil"]
def fp_drpcwire_writer_NewWriter : List String :=
  ["if", "==", "id:size", "0", "=size", "id:size", "*", "4", "1024", "return", "u&", "id:Writer", 
    "id:w", "id:w", "id:size", "id:size", "id:buf", "call:make", "id:make", "id:byte", "0", "id:size"]
def fp_drpcwire_writer_Writer_WriteFrame : List String :=
  ["call:b.mu.Lock", "id:b", "id:mu", "id:Lock", "defer", "call:b.mu.Unlock", "id:b", "id:mu", 
    "id:Unlock", "if", "==", "call:len", "id:len", "id:b", "id:buf", "0", "call:atomic.StoreUint32", 
    "id:atomic", "id:StoreUint32", "u&", "id:b", "id:empty", "1", "=b.buf", "id:b", "id:buf", "call:AppendFrame", 
    "id:AppendFrame", "id:b", "id:buf", "id:fr", "if", ">=", "call:len", "id:len", "id:b", "id:buf", 
    "id:b", "id:size", "call:b.log", "id:b", "id:log", "s:FLUSH", "id:string", "return", "call:fmt.Sprintf", 
    "id:fmt", "id:Sprintf", "s:buffer: %d > %d", "call:len", "id:len", "id:b", "id:buf", "id:b", 
    "id:size", "=_", "=err", "id:_", "id:err", "call:b.w.Write", "id:b", "id:w", "id:Write", "id:b", 
    "id:buf", "=b.buf", "id:b", "id:buf", "slice", "id:b", "id:buf", "0", "call:atomic.StoreUint32", 
    "id:atomic", "id:StoreUint32", "u&", "id:b", "id:empty", "0", "return", "id:err"]
def fp_drpcwire_writer_Writer_Flush : List String :=
  ["call:b.mu.Lock", "id:b", "id:mu", "id:Lock", "defer", "call:b.mu.Unlock", "id:b", "id:mu", 
    "id:Unlock", "if", ">", "call:len", "id:len", "id:b", "id:buf", "0", "=_", "=err", "id:_", 
    "id:err", "call:b.w.Write", "id:b", "id:w", "id:Write", "id:b", "id:buf", "call:b.log", "id:b", 
    "id:log", "s:FLUSH", "id:string", "return", "call:fmt.Sprintf", "id:fmt", "id:Sprintf", "s:explicit: %d", 
    "call:len", "id:len", "id:b", "id:buf", "=b.buf", "id:b", "id:buf", "slice", "id:b", "id:buf", 
    "0", "call:atomic.StoreUint32", "id:atomic", "id:StoreUint32", "u&", "id:b", "id:empty", "0", 
    "return", "id:err"]
def fp_drpcwire_writer_Writer_Reset : List String :=
  ["call:b.mu.Lock", "id:b", "id:mu", "id:Lock", "defer", "call:b.mu.Unlock", "id:b", "id:mu", 
    "id:Unlock", "=b.buf", "id:b", "id:buf", "slice", "id:b", "id:buf", "0", "call:atomic.StoreUint32", 
    "id:atomic", "id:StoreUint32", "u&", "id:b", "id:empty", "0", "return", "id:b"]
def fp_drpcwire_writer_Writer_Empty : List String :=
  ["return", "==", "call:atomic.LoadUint32", "id:atomic", "id:LoadUint32", "u&", "id:b", "id:empty", 
    "0"]
def fp_drpcwire_writer_Writer_WritePacket : List String :=
  ["return", "call:b.WriteFrame", "id:b", "id:WriteFrame", "id:Frame", "id:Data", "id:pkt", "id:Data", 
    "id:ID", "id:pkt", "id:ID", "id:Kind", "id:pkt", "id:Kind", "id:Control", "id:pkt", "id:Control", 
    "id:Done", "id:true"]
def fp_drpcwire_error_MarshalError : List String :=
  ["id:buf", "8", "id:byte", "call:binary.BigEndian.PutUint64", "id:binary", "id:BigEndian", "id:PutUint64", 
    "slice", "id:buf", "call:drpcerr.Code", "id:drpcerr", "id:Code", "id:err", "return", "call:append", 
    "id:append", "slice", "id:buf", "call:err.Error", "id:err", "id:Error"]
def fp_drpcwire_error_UnmarshalError : List String :=
  ["if", "<", "call:len", "id:len", "id:data", "8", "return", "call:errs.New", "id:errs", "id:New", 
    "s:%s (drpcwire note: invalid error data)", "id:data", "return", "call:drpcerr.WithCode", "id:drpcerr", 
    "id:WithCode", "call:errs.New", "id:errs", "id:New", "s:%s", "slice", "id:data", "8", "call:binary.BigEndian.Uint64", 
    "id:binary", "id:BigEndian", "id:Uint64", "slice", "id:data", "8"]
def fp_drpcerr_err_Code : List String :=
  ["for", "=i", "id:i", "0", "<", "id:i", "100", "++", "id:i", "=prev", "id:prev", "id:err", "switch", 
    "=v", "id:v", "id:err", "case", "id:Code", "id:uint64", "return", "call:v.Code", "id:v", "id:Code", 
    "case", "id:Cause", "id:error", "=err", "id:err", "call:v.Cause", "id:v", "id:Cause", "case", 
    "id:Unwrap", "id:error", "=err", "id:err", "call:v.Unwrap", "id:v", "id:Unwrap", "default", 
    "return", "0", "if", "call:shallowEqual", "id:shallowEqual", "id:err", "id:prev", "return", 
    "0", "return", "0"]
def fp_drpcerr_err_WithCode : List String :=
  ["if", "||", "==", "id:err", "id:nil", "==", "id:code", "0", "return", "id:err", "return", "u&", 
    "id:codeErr", "id:err", "id:err", "id:code", "id:code"]
def fp_drpcmetadata_serialize_varintSize : List String :=
  ["return", "/", "+", "*", "9", "call:uint64", "id:uint64", "call:bits.Len64", "id:bits", "id:Len64", 
    "id:n", "64", "64"]
def fp_drpcmetadata_serialize_encodedStringSize : List String :=
  ["return", "+", "+", "1", "call:varintSize", "id:varintSize", "call:uint64", "id:uint64", "call:len", 
    "id:len", "id:x", "call:uint64", "id:uint64", "call:len", "id:len", "id:x"]
def fp_drpcmetadata_serialize_appendEntry : List String :=
  ["=buf", "id:buf", "call:append", "id:append", "id:buf", "10", "=buf", "id:buf", "call:drpcwire.AppendVarint", 
    "id:drpcwire", "id:AppendVarint", "id:buf", "+", "call:encodedStringSize", "id:encodedStringSize", 
    "id:key", "call:encodedStringSize", "id:encodedStringSize", "id:value", "=buf", "id:buf", "call:append", 
    "id:append", "id:buf", "10", "=buf", "id:buf", "call:drpcwire.AppendVarint", "id:drpcwire", 
    "id:AppendVarint", "id:buf", "call:uint64", "id:uint64", "call:len", "id:len", "id:key", "=buf", 
    "id:buf", "call:append", "id:append", "id:buf", "id:key", "=buf", "id:buf", "call:append", 
    "id:append", "id:buf", "18", "=buf", "id:buf", "call:drpcwire.AppendVarint", "id:drpcwire", 
    "id:AppendVarint", "id:buf", "call:uint64", "id:uint64", "call:len", "id:len", "id:value", 
    "=buf", "id:buf", "call:append", "id:append", "id:buf", "id:value", "return", "id:buf"]
def fp_drpcmetadata_serialize_readEntry : List String :=
  ["id:length", "id:uint64", "if", "||", "<", "call:len", "id:len", "id:buf", "1", "!=", "index", 
    "id:buf", "0", "10", "goto", "id:bad", "=buf", "=length", "=ok", "=err", "id:buf", "id:length", 
    "id:ok", "id:err", "call:drpcwire.ReadVarint", "id:drpcwire", "id:ReadVarint", "slice", "id:buf", 
    "1", "if", "||", "||", "u!", "id:ok", "!=", "id:err", "id:nil", ">", "id:length", "call:uint64", 
    "id:uint64", "call:len", "id:len", "id:buf", "goto", "id:bad", "=key", "=value", "=ok", "=err", 
    "id:key", "id:value", "id:ok", "id:err", "call:readKeyValue", "id:readKeyValue", "slice", "id:buf", 
    "id:length", "if", "||", "u!", "id:ok", "!=", "id:err", "id:nil", "goto", "id:bad", "return", 
    "slice", "id:buf", "id:length", "id:key", "id:value", "id:true", "id:nil", "id:bad", "return", 
    "id:nil", "id:nil", "id:nil", "id:false", "id:err"]
def fp_drpcmetadata_serialize_readKeyValue : List String :=
  ["id:length", "id:uint64", "if", "||", "<", "call:len", "id:len", "id:buf", "1", "!=", "index", 
    "id:buf", "0", "10", "goto", "id:bad", "=buf", "=length", "=ok", "=err", "id:buf", "id:length", 
    "id:ok", "id:err", "call:drpcwire.ReadVarint", "id:drpcwire", "id:ReadVarint", "slice", "id:buf", 
    "1", "if", "||", "||", "u!", "id:ok", "!=", "id:err", "id:nil", ">", "id:length", "call:uint64", 
    "id:uint64", "call:len", "id:len", "id:buf", "goto", "id:bad", "=buf", "=key", "id:buf", "id:key", 
    "slice", "id:buf", "id:length", "slice", "id:buf", "id:length", "if", "||", "<", "call:len", 
    "id:len", "id:buf", "1", "!=", "index", "id:buf", "0", "18", "goto", "id:bad", "=buf", "=length", 
    "=ok", "=err", "id:buf", "id:length", "id:ok", "id:err", "call:drpcwire.ReadVarint", "id:drpcwire", 
    "id:ReadVarint", "slice", "id:buf", "1", "if", "||", "||", "u!", "id:ok", "!=", "id:err", "id:nil", 
    ">", "id:length", "call:uint64", "id:uint64", "call:len", "id:len", "id:buf", "goto", "id:bad", 
    "=buf", "=value", "id:buf", "id:value", "slice", "id:buf", "id:length", "slice", "id:buf", 
    "id:length", "if", "!=", "call:len", "id:len", "id:buf", "0", "goto", "id:bad", "return", "id:key", 
    "id:value", "id:true", "id:nil", "id:bad", "return", "id:nil", "id:nil", "id:false", "id:err"]
def fp_drpcmetadata_metadata_Encode : List String :=
  ["for", "id:key", "id:value", "id:metadata", "=buf", "id:buf", "call:appendEntry", "id:appendEntry", 
    "id:buf", "id:key", "id:value", "return", "id:buf", "id:nil"]
def fp_drpcmetadata_metadata_Decode : List String :=
  ["id:out", "id:string", "id:string", "id:key", "id:value", "id:byte", "id:ok", "id:bool", "id:err", 
    "id:error", "for", ">", "call:len", "id:len", "id:buf", "0", "=buf", "=key", "=value", "=ok", 
    "=err", "id:buf", "id:key", "id:value", "id:ok", "id:err", "call:readEntry", "id:readEntry", 
    "id:buf", "if", "!=", "id:err", "id:nil", "return", "id:nil", "id:err", "if", "u!", "id:ok", 
    "return", "id:nil", "call:errs.New", "id:errs", "id:New", "s:invalid data", "if", "==", "id:out", 
    "id:nil", "=out", "id:out", "call:make", "id:make", "id:string", "id:string", "=out", "index", 
    "id:out", "call:string", "id:string", "id:key", "call:string", "id:string", "id:value", "return", 
    "id:out", "id:nil"]
def fp_drpcmetadata_metadata_AddPairs : List String :=
  ["for", "id:key", "id:val", "id:metadata", "=ctx", "id:ctx", "call:Add", "id:Add", "id:ctx", 
    "id:key", "id:val", "return", "id:ctx"]
def fp_drpcmetadata_metadata_Add : List String :=
  ["=metadata", "=ok", "id:metadata", "id:ok", "call:Get", "id:Get", "id:ctx", "if", "u!", "id:ok", 
    "=metadata", "id:metadata", "call:make", "id:make", "id:string", "id:string", "=ctx", "id:ctx", 
    "call:context.WithValue", "id:context", "id:WithValue", "id:ctx", "id:metadataKey", "id:metadata", 
    "=metadata", "index", "id:metadata", "id:key", "id:value", "return", "id:ctx"]
def fp_drpcmetadata_metadata_Get : List String :=
  ["=metadata", "=ok", "id:metadata", "id:ok", "call:ctx.Value", "id:ctx", "id:Value", "id:metadataKey", 
    "id:string", "id:string", "return", "id:metadata", "id:ok"]
def fp_drpchttp_context_buildContext : List String :=
  ["for", "id:_", "id:entry", "id:entries", "id:key", "id:value", "id:string", "id:err", "id:error", 
    "=index", "id:index", "call:strings.IndexByte", "id:strings", "id:IndexByte", "id:entry", "61", 
    "if", ">=", "id:index", "0", "=value", "=err", "id:value", "id:err", "call:unescape", "id:unescape", 
    "slice", "id:entry", "+", "id:index", "1", "if", "!=", "id:err", "id:nil", "return", "id:nil", 
    "id:err", "=entry", "id:entry", "slice", "id:entry", "id:index", "=key", "=err", "id:key", 
    "id:err", "call:unescape", "id:unescape", "id:entry", "if", "!=", "id:err", "id:nil", "return", 
    "id:nil", "id:err", "=ctx", "id:ctx", "call:drpcmetadata.Add", "id:drpcmetadata", "id:Add", 
    "id:ctx", "id:key", "id:value", "return", "id:ctx", "id:nil"]
def fp_drpchttp_context_unhex : List String :=
  ["switch", "case", "&&", "<=", "48", "id:v", "<=", "id:v", "57", "=d", "id:d", "-", "id:v", 
    "48", "case", "&&", "<=", "97", "id:v", "<=", "id:v", "102", "=d", "id:d", "+", "-", "id:v", 
    "97", "10", "case", "&&", "<=", "65", "id:v", "<=", "id:v", "70", "=d", "id:d", "+", "-", "id:v", 
    "65", "10", "default", "return", "0", "id:false", "return", "+", "id:c", "*", "id:d", "id:m", 
    "id:true"]
def fp_drpchttp_context_unescape : List String :=
  ["=count", "id:count", "call:strings.Count", "id:strings", "id:Count", "id:s", "s:%", "if", 
    "==", "id:count", "0", "return", "id:s", "id:nil", "id:t", "id:strings", "id:Builder", "if", 
    "=n", "id:n", "-", "call:len", "id:len", "id:s", "*", "2", "id:count", ">", "id:n", "0", "call:t.Grow", 
    "id:t", "id:Grow", "id:n", "for", "=i", "id:i", "call:uint", "id:uint", "0", "<", "id:i", "call:uint", 
    "id:uint", "call:len", "id:len", "id:s", "++", "id:i", "switch", "index", "id:s", "id:i", "case", 
    "37", "if", ">=", "+", "id:i", "2", "call:uint", "id:uint", "call:len", "id:len", "id:s", "return", 
    "s:", "call:errs.New", "id:errs", "id:New", "s:error unescaping %q: sequence ends", "id:s", 
    "=c", "=ok", "id:c", "id:ok", "call:unhex", "id:unhex", "0", "index", "id:s", "+", "id:i", 
    "1", "16", "if", "u!", "id:ok", "return", "s:", "call:errs.New", "id:errs", "id:New", "s:error unescaping %q: invalid hex digit", 
    "id:s", "=c", "=ok", "id:c", "id:ok", "call:unhex", "id:unhex", "id:c", "index", "id:s", "+", 
    "id:i", "2", "1", "if", "u!", "id:ok", "return", "s:", "call:errs.New", "id:errs", "id:New", 
    "s:error unescaping %q: invalid hex digit", "id:s", "=_", "id:_", "call:t.WriteByte", "id:t", 
    "id:WriteByte", "id:c", "+=", "id:i", "2", "default", "=_", "id:_", "call:t.WriteByte", "id:t", 
    "id:WriteByte", "index", "id:s", "id:i", "return", "call:t.String", "id:t", "id:String", "id:nil"]
def fp_drpchttp_handler_getCode : List String :=
  ["=code", "id:code", "s:unknown", "if", "=dcode", "id:dcode", "call:drpcerr.Code", "id:drpcerr", 
    "id:Code", "id:err", "!=", "id:dcode", "0", "=code", "id:code", "call:fmt.Sprintf", "id:fmt", 
    "id:Sprintf", "s:drpcerr(%d)", "id:dcode", "for", "=i", "id:i", "0", "&&", "<", "id:i", "100", 
    "!=", "id:err", "id:nil", "++", "id:i", "if", "=m", "id:m", "call:reflect.ValueOf().MethodByName", 
    "call:reflect.ValueOf", "id:reflect", "id:ValueOf", "id:err", "id:MethodByName", "s:Code", 
    "call:m.IsValid", "id:m", "id:IsValid", "if", "=mt", "id:mt", "call:m.Type", "id:m", "id:Type", 
    "&&", "&&", "==", "call:mt.NumIn", "id:mt", "id:NumIn", "0", "==", "call:mt.NumOut", "id:mt", 
    "id:NumOut", "1", "==", "call:mt.Out().Kind", "call:mt.Out", "id:mt", "id:Out", "0", "id:Kind", 
    "id:reflect", "id:String", "return", "call:m.Call().String", "index", "call:m.Call", "id:m", 
    "id:Call", "id:nil", "0", "id:String", "switch", "=v", "id:v", "id:err", "case", "id:Cause", 
    "id:error", "=err", "id:err", "call:v.Cause", "id:v", "id:Cause", "case", "id:Unwrap", "id:error", 
    "=err", "id:err", "call:v.Unwrap", "id:v", "id:Unwrap", "default", "return", "id:code", "return", 
    "id:code"]
def fp_drpchttp_handler_wrapper_ServeHTTP : List String :=
  ["=pr", "=ok", "id:pr", "id:ok", "index", "id:w", "id:opts", "id:protocols", "call:req.Header.Get", 
    "id:req", "id:Header", "id:Get", "s:Content-Type", "if", "u!", "id:ok", "=pr", "id:pr", "index", 
    "id:w", "id:opts", "id:protocols", "s:*", "=ctx", "=err", "id:ctx", "id:err", "call:Context", 
    "id:Context", "id:req", "if", "==", "id:err", "id:nil", "=req", "id:req", "call:req.WithContext", 
    "id:req", "id:WithContext", "id:ctx", "=st", "id:st", "call:pr.NewStream", "id:pr", "id:NewStream", 
    "id:rw", "id:req", "call:st.Finish", "id:st", "id:Finish", "call:w.handler.HandleRPC", "id:w", 
    "id:handler", "id:HandleRPC", "id:st", "id:req", "id:URL", "id:Path"]
def fp_drpchttp_encoding_grpcRead : List String :=
  ["if", "=tmp", "=err", "id:tmp", "id:err", "call:readExactly", "id:readExactly", "id:r", "5", 
    "!=", "id:err", "id:nil", "return", "id:nil", "id:err", "if", "=size", "id:size", "call:binary.BigEndian.Uint32", 
    "id:binary", "id:BigEndian", "id:Uint32", "slice", "id:tmp", "1", "5", ">", "id:size", "maxSize=4194304", 
    "id:maxSize", "return", "id:nil", "call:errs.New", "id:errs", "id:New", "s:message too large", 
    "if", "=data", "=err", "id:data", "id:err", "call:readExactly", "id:readExactly", "id:r", "call:uint64", 
    "id:uint64", "id:size", "call:errors.Is", "id:errors", "id:Is", "id:err", "id:io", "id:EOF", 
    "return", "id:nil", "id:io", "id:ErrUnexpectedEOF", "if", "!=", "id:err", "id:nil", "return", 
    "id:nil", "id:err", "return", "id:data", "id:nil"]
def fp_drpchttp_encoding_twirpRead : List String :=
  ["if", "=data", "=err", "id:data", "id:err", "call:io.ReadAll", "id:io", "id:ReadAll", "call:io.LimitReader", 
    "id:io", "id:LimitReader", "id:r", "+", "maxSize=4194304", "id:maxSize", "1", "!=", "id:err", 
    "id:nil", "return", "id:nil", "id:err", "if", ">", "call:len", "id:len", "id:data", "maxSize=4194304", 
    "id:maxSize", "return", "id:nil", "call:errs.New", "id:errs", "id:New", "s:message too large", 
    "return", "id:data", "id:nil"]
def fp_drpchttp_encoding_readExactly : List String :=
  ["=buf", "id:buf", "call:make", "id:make", "id:byte", "id:n", "=_", "=err", "id:_", "id:err", 
    "call:io.ReadFull", "id:io", "id:ReadFull", "id:r", "id:buf", "return", "id:buf", "id:err"]
def fp_drpchttp_encoding_base64Write : List String :=
  ["return", "id:w", "id:io", "id:Writer", "id:buf", "id:byte", "id:error", "=tmp", "id:tmp", 
    "call:make", "id:make", "id:byte", "call:base64.StdEncoding.EncodedLen", "id:base64", "id:StdEncoding", 
    "id:EncodedLen", "call:len", "id:len", "id:buf", "call:base64.StdEncoding.Encode", "id:base64", 
    "id:StdEncoding", "id:Encode", "id:tmp", "id:buf", "return", "call:wf", "id:wf", "id:w", "id:tmp"]
def fp_drpchttp_protocol_grpc_web_grpcWebProtocol_framedWrite : List String :=
  ["=tmp", "id:tmp", "5", "id:byte", "0", "id:hdr", "call:binary.BigEndian.PutUint32", "id:binary", 
    "id:BigEndian", "id:PutUint32", "slice", "id:tmp", "1", "5", "call:uint32", "id:uint32", "call:len", 
    "id:len", "id:buf", "return", "call:gwp.write", "id:gwp", "id:write", "id:rw", "call:append", 
    "id:append", "slice", "id:tmp", "id:buf"]
def fp_drpchttp_protocol_grpc_web_grpcWebStream_MsgSend : List String :=
  ["=data", "=err", "id:data", "id:err", "call:gws.gwp.marshal", "id:gws", "id:gwp", "id:marshal", 
    "id:msg", "id:enc", "if", "!=", "id:err", "id:nil", "return", "id:err", "if", ">=", "call:len", 
    "id:len", "id:data", "id:maxSize", "return", "call:errs.New", "id:errs", "id:New", "s:message too large", 
    "if", "=err", "id:err", "call:gws.gwp.framedWrite", "id:gws", "id:gwp", "id:framedWrite", "id:gws", 
    "id:rw", "0", "id:data", "!=", "id:err", "id:nil", "return", "id:err", "if", "=fl", "=ok", 
    "id:fl", "id:ok", "id:gws", "id:rw", "id:http", "id:Flusher", "id:ok", "call:fl.Flush", "id:fl", 
    "id:Flush", "return", "id:nil"]
def fp_drpchttp_protocol_grpc_web_grpcWebStream_Finish : List String :=
  ["=status", "id:status", "call:strconv.FormatUint", "id:strconv", "id:FormatUint", "call:drpcerr.Code", 
    "id:drpcerr", "id:Code", "id:err", "10", "if", "&&", "!=", "id:err", "id:nil", "==", "id:status", 
    "s:0", "=status", "id:status", "s:2", "id:buf", "id:bytes", "id:Buffer", "=write", "id:write", 
    "id:k", "id:v", "id:string", "call:buf.WriteString", "id:buf", "id:WriteString", "id:k", "call:buf.WriteString", 
    "id:buf", "id:WriteString", "s:: ", "call:buf.WriteString", "id:buf", "id:WriteString", "call:textproto.TrimString", 
    "id:textproto", "id:TrimString", "call:nlSpace.Replace", "id:nlSpace", "id:Replace", "id:v", 
    "call:buf.WriteString", "id:buf", "id:WriteString", "s:\r\n", "call:write", "id:write", "s:grpc-status", 
    "id:status", "if", "!=", "id:err", "id:nil", "call:write", "id:write", "s:grpc-code", "call:getCode", 
    "id:getCode", "id:err", "call:write", "id:write", "s:grpc-message", "call:err.Error", "id:err", 
    "id:Error", "=_", "id:_", "call:gws.gwp.framedWrite", "id:gws", "id:gwp", "id:framedWrite", 
    "id:gws", "id:rw", "128", "call:buf.Bytes", "id:buf", "id:Bytes"]
def fp_drpchttp_protocol_twirp_twirpStream_MsgSend : List String :=
  ["if", "!=", "id:ts", "id:sendErr", "id:nil", "return", "id:ts", "id:sendErr", "=ts.response", 
    "=err", "id:ts", "id:response", "id:err", "call:ts.tp.marshal", "id:ts", "id:tp", "id:marshal", 
    "id:msg", "id:enc", "call:setErrorOrEOF", "id:setErrorOrEOF", "u&", "id:ts", "id:sendErr", 
    "id:err", "return", "id:err"]
def fp_drpchttp_protocol_twirp_twirpStream_MsgRecv : List String :=
  ["if", "!=", "id:ts", "id:recvErr", "id:nil", "return", "id:ts", "id:recvErr", "=buf", "=err", 
    "id:buf", "id:err", "call:twirpRead", "id:twirpRead", "id:ts", "id:body", "call:setErrorOrEOF", 
    "id:setErrorOrEOF", "u&", "id:ts", "id:recvErr", "id:err", "if", "!=", "id:err", "id:nil", 
    "return", "id:err", "return", "call:ts.tp.unmarshal", "id:ts", "id:tp", "id:unmarshal", "id:buf", 
    "id:msg", "id:enc"]
def fp_drpchttp_protocol_twirp_twirpStream_Finish : List String :=
  ["if", "==", "id:err", "id:nil", "call:ts.rw.WriteHeader", "id:ts", "id:rw", "id:WriteHeader", 
    "id:http", "id:StatusOK", "=_", "=_", "id:_", "id:_", "call:ts.rw.Write", "id:ts", "id:rw", 
    "id:Write", "id:ts", "id:response", "return", "=code", "id:code", "call:getCode", "id:getCode", 
    "id:err", "=status", "id:status", "index", "id:twirpStatus", "id:code", "if", "==", "id:status", 
    "0", "=status", "id:status", "500", "=data", "=err", "id:data", "id:err", "call:json.MarshalIndent", 
    "id:json", "id:MarshalIndent", "id:string", "s:code", "id:code", "s:msg", "call:err.Error", 
    "id:err", "id:Error", "s:", "s:    ", "if", "!=", "id:err", "id:nil", "call:http.Error", "id:http", 
    "id:Error", "id:ts", "id:rw", "s:", "id:http", "id:StatusInternalServerError", "return", "call:ts.rw.Header().Set", 
    "call:ts.rw.Header", "id:ts", "id:rw", "id:Header", "id:Set", "s:Content-Type", "s:application/json", 
    "call:ts.rw.WriteHeader", "id:ts", "id:rw", "id:WriteHeader", "id:status", "=_", "=_", "id:_", 
    "id:_", "call:ts.rw.Write", "id:ts", "id:rw", "id:Write", "id:data"]
def fp_drpchttp_protocol_twirp_setErrorOrEOF : List String :=
  ["if", "==", "id:err", "id:nil", "=err", "id:err", "id:io", "id:EOF", "=*errp", "id:errp", "id:err"]
def fp_drpcsignal_signal_Signal_Signal : List String :=
  ["if", "!=", "&", "call:atomic.LoadUint32", "id:atomic", "id:LoadUint32", "u&", "id:s", "id:status", 
    "statusChannelCreated=1", "id:statusChannelCreated", "0", "call:drpcdebug.Point", "id:drpcdebug", 
    "id:Point", "s:signal.Signal.fast", "return", "id:s", "id:ch", "return", "call:s.signalSlow", 
    "id:s", "id:signalSlow"]
def fp_drpcsignal_signal_Signal_signalSlow : List String :=
  ["call:drpcdebug.Point", "id:drpcdebug", "id:Point", "s:signal.signalSlow.enter", "call:s.mu.Lock", 
    "id:s", "id:mu", "id:Lock", "call:drpcdebug.Point", "id:drpcdebug", "id:Point", "s:signal.signalSlow.locked", 
    "if", "=set", "id:set", "id:s", "id:status", "==", "&", "id:set", "statusChannelCreated=1", 
    "id:statusChannelCreated", "0", "=s.ch", "id:s", "id:ch", "call:make", "id:make", "call:drpcdebug.Point", 
    "id:drpcdebug", "id:Point", "s:signal.signalSlow.made", "call:atomic.StoreUint32", "id:atomic", 
    "id:StoreUint32", "u&", "id:s", "id:status", "|", "id:set", "statusChannelCreated=1", "id:statusChannelCreated", 
    "call:drpcdebug.Point", "id:drpcdebug", "id:Point", "s:signal.signalSlow.unlock", "call:s.mu.Unlock", 
    "id:s", "id:mu", "id:Unlock", "return", "id:s", "id:ch"]
def fp_drpcsignal_signal_Signal_Set : List String :=
  ["if", "!=", "&", "call:atomic.LoadUint32", "id:atomic", "id:LoadUint32", "u&", "id:s", "id:status", 
    "statusErrorSet=2", "id:statusErrorSet", "0", "return", "id:false", "return", "call:s.setSlow", 
    "id:s", "id:setSlow", "id:err"]
def fp_drpcsignal_signal_Signal_setSlow : List String :=
  ["call:drpcdebug.Point", "id:drpcdebug", "id:Point", "s:signal.setSlow.enter", "call:s.mu.Lock", 
    "id:s", "id:mu", "id:Lock", "call:drpcdebug.Point", "id:drpcdebug", "id:Point", "s:signal.setSlow.locked", 
    "if", "=status", "id:status", "id:s", "id:status", "==", "&", "id:status", "statusErrorSet=2", 
    "id:statusErrorSet", "0", "=ok", "id:ok", "id:true", "=s.err", "id:s", "id:err", "id:err", 
    "call:drpcdebug.Point", "id:drpcdebug", "id:Point", "s:signal.setSlow.err", "if", "==", "&", 
    "id:status", "statusChannelCreated=1", "id:statusChannelCreated", "0", "=s.ch", "id:s", "id:ch", 
    "id:closed", "call:drpcdebug.Point", "id:drpcdebug", "id:Point", "s:signal.setSlow.ch", "call:atomic.StoreUint32", 
    "id:atomic", "id:StoreUint32", "u&", "id:s", "id:status", "|", "statusErrorSet=2", "id:statusErrorSet", 
    "statusChannelCreated=1", "id:statusChannelCreated", "call:drpcdebug.Point", "id:drpcdebug", 
    "id:Point", "s:signal.setSlow.stored", "if", "!=", "&", "id:status", "statusChannelCreated=1", 
    "id:statusChannelCreated", "0", "call:close", "id:close", "id:s", "id:ch", "call:drpcdebug.Point", 
    "id:drpcdebug", "id:Point", "s:signal.setSlow.unlock", "call:s.mu.Unlock", "id:s", "id:mu", 
    "id:Unlock", "return", "id:ok"]
def fp_drpcsignal_signal_Signal_Get : List String :=
  ["if", "!=", "&", "call:atomic.LoadUint32", "id:atomic", "id:LoadUint32", "u&", "id:s", "id:status", 
    "statusErrorSet=2", "id:statusErrorSet", "0", "call:drpcdebug.Point", "id:drpcdebug", "id:Point", 
    "s:signal.Get.fast", "return", "id:s", "id:err", "id:true", "return", "id:nil", "id:false"]
def fp_drpcsignal_signal_Signal_IsSet : List String :=
  ["return", "!=", "&", "call:atomic.LoadUint32", "id:atomic", "id:LoadUint32", "u&", "id:s", 
    "id:status", "statusErrorSet=2", "id:statusErrorSet", "0"]
def fp_drpcsignal_signal_Signal_Err : List String :=
  ["if", "!=", "&", "call:atomic.LoadUint32", "id:atomic", "id:LoadUint32", "u&", "id:s", "id:status", 
    "statusErrorSet=2", "id:statusErrorSet", "0", "call:drpcdebug.Point", "id:drpcdebug", "id:Point", 
    "s:signal.Err.fast", "return", "id:s", "id:err", "return", "id:nil"]
def fp_drpcsignal_signal_Signal_Wait : List String :=
  ["u<-", "call:s.Signal", "id:s", "id:Signal"]
def fp_drpcsignal_chan_Chan_setFresh : List String :=
  ["=c.ch", "id:c", "id:ch", "call:make", "id:make"]
def fp_drpcsignal_chan_Chan_setClosed : List String :=
  ["=c.ch", "id:c", "id:ch", "id:closed"]
def fp_drpcsignal_chan_Chan_do : List String :=
  ["return", "&&", "==", "call:atomic.LoadUint32", "id:atomic", "id:LoadUint32", "u&", "id:c", 
    "id:done", "0", "call:c.doSlow", "id:c", "id:doSlow", "id:f"]
def fp_drpcsignal_chan_Chan_doSlow : List String :=
  ["call:drpcdebug.Point", "id:drpcdebug", "id:Point", "s:chan.doSlow.enter", "call:c.mu.Lock", 
    "id:c", "id:mu", "id:Lock", "defer", "call:c.mu.Unlock", "id:c", "id:mu", "id:Unlock", "call:drpcdebug.Point", 
    "id:drpcdebug", "id:Point", "s:chan.doSlow.locked", "if", "==", "id:c", "id:done", "0", "defer", 
    "call:atomic.StoreUint32", "id:atomic", "id:StoreUint32", "u&", "id:c", "id:done", "1", "defer", 
    "call:drpcdebug.Point", "id:drpcdebug", "id:Point", "s:chan.doSlow.store", "call:drpcdebug.Point", 
    "id:drpcdebug", "id:Point", "s:chan.doSlow.init", "call:f", "id:f", "return", "id:true", "return", 
    "id:false"]
def fp_drpcsignal_chan_Chan_Close : List String :=
  ["if", "u!", "call:c.do", "id:c", "id:do", "id:c", "id:setClosed", "call:drpcdebug.Point", "id:drpcdebug", 
    "id:Point", "s:chan.Close.close", "call:close", "id:close", "id:c", "id:ch"]
def fp_drpcsignal_chan_Chan_Make : List String :=
  ["call:c.do", "id:c", "id:do", "=c.ch", "id:c", "id:ch", "call:make", "id:make", "id:cap"]
def fp_drpcsignal_chan_Chan_Get : List String :=
  ["call:c.do", "id:c", "id:do", "id:c", "id:setFresh", "call:drpcdebug.Point", "id:drpcdebug", 
    "id:Point", "s:chan.Get.read", "return", "id:c", "id:ch"]
def fp_drpcsignal_chan_Chan_Send : List String :=
  ["call:c.do", "id:c", "id:do", "id:c", "id:setFresh", "send", "id:c", "id:ch"]
def fp_drpcsignal_chan_Chan_Recv : List String :=
  ["call:c.do", "id:c", "id:do", "id:c", "id:setFresh", "u<-", "id:c", "id:ch"]
def fp_drpcsignal_chan_Chan_Full : List String :=
  ["call:c.do", "id:c", "id:do", "id:c", "id:setFresh", "select", "send", "id:c", "id:ch", "u<-", 
    "id:c", "id:ch", "return", "id:false", "return", "id:true"]
def fp_drpcstream_pktbuf_packetBuffer_Close : List String :=
  ["call:pb.mu.Lock", "id:pb", "id:mu", "id:Lock", "defer", "call:pb.mu.Unlock", "id:pb", "id:mu", 
    "id:Unlock", "for", "id:pb", "id:held", "call:pb.cond.Wait", "id:pb", "id:cond", "id:Wait", 
    "if", "==", "id:pb", "id:err", "id:nil", "=pb.data", "id:pb", "id:data", "id:nil", "=pb.set", 
    "id:pb", "id:set", "id:false", "=pb.err", "id:pb", "id:err", "id:err", "call:pb.cond.Broadcast", 
    "id:pb", "id:cond", "id:Broadcast"]
def fp_drpcstream_pktbuf_packetBuffer_Put : List String :=
  ["call:pb.mu.Lock", "id:pb", "id:mu", "id:Lock", "defer", "call:pb.mu.Unlock", "id:pb", "id:mu", 
    "id:Unlock", "for", "&&", "id:pb", "id:set", "==", "id:pb", "id:err", "id:nil", "call:pb.cond.Wait", 
    "id:pb", "id:cond", "id:Wait", "if", "!=", "id:pb", "id:err", "id:nil", "return", "=pb.data", 
    "id:pb", "id:data", "id:data", "=pb.set", "id:pb", "id:set", "id:true", "=pb.held", "id:pb", 
    "id:held", "id:false", "call:pb.cond.Broadcast", "id:pb", "id:cond", "id:Broadcast", "for", 
    "||", "id:pb", "id:set", "id:pb", "id:held", "call:pb.cond.Wait", "id:pb", "id:cond", "id:Wait"]
def fp_drpcstream_pktbuf_packetBuffer_Get : List String :=
  ["call:pb.mu.Lock", "id:pb", "id:mu", "id:Lock", "defer", "call:pb.mu.Unlock", "id:pb", "id:mu", 
    "id:Unlock", "for", "&&", "u!", "id:pb", "id:set", "==", "id:pb", "id:err", "id:nil", "call:pb.cond.Wait", 
    "id:pb", "id:cond", "id:Wait", "if", "!=", "id:pb", "id:err", "id:nil", "return", "id:nil", 
    "id:pb", "id:err", "=pb.held", "id:pb", "id:held", "id:true", "call:pb.cond.Broadcast", "id:pb", 
    "id:cond", "id:Broadcast", "return", "id:pb", "id:data", "id:nil"]
def fp_drpcstream_pktbuf_packetBuffer_Done : List String :=
  ["call:pb.mu.Lock", "id:pb", "id:mu", "id:Lock", "defer", "call:pb.mu.Unlock", "id:pb", "id:mu", 
    "id:Unlock", "=pb.data", "id:pb", "id:data", "id:nil", "=pb.set", "id:pb", "id:set", "id:false", 
    "=pb.held", "id:pb", "id:held", "id:false", "call:pb.cond.Broadcast", "id:pb", "id:cond", "id:Broadcast"]
def fp_drpcstream_inspectmu_inspectMutex_Lock : List String :=
  ["call:m.Mutex.Lock", "id:m", "id:Mutex", "id:Lock", "call:atomic.StoreUint32", "id:atomic", 
    "id:StoreUint32", "u&", "id:m", "id:held", "1"]
def fp_drpcstream_inspectmu_inspectMutex_TryLock : List String :=
  ["if", "call:m.Mutex.TryLock", "id:m", "id:Mutex", "id:TryLock", "call:atomic.StoreUint32", 
    "id:atomic", "id:StoreUint32", "u&", "id:m", "id:held", "1", "return", "id:true", "return", 
    "id:false"]
def fp_drpcstream_inspectmu_inspectMutex_Unlock : List String :=
  ["call:atomic.StoreUint32", "id:atomic", "id:StoreUint32", "u&", "id:m", "id:held", "0", "call:m.Mutex.Unlock", 
    "id:m", "id:Mutex", "id:Unlock"]
def fp_drpcstream_inspectmu_inspectMutex_Unlocked : List String :=
  ["return", "==", "call:atomic.LoadUint32", "id:atomic", "id:LoadUint32", "u&", "id:m", "id:held", 
    "0"]
def fp_drpcstream_stream_Stream_HandlePacket : List String :=
  ["if", "!=", "id:pkt", "id:ID", "id:Stream", "id:s", "id:id", "id:Stream", "return", "id:nil", 
    "call:drpcopts.GetStreamStats().AddRead", "call:drpcopts.GetStreamStats", "id:drpcopts", "id:GetStreamStats", 
    "u&", "id:s", "id:opts", "id:Internal", "id:AddRead", "call:uint64", "id:uint64", "call:len", 
    "id:len", "id:pkt", "id:Data", "if", "call:s.sigs.term.IsSet", "id:s", "id:sigs", "id:term", 
    "id:IsSet", "return", "id:nil", "call:s.log", "id:s", "id:log", "s:HANDLE", "id:pkt", "id:String", 
    "if", "==", "id:pkt", "id:Kind", "id:drpcwire", "id:KindMessage", "call:s.pbuf.Put", "id:s", 
    "id:pbuf", "id:Put", "id:pkt", "id:Data", "return", "id:nil", "call:s.mu.Lock", "id:s", "id:mu", 
    "id:Lock", "defer", "call:s.mu.Unlock", "id:s", "id:mu", "id:Unlock", "switch", "id:pkt", "id:Kind", 
    "case", "id:drpcwire", "id:KindInvoke", "=err", "id:err", "call:drpc.ProtocolError.New", "id:drpc", 
    "id:ProtocolError", "id:New", "s:invoke on existing stream", "call:s.terminate", "id:s", "id:terminate", 
    "id:err", "return", "id:err", "case", "id:drpcwire", "id:KindError", "=err", "id:err", "call:drpcwire.UnmarshalError", 
    "id:drpcwire", "id:UnmarshalError", "id:pkt", "id:Data", "call:s.sigs.send.Set", "id:s", "id:sigs", 
    "id:send", "id:Set", "id:io", "id:EOF", "call:s.terminate", "id:s", "id:terminate", "id:err", 
    "return", "id:nil", "case", "id:drpcwire", "id:KindCancel", "=err", "id:err", "id:context", 
    "id:Canceled", "call:s.sigs.cancel.Set", "id:s", "id:sigs", "id:cancel", "id:Set", "id:err", 
    "call:s.sigs.send.Set", "id:s", "id:sigs", "id:send", "id:Set", "id:io", "id:EOF", "call:s.terminate", 
    "id:s", "id:terminate", "id:err", "return", "id:nil", "case", "id:drpcwire", "id:KindClose", 
    "call:s.sigs.recv.Set", "id:s", "id:sigs", "id:recv", "id:Set", "id:io", "id:EOF", "call:s.pbuf.Close", 
    "id:s", "id:pbuf", "id:Close", "id:io", "id:EOF", "call:s.terminate", "id:s", "id:terminate", 
    "call:drpc.ClosedError.New", "id:drpc", "id:ClosedError", "id:New", "s:remote closed the stream", 
    "return", "id:nil", "case", "id:drpcwire", "id:KindCloseSend", "call:s.sigs.recv.Set", "id:s", 
    "id:sigs", "id:recv", "id:Set", "id:io", "id:EOF", "call:s.pbuf.Close", "id:s", "id:pbuf", 
    "id:Close", "id:io", "id:EOF", "call:s.terminateIfBothClosed", "id:s", "id:terminateIfBothClosed", 
    "return", "id:nil", "default", "if", "id:pkt", "id:Control", "return", "id:nil", "=err", "id:err", 
    "call:drpc.InternalError.New", "id:drpc", "id:InternalError", "id:New", "s:unknown packet kind: %s", 
    "id:pkt", "id:Kind", "call:s.terminate", "id:s", "id:terminate", "id:err", "return", "id:err"]
def fp_drpcstream_stream_Stream_checkFinished : List String :=
  ["if", "&&", "&&", "call:s.sigs.term.IsSet", "id:s", "id:sigs", "id:term", "id:IsSet", "call:s.write.Unlocked", 
    "id:s", "id:write", "id:Unlocked", "call:s.read.Unlocked", "id:s", "id:read", "id:Unlocked", 
    "if", "call:s.sigs.fin.Set", "id:s", "id:sigs", "id:fin", "id:Set", "id:nil", "call:s.log", 
    "id:s", "id:log", "s:FIN", "id:string", "return", "s:", "call:s.ctx.sig.Set", "id:s", "id:ctx", 
    "id:sig", "id:Set", "id:context", "id:Canceled", "if", "!=", "id:s", "id:fin", "id:nil", "send", 
    "id:s", "id:fin", "if", "!=", "id:s", "id:task", "id:nil", "call:s.task.End", "id:s", "id:task", 
    "id:End"]
def fp_drpcstream_stream_Stream_checkCancelError : List String :=
  ["if", "call:s.sigs.cancel.IsSet", "id:s", "id:sigs", "id:cancel", "id:IsSet", "return", "call:s.sigs.cancel.Err", 
    "id:s", "id:sigs", "id:cancel", "id:Err", "return", "id:err"]
def fp_drpcstream_stream_Stream_newFrameLocked : List String :=
  ["++", "id:s", "id:id", "id:Message", "return", "id:drpcwire", "id:Frame", "id:ID", "id:s", 
    "id:id", "id:Kind", "id:kind"]
def fp_drpcstream_stream_Stream_sendPacketLocked : List String :=
  ["=fr", "id:fr", "call:s.newFrameLocked", "id:s", "id:newFrameLocked", "id:kind", "=fr.Data", 
    "id:fr", "id:Data", "id:data", "=fr.Control", "id:fr", "id:Control", "id:control", "=fr.Done", 
    "id:fr", "id:Done", "id:true", "call:drpcopts.GetStreamStats().AddWritten", "call:drpcopts.GetStreamStats", 
    "id:drpcopts", "id:GetStreamStats", "u&", "id:s", "id:opts", "id:Internal", "id:AddWritten", 
    "call:uint64", "id:uint64", "call:len", "id:len", "id:data", "call:s.log", "id:s", "id:log", 
    "s:SEND", "id:fr", "id:String", "if", "=err", "id:err", "call:s.wr.WriteFrame", "id:s", "id:wr", 
    "id:WriteFrame", "id:fr", "!=", "id:err", "id:nil", "return", "call:errs.Wrap", "id:errs", 
    "id:Wrap", "id:err", "if", "=err", "id:err", "call:s.wr.Flush", "id:s", "id:wr", "id:Flush", 
    "!=", "id:err", "id:nil", "return", "call:errs.Wrap", "id:errs", "id:Wrap", "id:err", "return", 
    "id:nil"]
def fp_drpcstream_stream_Stream_terminateIfBothClosed : List String :=
  ["if", "&&", "call:s.sigs.send.IsSet", "id:s", "id:sigs", "id:send", "id:IsSet", "call:s.sigs.recv.IsSet", 
    "id:s", "id:sigs", "id:recv", "id:IsSet", "call:s.terminate", "id:s", "id:terminate", "id:termBothClosed"]
def fp_drpcstream_stream_Stream_terminate : List String :=
  ["call:s.sigs.send.Set", "id:s", "id:sigs", "id:send", "id:Set", "id:err", "call:s.sigs.recv.Set", 
    "id:s", "id:sigs", "id:recv", "id:Set", "id:err", "call:s.sigs.term.Set", "id:s", "id:sigs", 
    "id:term", "id:Set", "id:err", "call:s.pbuf.Close", "id:s", "id:pbuf", "id:Close", "id:err", 
    "call:s.checkFinished", "id:s", "id:checkFinished"]
def fp_drpcstream_stream_Stream_RawWrite : List String :=
  ["defer", "call:s.checkFinished", "id:s", "id:checkFinished", "call:s.write.Lock", "id:s", "id:write", 
    "id:Lock", "defer", "call:s.write.Unlock", "id:s", "id:write", "id:Unlock", "return", "call:s.rawWriteLocked", 
    "id:s", "id:rawWriteLocked", "id:kind", "id:data"]
def fp_drpcstream_stream_Stream_rawWriteLocked : List String :=
  ["=fr", "id:fr", "call:s.newFrameLocked", "id:s", "id:newFrameLocked", "id:kind", "=n", "id:n", 
    "id:s", "id:opts", "id:SplitSize", "for", "switch", "case", "call:s.sigs.send.IsSet", "id:s", 
    "id:sigs", "id:send", "id:IsSet", "return", "call:s.sigs.send.Err", "id:s", "id:sigs", "id:send", 
    "id:Err", "case", "call:s.sigs.term.IsSet", "id:s", "id:sigs", "id:term", "id:IsSet", "return", 
    "call:s.sigs.term.Err", "id:s", "id:sigs", "id:term", "id:Err", "=fr.Data", "=data", "id:fr", 
    "id:Data", "id:data", "call:drpcwire.SplitData", "id:drpcwire", "id:SplitData", "id:data", 
    "id:n", "=fr.Done", "id:fr", "id:Done", "==", "call:len", "id:len", "id:data", "0", "call:drpcopts.GetStreamStats().AddWritten", 
    "call:drpcopts.GetStreamStats", "id:drpcopts", "id:GetStreamStats", "u&", "id:s", "id:opts", 
    "id:Internal", "id:AddWritten", "call:uint64", "id:uint64", "call:len", "id:len", "id:fr", 
    "id:Data", "call:s.log", "id:s", "id:log", "s:SEND", "id:fr", "id:String", "if", "=err", "id:err", 
    "call:s.wr.WriteFrame", "id:s", "id:wr", "id:WriteFrame", "id:fr", "!=", "id:err", "id:nil", 
    "return", "call:s.checkCancelError", "id:s", "id:checkCancelError", "call:errs.Wrap", "id:errs", 
    "id:Wrap", "id:err", "if", "id:fr", "id:Done", "return", "id:nil"]
def fp_drpcstream_stream_Stream_RawFlush : List String :=
  ["defer", "call:s.checkFinished", "id:s", "id:checkFinished", "call:s.write.Lock", "id:s", "id:write", 
    "id:Lock", "defer", "call:s.write.Unlock", "id:s", "id:write", "id:Unlock", "return", "call:s.rawFlushLocked", 
    "id:s", "id:rawFlushLocked"]
def fp_drpcstream_stream_Stream_rawFlushLocked : List String :=
  ["if", "call:s.wr.Empty", "id:s", "id:wr", "id:Empty", "return", "id:nil", "switch", "case", 
    "call:s.sigs.cancel.IsSet", "id:s", "id:sigs", "id:cancel", "id:IsSet", "return", "call:s.sigs.cancel.Err", 
    "id:s", "id:sigs", "id:cancel", "id:Err", "case", "call:s.sigs.send.IsSet", "id:s", "id:sigs", 
    "id:send", "id:IsSet", "return", "call:s.sigs.send.Err", "id:s", "id:sigs", "id:send", "id:Err", 
    "case", "call:s.sigs.term.IsSet", "id:s", "id:sigs", "id:term", "id:IsSet", "return", "call:s.sigs.term.Err", 
    "id:s", "id:sigs", "id:term", "id:Err", "call:s.log", "id:s", "id:log", "s:FLUSH", "id:string", 
    "return", "s:", "return", "call:s.checkCancelError", "id:s", "id:checkCancelError", "call:errs.Wrap", 
    "id:errs", "id:Wrap", "call:s.wr.Flush", "id:s", "id:wr", "id:Flush"]
def fp_drpcstream_stream_Stream_checkRecvFlush : List String :=
  ["call:s.flush.Do", "id:s", "id:flush", "id:Do", "=err", "id:err", "call:s.RawFlush", "id:s", 
    "id:RawFlush", "if", "&&", "&&", "==", "id:err", "id:nil", "id:s", "id:opts", "id:ManualFlush", 
    "u!", "call:s.wr.Empty", "id:s", "id:wr", "id:Empty", "=err", "id:err", "call:s.RawFlush", 
    "id:s", "id:RawFlush", "if", "&&", "!=", "id:err", "id:nil", "call:s.sigs.term.IsSet", "id:s", 
    "id:sigs", "id:term", "id:IsSet", "return", "id:nil", "return", "id:err"]
def fp_drpcstream_stream_Stream_RawRecv : List String :=
  ["if", "=err", "id:err", "call:s.checkRecvFlush", "id:s", "id:checkRecvFlush", "!=", "id:err", 
    "id:nil", "return", "id:nil", "id:err", "defer", "call:s.checkFinished", "id:s", "id:checkFinished", 
    "call:s.read.Lock", "id:s", "id:read", "id:Lock", "defer", "call:s.read.Unlock", "id:s", "id:read", 
    "id:Unlock", "=data", "=err", "id:data", "id:err", "call:s.pbuf.Get", "id:s", "id:pbuf", "id:Get", 
    "if", "!=", "id:err", "id:nil", "return", "id:nil", "id:err", "=data", "id:data", "call:append", 
    "id:append", "call:[]byte", "id:byte", "id:nil", "id:data", "call:s.pbuf.Done", "id:s", "id:pbuf", 
    "id:Done", "return", "id:data", "id:nil"]
def fp_drpcstream_stream_Stream_MsgSend : List String :=
  ["call:s.flush.Do", "id:s", "id:flush", "id:Do", "defer", "call:s.checkFinished", "id:s", "id:checkFinished", 
    "call:s.write.Lock", "id:s", "id:write", "id:Lock", "defer", "call:s.write.Unlock", "id:s", 
    "id:write", "id:Unlock", "=wbuf", "=err", "id:wbuf", "id:err", "call:drpcenc.MarshalAppend", 
    "id:drpcenc", "id:MarshalAppend", "id:msg", "id:enc", "slice", "id:s", "id:wbuf", "0", "if", 
    "!=", "id:err", "id:nil", "return", "call:errs.Wrap", "id:errs", "id:Wrap", "id:err", "if", 
    "||", "==", "id:s", "id:opts", "id:MaximumBufferSize", "0", "<", "call:len", "id:len", "id:wbuf", 
    "id:s", "id:opts", "id:MaximumBufferSize", "=s.wbuf", "id:s", "id:wbuf", "id:wbuf", "if", "=err", 
    "id:err", "call:s.rawWriteLocked", "id:s", "id:rawWriteLocked", "id:drpcwire", "id:KindMessage", 
    "id:wbuf", "!=", "id:err", "id:nil", "return", "id:err", "if", "u!", "id:s", "id:opts", "id:ManualFlush", 
    "return", "call:s.rawFlushLocked", "id:s", "id:rawFlushLocked", "return", "id:nil"]
def fp_drpcstream_stream_Stream_MsgRecv : List String :=
  ["if", "=err", "id:err", "call:s.checkRecvFlush", "id:s", "id:checkRecvFlush", "!=", "id:err", 
    "id:nil", "return", "id:err", "defer", "call:s.checkFinished", "id:s", "id:checkFinished", 
    "call:s.read.Lock", "id:s", "id:read", "id:Lock", "defer", "call:s.read.Unlock", "id:s", "id:read", 
    "id:Unlock", "=data", "=err", "id:data", "id:err", "call:s.pbuf.Get", "id:s", "id:pbuf", "id:Get", 
    "if", "!=", "id:err", "id:nil", "return", "id:err", "=err", "id:err", "call:enc.Unmarshal", 
    "id:enc", "id:Unmarshal", "id:data", "id:msg", "call:s.pbuf.Done", "id:s", "id:pbuf", "id:Done", 
    "return", "id:err"]
def fp_drpcstream_stream_Stream_SendError : List String :=
  ["call:s.log", "id:s", "id:log", "s:CALL", "id:string", "return", "call:fmt.Sprintf", "id:fmt", 
    "id:Sprintf", "s:SendError(%v)", "id:serr", "call:s.mu.Lock", "id:s", "id:mu", "id:Lock", "if", 
    "call:s.sigs.term.IsSet", "id:s", "id:sigs", "id:term", "id:IsSet", "call:s.mu.Unlock", "id:s", 
    "id:mu", "id:Unlock", "return", "id:nil", "defer", "call:s.checkFinished", "id:s", "id:checkFinished", 
    "call:s.write.Lock", "id:s", "id:write", "id:Lock", "defer", "call:s.write.Unlock", "id:s", 
    "id:write", "id:Unlock", "call:s.sigs.send.Set", "id:s", "id:sigs", "id:send", "id:Set", "id:io", 
    "id:EOF", "call:s.terminate", "id:s", "id:terminate", "id:termError", "call:s.mu.Unlock", "id:s", 
    "id:mu", "id:Unlock", "return", "call:s.checkCancelError", "id:s", "id:checkCancelError", "call:s.sendPacketLocked", 
    "id:s", "id:sendPacketLocked", "id:drpcwire", "id:KindError", "id:false", "call:drpcwire.MarshalError", 
    "id:drpcwire", "id:MarshalError", "id:serr"]
def fp_drpcstream_stream_Stream_SendCancel : List String :=
  ["call:s.log", "id:s", "id:log", "s:CALL", "id:string", "return", "s:SendCancel()", "if", "u!", 
    "call:s.mu.TryLock", "id:s", "id:mu", "id:TryLock", "return", "id:true", "id:nil", "if", "u!", 
    "call:s.write.TryLock", "id:s", "id:write", "id:TryLock", "call:s.mu.Unlock", "id:s", "id:mu", 
    "id:Unlock", "return", "id:true", "id:nil", "defer", "call:s.checkFinished", "id:s", "id:checkFinished", 
    "defer", "call:s.write.Unlock", "id:s", "id:write", "id:Unlock", "if", "call:s.sigs.term.IsSet", 
    "id:s", "id:sigs", "id:term", "id:IsSet", "call:s.mu.Unlock", "id:s", "id:mu", "id:Unlock", 
    "return", "id:false", "id:nil", "call:s.sigs.send.Set", "id:s", "id:sigs", "id:send", "id:Set", 
    "id:io", "id:EOF", "call:s.terminate", "id:s", "id:terminate", "id:err", "call:s.mu.Unlock", 
    "id:s", "id:mu", "id:Unlock", "return", "id:false", "call:s.checkCancelError", "id:s", "id:checkCancelError", 
    "call:s.sendPacketLocked", "id:s", "id:sendPacketLocked", "id:drpcwire", "id:KindCancel", "id:true", 
    "id:nil"]
def fp_drpcstream_stream_Stream_Close : List String :=
  ["call:s.log", "id:s", "id:log", "s:CALL", "id:string", "return", "s:Close()", "call:s.mu.Lock", 
    "id:s", "id:mu", "id:Lock", "if", "call:s.sigs.term.IsSet", "id:s", "id:sigs", "id:term", "id:IsSet", 
    "call:s.mu.Unlock", "id:s", "id:mu", "id:Unlock", "return", "id:nil", "defer", "call:s.checkFinished", 
    "id:s", "id:checkFinished", "call:s.write.Lock", "id:s", "id:write", "id:Lock", "defer", "call:s.write.Unlock", 
    "id:s", "id:write", "id:Unlock", "call:s.terminate", "id:s", "id:terminate", "id:termClosed", 
    "call:s.mu.Unlock", "id:s", "id:mu", "id:Unlock", "return", "call:s.checkCancelError", "id:s", 
    "id:checkCancelError", "call:s.sendPacketLocked", "id:s", "id:sendPacketLocked", "id:drpcwire", 
    "id:KindClose", "id:false", "id:nil"]
def fp_drpcstream_stream_Stream_CloseSend : List String :=
  ["call:s.log", "id:s", "id:log", "s:CALL", "id:string", "return", "s:CloseSend()", "call:s.mu.Lock", 
    "id:s", "id:mu", "id:Lock", "if", "||", "call:s.sigs.send.IsSet", "id:s", "id:sigs", "id:send", 
    "id:IsSet", "call:s.sigs.term.IsSet", "id:s", "id:sigs", "id:term", "id:IsSet", "call:s.mu.Unlock", 
    "id:s", "id:mu", "id:Unlock", "return", "id:nil", "defer", "call:s.checkFinished", "id:s", 
    "id:checkFinished", "call:s.write.Lock", "id:s", "id:write", "id:Lock", "defer", "call:s.write.Unlock", 
    "id:s", "id:write", "id:Unlock", "call:s.sigs.send.Set", "id:s", "id:sigs", "id:send", "id:Set", 
    "id:sendClosed", "call:s.terminateIfBothClosed", "id:s", "id:terminateIfBothClosed", "call:s.mu.Unlock", 
    "id:s", "id:mu", "id:Unlock", "return", "call:s.checkCancelError", "id:s", "id:checkCancelError", 
    "call:s.sendPacketLocked", "id:s", "id:sendPacketLocked", "id:drpcwire", "id:KindCloseSend", 
    "id:false", "id:nil"]
def fp_drpcstream_stream_Stream_Cancel : List String :=
  ["call:s.log", "id:s", "id:log", "s:CALL", "id:string", "return", "call:fmt.Sprintf", "id:fmt", 
    "id:Sprintf", "s:Cancel(%v)", "id:err", "call:s.mu.Lock", "id:s", "id:mu", "id:Lock", "defer", 
    "call:s.mu.Unlock", "id:s", "id:mu", "id:Unlock", "if", "call:s.IsFinished", "id:s", "id:IsFinished", 
    "return", "id:true", "call:s.sigs.cancel.Set", "id:s", "id:sigs", "id:cancel", "id:Set", "id:err", 
    "call:s.sigs.send.Set", "id:s", "id:sigs", "id:send", "id:Set", "id:io", "id:EOF", "call:s.terminate", 
    "id:s", "id:terminate", "id:err", "return", "id:false"]
def fp_drpcstream_stream_NewWithOptions : List String :=
  ["id:task", "id:trace", "id:Task", "if", "call:trace.IsEnabled", "id:trace", "id:IsEnabled", 
    "=kind", "=rpc", "id:kind", "id:rpc", "call:drpcopts.GetStreamKind", "id:drpcopts", "id:GetStreamKind", 
    "u&", "id:opts", "id:Internal", "call:drpcopts.GetStreamRPC", "id:drpcopts", "id:GetStreamRPC", 
    "u&", "id:opts", "id:Internal", "if", "&&", "!=", "id:kind", "s:", "!=", "id:rpc", "s:", "=ctx", 
    "=task", "id:ctx", "id:task", "call:trace.NewTask", "id:trace", "id:NewTask", "id:ctx", "+", 
    "id:kind", "id:rpc", "=s", "id:s", "u&", "id:Stream", "id:ctx", "id:streamCtx", "id:Context", 
    "id:ctx", "id:tr", "call:drpcopts.GetStreamTransport", "id:drpcopts", "id:GetStreamTransport", 
    "u&", "id:opts", "id:Internal", "id:opts", "id:opts", "id:fin", "call:drpcopts.GetStreamFin", 
    "id:drpcopts", "id:GetStreamFin", "u&", "id:opts", "id:Internal", "id:task", "id:task", "id:id", 
    "id:drpcwire", "id:ID", "id:Stream", "id:sid", "id:wr", "call:wr.Reset", "id:wr", "id:Reset", 
    "call:s.pbuf.init", "id:s", "id:pbuf", "id:init", "return", "id:s"]
def fp_drpcmanager_manager_NewWithOptions : List String :=
  ["=m", "id:m", "u&", "id:Manager", "id:tr", "id:tr", "id:wr", "call:drpcwire.NewWriter", "id:drpcwire", 
    "id:NewWriter", "id:tr", "id:opts", "id:WriterBufferSize", "id:rd", "call:drpcwire.NewReaderWithOptions", 
    "id:drpcwire", "id:NewReaderWithOptions", "id:tr", "id:opts", "id:Reader", "id:opts", "id:opts", 
    "id:pkts", "call:make", "id:make", "id:drpcwire", "id:Packet", "id:sfin", "call:make", "id:make", 
    "1", "id:streams", "call:make", "id:make", "id:streamInfo", "call:m.sbuf.init", "id:m", "id:sbuf", 
    "id:init", "call:m.sem.Make", "id:m", "id:sem", "id:Make", "1", "call:m.pdone.Make", "id:m", 
    "id:pdone", "id:Make", "1", "call:drpcopts.SetStreamTransport", "id:drpcopts", "id:SetStreamTransport", 
    "u&", "id:m", "id:opts", "id:Stream", "id:Internal", "id:m", "id:tr", "call:drpcopts.SetStreamFin", 
    "id:drpcopts", "id:SetStreamFin", "u&", "id:m", "id:opts", "id:Stream", "id:Internal", "id:m", 
    "id:sfin", "go", "call:m.manageReader", "id:m", "id:manageReader", "go", "call:m.manageStreams", 
    "id:m", "id:manageStreams", "return", "id:m"]
def fp_drpcmanager_manager_Manager_acquireSemaphore : List String :=
  ["if", "=err", "=ok", "id:err", "id:ok", "call:m.sigs.term.Get", "id:m", "id:sigs", "id:term", 
    "id:Get", "id:ok", "return", "id:err", "if", "=err", "id:err", "call:ctx.Err", "id:ctx", "id:Err", 
    "!=", "id:err", "id:nil", "return", "id:err", "select", "u<-", "call:ctx.Done", "id:ctx", "id:Done", 
    "return", "call:ctx.Err", "id:ctx", "id:Err", "u<-", "call:m.sigs.term.Signal", "id:m", "id:sigs", 
    "id:term", "id:Signal", "return", "call:m.sigs.term.Err", "id:m", "id:sigs", "id:term", "id:Err", 
    "send", "call:m.sem.Get", "id:m", "id:sem", "id:Get", "call:drpcdebug.Event", "id:drpcdebug", 
    "id:Event", "id:m", "s:sem.acq", "0", "if", "=err", "id:err", "call:m.waitForPreviousStream", 
    "id:m", "id:waitForPreviousStream", "id:ctx", "!=", "id:err", "id:nil", "call:drpcdebug.Event", 
    "id:drpcdebug", "id:Event", "id:m", "s:sem.rel", "0", "call:m.sem.Recv", "id:m", "id:sem", 
    "id:Recv", "return", "id:err", "return", "id:nil"]
def fp_drpcmanager_manager_Manager_waitForPreviousStream : List String :=
  ["=prev", "id:prev", "call:m.sbuf.Get", "id:m", "id:sbuf", "id:Get", "if", "==", "id:prev", 
    "id:nil", "call:drpcdebug.Event", "id:drpcdebug", "id:Event", "id:m", "s:prev.none", "0", "return", 
    "id:nil", "if", "call:prev.IsFinished", "id:prev", "id:IsFinished", "call:drpcdebug.Event", 
    "id:drpcdebug", "id:Event", "id:m", "s:prev.done", "call:prev.ID", "id:prev", "id:ID", "return", 
    "id:nil", "call:m.log", "id:m", "id:log", "s:WAIT", "id:prev", "id:String", "select", "u<-", 
    "call:ctx.Done", "id:ctx", "id:Done", "return", "call:ctx.Err", "id:ctx", "id:Err", "u<-", 
    "call:m.sigs.term.Signal", "id:m", "id:sigs", "id:term", "id:Signal", "return", "call:m.sigs.term.Err", 
    "id:m", "id:sigs", "id:term", "id:Err", "u<-", "call:prev.Finished", "id:prev", "id:Finished", 
    "call:drpcdebug.Event", "id:drpcdebug", "id:Event", "id:m", "s:prev.done", "call:prev.ID", 
    "id:prev", "id:ID", "return", "id:nil"]
def fp_drpcmanager_manager_Manager_terminate : List String :=
  ["if", "call:m.sigs.term.Set", "id:m", "id:sigs", "id:term", "id:Set", "id:err", "call:drpcdebug.Event", 
    "id:drpcdebug", "id:Event", "id:m", "s:term", "0", "call:m.log", "id:m", "id:log", "s:TERM", 
    "id:string", "return", "call:fmt.Sprint", "id:fmt", "id:Sprint", "id:err", "call:drpcdebug.Event", 
    "id:drpcdebug", "id:Event", "id:m", "s:tport.close", "0", "call:m.sigs.tport.Set", "id:m", 
    "id:sigs", "id:tport", "id:Set", "call:m.tr.Close", "id:m", "id:tr", "id:Close", "call:m.sbuf.Close", 
    "id:m", "id:sbuf", "id:Close"]
def fp_drpcmanager_manager_Manager_manageReader : List String :=
  ["defer", "call:m.sigs.read.Set", "id:m", "id:sigs", "id:read", "id:Set", "id:nil", "id:pkt", 
    "id:drpcwire", "id:Packet", "id:err", "id:error", "id:run", "id:int", "id:invoked", "id:uint64", 
    "for", "u!", "call:m.sigs.term.IsSet", "id:m", "id:sigs", "id:term", "id:IsSet", "if", ">", 
    "id:run", "10", "=pkt.Data", "id:pkt", "id:Data", "id:nil", "=run", "id:run", "0", "=pkt", 
    "=err", "id:pkt", "id:err", "call:m.rd.ReadPacketUsing", "id:m", "id:rd", "id:ReadPacketUsing", 
    "slice", "id:pkt", "id:Data", "0", "if", "!=", "id:err", "id:nil", "if", "call:isConnectionReset", 
    "id:isConnectionReset", "id:err", "=err", "id:err", "call:drpc.ClosedError.Wrap", "id:drpc", 
    "id:ClosedError", "id:Wrap", "id:err", "call:m.terminate", "id:m", "id:terminate", "call:managerClosed.Wrap", 
    "id:managerClosed", "id:Wrap", "id:err", "return", "if", "<", "call:len", "id:len", "id:pkt", 
    "id:Data", "/", "call:cap", "id:cap", "id:pkt", "id:Data", "4", "++", "id:run", "=run", "id:run", 
    "0", "call:m.log", "id:m", "id:log", "s:READ", "id:pkt", "id:String", "id:again", "switch", 
    "=curr", "id:curr", "call:m.sbuf.Get", "id:m", "id:sbuf", "id:Get", "case", "&&", "!=", "id:curr", 
    "id:nil", "==", "id:pkt", "id:ID", "id:Stream", "call:curr.ID", "id:curr", "id:ID", "call:drpcdebug.Event", 
    "id:drpcdebug", "id:Event", "id:m", "s:rd.deliver", "id:pkt", "id:ID", "id:Stream", "if", "=err", 
    "id:err", "call:curr.HandlePacket", "id:curr", "id:HandlePacket", "id:pkt", "!=", "id:err", 
    "id:nil", "call:m.terminate", "id:m", "id:terminate", "call:managerClosed.Wrap", "id:managerClosed", 
    "id:Wrap", "id:err", "return", "case", "&&", "!=", "id:curr", "id:nil", "<", "id:pkt", "id:ID", 
    "id:Stream", "call:curr.ID", "id:curr", "id:ID", "call:drpcdebug.Event", "id:drpcdebug", "id:Event", 
    "id:m", "s:rd.drop", "id:pkt", "id:ID", "id:Stream", "case", "||", "==", "id:pkt", "id:Kind", 
    "id:drpcwire", "id:KindInvoke", "==", "id:pkt", "id:Kind", "id:drpcwire", "id:KindInvokeMetadata", 
    "if", "&&", "!=", "id:curr", "id:nil", "u!", "call:curr.IsTerminated", "id:curr", "id:IsTerminated", 
    "call:curr.Cancel", "id:curr", "id:Cancel", "id:context", "id:Canceled", "if", "==", "id:pkt", 
    "id:Kind", "id:drpcwire", "id:KindInvoke", "=invoked", "id:invoked", "id:pkt", "id:ID", "id:Stream", 
    "call:drpcdebug.Event", "id:drpcdebug", "id:Event", "id:m", "s:rd.queue", "id:pkt", "id:ID", 
    "id:Stream", "select", "send", "id:m", "id:pkts", "id:pkt", "call:m.pdone.Recv", "id:m", "id:pdone", 
    "id:Recv", "u<-", "call:m.sigs.term.Signal", "id:m", "id:sigs", "id:term", "id:Signal", "return", 
    "default", "if", "&&", "!=", "id:curr", "id:nil", "u!", "call:curr.IsTerminated", "id:curr", 
    "id:IsTerminated", "call:curr.Cancel", "id:curr", "id:Cancel", "id:context", "id:Canceled", 
    "if", "!=", "id:pkt", "id:ID", "id:Stream", "id:invoked", "call:drpcdebug.Event", "id:drpcdebug", 
    "id:Event", "id:m", "s:rd.orphan", "id:pkt", "id:ID", "id:Stream", "break", "call:drpcdebug.Event", 
    "id:drpcdebug", "id:Event", "id:m", "s:rd.wait", "id:pkt", "id:ID", "id:Stream", "if", "u!", 
    "call:m.sbuf.Wait", "id:m", "id:sbuf", "id:Wait", "call:curr.ID", "id:curr", "id:ID", "return", 
    "goto", "id:again"]
def fp_drpcmanager_manager_Manager_newStream : List String :=
  ["=opts", "id:opts", "id:m", "id:opts", "id:Stream", "call:drpcopts.SetStreamKind", "id:drpcopts", 
    "id:SetStreamKind", "u&", "id:opts", "id:Internal", "id:kind", "call:drpcopts.SetStreamRPC", 
    "id:drpcopts", "id:SetStreamRPC", "u&", "id:opts", "id:Internal", "id:rpc", "if", "=cb", "id:cb", 
    "call:drpcopts.GetManagerStatsCB", "id:drpcopts", "id:GetManagerStatsCB", "u&", "id:m", "id:opts", 
    "id:Internal", "!=", "id:cb", "id:nil", "call:drpcopts.SetStreamStats", "id:drpcopts", "id:SetStreamStats", 
    "u&", "id:opts", "id:Internal", "call:cb", "id:cb", "id:rpc", "=stream", "id:stream", "call:drpcstream.NewWithOptions", 
    "id:drpcstream", "id:NewWithOptions", "id:ctx", "id:sid", "id:m", "id:wr", "id:opts", "call:drpcdebug.Event", 
    "id:drpcdebug", "id:Event", "id:m", "s:stream.new.begin", "id:sid", "call:m.sbuf.Set", "id:m", 
    "id:sbuf", "id:Set", "id:stream", "call:drpcdebug.Event", "id:drpcdebug", "id:Event", "id:m", 
    "s:stream.new.end", "id:sid", "call:drpcdebug.Event", "id:drpcdebug", "id:Event", "id:m", "s:stream.new.offer", 
    "id:sid", "select", "send", "id:m", "id:streams", "id:streamInfo", "id:ctx", "id:ctx", "id:stream", 
    "id:stream", "call:drpcdebug.Point", "id:drpcdebug", "id:Point", "s:manager.newStream.handoff", 
    "call:m.log", "id:m", "id:log", "s:STREAM", "id:stream", "id:String", "return", "id:stream", 
    "id:nil", "u<-", "call:m.sigs.term.Signal", "id:m", "id:sigs", "id:term", "id:Signal", "call:drpcdebug.Event", 
    "id:drpcdebug", "id:Event", "id:m", "s:stream.new.retract", "id:sid", "return", "id:nil", "call:m.sigs.term.Err", 
    "id:m", "id:sigs", "id:term", "id:Err"]
def fp_drpcmanager_manager_Manager_manageStreams : List String :=
  ["defer", "call:m.sigs.stream.Set", "id:m", "id:sigs", "id:stream", "id:Set", "id:nil", "for", 
    "select", "=si", "id:si", "u<-", "id:m", "id:streams", "call:m.manageStream", "id:m", "id:manageStream", 
    "id:si", "id:ctx", "id:si", "id:stream", "u<-", "call:m.sigs.term.Signal", "id:m", "id:sigs", 
    "id:term", "id:Signal", "return"]
def fp_drpcmanager_manager_Manager_manageStream : List String :=
  ["call:drpcdebug.Point", "id:drpcdebug", "id:Point", "s:manager.manageStream.enter", "select", 
    "u<-", "call:m.sigs.term.Signal", "id:m", "id:sigs", "id:term", "id:Signal", "=err", "id:err", 
    "call:m.sigs.term.Err", "id:m", "id:sigs", "id:term", "id:Err", "if", "call:errors.Is", "id:errors", 
    "id:Is", "id:err", "id:io", "id:EOF", "=err", "id:err", "id:context", "id:Canceled", "call:stream.Cancel", 
    "id:stream", "id:Cancel", "id:err", "u<-", "id:m", "id:sfin", "call:drpcdebug.Event", "id:drpcdebug", 
    "id:Event", "id:m", "s:sfin.recv", "call:stream.ID", "id:stream", "id:ID", "call:drpcdebug.Event", 
    "id:drpcdebug", "id:Event", "id:m", "s:sem.rel", "0", "call:m.sem.Recv", "id:m", "id:sem", 
    "id:Recv", "u<-", "id:m", "id:sfin", "call:drpcdebug.Event", "id:drpcdebug", "id:Event", "id:m", 
    "s:sfin.recv", "call:stream.ID", "id:stream", "id:ID", "call:drpcdebug.Event", "id:drpcdebug", 
    "id:Event", "id:m", "s:sem.rel", "0", "call:m.sem.Recv", "id:m", "id:sem", "id:Recv", "u<-", 
    "call:ctx.Done", "id:ctx", "id:Done", "call:m.log", "id:m", "id:log", "s:CANCEL", "id:stream", 
    "id:String", "if", "id:m", "id:opts", "id:SoftCancel", "if", "=busy", "=err", "id:busy", "id:err", 
    "call:stream.SendCancel", "id:stream", "id:SendCancel", "call:ctx.Err", "id:ctx", "id:Err", 
    "!=", "id:err", "id:nil", "call:m.terminate", "id:m", "id:terminate", "id:err", "if", "id:busy", 
    "call:m.log", "id:m", "id:log", "s:BUSY", "id:stream", "id:String", "call:m.terminate", "id:m", 
    "id:terminate", "call:ctx.Err", "id:ctx", "id:Err", "call:stream.Cancel", "id:stream", "id:Cancel", 
    "call:ctx.Err", "id:ctx", "id:Err", "u<-", "id:m", "id:sfin", "call:drpcdebug.Event", "id:drpcdebug", 
    "id:Event", "id:m", "s:sfin.recv", "call:stream.ID", "id:stream", "id:ID", "call:drpcdebug.Event", 
    "id:drpcdebug", "id:Event", "id:m", "s:sem.rel", "0", "call:m.sem.Recv", "id:m", "id:sem", 
    "id:Recv", "if", "u!", "call:stream.Cancel", "id:stream", "id:Cancel", "call:ctx.Err", "id:ctx", 
    "id:Err", "call:m.log", "id:m", "id:log", "s:UNFIN", "id:stream", "id:String", "call:m.terminate", 
    "id:m", "id:terminate", "call:ctx.Err", "id:ctx", "id:Err", "call:m.log", "id:m", "id:log", 
    "s:CLEAN", "id:stream", "id:String", "u<-", "id:m", "id:sfin", "call:drpcdebug.Event", "id:drpcdebug", 
    "id:Event", "id:m", "s:sfin.recv", "call:stream.ID", "id:stream", "id:ID", "call:drpcdebug.Event", 
    "id:drpcdebug", "id:Event", "id:m", "s:sem.rel", "0", "call:m.sem.Recv", "id:m", "id:sem", 
    "id:Recv"]
def fp_drpcmanager_manager_Manager_Close : List String :=
  ["call:m.terminate", "id:m", "id:terminate", "call:managerClosed.New", "id:managerClosed", "id:New", 
    "s:Close called", "call:m.sigs.stream.Wait", "id:m", "id:sigs", "id:stream", "id:Wait", "call:m.sigs.read.Wait", 
    "id:m", "id:sigs", "id:read", "id:Wait", "call:m.sigs.tport.Wait", "id:m", "id:sigs", "id:tport", 
    "id:Wait", "return", "call:m.sigs.tport.Err", "id:m", "id:sigs", "id:tport", "id:Err"]
def fp_drpcmanager_manager_Manager_NewClientStream : List String :=
  ["if", "=err", "id:err", "call:m.acquireSemaphore", "id:m", "id:acquireSemaphore", "id:ctx", 
    "!=", "id:err", "id:nil", "return", "id:nil", "id:err", "return", "call:m.newStream", "id:m", 
    "id:newStream", "id:ctx", "+", "call:m.sbuf.Get().ID", "call:m.sbuf.Get", "id:m", "id:sbuf", 
    "id:Get", "id:ID", "1", "s:cli", "id:rpc"]
def fp_drpcmanager_manager_Manager_NewServerStream : List String :=
  ["if", "=err", "id:err", "call:m.acquireSemaphore", "id:m", "id:acquireSemaphore", "id:ctx", 
    "!=", "id:err", "id:nil", "return", "id:nil", "s:", "id:err", "defer", "call:func", "if", "!=", 
    "id:err", "id:nil", "call:drpcdebug.Event", "id:drpcdebug", "id:Event", "id:m", "s:sem.rel", 
    "0", "call:m.sem.Recv", "id:m", "id:sem", "id:Recv", "id:meta", "id:string", "id:string", "id:metaID", 
    "id:uint64", "id:timeoutCh", "id:time", "id:Time", "if", "=timeout", "id:timeout", "id:m", 
    "id:opts", "id:InactivityTimeout", ">", "id:timeout", "0", "=timer", "id:timer", "call:time.NewTimer", 
    "id:time", "id:NewTimer", "id:timeout", "defer", "call:timer.Stop", "id:timer", "id:Stop", 
    "=timeoutCh", "id:timeoutCh", "id:timer", "id:C", "for", "select", "u<-", "id:timeoutCh", "return", 
    "id:nil", "s:", "id:context", "id:DeadlineExceeded", "u<-", "call:ctx.Done", "id:ctx", "id:Done", 
    "return", "id:nil", "s:", "call:ctx.Err", "id:ctx", "id:Err", "u<-", "call:m.sigs.term.Signal", 
    "id:m", "id:sigs", "id:term", "id:Signal", "return", "id:nil", "s:", "call:m.sigs.term.Err", 
    "id:m", "id:sigs", "id:term", "id:Err", "=pkt", "id:pkt", "u<-", "id:m", "id:pkts", "switch", 
    "id:pkt", "id:Kind", "case", "id:drpcwire", "id:KindInvokeMetadata", "=meta", "=err", "id:meta", 
    "id:err", "call:drpcmetadata.Decode", "id:drpcmetadata", "id:Decode", "id:pkt", "id:Data", 
    "call:m.pdone.Send", "id:m", "id:pdone", "id:Send", "if", "!=", "id:err", "id:nil", "return", 
    "id:nil", "s:", "id:err", "=metaID", "id:metaID", "id:pkt", "id:ID", "id:Stream", "case", "id:drpcwire", 
    "id:KindInvoke", "=rpc", "id:rpc", "call:string", "id:string", "id:pkt", "id:Data", "call:m.pdone.Send", 
    "id:m", "id:pdone", "id:Send", "if", "==", "id:metaID", "id:pkt", "id:ID", "id:Stream", "=ctx", 
    "id:ctx", "call:drpcmetadata.AddPairs", "id:drpcmetadata", "id:AddPairs", "id:ctx", "id:meta", 
    "=stream", "=err", "id:stream", "id:err", "call:m.newStream", "id:m", "id:newStream", "id:ctx", 
    "id:pkt", "id:ID", "id:Stream", "s:srv", "id:rpc", "return", "id:stream", "id:rpc", "id:err", 
    "default", "call:m.pdone.Send", "id:m", "id:pdone", "id:Send"]
def fp_drpcmanager_manager_Manager_Unblocked : List String :=
  ["if", "=prev", "id:prev", "call:m.sbuf.Get", "id:m", "id:sbuf", "id:Get", "!=", "id:prev", 
    "id:nil", "return", "call:prev.Context().Done", "call:prev.Context", "id:prev", "id:Context", 
    "id:Done", "return", "id:closedCh"]
def fp_drpcmanager_streambuf_streamBuffer_Close : List String :=
  ["call:sb.mu.Lock", "id:sb", "id:mu", "id:Lock", "defer", "call:sb.mu.Unlock", "id:sb", "id:mu", 
    "id:Unlock", "=sb.closed", "id:sb", "id:closed", "id:true", "call:sb.cond.Broadcast", "id:sb", 
    "id:cond", "id:Broadcast"]
def fp_drpcmanager_streambuf_streamBuffer_Set : List String :=
  ["call:sb.mu.Lock", "id:sb", "id:mu", "id:Lock", "defer", "call:sb.mu.Unlock", "id:sb", "id:mu", 
    "id:Unlock", "if", "id:sb", "id:closed", "return", "call:sb.stream.Store", "id:sb", "id:stream", 
    "id:Store", "id:stream", "call:sb.cond.Broadcast", "id:sb", "id:cond", "id:Broadcast"]
def fp_drpcmanager_streambuf_streamBuffer_Wait : List String :=
  ["call:sb.mu.Lock", "id:sb", "id:mu", "id:Lock", "defer", "call:sb.mu.Unlock", "id:sb", "id:mu", 
    "id:Unlock", "for", "&&", "u!", "id:sb", "id:closed", "==", "call:sb.Get().ID", "call:sb.Get", 
    "id:sb", "id:Get", "id:ID", "id:sid", "call:sb.cond.Wait", "id:sb", "id:cond", "id:Wait", "return", 
    "u!", "id:sb", "id:closed"]
def fp_drpcmanager_streambuf_streamBuffer_Get : List String :=
  ["return", "call:sb.stream.Load", "id:sb", "id:stream", "id:Load"]
def fp_drpcconn_conn_Conn_Invoke : List String :=
  ["id:metadata", "id:byte", "if", "=md", "=ok", "id:md", "id:ok", "call:drpcmetadata.Get", "id:drpcmetadata", 
    "id:Get", "id:ctx", "id:ok", "=metadata", "=err", "id:metadata", "id:err", "call:drpcmetadata.Encode", 
    "id:drpcmetadata", "id:Encode", "id:metadata", "id:md", "if", "!=", "id:err", "id:nil", "return", 
    "id:err", "=stream", "=err", "id:stream", "id:err", "call:c.man.NewClientStream", "id:c", "id:man", 
    "id:NewClientStream", "id:ctx", "id:rpc", "if", "!=", "id:err", "id:nil", "return", "id:err", 
    "defer", "call:func", "=err", "id:err", "call:errs.Combine", "id:errs", "id:Combine", "id:err", 
    "call:stream.Close", "id:stream", "id:Close", "call:c.mu.Lock", "id:c", "id:mu", "id:Lock", 
    "defer", "call:c.mu.Unlock", "id:c", "id:mu", "id:Unlock", "=c.wbuf", "=err", "id:c", "id:wbuf", 
    "id:err", "call:drpcenc.MarshalAppend", "id:drpcenc", "id:MarshalAppend", "id:in", "id:enc", 
    "slice", "id:c", "id:wbuf", "0", "if", "!=", "id:err", "id:nil", "return", "id:err", "if", 
    "=err", "id:err", "call:c.doInvoke", "id:c", "id:doInvoke", "id:stream", "id:enc", "id:rpc", 
    "id:c", "id:wbuf", "id:metadata", "id:out", "!=", "id:err", "id:nil", "return", "id:err", "return", 
    "id:nil"]
def fp_drpcconn_conn_Conn_doInvoke : List String :=
  ["if", ">", "call:len", "id:len", "id:metadata", "0", "if", "=err", "id:err", "call:stream.RawWrite", 
    "id:stream", "id:RawWrite", "id:drpcwire", "id:KindInvokeMetadata", "id:metadata", "!=", "id:err", 
    "id:nil", "return", "id:err", "if", "=err", "id:err", "call:stream.RawWrite", "id:stream", 
    "id:RawWrite", "id:drpcwire", "id:KindInvoke", "call:[]byte", "id:byte", "id:rpc", "!=", "id:err", 
    "id:nil", "return", "id:err", "if", "=err", "id:err", "call:stream.RawWrite", "id:stream", 
    "id:RawWrite", "id:drpcwire", "id:KindMessage", "id:data", "!=", "id:err", "id:nil", "return", 
    "id:err", "if", "=err", "id:err", "call:stream.CloseSend", "id:stream", "id:CloseSend", "!=", 
    "id:err", "id:nil", "return", "id:err", "if", "=err", "id:err", "call:stream.MsgRecv", "id:stream", 
    "id:MsgRecv", "id:out", "id:enc", "!=", "id:err", "id:nil", "return", "id:err", "return", "id:nil"]
def fp_drpcconn_conn_Conn_NewStream : List String :=
  ["id:metadata", "id:byte", "if", "=md", "=ok", "id:md", "id:ok", "call:drpcmetadata.Get", "id:drpcmetadata", 
    "id:Get", "id:ctx", "id:ok", "=metadata", "=err", "id:metadata", "id:err", "call:drpcmetadata.Encode", 
    "id:drpcmetadata", "id:Encode", "id:metadata", "id:md", "if", "!=", "id:err", "id:nil", "return", 
    "id:nil", "id:err", "=stream", "=err", "id:stream", "id:err", "call:c.man.NewClientStream", 
    "id:c", "id:man", "id:NewClientStream", "id:ctx", "id:rpc", "if", "!=", "id:err", "id:nil", 
    "return", "id:nil", "id:err", "if", "=err", "id:err", "call:c.doNewStream", "id:c", "id:doNewStream", 
    "id:stream", "id:rpc", "id:metadata", "!=", "id:err", "id:nil", "return", "id:nil", "call:errs.Combine", 
    "id:errs", "id:Combine", "id:err", "call:stream.Close", "id:stream", "id:Close", "return", 
    "id:stream", "id:nil"]
def fp_drpcconn_conn_Conn_doNewStream : List String :=
  ["if", ">", "call:len", "id:len", "id:metadata", "0", "if", "=err", "id:err", "call:stream.RawWrite", 
    "id:stream", "id:RawWrite", "id:drpcwire", "id:KindInvokeMetadata", "id:metadata", "!=", "id:err", 
    "id:nil", "return", "id:err", "if", "=err", "id:err", "call:stream.RawWrite", "id:stream", 
    "id:RawWrite", "id:drpcwire", "id:KindInvoke", "call:[]byte", "id:byte", "id:rpc", "!=", "id:err", 
    "id:nil", "return", "id:err", "return", "id:nil"]
def fp_drpcserver_server_Server_ServeOne : List String :=
  ["=man", "id:man", "call:drpcmanager.NewWithOptions", "id:drpcmanager", "id:NewWithOptions", 
    "id:tr", "id:s", "id:opts", "id:Manager", "defer", "call:func", "=err", "id:err", "call:errs.Combine", 
    "id:errs", "id:Combine", "id:err", "call:man.Close", "id:man", "id:Close", "=cache", "id:cache", 
    "call:drpccache.New", "id:drpccache", "id:New", "defer", "call:cache.Clear", "id:cache", "id:Clear", 
    "=ctx", "id:ctx", "call:drpccache.WithContext", "id:drpccache", "id:WithContext", "id:ctx", 
    "id:cache", "for", "=stream", "=rpc", "=err", "id:stream", "id:rpc", "id:err", "call:man.NewServerStream", 
    "id:man", "id:NewServerStream", "id:ctx", "if", "!=", "id:err", "id:nil", "return", "call:errs.Wrap", 
    "id:errs", "id:Wrap", "id:err", "if", "=err", "id:err", "call:s.handleRPC", "id:s", "id:handleRPC", 
    "id:stream", "id:rpc", "!=", "id:err", "id:nil", "return", "call:errs.Wrap", "id:errs", "id:Wrap", 
    "id:err"]
def fp_drpcserver_server_Server_Serve : List String :=
  ["=tracker", "id:tracker", "call:drpcctx.NewTracker", "id:drpcctx", "id:NewTracker", "id:ctx", 
    "defer", "call:tracker.Wait", "id:tracker", "id:Wait", "defer", "call:tracker.Cancel", "id:tracker", 
    "id:Cancel", "call:tracker.Run", "id:tracker", "id:Run", "id:ctx", "id:context", "id:Context", 
    "u<-", "call:ctx.Done", "id:ctx", "id:Done", "=_", "id:_", "call:lis.Close", "id:lis", "id:Close", 
    "for", "=conn", "=err", "id:conn", "id:err", "call:lis.Accept", "id:lis", "id:Accept", "if", 
    "!=", "id:err", "id:nil", "if", "!=", "call:ctx.Err", "id:ctx", "id:Err", "id:nil", "return", 
    "id:nil", "if", "call:isTemporary", "id:isTemporary", "id:err", "if", "!=", "id:s", "id:opts", 
    "id:Log", "id:nil", "call:s.opts.Log", "id:s", "id:opts", "id:Log", "id:err", "=t", "id:t", 
    "call:time.NewTimer", "id:time", "id:NewTimer", "id:temporarySleep", "select", "u<-", "id:t", 
    "id:C", "u<-", "call:ctx.Done", "id:ctx", "id:Done", "call:t.Stop", "id:t", "id:Stop", "return", 
    "id:nil", "continue", "return", "call:errs.Wrap", "id:errs", "id:Wrap", "id:err", "call:tracker.Run", 
    "id:tracker", "id:Run", "id:ctx", "id:context", "id:Context", "=err", "id:err", "call:s.ServeOne", 
    "id:s", "id:ServeOne", "id:ctx", "id:conn", "if", "&&", "!=", "id:err", "id:nil", "!=", "id:s", 
    "id:opts", "id:Log", "id:nil", "call:s.opts.Log", "id:s", "id:opts", "id:Log", "id:err"]
def fp_drpcserver_server_Server_handleRPC : List String :=
  ["=err", "id:err", "call:s.handler.HandleRPC", "id:s", "id:handler", "id:HandleRPC", "id:stream", 
    "id:rpc", "if", "!=", "id:err", "id:nil", "return", "call:errs.Wrap", "id:errs", "id:Wrap", 
    "call:stream.SendError", "id:stream", "id:SendError", "id:err", "=err", "id:err", "call:stream.CloseSend", 
    "id:stream", "id:CloseSend", "call:stream.Cancel", "id:stream", "id:Cancel", "id:context", 
    "id:Canceled", "return", "call:errs.Wrap", "id:errs", "id:Wrap", "id:err"]
def fp_drpcmux_handle_rpc_Mux_HandleRPC : List String :=
  ["=data", "=ok", "id:data", "id:ok", "index", "id:m", "id:rpcs", "id:rpc", "if", "u!", "id:ok", 
    "return", "call:drpc.ProtocolError.New", "id:drpc", "id:ProtocolError", "id:New", "s:unknown rpc: %q", 
    "id:rpc", "=in", "id:in", "call:interface", "id:stream", "if", "!=", "id:data", "id:in1", "id:streamType", 
    "=msg", "=ok", "id:msg", "id:ok", "call:reflect.New().Interface", "call:reflect.New", "id:reflect", 
    "id:New", "call:data.in1.Elem", "id:data", "id:in1", "id:Elem", "id:Interface", "id:drpc", 
    "id:Message", "if", "u!", "id:ok", "return", "call:drpc.InternalError.New", "id:drpc", "id:InternalError", 
    "id:New", "s:invalid rpc input type", "if", "=err", "id:err", "call:stream.MsgRecv", "id:stream", 
    "id:MsgRecv", "id:msg", "id:data", "id:enc", "!=", "id:err", "id:nil", "return", "call:errs.Wrap", 
    "id:errs", "id:Wrap", "id:err", "=in", "id:in", "id:msg", "=out", "=err", "id:out", "id:err", 
    "call:data.receiver", "id:data", "id:receiver", "id:data", "id:srv", "call:stream.Context", 
    "id:stream", "id:Context", "id:in", "id:stream", "switch", "case", "!=", "id:err", "id:nil", 
    "return", "call:errs.Wrap", "id:errs", "id:Wrap", "id:err", "case", "&&", "!=", "id:out", "id:nil", 
    "u!", "call:reflect.ValueOf().IsNil", "call:reflect.ValueOf", "id:reflect", "id:ValueOf", "id:out", 
    "id:IsNil", "return", "call:stream.MsgSend", "id:stream", "id:MsgSend", "id:out", "id:data", 
    "id:enc", "default", "return", "call:stream.CloseSend", "id:stream", "id:CloseSend"]
def fp_drpcmux_mux_Mux_registerOne : List String :=
  ["=data", "id:data", "id:rpcData", "id:srv", "id:srv", "id:enc", "id:enc", "id:receiver", "id:receiver", 
    "switch", "=mt", "id:mt", "call:reflect.TypeOf", "id:reflect", "id:TypeOf", "id:method", "case", 
    "==", "call:mt.NumOut", "id:mt", "id:NumOut", "2", "=data.unitary", "id:data", "id:unitary", 
    "id:true", "=data.in1", "id:data", "id:in1", "call:mt.In", "id:mt", "id:In", "2", "if", "u!", 
    "call:data.in1.Implements", "id:data", "id:in1", "id:Implements", "id:messageType", "return", 
    "call:errs.New", "id:errs", "id:New", "s:input argument not a drpc message: %v", "id:data", 
    "id:in1", "case", "==", "call:mt.NumIn", "id:mt", "id:NumIn", "3", "=data.in1", "id:data", 
    "id:in1", "call:mt.In", "id:mt", "id:In", "1", "if", "u!", "call:data.in1.Implements", "id:data", 
    "id:in1", "id:Implements", "id:messageType", "return", "call:errs.New", "id:errs", "id:New", 
    "s:input argument not a drpc message: %v", "id:data", "id:in1", "=data.in2", "id:data", "id:in2", 
    "id:streamType", "case", "==", "call:mt.NumIn", "id:mt", "id:NumIn", "2", "=data.in1", "id:data", 
    "id:in1", "id:streamType", "default", "return", "call:errs.New", "id:errs", "id:New", "s:unknown method type: %v", 
    "id:mt", "=m.rpcs", "index", "id:m", "id:rpcs", "id:rpc", "id:data", "return", "id:nil"]
def fp_drpcmux_mux_Mux_Register : List String :=
  ["=n", "id:n", "call:desc.NumMethods", "id:desc", "id:NumMethods", "for", "=i", "id:i", "0", 
    "<", "id:i", "id:n", "++", "id:i", "=rpc", "=enc", "=receiver", "=method", "=ok", "id:rpc", 
    "id:enc", "id:receiver", "id:method", "id:ok", "call:desc.Method", "id:desc", "id:Method", 
    "id:i", "if", "u!", "id:ok", "return", "call:errs.New", "id:errs", "id:New", "s:Description returned invalid method for index %d", 
    "id:i", "if", "=err", "id:err", "call:m.registerOne", "id:m", "id:registerOne", "id:srv", "id:rpc", 
    "id:enc", "id:receiver", "id:method", "!=", "id:err", "id:nil", "return", "id:err", "return", 
    "id:nil"]
def fp_drpcpool_pool_Pool_Close : List String :=
  ["call:p.mu.Lock", "id:p", "id:mu", "id:Lock", "defer", "call:p.mu.Unlock", "id:p", "id:mu", 
    "id:Unlock", "id:eg", "id:errs", "id:Group", "for", "=ent", "id:ent", "id:p", "id:order", "id:head", 
    "!=", "id:ent", "id:nil", "=ent", "id:ent", "id:ent", "id:global", "id:next", "call:eg.Add", 
    "id:eg", "id:Add", "call:p.closeEntry", "id:p", "id:closeEntry", "id:ent", "=ent.global.removed", 
    "id:ent", "id:global", "id:removed", "id:true", "=ent.local.removed", "id:ent", "id:local", 
    "id:removed", "id:true", "=p.entries", "id:p", "id:entries", "call:make", "id:make", "id:K", 
    "id:list", "id:K", "id:V", "=p.order", "id:p", "id:order", "id:list", "id:K", "id:V", "return", 
    "call:eg.Err", "id:eg", "id:Err"]
def fp_drpcpool_pool_Pool_removeEntry : List String :=
  ["call:p.mu.Lock", "id:p", "id:mu", "id:Lock", "defer", "call:p.mu.Unlock", "id:p", "id:mu", 
    "id:Unlock", "=local", "id:local", "index", "id:p", "id:entries", "id:ent", "id:key", "if", 
    "==", "id:local", "id:nil", "return", "call:local.removeEntry", "id:local", "id:removeEntry", 
    "id:ent", "id:entry", "id:K", "id:V", "id:localList", "call:p.order.removeEntry", "id:p", "id:order", 
    "id:removeEntry", "id:ent", "id:entry", "id:K", "id:V", "id:globalList", "if", "==", "id:local", 
    "id:count", "0", "call:delete", "id:delete", "id:p", "id:entries", "id:ent", "id:key"]
def fp_drpcpool_pool_Pool_closeEntry : List String :=
  ["call:p.log", "id:p", "id:log", "s:CLOSE", "id:ent", "id:String", "if", "||", "==", "id:ent", 
    "id:exp", "id:nil", "call:ent.exp.Stop", "id:ent", "id:exp", "id:Stop", "return", "call:ent.val.Close", 
    "id:ent", "id:val", "id:Close", "return", "id:nil"]
def fp_drpcpool_pool_Pool_Take : List String :=
  ["call:p.mu.Lock", "id:p", "id:mu", "id:Lock", "defer", "call:p.mu.Unlock", "id:p", "id:mu", 
    "id:Unlock", "=local", "id:local", "index", "id:p", "id:entries", "id:key", "if", "==", "id:local", 
    "id:nil", "return", "call:new", "id:new", "id:V", "id:false", "for", "=ent", "id:ent", "id:local", 
    "id:head", "!=", "id:ent", "id:nil", "=ent", "id:ent", "id:ent", "id:local", "id:next", "if", 
    "u!", "call:closed", "id:closed", "call:ent.val.Unblocked", "id:ent", "id:val", "id:Unblocked", 
    "continue", "call:local.removeEntry", "id:local", "id:removeEntry", "id:ent", "id:entry", "id:K", 
    "id:V", "id:localList", "call:p.order.removeEntry", "id:p", "id:order", "id:removeEntry", "id:ent", 
    "id:entry", "id:K", "id:V", "id:globalList", "if", "&&", "!=", "id:ent", "id:exp", "id:nil", 
    "u!", "call:ent.exp.Stop", "id:ent", "id:exp", "id:Stop", "continue", "if", "call:closed", 
    "id:closed", "call:ent.val.Closed", "id:ent", "id:val", "id:Closed", "continue", "call:p.log", 
    "id:p", "id:log", "s:TAKEN", "id:ent", "id:String", "return", "id:ent", "id:val", "id:true", 
    "return", "call:new", "id:new", "id:V", "id:false"]
def fp_drpcpool_pool_Pool_Put : List String :=
  ["if", "||", "<", "id:p", "id:opts", "id:Capacity", "0", "<", "id:p", "id:opts", "id:KeyCapacity", 
    "0", "=_", "id:_", "call:val.Close", "id:val", "id:Close", "return", "if", "call:closed", "id:closed", 
    "call:val.Closed", "id:val", "id:Closed", "return", "call:p.mu.Lock", "id:p", "id:mu", "id:Lock", 
    "defer", "call:p.mu.Unlock", "id:p", "id:mu", "id:Unlock", "=local", "id:local", "index", "id:p", 
    "id:entries", "id:key", "if", "==", "id:local", "id:nil", "=local", "id:local", "call:new", 
    "id:new", "id:list", "id:K", "id:V", "=p.entries", "index", "id:p", "id:entries", "id:key", 
    "id:local", "for", "&&", "!=", "id:p", "id:opts", "id:KeyCapacity", "0", ">=", "id:local", 
    "id:count", "id:p", "id:opts", "id:KeyCapacity", "=ent", "id:ent", "id:local", "id:head", "=_", 
    "id:_", "call:p.closeEntry", "id:p", "id:closeEntry", "id:ent", "call:local.removeEntry", "id:local", 
    "id:removeEntry", "id:ent", "id:entry", "id:K", "id:V", "id:localList", "call:p.order.removeEntry", 
    "id:p", "id:order", "id:removeEntry", "id:ent", "id:entry", "id:K", "id:V", "id:globalList", 
    "for", "&&", "!=", "id:p", "id:opts", "id:Capacity", "0", ">=", "id:p", "id:order", "id:count", 
    "id:p", "id:opts", "id:Capacity", "=ent", "id:ent", "id:p", "id:order", "id:head", "=entLocal", 
    "id:entLocal", "index", "id:p", "id:entries", "id:ent", "id:key", "=_", "id:_", "call:p.closeEntry", 
    "id:p", "id:closeEntry", "id:ent", "call:entLocal.removeEntry", "id:entLocal", "id:removeEntry", 
    "id:ent", "id:entry", "id:K", "id:V", "id:localList", "call:p.order.removeEntry", "id:p", "id:order", 
    "id:removeEntry", "id:ent", "id:entry", "id:K", "id:V", "id:globalList", "if", "&&", "==", 
    "id:entLocal", "id:count", "0", "!=", "id:entLocal", "id:local", "call:delete", "id:delete", 
    "id:p", "id:entries", "id:ent", "id:key", "=ent", "id:ent", "u&", "id:entry", "id:K", "id:V", 
    "id:key", "id:key", "id:val", "id:val", "call:local.appendEntry", "id:local", "id:appendEntry", 
    "id:ent", "id:entry", "id:K", "id:V", "id:localList", "call:p.order.appendEntry", "id:p", "id:order", 
    "id:appendEntry", "id:ent", "id:entry", "id:K", "id:V", "id:globalList", "call:p.log", "id:p", 
    "id:log", "s:PUT", "id:ent", "id:String", "if", ">", "id:p", "id:opts", "id:Expiration", "0", 
    "=ent.exp", "id:ent", "id:exp", "call:time.AfterFunc", "id:time", "id:AfterFunc", "id:p", "id:opts", 
    "id:Expiration", "=_", "id:_", "call:val.Close", "id:val", "id:Close", "call:p.removeEntry", 
    "id:p", "id:removeEntry", "id:ent"]
def fp_drpcpool_entry_list_appendEntry : List String :=
  ["if", "==", "id:l", "id:head", "id:nil", "=l.head", "id:l", "id:head", "id:ent", "if", "!=", 
    "id:l", "id:tail", "id:nil", "=node().next", "call:node", "id:node", "id:l", "id:tail", "id:next", 
    "id:ent", "=node().prev", "call:node", "id:node", "id:ent", "id:prev", "id:l", "id:tail", "=l.tail", 
    "id:l", "id:tail", "id:ent", "++", "id:l", "id:count"]
def fp_drpcpool_entry_list_removeEntry : List String :=
  ["=n", "id:n", "call:node", "id:node", "id:ent", "if", "id:n", "id:removed", "return", "=n.removed", 
    "id:n", "id:removed", "id:true", "if", "==", "id:l", "id:head", "id:ent", "=l.head", "id:l", 
    "id:head", "id:n", "id:next", "if", "!=", "id:n", "id:next", "id:nil", "=node().prev", "call:node", 
    "id:node", "id:n", "id:next", "id:prev", "id:n", "id:prev", "if", "==", "id:l", "id:tail", 
    "id:ent", "=l.tail", "id:l", "id:tail", "id:n", "id:prev", "if", "!=", "id:n", "id:prev", "id:nil", 
    "=node().next", "call:node", "id:node", "id:n", "id:prev", "id:next", "id:n", "id:next", "--", 
    "id:l", "id:count"]
def fp_drpcpool_conn_poolConn_Close : List String :=
  ["call:p.done.Close", "id:p", "id:done", "id:Close", "return", "id:nil"]
def fp_drpcpool_conn_poolConn_Invoke : List String :=
  ["if", "call:closed", "id:closed", "call:p.done.Get", "id:p", "id:done", "id:Get", "return", 
    "call:errs.New", "id:errs", "id:New", "s:connection closed", "=conn", "=ok", "id:conn", "id:ok", 
    "call:p.pool.Take", "id:p", "id:pool", "id:Take", "id:p", "id:key", "if", "u!", "id:ok", "=conn", 
    "=err", "id:conn", "id:err", "call:p.dial", "id:p", "id:dial", "id:ctx", "id:p", "id:key", 
    "if", "!=", "id:err", "id:nil", "return", "id:err", "defer", "call:p.pool.Put", "id:p", "id:pool", 
    "id:Put", "id:p", "id:key", "id:conn", "return", "call:conn.Invoke", "id:conn", "id:Invoke", 
    "id:ctx", "id:rpc", "id:enc", "id:in", "id:out"]
def fp_drpcpool_conn_poolConn_NewStream : List String :=
  ["if", "call:closed", "id:closed", "call:p.done.Get", "id:p", "id:done", "id:Get", "return", 
    "id:nil", "call:errs.New", "id:errs", "id:New", "s:connection closed", "=conn", "=ok", "id:conn", 
    "id:ok", "call:p.pool.Take", "id:p", "id:pool", "id:Take", "id:p", "id:key", "if", "u!", "id:ok", 
    "=conn", "=err", "id:conn", "id:err", "call:p.dial", "id:p", "id:dial", "id:ctx", "id:p", "id:key", 
    "if", "!=", "id:err", "id:nil", "return", "id:nil", "id:err", "=stream", "=err", "id:stream", 
    "id:err", "call:conn.NewStream", "id:conn", "id:NewStream", "id:ctx", "id:rpc", "id:enc", "if", 
    "!=", "id:err", "id:nil", "call:p.pool.Put", "id:p", "id:pool", "id:Put", "id:p", "id:key", 
    "id:conn", "return", "id:nil", "id:err", "=sw", "id:sw", "u&", "id:streamWrapper", "id:Stream", 
    "id:stream", "id:ctx", "id:streamWrapperContext", "id:Context", "id:ctx", "go", "call:p.monitorStream", 
    "id:p", "id:monitorStream", "id:stream", "id:conn", "u&", "id:sw", "id:ctx", "id:done", "return", 
    "id:sw", "id:nil"]
def fp_drpcpool_conn_poolConn_monitorStream : List String :=
  ["u<-", "call:stream.Context().Done", "call:stream.Context", "id:stream", "id:Context", "id:Done", 
    "call:p.pool.Put", "id:p", "id:pool", "id:Put", "id:p", "id:key", "id:conn", "call:done.Close", 
    "id:done", "id:Close"]
def fp_drpcmigrate_mux_ListenMux_Route : List String :=
  ["call:m.mu.Lock", "id:m", "id:mu", "id:Lock", "defer", "call:m.mu.Unlock", "id:m", "id:mu", 
    "id:Unlock", "if", "!=", "call:len", "id:len", "id:prefix", "id:m", "id:prefixLen", "call:panic", 
    "id:panic", "call:fmt.Sprintf", "id:fmt", "id:Sprintf", "s:invalid prefix: has %d but needs %d bytes", 
    "call:len", "id:len", "id:prefix", "id:m", "id:prefixLen", "=lis", "=ok", "id:lis", "id:ok", 
    "index", "id:m", "id:routes", "id:prefix", "if", "u!", "id:ok", "=lis", "id:lis", "call:newListener", 
    "id:newListener", "id:m", "id:addr", "=m.routes", "index", "id:m", "id:routes", "id:prefix", 
    "id:lis", "go", "call:m.monitorListener", "id:m", "id:monitorListener", "id:prefix", "id:lis", 
    "return", "id:lis"]
def fp_drpcmigrate_mux_ListenMux_Run : List String :=
  ["=ctx", "=cancel", "id:ctx", "id:cancel", "call:context.WithCancel", "id:context", "id:WithCancel", 
    "id:ctx", "defer", "call:cancel", "id:cancel", "go", "call:m.monitorContext", "id:m", "id:monitorContext", 
    "id:ctx", "go", "call:m.monitorBase", "id:m", "id:monitorBase", "u<-", "id:m", "id:done", "call:m.mu.Lock", 
    "id:m", "id:mu", "id:Lock", "defer", "call:m.mu.Unlock", "id:m", "id:mu", "id:Unlock", "for", 
    "id:_", "id:lis", "id:m", "id:routes", "u<-", "id:lis", "id:done", "=_", "id:_", "call:m.def.Close", 
    "id:m", "id:def", "id:Close", "u<-", "id:m", "id:def", "id:done", "return", "id:m", "id:err"]
def fp_drpcmigrate_mux_ListenMux_monitorContext : List String :=
  ["u<-", "call:ctx.Done", "id:ctx", "id:Done", "call:m.once.Do", "id:m", "id:once", "id:Do", 
    "=_", "id:_", "call:m.base.Close", "id:m", "id:base", "id:Close", "call:close", "id:close", 
    "id:m", "id:done"]
def fp_drpcmigrate_mux_ListenMux_monitorBase : List String :=
  ["for", "=conn", "=err", "id:conn", "id:err", "call:m.base.Accept", "id:m", "id:base", "id:Accept", 
    "if", "!=", "id:err", "id:nil", "call:m.once.Do", "id:m", "id:once", "id:Do", "=m.err", "id:m", 
    "id:err", "id:err", "call:close", "id:close", "id:m", "id:done", "return", "go", "call:m.routeConn", 
    "id:m", "id:routeConn", "id:conn"]
def fp_drpcmigrate_mux_ListenMux_monitorListener : List String :=
  ["select", "u<-", "id:m", "id:done", "call:lis.once.Do", "id:lis", "id:once", "id:Do", "if", 
    "!=", "id:m", "id:err", "id:nil", "=lis.err", "id:lis", "id:err", "id:m", "id:err", "=lis.err", 
    "id:lis", "id:err", "id:Closed", "call:close", "id:close", "id:lis", "id:done", "u<-", "id:lis", 
    "id:done", "call:m.mu.Lock", "id:m", "id:mu", "id:Lock", "call:delete", "id:delete", "id:m", 
    "id:routes", "id:prefix", "call:m.mu.Unlock", "id:m", "id:mu", "id:Unlock"]
def fp_drpcmigrate_mux_ListenMux_routeConn : List String :=
  ["=buf", "id:buf", "call:make", "id:make", "id:byte", "id:m", "id:prefixLen", "if", "=_", "=err", 
    "id:_", "id:err", "call:io.ReadFull", "id:io", "id:ReadFull", "id:conn", "id:buf", "!=", "id:err", 
    "id:nil", "=_", "id:_", "call:conn.Close", "id:conn", "id:Close", "return", "call:m.mu.Lock", 
    "id:m", "id:mu", "id:Lock", "=lis", "=ok", "id:lis", "id:ok", "index", "id:m", "id:routes", 
    "call:string", "id:string", "id:buf", "if", "u!", "id:ok", "=lis", "id:lis", "id:m", "id:def", 
    "=conn", "id:conn", "call:newPrefixConn", "id:newPrefixConn", "id:buf", "id:conn", "call:m.mu.Unlock", 
    "id:m", "id:mu", "id:Unlock", "select", "u<-", "id:lis", "id:done", "=_", "id:_", "call:conn.Close", 
    "id:conn", "id:Close", "send", "call:lis.Conns", "id:lis", "id:Conns", "id:conn"]
def fp_drpcmigrate_listener_listener_Accept : List String :=
  ["select", "u<-", "id:l", "id:done", "return", "id:nil", "id:l", "id:err", "select", "u<-", 
    "id:l", "id:done", "return", "id:nil", "id:l", "id:err", "=conn", "id:conn", "u<-", "id:l", 
    "id:conns", "return", "id:conn", "id:nil"]
def fp_drpcmigrate_listener_listener_Close : List String :=
  ["call:l.once.Do", "id:l", "id:once", "id:Do", "=l.err", "id:l", "id:err", "id:Closed", "call:close", 
    "id:close", "id:l", "id:done", "return", "id:nil"]
def fp_drpcmigrate_prefixconn_newPrefixConn : List String :=
  ["return", "u&", "id:prefixConn", "id:Reader", "call:io.MultiReader", "id:io", "id:MultiReader", 
    "call:bytes.NewReader", "id:bytes", "id:NewReader", "id:data", "id:conn", "id:Conn", "id:conn"]
def fp_drpcmigrate_prefixconn_prefixConn_Read : List String :=
  ["return", "call:pc.Reader.Read", "id:pc", "id:Reader", "id:Read", "id:p"]
def fp_drpcmigrate_header_HeaderConn_Write : List String :=
  ["id:didOnce", "id:bool", "call:d.once.Do", "id:d", "id:once", "id:Do", "=didOnce", "id:didOnce", 
    "id:true", "=n", "=err", "id:n", "id:err", "call:d.Conn.Write", "id:d", "id:Conn", "id:Write", 
    "call:append", "id:append", "call:[]byte", "id:byte", "id:d", "id:header", "id:buf", "if", 
    "id:didOnce", "-=", "id:n", "call:len", "id:len", "id:d", "id:header", "if", "<", "id:n", "0", 
    "=n", "id:n", "0", "return", "id:n", "id:err", "return", "call:d.Conn.Write", "id:d", "id:Conn", 
    "id:Write", "id:buf"]
def fp_drpcstream_stream_New : List String :=
  ["return", "call:NewWithOptions", "id:NewWithOptions", "id:ctx", "id:sid", "id:wr", "id:Options"]
def fp_drpcstream_stream_Stream_Context : List String :=
  ["return", "u&", "id:s", "id:ctx"]
def fp_drpcstream_stream_Stream_Finished : List String :=
  ["return", "call:s.sigs.fin.Signal", "id:s", "id:sigs", "id:fin", "id:Signal"]
def fp_drpcstream_stream_Stream_ID : List String :=
  ["if", "==", "id:s", "id:nil", "return", "0", "return", "id:s", "id:id", "id:Stream"]
def fp_drpcstream_stream_Stream_IsFinished : List String :=
  ["return", "call:s.sigs.fin.IsSet", "id:s", "id:sigs", "id:fin", "id:IsSet"]
def fp_drpcstream_stream_Stream_IsTerminated : List String :=
  ["return", "call:s.sigs.term.IsSet", "id:s", "id:sigs", "id:term", "id:IsSet"]
def fp_drpcstream_stream_Stream_SetManualFlush : List String :=
  ["=s.opts.ManualFlush", "id:s", "id:opts", "id:ManualFlush", "id:mf"]
def fp_drpcstream_stream_Stream_Terminated : List String :=
  ["return", "call:s.sigs.term.Signal", "id:s", "id:sigs", "id:term", "id:Signal"]
def fp_drpcstream_stream_streamCtx_Done : List String :=
  ["return", "call:s.sig.Signal", "id:s", "id:sig", "id:Signal"]
def fp_drpcstream_stream_streamCtx_Err : List String :=
  ["return", "call:s.sig.Err", "id:s", "id:sig", "id:Err"]
def fp_drpcstream_stream_streamCtx_Value : List String :=
  ["if", "&&", "!=", "id:s", "id:tr", "id:nil", "==", "id:key", "id:drpcctx", "id:TransportKey", 
    "return", "id:s", "id:tr", "return", "call:s.Context.Value", "id:s", "id:Context", "id:Value", 
    "id:key"]
def fp_drpcstream_pktbuf_packetBuffer_init : List String :=
  ["=pb.cond.L", "id:pb", "id:cond", "id:L", "u&", "id:pb", "id:mu"]
def fp_drpcmanager_manager_New : List String :=
  ["return", "call:NewWithOptions", "id:NewWithOptions", "id:tr", "id:Options"]
def fp_drpcmanager_manager_Manager_Closed : List String :=
  ["return", "call:m.sigs.term.Signal", "id:m", "id:sigs", "id:term", "id:Signal"]
def fp_drpcmanager_manager_isConnectionReset : List String :=
  ["id:operr", "id:net", "id:OpError", "if", "u!", "call:errors.As", "id:errors", "id:As", "id:err", 
    "u&", "id:operr", "return", "id:false", "if", "call:errors.Is", "id:errors", "id:Is", "id:operr", 
    "id:Err", "id:syscall", "id:ECONNRESET", "return", "id:true", "=msg", "id:msg", "call:strings.ToLower", 
    "id:strings", "id:ToLower", "call:operr.Err.Error", "id:operr", "id:Err", "id:Error", "if", 
    "call:strings.Contains", "id:strings", "id:Contains", "id:msg", "s:connection reset by peer", 
    "return", "id:true", "if", "call:strings.Contains", "id:strings", "id:Contains", "id:msg", 
    "s:connection was forcibly closed by the remote host", "return", "id:true", "if", "call:strings.Contains", 
    "id:strings", "id:Contains", "id:msg", "call:strings.ToLower", "id:strings", "id:ToLower", 
    "call:syscall.ECONNRESET.Error", "id:syscall", "id:ECONNRESET", "id:Error", "return", "id:true", 
    "return", "id:false"]
def fp_drpcmanager_streambuf_streamBuffer_init : List String :=
  ["=sb.cond.L", "id:sb", "id:cond", "id:L", "u&", "id:sb", "id:mu"]
def fp_drpcconn_conn_Conn_Close : List String :=
  ["return", "call:c.man.Close", "id:c", "id:man", "id:Close"]
def fp_drpcconn_conn_Conn_Closed : List String :=
  ["return", "call:c.man.Closed", "id:c", "id:man", "id:Closed"]
def fp_drpcconn_conn_Conn_Unblocked : List String :=
  ["return", "call:c.man.Unblocked", "id:c", "id:man", "id:Unblocked"]
def fp_drpcconn_conn_New : List String :=
  ["return", "call:NewWithOptions", "id:NewWithOptions", "id:tr", "id:Options"]
def fp_drpcconn_conn_NewWithOptions : List String :=
  ["=c", "id:c", "u&", "id:Conn", "id:tr", "id:tr", "if", "id:opts", "id:CollectStats", "call:drpcopts.SetManagerStatsCB", 
    "id:drpcopts", "id:SetManagerStatsCB", "u&", "id:opts", "id:Manager", "id:Internal", "id:c", 
    "id:getStats", "=c.stats", "id:c", "id:stats", "call:make", "id:make", "id:string", "id:drpcstats", 
    "id:Stats", "=c.man", "id:c", "id:man", "call:drpcmanager.NewWithOptions", "id:drpcmanager", 
    "id:NewWithOptions", "id:tr", "id:opts", "id:Manager", "return", "id:c"]
def fp_drpcserver_server_New : List String :=
  ["return", "call:NewWithOptions", "id:NewWithOptions", "id:handler", "id:Options"]
def fp_drpcserver_server_NewWithOptions : List String :=
  ["=s", "id:s", "u&", "id:Server", "id:opts", "id:opts", "id:handler", "id:handler", "if", "id:s", 
    "id:opts", "id:CollectStats", "call:drpcopts.SetManagerStatsCB", "id:drpcopts", "id:SetManagerStatsCB", 
    "u&", "id:s", "id:opts", "id:Manager", "id:Internal", "id:s", "id:getStats", "=s.stats", "id:s", 
    "id:stats", "call:make", "id:make", "id:string", "id:drpcstats", "id:Stats", "return", "id:s"]
def fp_drpcserver_util_isTemporary : List String :=
  ["id:nErr", "id:net", "id:Error", "if", "call:errors.As", "id:errors", "id:As", "id:err", "u&", 
    "id:nErr", "return", "call:nErr.Temporary", "id:nErr", "id:Temporary", "return", "id:false"]
def fp_drpcctx_tracker_NewTracker : List String :=
  ["=ctx", "=cancel", "id:ctx", "id:cancel", "call:context.WithCancel", "id:context", "id:WithCancel", 
    "id:ctx", "return", "u&", "id:Tracker", "id:Context", "id:ctx", "id:cancel", "id:cancel"]
def fp_drpcctx_tracker_Tracker_Cancel : List String :=
  ["call:t.cancel", "id:t", "id:cancel"]
def fp_drpcenc_marshal_MarshalAppend : List String :=
  ["if", "=ma", "=ok", "id:ma", "id:ok", "id:enc", "id:MarshalAppend", "id:buf", "id:byte", "id:msg", 
    "id:drpc", "id:Message", "id:byte", "id:error", "id:ok", "return", "call:ma.MarshalAppend", 
    "id:ma", "id:MarshalAppend", "id:buf", "id:msg", "=data", "=err", "id:data", "id:err", "call:enc.Marshal", 
    "id:enc", "id:Marshal", "id:msg", "if", "!=", "id:err", "id:nil", "return", "id:nil", "id:err", 
    "return", "call:append", "id:append", "id:buf", "id:data", "id:nil"]
def fp_drpcwire_reader_NewReader : List String :=
  ["return", "call:NewReaderWithOptions", "id:NewReaderWithOptions", "id:r", "id:ReaderOptions"]
def fp_drpcwire_reader_Reader_ReadPacket : List String :=
  ["return", "call:r.ReadPacketUsing", "id:r", "id:ReadPacketUsing", "id:nil"]
def fp_drpcerr_err_shallowEqual : List String :=
  ["return", "==", "call:*[]uintptr", "2", "id:uintptr", "call:unsafe.Pointer", "id:unsafe", "id:Pointer", 
    "u&", "id:x", "call:*[]uintptr", "2", "id:uintptr", "call:unsafe.Pointer", "id:unsafe", "id:Pointer", 
    "u&", "id:y"]
def fp_drpcerr_err_codeErr_Error : List String :=
  ["return", "call:c.err.Error", "id:c", "id:err", "id:Error"]
def fp_drpcpool_pool_New : List String :=
  ["return", "u&", "id:Pool", "id:K", "id:V", "id:opts", "id:opts", "id:entries", "call:make", 
    "id:make", "id:K", "id:list", "id:K", "id:V"]
def fp_drpcpool_pool_Pool_Get : List String :=
  ["return", "u&", "id:poolConn", "id:K", "id:V", "id:key", "id:key", "id:pool", "id:p", "id:dial", 
    "id:dial"]
def fp_drpcpool_doc_closed : List String :=
  ["select", "u<-", "id:ch", "return", "id:true", "return", "id:false"]
def fp_drpcpool_entry_entry_globalList : List String :=
  ["return", "u&", "id:e", "id:global"]
def fp_drpcpool_entry_entry_localList : List String :=
  ["return", "u&", "id:e", "id:local"]
def fp_drpcpool_conn_poolConn_Closed : List String :=
  ["return", "call:p.done.Get", "id:p", "id:done", "id:Get"]
def fp_drpcpool_conn_streamWrapper_Context : List String :=
  ["return", "u&", "id:s", "id:ctx"]
def fp_drpcpool_conn_streamWrapperContext_Done : List String :=
  ["return", "call:s.done.Get", "id:s", "id:done", "id:Get"]
def fp_drpcmigrate_dial_DialWithHeader : List String :=
  ["=conn", "=err", "id:conn", "id:err", "call:?.DialContext", "u&", "id:HeaderDialer", "id:Header", 
    "id:header", "id:DialContext", "id:ctx", "id:network", "id:address", "if", "!=", "id:err", 
    "id:nil", "return", "id:nil", "id:err", "return", "id:conn", "id:nil"]
def fp_drpcmigrate_dial_HeaderDialer_Dial : List String :=
  ["return", "call:d.DialContext", "id:d", "id:DialContext", "call:context.Background", "id:context", 
    "id:Background", "id:network", "id:address"]
def fp_drpcmigrate_dial_HeaderDialer_DialContext : List String :=
  ["=conn", "=err", "id:conn", "id:err", "call:d.Dialer.DialContext", "id:d", "id:Dialer", "id:DialContext", 
    "id:ctx", "id:network", "id:address", "if", "!=", "id:err", "id:nil", "return", "id:nil", "id:err", 
    "return", "call:NewHeaderConn", "id:NewHeaderConn", "id:conn", "id:d", "id:Header", "id:nil"]
def fp_drpcmigrate_header_NewHeaderConn : List String :=
  ["return", "u&", "id:HeaderConn", "id:Conn", "id:conn", "id:header", "id:header"]
def fp_drpcmigrate_listener_newListener : List String :=
  ["return", "u&", "id:listener", "id:addr", "id:addr", "id:conns", "call:make", "id:make", "id:net", 
    "id:Conn", "id:done", "call:make", "id:make"]
def fp_drpcmigrate_mux_NewListenMux : List String :=
  ["=addr", "id:addr", "call:base.Addr", "id:base", "id:Addr", "return", "u&", "id:ListenMux", 
    "id:base", "id:base", "id:prefixLen", "id:prefixLen", "id:addr", "id:addr", "id:def", "call:newListener", 
    "id:newListener", "id:addr", "id:routes", "call:make", "id:make", "id:string", "id:listener", 
    "id:done", "call:make", "id:make"]
def fp_drpchttp_context_Context : List String :=
  ["return", "call:buildContext", "id:buildContext", "call:req.Context", "id:req", "id:Context", 
    "index", "id:req", "id:Header", "s:X-Drpc-Metadata"]
def fp_drpchttp_encoding_JSONMarshal : List String :=
  ["if", "=enc", "=ok", "id:enc", "id:ok", "id:enc", "id:JSONMarshal", "id:msg", "id:drpc", "id:Message", 
    "id:byte", "id:error", "id:ok", "return", "call:enc.JSONMarshal", "id:enc", "id:JSONMarshal", 
    "id:msg", "=buf", "=err", "id:buf", "id:err", "call:enc.Marshal", "id:enc", "id:Marshal", "id:msg", 
    "if", "!=", "id:err", "id:nil", "return", "id:nil", "id:err", "return", "call:json.Marshal", 
    "id:json", "id:Marshal", "id:buf"]
def fp_drpchttp_encoding_JSONUnmarshal : List String :=
  ["if", "=enc", "=ok", "id:enc", "id:ok", "id:enc", "id:JSONUnmarshal", "id:buf", "id:byte", 
    "id:msg", "id:drpc", "id:Message", "id:error", "id:ok", "return", "call:enc.JSONUnmarshal", 
    "id:enc", "id:JSONUnmarshal", "id:buf", "id:msg", "id:data", "id:byte", "if", "=err", "id:err", 
    "call:json.Unmarshal", "id:json", "id:Unmarshal", "id:buf", "u&", "id:data", "!=", "id:err", 
    "id:nil", "return", "id:err", "return", "call:enc.Unmarshal", "id:enc", "id:Unmarshal", "id:data", 
    "id:msg"]
def fp_drpchttp_encoding_base64Read : List String :=
  ["return", "id:r", "id:io", "id:Reader", "id:byte", "id:error", "return", "call:rf", "id:rf", 
    "call:base64.NewDecoder", "id:base64", "id:NewDecoder", "id:base64", "id:StdEncoding", "id:r"]
def fp_drpchttp_encoding_normalWrite : List String :=
  ["=_", "=err", "id:_", "id:err", "call:w.Write", "id:w", "id:Write", "id:buf", "return", "id:err"]
def fp_drpchttp_encoding_protoMarshal : List String :=
  ["return", "call:enc.Marshal", "id:enc", "id:Marshal", "id:msg"]
def fp_drpchttp_encoding_protoUnmarshal : List String :=
  ["return", "call:enc.Unmarshal", "id:enc", "id:Unmarshal", "id:buf", "id:msg"]
def fp_drpchttp_handler_NewWithOptions : List String :=
  ["=opts", "id:opts", "id:options", "id:protocols", "call:defaultProtocols", "id:defaultProtocols", 
    "for", "id:_", "id:o", "id:os", "call:o.apply", "id:o", "id:apply", "u&", "id:opts", "return", 
    "id:wrapper", "id:handler", "id:handler", "id:opts", "id:opts"]
def fp_drpchttp_options_WithProtocol : List String :=
  ["return", "id:Option", "id:apply", "id:opts", "id:options", "=opts.protocols", "index", "id:opts", 
    "id:protocols", "id:contentType", "id:pr"]
def fp_drpchttp_options_defaultProtocols : List String :=
  ["return", "id:string", "id:Protocol", "s:*", "id:twirpProtocol", "id:ct", "s:application/proto", 
    "id:marshal", "id:protoMarshal", "id:unmarshal", "id:protoUnmarshal", "s:application/proto", 
    "id:twirpProtocol", "id:ct", "s:application/proto", "id:marshal", "id:protoMarshal", "id:unmarshal", 
    "id:protoUnmarshal", "s:application/json", "id:twirpProtocol", "id:ct", "s:application/json", 
    "id:marshal", "id:JSONMarshal", "id:unmarshal", "id:JSONUnmarshal", "s:application/grpc-web+proto", 
    "id:grpcWebProtocol", "id:ct", "s:application/grpc-web+proto", "id:read", "id:grpcRead", "id:write", 
    "id:normalWrite", "id:marshal", "id:protoMarshal", "id:unmarshal", "id:protoUnmarshal", "s:application/grpc-web+json", 
    "id:grpcWebProtocol", "id:ct", "s:application/grpc-web+json", "id:read", "id:grpcRead", "id:write", 
    "id:normalWrite", "id:marshal", "id:JSONMarshal", "id:unmarshal", "id:JSONUnmarshal", "s:application/grpc-web-text+proto", 
    "id:grpcWebProtocol", "id:ct", "s:application/grpc-web-text+proto", "id:read", "call:base64Read", 
    "id:base64Read", "id:grpcRead", "id:write", "call:base64Write", "id:base64Write", "id:normalWrite", 
    "id:marshal", "id:protoMarshal", "id:unmarshal", "id:protoUnmarshal", "s:application/grpc-web-text+json", 
    "id:grpcWebProtocol", "id:ct", "s:application/grpc-web-text+json", "id:read", "call:base64Read", 
    "id:base64Read", "id:grpcRead", "id:write", "call:base64Write", "id:base64Write", "id:normalWrite", 
    "id:marshal", "id:JSONMarshal", "id:unmarshal", "id:JSONUnmarshal"]
def fp_drpchttp_protocol_grpc_web_grpcWebProtocol_NewStream : List String :=
  ["call:rw.Header().Set", "call:rw.Header", "id:rw", "id:Header", "id:Set", "s:Content-Type", 
    "id:gwp", "id:ct", "return", "u&", "id:grpcWebStream", "id:ctx", "call:req.Context", "id:req", 
    "id:Context", "id:gwp", "id:gwp", "id:in", "id:req", "id:Body", "id:rw", "id:rw"]
def fp_drpchttp_protocol_grpc_web_grpcWebStream_Close : List String :=
  ["return", "call:gws.in.Close", "id:gws", "id:in", "id:Close"]
def fp_drpchttp_protocol_grpc_web_grpcWebStream_MsgRecv : List String :=
  ["=buf", "=err", "id:buf", "id:err", "call:gws.gwp.read", "id:gws", "id:gwp", "id:read", "id:gws", 
    "id:in", "if", "!=", "id:err", "id:nil", "return", "id:err", "return", "call:gws.gwp.unmarshal", 
    "id:gws", "id:gwp", "id:unmarshal", "id:buf", "id:msg", "id:enc"]
def fp_drpchttp_protocol_twirp_twirpProtocol_NewStream : List String :=
  ["call:rw.Header().Set", "call:rw.Header", "id:rw", "id:Header", "id:Set", "s:Content-Type", 
    "id:tp", "id:ct", "return", "u&", "id:twirpStream", "id:ctx", "call:req.Context", "id:req", 
    "id:Context", "id:tp", "id:tp", "id:body", "id:req", "id:Body", "id:rw", "id:rw"]
def fp_drpcmux_mux_New : List String :=
  ["return", "u&", "id:Mux", "id:rpcs", "call:make", "id:make", "id:string", "id:rpcData"]
def fp_drpcctx_tracker_Tracker_Run : List String :=
  ["call:t.wg.Add", "id:t", "id:wg", "id:Add", "1", "go", "call:t.track", "id:t", "id:track", 
    "id:cb"]
def fp_drpcctx_tracker_Tracker_track : List String :=
  ["call:cb", "id:cb", "id:t", "call:t.wg.Done", "id:t", "id:wg", "id:Done"]
def fp_drpcctx_tracker_Tracker_Wait : List String :=
  ["call:t.wg.Wait", "id:t", "id:wg", "id:Wait"]
def fp_cmd_protoc_gen_go_drpc_main_main : List String :=
  ["id:flags", "id:flag", "id:FlagSet", "id:conf", "id:config", "call:flags.StringVar", "id:flags", 
    "id:StringVar", "u&", "id:conf", "id:protolib", "s:protolib", "s:google.golang.org/protobuf", 
    "s:which protobuf library to use for encoding", "call:flags.BoolVar", "id:flags", "id:BoolVar", 
    "u&", "id:conf", "id:json", "s:json", "id:true", "s:generate encoders with json support", "call:?.Run", 
    "id:protogen", "id:Options", "id:ParamFunc", "id:flags", "id:Set", "id:Run", "id:plugin", "id:protogen", 
    "id:Plugin", "id:error", "for", "id:_", "id:f", "id:plugin", "id:Files", "if", "||", "u!", 
    "id:f", "id:Generate", "==", "call:len", "id:len", "id:f", "id:Services", "0", "continue", 
    "call:generateFile", "id:generateFile", "id:plugin", "id:f", "id:conf", "=plugin.SupportedFeatures", 
    "id:plugin", "id:SupportedFeatures", "call:uint64", "id:uint64", "id:pluginpb", "id:CodeGeneratorResponse_FEATURE_PROTO3_OPTIONAL", 
    "return", "id:nil"]
def fp_cmd_protoc_gen_go_drpc_main_generateFile : List String :=
  ["=gf", "id:gf", "call:plugin.NewGeneratedFile", "id:plugin", "id:NewGeneratedFile", "+", "id:file", 
    "id:GeneratedFilenamePrefix", "s:_drpc.pb.go", "id:file", "id:GoImportPath", "=d", "id:d", 
    "u&", "id:drpc", "id:gf", "id:file", "call:d.P", "id:d", "id:P", "s:// Code generated by protoc-gen-go-drpc. DO NOT EDIT.", 
    "if", "=bi", "=ok", "id:bi", "id:ok", "call:debug.ReadBuildInfo", "id:debug", "id:ReadBuildInfo", 
    "id:ok", "call:d.P", "id:d", "id:P", "s:// protoc-gen-go-drpc version: ", "id:bi", "id:Main", 
    "id:Version", "call:d.P", "id:d", "id:P", "s:// source: ", "call:file.Desc.Path", "id:file", 
    "id:Desc", "id:Path", "call:d.P", "id:d", "id:P", "call:d.P", "id:d", "id:P", "s:package ", 
    "id:file", "id:GoPackageName", "call:d.P", "id:d", "id:P", "call:d.generateEncoding", "id:d", 
    "id:generateEncoding", "id:conf", "for", "id:_", "id:service", "id:file", "id:Services", "call:d.generateService", 
    "id:d", "id:generateService", "id:service"]
def fp_cmd_protoc_gen_go_drpc_main_drpc_EncodingName : List String :=
  ["return", "+", "s:drpcEncoding_", "id:d", "id:file", "id:GoDescriptorIdent", "id:GoName"]
def fp_cmd_protoc_gen_go_drpc_main_drpc_RPCGoString : List String :=
  ["return", "call:strconv.Quote", "id:strconv", "id:Quote", "call:fmt.Sprintf", "id:fmt", "id:Sprintf", 
    "s:/%s/%s", "call:method.Parent.Desc.FullName", "id:method", "id:Parent", "id:Desc", "id:FullName", 
    "call:method.Desc.Name", "id:method", "id:Desc", "id:Name"]
def fp_cmd_protoc_gen_go_drpc_main_drpc_ClientIface : List String :=
  ["return", "+", "+", "s:DRPC", "id:service", "id:GoName", "s:Client"]
def fp_cmd_protoc_gen_go_drpc_main_drpc_ClientImpl : List String :=
  ["return", "+", "+", "s:drpc", "id:service", "id:GoName", "s:Client"]
def fp_cmd_protoc_gen_go_drpc_main_drpc_ServerIface : List String :=
  ["return", "+", "+", "s:DRPC", "id:service", "id:GoName", "s:Server"]
def fp_cmd_protoc_gen_go_drpc_main_drpc_ServerUnimpl : List String :=
  ["return", "+", "+", "s:DRPC", "id:service", "id:GoName", "s:UnimplementedServer"]
def fp_cmd_protoc_gen_go_drpc_main_drpc_ServerDesc : List String :=
  ["return", "+", "+", "s:DRPC", "id:service", "id:GoName", "s:Description"]
def fp_cmd_protoc_gen_go_drpc_main_drpc_ClientStreamIface : List String :=
  ["return", "+", "+", "+", "+", "s:DRPC", "call:strings.ReplaceAll", "id:strings", "id:ReplaceAll", 
    "id:method", "id:Parent", "id:GoName", "s:_", "s:__", "s:_", "call:strings.ReplaceAll", "id:strings", 
    "id:ReplaceAll", "id:method", "id:GoName", "s:_", "s:__", "s:Client"]
def fp_cmd_protoc_gen_go_drpc_main_drpc_ClientStreamImpl : List String :=
  ["return", "+", "+", "+", "+", "s:drpc", "call:strings.ReplaceAll", "id:strings", "id:ReplaceAll", 
    "id:method", "id:Parent", "id:GoName", "s:_", "s:__", "s:_", "call:strings.ReplaceAll", "id:strings", 
    "id:ReplaceAll", "id:method", "id:GoName", "s:_", "s:__", "s:Client"]
def fp_cmd_protoc_gen_go_drpc_main_drpc_ServerStreamIface : List String :=
  ["return", "+", "+", "+", "+", "s:DRPC", "call:strings.ReplaceAll", "id:strings", "id:ReplaceAll", 
    "id:method", "id:Parent", "id:GoName", "s:_", "s:__", "s:_", "call:strings.ReplaceAll", "id:strings", 
    "id:ReplaceAll", "id:method", "id:GoName", "s:_", "s:__", "s:Stream"]
def fp_cmd_protoc_gen_go_drpc_main_drpc_ServerStreamImpl : List String :=
  ["return", "+", "+", "+", "+", "s:drpc", "call:strings.ReplaceAll", "id:strings", "id:ReplaceAll", 
    "id:method", "id:Parent", "id:GoName", "s:_", "s:__", "s:_", "call:strings.ReplaceAll", "id:strings", 
    "id:ReplaceAll", "id:method", "id:GoName", "s:_", "s:__", "s:Stream"]
def fp_cmd_protoc_gen_go_drpc_main_drpc_generateEncoding : List String :=
  ["call:d.P", "id:d", "id:P", "s:type ", "call:d.EncodingName", "id:d", "id:EncodingName", "s: struct{}", 
    "call:d.P", "id:d", "id:P", "switch", "id:conf", "id:protolib", "case", "s:google.golang.org/protobuf", 
    "call:d.P", "id:d", "id:P", "s:func (", "call:d.EncodingName", "id:d", "id:EncodingName", "s:) Marshal(msg ", 
    "call:d.Ident", "id:d", "id:Ident", "s:storj.io/drpc", "s:Message", "s:) ([]byte, error) {", 
    "call:d.P", "id:d", "id:P", "s:return ", "call:d.Ident", "id:d", "id:Ident", "s:google.golang.org/protobuf/proto", 
    "s:Marshal", "s:(msg.(", "call:d.Ident", "id:d", "id:Ident", "s:google.golang.org/protobuf/proto", 
    "s:Message", "s:))", "call:d.P", "id:d", "id:P", "s:}", "call:d.P", "id:d", "id:P", "call:d.P", 
    "id:d", "id:P", "s:func (", "call:d.EncodingName", "id:d", "id:EncodingName", "s:) MarshalAppend(buf []byte, msg ", 
    "call:d.Ident", "id:d", "id:Ident", "s:storj.io/drpc", "s:Message", "s:) ([]byte, error) {", 
    "call:d.P", "id:d", "id:P", "s:return ", "call:d.Ident", "id:d", "id:Ident", "s:google.golang.org/protobuf/proto", 
    "s:MarshalOptions", "s:{}.MarshalAppend(buf, msg.(", "call:d.Ident", "id:d", "id:Ident", "s:google.golang.org/protobuf/proto", 
    "s:Message", "s:))", "call:d.P", "id:d", "id:P", "s:}", "call:d.P", "id:d", "id:P", "call:d.P", 
    "id:d", "id:P", "s:func (", "call:d.EncodingName", "id:d", "id:EncodingName", "s:) Unmarshal(buf []byte, msg ", 
    "call:d.Ident", "id:d", "id:Ident", "s:storj.io/drpc", "s:Message", "s:) error {", "call:d.P", 
    "id:d", "id:P", "s:return ", "call:d.Ident", "id:d", "id:Ident", "s:google.golang.org/protobuf/proto", 
    "s:Unmarshal", "s:(buf, msg.(", "call:d.Ident", "id:d", "id:Ident", "s:google.golang.org/protobuf/proto", 
    "s:Message", "s:))", "call:d.P", "id:d", "id:P", "s:}", "call:d.P", "id:d", "id:P", "if", "id:conf", 
    "id:json", "call:d.P", "id:d", "id:P", "s:func (", "call:d.EncodingName", "id:d", "id:EncodingName", 
    "s:) JSONMarshal(msg ", "call:d.Ident", "id:d", "id:Ident", "s:storj.io/drpc", "s:Message", 
    "s:) ([]byte, error) {", "call:d.P", "id:d", "id:P", "s:return ", "call:d.Ident", "id:d", "id:Ident", 
    "s:google.golang.org/protobuf/encoding/protojson", "s:Marshal", "s:(msg.(", "call:d.Ident", 
    "id:d", "id:Ident", "s:google.golang.org/protobuf/proto", "s:Message", "s:))", "call:d.P", 
    "id:d", "id:P", "s:}", "call:d.P", "id:d", "id:P", "call:d.P", "id:d", "id:P", "s:func (", 
    "call:d.EncodingName", "id:d", "id:EncodingName", "s:) JSONUnmarshal(buf []byte, msg ", "call:d.Ident", 
    "id:d", "id:Ident", "s:storj.io/drpc", "s:Message", "s:) error {", "call:d.P", "id:d", "id:P", 
    "s:return ", "call:d.Ident", "id:d", "id:Ident", "s:google.golang.org/protobuf/encoding/protojson", 
    "s:Unmarshal", "s:(buf, msg.(", "call:d.Ident", "id:d", "id:Ident", "s:google.golang.org/protobuf/proto", 
    "s:Message", "s:))", "call:d.P", "id:d", "id:P", "s:}", "call:d.P", "id:d", "id:P", "case", 
    "s:github.com/gogo/protobuf", "call:d.P", "id:d", "id:P", "s:func (", "call:d.EncodingName", 
    "id:d", "id:EncodingName", "s:) Marshal(msg ", "call:d.Ident", "id:d", "id:Ident", "s:storj.io/drpc", 
    "s:Message", "s:) ([]byte, error) {", "call:d.P", "id:d", "id:P", "s:return ", "call:d.Ident", 
    "id:d", "id:Ident", "s:github.com/gogo/protobuf/proto", "s:Marshal", "s:(msg.(", "call:d.Ident", 
    "id:d", "id:Ident", "s:github.com/gogo/protobuf/proto", "s:Message", "s:))", "call:d.P", "id:d", 
    "id:P", "s:}", "call:d.P", "id:d", "id:P", "call:d.P", "id:d", "id:P", "s:func (", "call:d.EncodingName", 
    "id:d", "id:EncodingName", "s:) MarshalAppend(buf []byte, msg ", "call:d.Ident", "id:d", "id:Ident", 
    "s:storj.io/drpc", "s:Message", "s:) ([]byte, error) {", "call:d.P", "id:d", "id:P", "s:pbuf := ", 
    "call:d.Ident", "id:d", "id:Ident", "s:github.com/gogo/protobuf/proto", "s:NewBuffer", "s:(buf)", 
    "call:d.P", "id:d", "id:P", "s:if err := pbuf.Marshal(msg.(", "call:d.Ident", "id:d", "id:Ident", 
    "s:github.com/gogo/protobuf/proto", "s:Message", "s:)); err != nil {", "call:d.P", "id:d", 
    "id:P", "s:return nil, err", "call:d.P", "id:d", "id:P", "s:}", "call:d.P", "id:d", "id:P", 
    "s:return pbuf.Bytes(), nil", "call:d.P", "id:d", "id:P", "s:}", "call:d.P", "id:d", "id:P", 
    "call:d.P", "id:d", "id:P", "s:func (", "call:d.EncodingName", "id:d", "id:EncodingName", "s:) Unmarshal(buf []byte, msg ", 
    "call:d.Ident", "id:d", "id:Ident", "s:storj.io/drpc", "s:Message", "s:) error {", "call:d.P", 
    "id:d", "id:P", "s:return ", "call:d.Ident", "id:d", "id:Ident", "s:github.com/gogo/protobuf/proto", 
    "s:Unmarshal", "s:(buf, msg.(", "call:d.Ident", "id:d", "id:Ident", "s:github.com/gogo/protobuf/proto", 
    "s:Message", "s:))", "call:d.P", "id:d", "id:P", "s:}", "call:d.P", "id:d", "id:P", "if", "id:conf", 
    "id:json", "call:d.P", "id:d", "id:P", "s:func (", "call:d.EncodingName", "id:d", "id:EncodingName", 
    "s:) JSONMarshal(msg ", "call:d.Ident", "id:d", "id:Ident", "s:storj.io/drpc", "s:Message", 
    "s:) ([]byte, error) {", "call:d.P", "id:d", "id:P", "s:var buf ", "call:d.Ident", "id:d", 
    "id:Ident", "s:bytes", "s:Buffer", "call:d.P", "id:d", "id:P", "s:err := new(", "call:d.Ident", 
    "id:d", "id:Ident", "s:github.com/gogo/protobuf/jsonpb", "s:Marshaler", "s:).Marshal(&buf, msg.(", 
    "call:d.Ident", "id:d", "id:Ident", "s:github.com/gogo/protobuf/proto", "s:Message", "s:))", 
    "call:d.P", "id:d", "id:P", "s:if err != nil {", "call:d.P", "id:d", "id:P", "s:return nil, err", 
    "call:d.P", "id:d", "id:P", "s:}", "call:d.P", "id:d", "id:P", "s:return buf.Bytes(), nil", 
    "call:d.P", "id:d", "id:P", "s:}", "call:d.P", "id:d", "id:P", "call:d.P", "id:d", "id:P", 
    "s:func (", "call:d.EncodingName", "id:d", "id:EncodingName", "s:) JSONUnmarshal(buf []byte, msg ", 
    "call:d.Ident", "id:d", "id:Ident", "s:storj.io/drpc", "s:Message", "s:) error {", "call:d.P", 
    "id:d", "id:P", "s:return ", "call:d.Ident", "id:d", "id:Ident", "s:github.com/gogo/protobuf/jsonpb", 
    "s:Unmarshal", "s:(", "call:d.Ident", "id:d", "id:Ident", "s:bytes", "s:NewReader", "s:(buf), msg.(", 
    "call:d.Ident", "id:d", "id:Ident", "s:github.com/gogo/protobuf/proto", "s:Message", "s:))", 
    "call:d.P", "id:d", "id:P", "s:}", "call:d.P", "id:d", "id:P", "default", "call:d.P", "id:d", 
    "id:P", "s:func (", "call:d.EncodingName", "id:d", "id:EncodingName", "s:) Marshal(msg ", "call:d.Ident", 
    "id:d", "id:Ident", "s:storj.io/drpc", "s:Message", "s:) ([]byte, error) {", "call:d.P", "id:d", 
    "id:P", "s:return ", "call:d.Ident", "id:d", "id:Ident", "id:conf", "id:protolib", "s:Marshal", 
    "s:(msg)", "call:d.P", "id:d", "id:P", "s:}", "call:d.P", "id:d", "id:P", "call:d.P", "id:d", 
    "id:P", "s:func (", "call:d.EncodingName", "id:d", "id:EncodingName", "s:) Unmarshal(buf []byte, msg ", 
    "call:d.Ident", "id:d", "id:Ident", "s:storj.io/drpc", "s:Message", "s:) error {", "call:d.P", 
    "id:d", "id:P", "s:return ", "call:d.Ident", "id:d", "id:Ident", "id:conf", "id:protolib", 
    "s:Unmarshal", "s:(buf, msg)", "call:d.P", "id:d", "id:P", "s:}", "call:d.P", "id:d", "id:P", 
    "if", "id:conf", "id:json", "call:d.P", "id:d", "id:P", "s:func (", "call:d.EncodingName", 
    "id:d", "id:EncodingName", "s:) JSONMarshal(msg ", "call:d.Ident", "id:d", "id:Ident", "s:storj.io/drpc", 
    "s:Message", "s:) ([]byte, error) {", "call:d.P", "id:d", "id:P", "s:return ", "call:d.Ident", 
    "id:d", "id:Ident", "id:conf", "id:protolib", "s:JSONMarshal", "s:(msg)", "call:d.P", "id:d", 
    "id:P", "s:}", "call:d.P", "id:d", "id:P", "call:d.P", "id:d", "id:P", "s:func (", "call:d.EncodingName", 
    "id:d", "id:EncodingName", "s:) JSONUnmarshal(buf []byte, msg ", "call:d.Ident", "id:d", "id:Ident", 
    "s:storj.io/drpc", "s:Message", "s:) error {", "call:d.P", "id:d", "id:P", "s:return ", "call:d.Ident", 
    "id:d", "id:Ident", "id:conf", "id:protolib", "s:JSONUnmarshal", "s:(buf, msg)", "call:d.P", 
    "id:d", "id:P", "s:}", "call:d.P", "id:d", "id:P"]
def fp_cmd_protoc_gen_go_drpc_main_drpc_generateService : List String :=
  ["call:d.P", "id:d", "id:P", "s:type ", "call:d.ClientIface", "id:d", "id:ClientIface", "id:service", 
    "s: interface {", "call:d.P", "id:d", "id:P", "s:DRPCConn() ", "call:d.Ident", "id:d", "id:Ident", 
    "s:storj.io/drpc", "s:Conn", "call:d.P", "id:d", "id:P", "for", "id:_", "id:method", "id:service", 
    "id:Methods", "call:d.P", "id:d", "id:P", "call:d.generateClientSignature", "id:d", "id:generateClientSignature", 
    "id:method", "call:d.P", "id:d", "id:P", "s:}", "call:d.P", "id:d", "id:P", "call:d.P", "id:d", 
    "id:P", "s:type ", "call:d.ClientImpl", "id:d", "id:ClientImpl", "id:service", "s: struct {", 
    "call:d.P", "id:d", "id:P", "s:cc ", "call:d.Ident", "id:d", "id:Ident", "s:storj.io/drpc", 
    "s:Conn", "call:d.P", "id:d", "id:P", "s:}", "call:d.P", "id:d", "id:P", "call:d.P", "id:d", 
    "id:P", "s:func New", "call:d.ClientIface", "id:d", "id:ClientIface", "id:service", "s:(cc ", 
    "call:d.Ident", "id:d", "id:Ident", "s:storj.io/drpc", "s:Conn", "s:) ", "call:d.ClientIface", 
    "id:d", "id:ClientIface", "id:service", "s: {", "call:d.P", "id:d", "id:P", "s:return &", "call:d.ClientImpl", 
    "id:d", "id:ClientImpl", "id:service", "s:{cc}", "call:d.P", "id:d", "id:P", "s:}", "call:d.P", 
    "id:d", "id:P", "call:d.P", "id:d", "id:P", "s:func (c *", "call:d.ClientImpl", "id:d", "id:ClientImpl", 
    "id:service", "s:) DRPCConn() ", "call:d.Ident", "id:d", "id:Ident", "s:storj.io/drpc", "s:Conn", 
    "s:{ return c.cc }", "call:d.P", "id:d", "id:P", "for", "id:_", "id:method", "id:service", 
    "id:Methods", "call:d.generateClientMethod", "id:d", "id:generateClientMethod", "id:method", 
    "call:d.P", "id:d", "id:P", "s:type ", "call:d.ServerIface", "id:d", "id:ServerIface", "id:service", 
    "s: interface {", "for", "id:_", "id:method", "id:service", "id:Methods", "call:d.P", "id:d", 
    "id:P", "call:d.generateServerSignature", "id:d", "id:generateServerSignature", "id:method", 
    "call:d.P", "id:d", "id:P", "s:}", "call:d.P", "id:d", "id:P", "call:d.P", "id:d", "id:P", 
    "s:type ", "call:d.ServerUnimpl", "id:d", "id:ServerUnimpl", "id:service", "s: struct {}", 
    "call:d.P", "id:d", "id:P", "for", "id:_", "id:method", "id:service", "id:Methods", "call:d.generateUnimplementedServerMethod", 
    "id:d", "id:generateUnimplementedServerMethod", "id:method", "call:d.P", "id:d", "id:P", "call:d.P", 
    "id:d", "id:P", "s:type ", "call:d.ServerDesc", "id:d", "id:ServerDesc", "id:service", "s: struct{}", 
    "call:d.P", "id:d", "id:P", "call:d.P", "id:d", "id:P", "s:func (", "call:d.ServerDesc", "id:d", 
    "id:ServerDesc", "id:service", "s:) NumMethods() int { return ", "call:len", "id:len", "id:service", 
    "id:Methods", "s: }", "call:d.P", "id:d", "id:P", "call:d.P", "id:d", "id:P", "s:func (", "call:d.ServerDesc", 
    "id:d", "id:ServerDesc", "id:service", "s:) Method(n int) (string, ", "call:d.Ident", "id:d", 
    "id:Ident", "s:storj.io/drpc", "s:Encoding", "s:, ", "call:d.Ident", "id:d", "id:Ident", "s:storj.io/drpc", 
    "s:Receiver", "s:, interface{}, bool) {", "call:d.P", "id:d", "id:P", "s:switch n {", "for", 
    "id:i", "id:method", "id:service", "id:Methods", "call:d.P", "id:d", "id:P", "s:case ", "id:i", 
    "s::", "call:d.P", "id:d", "id:P", "s:return ", "call:d.RPCGoString", "id:d", "id:RPCGoString", 
    "id:method", "s:, ", "call:d.EncodingName", "id:d", "id:EncodingName", "s:{}, ", "call:d.generateServerReceiver", 
    "id:d", "id:generateServerReceiver", "id:method", "call:d.P", "id:d", "id:P", "s:}, ", "call:d.ServerIface", 
    "id:d", "id:ServerIface", "id:service", "s:.", "id:method", "id:GoName", "s:, true", "call:d.P", 
    "id:d", "id:P", "s:default:", "call:d.P", "id:d", "id:P", "s:return \"\", nil, nil, nil, false", 
    "call:d.P", "id:d", "id:P", "s:}", "call:d.P", "id:d", "id:P", "s:}", "call:d.P", "id:d", "id:P", 
    "call:d.P", "id:d", "id:P", "s:func DRPCRegister", "id:service", "id:GoName", "s:(mux ", "call:d.Ident", 
    "id:d", "id:Ident", "s:storj.io/drpc", "s:Mux", "s:, impl ", "call:d.ServerIface", "id:d", 
    "id:ServerIface", "id:service", "s:) error {", "call:d.P", "id:d", "id:P", "s:return mux.Register(impl, ", 
    "call:d.ServerDesc", "id:d", "id:ServerDesc", "id:service", "s:{})", "call:d.P", "id:d", "id:P", 
    "s:}", "for", "id:_", "id:method", "id:service", "id:Methods", "call:d.generateServerMethod", 
    "id:d", "id:generateServerMethod", "id:method"]
def fp_cmd_protoc_gen_go_drpc_main_drpc_generateClientSignature : List String :=
  ["=reqArg", "id:reqArg", "+", "s:, in *", "call:d.InputType", "id:d", "id:InputType", "id:method", 
    "if", "call:method.Desc.IsStreamingClient", "id:method", "id:Desc", "id:IsStreamingClient", 
    "=reqArg", "id:reqArg", "s:", "=respName", "id:respName", "+", "s:*", "call:d.OutputType", 
    "id:d", "id:OutputType", "id:method", "if", "||", "call:method.Desc.IsStreamingServer", "id:method", 
    "id:Desc", "id:IsStreamingServer", "call:method.Desc.IsStreamingClient", "id:method", "id:Desc", 
    "id:IsStreamingClient", "=respName", "id:respName", "call:d.ClientStreamIface", "id:d", "id:ClientStreamIface", 
    "id:method", "return", "call:fmt.Sprintf", "id:fmt", "id:Sprintf", "s:%s(ctx %s%s) (%s, error)", 
    "id:method", "id:GoName", "call:d.Ident", "id:d", "id:Ident", "s:context", "s:Context", "id:reqArg", 
    "id:respName"]
def fp_cmd_protoc_gen_go_drpc_main_drpc_generateClientMethod : List String :=
  ["=recvType", "id:recvType", "call:d.ClientImpl", "id:d", "id:ClientImpl", "id:method", "id:Parent", 
    "=outType", "id:outType", "call:d.OutputType", "id:d", "id:OutputType", "id:method", "=inType", 
    "id:inType", "call:d.InputType", "id:d", "id:InputType", "id:method", "call:d.P", "id:d", "id:P", 
    "s:func (c *", "id:recvType", "s:) ", "call:d.generateClientSignature", "id:d", "id:generateClientSignature", 
    "id:method", "s:{", "if", "&&", "u!", "call:method.Desc.IsStreamingServer", "id:method", "id:Desc", 
    "id:IsStreamingServer", "u!", "call:method.Desc.IsStreamingClient", "id:method", "id:Desc", 
    "id:IsStreamingClient", "call:d.P", "id:d", "id:P", "s:out := new(", "id:outType", "s:)", "call:d.P", 
    "id:d", "id:P", "s:err := c.cc.Invoke(ctx, ", "call:d.RPCGoString", "id:d", "id:RPCGoString", 
    "id:method", "s:, ", "call:d.EncodingName", "id:d", "id:EncodingName", "s:{}, in, out)", "call:d.P", 
    "id:d", "id:P", "s:if err != nil { return nil, err }", "call:d.P", "id:d", "id:P", "s:return out, nil", 
    "call:d.P", "id:d", "id:P", "s:}", "call:d.P", "id:d", "id:P", "return", "call:d.P", "id:d", 
    "id:P", "s:stream, err := c.cc.NewStream(ctx, ", "call:d.RPCGoString", "id:d", "id:RPCGoString", 
    "id:method", "s:, ", "call:d.EncodingName", "id:d", "id:EncodingName", "s:{})", "call:d.P", 
    "id:d", "id:P", "s:if err != nil { return nil, err }", "call:d.P", "id:d", "id:P", "s:x := &", 
    "call:d.ClientStreamImpl", "id:d", "id:ClientStreamImpl", "id:method", "s:{stream}", "if", 
    "u!", "call:method.Desc.IsStreamingClient", "id:method", "id:Desc", "id:IsStreamingClient", 
    "call:d.P", "id:d", "id:P", "s:if err := x.MsgSend(in, ", "call:d.EncodingName", "id:d", "id:EncodingName", 
    "s:{}); err != nil { return nil, err }", "call:d.P", "id:d", "id:P", "s:if err := x.CloseSend(); err != nil { return nil, err }", 
    "call:d.P", "id:d", "id:P", "s:return x, nil", "call:d.P", "id:d", "id:P", "s:}", "call:d.P", 
    "id:d", "id:P", "=genSend", "id:genSend", "call:method.Desc.IsStreamingClient", "id:method", 
    "id:Desc", "id:IsStreamingClient", "=genRecv", "id:genRecv", "call:method.Desc.IsStreamingServer", 
    "id:method", "id:Desc", "id:IsStreamingServer", "=genCloseAndRecv", "id:genCloseAndRecv", "u!", 
    "call:method.Desc.IsStreamingServer", "id:method", "id:Desc", "id:IsStreamingServer", "call:d.P", 
    "id:d", "id:P", "s:type ", "call:d.ClientStreamIface", "id:d", "id:ClientStreamIface", "id:method", 
    "s: interface {", "call:d.P", "id:d", "id:P", "call:d.Ident", "id:d", "id:Ident", "s:storj.io/drpc", 
    "s:Stream", "if", "id:genSend", "call:d.P", "id:d", "id:P", "s:Send(*", "id:inType", "s:) error", 
    "if", "id:genRecv", "call:d.P", "id:d", "id:P", "s:Recv() (*", "id:outType", "s:, error)", 
    "if", "id:genCloseAndRecv", "call:d.P", "id:d", "id:P", "s:CloseAndRecv() (*", "id:outType", 
    "s:, error)", "call:d.P", "id:d", "id:P", "s:}", "call:d.P", "id:d", "id:P", "call:d.P", "id:d", 
    "id:P", "s:type ", "call:d.ClientStreamImpl", "id:d", "id:ClientStreamImpl", "id:method", "s: struct {", 
    "call:d.P", "id:d", "id:P", "call:d.Ident", "id:d", "id:Ident", "s:storj.io/drpc", "s:Stream", 
    "call:d.P", "id:d", "id:P", "s:}", "call:d.P", "id:d", "id:P", "call:d.P", "id:d", "id:P", 
    "s:func (x *", "call:d.ClientStreamImpl", "id:d", "id:ClientStreamImpl", "id:method", "s:) GetStream() ", 
    "call:d.Ident", "id:d", "id:Ident", "s:storj.io/drpc", "s:Stream", "s: {", "call:d.P", "id:d", 
    "id:P", "s:return x.Stream", "call:d.P", "id:d", "id:P", "s:}", "call:d.P", "id:d", "id:P", 
    "if", "id:genSend", "call:d.P", "id:d", "id:P", "s:func (x *", "call:d.ClientStreamImpl", "id:d", 
    "id:ClientStreamImpl", "id:method", "s:) Send(m *", "id:inType", "s:) error {", "call:d.P", 
    "id:d", "id:P", "s:return x.MsgSend(m, ", "call:d.EncodingName", "id:d", "id:EncodingName", 
    "s:{})", "call:d.P", "id:d", "id:P", "s:}", "call:d.P", "id:d", "id:P", "if", "id:genRecv", 
    "call:d.P", "id:d", "id:P", "s:func (x *", "call:d.ClientStreamImpl", "id:d", "id:ClientStreamImpl", 
    "id:method", "s:) Recv() (*", "id:outType", "s:, error) {", "call:d.P", "id:d", "id:P", "s:m := new(", 
    "id:outType", "s:)", "call:d.P", "id:d", "id:P", "s:if err := x.MsgRecv(m, ", "call:d.EncodingName", 
    "id:d", "id:EncodingName", "s:{}); err != nil { return nil, err }", "call:d.P", "id:d", "id:P", 
    "s:return m, nil", "call:d.P", "id:d", "id:P", "s:}", "call:d.P", "id:d", "id:P", "call:d.P", 
    "id:d", "id:P", "s:func (x *", "call:d.ClientStreamImpl", "id:d", "id:ClientStreamImpl", "id:method", 
    "s:) RecvMsg(m *", "id:outType", "s:) error {", "call:d.P", "id:d", "id:P", "s:return x.MsgRecv(m, ", 
    "call:d.EncodingName", "id:d", "id:EncodingName", "s:{})", "call:d.P", "id:d", "id:P", "s:}", 
    "call:d.P", "id:d", "id:P", "if", "id:genCloseAndRecv", "call:d.P", "id:d", "id:P", "s:func (x *", 
    "call:d.ClientStreamImpl", "id:d", "id:ClientStreamImpl", "id:method", "s:) CloseAndRecv() (*", 
    "id:outType", "s:, error) {", "call:d.P", "id:d", "id:P", "s:if err := x.CloseSend(); err != nil { return nil, err }", 
    "call:d.P", "id:d", "id:P", "s:m := new(", "id:outType", "s:)", "call:d.P", "id:d", "id:P", 
    "s:if err := x.MsgRecv(m, ", "call:d.EncodingName", "id:d", "id:EncodingName", "s:{}); err != nil { return nil, err }", 
    "call:d.P", "id:d", "id:P", "s:return m, nil", "call:d.P", "id:d", "id:P", "s:}", "call:d.P", 
    "id:d", "id:P", "call:d.P", "id:d", "id:P", "s:func (x *", "call:d.ClientStreamImpl", "id:d", 
    "id:ClientStreamImpl", "id:method", "s:) CloseAndRecvMsg(m *", "id:outType", "s:) error {", 
    "call:d.P", "id:d", "id:P", "s:if err := x.CloseSend(); err != nil { return err }", "call:d.P", 
    "id:d", "id:P", "s:return x.MsgRecv(m, ", "call:d.EncodingName", "id:d", "id:EncodingName", 
    "s:{})", "call:d.P", "id:d", "id:P", "s:}", "call:d.P", "id:d", "id:P"]
def fp_cmd_protoc_gen_go_drpc_main_drpc_generateServerSignature : List String :=
  ["id:reqArgs", "id:string", "=ret", "id:ret", "s:error", "if", "&&", "u!", "call:method.Desc.IsStreamingServer", 
    "id:method", "id:Desc", "id:IsStreamingServer", "u!", "call:method.Desc.IsStreamingClient", 
    "id:method", "id:Desc", "id:IsStreamingClient", "=reqArgs", "id:reqArgs", "call:append", "id:append", 
    "id:reqArgs", "call:d.Ident", "id:d", "id:Ident", "s:context", "s:Context", "=ret", "id:ret", 
    "+", "+", "s:(*", "call:d.OutputType", "id:d", "id:OutputType", "id:method", "s:, error)", 
    "if", "u!", "call:method.Desc.IsStreamingClient", "id:method", "id:Desc", "id:IsStreamingClient", 
    "=reqArgs", "id:reqArgs", "call:append", "id:append", "id:reqArgs", "+", "s:*", "call:d.InputType", 
    "id:d", "id:InputType", "id:method", "if", "||", "call:method.Desc.IsStreamingServer", "id:method", 
    "id:Desc", "id:IsStreamingServer", "call:method.Desc.IsStreamingClient", "id:method", "id:Desc", 
    "id:IsStreamingClient", "=reqArgs", "id:reqArgs", "call:append", "id:append", "id:reqArgs", 
    "call:d.ServerStreamIface", "id:d", "id:ServerStreamIface", "id:method", "return", "+", "+", 
    "+", "+", "id:method", "id:GoName", "s:(", "call:strings.Join", "id:strings", "id:Join", "id:reqArgs", 
    "s:, ", "s:) ", "id:ret"]
def fp_cmd_protoc_gen_go_drpc_main_drpc_generateUnimplementedServerMethod : List String :=
  ["call:d.P", "id:d", "id:P", "s:func (s *", "call:d.ServerUnimpl", "id:d", "id:ServerUnimpl", 
    "id:method", "id:Parent", "s:) ", "call:d.generateServerSignature", "id:d", "id:generateServerSignature", 
    "id:method", "s: {", "if", "&&", "u!", "call:method.Desc.IsStreamingServer", "id:method", "id:Desc", 
    "id:IsStreamingServer", "u!", "call:method.Desc.IsStreamingClient", "id:method", "id:Desc", 
    "id:IsStreamingClient", "call:d.P", "id:d", "id:P", "s:return nil, ", "call:d.Ident", "id:d", 
    "id:Ident", "s:storj.io/drpc/drpcerr", "s:WithCode", "s:(", "call:d.Ident", "id:d", "id:Ident", 
    "s:errors", "s:New", "s:(\"Unimplemented\"), ", "call:d.Ident", "id:d", "id:Ident", "s:storj.io/drpc/drpcerr", 
    "s:Unimplemented", "s:)", "call:d.P", "id:d", "id:P", "s:return ", "call:d.Ident", "id:d", 
    "id:Ident", "s:storj.io/drpc/drpcerr", "s:WithCode", "s:(", "call:d.Ident", "id:d", "id:Ident", 
    "s:errors", "s:New", "s:(\"Unimplemented\"), ", "call:d.Ident", "id:d", "id:Ident", "s:storj.io/drpc/drpcerr", 
    "s:Unimplemented", "s:)", "call:d.P", "id:d", "id:P", "s:}", "call:d.P", "id:d", "id:P"]
def fp_cmd_protoc_gen_go_drpc_main_drpc_generateServerReceiver : List String :=
  ["call:d.P", "id:d", "id:P", "s:func (srv interface{}, ctx ", "call:d.Ident", "id:d", "id:Ident", 
    "s:context", "s:Context", "s:, in1, in2 interface{}) (", "call:d.Ident", "id:d", "id:Ident", 
    "s:storj.io/drpc", "s:Message", "s:, error) {", "if", "&&", "u!", "call:method.Desc.IsStreamingServer", 
    "id:method", "id:Desc", "id:IsStreamingServer", "u!", "call:method.Desc.IsStreamingClient", 
    "id:method", "id:Desc", "id:IsStreamingClient", "call:d.P", "id:d", "id:P", "s:return srv.(", 
    "call:d.ServerIface", "id:d", "id:ServerIface", "id:method", "id:Parent", "s:).", "call:d.P", 
    "id:d", "id:P", "s:return nil, srv.(", "call:d.ServerIface", "id:d", "id:ServerIface", "id:method", 
    "id:Parent", "s:).", "call:d.P", "id:d", "id:P", "id:method", "id:GoName", "s:(", "=n", "id:n", 
    "1", "if", "&&", "u!", "call:method.Desc.IsStreamingServer", "id:method", "id:Desc", "id:IsStreamingServer", 
    "u!", "call:method.Desc.IsStreamingClient", "id:method", "id:Desc", "id:IsStreamingClient", 
    "call:d.P", "id:d", "id:P", "s:ctx,", "if", "u!", "call:method.Desc.IsStreamingClient", "id:method", 
    "id:Desc", "id:IsStreamingClient", "call:d.P", "id:d", "id:P", "s:in", "id:n", "s:.(*", "call:d.InputType", 
    "id:d", "id:InputType", "id:method", "s:),", "++", "id:n", "if", "||", "call:method.Desc.IsStreamingServer", 
    "id:method", "id:Desc", "id:IsStreamingServer", "call:method.Desc.IsStreamingClient", "id:method", 
    "id:Desc", "id:IsStreamingClient", "call:d.P", "id:d", "id:P", "s:&", "call:d.ServerStreamImpl", 
    "id:d", "id:ServerStreamImpl", "id:method", "s:{in", "id:n", "s:.(", "call:d.Ident", "id:d", 
    "id:Ident", "s:storj.io/drpc", "s:Stream", "s:)},", "call:d.P", "id:d", "id:P", "s:)"]
def fp_cmd_protoc_gen_go_drpc_main_drpc_generateServerMethod : List String :=
  ["=genSend", "id:genSend", "call:method.Desc.IsStreamingServer", "id:method", "id:Desc", "id:IsStreamingServer", 
    "=genSendAndClose", "id:genSendAndClose", "u!", "call:method.Desc.IsStreamingServer", "id:method", 
    "id:Desc", "id:IsStreamingServer", "=genRecv", "id:genRecv", "call:method.Desc.IsStreamingClient", 
    "id:method", "id:Desc", "id:IsStreamingClient", "call:d.P", "id:d", "id:P", "s:type ", "call:d.ServerStreamIface", 
    "id:d", "id:ServerStreamIface", "id:method", "s: interface {", "call:d.P", "id:d", "id:P", 
    "call:d.Ident", "id:d", "id:Ident", "s:storj.io/drpc", "s:Stream", "if", "id:genSend", "call:d.P", 
    "id:d", "id:P", "s:Send(*", "call:d.OutputType", "id:d", "id:OutputType", "id:method", "s:) error", 
    "if", "id:genSendAndClose", "call:d.P", "id:d", "id:P", "s:SendAndClose(*", "call:d.OutputType", 
    "id:d", "id:OutputType", "id:method", "s:) error", "if", "id:genRecv", "call:d.P", "id:d", 
    "id:P", "s:Recv() (*", "call:d.InputType", "id:d", "id:InputType", "id:method", "s:, error)", 
    "call:d.P", "id:d", "id:P", "s:}", "call:d.P", "id:d", "id:P", "call:d.P", "id:d", "id:P", 
    "s:type ", "call:d.ServerStreamImpl", "id:d", "id:ServerStreamImpl", "id:method", "s: struct {", 
    "call:d.P", "id:d", "id:P", "call:d.Ident", "id:d", "id:Ident", "s:storj.io/drpc", "s:Stream", 
    "call:d.P", "id:d", "id:P", "s:}", "call:d.P", "id:d", "id:P", "call:d.P", "id:d", "id:P", 
    "s:func (x *", "call:d.ServerStreamImpl", "id:d", "id:ServerStreamImpl", "id:method", "s:) GetStream() ", 
    "call:d.Ident", "id:d", "id:Ident", "s:storj.io/drpc", "s:Stream", "s: {", "call:d.P", "id:d", 
    "id:P", "s:return x.Stream", "call:d.P", "id:d", "id:P", "s:}", "call:d.P", "id:d", "id:P", 
    "if", "id:genSend", "call:d.P", "id:d", "id:P", "s:func (x *", "call:d.ServerStreamImpl", "id:d", 
    "id:ServerStreamImpl", "id:method", "s:) Send(m *", "call:d.OutputType", "id:d", "id:OutputType", 
    "id:method", "s:) error {", "call:d.P", "id:d", "id:P", "s:return x.MsgSend(m, ", "call:d.EncodingName", 
    "id:d", "id:EncodingName", "s:{})", "call:d.P", "id:d", "id:P", "s:}", "call:d.P", "id:d", 
    "id:P", "if", "id:genSendAndClose", "call:d.P", "id:d", "id:P", "s:func (x *", "call:d.ServerStreamImpl", 
    "id:d", "id:ServerStreamImpl", "id:method", "s:) SendAndClose(m *", "call:d.OutputType", "id:d", 
    "id:OutputType", "id:method", "s:) error {", "call:d.P", "id:d", "id:P", "s:if err := x.MsgSend(m, ", 
    "call:d.EncodingName", "id:d", "id:EncodingName", "s:{}); err != nil { return err }", "call:d.P", 
    "id:d", "id:P", "s:return x.CloseSend()", "call:d.P", "id:d", "id:P", "s:}", "call:d.P", "id:d", 
    "id:P", "if", "id:genRecv", "call:d.P", "id:d", "id:P", "s:func (x *", "call:d.ServerStreamImpl", 
    "id:d", "id:ServerStreamImpl", "id:method", "s:) Recv() (*", "call:d.InputType", "id:d", "id:InputType", 
    "id:method", "s:, error) {", "call:d.P", "id:d", "id:P", "s:m := new(", "call:d.InputType", 
    "id:d", "id:InputType", "id:method", "s:)", "call:d.P", "id:d", "id:P", "s:if err := x.MsgRecv(m, ", 
    "call:d.EncodingName", "id:d", "id:EncodingName", "s:{}); err != nil { return nil, err }", 
    "call:d.P", "id:d", "id:P", "s:return m, nil", "call:d.P", "id:d", "id:P", "s:}", "call:d.P", 
    "id:d", "id:P", "call:d.P", "id:d", "id:P", "s:func (x *", "call:d.ServerStreamImpl", "id:d", 
    "id:ServerStreamImpl", "id:method", "s:) RecvMsg(m *", "call:d.InputType", "id:d", "id:InputType", 
    "id:method", "s:) error {", "call:d.P", "id:d", "id:P", "s:return x.MsgRecv(m, ", "call:d.EncodingName", 
    "id:d", "id:EncodingName", "s:{})", "call:d.P", "id:d", "id:P", "s:}", "call:d.P", "id:d", 
    "id:P"]

def twirpStatus : List (String × Nat) := [("canceled", 408), ("unknown", 500), ("invalid_argument", 400), ("malformed", 400), ("deadline_exceeded", 408), ("not_found", 404), ("bad_route", 404), ("already_exists", 409), ("permission_denied", 403), ("unauthenticated", 401), ("resource_exhausted", 429), ("failed_precondition", 412), ("aborted", 409), ("out_of_range", 400), ("unimplemented", 501), ("internal", 500), ("unavailable", 503), ("dataloss", 500)]
def defaultProtocols : List (String × String) := [("*", "twirpProtocol ct=application/proto marshal=protoMarshal unmarshal=protoUnmarshal"),
  ("application/grpc-web+json", "grpcWebProtocol ct=application/grpc-web+json read=grpcRead write=normalWrite marshal=JSONMarshal unmarshal=JSONUnmarshal"),
  ("application/grpc-web+proto", "grpcWebProtocol ct=application/grpc-web+proto read=grpcRead write=normalWrite marshal=protoMarshal unmarshal=protoUnmarshal"),
  ("application/grpc-web-text+json", "grpcWebProtocol ct=application/grpc-web-text+json read=base64Read(grpcRead) write=base64Write(normalWrite) marshal=JSONMarshal unmarshal=JSONUnmarshal"),
  ("application/grpc-web-text+proto", "grpcWebProtocol ct=application/grpc-web-text+proto read=base64Read(grpcRead) write=base64Write(normalWrite) marshal=protoMarshal unmarshal=protoUnmarshal"),
  ("application/json", "twirpProtocol ct=application/json marshal=JSONMarshal unmarshal=JSONUnmarshal"),
  ("application/proto", "twirpProtocol ct=application/proto marshal=protoMarshal unmarshal=protoUnmarshal")]
def nlSpace : List String := ["\n", " ", "\r", " "]
def streamSentinels : List (String × String) := [("sendClosed", "drpc.Error.New:send closed"), ("termError", "drpc.Error.New:stream terminated by sending error"), ("termClosed", "drpc.Error.New:stream terminated by sending close"), ("termBothClosed", "drpc.Error.New:stream terminated by both issuing close send")]
def stateEdges : List (String × String × String) := [("open", "CloseSend", "send-closed"),
  ("open", "RecvCloseSend", "recv-closed"),
  ("open", "Close", "terminated"),
  ("open", "SendError", "terminated"),
  ("open", "Cancel", "canceled"),
  ("open", "MsgSend", "open"),
  ("open", "MsgRecv", "open"),
  ("send-closed", "Close", "terminated"),
  ("send-closed", "SendError", "terminated"),
  ("send-closed", "RecvCloseSend", "terminated"),
  ("send-closed", "Cancel", "canceled"),
  ("send-closed", "MsgRecv", "send-closed"),
  ("recv-closed", "Close", "terminated"),
  ("recv-closed", "SendError", "terminated"),
  ("recv-closed", "CloseSend", "terminated"),
  ("recv-closed", "Cancel", "canceled"),
  ("recv-closed", "MsgSend", "recv-closed"),
  ("canceled", "Quiescence", "finished"),
  ("terminated", "Quiescence", "finished")]
def drpcHeader : String := "DRPC!!!1"

end Drpc.Expected
