import Drpc.Generated.Consts
import Drpc.Tie.Expected
/-
  Tie (T1) for C08: the functions the codec model mirrors have the literal/operator
  fingerprint the model was written against.  Regenerated from /repo on every run.
-/
set_option maxRecDepth 100000
namespace Drpc.Tie.C08
open Drpc

theorem ReadVarint : Generated.fp_drpcwire_varint_ReadVarint = Expected.fp_drpcwire_varint_ReadVarint := by decide
theorem AppendVarint : Generated.fp_drpcwire_varint_AppendVarint = Expected.fp_drpcwire_varint_AppendVarint := by decide
theorem ParseFrame : Generated.fp_drpcwire_packet_ParseFrame = Expected.fp_drpcwire_packet_ParseFrame := by decide
theorem AppendFrame : Generated.fp_drpcwire_packet_AppendFrame = Expected.fp_drpcwire_packet_AppendFrame := by decide
theorem SplitN : Generated.fp_drpcwire_split_SplitN = Expected.fp_drpcwire_split_SplitN := by decide
theorem SplitData : Generated.fp_drpcwire_split_SplitData = Expected.fp_drpcwire_split_SplitData := by decide
theorem kinds : Generated.kinds = Expected.kinds := by decide

end Drpc.Tie.C08
