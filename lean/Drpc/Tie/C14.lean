import Drpc.Generated.Consts
import Drpc.Tie.Expected
import Drpc.Http.Serve
/-
  Tie (T1) for C14: the drpchttp functions the model mirrors have the fingerprints the model was
  written against, and the constants and tables the model uses are the ones in the source.
-/
namespace Drpc.Tie.C14
open Drpc

theorem buildContext : Generated.fp_drpchttp_context_buildContext = Expected.fp_drpchttp_context_buildContext := by decide
theorem unhex : Generated.fp_drpchttp_context_unhex = Expected.fp_drpchttp_context_unhex := by decide
theorem unescape : Generated.fp_drpchttp_context_unescape = Expected.fp_drpchttp_context_unescape := by decide
theorem getCode : Generated.fp_drpchttp_handler_getCode = Expected.fp_drpchttp_handler_getCode := by decide
theorem ServeHTTP : Generated.fp_drpchttp_handler_wrapper_ServeHTTP = Expected.fp_drpchttp_handler_wrapper_ServeHTTP := by decide
theorem grpcRead : Generated.fp_drpchttp_encoding_grpcRead = Expected.fp_drpchttp_encoding_grpcRead := by decide
theorem twirpRead : Generated.fp_drpchttp_encoding_twirpRead = Expected.fp_drpchttp_encoding_twirpRead := by decide
theorem readExactly : Generated.fp_drpchttp_encoding_readExactly = Expected.fp_drpchttp_encoding_readExactly := by decide
theorem base64Write : Generated.fp_drpchttp_encoding_base64Write = Expected.fp_drpchttp_encoding_base64Write := by decide
theorem framedWrite : Generated.fp_drpchttp_protocol_grpc_web_grpcWebProtocol_framedWrite = Expected.fp_drpchttp_protocol_grpc_web_grpcWebProtocol_framedWrite := by decide
theorem grpcWeb_MsgSend : Generated.fp_drpchttp_protocol_grpc_web_grpcWebStream_MsgSend = Expected.fp_drpchttp_protocol_grpc_web_grpcWebStream_MsgSend := by decide
theorem grpcWeb_Finish : Generated.fp_drpchttp_protocol_grpc_web_grpcWebStream_Finish = Expected.fp_drpchttp_protocol_grpc_web_grpcWebStream_Finish := by decide
theorem twirp_MsgSend : Generated.fp_drpchttp_protocol_twirp_twirpStream_MsgSend = Expected.fp_drpchttp_protocol_twirp_twirpStream_MsgSend := by decide
theorem twirp_MsgRecv : Generated.fp_drpchttp_protocol_twirp_twirpStream_MsgRecv = Expected.fp_drpchttp_protocol_twirp_twirpStream_MsgRecv := by decide
theorem twirp_Finish : Generated.fp_drpchttp_protocol_twirp_twirpStream_Finish = Expected.fp_drpchttp_protocol_twirp_twirpStream_Finish := by decide
theorem setErrorOrEOF : Generated.fp_drpchttp_protocol_twirp_setErrorOrEOF = Expected.fp_drpchttp_protocol_twirp_setErrorOrEOF := by decide
theorem drpcerr_Code : Generated.fp_drpcerr_err_Code = Expected.fp_drpcerr_err_Code := by decide

/-- the model's limit is the source's `maxSize` -/
theorem maxSize : Generated.httpMaxSize = Http.maxSize := by decide
/-- the model's replacer pairs are the arguments of `strings.NewReplacer` in the source (single bytes) -/
theorem nlSpace : Generated.nlSpace.map Http.asc = Http.nlSpace.flatMap (fun p => [[p.1], [p.2]]) := by decide
/-- the model's status table is the source's `twirpStatus` map -/
theorem twirpStatus : Generated.twirpStatus = Http.twirpStatusS := by decide
set_option maxRecDepth 16384 in
/-- the model's protocol table is the source's `defaultProtocols()` -/
theorem defaultProtocols : Generated.defaultProtocols = Http.protocols.map (fun kv => (kv.1, Http.describe kv.2)) := by decide

/-! constructors, accessors and small helpers -/
theorem x_drpchttp_context_Context : Generated.fp_drpchttp_context_Context = Expected.fp_drpchttp_context_Context := by decide
theorem x_drpchttp_encoding_JSONMarshal : Generated.fp_drpchttp_encoding_JSONMarshal = Expected.fp_drpchttp_encoding_JSONMarshal := by decide
theorem x_drpchttp_encoding_JSONUnmarshal : Generated.fp_drpchttp_encoding_JSONUnmarshal = Expected.fp_drpchttp_encoding_JSONUnmarshal := by decide
theorem x_drpchttp_encoding_base64Read : Generated.fp_drpchttp_encoding_base64Read = Expected.fp_drpchttp_encoding_base64Read := by decide
theorem x_drpchttp_encoding_normalWrite : Generated.fp_drpchttp_encoding_normalWrite = Expected.fp_drpchttp_encoding_normalWrite := by decide
theorem x_drpchttp_encoding_protoMarshal : Generated.fp_drpchttp_encoding_protoMarshal = Expected.fp_drpchttp_encoding_protoMarshal := by decide
theorem x_drpchttp_encoding_protoUnmarshal : Generated.fp_drpchttp_encoding_protoUnmarshal = Expected.fp_drpchttp_encoding_protoUnmarshal := by decide
theorem x_drpchttp_handler_NewWithOptions : Generated.fp_drpchttp_handler_NewWithOptions = Expected.fp_drpchttp_handler_NewWithOptions := by decide
theorem x_drpchttp_options_WithProtocol : Generated.fp_drpchttp_options_WithProtocol = Expected.fp_drpchttp_options_WithProtocol := by decide
theorem x_drpchttp_options_defaultProtocols : Generated.fp_drpchttp_options_defaultProtocols = Expected.fp_drpchttp_options_defaultProtocols := by decide
theorem x_drpchttp_protocol_grpc_web_grpcWebProtocol_NewStream : Generated.fp_drpchttp_protocol_grpc_web_grpcWebProtocol_NewStream = Expected.fp_drpchttp_protocol_grpc_web_grpcWebProtocol_NewStream := by decide
theorem x_drpchttp_protocol_grpc_web_grpcWebStream_Close : Generated.fp_drpchttp_protocol_grpc_web_grpcWebStream_Close = Expected.fp_drpchttp_protocol_grpc_web_grpcWebStream_Close := by decide
theorem x_drpchttp_protocol_grpc_web_grpcWebStream_MsgRecv : Generated.fp_drpchttp_protocol_grpc_web_grpcWebStream_MsgRecv = Expected.fp_drpchttp_protocol_grpc_web_grpcWebStream_MsgRecv := by decide
theorem x_drpchttp_protocol_twirp_twirpProtocol_NewStream : Generated.fp_drpchttp_protocol_twirp_twirpProtocol_NewStream = Expected.fp_drpchttp_protocol_twirp_twirpProtocol_NewStream := by decide

end Drpc.Tie.C14
