import Drpc.Generated.Consts
import Drpc.Tie.Expected
import Drpc.Migrate
/-
  Tie (T1) for C16: the functions of drpcmigrate the model mirrors have the fingerprints the model was
  written against, and the header constant is the one in the source.
-/
set_option maxRecDepth 100000
namespace Drpc.Tie.C16
open Drpc

theorem Route : Generated.fp_drpcmigrate_mux_ListenMux_Route = Expected.fp_drpcmigrate_mux_ListenMux_Route := by decide
theorem Run : Generated.fp_drpcmigrate_mux_ListenMux_Run = Expected.fp_drpcmigrate_mux_ListenMux_Run := by decide
theorem monitorContext : Generated.fp_drpcmigrate_mux_ListenMux_monitorContext = Expected.fp_drpcmigrate_mux_ListenMux_monitorContext := by decide
theorem monitorBase : Generated.fp_drpcmigrate_mux_ListenMux_monitorBase = Expected.fp_drpcmigrate_mux_ListenMux_monitorBase := by decide
theorem monitorListener : Generated.fp_drpcmigrate_mux_ListenMux_monitorListener = Expected.fp_drpcmigrate_mux_ListenMux_monitorListener := by decide
theorem routeConn : Generated.fp_drpcmigrate_mux_ListenMux_routeConn = Expected.fp_drpcmigrate_mux_ListenMux_routeConn := by decide
theorem Accept : Generated.fp_drpcmigrate_listener_listener_Accept = Expected.fp_drpcmigrate_listener_listener_Accept := by decide
theorem Close : Generated.fp_drpcmigrate_listener_listener_Close = Expected.fp_drpcmigrate_listener_listener_Close := by decide
theorem newPrefixConn : Generated.fp_drpcmigrate_prefixconn_newPrefixConn = Expected.fp_drpcmigrate_prefixconn_newPrefixConn := by decide
theorem prefixConn_Read : Generated.fp_drpcmigrate_prefixconn_prefixConn_Read = Expected.fp_drpcmigrate_prefixconn_prefixConn_Read := by decide
theorem HeaderConn_Write : Generated.fp_drpcmigrate_header_HeaderConn_Write = Expected.fp_drpcmigrate_header_HeaderConn_Write := by decide
theorem drpcHeader : Generated.drpcHeader = Expected.drpcHeader := by decide

/-- the header as bytes (ASCII) -/
def headerBytes : Bytes := Generated.drpcHeader.toList.map (fun c => BitVec.ofNat 8 c.toNat)

/-- the documented use: DRPCHeader is 8 bytes, the prefix length servers pass to NewListenMux -/
theorem drpcHeader_len : headerBytes.length = 8 := by decide

/-- end to end on the model: a client whose first write goes through a HeaderConn with DRPCHeader, against
    a mux with prefixLen 8 and `Route(DRPCHeader)` registered as listener 1, is routed there and the
    acceptor reads exactly the payload (here for a 2-byte payload delivered byte by byte). -/
theorem drpcHeader_routed :
    Migrate.routeConnPure (fun _ => 1) 8 [(headerBytes, 1)]
      ⟨(Migrate.Header.expectedWire headerBytes [(0, [0xaa#8, 0xbb#8])]).flatten, 0, false, 0⟩
      = .toRoute 1 ⟨[0xaa#8, 0xbb#8], 0, false, 8⟩ := by decide

/-! constructors, accessors and small helpers -/
theorem x_drpcmigrate_dial_DialWithHeader : Generated.fp_drpcmigrate_dial_DialWithHeader = Expected.fp_drpcmigrate_dial_DialWithHeader := by decide
theorem x_drpcmigrate_dial_HeaderDialer_Dial : Generated.fp_drpcmigrate_dial_HeaderDialer_Dial = Expected.fp_drpcmigrate_dial_HeaderDialer_Dial := by decide
theorem x_drpcmigrate_dial_HeaderDialer_DialContext : Generated.fp_drpcmigrate_dial_HeaderDialer_DialContext = Expected.fp_drpcmigrate_dial_HeaderDialer_DialContext := by decide
theorem x_drpcmigrate_header_NewHeaderConn : Generated.fp_drpcmigrate_header_NewHeaderConn = Expected.fp_drpcmigrate_header_NewHeaderConn := by decide
theorem x_drpcmigrate_listener_newListener : Generated.fp_drpcmigrate_listener_newListener = Expected.fp_drpcmigrate_listener_newListener := by decide
theorem x_drpcmigrate_mux_NewListenMux : Generated.fp_drpcmigrate_mux_NewListenMux = Expected.fp_drpcmigrate_mux_NewListenMux := by decide

end Drpc.Tie.C16
