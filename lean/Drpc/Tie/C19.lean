import Drpc.Generated.Consts
import Drpc.Tie.Expected
/-
  Tie (T1) for the drpcsignal models (C19): every function of signal.go / chan.go that the atomic-step
  models Drpc/Signal.lean and Drpc/Chan.lean mirror has the fingerprint the models were written
  against (the fingerprints contain the drpcdebug.Point calls, i.e. the positions of the scheduling
  points that the driver's table pc ↔ point refers to), and the two status bits are distinct single
  bits of one word — which is what licenses modelling the status word as the pair (errSet, chCreated)
  that is always loaded and stored as a whole.
-/
set_option maxRecDepth 100000
namespace Drpc.Tie.C19
open Drpc

theorem statusErrorSet : Generated.statusErrorSet = Expected.statusErrorSet := by decide
theorem statusChannelCreated : Generated.statusChannelCreated = Expected.statusChannelCreated := by decide
/-- two different single bits of the same word -/
theorem status_bits : Generated.statusErrorSet = 2 ∧ Generated.statusChannelCreated = 1 ∧
    Generated.statusErrorSet &&& Generated.statusChannelCreated = 0 := by decide

theorem Signal_Signal : Generated.fp_drpcsignal_signal_Signal_Signal = Expected.fp_drpcsignal_signal_Signal_Signal := by decide
theorem Signal_signalSlow : Generated.fp_drpcsignal_signal_Signal_signalSlow = Expected.fp_drpcsignal_signal_Signal_signalSlow := by decide
theorem Signal_Set : Generated.fp_drpcsignal_signal_Signal_Set = Expected.fp_drpcsignal_signal_Signal_Set := by decide
theorem Signal_setSlow : Generated.fp_drpcsignal_signal_Signal_setSlow = Expected.fp_drpcsignal_signal_Signal_setSlow := by decide
theorem Signal_Get : Generated.fp_drpcsignal_signal_Signal_Get = Expected.fp_drpcsignal_signal_Signal_Get := by decide
theorem Signal_IsSet : Generated.fp_drpcsignal_signal_Signal_IsSet = Expected.fp_drpcsignal_signal_Signal_IsSet := by decide
theorem Signal_Err : Generated.fp_drpcsignal_signal_Signal_Err = Expected.fp_drpcsignal_signal_Signal_Err := by decide
theorem Chan_do : Generated.fp_drpcsignal_chan_Chan_do = Expected.fp_drpcsignal_chan_Chan_do := by decide
theorem Chan_doSlow : Generated.fp_drpcsignal_chan_Chan_doSlow = Expected.fp_drpcsignal_chan_Chan_doSlow := by decide
theorem Chan_Close : Generated.fp_drpcsignal_chan_Chan_Close = Expected.fp_drpcsignal_chan_Chan_Close := by decide
theorem Chan_Make : Generated.fp_drpcsignal_chan_Chan_Make = Expected.fp_drpcsignal_chan_Chan_Make := by decide
theorem Chan_Get : Generated.fp_drpcsignal_chan_Chan_Get = Expected.fp_drpcsignal_chan_Chan_Get := by decide
theorem Chan_Send : Generated.fp_drpcsignal_chan_Chan_Send = Expected.fp_drpcsignal_chan_Chan_Send := by decide
theorem Chan_Recv : Generated.fp_drpcsignal_chan_Chan_Recv = Expected.fp_drpcsignal_chan_Chan_Recv := by decide
theorem Chan_Full : Generated.fp_drpcsignal_chan_Chan_Full = Expected.fp_drpcsignal_chan_Chan_Full := by decide

end Drpc.Tie.C19
