import Drpc.Generated.Consts
import Drpc.Tie.Expected
import Drpc.Tie.C03
/-
  Tie (T1) for the connection-level properties (C01, C02, C04, C05, C06, C07, C12): manager, stream buffer,
  client connection and server functions have the fingerprints the models, theorems and the e2e suite were
  written against (the stream-level functions are tied by Drpc.Tie.C03).
-/
set_option maxRecDepth 100000
namespace Drpc.Tie.Manager
open Drpc

theorem NewWithOptions : Generated.fp_drpcmanager_manager_NewWithOptions = Expected.fp_drpcmanager_manager_NewWithOptions := by decide
theorem Manager_acquireSemaphore : Generated.fp_drpcmanager_manager_Manager_acquireSemaphore = Expected.fp_drpcmanager_manager_Manager_acquireSemaphore := by decide
theorem Manager_waitForPreviousStream : Generated.fp_drpcmanager_manager_Manager_waitForPreviousStream = Expected.fp_drpcmanager_manager_Manager_waitForPreviousStream := by decide
theorem Manager_terminate : Generated.fp_drpcmanager_manager_Manager_terminate = Expected.fp_drpcmanager_manager_Manager_terminate := by decide
theorem Manager_manageReader : Generated.fp_drpcmanager_manager_Manager_manageReader = Expected.fp_drpcmanager_manager_Manager_manageReader := by decide
theorem Manager_newStream : Generated.fp_drpcmanager_manager_Manager_newStream = Expected.fp_drpcmanager_manager_Manager_newStream := by decide
theorem Manager_manageStreams : Generated.fp_drpcmanager_manager_Manager_manageStreams = Expected.fp_drpcmanager_manager_Manager_manageStreams := by decide
theorem Manager_manageStream : Generated.fp_drpcmanager_manager_Manager_manageStream = Expected.fp_drpcmanager_manager_Manager_manageStream := by decide
theorem Manager_Close : Generated.fp_drpcmanager_manager_Manager_Close = Expected.fp_drpcmanager_manager_Manager_Close := by decide
theorem Manager_NewClientStream : Generated.fp_drpcmanager_manager_Manager_NewClientStream = Expected.fp_drpcmanager_manager_Manager_NewClientStream := by decide
theorem Manager_NewServerStream : Generated.fp_drpcmanager_manager_Manager_NewServerStream = Expected.fp_drpcmanager_manager_Manager_NewServerStream := by decide
theorem Manager_Unblocked : Generated.fp_drpcmanager_manager_Manager_Unblocked = Expected.fp_drpcmanager_manager_Manager_Unblocked := by decide
theorem streamBuffer_Close : Generated.fp_drpcmanager_streambuf_streamBuffer_Close = Expected.fp_drpcmanager_streambuf_streamBuffer_Close := by decide
theorem streamBuffer_Set : Generated.fp_drpcmanager_streambuf_streamBuffer_Set = Expected.fp_drpcmanager_streambuf_streamBuffer_Set := by decide
theorem streamBuffer_Wait : Generated.fp_drpcmanager_streambuf_streamBuffer_Wait = Expected.fp_drpcmanager_streambuf_streamBuffer_Wait := by decide
theorem streamBuffer_Get : Generated.fp_drpcmanager_streambuf_streamBuffer_Get = Expected.fp_drpcmanager_streambuf_streamBuffer_Get := by decide
theorem Conn_Invoke : Generated.fp_drpcconn_conn_Conn_Invoke = Expected.fp_drpcconn_conn_Conn_Invoke := by decide
theorem Conn_doInvoke : Generated.fp_drpcconn_conn_Conn_doInvoke = Expected.fp_drpcconn_conn_Conn_doInvoke := by decide
theorem Conn_NewStream : Generated.fp_drpcconn_conn_Conn_NewStream = Expected.fp_drpcconn_conn_Conn_NewStream := by decide
theorem Conn_doNewStream : Generated.fp_drpcconn_conn_Conn_doNewStream = Expected.fp_drpcconn_conn_Conn_doNewStream := by decide
theorem Server_ServeOne : Generated.fp_drpcserver_server_Server_ServeOne = Expected.fp_drpcserver_server_Server_ServeOne := by decide
theorem Server_Serve : Generated.fp_drpcserver_server_Server_Serve = Expected.fp_drpcserver_server_Server_Serve := by decide
theorem Server_handleRPC : Generated.fp_drpcserver_server_Server_handleRPC = Expected.fp_drpcserver_server_Server_handleRPC := by decide
theorem Tracker_Run : Generated.fp_drpcctx_tracker_Tracker_Run = Expected.fp_drpcctx_tracker_Tracker_Run := by decide
theorem Tracker_track : Generated.fp_drpcctx_tracker_Tracker_track = Expected.fp_drpcctx_tracker_Tracker_track := by decide
theorem Tracker_Wait : Generated.fp_drpcctx_tracker_Tracker_Wait = Expected.fp_drpcctx_tracker_Tracker_Wait := by decide

/-! constructors, accessors and small helpers -/
theorem x_drpcmanager_manager_New : Generated.fp_drpcmanager_manager_New = Expected.fp_drpcmanager_manager_New := by decide
theorem x_drpcmanager_manager_Manager_Closed : Generated.fp_drpcmanager_manager_Manager_Closed = Expected.fp_drpcmanager_manager_Manager_Closed := by decide
theorem x_drpcmanager_manager_isConnectionReset : Generated.fp_drpcmanager_manager_isConnectionReset = Expected.fp_drpcmanager_manager_isConnectionReset := by decide
theorem x_drpcmanager_streambuf_streamBuffer_init : Generated.fp_drpcmanager_streambuf_streamBuffer_init = Expected.fp_drpcmanager_streambuf_streamBuffer_init := by decide
theorem x_drpcconn_conn_Conn_Close : Generated.fp_drpcconn_conn_Conn_Close = Expected.fp_drpcconn_conn_Conn_Close := by decide
theorem x_drpcconn_conn_Conn_Closed : Generated.fp_drpcconn_conn_Conn_Closed = Expected.fp_drpcconn_conn_Conn_Closed := by decide
theorem x_drpcconn_conn_Conn_Unblocked : Generated.fp_drpcconn_conn_Conn_Unblocked = Expected.fp_drpcconn_conn_Conn_Unblocked := by decide
theorem x_drpcconn_conn_New : Generated.fp_drpcconn_conn_New = Expected.fp_drpcconn_conn_New := by decide
theorem x_drpcconn_conn_NewWithOptions : Generated.fp_drpcconn_conn_NewWithOptions = Expected.fp_drpcconn_conn_NewWithOptions := by decide
theorem x_drpcserver_server_New : Generated.fp_drpcserver_server_New = Expected.fp_drpcserver_server_New := by decide
theorem x_drpcserver_server_NewWithOptions : Generated.fp_drpcserver_server_NewWithOptions = Expected.fp_drpcserver_server_NewWithOptions := by decide
theorem x_drpcserver_util_isTemporary : Generated.fp_drpcserver_util_isTemporary = Expected.fp_drpcserver_util_isTemporary := by decide
theorem x_drpcctx_tracker_NewTracker : Generated.fp_drpcctx_tracker_NewTracker = Expected.fp_drpcctx_tracker_NewTracker := by decide
theorem x_drpcctx_tracker_Tracker_Cancel : Generated.fp_drpcctx_tracker_Tracker_Cancel = Expected.fp_drpcctx_tracker_Tracker_Cancel := by decide
theorem x_drpcenc_marshal_MarshalAppend : Generated.fp_drpcenc_marshal_MarshalAppend = Expected.fp_drpcenc_marshal_MarshalAppend := by decide

end Drpc.Tie.Manager
