import Drpc.Generated.Consts
import Drpc.Tie.Expected
import Drpc.Metadata
/-
  Tie (T1) for C11: the functions the metadata model mirrors (serialize.go, metadata.go Encode/Decode,
  Manager.NewServerStream, and the client side's "metadata packet, if non-empty, then invoke" order in
  drpcconn) have the literal/operator fingerprint the model was written against, and the packet kinds
  the scoping model switches on are the ones in the source.  Regenerated from /repo on every run.
-/
set_option maxRecDepth 100000
namespace Drpc.Tie.C11
open Drpc

theorem varintSize : Generated.fp_drpcmetadata_serialize_varintSize = Expected.fp_drpcmetadata_serialize_varintSize := by decide
theorem encodedStringSize : Generated.fp_drpcmetadata_serialize_encodedStringSize = Expected.fp_drpcmetadata_serialize_encodedStringSize := by decide
theorem appendEntry : Generated.fp_drpcmetadata_serialize_appendEntry = Expected.fp_drpcmetadata_serialize_appendEntry := by decide
theorem readEntry : Generated.fp_drpcmetadata_serialize_readEntry = Expected.fp_drpcmetadata_serialize_readEntry := by decide
theorem readKeyValue : Generated.fp_drpcmetadata_serialize_readKeyValue = Expected.fp_drpcmetadata_serialize_readKeyValue := by decide
theorem Encode : Generated.fp_drpcmetadata_metadata_Encode = Expected.fp_drpcmetadata_metadata_Encode := by decide
theorem Decode : Generated.fp_drpcmetadata_metadata_Decode = Expected.fp_drpcmetadata_metadata_Decode := by decide
theorem AddPairs : Generated.fp_drpcmetadata_metadata_AddPairs = Expected.fp_drpcmetadata_metadata_AddPairs := by decide
theorem Add : Generated.fp_drpcmetadata_metadata_Add = Expected.fp_drpcmetadata_metadata_Add := by decide
theorem Get : Generated.fp_drpcmetadata_metadata_Get = Expected.fp_drpcmetadata_metadata_Get := by decide
theorem AppendVarint : Generated.fp_drpcwire_varint_AppendVarint = Expected.fp_drpcwire_varint_AppendVarint := by decide
theorem ReadVarint : Generated.fp_drpcwire_varint_ReadVarint = Expected.fp_drpcwire_varint_ReadVarint := by decide
theorem NewServerStream : Generated.fp_drpcmanager_manager_Manager_NewServerStream = Expected.fp_drpcmanager_manager_Manager_NewServerStream := by decide
theorem doInvoke : Generated.fp_drpcconn_conn_Conn_doInvoke = Expected.fp_drpcconn_conn_Conn_doInvoke := by decide
theorem doNewStream : Generated.fp_drpcconn_conn_Conn_doNewStream = Expected.fp_drpcconn_conn_Conn_doNewStream := by decide
/-- the kinds `serverLoop` switches on are the source's -/
theorem kindInvoke : Generated.kinds.lookup "KindInvoke" = some Metadata.kindInvoke := by decide
theorem kindInvokeMetadata : Generated.kinds.lookup "KindInvokeMetadata" = some Metadata.kindInvokeMetadata := by decide
/-- the tag bytes of the model are the literals of appendEntry / readEntry / readKeyValue -/
theorem tags_in_source :
    (Generated.fp_drpcmetadata_serialize_appendEntry.filter (fun s => s = "10" || s = "18")) = ["10", "10", "18"] ∧
    (Generated.fp_drpcmetadata_serialize_readEntry.filter (fun s => s = "10" || s = "18")) = ["10"] ∧
    (Generated.fp_drpcmetadata_serialize_readKeyValue.filter (fun s => s = "10" || s = "18")) = ["10", "18"] ∧
    Metadata.tagKey = 10#8 ∧ Metadata.tagValue = 18#8 := by decide

end Drpc.Tie.C11
