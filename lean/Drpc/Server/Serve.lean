/-
  Atomic-step model of drpcserver.Server.Serve and drpcctx.Tracker (drpcserver/server.go Serve,
  drpcctx/tracker.go): the accept loop, the goroutine that closes the listener when the context is
  done, and one tracked goroutine per accepted connection running ServeOne.

  Environment: the parent context is cancelled; connections arrive; Accept fails (temporary or
  not); a ServeOne returns.  ServeOne itself is the manager's business (Drpc/Manager/Sys.lean,
  e2e suite); here it is a goroutine that may return at any time and — assumption `ServeOneEnds` of
  the progress theorem — does return once its (tracker) context is done.
-/
namespace Drpc.Server

abbrev Tid := Nat

inductive AcceptErr where
  | temporary | permanent
deriving Repr, DecidableEq

inductive PC where
  | idle
  | done
  -- Serve
  | sStart                        -- tracker := NewTracker(ctx); defers registered
  | sAddCloser                    -- tracker.Run(closer): wg.Add(1)
  | sGoCloser                     -- … go track(closer)
  | sAccept                       -- lis.Accept()
  | sGotErr (e : AcceptErr)       -- Accept returned an error: `if ctx.Err() != nil { return nil }`
  | sSleep                        -- select { timer ; ctx.Done }
  | sAddConn (c : Nat)            -- tracker.Run(ServeOne(conn c)): wg.Add(1)
  | sGoConn (c : Nat)             -- … go track(…)
  | sCancel                       -- deferred tracker.Cancel()
  | sWait                         -- deferred tracker.Wait()
  -- the closer goroutine
  | cWait                         -- <-ctx.Done()
  | cClose                        -- lis.Close()
  | cDone                         -- wg.Done()
  -- a connection goroutine
  | kServe (c : Nat)              -- inside ServeOne(ctx, conn c)
  | kDone (c : Nat)               -- wg.Done()
deriving Repr, DecidableEq

structure Sh where
  ctxDone : Bool := false          -- the context passed to Serve is done
  tcancel : Bool := false          -- tracker.Cancel() was called
  wg : Nat := 0                    -- the WaitGroup counter
  lisCloses : Nat := 0             -- calls of lis.Close()
  queue : List Nat := []           -- connections waiting to be accepted
  nextConn : Nat := 0              -- fresh connection ids
  nextTid : Nat := 2               -- fresh goroutine ids (0: Serve, 1: closer)
  accepted : List Nat := []        -- ghost: connections returned by Accept, in order
  served : List Nat := []          -- ghost: connections a ServeOne goroutine was started for, in order
  ended : List Nat := []           -- ghost: connections whose ServeOne returned
  ret : Option Bool := none        -- Serve returned (true: nil error)
deriving Repr

structure St where
  sh : Sh := {}
  pc : Tid → PC := fun t => if t = 0 then .sStart else .idle

/-- the tracker's context is done -/
def Sh.tdone (sh : Sh) : Bool := sh.ctxDone || sh.tcancel

def St.setPc (s : St) (t : Tid) (p : PC) : St := { s with pc := fun u => if u = t then p else s.pc u }
def St.upd (s : St) (t : Tid) (sh : Sh) (p : PC) : St := { sh := sh, pc := fun u => if u = t then p else s.pc u }

/-- `ch`: Go's choice among ready select branches; whether a failing Accept is temporary -/
def stepPC (s : St) (t : Tid) (ch : Nat) : PC → Option St
  | .idle => none
  | .done => none
  | .sStart => some (s.setPc t .sAddCloser)
  | .sAddCloser => some (s.upd t { s.sh with wg := s.sh.wg + 1 } .sGoCloser)
  | .sGoCloser => some { sh := s.sh, pc := fun u => if u = t then .sAccept else if u = 1 then .cWait else s.pc u }
  | .sAccept =>
    -- a closed listener fails Accept; otherwise a queued connection is returned; otherwise it blocks
    -- (the environment may also make it fail: `Env.acceptErr`)
    if 0 < s.sh.lisCloses then some (s.setPc t (.sGotErr .permanent))
    else match s.sh.queue with
      | c :: rest => some (s.upd t { s.sh with queue := rest, accepted := s.sh.accepted ++ [c] } (.sAddConn c))
      | [] => none
  | .sGotErr e =>
    if s.sh.ctxDone then some (s.upd t { s.sh with ret := some true } .sCancel)
    else match e with
      | .temporary => some (s.setPc t .sSleep)
      | .permanent => some (s.upd t { s.sh with ret := some false } .sCancel)
  | .sSleep =>
    -- select { case <-t.C: continue ; case <-ctx.Done(): return nil }
    if s.sh.ctxDone ∧ ch % 2 = 1 then some (s.upd t { s.sh with ret := some true } .sCancel)
    else some (s.setPc t .sAccept)
  | .sAddConn c => some (s.upd t { s.sh with wg := s.sh.wg + 1 } (.sGoConn c))
  | .sGoConn c =>
    let k := s.sh.nextTid
    some { sh := { s.sh with nextTid := k + 1, served := s.sh.served ++ [c] },
           pc := fun u => if u = t then .sAccept else if u = k then .kServe c else s.pc u }
  | .sCancel => some (s.upd t { s.sh with tcancel := true } .sWait)
  | .sWait => if s.sh.wg = 0 then some (s.setPc t .done) else none
  | .cWait => if s.sh.tdone then some (s.setPc t .cClose) else none
  | .cClose => some (s.upd t { s.sh with lisCloses := s.sh.lisCloses + 1 } .cDone)
  | .cDone => some (s.upd t { s.sh with wg := s.sh.wg - 1 } .done)
  | .kServe _ => none                                   -- returns when the environment says so
  | .kDone _ => some (s.upd t { s.sh with wg := s.sh.wg - 1 } .done)

def step (s : St) (t : Tid) (ch : Nat) : Option St := stepPC s t ch (s.pc t)

inductive Env where
  | cancel                        -- the context passed to Serve is cancelled
  | connect                       -- a client connects
  | acceptErr (e : AcceptErr)     -- a blocked Accept fails
  | serveOneReturns (t : Tid)     -- ServeOne of goroutine t returns
deriving Repr, DecidableEq

def envStep (s : St) : Env → Option St
  | .cancel => some { s with sh := { s.sh with ctxDone := true } }
  | .connect =>
    if s.sh.lisCloses = 0 then
      some { s with sh := { s.sh with queue := s.sh.queue ++ [s.sh.nextConn], nextConn := s.sh.nextConn + 1 } }
    else none
  | .acceptErr e => if s.pc 0 = .sAccept then some (s.setPc 0 (.sGotErr e)) else none
  | .serveOneReturns t =>
    match s.pc t with
    | .kServe c => some (s.upd t { s.sh with ended := s.sh.ended ++ [c] } (.kDone c))
    | _ => none

inductive Reach : St → Prop
  | init : Reach {}
  | step {s s' : St} (t : Tid) (ch : Nat) : Reach s → step s t ch = some s' → Reach s'
  | env {s s' : St} (e : Env) : Reach s → envStep s e = some s' → Reach s'

end Drpc.Server
