/-
  Model of cmd/protoc-gen-go-drpc/main.go (naming functions, the declarations emitted per file,
  per service and per method, the RPC name helper, the four method shapes) and of
  drpcmux.(*Mux).Register / registerOne / HandleRPC's argument wiring.

  Go                                           model
  -------------------------------------------  -----------------------------------------------
  protogen GoName / GoIdent.GoName (strings)   `Ident = List Char` (arbitrary identifier strings;
                                               protogen's name derivation itself is trusted)
  d.ClientIface … d.ServerStreamImpl           `clientIface … serverStreamImpl`
  strings.ReplaceAll(x, "_", "__")             `dbl`
  d.RPCGoString                                `rpcGoString`
  generateClientSignature/ServerSignature      `clientSignature` / `serverSignature`
  generateServerReceiver                       `receiverArgs` / `receiverUses`
  generateEncoding/Service/…Method             `genEncoding` / `genService` / … : List Decl
  reflect type of `DRPCxServer.M`              `methodExpr cs ss : FuncTy`
  Mux.registerOne / Register / HandleRPC       `Mux.registerOne` / `Mux.register` / `Mux.handleArgs`

  Types in signatures are canonical strings with the package qualifier dropped (`*Req`,
  `Context`, `Stream`): import qualification is protogen's business (trusted) and is exercised by
  the go/types run of the suite.  Core Lean only (linked into the driver).
-/
namespace Drpc.Gen

abbrev Ident := List Char

/-- non-critical literals (types, fixed method names) -/
def lit (s : String) : Ident := s.toList

-- ---------------------------------------------------------------------------------------------
-- descriptor

structure Method where
  proto : Ident      -- method.Desc.Name()
  go    : Ident      -- method.GoName
  cs    : Bool       -- method.Desc.IsStreamingClient()
  ss    : Bool       -- method.Desc.IsStreamingServer()
  inTy  : Ident      -- method.Input.GoIdent.GoName
  outTy : Ident      -- method.Output.GoIdent.GoName
deriving Repr, DecidableEq

structure Service where
  proto   : Ident    -- service.Desc.Name()
  go      : Ident    -- service.GoName
  methods : List Method
deriving Repr, DecidableEq

structure FileD where
  ident    : Ident   -- file.GoDescriptorIdent.GoName
  pkg      : Ident   -- proto package ([] = none)
  services : List Service
deriving Repr, DecidableEq

inductive Lib where
  | google | gogo | custom
deriving Repr, DecidableEq

structure Conf where
  lib  : Lib
  json : Bool
deriving Repr, DecidableEq

/-- one Go package: the proto files generated into it and the identifiers other generators
    (protoc-gen-go) declare in it -/
structure Pkg where
  files  : List FileD
  others : List Ident
deriving Repr, DecidableEq

-- ---------------------------------------------------------------------------------------------
-- name helpers (main.go:71-141); the affixes are tied to the source by Drpc/Tie/C17.lean

def pDRPC : Ident := ['D','R','P','C']
def pdrpc : Ident := ['d','r','p','c']
def pNew : Ident := ['N','e','w']
def pEncoding : Ident := ['d','r','p','c','E','n','c','o','d','i','n','g','_']
def pRegister : Ident := ['D','R','P','C','R','e','g','i','s','t','e','r']
def sClient : Ident := ['C','l','i','e','n','t']
def sServer : Ident := ['S','e','r','v','e','r']
def sUnimpl : Ident := ['U','n','i','m','p','l','e','m','e','n','t','e','d','S','e','r','v','e','r']
def sDesc : Ident := ['D','e','s','c','r','i','p','t','i','o','n']
def sStream : Ident := ['S','t','r','e','a','m']

/-- `strings.ReplaceAll(s, "_", "__")` -/
def dbl : Ident → Ident
  | [] => []
  | c :: cs => if c = '_' then '_' :: '_' :: dbl cs else c :: dbl cs

def encodingName (f : FileD) : Ident := pEncoding ++ f.ident
def clientIface (s : Service) : Ident := pDRPC ++ s.go ++ sClient
def clientImpl (s : Service) : Ident := pdrpc ++ s.go ++ sClient
def newClient (s : Service) : Ident := pNew ++ clientIface s
def serverIface (s : Service) : Ident := pDRPC ++ s.go ++ sServer
def serverUnimpl (s : Service) : Ident := pDRPC ++ s.go ++ sUnimpl
def serverDesc (s : Service) : Ident := pDRPC ++ s.go ++ sDesc
def registerFn (s : Service) : Ident := pRegister ++ s.go
/-- `ReplaceAll(S) + "_" + ReplaceAll(M)` -/
def streamBase (s : Service) (m : Method) : Ident := dbl s.go ++ '_' :: dbl m.go
def clientStreamIface (s : Service) (m : Method) : Ident := pDRPC ++ streamBase s m ++ sClient
def clientStreamImpl (s : Service) (m : Method) : Ident := pdrpc ++ streamBase s m ++ sClient
def serverStreamIface (s : Service) (m : Method) : Ident := pDRPC ++ streamBase s m ++ sStream
def serverStreamImpl (s : Service) (m : Method) : Ident := pdrpc ++ streamBase s m ++ sStream

/-- `method.Parent.Desc.FullName()` -/
def fullName (f : FileD) (s : Service) : Ident :=
  if f.pkg = [] then s.proto else f.pkg ++ '.' :: s.proto

/-- `fmt.Sprintf("/%s/%s", FullName, Name)` (RPCGoString, before quoting) -/
def rpcGoString (f : FileD) (s : Service) (m : Method) : Ident :=
  '/' :: fullName f s ++ '/' :: m.proto

-- ---------------------------------------------------------------------------------------------
-- method shapes

/-- kinds of parameters of a server method expression -/
inductive Arg where
  | srv      -- the receiver (the server interface)
  | ctx      -- context.Context
  | msg      -- *InputType
  | stream   -- the server stream interface
deriving Repr, DecidableEq

def streaming (cs ss : Bool) : Bool := ss || cs
def unary (cs ss : Bool) : Bool := !ss && !cs

/-- `reqArgs` of generateServerSignature -/
def serverArgs (cs ss : Bool) : List Arg :=
  (if unary cs ss then [.ctx] else []) ++ (if !cs then [.msg] else []) ++
  (if streaming cs ss then [.stream] else [])

/-- number of results of the server method: `(*Out, error)` for unary, else `error` -/
def serverNumOut (cs ss : Bool) : Nat := if unary cs ss then 2 else 1

structure FuncTy where
  ins    : List Arg
  numOut : Nat
deriving Repr, DecidableEq

/-- reflect type of the method expression `DRPCxServer.M`: the receiver is the first input -/
def methodExpr (cs ss : Bool) : FuncTy := ⟨.srv :: serverArgs cs ss, serverNumOut cs ss⟩

/-- arguments of the call in generateServerReceiver, with the `inN` slot each one reads -/
def receiverUses (cs ss : Bool) : List (Nat × Arg) :=
  let n := if !cs then 2 else 1
  (if !cs then [(1, .msg)] else []) ++ (if streaming cs ss then [(n, .stream)] else [])

def receiverCallArgs (cs ss : Bool) : List Arg :=
  (if unary cs ss then [.ctx] else []) ++ (receiverUses cs ss).map (·.2)

-- ---------------------------------------------------------------------------------------------
-- drpcmux

namespace Mux

/-- `data.in1`: `streamType` or `mt.In(k)` (with the kind of parameter found there) -/
inductive In1 where
  | stream
  | param (idx : Nat) (a : Arg)
deriving Repr, DecidableEq

structure RpcData where
  unitary : Bool
  in1 : In1
  in2 : Bool       -- `data.in2 = streamType`
deriving Repr, DecidableEq

inductive Reg where
  | ok (d : RpcData)
  | err            -- "unknown method type"
  | panic          -- `mt.In(i)` out of range
deriving Repr, DecidableEq

/-- `registerOne`'s switch on `reflect.TypeOf(method)` (`Implements(messageType)` is always true:
    `drpc.Message` is the empty interface). -/
def registerOne (mt : FuncTy) : Reg :=
  if mt.numOut = 2 then
    match mt.ins[2]? with
    | none => .panic
    | some a => .ok { unitary := true, in1 := .param 2 a, in2 := false }
  else if mt.ins.length = 3 then
    match mt.ins[1]? with
    | none => .panic
    | some a => .ok { unitary := false, in1 := .param 1 a, in2 := true }
  else if mt.ins.length = 2 then
    .ok { unitary := false, in1 := .stream, in2 := false }
  else .err

/-- what HandleRPC hands to the receiver as (in1, in2): a decoded message of the type stored in
    `data.in1` (or the stream when that is `streamType`), and always the stream. -/
inductive Supplied where
  | stream
  | message (a : Arg)
deriving Repr, DecidableEq

def handleArgs (d : RpcData) : Option (Supplied × Supplied) :=
  match d.in1 with
  | .stream => some (.stream, .stream)
  | .param _ .stream => some (.stream, .stream)          -- `mt.In(k) == streamType`
  | .param _ .msg => some (.message .msg, .stream)       -- `reflect.New(in1.Elem())`, MsgRecv
  | .param _ _ => none                                   -- `Elem()` of an interface type panics

def supplied (d : RpcData) (slot : Nat) : Option Supplied :=
  match handleArgs d with
  | none => none
  | some a => if slot = 1 then some a.1 else if slot = 2 then some a.2 else none

/-- the value the generated receiver expects in a slot it type-asserts to kind `a` -/
def expects : Arg → Supplied
  | .stream => .stream
  | a => .message a

inductive RegAll where
  | ok (rpcs : List (Ident × RpcData))    -- in registration order (later entries overwrite)
  | invalidIndex (i : Nat)                -- "Description returned invalid method for index"
  | err
  | panic
deriving Repr, DecidableEq

/-- `Register`: `for i := 0; i < n; i++ { …desc.Method(i)…; registerOne }` -/
def registerFrom (method : Nat → Option (Ident × FuncTy)) : Nat → Nat → List (Ident × RpcData) → RegAll
  | 0, _, acc => .ok acc
  | fuel + 1, i, acc =>
    match method i with
    | none => .invalidIndex i
    | some (rpc, mt) =>
      match registerOne mt with
      | .ok d => registerFrom method fuel (i + 1) (acc ++ [(rpc, d)])
      | .err => .err
      | .panic => .panic

def register (numMethods : Nat) (method : Nat → Option (Ident × FuncTy)) : RegAll :=
  registerFrom method numMethods 0 []

end Mux

-- ---------------------------------------------------------------------------------------------
-- emitted declarations

structure Sig where
  name    : Ident
  params  : List Ident
  results : List Ident
deriving Repr, DecidableEq

inductive Elem where
  | embed (t : Ident)
  | meth (s : Sig)
deriving Repr, DecidableEq

inductive Decl where
  | iface (name : Ident) (elems : List Elem)
  | struct (name : Ident) (fields : List Ident)
  | func (sig : Sig)
  | meth (recv : Ident) (sig : Sig)
  /-- `c.cc.Invoke(ctx, rpc, …)` / `c.cc.NewStream(ctx, rpc, …)` in a client method -/
  | call (recv meth : Ident) (newStream : Bool) (rpc : Ident)
  | numMethods (recv : Ident) (n : Nat)
  /-- `case idx: return rpc, enc{}, func(…){ return [nil,] srv.(iface).meth(args) }, iface.meth, true` -/
  | descCase (recv : Ident) (idx : Nat) (rpc enc : Ident) (retNil : Bool) (iface meth : Ident) (args : List Ident)
  | descDefault (recv : Ident)
deriving Repr, DecidableEq

/-- the package-level identifier a declaration introduces -/
def Decl.topName? : Decl → Option Ident
  | .iface n _ => some n
  | .struct n _ => some n
  | .func s => some s.name
  | _ => none

def tContext := lit "Context"
def tConn := lit "Conn"
def tStream := lit "Stream"
def tError := lit "error"
def tMessage := lit "Message"
def tBytes := lit "[]byte"
def ptr (t : Ident) : Ident := '*' :: t

/-- generateEncoding -/
def genEncoding (c : Conf) (f : FileD) : List Decl :=
  let e := encodingName f
  [.struct e [],
   .meth e ⟨lit "Marshal", [tMessage], [tBytes, tError]⟩] ++
  (if c.lib = .custom then [] else [.meth e ⟨lit "MarshalAppend", [tBytes, tMessage], [tBytes, tError]⟩]) ++
  [.meth e ⟨lit "Unmarshal", [tBytes, tMessage], [tError]⟩] ++
  (if c.json then
    [.meth e ⟨lit "JSONMarshal", [tMessage], [tBytes, tError]⟩,
     .meth e ⟨lit "JSONUnmarshal", [tBytes, tMessage], [tError]⟩]
   else [])

/-- generateClientSignature -/
def clientSignature (s : Service) (m : Method) : Sig :=
  { name := m.go
    params := tContext :: (if m.cs then [] else [ptr m.inTy])
    results := [if m.ss || m.cs then clientStreamIface s m else ptr m.outTy, tError] }

def argTy (s : Service) (m : Method) : Arg → Ident
  | .srv => serverIface s
  | .ctx => tContext
  | .msg => ptr m.inTy
  | .stream => serverStreamIface s m

/-- generateServerSignature -/
def serverSignature (s : Service) (m : Method) : Sig :=
  { name := m.go
    params := (serverArgs m.cs m.ss).map (argTy s m)
    results := if unary m.cs m.ss then [ptr m.outTy, tError] else [tError] }

/-- generateClientMethod -/
def genClientMethod (f : FileD) (s : Service) (m : Method) : List Decl :=
  let impl := ptr (clientImpl s)
  if unary m.cs m.ss then
    [.meth impl (clientSignature s m), .call impl m.go false (rpcGoString f s m)]
  else
    let x := ptr (clientStreamImpl s m)
    let genSend := m.cs
    let genRecv := m.ss
    let genCloseAndRecv := !m.ss
    [.meth impl (clientSignature s m), .call impl m.go true (rpcGoString f s m),
     .iface (clientStreamIface s m)
       ([.embed tStream] ++
        (if genSend then [.meth ⟨lit "Send", [ptr m.inTy], [tError]⟩] else []) ++
        (if genRecv then [.meth ⟨lit "Recv", [], [ptr m.outTy, tError]⟩] else []) ++
        (if genCloseAndRecv then [.meth ⟨lit "CloseAndRecv", [], [ptr m.outTy, tError]⟩] else [])),
     .struct (clientStreamImpl s m) [tStream],
     .meth x ⟨lit "GetStream", [], [tStream]⟩] ++
    (if genSend then [.meth x ⟨lit "Send", [ptr m.inTy], [tError]⟩] else []) ++
    (if genRecv then [.meth x ⟨lit "Recv", [], [ptr m.outTy, tError]⟩,
                      .meth x ⟨lit "RecvMsg", [ptr m.outTy], [tError]⟩] else []) ++
    (if genCloseAndRecv then [.meth x ⟨lit "CloseAndRecv", [], [ptr m.outTy, tError]⟩,
                              .meth x ⟨lit "CloseAndRecvMsg", [ptr m.outTy], [tError]⟩] else [])

/-- generateServerMethod (emitted for EVERY method, also unary ones) -/
def genServerMethod (s : Service) (m : Method) : List Decl :=
  let x := ptr (serverStreamImpl s m)
  let genSend := m.ss
  let genSendAndClose := !m.ss
  let genRecv := m.cs
  [.iface (serverStreamIface s m)
     ([.embed tStream] ++
      (if genSend then [.meth ⟨lit "Send", [ptr m.outTy], [tError]⟩] else []) ++
      (if genSendAndClose then [.meth ⟨lit "SendAndClose", [ptr m.outTy], [tError]⟩] else []) ++
      (if genRecv then [.meth ⟨lit "Recv", [], [ptr m.inTy, tError]⟩] else [])),
   .struct (serverStreamImpl s m) [tStream],
   .meth x ⟨lit "GetStream", [], [tStream]⟩] ++
  (if genSend then [.meth x ⟨lit "Send", [ptr m.outTy], [tError]⟩] else []) ++
  (if genSendAndClose then [.meth x ⟨lit "SendAndClose", [ptr m.outTy], [tError]⟩] else []) ++
  (if genRecv then [.meth x ⟨lit "Recv", [], [ptr m.inTy, tError]⟩,
                    .meth x ⟨lit "RecvMsg", [ptr m.inTy], [tError]⟩] else [])

/-- canonical text of one argument of the receiver's call (generateServerReceiver) -/
def receiverArg (s : Service) (m : Method) : Option Nat × Arg → Ident
  | (_, .ctx) => lit "ctx"
  | (some n, .msg) => lit "in" ++ (toString n).toList ++ lit ".(" ++ ptr m.inTy ++ lit ")"
  | (some n, .stream) => '&' :: serverStreamImpl s m ++ lit "{in" ++ (toString n).toList ++ lit ".(Stream)}"
  | _ => lit "?"

def receiverArgs (s : Service) (m : Method) : List Ident :=
  ((if unary m.cs m.ss then [(none, Arg.ctx)] else []) ++
   (receiverUses m.cs m.ss).map (fun (u : Nat × Arg) => (some u.1, u.2))).map (receiverArg s m)

/-- one `case i:` of the Description's `Method` switch -/
def descCase (f : FileD) (s : Service) (i : Nat) (m : Method) : Decl :=
  .descCase (serverDesc s) i (rpcGoString f s m) (encodingName f) (!unary m.cs m.ss)
    (serverIface s) m.go (receiverArgs s m)

def enumFrom {α : Type} : Nat → List α → List (Nat × α)
  | _, [] => []
  | i, x :: xs => (i, x) :: enumFrom (i + 1) xs

/-- generateService -/
def genService (f : FileD) (s : Service) : List Decl :=
  [.iface (clientIface s)
     (.meth ⟨lit "DRPCConn", [], [tConn]⟩ :: s.methods.map (fun m => .meth (clientSignature s m))),
   .struct (clientImpl s) [lit "cc:Conn"],
   .func ⟨newClient s, [tConn], [clientIface s]⟩,
   .meth (ptr (clientImpl s)) ⟨lit "DRPCConn", [], [tConn]⟩] ++
  s.methods.flatMap (genClientMethod f s) ++
  [.iface (serverIface s) (s.methods.map (fun m => .meth (serverSignature s m))),
   .struct (serverUnimpl s) []] ++
  s.methods.map (fun m => .meth (ptr (serverUnimpl s)) (serverSignature s m)) ++
  [.struct (serverDesc s) [],
   .meth (serverDesc s) ⟨lit "NumMethods", [], [lit "int"]⟩,
   .numMethods (serverDesc s) s.methods.length,
   .meth (serverDesc s) ⟨lit "Method", [lit "int"],
      [lit "string", lit "Encoding", lit "Receiver", lit "interface{}", lit "bool"]⟩] ++
  (enumFrom 0 s.methods).map (fun im => descCase f s im.1 im.2) ++
  [.descDefault (serverDesc s),
   .func ⟨registerFn s, [lit "Mux", serverIface s], [tError]⟩] ++
  s.methods.flatMap (genServerMethod s)

/-- generateFile, including main's `len(f.Services) == 0 → continue` -/
def genFile (c : Conf) (f : FileD) : List Decl :=
  if f.services = [] then [] else genEncoding c f ++ f.services.flatMap (genService f)

def genPkg (c : Conf) (p : Pkg) : List Decl := p.files.flatMap (genFile c)

/-- all package-level identifiers the generator emits into the package, with repetitions -/
def emittedNames (c : Conf) (p : Pkg) : List Ident := (genPkg c p).filterMap Decl.topName?

-- ---------------------------------------------------------------------------------------------
-- the generated Description as the mux sees it

/-- `NumMethods()` -/
def numMethods (s : Service) : Nat := s.methods.length

/-- `Method(n)`: the generated `switch n { case 0: … case k-1: … default: return …, false }`,
    evaluated: the first case whose label equals `n` -/
def descMethod (f : FileD) (s : Service) (n : Nat) : Option (Ident × FuncTy) :=
  ((enumFrom 0 s.methods).find? (fun im => im.1 == n)).map
    (fun im => (rpcGoString f s im.2, methodExpr im.2.cs im.2.ss))

/-- the rpc string the client stub of method `m` passes to Invoke/NewStream -/
def clientRPC (f : FileD) (s : Service) (m : Method) : Option Ident :=
  (genClientMethod f s m).findSome? fun
    | .call _ _ _ rpc => some rpc
    | _ => none

/-- the rpc string of `case i` in the emitted Description -/
def descRPC (f : FileD) (s : Service) (i : Nat) : Option Ident :=
  (genService f s).findSome? fun
    | .descCase _ j rpc _ _ _ _ _ => if j = i then some rpc else none
    | _ => none

-- ---------------------------------------------------------------------------------------------
-- collisions

def services (p : Pkg) : List Service := p.files.flatMap (·.services)

/-- the files main() generates something for -/
def genFiles (p : Pkg) : List FileD := p.files.filter (fun f => f.services ≠ [])

def sUnimplemented : Ident := ['U','n','i','m','p','l','e','m','e','n','t','e','d']
def sRegister : Ident := ['R','e','g','i','s','t','e','r']
def sEncoding : Ident := ['E','n','c','o','d','i','n','g','_']
def sDRPCConn : Ident := ['D','R','P','C','C','o','n','n']

/-- the identifier bodies (after `DRPC`) that `DRPCRegister<S>` could coincide with -/
def registerTargets (s' : Service) : List Ident :=
  [s'.go ++ sClient, s'.go ++ sServer, s'.go ++ sUnimpl, s'.go ++ sDesc] ++
  s'.methods.flatMap (fun m =>
    (if streaming m.cs m.ss then [streamBase s' m ++ sClient] else []) ++ [streamBase s' m ++ sStream])

/-- the identifier bodies (after `drpc`) that `drpcEncoding_<F>` could coincide with -/
def encodingTargets (s' : Service) : List Ident :=
  [s'.go ++ sClient] ++
  s'.methods.flatMap (fun m =>
    (if streaming m.cs m.ss then [streamBase s' m ++ sClient] else []) ++ [streamBase s' m ++ sStream])

/-- Collision classes, each a decidable condition on the Go names of the descriptor. -/
structure CollisionFree (c : Conf) (p : Pkg) : Prop where
  /-- two services with one Go name (`foo_bar` / `FooBar`) -/
  services_distinct : (services p).Pairwise (fun a b => a.go ≠ b.go)
  /-- two methods of a service with one Go name (`get_x` / `GetX`) -/
  methods_distinct : ∀ s ∈ services p, s.methods.Pairwise (fun a b => a.go ≠ b.go)
  /-- well-formedness protogen guarantees: a method's Go name does not begin with `_`
      (without it `X_`.`Y` and `X`.`_Y` share `X___Y`) -/
  method_no_leading_underscore : ∀ s ∈ services p, ∀ m ∈ s.methods, m.go.head? ≠ some '_'
  /-- service `A_B` against streaming method `B` of service `A` -/
  service_vs_stream : ∀ s ∈ services p, ∀ s' ∈ services p, ∀ m ∈ s'.methods,
      streaming m.cs m.ss = true → s.go ≠ streamBase s' m
  /-- service `FooUnimplemented` against service `Foo` -/
  unimplemented : ∀ s ∈ services p, ∀ s' ∈ services p, s.go ≠ s'.go ++ sUnimplemented
  /-- `DRPCRegister<S>` against any `DRPC…` type (`RegisterFoo` / `FooClient`) -/
  register : ∀ s ∈ services p, ∀ s' ∈ services p, sRegister ++ s.go ∉ registerTargets s'
  /-- `drpcEncoding_<File>` against any `drpc…` type, and against another file's encoding -/
  encoding : (genFiles p).Pairwise (fun a b => a.ident ≠ b.ident) ∧
      ∀ f ∈ genFiles p, ∀ s' ∈ services p, sEncoding ++ f.ident ∉ encodingTargets s'
  /-- identifiers declared by other generators in the package -/
  others : p.others.Nodup ∧ ∀ o ∈ p.others, o ∉ emittedNames c p
  /-- a method called `DRPCConn` clashes with the accessor of the client interface -/
  drpcconn : ∀ s ∈ services p, ∀ m ∈ s.methods, m.go ≠ sDRPCConn

instance (c : Conf) (p : Pkg) : Decidable (CollisionFree c p) :=
  if h1 : (services p).Pairwise (fun a b => a.go ≠ b.go) then
  if h2 : ∀ s ∈ services p, s.methods.Pairwise (fun a b => a.go ≠ b.go) then
  if h3 : ∀ s ∈ services p, ∀ m ∈ s.methods, m.go.head? ≠ some '_' then
  if h4 : ∀ s ∈ services p, ∀ s' ∈ services p, ∀ m ∈ s'.methods,
      streaming m.cs m.ss = true → s.go ≠ streamBase s' m then
  if h5 : ∀ s ∈ services p, ∀ s' ∈ services p, s.go ≠ s'.go ++ sUnimplemented then
  if h6 : ∀ s ∈ services p, ∀ s' ∈ services p, sRegister ++ s.go ∉ registerTargets s' then
  if h7 : (genFiles p).Pairwise (fun a b => a.ident ≠ b.ident) ∧
      ∀ f ∈ genFiles p, ∀ s' ∈ services p, sEncoding ++ f.ident ∉ encodingTargets s' then
  if h8 : p.others.Nodup ∧ ∀ o ∈ p.others, o ∉ emittedNames c p then
  if h9 : ∀ s ∈ services p, ∀ m ∈ s.methods, m.go ≠ sDRPCConn then
    isTrue ⟨h1, h2, h3, h4, h5, h6, h7, h8, h9⟩
  else isFalse (fun h => h9 h.drpcconn)
  else isFalse (fun h => h8 h.others)
  else isFalse (fun h => h7 h.encoding)
  else isFalse (fun h => h6 h.register)
  else isFalse (fun h => h5 h.unimplemented)
  else isFalse (fun h => h4 h.service_vs_stream)
  else isFalse (fun h => h3 h.method_no_leading_underscore)
  else isFalse (fun h => h2 h.methods_distinct)
  else isFalse (fun h => h1 h.services_distinct)

/-- labels of the violated collision classes (what the suite reports as `pattern=`) -/
def collisionLabels (c : Conf) (p : Pkg) : List String :=
  (if (services p).Pairwise (fun a b => a.go ≠ b.go) then [] else ["dup-service"]) ++
  (if ∀ s ∈ services p, s.methods.Pairwise (fun a b => a.go ≠ b.go) then [] else ["dup-method"]) ++
  (if ∀ s ∈ services p, ∀ m ∈ s.methods, m.go.head? ≠ some '_' then [] else ["leading-underscore"]) ++
  (if ∀ s ∈ services p, ∀ s' ∈ services p, ∀ m ∈ s'.methods,
      streaming m.cs m.ss = true → s.go ≠ streamBase s' m then [] else ["service-vs-stream"]) ++
  (if ∀ s ∈ services p, ∀ s' ∈ services p, s.go ≠ s'.go ++ sUnimplemented then [] else ["unimplemented"]) ++
  (if ∀ s ∈ services p, ∀ s' ∈ services p, sRegister ++ s.go ∉ registerTargets s' then [] else ["register"]) ++
  (if (genFiles p).Pairwise (fun a b => a.ident ≠ b.ident) ∧
      ∀ f ∈ genFiles p, ∀ s' ∈ services p, sEncoding ++ f.ident ∉ encodingTargets s' then [] else ["encoding"]) ++
  (if p.others.Nodup ∧ ∀ o ∈ p.others, o ∉ emittedNames c p then [] else ["other-decl"]) ++
  (if ∀ s ∈ services p, ∀ m ∈ s.methods, m.go ≠ sDRPCConn then [] else ["drpcconn-method"])

end Drpc.Gen
